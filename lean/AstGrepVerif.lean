-- Root of the `AstGrepVerif` library: executable model, specs, lemmas, property theorems.
import AstGrepVerif.Model.MetaVar
import AstGrepVerif.Model.Notation
import AstGrepVerif.Model.Indent
import AstGrepVerif.Model.Template
import AstGrepVerif.Model.Tree
import AstGrepVerif.Model.Env
import AstGrepVerif.Model.Match
import AstGrepVerif.Model.Pattern
import AstGrepVerif.Spec.Align
import AstGrepVerif.Model.Rule
import AstGrepVerif.Generated.Tables
import AstGrepVerif.Props.C20
import AstGrepVerif.Props.C02
import AstGrepVerif.Props.C03
import AstGrepVerif.Spec.RuleRef
