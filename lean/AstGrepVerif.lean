-- Root of the `AstGrepVerif` library: executable model, specs, lemmas, property theorems.
import AstGrepVerif.Model.MetaVar
import AstGrepVerif.Model.Notation
import AstGrepVerif.Model.Indent
import AstGrepVerif.Model.Template
import AstGrepVerif.Generated.Tables
import AstGrepVerif.Props.C20
