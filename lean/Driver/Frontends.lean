/-
Driver ops for the front-end units (C08 / C09 findings): the model's prediction of what every
front end shows for one rule (set) and one text.  Canonical sorting of records is glue (the
harness sorts the implementation's records with the same key).
-/
import Driver.Basic
import Driver.Indent
import Driver.Splice
import AstGrepVerif.Model.Frontends

open Lean AGV

namespace Driver.Fe

/-- a boolean key that recorded ops from before the key existed do not carry: absent = `false` -/
def getBoolD (j : Json) (k : String) : Except String Bool :=
  match j.getObjVal? k with
  | .ok .null => pure false
  | .ok v => v.getBool?
  | .error _ => pure false

def parseVariant (j : Json) : Except String Variant := do
  pure { refForwards := ← getBool j "ref", lspFixerRange := ← getBool j "lsp",
         lspOuterFirst := ← getBool j "outer", stdinFiltersOff := ← getBool j "stdin_off",
         stdinFiltersLang := ← getBoolD j "stdin_lang" }

def parseRng (j : Json) : Except String Rng := do
  let l ← arrOf j
  pure ⟨← (← nth l 0).getNat?, ← (← nth l 1).getNat?⟩

def parseSite (j : Json) : Except String MatchSite := do
  pure { node := ← parseRng (← j.getObjVal? "n"),
         prevs := ← (← arrOf (← j.getObjVal? "p")).mapM parseSib,
         nexts := ← (← arrOf (← j.getObjVal? "x")).mapM parseSib,
         inserted := ← getBytes j "ins" }

/-! canonical order: numeric fields, then string fields (bytewise) -/

def natsLt : List Nat → List Nat → Bool
  | [], [] => false
  | [], _ :: _ => true
  | _ :: _, [] => false
  | a :: as, b :: bs => if a < b then true else if b < a then false else natsLt as bs

def bytesLt : Bytes → Bytes → Bool
  | [], [] => false
  | [], _ :: _ => true
  | _ :: _, [] => false
  | a :: as, b :: bs => if a < b then true else if b < a then false else bytesLt as bs

def strsLt : List Bytes → List Bytes → Bool
  | [], [] => false
  | [], _ :: _ => true
  | _ :: _, [] => false
  | a :: as, b :: bs => if bytesLt a b then true else if bytesLt b a then false else strsLt as bs

abbrev Key := List Nat × List Bytes

def keyLt (a b : Key) : Bool :=
  if natsLt a.1 b.1 then true else if natsLt b.1 a.1 then false else strsLt a.2 b.2

def insertKeyed {α : Type} (x : Key × α) : List (Key × α) → List (Key × α)
  | [] => [x]
  | y :: ys => if keyLt y.1 x.1 then y :: insertKeyed x ys else x :: y :: ys

def sortKeyed {α : Type} (l : List (Key × α)) : List α :=
  (l.foldr insertKeyed []).map (·.2)

def jPosEdit (a b : LPos) (t : Json) : Json :=
  Json.arr #[jNat a.1, jNat a.2, jNat b.1, jNat b.2, t]

def jEdit (e : REdit) : Json :=
  let d := diffOfEdit e
  Json.arr #[jNat d.start, jNat d.stop, jBytes d.rep]

def jOptText : Option (Option Bytes) → Json
  | none => Json.str "panic"
  | some none => Json.null
  | some (some t) => jBytes t

def opFeEdits : Handler := fun a => do
  let v ← parseVariant (← a.getObjVal? "v")
  let src ← getBytes a "src"
  let es ← parseStopBy ((a.getObjVal? "es").toOption.getD .null)
  let ee ← parseStopBy ((a.getObjVal? "ee").toOption.getD .null)
  let ms ← (← arrOf (← a.getObjVal? "ms")).mapM parseSite
  let f : FixRule := ⟨es, ee⟩
  let json := ms.map fun s =>
    let d := cliDiff v f s
    Json.arr #[jNat s.node.start, jNat s.node.stop, jNat d.start, jNat d.stop, jBytes d.rep]
  let update := match updateAllText v f src ms with
    | .ok t => jBytes t
    | .error _ => Json.str "panic"
  let snap := jOptText (snapshotFixed v f src ms)
  let first (byRef : Bool) : Json := match ms with
    | [] => Json.null
    | s :: _ => jEdit (libEdit v byRef f s)
  let diags := lspDiags? v f src ms
  let (diag, quick, fixall) := match diags with
    | none => (Json.str "panic", Json.str "panic", Json.str "panic")
    | some ds =>
      let dj := sortKeyed (ds.map fun d =>
        (([d.start.1, d.start.2, d.stop.1, d.stop.2], [d.fixed.getD []]),
         jPosEdit d.start d.stop (match d.fixed with | some t => jBytes t | none => Json.null)))
      let qj := sortKeyed (ds.map fun d =>
        (([d.editStart.1, d.editStart.2, d.editStop.1, d.editStop.2], [d.fixed.getD []]),
         jPosEdit d.editStart d.editStop (jBytes (d.fixed.getD []))))
      let fa := (lspFixAll v ds).map fun d => jPosEdit d.editStart d.editStop (jBytes (d.fixed.getD []))
      (Json.arr dj.toArray, Json.arr qj.toArray, Json.arr fa.toArray)
  pure (Json.mkObj [
    ("json", Json.arr json.toArray), ("update", update), ("snap", snap),
    ("lib_val", first false), ("lib_ref", first true), ("astgrep", snap),
    ("diag", diag), ("quick", quick), ("fixall", fixall)])

def parseSev (s : String) : Except String Sev :=
  match s with
  | "error" => pure .error | "warning" => pure .warning | "info" => pure .info
  | "hint" => pure .hint | "off" => pure .off
  | _ => throw s!"bad severity {s}"

def parseMatches (j : Json) : Except String (List FMatch) := do
  (← arrOf j).mapM fun m => do
    pure ({ node := ← parseRng (← m.getObjVal? "n"), env := ← getTEnv m } : FMatch)

def parseRuleMatches (j : Json) : Except String RuleMatches := do
  let note ← match j.getObjVal? "note" with
    | .ok (.str n) => pure (some (strBytes n))
    | _ => pure none
  let r : FRule := { id := ← getBytes j "id", sev := ← parseSev (← getStr j "sev"),
                     message := ← getBytes j "msg", note := note,
                     keys := (← getStrList j "keys").map strBytes,
                     foreign := ← getBoolD j "foreign" }
  pure (r, ← parseMatches (← j.getObjVal? "ms"))

/-- the matches `sg test` looks at: those of the rule on the case parsed in the RULE's language
(`own_ms`, sent for a foreign rule); for any other rule its matches on the document -/
def parseTestMatches (j : Json) : Except String (List FMatch) :=
  match j.getObjVal? "own_ms" with
  | .ok (.arr a) => parseMatches (.arr a)
  | _ => do parseMatches (← j.getObjVal? "ms")

def jFinding (f : Finding) : Key × Json :=
  (([f.range.start, f.range.stop, f.start.1, f.start.2, f.stop.1, f.stop.2], [f.id, f.message]),
   Json.arr #[jBytes f.id, jNat f.range.start, jNat f.range.stop, jNat f.start.1, jNat f.start.2,
              jNat f.stop.1, jNat f.stop.2, jBytes f.message])

def jFindings : Option (List Finding) → Json
  | none => Json.str "panic"
  | some fs => Json.arr (sortKeyed (fs.map jFinding)).toArray

def ghName : GhLevel → String
  | .error => "error" | .warning => "warning" | .notice => "notice"

def opFeFindings : Handler := fun a => do
  let v ← parseVariant (← a.getObjVal? "v")
  let src ← getBytes a "src"
  let rules ← arrOf (← a.getObjVal? "rules")
  let rs ← rules.mapM parseRuleMatches
  let tms ← rules.mapM parseTestMatches
  let file := jFindings (scanFindings src rs)
  let stdin := jFindings (stdinFindings v src rs)
  let github := match githubFindings src rs with
    | none => Json.str "panic"
    | some gs => Json.arr (sortKeyed (gs.map fun (id, l, ln, el, msg) =>
        (([ln, el], [id, strBytes (ghName l), msg]),
         Json.arr #[jBytes id, Json.str (ghName l), jNat ln, jNat el, jBytes msg]))).toArray
  let test := Json.mkObj ((rs.zip tms).map fun ((r, _), ms) =>
    (bytesStr r.id, match testVerdictValid r ms with
      | none => Json.null
      | some true => Json.str "."
      | some false => Json.str "N"))
  let lsp := match lspDiagnostics src rs with
    | none => Json.str "panic"
    | some fs => Json.arr (sortKeyed (fs.map fun f =>
        (([f.start.1, f.start.2, f.stop.1, f.stop.2, f.severity], [f.id, f.message]),
         Json.arr #[jBytes f.id, jNat f.start.1, jNat f.start.2, jNat f.stop.1, jNat f.stop.2,
                    jBytes f.message, jNat f.severity]))).toArray
  pure (Json.mkObj [("file", file), ("pretty", file), ("compact", file), ("github", github),
                    ("stdin", stdin), ("test", test), ("lsp", lsp)])

def ops : List (String × Handler) := [("fe_edits", opFeEdits), ("fe_findings", opFeFindings)]

end Driver.Fe

namespace Driver

/-- helpers live in `Driver.Fe` so that they cannot clash with other driver files -/
def frontendsOps : List (String × Handler) := Fe.ops

end Driver
