/-
Driver helpers: JSON access, conversions between JSON strings and the model's text types.
The driver is trusted glue (part of the correspondence check), not part of the model.
-/
import Lean.Data.Json
import AstGrepVerif.Model.MetaVar
import AstGrepVerif.Model.Indent

open Lean

namespace Driver

abbrev Handler := Json → Except String Json

def getStr (j : Json) (k : String) : Except String String := do
  (← j.getObjVal? k).getStr?

def getNat (j : Json) (k : String) : Except String Nat := do
  (← j.getObjVal? k).getNat?

def getInt (j : Json) (k : String) : Except String Int := do
  (← j.getObjVal? k).getInt?

def getBool (j : Json) (k : String) : Except String Bool := do
  (← j.getObjVal? k).getBool?

def getArr (j : Json) (k : String) : Except String (Array Json) := do
  (← j.getObjVal? k).getArr?

def getOptInt (j : Json) (k : String) : Except String (Option Int) :=
  match j.getObjVal? k with
  | .ok .null => pure none
  | .ok v => do pure (some (← v.getInt?))
  | .error _ => pure none

def getChar (j : Json) (k : String) : Except String Char := do
  let s ← getStr j k
  match s.toList with
  | [c] => pure c
  | _ => throw s!"expected one char in {k}"

def strBytes (s : String) : AGV.Bytes := s.toUTF8.toList

def bytesStr (b : AGV.Bytes) : String :=
  match String.fromUTF8? (ByteArray.mk b.toArray) with
  | some s => s
  | none => "<invalid utf8>"

def getBytes (j : Json) (k : String) : Except String AGV.Bytes := do
  pure (strBytes (← getStr j k))

def jStr (cs : List Char) : Json := Json.str (String.ofList cs)
def jBytes (b : AGV.Bytes) : Json := Json.str (bytesStr b)
def jNat (n : Nat) : Json := Json.num (JsonNumber.fromNat n)
def jInt (n : Int) : Json := Json.num (JsonNumber.fromInt n)

def getStrList (j : Json) (k : String) : Except String (List String) := do
  let arr ← getArr j k
  arr.toList.mapM fun x => x.getStr?

end Driver
