/-
Driver ops for the splice units (C06 / C18): the accept-all filter, `apply_rewrite`, the
`--update-all` state machine, the rewriter's `make_edit` / `joinBy`, the fixer's replaced range.
-/
import Driver.Basic
import AstGrepVerif.Model.Interactive
import AstGrepVerif.Model.Rewrite
import AstGrepVerif.Model.Edit
import AstGrepVerif.Model.InteractiveFixed

open Lean AGV

namespace Driver

def arrOf (j : Json) : Except String (List Json) := do pure (← j.getArr?).toList

def nth (l : List Json) (i : Nat) : Except String Json :=
  match l[i]? with
  | some x => pure x
  | none => throw s!"missing element {i}"

def jsonBytes (j : Json) : Except String Bytes := do pure (strBytes (← j.getStr?))

/-- `[start, stop, "rep"]` -/
def parseDiff (j : Json) : Except String Diff := do
  let l ← arrOf j
  pure { start := ← (← nth l 0).getNat?, stop := ← (← nth l 1).getNat?, rep := ← jsonBytes (← nth l 2) }

def parseDiffs (j : Json) : Except String (List Diff) := do (← arrOf j).mapM parseDiff

def diffJson (d : Diff) : Json := Json.arr #[jNat d.start, jNat d.stop, jBytes d.rep]

def opProcessDiffs : Handler := fun a => do
  let ds ← parseDiffs (← a.getObjVal? "ds")
  let acc := processDiffs ds
  pure (Json.mkObj [("acc", Json.arr (acc.map diffJson).toArray), ("cnt", jNat acc.length)])

def opApplyRewrite : Handler := fun a => do
  let old ← getBytes a "old"
  let ds ← parseDiffs (← a.getObjVal? "ds")
  match applyRewrite old ds with
  | .ok r => pure (jBytes r)
  | .error _ => pure (Json.str "panic")

def insertSorted (x : Nat) : List Nat → List Nat
  | [] => [x]
  | y :: ys => if x < y then x :: y :: ys else if x = y then y :: ys else y :: insertSorted x ys

def insertFile (x : Nat × Bytes) : List (Nat × Bytes) → List (Nat × Bytes)
  | [] => [x]
  | y :: ys => if x.1 < y.1 then x :: y :: ys else y :: insertFile x ys

/-- files `[[id, "content"]…]`, payloads `[[id, "old_source", [diff…]]…]` -/
def opUpdateAll : Handler := fun a => do
  let files ← (← arrOf (← a.getObjVal? "files")).mapM fun f => do
    let l ← arrOf f
    pure ((← (← nth l 0).getNat?), (← jsonBytes (← nth l 1)))
  let payloads ← (← arrOf (← a.getObjVal? "payloads")).mapM fun p => do
    let l ← arrOf p
    pure ({ path := ← (← nth l 0).getNat?, oldSource := ← jsonBytes (← nth l 1),
            diffs := ← parseDiffs (← nth l 2) } : Payload)
  match updateAll files payloads with
  | .error _ => pure (Json.str "panic")
  | .ok st =>
    let fs := st.fs.foldr insertFile []
    let written := st.writes.foldr insertSorted []
    pure (Json.mkObj [
      ("files", Json.arr (fs.map fun (i, c) => Json.arr #[jNat i, jBytes c]).toArray),
      ("cnt", jNat st.committed),
      ("applied", match appliedLine st with | some n => jNat n | none => Json.null),
      ("written", Json.arr (written.map jNat).toArray)])

/-- same op on the model of the code with FIX_C18 applied -/
def opUpdateAllFixed : Handler := fun a => do
  let files ← (← arrOf (← a.getObjVal? "files")).mapM fun f => do
    let l ← arrOf f
    pure ((← (← nth l 0).getNat?), (← jsonBytes (← nth l 1)))
  let payloads ← (← arrOf (← a.getObjVal? "payloads")).mapM fun p => do
    let l ← arrOf p
    pure ({ path := ← (← nth l 0).getNat?, oldSource := ← jsonBytes (← nth l 1),
            diffs := ← parseDiffs (← nth l 2) } : Payload)
  match updateAllFixed files payloads with
  | .error _ => pure (Json.str "panic")
  | .ok st =>
    let fs := st.fs.foldr insertFile []
    let written := st.writes.foldr insertSorted []
    pure (Json.mkObj [
      ("files", Json.arr (fs.map fun (i, c) => Json.arr #[jNat i, jBytes c]).toArray),
      ("cnt", jNat st.committed),
      ("applied", if st.committed > 0 then jNat st.committed else Json.null),
      ("written", Json.arr (written.map jNat).toArray)])

def jByteArr (b : Bytes) : Json := Json.arr (b.map fun x => jNat x.toNat).toArray

def parseByteArr (j : Json) : Except String Bytes := do
  (← arrOf j).mapM fun x => do pure (UInt8.ofNat (← x.getNat?))

/-- `[position, deleted, [bytes…]]` -/
def parseREdit (j : Json) : Except String REdit := do
  let l ← arrOf j
  pure { position := ← (← nth l 0).getNat?, deleted := ← (← nth l 1).getNat?,
         inserted := ← parseByteArr (← nth l 2) }

/-- the repaired `make_edit` (`makeEditFixed`; the pinned `makeEdit` is a regression fact in
`Props/C06.lean`).  The `.error` branch is unreachable (`rewrite_makeEditFixed_total`). -/
def opRwMakeEdit : Handler := fun a => do
  let old ← parseByteArr (← a.getObjVal? "old")
  let edits ← (← arrOf (← a.getObjVal? "edits")).mapM parseREdit
  let offset ← getNat a "offset"
  match makeEditFixed old edits offset with
  | .ok r => pure (Json.mkObj [("ok", jByteArr r)])
  | .error _ => pure (Json.str "panic")

/-- the repaired `Rewrite::compute` (`rewriteComputeFixed`, total: `rewrite_computeFixed_total`) -/
def opRwCompute : Handler := fun a => do
  let old ← parseByteArr (← a.getObjVal? "old")
  let edits ← (← arrOf (← a.getObjVal? "edits")).mapM parseREdit
  let start ← getNat a "start"
  let joiner ← match a.getObjVal? "joiner" with
    | .ok .null => pure none
    | .ok v => do pure (some (← jsonBytes v))
    | .error _ => pure none
  match rewriteComputeFixed old edits start joiner with
  | .ok r => pure (jBytes r)
  | .error _ => pure (Json.str "panic")

def parseStopBy (j : Json) : Except String (Option ExpandStop) :=
  match j with
  | .null => pure none
  | .str "neighbor" => pure (some .neighbor)
  | .str "end" => pure (some .end_)
  | .str "rule" => pure (some .rule)
  | _ => throw "bad stopBy"

/-- `[start, stop, matched, stops]` -/
def parseSib (j : Json) : Except String Sib := do
  let l ← arrOf j
  pure { range := ⟨← (← nth l 0).getNat?, ← (← nth l 1).getNat?⟩,
         matched := ← (← nth l 2).getBool?, stops := ← (← nth l 3).getBool? }

def opFixerRange : Handler := fun a => do
  let node ← arrOf (← a.getObjVal? "node")
  let node : Rng := ⟨← (← nth node 0).getNat?, ← (← nth node 1).getNat?⟩
  let mlen ← match a.getObjVal? "mlen" with
    | .ok .null => pure none
    | .ok v => do pure (some (← v.getNat?))
    | .error _ => pure none
  let es ← parseStopBy ((a.getObjVal? "es").toOption.getD .null)
  let ee ← parseStopBy ((a.getObjVal? "ee").toOption.getD .null)
  let prevs ← (← arrOf (← a.getObjVal? "prevs")).mapM parseSib
  let nexts ← (← arrOf (← a.getObjVal? "nexts")).mapM parseSib
  let r := fixerReplacedRange es ee node mlen prevs nexts
  let e := diffOfEdit (editOfRange r [])
  pure (Json.arr #[jNat e.start, jNat e.stop])

def spliceOps : List (String × Handler) := [
  ("process_diffs", opProcessDiffs), ("apply_rewrite", opApplyRewrite),
  ("update_all", opUpdateAll), ("update_all_fixed", opUpdateAllFixed), ("rw_make_edit", opRwMakeEdit), ("rw_compute", opRwCompute),
  ("fixer_range", opFixerRange)]

end Driver
