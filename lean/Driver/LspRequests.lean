/-
Driver op `lsp_session`: run `Model/LspRequests.run` over a recorded session and print what the
client saw, message by message, in the harness' canonical JSON.

The model's parameter `analyse` is the table `a.an` (text → the diagnostics the real
`get_diagnostics` publishes for it, from a server instance of its own), empty for uris without
rules.  Decoding the wire diagnostics (`Diagnostic.source / code / data` as serde sees them) is
glue written from the LSP types: it is the `ClientDiag` abstraction of the model.
Trusted glue, not part of the model.
-/
import Driver.Basic
import Driver.Splice
import Driver.Frontends
import Driver.Lsp
import AstGrepVerif.Model.LspRequests

open Lean AGV AGV.LspReq

namespace Driver.Req

def optField (j : Json) (k : String) : Json := (j.getObjVal? k).toOption.getD .null

def parsePos (j : Json) : Option LPos := do
  let l ← (optField j "line").getNat?.toOption
  let c ← (optField j "character").getNat?.toOption
  pure (l, c)

/-- an LSP `Range`; `none` when it does not deserialize -/
def parseRange (j : Json) : Option LRange := do
  let a ← parsePos (optField j "start")
  let b ← parsePos (optField j "end")
  pure (a, b)

def parseRangeE (j : Json) : Except String LRange :=
  match parseRange j with
  | some r => pure r
  | none => throw "range expected"

/-- `serde_json::from_value::<RewriteData>(data)` as the model's `DataField` -/
def parseData (j : Json) : DataField :=
  match j with
  | .null => .none
  | .obj _ =>
    match optField j "fixed" with
    | .str f =>
      match optField j "range" with
      | .null => .rewrite (strBytes f) none
      | r => match parseRange r with
        | some rg => .rewrite (strBytes f) (some rg)
        | none => .bad
    | _ => .bad
  | _ => .bad

def parseCode (j : Json) : CodeField :=
  match j with
  | .str s => .str (strBytes s)
  | .num n => .num n.mantissa
  | _ => .none

def parseClientDiag (j : Json) : Except String ClientDiag := do
  let r ← parseRangeE (optField j "range")
  let source := match optField j "source" with
    | .str s => some (strBytes s)
    | _ => none
  pure { start := r.1, stop := r.2, source, code := parseCode (optField j "code"), data := parseData (optField j "data") }

/-- a published diagnostic → the model's `LspDiag` (what `compute_all_fixes` reads back from it) -/
def parseServerDiag (j : Json) : Except String LspDiag := do
  let r ← parseRangeE (optField j "range")
  let (fixed, er) := match parseData (optField j "data") with
    | .rewrite f rg => (some f, rg.getD r)
    | _ => (none, r)
  pure { start := r.1, stop := r.2, fixed, editStart := er.1, editStop := er.2 }

def segOf (s : String) : Seg :=
  match s with
  | "quickfix" => .quickfix
  | "source" => .source
  | "fixAll" => .fixAll
  | "ast-grep" => .astGrep
  | "refactor" => .refactor
  | _ => .other (s.toUTF8.toList.foldl (fun n b => n * 256 + b.toNat + 1) 0)

def kindOf (s : String) : Kind := if s.isEmpty then [] else (s.splitOn ".").map segOf

/-- canonical record of a published diagnostic -/
def diagCanon (j : Json) : Except String (Fe.Key × Json) := do
  let r ← parseRangeE (optField j "range")
  let data := optField j "data"
  let er := match parseRange (optField data "range") with
    | some x => x
    | none => r
  let code := optField j "code"
  let fixed := optField data "fixed"
  let sb (x : Json) : Bytes := match x with | .str s => strBytes s | _ => []
  pure (([r.1.1, r.1.2, r.2.1, r.2.2], [sb code, sb fixed]),
    Json.arr #[jNat r.1.1, jNat r.1.2, jNat r.2.1, jNat r.2.2, code, fixed, jNat er.1.1, jNat er.1.2, jNat er.2.1, jNat er.2.2])

def jTEdit (e : TEdit) : Json :=
  Json.arr #[jNat e.start.1, jNat e.start.2, jNat e.stop.1, jNat e.stop.2, jBytes e.newText]

def jChanges (u : Nat) (edits : List TEdit) : Json :=
  Json.arr #[Json.arr #[jNat u, Json.arr (edits.map jTEdit).toArray]]

def jAction (a : Action) : Json :=
  let kind := match a.kind with | .quickfix => "quickfix" | .fixAll => "source.fixAll.ast-grep"
  let title := match a.ruleId with
    | some id => "Fix `" ++ bytesStr id ++ "` with ast-grep"
    | none => "Fix by ast-grep"
  Json.mkObj [("kind", Json.str kind), ("title", Json.str title),
    ("preferred", if a.preferred then Json.bool true else Json.null),
    ("changes", jChanges a.uri a.edits), ("other", Json.bool false)]

def jCmd : CmdOutcome → Json
  | .unrecognized => Json.str "unrecognized"
  | .noArgs => Json.str "noArgs"
  | .jsonError => Json.str "jsonError"
  | .unsupported => Json.str "unsupported"
  | .noFix => Json.str "noFix"
  | .applied u edits => Json.mkObj [("applied", jChanges u edits)]

def parseArg (names : List String) (j : Json) : Arg :=
  match optField j "uri", optField j "languageId", optField j "version", optField j "text" with
  | .str uri, .str _, .num v, .str t =>
    if v.exponent != 0 then .bad else
    match names.idxOf? uri with
    | some u => .doc u v.mantissa (strBytes t)
    | none => .bad
  | _, _, _, _ => .bad

def parseSOp (names : List String) (j : Json) : Except String SOp := do
  let k ← getStr j "k"
  match k with
  | "open" | "change" | "close" => pure (.doc (← lspParseOp j))
  | "codeAction" =>
    let u ← getNat j "u"
    let only ← match optField j "only" with
      | .null => pure none
      | o => do pure (some ((← arrOf o).filterMap fun x => x.getStr?.toOption |>.map kindOf))
    let diags ← (← arrOf (optField j "diags")).mapM parseClientDiag
    pure (.codeAction u ((0, 0), (0, 0)) only diags)
  | "exec" =>
    let command ← getStr j "command"
    let args := (← arrOf (optField j "args")).map (parseArg names)
    pure (.executeCommand (command == "ast-grep.applyAllFixes") args)
  | _ => throw s!"unknown session op {k}"

def opLspSession : Handler := fun a => do
  let cfgj ← a.getObjVal? "cfg"
  let uris ← getArr cfgj "uris"
  let facts ← uris.toList.mapM fun u => do
    pure ((← getStr u "uri"), (← getBool u "lang"), (← getBool u "outside"), (← getBool u "rules"))
  let names := facts.map (·.1)
  let cfg : Lsp.Config := {
    langKnown := fun u => match facts[u]? with | some (_, l, _, _) => l | none => false
    outside := fun u => match facts[u]? with | some (_, _, o, _) => o | none => false }
  let hasRules : Nat → Bool := fun u => match facts[u]? with | some (_, _, _, r) => r | none => false
  -- the analysis table
  let table ← (← getArr a "an").toList.mapM fun e => do
    let l ← arrOf e
    let t ← (← nth l 0).getStr?
    let ds ← arrOf (← nth l 1)
    pure (strBytes t, (← ds.mapM parseServerDiag), (← ds.mapM diagCanon))
  let lookupT (t : Bytes) := table.find? (fun e => e.1 == t)
  let an : Analyse := fun u t =>
    if hasRules u then match lookupT t with | some e => e.2.1 | none => [] else []
  let pubDiags (u : Nat) (t : Bytes) : Json :=
    if hasRules u then match lookupT t with
      | some e => Json.arr (Fe.sortKeyed e.2.2).toArray
      | none => Json.str "text not analysed"
    else Json.arr #[]
  let ops ← (← getArr a "session").toList.mapM (parseSOp names)
  -- message by message
  let rec go (s : Lsp.State) : List SOp → List Json
    | [] => []
    | op :: rest =>
      let r := step cfg an s op
      let j := match op, r.2 with
        | .doc _, outs =>
          Json.mkObj [("pubs", Json.arr ((pubsOf outs).map fun p =>
              Json.arr #[jNat p.uri, jInt p.version, pubDiags p.uri p.text]).toArray), ("applied", jNat 0)]
        | .codeAction .., [.actions acts] =>
          Json.mkObj [("actions", match acts with
              | none => Json.null
              | some l => Json.arr (l.map jAction).toArray),
            ("pubs", jNat 0), ("applied", jNat 0), ("alive", Json.bool true)]
        | .executeCommand .., [.command c] =>
          Json.mkObj [("cmd", jCmd c), ("resp", Json.null), ("pubs", jNat 0), ("alive", Json.bool true)]
        | _, _ => Json.str "model: unexpected output shape"
      j :: go r.1 rest
  pure (Json.mkObj [("outs", Json.arr (go [] ops).toArray), ("panicked", Json.bool false)])

end Driver.Req

namespace Driver

def lspRequestsOps : List (String × Handler) := [("lsp_session", Req.opLspSession)]

end Driver
