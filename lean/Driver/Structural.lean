/-
Driver ops of the slice "structural": the structural replacer (`impl Replacer for Root<D>`) and
the patterns built from a parsed tree (`Pattern::try_new`, `Pattern::contextual`).
Documents are the ones registered with the `tree` op of `Driver/TreeIO.lean`.
-/
import Driver.TreeIO
import AstGrepVerif.Model.Structural

open Lean AGV

namespace Driver

/-- `{"s": {name: node id}, "m": {name: [node ids]}, "x": {name: string}}` over the matched document -/
def parseEnvOf (d : Document) (j : Json) : Except String Env := do
  let objKVs (k : String) : Except String (List (String × Json)) :=
    match j.getObjVal? k with
    | .ok (.obj kvs) => pure (kvs.toList)
    | .ok .null => pure []
    | .ok _ => throw s!"env.{k}: object expected"
    | .error _ => pure []
  let node (v : Json) : Except String Tree := do
    let id ← v.getNat?
    match d.nodes[id]? with
    | some n => pure n
    | none => throw s!"unknown node {id}"
  let single ← (← objKVs "s").mapM fun (k, v) => do pure (k.toList, ← node v)
  let multi ← (← objKVs "m").mapM fun (k, v) => do
    let a ← v.getArr?
    pure (k.toList, ← a.toList.mapM node)
  let transformed ← (← objKVs "x").mapM fun (k, v) => do pure (k.toList, strBytes (← v.getStr?))
  pure { single, multi, transformed }

def getDocKey (st : DState) (a : Json) (k : String) : Except String Document := do
  let t ← getStr a k
  match st.docs[t]? with
  | some d => pure d
  | none => throw s!"unknown document {t}"

/-- `matched.replace(&pattern, replacement_root)`'s `inserted_text` -/
def opStructuralReplace : SHandler := fun st a => do
  let d ← getDocKey st a "t"
  let r ← getDocKey st a "r"
  let mc ← getChar a "mc"
  let env ← parseEnvOf d (← a.getObjVal? "env")
  match genReplacement r.src d.src mc env r.tree with
  | some out => pure (st, Json.mkObj [("text", jBytes out)])
  | none => pure (st, Json.str "panic")

def perrJson : PatternError → Json
  | .noContent => Json.str "NoContent"
  | .multipleNode => Json.str "MultipleNode"
  | .invalidKind => Json.str "InvalidKind"
  | .noSelectorInContext => Json.str "NoSelectorInContext"

def presJson : Except PatternError (PNode × Option Nat) → Json
  | .error e => Json.mkObj [("err", perrJson e)]
  | .ok (p, rk) => Json.mkObj [("ok", patternJson p),
      -- `root_kind` is a private field: observed through `Pattern::potential_kinds`
      ("kinds", match patternPotentialKinds p rk with
        | some ks => Json.arr (ks.map jNat).toArray
        | none => Json.null)]

/-- `Pattern::contextual(context, selector, lang)`: `t` = the parsed (pre-processed) context,
`kind` = `id_for_node_kind(selector, true)` -/
def opPatternContextual : SHandler := fun st a => do
  let d ← getDocKey st a "t"
  let mc ← getChar a "mc"
  let k ← getNat a "kind"
  pure (st, presJson (contextualPattern d.src mc d.tree k))

/-- `Pattern::try_new(src, lang)`: `empty` = the kind ids whose name is the empty string -/
def opPatternTryNew : SHandler := fun st a => do
  let d ← getDocKey st a "t"
  let mc ← getChar a "mc"
  let empty ← (← getArr a "empty").toList.mapM fun x => x.getNat?
  pure (st, presJson (patternTryNew d.src mc (fun k => empty.contains k) d.tree))

def structuralOps : List (String × SHandler) := [
  ("structural_replace", opStructuralReplace),
  ("pattern_contextual", opPatternContextual),
  ("pattern_try_new", opPatternTryNew)]

end Driver
