/-
Driver ops for the rule-test runner model (`Model/Verify.lean`), unit `verify_run`.
`V` (the snapshot value) is the canonical JSON text of a `TestSnapshot`.
-/
import Driver.Basic
import AstGrepVerif.Model.Verify

open Lean AGV AGV.Verify

namespace Driver

private def getSrcList (j : Json) (k : String) : Except String (List AGV.Snapshot.Source) := do
  pure ((← getStrList j k).map strBytes)

private def getEntries (j : Json) : Except String (List (AGV.Snapshot.Source × String)) := do
  let arr ← getArr j "entries"
  arr.toList.mapM fun e => do
    match (← e.getArr?).toList with
    | [s, v] => pure (strBytes (← s.getStr?), ← v.getStr?)
    | _ => throw "expected [source, snapshot]"

private def jDir (d : Dir String) : Json :=
  Json.arr (d.map fun f => Json.mkObj [
    ("name", jBytes f.name), ("id", jBytes f.id),
    ("entries", Json.arr (f.entries.map fun e => Json.arr #[jBytes e.1, Json.str e.2]).toArray)]).toArray

/-- insertion sort of the files by name (the harness reports the directory name-sorted) -/
private def sortDir (d : Dir String) : Dir String :=
  AGV.Topo.sortBy (fun a b => AGV.Topo.bytesLt a.name b.name) d

private def sortIds (l : List Verify.Id) : List Verify.Id := AGV.Topo.sortBy AGV.Topo.bytesLt l

def opVerifyRun : Handler := fun a => do
  let rules := (← getStrList a "rules").map strBytes
  let genRows ← (← getArr a "gen").toList.mapM fun r => do
    match (← r.getArr?).toList with
    | [i, s, v] =>
      let g : Gen String ← match v with
        | .null => pure Gen.noMatch
        | .str _ => pure Gen.fixError
        | o => do pure (Gen.snap (← getStr o "snap"))
      pure ((strBytes (← i.getStr?), strBytes (← s.getStr?)), g)
    | _ => throw "expected [id, source, gen]"
  -- a pair that is not in the table is never asked for by the runner: "fixError" would show up
  let gen : Verify.Id → AGV.Snapshot.Source → Gen String := fun i s =>
    match alookup (i, s) genRows with
    | some g => g
    | none => Gen.fixError
  let tests ← (← getArr a "tests").toList.mapM fun t => do
    pure ({ id := strBytes (← getStr t "id"), valid := ← getSrcList t "valid", invalid := ← getSrcList t "invalid" } : TestCase)
  let dir ← (← getArr a "dir").toList.mapM fun f => do
    pure ({ name := strBytes (← getStr f "name"), id := strBytes (← getStr f "id"), entries := ← getEntries f } : SnapFile String)
  let filterRows ← (← getArr a "filter").toList.mapM fun r => do
    match (← r.getArr?).toList with
    | [i, b] => pure (strBytes (← i.getStr?), ← b.getBool?)
    | _ => throw "expected [id, bool]"
  let filter : Verify.Id → Bool := fun i => (alookup i filterRows).getD true
  let fl : Flags := { skipSnapshotTests := ← getBool a "skip", updateAll := ← getBool a "update", filter }
  let out := run { rules, gen, tests, dir } fl
  pure (Json.mkObj [
    ("not_found", Json.arr ((sortIds out.notFound).map jBytes).toArray),
    ("results", Json.arr (out.results.map fun r =>
      Json.arr #[jBytes r.id, Json.str r.label, Json.str (String.ofList (r.cases.map CaseStatus.summaryChar))]).toArray),
    ("passed", Json.bool out.passed),
    ("dir", jDir (sortDir out.dir))])

def verifyOps : List (String × Handler) := [("verify_run", opVerifyRun)]

end Driver
