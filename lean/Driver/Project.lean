/-
Driver op for `Model/Project.lean`, unit `project`.

`a.tree`      the temp project as the harness read it back with `std::fs::read_dir` (children in
              READDIR order): `{"f": k}` (file whose content is entry `k` of `a.contents`) or
              `{"d": [[name, entry], ..]}`
`a.contents`  per distinct file content / inline text, what the parameters of the model say about it:
              `readable` (UTF-8), `config` (null | {ruleDirs, utilDirs}), `docs` (null = does not parse |
              [{id, needs, off}]), `util` (null | {id, needs})
`a.cwd`, `a.config`, `a.rule` paths as component lists below the root of the tree; `a.inline` content
              index; `a.filter` null | ids the regex matches; `a.ign` {base, names}: the `.ignore` file in
              `base` lists `names`; `a.sev_error` a bare `--error` is given.

The content of a file is the decimal spelling of its index: the model only hands contents to its
parameters.  Global rules are the list of registered ids; a rule document parses iff every utility it
needs is registered; registration fails iff a needed utility is missing (9eaee94).
Result: `{"ok": [[id, severity]..]}` in `for_each_rule` order for one language and no globs (load order,
`severity: off` documents dropped by `RuleCollection::try_new` unless `--error` was applied to them), or
`{"err": class, "path": .., "exit": n}`.
-/
import Driver.Basic
import AstGrepVerif.Model.Project

open Lean AGV AGV.Project

namespace Driver

abbrev PName := AGV.Project.Name

structure PDoc where
  id : PName
  needs : List PName
  off : Bool

structure PContent where
  readable : Bool
  config : Option Config
  docs : Option (List PDoc)
  util : Option (PName × List PName)

private def natBytes (n : Nat) : Bytes := strBytes (toString n)

private def bytesNat (b : Bytes) : Nat := (bytesStr b).toNat!

private partial def getEntry (j : Json) : Except String Entry := do
  match j.getObjVal? "f" with
  | .ok k => pure (.file (natBytes (← k.getNat?)))
  | .error _ =>
    let kids ← getArr j "d"
    let l ← kids.toList.mapM fun kid => do
      match (← kid.getArr?).toList with
      | [n, e] => pure (strBytes (← n.getStr?), ← getEntry e)
      | _ => throw "expected [name, entry]"
    pure (.dir (Dir.ofList l))

private def getPath (j : Json) : Except String Project.Path := do
  (← j.getArr?).toList.mapM fun x => do pure (strBytes (← x.getStr?))

private def getOptPath (j : Json) (k : String) : Except String (Option Project.Path) :=
  match j.getObjVal? k with
  | .ok .null => pure none
  | .ok v => do pure (some (← getPath v))
  | .error _ => pure none

private def getPaths (j : Json) : Except String (List Project.Path) := do
  (← j.getArr?).toList.mapM getPath

private def getNames (j : Json) (k : String) : Except String (List PName) := do
  pure ((← getStrList j k).map strBytes)

private def getContent (j : Json) : Except String PContent := do
  let config ← match j.getObjVal? "config" with
    | .ok .null => pure none
    | .ok c => do
      let rd ← getPaths (← c.getObjVal? "ruleDirs")
      let ud ← match c.getObjVal? "utilDirs" with
        | .ok .null => pure none
        | .ok u => do pure (some (← getPaths u))
        | .error _ => pure none
      pure (some { ruleDirs := rd, utilDirs := ud : Config })
    | .error _ => pure none
  let docs ← match j.getObjVal? "docs" with
    | .ok .null => pure none
    | .ok ds => do
      let l ← (← ds.getArr?).toList.mapM fun d => do
        pure ({ id := strBytes (← getStr d "id"), needs := ← getNames d "needs", off := ← getBool d "off" } : PDoc)
      pure (some l)
    | .error _ => pure none
  let util ← match j.getObjVal? "util" with
    | .ok .null => pure none
    | .ok u => do pure (some (strBytes (← getStr u "id"), ← getNames u "needs"))
    | .error _ => pure none
  pure { readable := ← getBool j "readable", config, docs, util }

private def jPath (p : Project.Path) : Json :=
  Json.str ("/".intercalate (p.map bytesStr))

private def errJson (e : Err) : Json :=
  let (cls, path) : String × Json := match e with
    | .projectNotExist => ("projectNotExist", Json.null)
    | .readConfiguration => ("readConfiguration", Json.null)
    | .parseConfiguration => ("parseConfiguration", Json.null)
    | .walkRuleDir p => ("walkRuleDir", jPath p)
    | .readRule p => ("readRule", jPath p)
    | .parseRule p => ("parseRule", jPath p)
    | .plain => ("plain", Json.null)
    | .invalidGlobalUtils => ("invalidGlobalUtils", Json.null)
    | .ruleNotFound => ("ruleNotFound", Json.null)
    | .argConflict => ("argConflict", Json.null)
  Json.mkObj [("err", Json.str cls), ("path", path), ("exit", jNat e.exitCode)]

def opProjectScan : Handler := fun a => do
  let tree ← getEntry (← a.getObjVal? "tree")
  let contents ← (← getArr a "contents").toList.mapM getContent
  let content : Bytes → Option PContent := fun b => contents[bytesNat b]?
  let ignBase ← getPath (← (← a.getObjVal? "ign").getObjVal? "base")
  let ignNames ← getNames (← a.getObjVal? "ign") "names"
  let P : Params PDoc (List PName) (List PName) := {
    readable := fun b => match content b with | some c => c.readable | none => false
    parseConfig := fun b => (content b).bind (·.config)
    parseRules := fun g b =>
      match (content b).bind (·.docs) with
      | none => none
      | some ds => if ds.all (fun d => d.needs.all (g.contains ·)) then some ds else none
    parseUtil := fun b => (content b).bind (·.util)
    register := fun m =>
      let keys := m.map (·.1)
      if m.all (fun u => u.2.all (keys.contains ·)) then some keys else none
    emptyGlobals := []
    ign := fun p =>
      ignBase.isPrefixOf p && p.length > ignBase.length &&
        (match p.getLast? with | some n => ignNames.contains n | none => false)
  }
  let filter : Option (PName → Bool) ← match a.getObjVal? "filter" with
    | .ok .null => pure none
    | .ok _ => do
      let ids ← getNames a "filter"
      pure (some (fun i => ids.contains i))
    | .error _ => pure none
  let inline : Option Bytes ← match a.getObjVal? "inline" with
    | .ok .null => pure none
    | .ok v => do pure (some (natBytes (← v.getNat?)))
    | .error _ => pure none
  let fl : Flags := {
    config := ← getOptPath a "config", rule := ← getOptPath a "rule", inline, filter }
  let sevError ← getBool a "sev_error"
  let cwd ← getPath (← a.getObjVal? "cwd")
  match scanRules P (·.id) tree cwd fl with
  | .error e => pure (errJson e)
  | .ok l =>
    let raised := l.overwritten && sevError
    let kept := if raised then l.docs else l.docs.filter (fun d => !d.off)
    let sev := if raised then "Error" else "Hint"
    pure (Json.mkObj [
      ("ok", Json.arr (kept.map fun d => Json.arr #[jBytes d.id, Json.str sev]).toArray),
      ("project", match setup P tree cwd fl.config with
        | .ok (some pr) => jPath pr.dir
        | _ => Json.null)])

def projectOps : List (String × Handler) := [("project_scan", opProjectScan)]

end Driver
