/-
Driver op for the slice "inspect": `inspect_cli` — the model's prediction of the `--inspect`
trace on stderr of one `sg scan` / `sg run` over a generated project, as the sorted list of its
lines in a canonical spelling (`summary|file|S|K`, `entity|file|PATH|LANG|N`, …; languages by
index in `SupportLang::all_langs()`).  Trusted glue, not part of the model.
-/
import Driver.Basic
import Driver.Select
import AstGrepVerif.Model.Inspect

open Lean AGV AGV.Select AGV.Inspect

namespace Driver

def parseContent : String → AGV.Worker.Content
  | "unreadable" => .unreadable
  | "invalid" => .invalidUtf8
  | "empty" => .text 0 0
  | "toolarge" => .text 3000400 200010
  | _ => .text 10 1

def parseLevel : String → Granularity
  | "entity" => .entity
  | "summary" => .summary
  | _ => .nothing

def natStr (n : Nat) : String := toString n

def lineStr : Line → String
  | .project b => "summary|project|" ++ (if b then "1" else "0")
  | .fileSummary s k => "summary|file|" ++ natStr s ++ "|" ++ natStr k
  | .ruleSummary e k => "summary|rule|" ++ natStr e ++ "|" ++ natStr k
  | .fileEntity p l none => "entity|file|" ++ bytesStr p ++ "|" ++ natStr l ++ "|-"
  | .fileEntity p l (some n) => "entity|file|" ++ bytesStr p ++ "|" ++ natStr l ++ "|" ++ natStr n
  | .ruleEntity id sv => "entity|rule|" ++ bytesStr id ++ "|" ++ sevStr sv

def sortedLines (ls : List Line) : Json :=
  let bs := AGV.Topo.sortBy AGV.Topo.bytesLt (ls.map (fun l => strBytes (lineStr l)))
  Json.arr (bs.map jBytes).toArray

structure InspFile where
  file : Inspect.File
  present : List Nat

def getInspFiles (a : Json) : Except String (List InspFile) := do
  let filesJ ← getArr a "files"
  filesJ.toList.mapM fun f => do
    let p ← getBytes f "p"
    let c ← getStr f "c"
    let pr ← getArr f "present"
    let pr ← pr.toList.mapM (·.getNat?)
    pure ⟨⟨p, parseContent c⟩, pr⟩

def getNats (a : Json) (k : String) : Except String (List Nat) :=
  match a.getObjVal? k with
  | .error _ => pure []
  | .ok v => do
    let arr ← v.getArr?
    arr.toList.mapM (·.getNat?)

/-- the walk is sequential in the driver: by `Props.Inspect.trace_schedule_irrelevant` every
schedule gives the same lines up to order, and the result is sorted -/
def opInspectCli : Handler := fun a => do
  let cmd ← getStr a "cmd"
  let level := parseLevel (← getStr a "level")
  let isProject ← getBool a "isProject"
  let files ← getInspFiles a
  let gm ← getPairsSel a "gm"
  let invalid ← getStrs a "invalid"
  let env : Env :=
    { baseEnv gm invalid with
      present := fun p => match files.find? (fun f => f.file.path = p) with
        | some f => f.present
        | none => [] }
  if cmd == "scan" then
    let rules ← getRules a
    let occs ← getOccs a
    let filter ← getFilter a
    let args := parseFlags filter occs
    match scanSession isProject env args rules with
    | .error _ =>
      pure (sortedLines ([Line.project isProject].filter (fun l => shows level l.level)))
    | .ok (c, sess) =>
      let visited := (files.map (·.file)).filter (fun f => walkerVisits env c f.path)
      let r := Run.sequential (scanProcess env args c) visited
      pure (sortedLines (r.trace sess level))
  else
    let lang : Option Nat := (getNat a "lang").toOption
    let pok ← getNats a "pok"
    let cfg : RunCfg := { lang := lang, patternOk := fun l => pok.contains l, matchCount := fun _ _ => 0 }
    let visited := (files.map (·.file)).filter (fun f => runWalkerVisits env cfg f.path)
    let r := Run.sequential (runProcess env cfg) visited
    pure (sortedLines (r.trace (runSession isProject) level))

def inspectOps : List (String × Handler) := [("inspect_cli", opInspectCli)]

end Driver
