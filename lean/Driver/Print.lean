/-
Driver ops of the C16 units (`bytes`, `print`, `jsonframe`, `c16_cli`): the model's answer for the
same arguments, in the same canonical JSON as `harness/src/units/print.rs`.
-/
import Driver.Basic
import AstGrepVerif.Model.Bytes
import AstGrepVerif.Model.Print
import AstGrepVerif.Model.JsonFrame

open Lean AGV

namespace Driver

def jPanic : Json := Json.str "panic"

def getPair (j : Json) : Except String (Nat × Nat) := do
  let arr ← j.getArr?
  match arr.toList with
  | [x, y] => pure (← x.getNat?, ← y.getNat?)
  | _ => throw "expected [s,e]"

def getPairs (j : Json) (k : String) : Except String (List (Nat × Nat)) := do
  (← getArr j k).toList.mapM getPair

def jPair (x y : Nat) : Json := Json.arr #[jNat x, jNat y]

def opCharColumn : Handler := fun a => do
  let src ← getBytes a "src"
  let offs ← getArr a "offs"
  let rs ← offs.toList.mapM fun o => do
    let off ← o.getNat?
    match getCharColumn src off with
    | some c => pure (jNat c)
    | none => pure jPanic
  pure (Json.arr rs.toArray)

def opNodePositions : Handler := fun a => do
  let src ← getBytes a "src"
  let ranges ← getPairs a "ranges"
  let rs := ranges.map fun (s, e) =>
    match getRange src s e with
    | some r => Json.arr #[jNat r.start.line, jNat r.start.column, jNat r.stop.line, jNat r.stop.column]
    | none => jPanic
  pure (Json.arr rs.toArray)

def opDisplayContext : Handler := fun a => do
  let src ← getBytes a "src"
  let ranges ← getPairs a "ranges"
  let b ← getNat a "b"
  let af ← getNat a "a"
  let rs := ranges.map fun (s, e) =>
    match displayContext src s e b af with
    | some d => Json.arr #[jBytes d.leading, jBytes d.matched, jBytes d.trailing, jNat d.startLine]
    | none => jPanic
  pure (Json.arr rs.toArray)

def rangeFields (r : RangeJ) : List (String × Json) :=
  [("bo", jPair r.startByte r.endByte), ("st", jPair r.start.line r.start.column),
   ("en", jPair r.stop.line r.stop.column)]

def nodeJson (src : Bytes) (se : Nat × Nat) : Json :=
  match jsonMatchNode src se.1 se.2 with
  | some n => Json.mkObj (("text", jBytes n.text) :: rangeFields n.range)
  | none => jPanic

/-- one match as described by the harness: `{s,e,single:[[name,s,e]],multi:[[name,[[s,e]]]],ro}` -/
def recordJson (src : Bytes) (b af : Nat) (m : Json) : Except String Json := do
  let s ← getNat m "s"
  let e ← getNat m "e"
  let mv ← match m.getObjVal? "mv" with
    | .ok .null => pure Json.null
    | .error _ => pure Json.null
    | .ok mvj => do
      let single ← (← getArr mvj "single").toList.mapM fun x => do
        let arr ← x.getArr?
        match arr.toList with
        | [n, s, e] => pure ((← n.getStr?), nodeJson src (← s.getNat?, ← e.getNat?))
        | _ => throw "single"
      let multi ← (← getArr mvj "multi").toList.mapM fun x => do
        let arr ← x.getArr?
        match arr.toList with
        | [n, rs] =>
          let ps ← (← rs.getArr?).toList.mapM getPair
          pure ((← n.getStr?), Json.arr (ps.map (nodeJson src)).toArray)
        | _ => throw "multi"
      pure (Json.mkObj [("single", Json.mkObj single), ("multi", Json.mkObj multi)])
  let ro := match m.getObjVal? "ro" with
    | .ok v => v
    | .error _ => Json.null
  match matchJSON src s e b af with
  | none => pure jPanic
  | some r =>
    pure (Json.mkObj ([("text", jBytes r.text), ("lines", jBytes r.lines),
      ("cc", jPair r.leadingCount r.trailingCount), ("mv", mv), ("ro", ro)] ++ rangeFields r.range))

def opJsonMatches : Handler := fun a => do
  let src ← getBytes a "src"
  let b ← getNat a "b"
  let af ← getNat a "a"
  let ms ← getArr a "matches"
  let rs ← ms.toList.mapM (recordJson src b af)
  pure (Json.arr rs.toArray)

def reportJson : Option (List ReportLine) → Json
  | none => jPanic
  | some ls => Json.arr (ls.map fun
      | .entry n t => Json.arr #[Json.str "e", jNat n, jBytes t]
      | .sep => Json.arr #[Json.str "sep"]).toArray

def opPrefixReport : Handler := fun a => do
  let src ← getBytes a "src"
  let ranges ← getPairs a "ranges"
  let b ← getNat a "b"
  let af ← getNat a "a"
  pure (reportJson (printMatchesWithPrefix src b af ranges))

def styleOf (s : String) : JsonStyle :=
  if s == "pretty" then .pretty else if s == "stream" then .stream else .compact

def tokJson (anon : Bool) : Tok Nat → Json
  | .openB => Json.str "["
  | .closeB => Json.str "]"
  | .comma => Json.str ","
  | .nl => Json.str "n"
  | .record i => if anon then Json.str "r" else Json.str s!"r{i}"

/-- records are numbered 0,1,2,… in arrival order -/
def numberFiles : List Nat → Nat → List (List Nat)
  | [], _ => []
  | k :: ks, i => (List.range k).map (· + i) :: numberFiles ks (i + k)

def opJsonFrame : Handler := fun a => do
  let style ← getStr a "style"
  let ks ← (← getArr a "bufs").toList.mapM fun x => x.getNat?
  let toks := JsonFrame.run (styleOf style) (numberFiles ks 0)
  pure (Json.arr (toks.map (tokJson false)).toArray)

def opPrintDocs : Handler := fun a => do
  let style ← getStr a "style"
  let k ← getNat a "k"
  let toks := JsonFrame.printDocs (styleOf style) (List.range k)
  pure (Json.arr (toks.map (tokJson false)).toArray)

def opCliJson : Handler := fun a => do
  let style ← getStr a "style"
  let b ← getNat a "b"
  let af ← getNat a "a"
  let files ← getArr a "files"
  let recs ← files.toList.mapM fun f => do
    let name ← getStr f "name"
    let src ← getBytes f "src"
    let ms ← getArr f "matches"
    let rs ← ms.toList.mapM (recordJson src b af)
    pure (name, rs)
  let nonEmpty := recs.filter fun (_, rs) => !rs.isEmpty
  let toks := JsonFrame.run (styleOf style) (numberFiles (recs.map fun (_, rs) => rs.length) 0)
  pure (Json.mkObj [
    ("frame", Json.arr (toks.map (tokJson true)).toArray),
    ("records", Json.mkObj (nonEmpty.map fun (n, rs) => (n, Json.arr rs.toArray)))])

def opCliText : Handler := fun a => do
  let b ← getNat a "b"
  let af ← getNat a "a"
  let files ← getArr a "files"
  let outs ← files.toList.mapM fun f => do
    let name ← getStr f "name"
    let src ← getBytes f "src"
    let ranges ← getPairs f "ranges"
    pure (name, ranges, reportJson (printMatchesWithPrefix src b af ranges))
  let nonEmpty := outs.filter fun (_, rs, _) => !rs.isEmpty
  pure (Json.mkObj (nonEmpty.map fun (n, _, j) => (n, j)))

def printOps : List (String × Handler) := [
  ("char_column", opCharColumn), ("node_positions", opNodePositions),
  ("display_context", opDisplayContext), ("json_matches", opJsonMatches),
  ("prefix_report", opPrefixReport), ("json_frame", opJsonFrame), ("print_docs", opPrintDocs),
  ("cli_json", opCliJson), ("cli_text", opCliText)]

end Driver
