/-
Driver glue for rule-level ops: reading dumped `Rule` / `RuleCore` objects, running the model's
rule evaluator on registered documents.
-/
import Driver.TreeIO
import AstGrepVerif.Model.Rule
import AstGrepVerif.Spec.RuleRef
import AstGrepVerif.Model.Scan
import AstGrepVerif.Spec.PureRule

open Lean AGV

namespace Driver

def optNat (j : Json) : Except String (Option Nat) :=
  match j with
  | .null => pure none
  | v => do pure (some (← v.getNat?))

def optKinds (j : Json) : Except String (Option (List Nat)) :=
  match j with
  | .null => pure none
  | v => do
    let a ← v.getArr?
    pure (some (← a.toList.mapM fun x => x.getNat?))

mutual
partial def parseRule (j : Json) : Except String Rule := do
  let a ← j.getArr?
  let tag ← a[0]!.getStr?
  match tag with
  | "pattern" =>
    pure (.pattern (← parsePattern a[1]!) (← optNat a[2]!) (← parseStrictness (← a[3]!.getStr?)))
  | "kind" => pure (.kind (← a[1]!.getNat?))
  | "regex" => pure (.regex (← a[1]!.getNat?))
  | "nth" =>
    let ofRule ← match a[3]! with
      | .null => pure none
      | v => do pure (some (← parseRule v))
    pure (.nthChild (← a[1]!.getInt?) (← a[2]!.getInt?) ofRule (← a[4]!.getBool?))
  | "range" => pure (.range (← a[1]!.getNat?) (← a[2]!.getNat?) (← a[3]!.getNat?) (← a[4]!.getNat?))
  | "inside" => pure (.inside (← parseRule a[1]!) (← parseStop a[2]!) (← optNat a[3]!))
  | "has" => pure (.has (← parseRule a[1]!) (← parseStop a[2]!) (← optNat a[3]!))
  | "precedes" => pure (.precedes (← parseRule a[1]!) (← parseStop a[2]!))
  | "follows" => pure (.follows (← parseRule a[1]!) (← parseStop a[2]!))
  | "all" => pure (.all (← (← a[1]!.getArr?).toList.mapM parseRule) (← optKinds a[2]!))
  | "any" => pure (.any (← (← a[1]!.getArr?).toList.mapM parseRule) (← optKinds a[2]!))
  | "not" => pure (.not (← parseRule a[1]!))
  | "matches" => pure (.matches (← a[1]!.getStr?).toList)
  | t => throw s!"rule tag {t}"
partial def parseStop (j : Json) : Except String StopBy :=
  match j with
  | .str "neighbor" => pure .neighbor
  | .str "end" => pure .end_
  | v => do
    let a ← v.getArr?
    pure (.rule (← parseRule a[1]!))
end

def objEntries (j : Json) : Except String (List (String × Json)) :=
  match j with
  | .obj kvs => pure (kvs.toList)
  | .null => pure []
  | _ => throw "expected object"

def parseCore (j : Json) : Except String RuleCore := do
  let rule ← parseRule (← j.getObjVal? "rule")
  let cons ← (← objEntries (← j.getObjVal? "constraints")).mapM fun (k, v) => do
    pure (k.toList, ← parseRule v)
  let kinds ← optKinds (← j.getObjVal? "kinds")
  pure { rule, constraints := cons, kinds }

def parseRegistry (j : Json) : Except String (List (AGV.Name × Rule) × List (AGV.Name × RuleCore)) := do
  let locals ← match j.getObjVal? "locals" with
    | .ok v => (← objEntries v).mapM fun (k, r) => do pure (k.toList, ← parseRule r)
    | .error _ => pure []
  let globals ← match j.getObjVal? "globals" with
    | .ok v => (← objEntries v).mapM fun (k, r) => do pure (k.toList, ← parseCore r)
    | .error _ => pure []
  pure (locals, globals)

/-- regex oracle: for every regex id the ids of the nodes whose text matches (computed by the
real regex engine in the harness) -/
def parseRegexTable (j : Json) : Except String (List (Nat × List Nat)) := do
  (← objEntries j).mapM fun (k, v) => do
    let ids ← (← v.getArr?).toList.mapM fun x => x.getNat?
    pure (k.toNat!, ids)

def regexOracle (tab : List (Nat × List Nat)) (rid : Nat) (n : Tree) : Bool :=
  match tab.lookup rid with
  | some ids => ids.contains n.id
  | none => false

def sortedKinds : Option (List Nat) → Json
  | none => Json.null
  | some ks => Json.arr ((ks.eraseDups.toArray.qsort (· < ·)).map jNat)

def opRuleKinds : SHandler := fun st a => do
  let cj ← a.getObjVal? "core"
  let core ← parseCore cj
  let (locals, globals) ← parseRegistry cj
  pure (st, sortedKinds (potentialKinds locals globals 64 core.rule))

def opRuleMatch : SHandler := fun st a => do
  let d ← getDoc st a
  let cj ← a.getObjVal? "core"
  let core ← parseCore cj
  let (locals, globals) ← parseRegistry cj
  let rx ← parseRegexTable (← a.getObjVal? "regex")
  let ctx : RCtx := { src := d.src, root := d.tree, regex := regexOracle rx, locals, globals }
  let ids ← (← getArr a "nodes").toList.mapM fun x => x.getNat?
  let fuel := ruleFuel d.tree
  let results := ids.map fun id =>
    match d.nodes[id]? with
    | none => Json.str "unknown-node"
    | some n =>
      match matchCore ctx fuel core n Env.empty with
      | .ok (some m, env) => Json.mkObj [("m", jNat m.id), ("env", envJson env)]
      | .ok (none, _) => Json.mkObj [("m", Json.null), ("env", envJson Env.empty)]
      | .error e => abnJson e
  pure (st, Json.arr results.toArray)

def ruleOps : List (String × SHandler) := [
  ("rule_kinds", opRuleKinds), ("rule_match", opRuleMatch)]

end Driver

namespace Driver

open AGV

/-! ### C05 oracle: the reference semantics `Spec.sat` on the implementation's verdicts -/

mutual
partial def patternVars : PNode → List AGV.Name
  | .metaVar (.capture n _) => [n]
  | .metaVar (.multiCapture n) => [n]
  | .metaVar _ => []
  | .terminal _ _ _ => []
  | .internal _ cs => (cs.map patternVars).flatten
end

/-- all variable occurrences of a rule, `matches` unfolded (every reference counts) -/
partial def ruleVarOccs (locals : List (AGV.Name × Rule)) (globals : List (AGV.Name × RuleCore))
    (depth : Nat) : Rule → List AGV.Name
  | .pattern p _ _ => (patternVars p).eraseDups
  | .kind _ => [] | .regex _ => [] | .range _ _ _ _ => []
  | .nthChild _ _ ofRule _ => match ofRule with
    | some r => ruleVarOccs locals globals depth r
    | none => []
  | .inside r s _ => ruleVarOccs locals globals depth r ++ stopVarOccs locals globals depth s
  | .has r s _ => ruleVarOccs locals globals depth r ++ stopVarOccs locals globals depth s
  | .precedes r s => ruleVarOccs locals globals depth r ++ stopVarOccs locals globals depth s
  | .follows r s => ruleVarOccs locals globals depth r ++ stopVarOccs locals globals depth s
  | .all rs _ => (rs.map (ruleVarOccs locals globals depth)).flatten
  | .any rs _ => (rs.map (ruleVarOccs locals globals depth)).flatten
  | .not r => ruleVarOccs locals globals depth r
  | .matches id =>
    if depth == 0 then [] else
    match alookup id locals with
    | some r => ruleVarOccs locals globals (depth - 1) r
    | none => match alookup id globals with
      | some c => ruleVarOccs locals globals (depth - 1) c.rule
      | none => []
where
  stopVarOccs (locals : List (AGV.Name × Rule)) (globals : List (AGV.Name × RuleCore)) (depth : Nat) :
      StopBy → List AGV.Name
    | .rule r => ruleVarOccs locals globals depth r
    | _ => []

def hasZeroWidth (t : Tree) : Bool := t.preorder.any fun n => n.start == n.stop && n.id != t.id

partial def ruleFields : Rule → List Nat
  | .inside r s f => f.toList ++ ruleFields r ++ stopFields s
  | .has r s f => f.toList ++ ruleFields r ++ stopFields s
  | .precedes r s => ruleFields r ++ stopFields s
  | .follows r s => ruleFields r ++ stopFields s
  | .all rs _ => (rs.map ruleFields).flatten
  | .any rs _ => (rs.map ruleFields).flatten
  | .not r => ruleFields r
  | .nthChild _ _ (some r) _ => ruleFields r
  | _ => []
where
  stopFields : StopBy → List Nat
    | .rule r => ruleFields r
    | _ => []

def fieldsUnique (t : Tree) (fields : List Nat) : Bool :=
  t.preorder.all fun n => fields.all fun f =>
    (n.children.filter fun c => c.info.field == some f).length ≤ 1

def opOracleSat : SHandler := fun st a => do
  let d ← getDoc st a
  let cj ← a.getObjVal? "core"
  let core ← parseCore cj
  let (locals, globals) ← parseRegistry cj
  let rx ← parseRegexTable (← a.getObjVal? "regex")
  let ctx : RCtx := { src := d.src, root := d.tree, regex := regexOracle rx, locals, globals }
  -- the property's quantifier: variable-disjoint sub-patterns, no zero-width nodes, unique
  -- field labels, no constraints (they are C04's subject)
  let occs := ruleVarOccs locals globals 8 core.rule
  let utilFields := (locals.map fun (_, r) => ruleFields r).flatten
  if occs.eraseDups.length != occs.length || hasZeroWidth d.tree
      || !(fieldsUnique d.tree (ruleFields core.rule ++ utilFields)) || !core.constraints.isEmpty
      || globals.any (fun (_, c) => !c.constraints.isEmpty) then
    pure (st, Json.str "skip")
  else
    let ids ← (← getArr a "nodes").toList.mapM fun x => x.getNat?
    let fuel := ruleFuel d.tree
    let verdicts := ids.map fun id =>
      match d.nodes[id]? with
      | none => Json.null
      | some n => Json.bool (kindsGateTop core n && Spec.sat ctx fuel core.rule n)
    pure (st, Json.arr verdicts.toArray)
where
  /-- the top-level kind gate of `RuleCore::do_match` never changes the verdict when the cache is
  sound (C01); the reference semantics ignores it -/
  kindsGateTop (_core : RuleCore) (_n : Tree) : Bool := true

def ruleOracleOps : List (String × SHandler) := [("oracle:sat", opOracleSat)]

end Driver

namespace Driver

open AGV

/-! ### C01: searching -/

def foundJson (found : Found) : Json :=
  Json.arr (found.map fun (m, env) => Json.arr #[jNat m.id, envJson env]).toArray

def opFindAll : SHandler := fun st a => do
  let d ← getDoc st a
  let cj ← a.getObjVal? "core"
  let core ← parseCore cj
  let (locals, globals) ← parseRegistry cj
  let rx ← parseRegexTable (← a.getObjVal? "regex")
  let ctx : RCtx := { src := d.src, root := d.tree, regex := regexOracle rx, locals, globals }
  let start ← getNode d a "start"
  match findAllNodes ctx (ruleFuel d.tree) core start with
  | .ok found => pure (st, foundJson found)
  | .error e => pure (st, abnJson e)

def opCombined : SHandler := fun st a => do
  let d ← getDoc st a
  let rx ← parseRegexTable (← a.getObjVal? "regex")
  let rules ← (← getArr a "rules").toList.mapM fun rj => do
    let cj ← rj.getObjVal? "core"
    let core ← parseCore cj
    let (locals, globals) ← parseRegistry cj
    pure ({ id := (← getStr rj "id").toList, hasFix := (← getBool rj "hasFix"), core, locals, globals } : ScanRule)
  let sorted := sortScanRules rules
  match combinedScan d.src d.tree (regexOracle rx) (ruleFuel d.tree) rules with
  | .error e => pure (st, abnJson e)
  | .ok hits =>
    -- group by rule id, document order inside a rule; rules without a hit are absent
    let ids := (hits.map (·.1)).eraseDups
    let entries := ids.filterMap fun idx =>
      match sorted[idx]? with
      | none => none
      | some r =>
        some (String.ofList r.id, foundJson ((hits.filter (·.1 == idx)).map fun (_, m, env) => (m, env)))
    pure (st, Json.mkObj entries)

def opFixedString : SHandler := fun st a => do
  let p ← parsePattern (← a.getObjVal? "p")
  let s ← parseStrictness (← getStr a "s")
  pure (st, jBytes (patternFixedString p s))

def scanOps : List (String × SHandler) := [
  ("find_all", opFindAll), ("combined", opCombined), ("fixed_string", opFixedString)]

end Driver

namespace Driver

open AGV

/-- matched flag + user-visible bindings (the `secondary` label is internal) -/
def projected (matched : Bool) (env : Env) : Json :=
  let multi := env.multi.filter fun (k, _) => k != secondaryLabel
  Json.mkObj [("matched", Json.bool matched),
    ("s", Json.mkObj (env.single.map fun (k, t) => (String.ofList k, jNat t.id))),
    ("m", Json.mkObj (multi.map fun (k, ts) => (String.ofList k, Json.arr (ts.map fun t => jNat t.id).toArray)))]

/-- C04 oracle: the implementation's result (matched node and bindings) on every node equals the
model's result for the rule with every sub-rule isolated (`Spec.isolate`) -/
def opOracleIsolate : SHandler := fun st a => do
  let d ← getDoc st a
  let cj ← a.getObjVal? "core"
  let core ← parseCore cj
  let (locals, globals) ← parseRegistry cj
  let rx ← parseRegexTable (← a.getObjVal? "regex")
  let ctx : RCtx := { src := d.src, root := d.tree, regex := regexOracle rx,
                      locals := locals.map fun (k, r) => (k, Spec.isolate r),
                      globals := globals.map fun (k, c) => (k, Spec.isolateCore c) }
  let ids ← (← getArr a "nodes").toList.mapM fun x => x.getNat?
  let fuel := 2 * ruleFuel d.tree
  let results := ids.map fun id =>
    match d.nodes[id]? with
    | none => Json.str "unknown-node"
    | some n =>
      match matchCore ctx fuel (Spec.isolateCore core) n Env.empty with
      | .ok (some _, env) => projected true env
      | .ok (none, _) => projected false Env.empty
      | .error e => abnJson e
  pure (st, Json.arr results.toArray)

def isolateOps : List (String × SHandler) := [("oracle:isolate", opOracleIsolate)]

end Driver
