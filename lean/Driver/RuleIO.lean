/-
Driver glue for rule-level ops: reading dumped `Rule` / `RuleCore` objects, running the model's
rule evaluator on registered documents.
-/
import Driver.TreeIO
import AstGrepVerif.Model.Rule

open Lean AGV

namespace Driver

def optNat (j : Json) : Except String (Option Nat) :=
  match j with
  | .null => pure none
  | v => do pure (some (← v.getNat?))

def optKinds (j : Json) : Except String (Option (List Nat)) :=
  match j with
  | .null => pure none
  | v => do
    let a ← v.getArr?
    pure (some (← a.toList.mapM fun x => x.getNat?))

mutual
partial def parseRule (j : Json) : Except String Rule := do
  let a ← j.getArr?
  let tag ← a[0]!.getStr?
  match tag with
  | "pattern" =>
    pure (.pattern (← parsePattern a[1]!) (← optNat a[2]!) (← parseStrictness (← a[3]!.getStr?)))
  | "kind" => pure (.kind (← a[1]!.getNat?))
  | "regex" => pure (.regex (← a[1]!.getNat?))
  | "nth" =>
    let ofRule ← match a[3]! with
      | .null => pure none
      | v => do pure (some (← parseRule v))
    pure (.nthChild (← a[1]!.getInt?) (← a[2]!.getInt?) ofRule (← a[4]!.getBool?))
  | "range" => pure (.range (← a[1]!.getNat?) (← a[2]!.getNat?) (← a[3]!.getNat?) (← a[4]!.getNat?))
  | "inside" => pure (.inside (← parseRule a[1]!) (← parseStop a[2]!) (← optNat a[3]!))
  | "has" => pure (.has (← parseRule a[1]!) (← parseStop a[2]!) (← optNat a[3]!))
  | "precedes" => pure (.precedes (← parseRule a[1]!) (← parseStop a[2]!))
  | "follows" => pure (.follows (← parseRule a[1]!) (← parseStop a[2]!))
  | "all" => pure (.all (← (← a[1]!.getArr?).toList.mapM parseRule) (← optKinds a[2]!))
  | "any" => pure (.any (← (← a[1]!.getArr?).toList.mapM parseRule) (← optKinds a[2]!))
  | "not" => pure (.not (← parseRule a[1]!))
  | "matches" => pure (.matches (← a[1]!.getStr?).toList)
  | t => throw s!"rule tag {t}"
partial def parseStop (j : Json) : Except String StopBy :=
  match j with
  | .str "neighbor" => pure .neighbor
  | .str "end" => pure .end_
  | v => do
    let a ← v.getArr?
    pure (.rule (← parseRule a[1]!))
end

def objEntries (j : Json) : Except String (List (String × Json)) :=
  match j with
  | .obj kvs => pure (kvs.toList)
  | .null => pure []
  | _ => throw "expected object"

def parseCore (j : Json) : Except String RuleCore := do
  let rule ← parseRule (← j.getObjVal? "rule")
  let cons ← (← objEntries (← j.getObjVal? "constraints")).mapM fun (k, v) => do
    pure (k.toList, ← parseRule v)
  let kinds ← optKinds (← j.getObjVal? "kinds")
  pure { rule, constraints := cons, kinds }

def parseRegistry (j : Json) : Except String (List (AGV.Name × Rule) × List (AGV.Name × RuleCore)) := do
  let locals ← match j.getObjVal? "locals" with
    | .ok v => (← objEntries v).mapM fun (k, r) => do pure (k.toList, ← parseRule r)
    | .error _ => pure []
  let globals ← match j.getObjVal? "globals" with
    | .ok v => (← objEntries v).mapM fun (k, r) => do pure (k.toList, ← parseCore r)
    | .error _ => pure []
  pure (locals, globals)

/-- regex oracle: for every regex id the ids of the nodes whose text matches (computed by the
real regex engine in the harness) -/
def parseRegexTable (j : Json) : Except String (List (Nat × List Nat)) := do
  (← objEntries j).mapM fun (k, v) => do
    let ids ← (← v.getArr?).toList.mapM fun x => x.getNat?
    pure (k.toNat!, ids)

def regexOracle (tab : List (Nat × List Nat)) (rid : Nat) (n : Tree) : Bool :=
  match tab.lookup rid with
  | some ids => ids.contains n.id
  | none => false

def sortedKinds : Option (List Nat) → Json
  | none => Json.null
  | some ks => Json.arr ((ks.eraseDups.toArray.qsort (· < ·)).map jNat)

def opRuleKinds : SHandler := fun st a => do
  let cj ← a.getObjVal? "core"
  let core ← parseCore cj
  let (locals, globals) ← parseRegistry cj
  pure (st, sortedKinds (potentialKinds locals globals 64 core.rule))

def opRuleMatch : SHandler := fun st a => do
  let d ← getDoc st a
  let cj ← a.getObjVal? "core"
  let core ← parseCore cj
  let (locals, globals) ← parseRegistry cj
  let rx ← parseRegexTable (← a.getObjVal? "regex")
  let ctx : RCtx := { src := d.src, root := d.tree, regex := regexOracle rx, locals, globals }
  let ids ← (← getArr a "nodes").toList.mapM fun x => x.getNat?
  let fuel := ruleFuel d.tree
  let results := ids.map fun id =>
    match d.nodes[id]? with
    | none => Json.str "unknown-node"
    | some n =>
      match matchCore ctx fuel core n Env.empty with
      | .ok (some m, env) => Json.mkObj [("m", jNat m.id), ("env", envJson env)]
      | .ok (none, _) => Json.mkObj [("m", Json.null), ("env", envJson Env.empty)]
      | .error e => abnJson e
  pure (st, Json.arr results.toArray)

def ruleOps : List (String × SHandler) := [
  ("rule_kinds", opRuleKinds), ("rule_match", opRuleMatch)]

end Driver
