/-
Driver glue: reading dumped trees / patterns / environments from JSON, the driver state
(registered documents), printing model results canonically.
-/
import Driver.Basic
import Std.Data.HashMap
import AstGrepVerif.Model.Pattern
import AstGrepVerif.Lemmas.MatchSound
import AstGrepVerif.Props.C02
import AstGrepVerif.Spec.AlignB

open Lean AGV

namespace Driver

structure Document where
  src : Bytes
  tree : Tree
  nodes : Array Tree          -- pre-order, index = node id
  lang : String

structure DState where
  docs : Std.HashMap String Document := {}

abbrev SHandler := DState → Json → Except String (DState × Json)

partial def parseTree (j : Json) : Except String Tree := do
  let a ← j.getArr?
  if a.size != 7 then throw "tree node: expected 7 fields"
  let kind ← a[0]!.getNat?
  let flags ← a[1]!.getNat?
  let start ← a[2]!.getNat?
  let stop ← a[3]!.getNat?
  let field ← a[4]!.getInt?
  let id ← a[5]!.getNat?
  let kids ← a[6]!.getArr?
  let cs ← kids.toList.mapM parseTree
  pure (.node { kind, named := flags % 2 == 1, comment := (flags / 2) % 2 == 1,
                missing := (flags / 4) % 2 == 1, start, stop,
                field := if field < 0 then none else some field.toNat, id } cs)

def parseMetaVar (j : Json) : Except String MetaVar := do
  let a ← j.getArr?
  let tag ← a[0]!.getStr?
  match tag with
  | "cap" => pure (.capture (← a[1]!.getStr?).toList (← a[2]!.getBool?))
  | "drop" => pure (.dropped (← a[1]!.getBool?))
  | "multi" => pure .multiple
  | "mcap" => pure (.multiCapture (← a[1]!.getStr?).toList)
  | t => throw s!"meta var tag {t}"

partial def parsePattern (j : Json) : Except String PNode := do
  let a ← j.getArr?
  let tag ← a[0]!.getStr?
  match tag with
  | "M" => pure (.metaVar (← parseMetaVar a[1]!))
  | "T" => pure (.terminal (strBytes (← a[1]!.getStr?)) (← a[2]!.getBool?) (← a[3]!.getNat?))
  | "I" =>
    let kids ← a[2]!.getArr?
    pure (.internal (← a[1]!.getNat?) (← kids.toList.mapM parsePattern))
  | t => throw s!"pattern tag {t}"

partial def patternJson : PNode → Json
  | .metaVar (.capture n named) => Json.arr #[Json.str "M", Json.arr #[Json.str "cap", jStr n, Json.bool named]]
  | .metaVar (.dropped named) => Json.arr #[Json.str "M", Json.arr #[Json.str "drop", Json.bool named]]
  | .metaVar .multiple => Json.arr #[Json.str "M", Json.arr #[Json.str "multi"]]
  | .metaVar (.multiCapture n) => Json.arr #[Json.str "M", Json.arr #[Json.str "mcap", jStr n]]
  | .terminal t named k => Json.arr #[Json.str "T", jBytes t, Json.bool named, jNat k]
  | .internal k cs => Json.arr #[Json.str "I", jNat k, Json.arr (cs.map patternJson).toArray]

def parseStrictness (s : String) : Except String Strictness :=
  match s with
  | "cst" => pure .cst | "smart" => pure .smart | "ast" => pure .ast
  | "relaxed" => pure .relaxed | "signature" => pure .signature
  | _ => throw s!"strictness {s}"

def getDoc (st : DState) (a : Json) : Except String Document := do
  let t ← getStr a "t"
  match st.docs[t]? with
  | some d => pure d
  | none => throw s!"unknown document {t}"

def getNode (d : Document) (a : Json) (k : String := "node") : Except String Tree := do
  let id ← getNat a k
  match d.nodes[id]? with
  | some n => pure n
  | none => throw s!"unknown node {id}"

def envJson (env : Env) : Json :=
  Json.mkObj [
    ("s", Json.mkObj (env.single.map fun (k, t) => (String.ofList k, jNat t.id))),
    ("m", Json.mkObj (env.multi.map fun (k, ts) =>
      (String.ofList k, Json.arr (ts.map fun t => jNat t.id).toArray)))]

def opTree : SHandler := fun st a => do
  let id ← getStr a "id"
  let src ← getBytes a "src"
  let lang ← getStr a "lang"
  let tree ← parseTree (← a.getObjVal? "tree")
  let nodes := tree.preorder.toArray
  -- the harness numbers nodes in pre-order: check it (ties `preorder` to the dump)
  let okIds := (List.range nodes.size).all fun i => (nodes[i]!).id == i
  if !okIds then throw "tree ids are not the pre-order numbering"
  let st' := { st with docs := st.docs.insert id { src, tree, nodes, lang } }
  pure (st', Json.mkObj [("nodes", jNat nodes.size)])

def parseHole (j : Json) : Except String Hole := do
  let start ← getNat j "start"
  let stop ← getNat j "end"
  let name ← getStr j "name"
  let run ← match j.getObjVal? "run" with
    | .ok .null => pure none
    | .ok r => do
      let a ← r.getArr?
      pure (some ((← a[0]!.getNat?), (← a[1]!.getNat?), (← a[2]!.getNat?)))
    | .error _ => pure none
  pure { start, stop, name := name.toList, run }

def abnJson : Abn → Json
  | .panic => Json.str "panic"
  | .fuel => Json.str "out-of-fuel"

def opCutShape : SHandler := fun st a => do
  let d ← getDoc st a
  let n ← getNode d a
  let hs ← (← getArr a "holes").toList.mapM parseHole
  pure (st, patternJson (cut d.src hs n))

def opMatch : SHandler := fun st a => do
  let d ← getDoc st a
  let n ← getNode d a
  let p ← parsePattern (← a.getObjVal? "p")
  let s ← parseStrictness (← getStr a "s")
  let fuel := matchFuel p n
  let len : Json :=
    match matchLen s d.src fuel p n with
    | .ok (some l) => jNat l
    | .ok none => Json.null
    | .error e => abnJson e
  match matchPatternEnv s d.src fuel p n Env.empty with
  | .ok (some env) => pure (st, Json.mkObj [("m", Json.bool true), ("env", envJson env), ("len", len)])
  | .ok none => pure (st, Json.mkObj [("m", Json.bool false), ("env", envJson Env.empty), ("len", len)])
  | .error e => pure (st, abnJson e)

def opHolesOK : SHandler := fun st a => do
  let d ← getDoc st a
  let n ← getNode d a
  let hs ← (← getArr a "holes").toList.mapM parseHole
  pure (st, Json.bool (AGV.C02.HolesOK n hs))

def opPatternWf : SHandler := fun st a => do
  let p ← parsePattern (← a.getObjVal? "p")
  pure (st, Json.bool p.wf)

/-- C03 oracle: a reported match must be an alignment in the sense of `Spec.Aligns`, decided by
the backtracking procedure `Spec.alignsB` (independent of the matcher's control flow) -/
def opOracleAligns : SHandler := fun st a => do
  let d ← getDoc st a
  let n ← getNode d a
  let p ← parsePattern (← a.getObjVal? "p")
  let s ← parseStrictness (← getStr a "s")
  if !p.wf || p.size * n.size > 6000 then pure (st, Json.str "skip")
  else pure (st, Json.bool (Spec.alignsB s d.src (Spec.alignFuel p n) p n))

/-- `does_node_match_exactly(a, b)` as used by `MetaVarEnv::insert` for a repeated variable -/
def opExactMatch : SHandler := fun st a => do
  let d ← getDoc st a
  let x ← getNode d a "a"
  let y ← getNode d a "b"
  pure (st, Json.bool (exactMatch d.src x y))

def treeOps : List (String × SHandler) := [
  ("exact_match", opExactMatch),
  ("oracle:aligns", opOracleAligns),
  ("pattern_wf", opPatternWf), ("info:holes_ok", opHolesOK),
  ("tree", opTree), ("cut_shape", opCutShape), ("match", opMatch)]

end Driver
