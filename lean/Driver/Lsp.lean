/-
Driver op `lsp_run`: run the `Model/Lsp` state machine over a recorded history and print
the publish log in the harness' canonical JSON: `{"pubs": [[uriIndex, version, ranges]],
"crashed": false}` (no handler of the model can panic).  Diagnostics are the fixture's known function of the text (one per line
that starts with `console.log(`, covering the whole line), empty when no rule applies to the
uri.  Trusted glue, not part of the model.
-/
import Driver.Basic
import AstGrepVerif.Model.Lsp

open Lean AGV

namespace Driver

def lspPrefix : Bytes := "console.log(".toUTF8.toList

def bytesStartsWith : Bytes → Bytes → Bool
  | _, [] => true
  | [], _ :: _ => false
  | b :: bs, p :: ps => b == p && bytesStartsWith bs ps

def lspDiagOf (t : Bytes) : List Json :=
  let lines := splitNL t
  (lines.zipIdx).filterMap fun (l, i) =>
    if bytesStartsWith l lspPrefix then
      some (Json.arr #[jNat i, jNat 0, jNat i, jNat l.length])
    else none

def lspParseOp (j : Json) : Except String Lsp.Op := do
  let k ← getStr j "k"
  let u ← getNat j "u"
  match k with
  | "open" => pure (.open u (← getInt j "v") (← getBytes j "t"))
  | "change" => pure (.change u (← getInt j "v") ((← getStrList j "ts").map strBytes))
  | "close" => pure (.close u)
  | _ => throw s!"unknown lsp op {k}"

def opLspRun : Handler := fun a => do
  let cfgj ← a.getObjVal? "cfg"
  let uris ← getArr cfgj "uris"
  let facts ← uris.toList.mapM fun u => do
    pure ((← getBool u "lang"), (← getBool u "outside"), (← getBool u "rules"))
  let cfg : Lsp.Config := {
    langKnown := fun u => match facts[u]? with | some (l, _, _) => l | none => false
    outside := fun u => match facts[u]? with | some (_, o, _) => o | none => false }
  let hasRules : Nat → Bool := fun u => match facts[u]? with | some (_, _, r) => r | none => false
  let hist ← (← getArr a "history").toList.mapM lspParseOp
  let r := Lsp.run cfg hist
  let pubs := r.pubs.map fun p =>
    Json.arr #[jNat p.uri, jInt p.version,
      Json.arr (if hasRules p.uri then lspDiagOf p.text else []).toArray]
  pure (Json.mkObj [("pubs", Json.arr pubs.toArray), ("crashed", Json.bool false)])

def lspOps : List (String × Handler) := [("lsp_run", opLspRun)]

end Driver
