import Driver.Basic
import AstGrepVerif.Model.Select
import AstGrepVerif.Model.Topo

open Lean AGV AGV.Select

namespace Driver

def jOptBytes : Option Bytes → Json
  | none => Json.null
  | some b => jBytes b

def opPathExt : Handler := fun a => do
  let p ← getBytes a "p"
  pure (Json.mkObj [("name", jOptBytes (fileName p)), ("ext", jOptBytes (extension p)),
    ("lang", match builtinFromPath p with | none => Json.null | some l => jNat l)])

def parseSev (s : String) : Except String Severity :=
  match s with
  | "error" => pure .error | "warning" => pure .warning | "info" => pure .info
  | "hint" => pure .hint | "off" => pure .off
  | _ => throw s!"severity {s}"

def sevStr : Severity → String
  | .error => "error" | .warning => "warning" | .info => "info" | .hint => "hint" | .off => "off"

def getOptGlobs (j : Json) (k : String) : Except String (Option (List Bytes)) :=
  match j.getObjVal? k with
  | .ok .null => pure none
  | .error _ => pure none
  | .ok v => do
    let arr ← v.getArr?
    let l ← arr.toList.mapM (·.getStr?)
    pure (some (l.map strBytes))

def getRules (a : Json) : Except String (List Rule) := do
  let arr ← getArr a "rules"
  arr.toList.mapM fun r => do
    let id ← getBytes r "id"
    let lang := (getNat r "lang").toOption.getD 21
    let sev ← parseSev (← getStr r "sev")
    pure { id := id, lang := lang, severity := sev, files := (← getOptGlobs r "files"), ignores := (← getOptGlobs r "ignores") }

/-- `[[x, y], …]` as pairs of byte strings -/
def getPairsSel (a : Json) (k : String) : Except String (List (Bytes × Bytes)) :=
  match a.getObjVal? k with
  | .error _ => pure []
  | .ok v => do
    let arr ← v.getArr?
    arr.toList.mapM fun e => do
      let p ← e.getArr?
      match p.toList with
      | [x, y] => do pure (strBytes (← x.getStr?), strBytes (← y.getStr?))
      | _ => throw "pair expected"

def getStrs (a : Json) (k : String) : Except String (List Bytes) :=
  match a.getObjVal? k with
  | .error _ => pure []
  | .ok v => do
    let arr ← v.getArr?
    arr.toList.mapM fun e => do pure (strBytes (← e.getStr?))

def getOccs (a : Json) : Except String (List FlagOcc) := do
  let arr ← getArr a "occs"
  arr.toList.mapM fun e => do
    let p ← e.getArr?
    match p.toList with
    | [s, i] => do
      let sev ← parseSev (← s.getStr?)
      let id ← match i with
        | .null => pure none
        | v => do pure (some (strBytes (← v.getStr?)))
      pure ⟨sev, id⟩
    | _ => throw "occ expected"

/-- `--filter`: the regex as the list of ids it matches (computed by the real `regex` crate) -/
def getFilter (a : Json) : Except String (Option (RuleId → Bool)) :=
  match a.getObjVal? "filter" with
  | .ok .null => pure none
  | .error _ => pure none
  | .ok v => do
    let ok ← getStrs v "ok"
    pure (some (fun id => ok.contains id))

def sortIds (ids : List Bytes) : List Bytes := AGV.Topo.sortBy AGV.Topo.bytesLt ids

def baseEnv (gm : List (Bytes × Bytes)) (invalid : List Bytes) : Env :=
  { globMatch := fun g p => gm.contains (g, p)
    globValid := fun g => !invalid.contains g
    typeMatch := fun _ _ => false
    langGlobs := []
    customExts := []
    injectable := injectTable
    present := fun _ => []
    matchCount := fun _ _ _ => 0
    unusedCount := fun _ _ _ => 0 }

/-- `RuleCollection::try_new` + `for_path` (built-in languages only, sorted by id) -/
def opCollForPath : Handler := fun a => do
  let rules ← getRules a
  let paths ← getStrs a "paths"
  let env := baseEnv (← getPairsSel a "gm") (← getStrs a "invalid")
  match tryNew env rules with
  | none => pure (Json.str "glob-error")
  | some c =>
    pure (Json.arr (paths.map fun p =>
      match builtinFromPath p with
      | none => Json.arr #[]
      | some l => Json.arr ((sortIds ((getRuleFromLang env.globMatch c p l).map (·.id))).map jBytes).toArray).toArray)

def tsPath : Path := strBytes "a.ts"

/-- fixed project: `a.ts` with one number, rules `kind: number` for TypeScript -/
def opSevCli : Handler := fun a => do
  let rulesJ ← getArr a "rules"
  let rules ← rulesJ.toList.mapM fun r => do
    let id ← getBytes r "id"
    let sev ← parseSev (← getStr r "sev")
    pure ({ id := id, lang := 21, severity := sev, files := none, ignores := none } : Rule)
  let occs ← getOccs a
  let filter ← getFilter a
  let args := parseFlags filter occs
  let env := { baseEnv [] [] with matchCount := fun _ _ _ => 1 }
  let exit := scanExit env args rules [tsPath]
  let sevOf : Bytes → Json := fun id =>
    match loadCollection env args rules with
    | .error _ => Json.null
    | .ok c =>
      match (allRules c).find? (fun r => r.id = id) with
      | none => Json.null
      | some r => Json.str (sevStr r.severity)
  pure (Json.mkObj [("sev", Json.mkObj (rules.map fun r => (bytesStr r.id, sevOf r.id))), ("exit", jNat exit)])

structure FileJ where
  path : Bytes
  present : List Nat

def lookupCount (tbl : List (Bytes × Bytes × Nat × Nat)) (id p : Bytes) (l : Nat) : Nat :=
  ((tbl.filter (fun t => t.1 = id ∧ t.2.1 = p ∧ t.2.2.1 = l)).map (·.2.2.2)).sum

/-- generated project scanned from its root -/
def opScanProject : Handler := fun a => do
  let rules ← getRules a
  let occs ← getOccs a
  let filter ← getFilter a
  let filesJ ← getArr a "files"
  let files ← filesJ.toList.mapM fun f => do
    let p ← getBytes f "p"
    let pr ← getArr f "present"
    let pr ← pr.toList.mapM (·.getNat?)
    pure (FileJ.mk p pr)
  let lgJ ← getArr a "langGlobs"
  let langGlobs ← lgJ.toList.mapM fun e => do
    let p ← e.getArr?
    match p.toList with
    | [k, l, gs] => do
      let gs ← gs.getArr?
      let gs ← gs.toList.mapM (·.getStr?)
      pure (strBytes (← k.getStr?), (← l.getNat?), gs.map strBytes)
    | _ => throw "langGlobs entry"
  let gm ← getPairsSel a "gm"
  let tgm ← getPairsSel a "tgm"
  let invalid ← getStrs a "invalid"
  let mcJ ← getArr a "mc"
  let mc ← mcJ.toList.mapM fun e => do
    let p ← e.getArr?
    match p.toList with
    | [id, path, l, n] => do pure (strBytes (← id.getStr?), strBytes (← path.getStr?), (← l.getNat?), (← n.getNat?))
    | _ => throw "mc entry"
  let supJ ← getArr a "sup"
  let sup ← supJ.toList.mapM fun e => do
    let p ← e.getArr?
    match p.toList with
    | [path, l, cands] => do
      let cs ← cands.getArr?
      let cs ← cs.toList.mapM (·.getStr?)
      pure (strBytes (← path.getStr?), (← l.getNat?), cs.map strBytes)
    | _ => throw "sup entry"
  let env : Env :=
    { globMatch := fun g p => gm.contains (g, p)
      globValid := fun g => !invalid.contains g
      typeMatch := fun g p => tgm.contains (g, p)
      langGlobs := langGlobs
      customExts := []
      injectable := injectTable
      present := fun p => match files.find? (fun f => f.path = p) with | some f => f.present | none => []
      matchCount := fun id p l => lookupCount mc id p l
      unusedCount := fun ids p l =>
        ((sup.filter (fun s => s.1 = p ∧ s.2.1 = l ∧ !(s.2.2.any (fun c => ids.contains c)))).length) }
  let args := parseFlags filter occs
  match loadCollection env args rules with
  | .error e =>
    pure (Json.mkObj [("findings", Json.arr #[]), ("exit", jNat (exitCodeOf (.error e)))])
  | .ok c =>
    let visited := (files.map (·.path)).filter (walkerVisits env c)
    let raw := visited.flatMap (findingsOn env args c)
    -- merge the documents of one file: one entry per (path, rule id)
    let keys := (raw.map (fun t => (t.1, t.2.1))).eraseDups
    let merged := keys.map fun k => (k.1, k.2, ((raw.filter (fun t => t.1 = k.1 ∧ t.2.1 = k.2)).map (·.2.2)).sum)
    let sorted := AGV.Topo.sortBy (fun (x y : Bytes × Bytes × Nat) =>
      AGV.Topo.bytesLt x.1 y.1 || (x.1 == y.1 && AGV.Topo.bytesLt x.2.1 y.2.1)) merged
    let exit := exitCodeOf (.ok (errorCount env args c visited))
    pure (Json.mkObj [
      ("findings", Json.arr (sorted.map fun t => Json.arr #[jBytes t.1, jBytes t.2.1, jNat t.2.2]).toArray),
      ("exit", jNat exit)])

def selectOps : List (String × Handler) := [
  ("path_ext", opPathExt), ("coll_for_path", opCollForPath), ("sev_cli", opSevCli),
  ("scan_project", opScanProject)]

end Driver
