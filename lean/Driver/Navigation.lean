/-
Driver ops of the C19 unit `navigation`: the model's traversals / navigation / positions on a
registered (or inline) dumped document, printed as lists of pre-order ids, and the part of the
tree-sitter contract (DESIGN 5.2) that is decidable on a dump.
-/
import Driver.TreeIO
import AstGrepVerif.Model.Nav
import AstGrepVerif.Model.Position
import AstGrepVerif.Model.ReplaceAll

open Lean AGV

namespace Driver

def idsJson (ts : List Tree) : Json := Json.arr (ts.map fun t => jNat t.id).toArray

def tmJson : TM (List Tree) → Json
  | .ok ts => idsJson ts
  | .error .fuel => Json.str "out-of-fuel"
  | .error _ => Json.str "panic"

def optIdJson : Option Tree → Json
  | some t => jNat t.id
  | none => Json.null

/-- the document of an op: registered (`t`) or inline (`lang`, `src`, `tree`) -/
def navDoc (st : DState) (a : Json) : Except String Document :=
  match a.getObjVal? "tree" with
  | .ok tj => do
    let tree ← parseTree tj
    let src ← getBytes a "src"
    pure { src, tree, nodes := tree.preorder.toArray, lang := (getStr a "lang").toOption.getD "" }
  | .error _ => getDoc st a

mutual
/-- children ranges ordered (each starts at or after the end of the one before, `start ≤ end`) -/
partial def orderedTree : Tree → Bool
  | .node i cs => decide (i.start ≤ i.stop) && orderedFrom none cs
partial def orderedFrom : Option Nat → List Tree → Bool
  | _, [] => true
  | prev, c :: cs =>
    (match prev with | some p => decide (p ≤ c.start) | none => true) &&
    orderedTree c && orderedFrom (some (match prev with | some p => max p c.stop | none => c.stop)) cs
end

partial def nestedTree : Tree → Bool
  | .node i cs => cs.all fun c => decide (i.start ≤ c.start) && decide (c.stop ≤ i.stop) && nestedTree c

def hasZeroWidthChild (t : Tree) : Bool := t.children.any fun c => decide (c.start ≥ c.stop)

def opContractWf : SHandler := fun st a => do
  let d ← navDoc st a
  let zw := (d.nodes.toList.filter hasZeroWidthChild).length
  pure (st, Json.mkObj [("ordered", Json.bool (orderedTree d.tree)), ("nested", Json.bool (nestedTree d.tree)),
                        ("zw_parents", jNat zw), ("nodes", jNat d.nodes.size)])

def getNatList (a : Json) (k : String) : Except String (List Nat) := do
  (← getArr a k).toList.mapM fun x => x.getNat?

/-- the raw cursor walk observed by the harness against the zipper on the dump -/
def opContractCursor : SHandler := fun st a => do
  let d ← navDoc st a
  let n ← getNode d a
  let fwd ← getNatList a "fwd"
  let bwd ← getNatList a "bwd"
  let pOk ← getBool a "parent_ok"
  let kids := n.children.map (·.id)
  pure (st, Json.mkObj [("fwd_ok", Json.bool (fwd == kids)), ("bwd_ok", Json.bool (bwd == kids.reverse)),
                        ("parent_ok", Json.bool pOk)])

/-- the model's cursor for `goto_first_child_for_byte(byte)` on `p` and the two sibling walks -/
def modelByteWalk (p : Tree) (byte : Nat) : Json × List Nat × List Nat :=
  match (Cursor.new p).gotoFirstChildForByte byte with
  | none => (Json.null, [], [])
  | some c =>
    let fwd := match Nav.iterNextSibling (p.size + 1) c with | .ok l => l.map (·.id) | .error _ => []
    let bwd := match Nav.iterPrevSibling (p.size + 1) c with | .ok l => l.map (·.id) | .error _ => []
    (jNat c.node.id, fwd, bwd)

/-- the raw cursor calls of `next_all` / `prev_all` observed by the harness, against the zipper -/
def opContractCursorForByte : SHandler := fun st a => do
  let d ← navDoc st a
  let p ← getNode d a
  let byte ← getNat a "byte"
  let landed ← a.getObjVal? "landed"
  let fwd ← getNatList a "fwd"
  let bwd ← getNatList a "bwd"
  let (ml, mf, mb) := modelByteWalk p byte
  pure (st, Json.mkObj [("landed_ok", Json.bool (ml == landed)), ("fwd_ok", Json.bool (mf == fwd)),
                        ("bwd_ok", Json.bool (mb == bwd))])

/-- a `next_all` / `prev_all` case the harness claims to be outside the zipper contract: the claim
is checked against the raw walk it observed (and the parent it used must be the model's) -/
def opContractSiblings (fwd : Bool) : SHandler := fun st a => do
  let d ← navDoc st a
  let n ← getNode d a
  let pid ← getNat a "parent"
  let byte ← getNat a "byte"
  let landed ← a.getObjVal? "landed"
  let walk ← getNatList a "walk"
  let p := match Nav.parent d.tree n with | some p => p | none => n
  let (ml, mf, mb) := modelByteWalk p byte
  let outside := p.id == pid && byte == n.start && (ml != landed || (if fwd then mf else mb) != walk)
  pure (st, Json.mkObj [("outside", Json.bool outside)])

/-- node-level `next()` / `prev()` claimed to be outside the contract: the parent has a zero-width
child (checked here); `parent` / `children` are still compared -/
def opContractNavNode : SHandler := fun st a => do
  let d ← navDoc st a
  let n ← getNode d a
  let outside := match Nav.parent d.tree n with
    | some p => hasZeroWidthChild p
    | none => false
  pure (st, Json.mkObj [("outside", Json.bool outside), ("parent", optIdJson (Nav.parent d.tree n)),
                        ("children", idsJson (Nav.children n))])

def navOp (f : Document → Tree → Json → Except String Json) : SHandler := fun st a => do
  let d ← navDoc st a
  let n ← getNode d a
  pure (st, ← f d n a)

def opVisit (d : Document) (n : Tree) (a : Json) : Except String Json := do
  let _ := d
  let kind ← getNat a "kind"
  let re ← getBool a "reentrant"
  let named ← getBool a "named"
  let algo ← getStr a "algo"
  let m : Tree → Bool := fun t => t.kind == kind
  -- the harness links a build with debug assertions
  -- the repaired `calibrate_for_match` (no early return after a match); `Post.visit` = pinned v0.37.0
  if algo == "post" then pure (tmJson (Post.visitFixed true re named m n))
  else pure (tmJson (Pre.visit re named m n))

/-- `node.replace_all(KindMatcher(kind), "X")`: a kind matcher has no `get_match_len`, the text is `X` -/
def opReplaceAll (d : Document) (n : Tree) (a : Json) : Except String Json := do
  let _ := d
  let kind ← getNat a "kind"
  match replaceAll (fun t => t.kind == kind) (fun _ => none) (fun _ => [88]) n with
  | .ok es => pure (Json.arr (es.map fun e => Json.arr #[jNat e.position, jNat e.deleted, jNat e.inserted.length]).toArray)
  | .error .fuel => pure (Json.str "out-of-fuel")
  | .error _ => pure (Json.str "panic")

def posJson (d : Document) (n : Tree) : Json :=
  match Position.startPos d.src n, Position.endPos d.src n with
  | some (sl, sc), some (el, ec) => Json.arr #[jNat sl, jNat sc, jNat el, jNat ec]
  | _, _ => Json.str "panic"

def navigationOps : List (String × SHandler) := [
  ("contract:wf", opContractWf),
  ("contract:cursor", opContractCursor),
  ("contract:cursor_for_byte", opContractCursorForByte),
  ("contract:nav_prev_all", opContractSiblings false),
  ("contract:nav_next_all", opContractSiblings true),
  ("contract:nav_node", opContractNavNode),
  ("nav_pre", navOp fun _ n _ => pure (tmJson (Pre.toList n))),
  ("nav_post", navOp fun _ n _ => pure (tmJson (Post.toList n))),
  ("nav_level", navOp fun _ n _ => pure (tmJson (Level.toList n))),
  ("nav_visit", navOp opVisit),
  ("nav_replace_all", navOp opReplaceAll),
  ("nav_node", navOp fun d n _ => pure (Json.mkObj [
      ("parent", optIdJson (Nav.parent d.tree n)), ("children", idsJson (Nav.children n)),
      ("next", optIdJson (Nav.next d.tree n)), ("prev", optIdJson (Nav.prev d.tree n))])),
  ("nav_ancestors", navOp fun d n _ => pure (tmJson (Nav.ancestors d.tree n))),
  ("nav_next_all", navOp fun d n _ => pure (tmJson (Nav.nextAll d.tree n))),
  ("nav_prev_all", navOp fun d n _ => pure (tmJson (Nav.prevAll d.tree n))),
  ("nav_pos", navOp fun d n _ => pure (posJson d n))]

end Driver
