/-
Driver op of the `convert` transformation (C07): `convert_case`
`a` = {"s": string, "to": case name as in YAML, "sep": list of separator names | null}
`r` = the converted string, or "outside" when `s` has a character outside the model's alphabet
(the checker skips such lines).
-/
import Driver.Basic
import AstGrepVerif.Model.StringCase

open Lean AGV

namespace Driver

def getSeps (j : Json) (k : String) : Except String (Option (List StringCase.Separator)) :=
  match j.getObjVal? k with
  | .ok .null => pure none
  | .error _ => pure none
  | .ok v => do
    let arr ← v.getArr?
    let l ← arr.toList.mapM fun x => do
      let n ← x.getStr?
      match StringCase.Separator.ofName? n with
      | some s => pure s
      | none => throw s!"unknown separator {n}"
    pure (some l)

def opConvertCase : Handler := fun a => do
  let s ← getStr a "s"
  let toName ← getStr a "to"
  let seps ← getSeps a "sep"
  match StringCase.Case.ofName? toName with
  | none => throw s!"unknown case {toName}"
  | some to =>
    match StringCase.convert? to s.toList seps with
    | some r => pure (jStr r)
    | none => pure (Json.str "outside")

def stringCaseOps : List (String × Handler) :=
  [("convert_case", opConvertCase)]

end Driver
