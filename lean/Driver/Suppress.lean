import Driver.Basic
import AstGrepVerif.Model.Suppress
import AstGrepVerif.Model.SuppressFixed

open Lean AGV AGV.Suppress

namespace Driver

/-- canonical form of a `HashSet<String>`: sorted, without duplicates -/
def supCanonSet (items : List Bytes) : Json :=
  let strs := (items.map bytesStr).toArray.qsort (· < ·)
  let dedup := strs.foldl (init := (#[] : Array String)) fun acc s =>
    if acc.back? == some s then acc else acc.push s
  Json.arr (dedup.map Json.str)

def opSuppressParse : Handler := fun a => do
  let t ← getBytes a "t"
  match parseSuppressionSet t with
  | none => pure Json.null
  | some items => pure (supCanonSet items)

def supGetCNode (j : Json) : Except String CNode := do
  let kind ← getBytes j "k"
  let text ← getBytes j "t"
  let sl ← getNat j "sl"
  let el ← getNat j "el"
  let lead ← getBytes j "ld"
  let prev ← match j.getObjVal? "p" with
    | .ok (.arr #[s, e]) => do pure (some ((← s.getNat?), (← e.getNat?)))
    | _ => pure none
  pure { kind, text, startLine := sl, endLine := el, prev, lead }

def supGetFinding (j : Json) : Except String Finding := do
  let rule ← getBytes j "r"
  let line ← getNat j "l"
  let fix ← getBool j "x"
  pure { rule, line, fix }

def supGetInput (a : Json) : Except String Input := do
  let ns ← getArr a "nodes"
  let fs ← getArr a "f"
  pure { nodes := (← ns.toList.mapM supGetCNode), findings := (← fs.toList.mapM supGetFinding) }

def supNatArr (l : List Nat) : Json := Json.arr (l.map jNat).toArray

def supResultJson (r : Result) : Json :=
  Json.mkObj [("m", supNatArr r.inMatches), ("d", supNatArr r.inDiffs),
              ("um", supNatArr r.unusedInMatches), ("ud", supNatArr r.unusedInDiffs)]

/-- the code as it is at the pinned commit (table value = one suppression per line) -/
def opSuppressScan : Handler := fun a => do
  let inp ← supGetInput a
  let sf ← getBool a "sf"
  let ur ← getBool a "ur"
  pure (supResultJson (scan inp sf ur))

/-- the code after FIX_C14.patch (table value = all suppressions of the line) -/
def opSuppressScanFixed : Handler := fun a => do
  let inp ← supGetInput a
  let sf ← getBool a "sf"
  let ur ← getBool a "ur"
  pure (supResultJson (SuppressFixed.scan inp sf ur))

/-- CLI end to end: `scan --json=stream` in project mode = `scan(grep, false)` with the
unused-suppression rule at its default severity `hint` -/
def opSuppressCli : Handler := fun a => do
  let inp ← supGetInput a
  let r := scan inp false true
  pure (Json.mkObj [("m", supNatArr r.inMatches), ("um", supNatArr r.unusedInMatches)])

def opSuppressCliFixed : Handler := fun a => do
  let inp ← supGetInput a
  let r := SuppressFixed.scan inp false true
  pure (Json.mkObj [("m", supNatArr r.inMatches), ("um", supNatArr r.unusedInMatches)])

def suppressOps : List (String × Handler) := [
  ("suppress_parse", opSuppressParse),
  ("suppress_scan", opSuppressScan), ("suppress_scan_fixed", opSuppressScanFixed),
  ("suppress_cli", opSuppressCli), ("suppress_cli_fixed", opSuppressCliFixed)]

end Driver
