import Driver.Basic
import AstGrepVerif.Model.Notation
import AstGrepVerif.Model.Template

open Lean AGV

namespace Driver

def mvJson : Option MetaVar → Json
  | none => Json.null
  | some (.capture n named) => Json.arr #[Json.str "cap", jStr n, Json.bool named]
  | some (.dropped named) => Json.arr #[Json.str "drop", Json.bool named]
  | some .multiple => Json.arr #[Json.str "multi"]
  | some (.multiCapture n) => Json.arr #[Json.str "mcap", jStr n]

def opLangExtract : Handler := fun a => do
  let e ← getChar a "e"
  let s ← getStr a "s"
  let pre := langPreProcess e s.toList
  pure (Json.mkObj [("pre", jStr pre), ("mv", mvJson (extractMetaVar pre e))])

def opExtractRaw : Handler := fun a => do
  let mc ← getChar a "mc"
  let s ← getStr a "s"
  pure (mvJson (extractMetaVar s.toList mc))

def opAnbParse : Handler := fun a => do
  let s ← getStr a "s"
  -- the code after FIX_C11_3 (checked arithmetic: overflow is a syntax error)
  match parseAnBChecked s.toList with
  | .ok (x, y) => pure (Json.arr #[Json.str "ok", jInt x, jInt y])
  | .error (.illegalCharacter _) => pure (Json.arr #[Json.str "err", Json.str "illegal"])
  | .error .invalidSyntax => pure (Json.arr #[Json.str "err", Json.str "syntax"])
  | .error .overflow => pure (Json.str "panic")   -- unreachable: `parseAnBChecked` never returns it

def opAnbMatch : Handler := fun a => do
  let x ← getInt a "a"
  let y ← getInt a "b"
  let i ← getNat a "i"
  -- the code after FIX_C11_3 (computed in i64)
  pure (Json.bool (isMatchedChecked x y i))

def opResolveChar : Handler := fun a => do
  let c ← getOptInt a "c"
  let dft ← getInt a "dft"
  let len ← getInt a "len"
  pure (jNat (resolveChar c dft len))

def opSubstring : Handler := fun a => do
  let t ← getStr a "t"
  let s ← getOptInt a "s"
  let e ← getOptInt a "e"
  pure (jStr (substring t.toList s e))

def mveJson : MetaVarExtract × Nat → Json
  | (.single n, i) => Json.arr #[jNat 0, jBytes n, jNat i]
  | (.multiple n, i) => Json.arr #[jNat 1, jBytes n, jNat i]
  | (.transformed n, i) => Json.arr #[jNat 2, jBytes n, jNat i]

def opCreateTemplate : Handler := fun a => do
  let t ← getBytes a "t"
  let tr ← getStrList a "tr"
  let tpl := createTemplate t 0x24 (tr.map strBytes)
  pure (Json.mkObj [("f", Json.arr (tpl.fragments.map jBytes).toArray),
                    ("v", Json.arr (tpl.vars.map mveJson).toArray)])

def opSplitFirst : Handler := fun a => do
  let s ← getBytes a "s"
  let tr ← getStrList a "tr"
  match splitFirstMetaVar s 0x24 (tr.map strBytes) with
  | none => pure Json.null
  | some (.single n, k) => pure (Json.arr #[jNat 0, jBytes n, jNat k])
  | some (.multiple n, k) => pure (Json.arr #[jNat 1, jBytes n, jNat k])
  | some (.transformed n, k) => pure (Json.arr #[jNat 2, jBytes n, jNat k])

def notationOps : List (String × Handler) := [
  ("lang_extract", opLangExtract), ("extract_raw", opExtractRaw),
  ("anb_parse", opAnbParse), ("anb_match", opAnbMatch),
  ("resolve_char", opResolveChar), ("substring", opSubstring),
  ("create_template", opCreateTemplate), ("split_first", opSplitFirst)]

end Driver
