/-
Driver glue for the loader ops (C11 / C12): reading a facts document (the structured part of a
rule file + what tree-sitter / regex said about its atoms), running `Loader.load`, printing the
outcome class and error variant in the spelling of the Rust `Debug` output.
-/
import Driver.Basic
import AstGrepVerif.Model.Loader
import AstGrepVerif.Model.GlobalLoader

open Lean AGV AGV.Loader

namespace Driver

def ldOptKinds (j : Json) : Except String (Option (List Nat)) :=
  match j with
  | .null => pure none
  | v => do
    let a ← v.getArr?
    pure (some (← a.toList.mapM fun x => x.getNat?))

def ldNames (j : Json) : Except String (List AGV.Name) := do
  let a ← j.getArr?
  a.toList.mapM fun x => do pure (← x.getStr?).toList

def ldField (j : Json) : Except String SField :=
  match j with
  | .null => pure .absent
  | v => do
    if (← getBool v "ok") then pure (.known (← getNat v "id")) else pure .unknown

mutual
partial def ldRule (j : Json) : Except String SRule := do
  let a ← j.getArr?
  pure (.mk (← a.toList.mapM ldPart))
partial def ldPart (j : Json) : Except String SPart := do
  let p ← getStr j "p"
  match p with
  | "pattern" =>
    pure (.pattern (← getBool j "ok") (← ldNames (← j.getObjVal? "vars")) (← ldOptKinds (← j.getObjVal? "kinds")))
  | "kind" => pure (.kind (← getBool j "ok") (← getNat j "id"))
  | "regex" => pure (.regex (← getBool j "ok"))
  | "nthChild" =>
    let pj ← j.getObjVal? "pos"
    let pos ← match pj.getObjVal? "n" with
      | .ok n => do pure (NthPos.numeric (← n.getNat?))
      | .error _ => do pure (NthPos.functional (← getStr pj "f").toList)
    let ofRule ← match (← j.getObjVal? "of") with
      | .null => pure none
      | v => do pure (some (← ldRule v))
    pure (.nthChild pos ofRule (← getBool j "rev"))
  | "range" => pure (.range (← getNat j "sl") (← getNat j "sc") (← getNat j "el") (← getNat j "ec"))
  | "all" => pure (.all (← (← getArr j "rs").toList.mapM ldRule))
  | "any" => pure (.any (← (← getArr j "rs").toList.mapM ldRule))
  | "not" => pure (.not (← ldRule (← j.getObjVal? "r")))
  | "matches" => pure (.matches (← getStr j "id").toList)
  | "inside" => pure (.inside (← ldRule (← j.getObjVal? "r")) (← ldStop (← j.getObjVal? "stop")) (← ldField (← j.getObjVal? "field")))
  | "has" => pure (.has (← ldRule (← j.getObjVal? "r")) (← ldStop (← j.getObjVal? "stop")) (← ldField (← j.getObjVal? "field")))
  | "precedes" => pure (.precedes (← ldRule (← j.getObjVal? "r")) (← ldStop (← j.getObjVal? "stop")) (← ldField (← j.getObjVal? "field")))
  | "follows" => pure (.follows (← ldRule (← j.getObjVal? "r")) (← ldStop (← j.getObjVal? "stop")) (← ldField (← j.getObjVal? "field")))
  | t => throw s!"part {t}"
partial def ldStop (j : Json) : Except String SStop :=
  match j with
  | .str "neighbor" => pure .neighbor
  | .str "end" => pure .end_
  | v => do pure (.rule (← ldRule v))
end

def ldPairs {α} (f : Json → Except String α) (j : Json) : Except String (List (AGV.Name × α)) := do
  let a ← j.getArr?
  a.toList.mapM fun kv => do
    let p ← kv.getArr?
    pure ((← p[0]!.getStr?).toList, ← f p[1]!)

def ldTrans (j : Json) : Except String STrans := do
  let src := (← getStr j "src").toList
  match (← getStr j "t") with
  | "substring" => pure (.substring src)
  | "convert" => pure (.convert src)
  | "replace" => pure (.replace src (← getBool j "rx"))
  | "rewrite" => pure (.rewrite src (← ldNames (← j.getObjVal? "rw")))
  | t => throw s!"trans {t}"

def ldExpansion (j : Json) : Except String (Option SExpansion) :=
  match j with
  | .null => pure none
  | v => do pure (some { rule := ← ldRule (← v.getObjVal? "r"), stop := ← ldStop (← v.getObjVal? "stop") })

def ldFix (j : Json) : Except String (Option SFix) :=
  match j with
  | .null => pure none
  | v =>
    match v.getObjVal? "s" with
    | .ok s => do pure (some (.str (strBytes (← s.getStr?))))
    | .error _ => do
      pure (some (.config (← getBytes v "t") (← ldExpansion (← v.getObjVal? "es")) (← ldExpansion (← v.getObjVal? "ee"))))

def ldOpt {α} (f : Json → Except String α) (j : Json) : Except String (Option α) :=
  match j with
  | .null => pure none
  | v => do pure (some (← f v))

def ldCore (j : Json) : Except String SCore := do
  let cons ← ldOpt (ldPairs ldRule) (← j.getObjVal? "constraints")
  pure { rule := ← ldRule (← j.getObjVal? "rule"),
         constraints := cons.getD [],
         utils := ← ldOpt (ldPairs ldRule) (← j.getObjVal? "utils"),
         transform := ← ldOpt (ldPairs ldTrans) (← j.getObjVal? "transform"),
         fix := ← ldFix (← j.getObjVal? "fix") }

def ldDoc (j : Json) : Except String SDoc := do
  let rws ← ldOpt (fun v => do
      let a ← v.getArr?
      a.toList.mapM fun r => do
        pure ({ id := (← getStr r "id").toList, core := ← ldCore (← r.getObjVal? "core") } : SRewriter))
    (← j.getObjVal? "rewriters")
  let gl ← (← getArr j "globals").toList.mapM fun g => do
    pure ({ id := (← getStr g "id").toList, kinds := ← ldOptKinds (← g.getObjVal? "kinds") } : GlobalUtil)
  pure { core := ← ldCore (← j.getObjVal? "core"), rewriters := rws, globals := gl,
         expando := ← getChar j "expando" }

partial def rseName : RSE → String
  | .missPositiveMatcher => "MissPositiveMatcher"
  | .invalidKind => "InvalidKind"
  | .invalidPattern => "InvalidPattern"
  | .nthIllegalCharacter => "NthChild.IllegalCharacter"
  | .nthInvalidSyntax => "NthChild.InvalidSyntax"
  | .nthInvalidRule e => "NthChild.InvalidRule." ++ rseName e
  | .wrongRegex => "WrongRegex"
  | .undefinedUtil => "MatchesReference.UndefinedUtil"
  | .duplicateRule => "MatchesReference.DuplicateRule"
  | .cyclicRule => "MatchesReference.CyclicRule"
  | .invalidRange => "InvalidRange"
  | .fieldNotSupported => "FieldNotSupported"
  | .invalidField => "InvalidField"

def teName : TE → String
  | .cyclic => "Cyclic" | .alreadyDefined => "AlreadyDefined"
  | .malformedVar => "MalformedVar" | .invalidRegex => "InvalidRegex"

def sectionName : Section → String
  | .constraints => "constraints" | .transform => "transform" | .fix => "fix"

def coreErrName : CoreErr → String
  | .utils e => "Utils." ++ rseName e
  | .rule e => "Rule." ++ rseName e
  | .constraints e => "Constraints." ++ rseName e
  | .transform e => "Transform." ++ teName e
  | .fixer e => "Fixer.WrongExpansion." ++ rseName e
  | .undefinedMetaVar _ s => "UndefinedMetaVar." ++ sectionName s

def loadErrName : LoadErr → String
  | .yaml => "Yaml"
  | .core e => "Core." ++ coreErrName e
  | .rewriter e _ => "Rewriter." ++ coreErrName e
  | .undefinedRewriter _ => "UndefinedRewriter"
  | .noFixInRewriter _ => "NoFixInRewriter"
  | .missingPotentialKinds => "MissingPotentialKinds"

def outcomeJson (cmpv : Bool) : Res LoadErr Loaded → Json
  | .ok _ => Json.mkObj [("c", "ok"), ("v", "")]
  | .err e => Json.mkObj [("c", "err"), ("v", if cmpv then loadErrName e else "*")]
  | .panic _ => Json.mkObj [("c", "panic"), ("v", "")]

/-- `yaml_load`: outcome class and error variant of loading a structured document -/
def opYamlLoad : Handler := fun a => do
  let cmpv := (getBool a "cmpv").toOption.getD true
  if (getBool a "yaml_err").toOption.getD false then
    -- outside the structured class (unknown key, wrong type): serde rejects the document
    pure (outcomeJson cmpv (.err .yaml))
  else
    let doc ← ldDoc (← a.getObjVal? "doc")
    pure (outcomeJson cmpv (load doc))

/-- the same for the pinned code (used by replays of the counter-examples) -/
def opYamlLoadPreFix : Handler := fun a => do
  let doc ← ldDoc (← a.getObjVal? "doc")
  pure (outcomeJson true (loadPreFix doc))

/-- a global utility document: `{"id", "core" (as in a document of `yaml_load`), "expando"?}` -/
def ldGlobal (j : Json) : Except String SGlobal := do
  pure { id := (← getStr j "id").toList, core := ← ldCore (← j.getObjVal? "core"),
         expando := (getChar j "expando").toOption.getD '$' }

/-- the error kinds of `parse_global_utils` in the spelling of the harness (role `util`:
`Global.` + the variant path of the `RuleCoreError`) -/
def globalsOutcomeJson (cmpv : Bool) : Res CoreErr (List LoadedGlobal) → Json
  | .ok _ => Json.mkObj [("c", "ok"), ("v", "")]
  | .err e => Json.mkObj [("c", "err"), ("v", if cmpv then "Global." ++ coreErrName e else "*")]
  | .panic _ => Json.mkObj [("c", "panic"), ("v", "")]

/-- `globals_load`: outcome class and error kind of `DeserializeEnv::parse_global_utils` on a set
of global utility documents (`globals`: list of `ldGlobal` documents, in some map order) -/
def opGlobalsLoad : Handler := fun a => do
  let cmpv := (getBool a "cmpv").toOption.getD true
  let gs ← (← getArr a "globals").toList.mapM ldGlobal
  pure (globalsOutcomeJson cmpv (loadGlobals gs))

/-- the same before the two repairs of global loading (replays of the counter-examples) -/
def opGlobalsLoadPreFix : Handler := fun a => do
  let gs ← (← getArr a "globals").toList.mapM ldGlobal
  pure (globalsOutcomeJson true (loadGlobalsPreFix gs))

def mveSlotJson : MetaVarExtract × Nat → Json
  | (.single n, _) => Json.arr #[Json.str "single", jBytes n]
  | (.multiple n, _) => Json.arr #[Json.str "multi", jBytes n]
  | (.transformed n, _) => Json.arr #[Json.str "transformed", jBytes n]

def ldRanges (j : Json) : Except String (List (Bytes × (Nat × Nat))) := do
  let a ← j.getArr?
  a.toList.mapM fun kv => do
    let p ← kv.getArr?
    pure (strBytes (← p[0]!.getStr?), (← p[1]!.getNat?), (← p[2]!.getNat?))

/-- `fix_apply`: the replacement text of an accepted rule on one match.
args: `src`, `start` (match start), `fix` (facts form), `keys` (transform keys), captures
`single` / `multi` as `[name, start, end]`, `transformed` as `[name, text]` -/
def opFixApply : Handler := fun a => do
  let src ← getBytes a "src"
  let start ← getNat a "start"
  let some fix ← ldFix (← a.getObjVal? "fix") | throw "fix"
  let keys ← ldNames (← a.getObjVal? "keys")
  let single ← ldRanges (← a.getObjVal? "single")
  let multi ← ldRanges (← a.getObjVal? "multi")
  let tr ← (← getArr a "transformed").toList.mapM fun kv => do
    let p ← kv.getArr?
    pure (strBytes (← p[0]!.getStr?), strBytes (← p[1]!.getStr?))
  let fx := if (getBool a "prefix").toOption.getD false then Fixes.none else Fixes.all
  let t := fixerTemplate fx fix keys
  let env : TEnv := { single := single, multi := multi, transformed := tr }
  if (getBool a "slots").toOption.getD false then
    pure (Json.mkObj [("out", jBytes (generateReplacement src start env t)),
                      ("slots", Json.arr (t.vars.map mveSlotJson).toArray)])
  else
    pure (Json.mkObj [("out", jBytes (generateReplacement src start env t))])

def loaderOps : List (String × Handler) := [
  ("yaml_load", opYamlLoad), ("yaml_load_prefix", opYamlLoadPreFix), ("fix_apply", opFixApply),
  ("globals_load", opGlobalsLoad), ("globals_load_prefix", opGlobalsLoadPreFix)]

end Driver
