/-
Driver ops of C07: indentation functions and fix-template expansion.
Byte strings travel as lower-case hex (slices may cut multi-byte characters).
-/
import Driver.Basic
import AstGrepVerif.Model.Fix

open Lean AGV

namespace Driver

def hexDigit? (c : Char) : Option Nat :=
  if '0' ≤ c ∧ c ≤ '9' then some (c.toNat - '0'.toNat)
  else if 'a' ≤ c ∧ c ≤ 'f' then some (c.toNat - 'a'.toNat + 10)
  else none

def parseHex : List Char → Except String AGV.Bytes
  | [] => pure []
  | [_] => throw "odd hex length"
  | a :: b :: rest =>
    match hexDigit? a, hexDigit? b with
    | some x, some y => do
      let tl ← parseHex rest
      pure (UInt8.ofNat (x * 16 + y) :: tl)
    | _, _ => throw "bad hex digit"

def hexChar (n : Nat) : Char :=
  if n < 10 then Char.ofNat ('0'.toNat + n) else Char.ofNat ('a'.toNat + n - 10)

def toHex (b : AGV.Bytes) : String :=
  String.ofList (b.flatMap fun x => [hexChar (x.toNat / 16), hexChar (x.toNat % 16)])

def getHex (j : Json) (k : String) : Except String AGV.Bytes := do
  parseHex (← getStr j k).toList

def jHex (b : AGV.Bytes) : Json := Json.str (toHex b)

def getOptNat (j : Json) (k : String) : Except String (Option Nat) :=
  match j.getObjVal? k with
  | .ok .null => pure none
  | .ok v => do pure (some (← v.getNat?))
  | .error _ => pure none

def opIndentAt : Handler := fun a => do
  pure (jNat (getIndentAtOffset (← getHex a "s")))

def mkExtract (multi : Option Nat) (s : AGV.Bytes) : Deindented :=
  match multi with
  | none => .singleLine s
  | some i => .multiLine s i

def opIndentLines : Handler := fun a => do
  let indent ← getNat a "indent"
  let multi ← getOptNat a "multi"
  let s ← getHex a "s"
  pure (jHex (indentLines indent (mkExtract multi s)))

def opRemoveIndent : Handler := fun a => do
  pure (jHex (removeIndent (← getNat a "indent") (← getHex a "s")))

def opExtractDeindent : Handler := fun a => do
  let c ← getHex a "c"
  match extractWithDeindent? c (← getNat a "start") (← getNat a "end") with
  | none => pure (Json.str "panic")
  | some (.singleLine s) => pure (Json.mkObj [("multi", Json.null), ("s", jHex s)])
  | some (.multiLine s i) => pure (Json.mkObj [("multi", jNat i), ("s", jHex s)])

def opFormattedSlice : Handler := fun a => do
  match formattedSlice? (← getHex a "slice") (← getHex a "c") (← getNat a "start") with
  | none => pure (Json.str "panic")
  | some b => pure (jHex b)

/-- `[[name, start, end], …]` -/
def getRanges (j : Json) (k : String) : Except String (List (AGV.Bytes × (Nat × Nat))) := do
  let arr ← getArr j k
  arr.toList.mapM fun x => do
    let t ← x.getArr?
    match t.toList with
    | [n, s, e] => pure (strBytes (← n.getStr?), ((← s.getNat?), (← e.getNat?)))
    | _ => throw "range triple expected"

/-- `[[name, hex], …]` -/
def getTrans (j : Json) (k : String) : Except String (List (AGV.Bytes × AGV.Bytes)) := do
  let arr ← getArr j k
  arr.toList.mapM fun x => do
    let t ← x.getArr?
    match t.toList with
    | [n, s] => pure (strBytes (← n.getStr?), (← parseHex (← s.getStr?).toList))
    | _ => throw "name/hex pair expected"

def getTEnv (a : Json) : Except String TEnv := do
  let env ← a.getObjVal? "env"
  pure { single := ← getRanges env "single", multi := ← getRanges env "multi",
         transformed := ← getTrans env "trans" }

/-- end to end: `TemplateFix::with_transform(tmpl, lang, tr).generate_replacement(nm)` -/
def opTemplateFix : Handler := fun a => do
  let src ← getHex a "src"
  let start ← getNat a "start"
  let env ← getTEnv a
  let tmpl ← getHex a "tmpl"
  let tr ← getStrList a "tr"
  pure (jHex (templateFix src start env tmpl (tr.map strBytes)))

/-- `MetaVarEnv::insert_transformation` followed by the template expansion of that variable -/
def opInsertTransformation : Handler := fun a => do
  let src ← getHex a "src"
  let anchor ← getOptNat a "anchor"
  let slice ← getHex a "slice"
  pure (jHex (insertTransformationValue src anchor slice))

/-- `MetaVarEnv::get_var_bytes` -/
def opGetVarBytes : Handler := fun a => do
  let src ← getHex a "src"
  let env ← getTEnv a
  let name := strBytes (← getStr a "name")
  let ref ← match (← getStr a "kind") with
    | "cap" => pure (VarRef.capture name)
    | "mcap" => pure (VarRef.multiCapture name)
    | _ => pure VarRef.other
  match getVarBytes src env ref with
  | none => pure Json.null
  | some b => pure (jHex b)

def indentOps : List (String × Handler) := [
  ("get_var_bytes", opGetVarBytes),
  ("indent_at", opIndentAt), ("indent_lines", opIndentLines),
  ("remove_indent", opRemoveIndent), ("extract_deindent", opExtractDeindent),
  ("formatted_slice", opFormattedSlice), ("template_fix", opTemplateFix),
  ("insert_transformation", opInsertTransformation)]

end Driver
