/-
Driver ops for the C10 units: `accept_edit` (text + `InputEdit`), `position_for_offset`, edit histories,
`tree.edit` on a dumped tree.
-/
import Driver.Basic
import Driver.TreeIO
import AstGrepVerif.Model.EditDoc

open Lean AGV
open AGV.EditDoc (InputEdit editTreeN)

namespace Driver

def ieJson (ie : InputEdit) : Json :=
  Json.arr #[jNat ie.startByte, jNat ie.oldEndByte, jNat ie.newEndByte,
    jNat ie.startPoint.1, jNat ie.startPoint.2, jNat ie.oldEndPoint.1, jNat ie.oldEndPoint.2,
    jNat ie.newEndPoint.1, jNat ie.newEndPoint.2]

/-- FNV-1a (64 bit) of a text: the harness sends this instead of every intermediate text -/
def fnv (b : Bytes) : Nat :=
  (b.foldl (fun (h : UInt64) (x : UInt8) => (h ^^^ x.toUInt64) * 0x100000001b3) 0xcbf29ce484222325).toNat

def opAcceptEdit : Handler := fun a => do
  let text ← getBytes a "text"
  let e : REdit := { position := ← getNat a "pos", deleted := ← getNat a "del", inserted := ← getBytes a "ins" }
  match EditDoc.acceptEdit text e with
  | none => pure (Json.str "panic")
  | some (t, ie) => pure (Json.mkObj [("text", jBytes t), ("ie", ieJson ie)])

def opPos : Handler := fun a => do
  let text ← getBytes a "text"
  match positionForOffset text (← getNat a "off") with
  | none => pure (Json.str "panic")
  | some (r, c) => pure (Json.arr #[jNat r, jNat c])

/-- the text side of `runHistory`: per step the `InputEdit`, length and hash of the new text -/
def historyGo : Bytes → List REdit → List Json → List Json × Bytes
  | text, [], acc => (acc.reverse, text)
  | text, e :: es, acc =>
    match EditDoc.acceptEdit text e with
    | none => ((Json.str "panic" :: acc).reverse, text)
    | some (t, ie) =>
      let rec_ := match ieJson ie with
        | .arr xs => Json.arr (xs ++ #[jNat t.length, Json.str (toString (fnv t))])
        | j => j
      historyGo t es (rec_ :: acc)

def opHistory : Handler := fun a => do
  let text ← getBytes a "text"
  let steps ← getArr a "steps"
  let es ← steps.toList.mapM fun s => do
    pure ({ position := ← getNat s "pos", deleted := ← getNat s "del", inserted := ← getBytes s "ins" } : REdit)
  let (recs, final) := historyGo text es []
  pure (Json.mkObj [("steps", Json.arr recs.toArray), ("text", jBytes final)])

def rangesJson (t : Tree) : Json :=
  Json.arr (t.preorder.map fun n => Json.arr #[jNat n.start, jNat n.stop]).toArray

def opEditTree : Handler := fun a => do
  let text ← getBytes a "text"
  let t ← parseTree (← a.getObjVal? "tree")
  let e : REdit := { position := ← getNat a "pos", deleted := ← getNat a "del", inserted := ← getBytes a "ins" }
  match EditDoc.acceptEdit text e with
  | none => pure (Json.str "panic")
  | some (t', ie) =>
    pure (Json.mkObj [("text", jBytes t'), ("ie", ieJson ie),
      ("once", rangesJson (editTreeN 1 t ie)), ("twice", rangesJson (editTreeN 2 t ie))])

def editDocOps : List (String × Handler) := [
  ("c10_accept_edit", opAcceptEdit),
  ("c10_pos", opPos),
  ("c10_history", opHistory),
  ("c10_edit_tree", opEditTree)]

end Driver
