/-
Driver ops for C17: `read_file` (skip decision) and `worker_run` (the model's prediction of
stdout / counters / exit status of one CLI run over a tree, given the per-file results and the
observed arrival order).  Trusted glue, not part of the model.
-/
import Driver.Basic
import AstGrepVerif.Model.Worker

open Lean AGV AGV.JsonFrameMin AGV.Worker

namespace Driver

def opReadFile : Handler := fun a => do
  let kind ← getStr a "kind"
  let len ← getNat a "len"
  let lines ← getNat a "lines"
  let c : Content := match kind with
    | "unreadable" => .unreadable
    | "invalid_utf8" => .invalidUtf8
    | _ => .text len lines
  match readFile c with
  | .ok () => pure (Json.mkObj [("skip", Json.bool false)])
  | .error _ => pure (Json.mkObj [("skip", Json.bool true)])

def parseStyle : String → Except String Style
  | "pretty" => pure .pretty
  | "stream" => pure .stream
  | "compact" => pure .compact
  | s => throw s!"unknown style {s}"

def parseFile (j : Json) : Except String (Except Skip (List Item)) := do
  let skip ← getBool j "skip"
  if skip then pure (.error .cannotRead) else
  let items ← (← getArr j "items").toList.mapM fun it => do
    let docs ← getStrList it "docs"
    pure ({ docs := docs.map strBytes, errors := (← getNat it "errors") } : Item)
  pure (.ok items)

def opWorkerRun : Handler := fun a => do
  let cmd : Cmd := if (← getStr a "cmd") == "scan" then .scan else .run
  let style ← parseStyle (← getStr a "style")
  let files ← (← getArr a "files").toList.mapM parseFile
  let n := files.length
  let produce : Produce Nat := fun f => match files[f]? with
    | some r => r
    | none => .ok []
  let arrIdx ← (← getArr a "arrival").toList.mapM fun p => do
    let xs ← p.getArr?
    match xs.toList with
    | [f, i] => pure ((← f.getNat?), (← i.getNat?))
    | _ => throw "arrival element"
  let arrival ← arrIdx.mapM fun (f, i) =>
    match (fileItems produce f)[i]? with
    | some it => pure it
    | none => throw s!"arrival refers to a missing item {f}.{i}"
  let threads ← getNat a "threads"
  let fileList := List.range n
  -- the schedule.  Channel contract on (file, item) indices: every item of every file arrives
  -- exactly once (any order is an interleaving when each file has its own thread and a thread
  -- may send a file's items in any order); with one thread the items of a file are contiguous.
  let allIdx := fileList.flatMap fun f => (List.range (fileItems produce f).length).map fun i => (f, i)
  let contiguous := (arrIdx.map (·.1)).eraseDups.length == ((arrIdx.map (·.1)).splitBy (· == ·)).length
  let valid := arrIdx.isPerm allIdx && (threads != 1 || contiguous)
  let filesInOrder := (arrIdx.map (·.1)).eraseDups
  let parts : List (List Nat) :=
    if threads == 1 then [filesInOrder ++ fileList.filter (fun f => !filesInOrder.contains f)]
    else fileList.map ([·])
  let r : Run Nat := { parts := parts, sends := [arrival], arrival := arrival,
                       errAdds := fileList.map (fileErrors produce) }
  let res := r.result produce cmd style
  pure (Json.mkObj [
    ("stdout", Json.str (bytesStr res.stdout)),
    ("exit", jNat res.exit),
    ("scanned", jNat res.scanned),
    ("skipped", jNat res.skipped),
    ("errors", jNat res.errorCount),
    ("valid", Json.bool valid)])

def workerOps : List (String × Handler) := [("read_file", opReadFile), ("worker_run", opWorkerRun)]

end Driver
