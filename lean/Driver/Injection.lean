/-
Driver ops of the slice "injection": the model of embedded-language extraction
(`Model/Injection.lean`) run on a dumped host tree.
-/
import Driver.Basic
import Driver.TreeIO
import AstGrepVerif.Model.Injection

open Lean AGV AGV.Injection

namespace Driver

private def rangesJson (rs : List Range) : Json :=
  Json.arr (rs.map fun r => Json.arr #[jNat r.start, jNat r.stop]).toArray

private def sortByName (m : List (String × Json)) : List (String × Json) :=
  (m.toArray.qsort fun a b => a.1 < b.1).toList

private def mapJson (m : RMap) : Json :=
  Json.arr ((sortByName (m.map fun e => (bytesStr e.1, rangesJson e.2))).map fun e =>
    Json.arr #[Json.str e.1, e.2]).toArray

private def docsJson (ds : List (InjDoc String)) : Json :=
  Json.arr (ds.map fun d => Json.arr #[Json.str d.lang, Json.str (bytesStr d.name)]).toArray

private def optStr (j : Json) : Option String :=
  match j with
  | .str s => some s
  | _ => none

private def parseKinds (j : Json) : Except String (Option HtmlKinds) :=
  match j with
  | .null => pure none
  | _ => do
    let a ← j.getArr?
    if a.size != 6 then throw "kinds: expected 6 ids"
    pure (some { script := ← a[0]!.getNat?, style := ← a[1]!.getNat?, rawText := ← a[2]!.getNat?,
                 attr := ← a[3]!.getNat?, attrName := ← a[4]!.getNat?, attrValue := ← a[5]!.getNat? })

private def parseRule (nodes : Array Tree) (j : Json) : Except String InjRule := do
  let d := optStr (j.getObjValD "d")
  let ms ← (← getArr j "ms").toList.mapM fun m => do
    let a ← m.getArr?
    let content ← match a[0]! with
      | .null => pure none
      | v => do
        let id ← v.getNat?
        match nodes[id]? with
        | some n => pure (some n)
        | none => throw s!"unknown node {id}"
    pure ({ content, lang := (optStr a[1]!).map strBytes } : RuleMatch)
  -- only the default language of `injected` is read by the extraction
  let injected : Injected := match d with
    | some s => .static (strBytes s)
    | none => .dynamic []
  pure { find := fun _ => ms, injected }

/-- the region map re-ordered as the hash map was enumerated -/
private def reorder (m : RMap) (order : List String) : RMap :=
  order.filterMap fun n => m.find? fun e => e.1 = strBytes n

def opInjection : Handler := fun a => do
  let src ← getBytes a "src"
  let tree ← parseTree (← a.getObjVal? "tree")
  let nodes := tree.preorder.toArray
  let okIds := (List.range nodes.size).all fun i => (nodes[i]!).id == i
  if !okIds then throw "tree ids are not the pre-order numbering"
  let kinds ← parseKinds (a.getObjValD "kinds")
  let rules ← (← getArr a "rules").toList.mapM (parseRule nodes)
  let knownTbl ← (← getArr a "known").toList.mapM fun e => do
    let p ← e.getArr?
    pure (strBytes (← p[0]!.getStr?), optStr p[1]!)
  let known : Injection.Name → Option String := fun n => (knownTbl.lookup n).join
  -- names outside the region map: asked of `from_str` by `injectable_sg_langs`; the harness lists
  -- them in `known_names`
  let extraTbl ← match a.getObjVal? "known_names" with
    | .ok (.arr xs) => xs.toList.mapM fun e => do
        let p ← e.getArr?
        pure (strBytes (← p[0]!.getStr?), optStr p[1]!)
    | _ => pure []
  let knownAll : Injection.Name → Option String := fun n =>
    match knownTbl.lookup n with
    | some v => v
    | none => (extraTbl.lookup n).join
  let injectable : Option (List Injection.Name) := match a.getObjValD "injectable" with
    | .arr xs => some (xs.toList.filterMap fun x => (optStr x).map strBytes)
    | _ => none
  let subs ← getStrList a "subs"
  let builtin : RMap := match kinds with
    | some K => htmlExtract K src tree
    | none => []
  let m := extractInjections builtin rules tree
  let parse : String → Bytes → List Range → Tree := fun _ _ _ => tree
  let docsOf (key : String) : Except String (List (InjDoc String)) := do
    let order ← getStrList a key
    pure (getInjections known parse src (reorder m order))
  let docs ← docsOf "order_docs"
  let scan := scanDocs knownAll injectable (← docsOf "order_scan")
  let run := runDocs subs (← docsOf "order_run")
  pure (Json.mkObj [
    ("html", match kinds with | some _ => mapJson builtin | none => Json.null),
    ("map", mapJson m),
    ("docs", docsJson docs),
    ("scan", docsJson scan),
    ("run", docsJson run)])

/-- `Parser::set_included_ranges(ranges).is_ok()` -/
def opRangesAccepted : Handler := fun a => do
  let rs ← (← getArr a "ranges").toList.mapM fun r => do
    let p ← r.getArr?
    pure ({ start := ← p[0]!.getNat?, stop := ← p[1]!.getNat? } : Range)
  pure (Json.bool (rangesAccepted rs))

def injectionOps : List (String × Handler) :=
  [("injection", opInjection), ("ranges_accepted", opRangesAccepted)]

end Driver
