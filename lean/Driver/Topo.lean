import Driver.Basic
import AstGrepVerif.Model.Topo
import AstGrepVerif.Model.Snapshot

open Lean AGV AGV.Topo

namespace Driver

def getDepMap (a : Json) : Except String (List (String × List String)) := do
  let arr ← getArr a "maps"
  arr.toList.mapM fun e => do
    let pair ← e.getArr?
    match pair.toList with
    | [k, ds] => do
      let k ← k.getStr?
      let ds ← ds.getArr?
      let ds ← ds.toList.mapM (·.getStr?)
      pure (k, ds)
    | _ => throw "expected [key, deps]"

/-- `get_order` with the keys iterated in the order of the recorded map -/
def opTopoOrder : Handler := fun a => do
  let m ← getDepMap a
  match getOrder m with
  | .ok order => pure (Json.arr #[Json.str "ok", Json.arr (order.map Json.str).toArray])
  | .error (.cyclic k) => pure (Json.arr #[Json.str "cyclic", Json.str k])
  | .error .fuel => pure (Json.str "fuel")

/-- verdict of the loader for a `utils` / `transform` map -/
def opTopoYaml : Handler := fun a => do
  let m ← getDepMap a
  match getOrder m with
  | .ok _ => pure (Json.str "ok")
  | .error (.cyclic _) => pure (Json.str "cyclic")
  | .error .fuel => pure (Json.str "fuel")

def opCombinedOrder : Handler := fun a => do
  let arr ← getArr a "rules"
  let rules ← arr.toList.mapM fun e => do
    let pair ← e.getArr?
    match pair.toList with
    | [f, id] => do pure ((← f.getBool?), strBytes (← id.getStr?))
    | _ => throw "expected [fix, id]"
  let out := combinedOrder rules
  pure (Json.arr (out.map fun r => Json.arr #[Json.bool r.1, jBytes r.2]).toArray)

def topoOps : List (String × Handler) := [
  ("topo_order", opTopoOrder), ("topo_yaml", opTopoYaml), ("combined_order", opCombinedOrder)]

end Driver
