/-
agv-driver: reads one JSON op per line on stdin (`{"op","a",..}`), runs the model's
executable definition for that op and prints the model's result as one JSON line.
`oracle` lines (verdicts of the implementation-side oracles) are echoed as `null` so that
line numbers stay aligned with the input.
-/
import Driver.Notation
import Driver.Indent
import Driver.Print
import Driver.Suppress
import Driver.Splice
import Driver.Topo
import Driver.Select
import Driver.Worker
import Driver.Lsp
import Driver.Navigation
import Driver.Frontends
import Driver.TreeIO
import Driver.RuleIO
import Driver.Loader
import Driver.EditDoc
import Driver.StringCase
import Driver.Verify
import Driver.Injection
import Driver.LspRequests
import Driver.Inspect
import Driver.Structural
import Driver.Project

open Lean Driver

def allOps : List (String × Handler) :=
  notationOps ++ indentOps ++ printOps ++ suppressOps ++ spliceOps ++ topoOps ++ selectOps ++ workerOps ++ lspOps ++ frontendsOps ++ loaderOps ++ editDocOps ++ stringCaseOps ++ verifyOps ++ injectionOps ++ lspRequestsOps ++ inspectOps ++ projectOps

/-- ops that read or extend the driver state (registered documents) -/
def allStateOps : List (String × SHandler) :=
  treeOps ++ ruleOps ++ ruleOracleOps ++ scanOps ++ isolateOps ++ navigationOps ++ structuralOps

def derr (e : String) : String := (Json.mkObj [("driver_error", Json.str e)]).compress

def dispatch (st : DState) (line : String) : DState × String :=
  match Json.parse line with
  | .error e => (st, derr s!"parse: {e}")
  | .ok j =>
    match j.getObjVal? "op" with
    | .error e => (st, derr e)
    | .ok opj =>
      match opj.getStr? with
      | .error e => (st, derr e)
      | .ok op =>
        if op == "oracle" then (st, "null") else
        match j.getObjVal? "a" with
        | .error e => (st, derr e)
        | .ok a =>
          match allOps.lookup op with
          | some h =>
            match h a with
            | .ok r => (st, r.compress)
            | .error e => (st, derr e)
          | none =>
            match allStateOps.lookup op with
            | some h =>
              match h st a with
              | .ok (st', r) => (st', r.compress)
              | .error e => (st, derr e)
            | none => (st, derr s!"unknown op {op}")

partial def loop (hin hout : IO.FS.Stream) (st : DState) : IO Unit := do
  let line ← hin.getLine
  if line.isEmpty then return ()
  let (st', out) := dispatch st line
  hout.putStrLn out
  loop hin hout st'

def main : IO Unit := do
  let hin ← IO.getStdin
  let hout ← IO.getStdout
  loop hin hout {}
  hout.flush
