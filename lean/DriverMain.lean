/-
agv-driver: reads one JSON op per line on stdin (`{"op","a",..}`), runs the model's
executable definition for that op and prints the model's result as one JSON line.
`oracle` lines (verdicts of the implementation-side oracles) are echoed as `null` so that
line numbers stay aligned with the input.
-/
import Driver.Notation

open Lean Driver

def allOps : List (String × Handler) :=
  notationOps

def dispatch (line : String) : String :=
  match Json.parse line with
  | .error e => (Json.mkObj [("driver_error", Json.str s!"parse: {e}")]).compress
  | .ok j =>
    match j.getObjVal? "op" with
    | .error e => (Json.mkObj [("driver_error", Json.str e)]).compress
    | .ok opj =>
      match opj.getStr? with
      | .error e => (Json.mkObj [("driver_error", Json.str e)]).compress
      | .ok op =>
        if op == "oracle" then "null" else
        match allOps.lookup op with
        | none => (Json.mkObj [("driver_error", Json.str s!"unknown op {op}")]).compress
        | some h =>
          match j.getObjVal? "a" with
          | .error e => (Json.mkObj [("driver_error", Json.str e)]).compress
          | .ok a =>
            match h a with
            | .ok r => r.compress
            | .error e => (Json.mkObj [("driver_error", Json.str e)]).compress

partial def loop (hin hout : IO.FS.Stream) : IO Unit := do
  let line ← hin.getLine
  if line.isEmpty then return ()
  hout.putStrLn (dispatch line)
  loop hin hout

def main : IO Unit := do
  let hin ← IO.getStdin
  let hout ← IO.getStdout
  loop hin hout
  hout.flush
