/-
Axiom audit for property C19 (tree navigation, traversals, positions): the pinned-code theorems
and the theorems about the repaired post-order visit (`Post.visitFixed`).
-/
import AstGrepVerif.Props.C19

open AGV AGV.C19

#print axioms uniqueIds_of_mem
#print axioms pre_eq_preorder
#print axioms pre_inside_once
#print axioms pre_step_invariant
#print axioms pre_nonreentrant_outermost
#print axioms pre_nonreentrant_no_matching_ancestor
#print axioms pre_reentrant_filter
#print axioms children_eq
#print axioms children_parent
#print axioms ancestors_eq_parent_chain
#print axioms nextAll_eq_iterate_next
#print axioms prevAll_eq_iterate_prev
#print axioms nextAll_prevAll_of_noZeroWidth
#print axioms zero_width_counterexample
#print axioms nextAll_prevAll_without_parent
#print axioms post_eq_postorder
#print axioms post_reentrant_filter
#print axioms post_nonreentrant_fold
#print axioms post_nonreentrant_innermost_partial
#print axioms post_nonreentrant_counterexample
#print axioms level_eq_levelorder
#print axioms position_consistent
#print axioms position_consistent_utf8
-- the repaired post-order visit
#print axioms post_fixed_reentrant_filter
#print axioms post_fixed_nonreentrant_fold
#print axioms post_nonreentrant_innermost
#print axioms innermost_spec
#print axioms post_nonreentrant_no_matching_descendant
