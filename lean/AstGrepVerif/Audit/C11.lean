/-
Axiom audit for the termination half of C11 that concerns the rule evaluator.
-/
import AstGrepVerif.Props.C11

open AGV AGV.C11 AGV.RuleFuelReg

#print axioms scan_terminates_partial
#print axioms scan_terminates_document
#print axioms scan_terminates_registry
#print axioms regCtx_acyclic
#print axioms scan_terminates_registry_example
#print axioms matchRule_noBad_document
#print axioms rule_noFuel
#print axioms matches_noFuel
#print axioms keeps_all
#print axioms mainG
#print axioms pattern_keeps_envK
#print axioms parseAnB_in_i32
