/-
Axiom audit for the unconditional forms of C01.
-/
import AstGrepVerif.Props.C01Total

open AGV AGV.C01 AGV.RuleFuelReg

#print axioms findAllLoop_ok
#print axioms findAll_total
#print axioms findAll_eq_bruteForce_total
#print axioms findAll_eq_bruteForce_total_doc
#print axioms combined_complete_total
#print axioms combined_complete_total_order
#print axioms AGV.C01.TotalEx.findAll_total_example
#print axioms AGV.C01.TotalEx.findAll_total_example_value
#print axioms AGV.C01.TotalEx.combined_total_example
#print axioms matchCore_total_doc
#print axioms matchCore_total_env
#print axioms matchRule_total_env
#print axioms matchCore_noBad_document
#print axioms matchRule_noBad_document'
#print axioms core_noFuel
#print axioms matchPatternEnv_values
