/-
Axiom audit for the cached corollary of C05 (depends on the C01 development).
-/
import AstGrepVerif.Props.C05Cached

open AGV AGV.C05

#print axioms sat_ignores_caches
#print axioms rule_ref_equiv_cached
