/-
Axiom audit for the An+B part of property C20 (and the `parse_an_b` lemmas shared with C11).
-/
import AstGrepVerif.Props.C20

open AGV AGV.C20

#print axioms anb_iff
#print axioms isMatched_no_overflow
#print axioms isMatchedI64_exact
#print axioms isMatchedI64_exact'
#print axioms isMatchedI64_bound_example
#print axioms anb_iff_i64
#print axioms isMatchedChecked_eq
#print axioms parseAnBChecked_spec
#print axioms parseAnBChecked_ok_iff
#print axioms parseAnBChecked_error
#print axioms parseAnBChecked_no_overflow
#print axioms AGV.C20.parseAnBChecked_in_i32
#print axioms parsed_position_exact
#print axioms AGV.parseAnBChecked_in_i32
#print axioms AGV.anbLoop_ok
