/-
Axiom audit for the fix-template scanner after FIX_TMPL_DIGIT (digit-first candidates are
literal text): the new C20 theorems, the adapted C20 / C07 / C12 theorems, and the lemmas
they rest on.
-/
import AstGrepVerif.Props.C20
import AstGrepVerif.Props.C07
import AstGrepVerif.Props.C09a
import AstGrepVerif.Props.C12

open AGV

-- new (Props/C20.lean)
#print axioms AGV.C20.template_var_first_char
#print axioms AGV.C20.splitFirst_var_first_char
#print axioms AGV.C20.template_digit_first_step
#print axioms AGV.C20.template_digit_first_literal
#print axioms AGV.C20.template_digit_first_literal_nil
#print axioms AGV.C20.createTemplate_dollar_100
#print axioms AGV.C20.splitFirstPinned_dollar_100
#print axioms AGV.C20.splitFirst_pinned_of_some
-- adapted (Props/C20.lean, Props/C07.lean)
#print axioms AGV.C20.template_literal
#print axioms AGV.C20.template_first_var
#print axioms AGV.C20.template_var_names_valid
#print axioms AGV.C07.createTemplate_fragments
#print axioms AGV.C07.replace_verbatim
#print axioms AGV.C07.capture_reindented
#print axioms AGV.C07.rewrite_to_self_noop
#print axioms AGV.C07.rewrite_to_self_noop_A
-- proofs repaired, statements unchanged (Props/C12.lean)
#print axioms AGV.C12.splitFirst_slotOK
#print axioms AGV.C12.scan_slotOK
-- lemmas (Lemmas/Template.lean, Lemmas/Fix.lean)
#print axioms AGV.splitFirst_eq_pinned
#print axioms AGV.splitFirst_pinned_of_some
#print axioms AGV.splitFirst_name_valid
#print axioms AGV.scan_vars_split
#print axioms AGV.digit_iff_valid_not_first
#print axioms AGV.splitFirst_run
#print axioms AGV.splitFirst_unrecognised_run
#print axioms AGV.scan_var_step
#print axioms AGV.scan_unrecognised_step
#print axioms AGV.splitFirst_take
#print axioms AGV.scan_fragments
#print axioms AGV.createTemplate_one_var
#print axioms AGV.templateFix_one_var
