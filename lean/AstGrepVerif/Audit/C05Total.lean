import AstGrepVerif.Props.C05Total

open AGV AGV.C05 AGV.RuleFuelReg

#print axioms matchRule_total_vars_cons
#print axioms matchRule_total_doc_cons
#print axioms matchCore_total_doc_cons
#print axioms AGV.C05.Ex.matchRule_total_doc_cons_example
#print axioms AGV.C05.Ex.ctxUC_has_constraints
#print axioms AGV.C05.Ex.fuelBound_sampleUC
