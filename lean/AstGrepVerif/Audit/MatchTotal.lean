/-
Axiom audit for matcher totality and the rule-level theorems that use it: every final theorem must
depend on no axiom outside {propext, Classical.choice, Quot.sound}.
-/
import AstGrepVerif.Lemmas.MatchTotal
import AstGrepVerif.Lemmas.RuleMatchTotal
import AstGrepVerif.Props.C05Total
import AstGrepVerif.Props.C11Total

open AGV

-- Lemmas/MatchTotal.lean
#print axioms AGV.MatchTotal.need_le_matchFuel
#print axioms AGV.MatchTotal.all_total
#print axioms AGV.MatchTotal.all_nopanic
#print axioms AGV.MatchTotal.matchNode_total
#print axioms AGV.MatchTotal.matchNode_total_matchFuel
#print axioms AGV.MatchTotal.matchNode_no_fuel
#print axioms AGV.MatchTotal.matchNode_no_panic
#print axioms AGV.MatchTotal.matchNodes_no_panic
#print axioms AGV.MatchTotal.matchLoop_no_panic
#print axioms AGV.MatchTotal.matchNode_error_is_fuel
#print axioms AGV.MatchTotal.matchPatternEnv_total
#print axioms AGV.MatchTotal.matchPatternEnv_total_ge
#print axioms AGV.MatchTotal.matchPatternEnv_no_error
#print axioms AGV.MatchTotal.matchPatternEnv_no_panic
#print axioms AGV.MatchTotal.matchEnd_total
#print axioms AGV.MatchTotal.matchEnd_no_panic
#print axioms AGV.MatchTotal.matchLen_total
#print axioms AGV.MatchTotal.panic_site_P1
#print axioms AGV.MatchTotal.panic_site_P2
#print axioms AGV.MatchTotal.panic_site_P3
#print axioms AGV.MatchTotal.panic_site_P4
#print axioms AGV.MatchTotal.panic_site_P1_guarded
#print axioms AGV.MatchTotal.fuel_needed_example
#print axioms AGV.MatchTotal.fuel_enough_example

-- Lemmas/RuleMatchTotal.lean
#print axioms AGV.RuleFuelReg.ppK_iff
#print axioms AGV.RuleFuelReg.patsAll_of_vars
#print axioms AGV.RuleFuelReg.regPats_of_vars
#print axioms AGV.RuleFuelReg.matchRule_noBad_document_vars

-- Props/C05Total.lean
#print axioms AGV.C05.matchRule_total_vars
#print axioms AGV.C05.matchRule_total_doc
#print axioms AGV.C05.rule_ref_equiv_total_vars
#print axioms AGV.C05.rule_ref_equiv_total_vars'
#print axioms AGV.C05.rule_ref_equiv_total_doc
#print axioms AGV.C05.Ex.matchRule_total_doc_example
#print axioms AGV.C05.Ex.rule_ref_equiv_total_doc_example

-- Props/C11Total.lean
#print axioms AGV.C11.patsOK_all
#print axioms AGV.C11.scan_terminates_closed
#print axioms AGV.C11.scan_terminates_document_total
#print axioms AGV.C11.scan_terminates_registry_vars
#print axioms AGV.C11.scan_total_registry_vars
#print axioms AGV.C11.scan_terminates_registry_doc
#print axioms AGV.C11.scan_terminates_registry_doc_example
#print axioms AGV.C11.scan_terminates_registry_vars_example
