/-
Axiom audit for the unconditional forms of C04.
-/
import AstGrepVerif.Props.C04Total

open AGV AGV.C04 AGV.RuleFuelReg

#print axioms isoCtx_ranked
#print axioms isoCtx_vars
#print axioms isolate_agrees_total
#print axioms isolate_agrees_total_doc
#print axioms isolate_agrees_rule_total
#print axioms no_trace_total
#print axioms no_trace_total_empty
#print axioms isolate_agrees_total_example
#print axioms regRanked_isoCtx
#print axioms scanVars_isoCtx
#print axioms coreRefsBelow_isolateCore
