/-
Axiom audit for the C03 oracle theorems (`Props/C03AlignB.lean`): every final theorem must depend
on no axiom outside {propext, Classical.choice, Quot.sound}.
-/
import AstGrepVerif.Props.C03AlignB

open AGV AGV.C03

#print axioms AGV.C03.holeNamedOKB_iff
#print axioms alignsB_sound
#print axioms alignsLB_sound
#print axioms ellipsisB_sound
#print axioms ellipsisB_sound_cons
#print axioms runB_sound
#print axioms runB_sound_cons
#print axioms alignsB_sound_ok
#print axioms alignsB_fuel_mono
#print axioms alignsLB_fuel_mono
#print axioms ellipsisB_fuel_mono
#print axioms runB_fuel_mono
#print axioms alignsB_complete_need
#print axioms alignsLB_complete_need
#print axioms ellipsisB_complete_need
#print axioms runB_complete_need
#print axioms alignsB_complete_exists
#print axioms alignsLB_complete_exists
#print axioms AGV.C03.needFuel_le_alignFuel
#print axioms alignsB_complete
#print axioms alignsB_iff
#print axioms alignsB_exists_iff
#print axioms alignsB_false_iff
#print axioms AGV.C03.alignsB_fuel_irrelevant
#print axioms oracle_no_false_alarm
#print axioms oracle_accepts_reported_match
#print axioms oracle_accepts_match_sound
#print axioms AGV.Spec.alignB_sound_all
#print axioms AGV.Spec.alignB_mono_all
#print axioms AGV.Spec.alignB_complete_need
#print axioms AGV.Spec.runB_complete
#print axioms AGV.Spec.ellipsisB_complete
