/-
Axiom audit for the whole-document half of C12 (consistency of rewriter cores, error
soundness, exact characterisation of acceptance).
-/
import AstGrepVerif.Props.C12Err

open AGV AGV.C12 AGV.Loader

#print axioms accept_vars_defined_doc
#print axioms load_ok_iff_consistent
#print axioms load_ok_iff_registry
#print axioms reject_perturbed_doc
#print axioms core_ok_iff
#print axioms core_ok_post
#print axioms rewriters_ok_iff
#print axioms loadRewriters_ok_iff
#print axioms kinds_iff_hasKinds
#print axioms core_error_sound
#print axioms load_error_sound
#print axioms rewriters_error_sound
#print axioms docRewriterScope_accepted
#print axioms mem_info_definedVars_iff
#print axioms mem_info_capturedVars_iff
#print axioms docRewriterOuterTransform_T
#print axioms rewriter_fix_outer_transform_rejected
#print axioms rewriter_fix_outer_transform_inconsistent
#print axioms rewriter_fix_outer_transform_pinned_accepted
#print axioms deserRule_ok_iff
#print axioms withUtils_ok_iff
#print axioms transformDeserialize_ok_iff
#print axioms checkUtilsDefined_ok_iff
#print axioms checkVars_ok_iff
#print axioms checkCyclic_iff
#print axioms potKinds_iff_pos
#print axioms deserRule_err_field
#print axioms withUtils_err
