/-
Axiom audit for the whole-document half of C12 (consistency of rewriter cores, error
soundness, exact characterisation of acceptance).
-/
import AstGrepVerif.Props.C12Err
import AstGrepVerif.Props.C12Globals

open AGV AGV.C12 AGV.Loader

#print axioms accept_vars_defined_doc
#print axioms load_ok_iff_consistent
#print axioms load_ok_iff_registry
#print axioms reject_perturbed_doc
#print axioms core_ok_iff
#print axioms core_ok_post
#print axioms rewriters_ok_iff
#print axioms loadRewriters_ok_iff
#print axioms kinds_iff_hasKinds
#print axioms core_error_sound
#print axioms load_error_sound
#print axioms rewriters_error_sound
#print axioms docRewriterScope_accepted
#print axioms mem_info_definedVars_iff
#print axioms mem_info_capturedVars_iff
#print axioms docRewriterOuterTransform_T
#print axioms rewriter_fix_outer_transform_rejected
#print axioms rewriter_fix_outer_transform_inconsistent
#print axioms rewriter_fix_outer_transform_pinned_accepted
#print axioms deserRule_ok_iff
#print axioms withUtils_ok_iff
#print axioms transformDeserialize_ok_iff
#print axioms checkUtilsDefined_ok_iff
#print axioms checkVars_ok_iff
#print axioms checkCyclic_iff
#print axioms potKinds_iff_pos
#print axioms deserRule_err_field
#print axioms withUtils_err
-- global utility rules (`parse_global_utils`): Props/C12Globals.lean
#print axioms loadGlobals_ok_refs_resolve
#print axioms loadGlobals_ok_no_same_node_cycle
#print axioms loadGlobals_total
#print axioms loadGlobalsWith_total
#print axioms loadGlobals_ok_post
#print axioms loadGlobals_ok_graph_acyclic
#print axioms globals_undefined_rejected
#print axioms globals_cycle_rejected
#print axioms globals_sort_ok_iff_acyclic
#print axioms globalDeps_fuel
#print axioms globals_undefined_rejected_example
#print axioms globals_undefined_prefix_accepted
#print axioms globals_undefined_needs_verify
#print axioms globals_own_local_cycle_rejected_example
#print axioms globals_own_local_cycle_prefix_accepted
#print axioms globals_own_local_cycle_needs_localCycle
#print axioms globals_accepted_example
#print axioms globalGraph_edge_iff
#print axioms mem_globalRuleIds_iff
#print axioms globalRuleIds_fuel_stable
#print axioms intoMap_of_nodup
#print axioms loadGlobals_constraint_cycle_accepted_counterexample
