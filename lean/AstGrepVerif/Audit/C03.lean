/-
Axiom audit for property C03: every final theorem must depend on no axiom outside
{propext, Classical.choice, Quot.sound}.
-/
import AstGrepVerif.Props.C03

open AGV AGV.C03

#print axioms match_sound
#print axioms match_skip_sound
#print axioms match_nodes_sound
#print axioms empty_internal_counterexample
#print axioms match_sound_env
#print axioms match_sound_end
#print axioms pattern_match_sound
#print axioms match_end_sound
#print axioms match_len_sound
#print axioms no_named_skipped
#print axioms named_comment_skipped_only_relaxed
#print axioms cst_nothing_skippable
#print axioms ellipsis_consecutive
#print axioms ellipsis_consecutive_node
#print axioms logged_transparent
#print axioms ellipsis_consecutive_env
#print axioms bound_run_infix
#print axioms cst_strict
#print axioms AlignsStrict.last
#print axioms ellipsis_trivia_counterexample
#print axioms all_inv
#print axioms all_log
#print axioms all_sim
#print axioms envAgg_metaVar_ok
#print axioms shouldSkipTrailing_eq
#print axioms goalSkippable_eq
#print axioms matchTerminal_spec
#print axioms skipTrivialGoals_spec
#print axioms match_end_at_node_end
#print axioms match_end_bounds
#print axioms match_len_bounds
#print axioms match_len_no_token_split
#print axioms match_len_zero_example
#print axioms match_end_direct_child_counterexample
#print axioms all_st
#print axioms endAgg_stepOK
#print axioms Tree.wf_bounds
#print axioms Tree.wf_no_split
#print axioms ellipsis_consecutive_direct
