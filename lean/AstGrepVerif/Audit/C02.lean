/- Axiom audit for C02: every final theorem must stay within {propext, Classical.choice, Quot.sound}. -/
import AstGrepVerif.Props.C02

#print axioms AGV.C02.cutFuel_le_matchFuel
#print axioms AGV.C02.self_match
#print axioms AGV.C02.cut_matches_from
#print axioms AGV.C02.cut_matches
#print axioms AGV.C02.cut_matches_ellipsis
#print axioms AGV.C02.holesOK_of_noMissing
#print axioms AGV.matchNode_cut
#print axioms AGV.matchLoop_cutList
