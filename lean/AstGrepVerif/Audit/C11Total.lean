import AstGrepVerif.Props.C11Total

open AGV AGV.C11 AGV.RuleFuelReg

#print axioms scan_terminates_registry_vars_cons
#print axioms scan_total_registry_vars_cons
#print axioms scan_terminates_registry_doc_cons
#print axioms scan_total_core_doc
#print axioms consCtx_has_constraints
#print axioms scan_terminates_registry_doc_cons_example
#print axioms scan_terminates_registry_vars_cons_example
