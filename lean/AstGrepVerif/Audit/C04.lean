/-
Axiom audit for property C04: every final theorem must depend on no axiom outside
{propext, Classical.choice, Quot.sound}.
-/
import AstGrepVerif.Props.C04

open AGV AGV.C04

#print axioms no_trace
#print axioms no_trace_helpers
#print axioms allLoop_failure
#print axioms no_trace_partial
#print axioms failure_extends
#print axioms match_extends
#print axioms match_extends_single
#print axioms pattern_extends
#print axioms matchCore_extends
#print axioms AGV.C04.exactMatch_refl
#print axioms AGV.C04.insert_coherent
#print axioms any_exposes_winner
#print axioms any_exposes_winner'
#print axioms any_failure
#print axioms all_exposes_union
#print axioms all_of_chain
#print axioms allChain_extends
#print axioms relation_exposes_winner
#print axioms constraints_after_rule
#print axioms matchCore_rule_failure
#print axioms AGV.C04.constraintLoop_nil
#print axioms matchCore_no_trace
#print axioms isolate_simulates
#print axioms isolate_agrees
#print axioms isolate_agrees_full
#print axioms isolateCore_simulates
#print axioms isoCtx_is_the_oracle_context
#print axioms all_s
#print axioms isolate_example
#print axioms matchCore_constraint_failure_restores_env
#print axioms matches_constraint_failure_no_trace
#print axioms rejected_candidate_leaves_no_trace
#print axioms exactMatch_not_trans_example
#print axioms all_notrace
#print axioms all_ex
#print axioms all_mo
#print axioms all_up
#print axioms matchRule_fuel_mono
