/-
Axiom audit for C01 after FIX 418aa84 (announced local ids never fall back to the global registry).
-/
import AstGrepVerif.Props.C01Shadow

open AGV AGV.C01

#print axioms potentialKindsD_empty
#print axioms mkAllD_empty
#print axioms early_cache_sound_declared
#print axioms potentialKinds_stable_declared
#print axioms cache_monotone_declared
#print axioms cache_monotone_declared_any
#print axioms cache_stale_repaired_example
#print axioms cache_stale_repaired_hypotheses
#print axioms with_utils_regOK
#print axioms with_utils_rule_cachesOK
#print axioms gate_transparent_with_utils
#print axioms with_utils_example
#print axioms potentialKindsD_stable
#print axioms cachesOK_of_builtD
#print axioms WithUtils.lookup
#print axioms WithUtils.allDeclared
