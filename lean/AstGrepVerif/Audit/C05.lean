/-
Axiom audit for property C05: every final theorem must depend on no axiom outside
{propext, Classical.choice, Quot.sound}.
-/
import AstGrepVerif.Props.C05

open AGV AGV.C05

#print axioms rule_ref_equiv
#print axioms rule_ref_equiv_iff
#print axioms helpers_ref_equiv
#print axioms rule_ref_equiv_vars
#print axioms rule_ref_equiv_vars_iff
#print axioms varFree_is_varDisjoint
#print axioms matchRule_total
#print axioms rule_ref_equiv_total
#print axioms rule_ref_equiv_total'
#print axioms env_irrelevant_env
#print axioms pattern_fresh_env
#print axioms varDisjoint_example
#print axioms all_d
#print axioms all_proj
#print axioms env_irrelevant
#print axioms pattern_env_irrelevant
#print axioms returns_self
#print axioms nextAll_eq_laterSiblings
#print axioms prevAll_eq_earlierSiblings
#print axioms AGV.C05.firstChildForByte_eq_indexById
#print axioms next_prev_heads
#print axioms isMatchedI32_exact
#print axioms stopBy_inclusive
#print axioms all_permutation
#print axioms nthChild_ofRule_relation_counts_sibling
#print axioms varFree_needed_counterexample
#print axioms global_constraints_counterexample
#print axioms kind_cache_counterexample
#print axioms zero_width_counterexample
#print axioms sample_run
#print axioms all_rr
#print axioms all_cf
#print axioms RefHyp.of
#print axioms nav_eq
#print axioms sibling_index
#print axioms mem_children_of_parentOf
