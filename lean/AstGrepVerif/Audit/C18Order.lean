/-
Axiom audit for the diff-order part of property C18 (`Props/C18Order.lean`).
-/
import AstGrepVerif.Props.C18Order

open AGV AGV.C18

#print axioms intoResult_perm
#print axioms intoResult_sorted
#print axioms intoResult_stable
#print axioms intoResult_unique
#print axioms intoResult_unused_order_irrelevant
#print axioms preorder_starts_sorted
#print axioms discoveryOrder_sorted
#print axioms intoResult_discovery_order
#print axioms scan_keeps_discovery_order
#print axioms unstable_sort_counterexample
#print axioms accepted_independent_of_sort_when_distinct_starts
#print axioms unstable_differs_only_within_equal_starts
#print axioms cexDoc_rangesWF
#print axioms AGV.reversingSort_isSortByKey
#print axioms AGV.sorted_eq_of_keyClass_eq
#print axioms AGV.sorted_perm_eq_of_nodup_keys
#print axioms AGV.stableSortByKey_of_sorted
