/-
Axiom audit for the unconditional form of `findAll_complete_deep`.
-/
import AstGrepVerif.Props.C01TotalDeep

open AGV AGV.C01 AGV.RuleFuelReg

#print axioms stripCtx_ranked
#print axioms bruteForceDeep_total
#print axioms findAll_complete_deep_total
#print axioms findAll_complete_deep_total_example
#print axioms regRanked_stripCtx
#print axioms scanVars_stripCtx
#print axioms coreRefsBelow_stripCore
