/-
Axiom audit for the `convert` part of C07 (model of string_case.rs).
-/
import AstGrepVerif.Props.C07Case

open AGV AGV.C07

#print axioms mem_sepChars
#print axioms caseSplit_iff
#print axioms ascii_tables
#print axioms non_ascii_tables
#print axioms split_eq_spec
#print axioms split_concat
#print axioms split_words
#print axioms splitRanges_valid
#print axioms delimit_keeps_inv
#print axioms delimit_no_underflow
#print axioms split_lower_word
#print axioms lowerCase_length
#print axioms lowerCase_idem
#print axioms upperCase_length
#print axioms upperCase_length_ascii
#print axioms upperCase_length_counterexample
#print axioms upperCase_idem
#print axioms snake_no_upper
#print axioms kebab_no_upper
#print axioms snake_letters
#print axioms kebab_letters
#print axioms snake_idempotent_partial
#print axioms kebab_idempotent_partial
#print axioms snake_idempotent_counterexample
#print axioms snake_idempotent_seps_counterexample
#print axioms upstream_tests
#print axioms regression_identifiers
#print axioms regression_non_ascii
#print axioms AGV.StringCase.split_eq_bsplit
