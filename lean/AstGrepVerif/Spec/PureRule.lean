/-
Reference for C04 ("failed alternatives leave no trace"): the same rule with every sub-rule
isolated.  `all` evaluates its parts on a scratch copy of the caller's environment and commits
only when every part succeeded, so wrapping a rule `r` as `all [r]` makes the evaluation of `r`
trace-free *by construction*: whatever `r` writes before failing is dropped.  `isolate` wraps
every sub-rule of a rule this way.  A trace-free evaluator computes the same result for `r` and
`isolate r` (apart from nothing: the singleton `all` carries no kind cache and adds no label).
-/
import AstGrepVerif.Model.Rule

namespace AGV.Spec

open AGV

mutual
def isolate : Rule → Rule
  | .pattern p k s => .all [.pattern p k s] none
  | .kind k => .kind k
  | .regex i => .regex i
  | .range a b c d => .range a b c d
  | .nthChild a b ofRule rev =>
    .all [.nthChild a b (match ofRule with | some r => some (isolate r) | none => none) rev] none
  | .inside r s f => .all [.inside (isolate r) (isolateStop s) f] none
  | .has r s f => .all [.has (isolate r) (isolateStop s) f] none
  | .precedes r s => .all [.precedes (isolate r) (isolateStop s)] none
  | .follows r s => .all [.follows (isolate r) (isolateStop s)] none
  | .all rs kinds => .all (isolateList rs) kinds
  | .any rs kinds => .any (isolateList rs) kinds
  | .not r => .not (isolate r)
  | .matches id => .all [.matches id] none
def isolateStop : StopBy → StopBy
  | .neighbor => .neighbor
  | .end_ => .end_
  | .rule r => .rule (isolate r)
def isolateList : List Rule → List Rule
  | [] => []
  | r :: rs => isolate r :: isolateList rs
end

def isolateCore (c : RuleCore) : RuleCore :=
  { c with rule := isolate c.rule, constraints := c.constraints.map fun (k, r) => (k, isolate r) }

end AGV.Spec
