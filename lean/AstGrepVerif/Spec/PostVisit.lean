/-
What the post-order visit with `reentrant = false` computes, stated without a cursor: a fold over
the recursive post-order of the subtree in which every node is annotated with its depth below the
start node and with "has no next sibling".

The fold has one number of state, `md` (`match_depth`), and one flag, `skipping`:
  * not skipping, the node passes the test: it is reported and `md` becomes its depth
    (a build with debug assertions panics here when that depth is smaller than `md`);
  * not skipping, the node fails the test: the *next* node of the post-order is skipped iff its
    depth is smaller than `md`;
  * skipping: the node is neither tested nor reported, `md` becomes its depth, and the next node
    is skipped too iff this one has no next sibling (the walk goes on to the parent).
The intended meaning of `md` is "depth of the last reported match", so that a parent reached from
below is skipped exactly when something inside it was reported; the fold shows where the code
departs from it (a match that is a last child: its parent is tested, not skipped).
-/
import AstGrepVerif.Model.Traversal
import AstGrepVerif.Spec.TreeOrder

namespace AGV

structure PItem where
  node : Tree
  depth : Nat
  last : Bool

namespace Tree

mutual
/-- post-order of the subtree with depth (the root of the subtree at depth `d`) and
"no next sibling" (`last` for the root of the subtree) -/
def postItems (d : Nat) (last : Bool) : Tree → List PItem
  | .node i cs => postItemsList (d + 1) cs ++ [⟨.node i cs, d, last⟩]
def postItemsList (d : Nat) : List Tree → List PItem
  | [] => []
  | c :: cs => postItems d cs.isEmpty c ++ postItemsList d cs
end

end Tree

/-- the post-order non-reentrant visit as a fold (`dbg` = build with debug assertions) -/
def foldNR (dbg : Bool) (f : Tree → Bool) : List PItem → (md : Nat) → (skipping : Bool) → TM (List Tree)
  | [], _, _ => .ok []
  | it :: rest, _, true => foldNR dbg f rest it.depth it.last
  | it :: rest, md, false =>
    if f it.node then
      if dbg && it.depth < md then .error .debugAssert
      else
        match foldNR dbg f rest it.depth false with
        | .ok xs => .ok (it.node :: xs)
        | .error e => .error e
    else
      foldNR dbg f rest md (match rest with
        | nxt :: _ => decide (nxt.depth < md)
        | [] => false)

/-- the repaired visit (`Post.visitFixed`) as a fold.  The only difference from `foldNR`: after a
reported match the next node of the post-order is skipped iff its depth is smaller than the
match's depth — i.e. iff it is the match's parent, reached because the match was a last child
(the same test the code already made after a node that fails). -/
def foldNRFixed (dbg : Bool) (f : Tree → Bool) : List PItem → (md : Nat) → (skipping : Bool) → TM (List Tree)
  | [], _, _ => .ok []
  | it :: rest, _, true => foldNRFixed dbg f rest it.depth it.last
  | it :: rest, md, false =>
    if f it.node then
      if dbg && it.depth < md then .error .debugAssert
      else
        match foldNRFixed dbg f rest it.depth (match rest with
          | nxt :: _ => decide (nxt.depth < it.depth)
          | [] => false) with
        | .ok xs => .ok (it.node :: xs)
        | .error e => .error e
    else
      foldNRFixed dbg f rest md (match rest with
        | nxt :: _ => decide (nxt.depth < md)
        | [] => false)

end AGV
