/-
Declarative vocabulary about a SET of global utility rules (the files of `utilDirs`), written from
the rule reference (https://ast-grep.github.io/guide/rule-config/utility-rule.html: a global utility
rule is a rule file of its own, it may have local utilities, it may use other global utilities, a
local utility shadows a global one of the same name) and independent of the lists the loader computes:

  * `RequiresSame locals r b`   evaluating `r` on a node requires evaluating the utility named `b`
                                ON THE SAME NODE, where `b` is not one of the rule's own local
                                utilities: `matches: b` occurs in `r` at a same-node place
                                (`RefsSame`), or `r` refers on the same node to a local utility
                                whose body requires `b` (any number of local utilities in between)
  * `GlobalRequires gs a b`     the global rule `a` of the set requires `b` on the same node
  * `GlobalRequiresTrans`       one or more such steps

Only the data types (`SRule`, `SCore`, `SGlobal`) and the association-list look-up are shared with
the model.
-/
import AstGrepVerif.Spec.RuleDoc
import AstGrepVerif.Model.GlobalLoader

namespace AGV.Loader.Spec

open AGV AGV.Loader

/-- `r` (a rule of a document whose local utilities are `locals`) requires the NON-local utility
`b` on the same node, directly or through local utilities -/
inductive RequiresSame (locals : List (Name × SRule)) : SRule → Name → Prop where
  | direct {r b} : RefsSame true r b → alookup b locals = none → RequiresSame locals r b
  | via {r x body b} : RefsSame true r x → alookup x locals = some body →
      RequiresSame locals body b → RequiresSame locals r b

/-- the local utilities of a global rule document -/
def localsOf (g : SGlobal) : List (Name × SRule) := g.core.utils.getD []

/-- the global rule with id `a` requires the utility `b` on the same node -/
def GlobalRequires (gs : List SGlobal) (a b : Name) : Prop :=
  ∃ g ∈ gs, g.id = a ∧ RequiresSame (localsOf g) g.core.rule b

/-- one or more steps of `GlobalRequires` -/
inductive GlobalRequiresTrans (gs : List SGlobal) : Name → Name → Prop where
  | single {a b} : GlobalRequires gs a b → GlobalRequiresTrans gs a b
  | step {a b c} : GlobalRequires gs a b → GlobalRequiresTrans gs b c → GlobalRequiresTrans gs a c

/-- `matches: id` occurs somewhere in the global rule document: in its rule, a constraint, a local
utility or a fix expansion (under any operator, relations and `stopBy` rules included) -/
def GlobalRefersTo (g : SGlobal) (id : Name) : Prop :=
  Refs g.core.rule id ∨ (∃ c ∈ g.core.constraints, Refs c.2 id) ∨
    (∃ k r, alookup k (localsOf g) = some r ∧ Refs r id) ∨
    (∃ e ∈ (match g.core.fix with
            | some (.config _ es ee) => es.toList ++ ee.toList
            | _ => []),
        Refs e.rule id ∨ ∃ s, e.stop = .rule s ∧ Refs s id)

end AGV.Loader.Spec
