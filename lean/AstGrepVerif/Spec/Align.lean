/-
Specification of "a reported pattern match is justified" (C03), written from the
documentation of the five strictness levels, independently of the matcher's control flow.

  cst        every node must be matched, nothing is skipped
  smart      unnamed (punctuation) candidate nodes may be skipped; whatever follows the last
             pattern child is ignored
  ast        unnamed nodes are skipped on both sides
  relaxed    as `ast`, and comments are skipped
  signature  as `relaxed`, and token text is not compared

An alignment relates a pattern node to a candidate node (`Aligns`) and a list of pattern
children to a list of candidate children (`AlignsL`).  `mvOK` is what a successful hole binding
guarantees about the bound node (for the environment aggregator: a hole marked *named* binds a
named node).
-/
import AstGrepVerif.Model.Match

namespace AGV.Spec

open AGV

/-- a candidate child that may stay unmatched between matched children -/
def candSkippable (s : Strictness) (c : Tree) : Bool :=
  match s with
  | .cst => false
  | .smart => !c.named
  | .ast => !c.named
  | .relaxed => !c.named || c.info.comment
  | .signature => !c.named || c.info.comment

/-- a candidate child that may stay unmatched after the last pattern child -/
def trailingSkippable (s : Strictness) (c : Tree) : Bool :=
  match s with
  | .cst => false
  | .smart => true
  | .ast => false
  | .relaxed => !c.named || c.info.comment
  | .signature => !c.named || c.info.comment

def isEllipsis : PNode → Bool
  | .metaVar .multiple => true
  | .metaVar (.multiCapture _) => true
  | _ => false

/-- a pattern child that may stay unmatched although candidates are left: only unnamed
tokens, and only from `ast` on -/
def goalSkippableMid (s : Strictness) (p : PNode) : Bool :=
  match s, p with
  | .cst, _ => false
  | .smart, _ => false
  | _, .terminal _ named _ => !named
  | _, _ => false

/-- a pattern child that may stay unmatched once the candidates are exhausted: an ellipsis
(matching nothing) from `smart` on; unnamed tokens and holes not marked named from `ast` on -/
def goalSkippableEnd (s : Strictness) (p : PNode) : Bool :=
  match s with
  | .cst => false
  | .smart => isEllipsis p
  | _ =>
    match p with
    | .metaVar .multiple => true
    | .metaVar (.multiCapture _) => true
    | .metaVar (.dropped named) => !named
    | .metaVar (.capture _ named) => !named
    | .terminal _ named _ => !named
    | .internal _ _ => false

/-- what the named flag of a hole demands of the node it binds -/
def holeNamedOK : MetaVar → Tree → Prop
  | .capture _ named, c => named = true → c.named = true
  | .dropped named, c => named = true → c.named = true
  | _, _ => True

mutual
/-- `Aligns s src ok p c`: pattern node `p` is aligned with candidate node `c` -/
inductive Aligns (s : Strictness) (src : Bytes) (ok : MetaVar → Tree → Prop) : PNode → Tree → Prop
  /-- a token: kinds agree (a pattern node of kind ERROR stands for any kind) and the text agrees
  — except for unnamed tokens (only the kind is compared) and under `signature` -/
  | terminal (text : Bytes) (named : Bool) (kind : Nat) (c : Tree) :
      kindsMatch kind c.kind = true →
      (named = false ∨ text = c.text src ∨ s = .signature) →
      Aligns s src ok (.terminal text named kind) c
  /-- a hole binds the candidate -/
  | hole (mv : MetaVar) (c : Tree) : ok mv c → Aligns s src ok (.metaVar mv) c
  /-- an inner node: kinds agree, the candidate has children and the child lists align -/
  | internal (kind : Nat) (ps : List PNode) (c : Tree) :
      kindsMatch kind c.kind = true → c.children ≠ [] →
      AlignsL s src ok ps c.children →
      Aligns s src ok (.internal kind ps) c

/-- `AlignsL s src ok ps cs`: the pattern children `ps` are aligned with the siblings `cs` -/
inductive AlignsL (s : Strictness) (src : Bytes) (ok : MetaVar → Tree → Prop) :
    List PNode → List Tree → Prop
  /-- all pattern children are placed: what is left must be skippable after the pattern -/
  | done (cs : List Tree) : (∀ c ∈ cs, trailingSkippable s c = true) → AlignsL s src ok [] cs
  /-- candidates are exhausted: what is left of the pattern must be skippable at the end -/
  | goalsLeft (ps : List PNode) : (∀ p ∈ ps, goalSkippableEnd s p = true) → AlignsL s src ok ps []
  /-- the next pattern child matches the next candidate -/
  | both (p : PNode) (c : Tree) (ps : List PNode) (cs : List Tree) :
      Aligns s src ok p c → AlignsL s src ok ps cs → AlignsL s src ok (p :: ps) (c :: cs)
  /-- the next candidate is left unmatched -/
  | skipCand (c : Tree) (ps : List PNode) (cs : List Tree) :
      candSkippable s c = true → AlignsL s src ok ps cs → AlignsL s src ok ps (c :: cs)
  /-- the next pattern child is left unmatched -/
  | skipGoal (p : PNode) (ps : List PNode) (cs : List Tree) :
      goalSkippableMid s p = true → AlignsL s src ok ps cs → AlignsL s src ok (p :: ps) cs
  /-- `$$$` absorbs a run of consecutive siblings. The unnamed pattern tokens `trivs`
  written directly after the ellipsis (a separator, a closing bracket) are *not compared* with
  anything by the matcher: they only shorten the captured run. This is the one leniency that
  holds at every strictness level, including `cst`; see `AlignsStrict` in `Props/C03.lean`. -/
  | ellipsis (p : PNode) (trivs ps : List PNode) (run cs : List Tree) :
      isEllipsis p = true → (∀ t ∈ trivs, t.isTrivial = true) →
      AlignsL s src ok ps cs → AlignsL s src ok (p :: trivs ++ ps) (run ++ cs)
end

end AGV.Spec
