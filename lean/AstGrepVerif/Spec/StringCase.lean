/-
Specification of where `convert` cuts a string into words, written from the documentation of
the transformation (rule-config reference: separators `dash dot slash space underscore` cut
at their character and drop it; `caseChange` cuts where the case changes, `XMLHttpRequest` =
`XML Http Request`) and independent of the state machine of the code: whether a word starts
at a character is a function of a window of the *input* — the two characters before it, the
character itself, the character after it — not of a state carried along.

With `N` = "not a separator character and not a lower-case letter" (upper-case letters, but
also digits, punctuation, separator characters that are not enabled), a word starts at `c` when
  (1) `c` follows an enabled separator character (which is dropped), or
  (2) `c` is an upper-case letter and the character before it is not `N`
      (`camelCase` = `camel Case`), or
  (3) `c` and the character before it are `N` and the character after it is a lower-case letter
      (`XMLHttp` = `XML Http`: the last of a run of capitals goes with the lower-case letters).
Rule (3) with `N` instead of "upper-case" is what the code does (`base64url` = `base6 4url`);
it is kept here as observed behaviour and recorded in `AGV.C07.snake_idempotent_counterexample`.
-/
import AstGrepVerif.Model.StringCase

namespace AGV.Spec.StringCase

open AGV.StringCase

/-- `N`: a character that is neither an enabled separator nor a lower-case letter -/
def nonLower (delims : List Char) : Option Char → Bool
  | some c => !delims.contains c && !isLower c
  | none => false

/-- rules (2) and (3): does a word start at `c`, given the characters before it (nearest
first) and the character after it -/
def cutHere (delims : List Char) (before : List Char) (c : Char) (next : Option Char) : Bool :=
  (isUpper c && !nonLower delims before.head?) ||
  (nonLower delims (some c) && nonLower delims before.head? && next.any isLower)

/-- yield a word unless it is empty -/
def yield (w : List Char) (rest : List (List Char)) : List (List Char) :=
  if w = [] then rest else w :: rest

/-- the words: a left-to-right pass that closes the current word at every enabled separator
character and at every character where `cutHere` holds (`caseOn`: is `caseChange` enabled).
`before` = the characters already passed, nearest first. -/
def wordsFrom (delims : List Char) (caseOn : Bool) : List Char → List Char → List Char → List (List Char)
  | _, cur, [] => yield cur []
  | before, cur, c :: cs =>
    if delims.contains c then yield cur (wordsFrom delims caseOn (c :: before) [] cs)
    else if caseOn && cutHere delims before c cs.head? then
      yield cur (wordsFrom delims caseOn (c :: before) [c] cs)
    else wordsFrom delims caseOn (c :: before) (cur ++ [c]) cs

def words (delims : List Char) (caseOn : Bool) (s : List Char) : List (List Char) :=
  wordsFrom delims caseOn [] [] s

end AGV.Spec.StringCase
