/-
Specification of rule selection, written from the documentation (CLI reference of `sg scan`,
`files` / `ignores` / `severity` in the rule reference, `languageGlobs` in the project reference),
independently of the model's control flow: relations over the command line as typed, the rule
documents and the file's languages. Only the *types* of `Model/Select.lean` are used.
-/
import AstGrepVerif.Model.Select

namespace AGV.Select.Spec

open AGV.Select

/-- When several severity flags apply to the same rule the weakest one wins, whatever their order
on the command line: off beats hint beats info beats warning beats error. -/
def rank : Severity → Nat
  | .error => 0 | .warning => 1 | .info => 2 | .hint => 3 | .off => 4

/-- `s` resolves a set of candidate severities -/
def Resolves (cands : List Severity) (s : Severity) : Prop :=
  s ∈ cands ∧ ∀ t ∈ cands, rank t ≤ rank s

/-- severities of the flags that name the rule: `--error=ID`, … -/
def byIdFlags (occs : List FlagOcc) (id : RuleId) : List Severity :=
  (occs.filter (fun o => o.id = some id)).map (·.sev)

/-- bare flags (`--error`, … "all rules") *as documented* -/
def bareFlagsDoc (occs : List FlagOcc) : List Severity :=
  (occs.filter (fun o => o.id = none)).map (·.sev)

/-- bare flags that the implementation honours: a bare `--SEV` is dropped as soon as the same
`--SEV=ID` also occurs (clap merges the occurrences into one list, which is then non-empty) -/
def bareFlags (occs : List FlagOcc) : List Severity :=
  (occs.filter (fun o => o.id = none ∧ ¬ ∃ o' ∈ occs, o'.sev = o.sev ∧ o'.id ≠ none)).map (·.sev)

/-- effective severity of a rule under a command line, parameterised by which bare flags count -/
def EffSeverityWith (bare : List Severity) (occs : List FlagOcc) (r : Rule) (s : Severity) : Prop :=
  if byIdFlags occs r.id ≠ [] then Resolves (byIdFlags occs r.id) s
  else if bare ≠ [] then Resolves bare s
  else s = r.severity

/-- the documented reading: by-id flag, else bare flag, else the rule's own severity -/
def EffSeverityDoc (occs : List FlagOcc) (r : Rule) (s : Severity) : Prop :=
  EffSeverityWith (bareFlagsDoc occs) occs r s

/-- the implemented reading (differs from the documented one only for command lines that contain
both `--SEV` and `--SEV=ID` for the same SEV) -/
def EffSeverity (occs : List FlagOcc) (r : Rule) (s : Severity) : Prop :=
  EffSeverityWith (bareFlags occs) occs r s

/-- no severity occurs both bare and with an id -/
def NoMixedFlags (occs : List FlagOcc) : Prop :=
  ∀ o ∈ occs, ∀ o' ∈ occs, o.sev = o'.sev → (o.id = none ↔ o'.id = none)

/-- `--filter REGEX` keeps the rule -/
def FilterOK (filter : Option (RuleId → Bool)) (r : Rule) : Prop :=
  ∀ f, filter = some f → f r.id = true

/-- the file has a document of language `l`: its own language (language globs, then custom
languages, then the built-in extension table) or a language embedded in it -/
def FileHasLang (env : Env) (p : Path) (l : Lang) : Prop :=
  ∃ fl, fromPath env p = some fl ∧ (l = fl ∨ (l ∈ injectableOf env fl ∧ l ∈ env.present p))

/-- the path passes the rule's `files` / `ignores` globs -/
def GlobsAccept (gm : Glob → Path → Bool) (r : Rule) (p : Path) : Prop :=
  (r.files = none ∨ ∃ fs, r.files = some fs ∧ ∃ g ∈ fs, gm g p = true) ∧
  (∀ ig, r.ignores = some ig → ∀ g ∈ ig, gm g p = false)

end AGV.Select.Spec
