/-
Well-formed fields of a rule document (C12 `ParsesOK`): what the loader needs of every single
field — the facts supplied by the harness (a pattern parses, a kind / field name exists, a regex
compiles) and the number-range conditions — independent of how `deserialize_rule` walks the
document and of which error it reports first.
-/
import AstGrepVerif.Model.RuleDoc

namespace AGV.Loader.Spec

open AGV AGV.Loader

/-- an `nthChild` position is a number that fits `i32`, or an `An+B` string the (repaired) parser
accepts -/
def PosParses : NthPos → Prop
  | .numeric n => (n : Int) ≤ i32Max
  | .functional s => ∃ v, parseAnBChecked s = .ok v

mutual
/-- every field of the rule object is well formed, and the object has at least one matcher -/
def RuleParses : SRule → Prop
  | .mk ps => ps ≠ [] ∧ PartsParse ps
def PartsParse : List SPart → Prop
  | [] => True
  | p :: ps => PartParses p ∧ PartsParse ps
def PartParses : SPart → Prop
  | .pattern ok _ _ => ok = true
  | .kind ok _ => ok = true
  | .regex ok => ok = true
  | .nthChild pos ofRule _ =>
    PosParses pos ∧ (match ofRule with | some r => RuleParses r | none => True)
  | .range sl sc el ec => ¬ (sl > el ∨ (sl = el ∧ sc > ec))
  | .all rs => RulesParse rs
  | .any rs => RulesParse rs
  | .not r => RuleParses r
  | .matches _ => True
  | .inside r stop f => StopParses stop ∧ f ≠ .unknown ∧ RuleParses r
  | .has r stop f => StopParses stop ∧ f ≠ .unknown ∧ RuleParses r
  | .precedes r stop f => f = .absent ∧ StopParses stop ∧ RuleParses r
  | .follows r stop f => f = .absent ∧ StopParses stop ∧ RuleParses r
def RulesParse : List SRule → Prop
  | [] => True
  | r :: rs => RuleParses r ∧ RulesParse rs
def StopParses : SStop → Prop
  | .neighbor => True
  | .end_ => True
  | .rule r => RuleParses r
end

/-- a transformation reads a meta-variable (`$A`, `$$$A` in the language's spelling) and, for
`replace`, its regex compiles -/
def TransParses (expando : Char) (t : STrans) : Prop :=
  langExtract expando t.source ≠ none ∧
    (match t with | .replace _ regexOk => regexOk = true | _ => True)

def ExpansionParses (e : SExpansion) : Prop := StopParses e.stop ∧ RuleParses e.rule

end AGV.Loader.Spec
