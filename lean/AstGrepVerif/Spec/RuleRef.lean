/-
Reference semantics of rule objects (C05), written from the rule reference
(https://ast-grep.github.io/reference/rule.html), not from the evaluator:

  all / any / not     conjunction / disjunction / negation on the same node
  inside              some ancestor satisfies the sub-rule
  has                 some descendant satisfies the sub-rule
  precedes / follows  some later / earlier sibling satisfies the sub-rule
  stopBy              neighbor: only the nearest candidate; end: all of them;
                      a rule: up to and including the first candidate satisfying the stop rule
  field               has: look only below the child labelled `field`;
                      inside: the ancestor's child labelled `field` must be the one we came from
  kind / regex / range / nthChild   tests on the node itself
  matches             the referenced utility rule

`sat` is a plain Boolean function: no environments, no evaluation order.  It is the meaning of a
rule whose sub-patterns are variable-disjoint (a pattern alone is judged by the matcher of
C02/C03, started from the empty environment).
-/
import AstGrepVerif.Model.Rule

namespace AGV.Spec

open AGV

/-- candidates a relation may inspect, nearest first -/
def takeThrough (p : Tree → Bool) : List Tree → List Tree
  | [] => []
  | c :: cs => if p c then [c] else c :: takeThrough p cs

/-- siblings after / before a node, by position in the parent's child list (no cursor) -/
def laterSiblings (root n : Tree) : List Tree :=
  match parentOf root n with
  | none => []
  | some p => match indexById n p.children with
    | some k => p.children.drop (k + 1)
    | none => []

def earlierSiblings (root n : Tree) : List Tree :=
  match parentOf root n with
  | none => []
  | some p => match indexById n p.children with
    | some k => (p.children.take k).reverse
    | none => []

/-- 1-based position of `n` among the list (by id) -/
def positionIn (n : Tree) (l : List Tree) : Option Nat := (indexById n l).map (· + 1)

mutual
/-- does node `n` satisfy rule `r`? (`fuel` bounds the unfolding of `matches`) -/
def sat (ctx : RCtx) : (fuel : Nat) → Rule → Tree → Bool
  | 0, _, _ => false
  | fuel + 1, r, n =>
    match r with
    | .pattern p rootKind s =>
      (match rootKind with | some k => n.kind == k | none => true) &&
      (match matchPatternEnv s ctx.src (matchFuel p n) p n Env.empty with
       | .ok (some _) => true
       | _ => false)
    | .kind k => n.kind == k
    | .regex id => ctx.regex id n
    | .range sl sc el ec =>
      sl == lineOfOffset ctx.src n.start && sc == charColOfOffset ctx.src n.start &&
      el == lineOfOffset ctx.src n.stop && ec == charColOfOffset ctx.src n.stop
    | .nthChild a b ofRule reverse =>
      match parentOf ctx.root n with
      | none => false
      | some parent =>
        let named := parent.children.filter (·.named)
        let pool := match ofRule with
          | some rule => named.filter (sat ctx fuel rule)
          | none => named
        let pool := if reverse then pool.reverse else pool
        match positionIn n pool with
        | none => false
        | some i => isMatched a b (i - 1)       -- i = A·k + B for some k ≥ 0 (C20 `anb_iff`)
    | .all rs _ => satAll ctx fuel rs n
    | .any rs _ => satAny ctx fuel rs n
    | .not r => !(sat ctx fuel r n)
    | .matches id =>
      match alookup id ctx.locals with
      | some r => sat ctx fuel r n
      | none =>
        match alookup id ctx.globals with
        | some core => sat ctx fuel core.rule n     -- constraints of global utilities: see C04
        | none => false
    | .inside r stop field =>
      let cands := satCandidates ctx fuel stop (ancestorsOf ctx.root n)
      satInside ctx fuel r field n.id cands
    | .has r stop field =>
      match field with
      | none => satBelow ctx fuel r stop n.children
      | some f =>
        match childByField n f with
        | none => false
        | some c => satBelow ctx fuel r stop [c]
    | .precedes r stop => satAnyNode ctx fuel r (satCandidates ctx fuel stop (laterSiblings ctx.root n))
    | .follows r stop => satAnyNode ctx fuel r (satCandidates ctx fuel stop (earlierSiblings ctx.root n))

def satAll (ctx : RCtx) : (fuel : Nat) → List Rule → Tree → Bool
  | 0, _, _ => false
  | _ + 1, [], _ => true
  | fuel + 1, r :: rs, n => sat ctx fuel r n && satAll ctx fuel rs n

def satAny (ctx : RCtx) : (fuel : Nat) → List Rule → Tree → Bool
  | 0, _, _ => false
  | _ + 1, [], _ => false
  | fuel + 1, r :: rs, n => sat ctx fuel r n || satAny ctx fuel rs n

def satAnyNode (ctx : RCtx) : (fuel : Nat) → Rule → List Tree → Bool
  | 0, _, _ => false
  | _ + 1, _, [] => false
  | fuel + 1, r, c :: cs => sat ctx fuel r c || satAnyNode ctx fuel r cs

/-- `stopBy` applied to a nearest-first candidate list -/
def satCandidates (ctx : RCtx) : (fuel : Nat) → StopBy → List Tree → List Tree
  | 0, _, _ => []
  | fuel + 1, stop, l =>
    match stop with
    | .neighbor => l.take 1
    | .end_ => l
    | .rule s => takeThrough (sat ctx fuel s) l

/-- ancestors with the `field` side condition: the ancestor's `field` child is the node the
walk came from -/
def satInside (ctx : RCtx) : (fuel : Nat) → Rule → Option Nat → Nat → List Tree → Bool
  | 0, _, _, _, _ => false
  | _ + 1, _, _, _, [] => false
  | fuel + 1, r, field, fromId, a :: as =>
    let fieldOK := match field with
      | none => true
      | some f => match childByField a f with
        | some ch => ch.id == fromId
        | none => false
    (fieldOK && sat ctx fuel r a) || satInside ctx fuel r field a.id as

/-- descendants reachable from the list `cs` of children, limited by `stopBy`:
neighbor = the children themselves; end = every descendant; a rule = a child, and below it
unless it satisfies the stop rule (inclusive) -/
def satBelow (ctx : RCtx) : (fuel : Nat) → Rule → StopBy → List Tree → Bool
  | 0, _, _, _ => false
  | _ + 1, _, _, [] => false
  | fuel + 1, r, stop, c :: cs =>
    sat ctx fuel r c ||
    (match stop with
     | .neighbor => false
     | .end_ => satBelow ctx fuel r stop c.children
     | .rule s => if sat ctx fuel s c then false else satBelow ctx fuel r stop c.children) ||
    satBelow ctx fuel r stop cs
end

end AGV.Spec
