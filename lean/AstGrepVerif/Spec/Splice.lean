/-
Specification of "substitute exactly these ranges" (C06 / C18).

Written from the documentation, independently of the code: an edit replaces the half-open
range `[start, stop)` of a text by `rep`; a list of ordered, disjoint, in-range edits is applied
**one edit at a time, from the last edit to the first** (so that the offsets of the edits still to
be applied are not disturbed).  No cursor, no accumulator: the implementation's single
left-to-right pass (`apply_rewrite`, `make_edit`) is proved equal to this in `Props/C06.lean`.

Generic in the element type: bytes for the CLI, characters for the UTF-8 statement.
-/
namespace AGV.Spec

structure Edit (α : Type) where
  start : Nat
  stop : Nat
  rep : List α
deriving Repr, DecidableEq

variable {α : Type}

/-- replace `[e.start, e.stop)` of `s` by `e.rep` -/
def splice1 (s : List α) (e : Edit α) : List α :=
  s.take e.start ++ e.rep ++ s.drop e.stop

/-- apply the edits one at a time, last edit first -/
def spliceAll (old : List α) (es : List (Edit α)) : List α :=
  es.foldr (fun e acc => splice1 acc e) old

/-- ordered and disjoint, nothing before `lo`:
`lo ≤ e₁.start ≤ e₁.stop ≤ e₂.start ≤ e₂.stop ≤ …` (adjacent and empty ranges allowed) -/
def OrderedFrom : Nat → List (Edit α) → Prop
  | _, [] => True
  | lo, e :: es => lo ≤ e.start ∧ e.start ≤ e.stop ∧ OrderedFrom e.stop es

/-- every range ends inside a text of length `len` -/
def InRange (len : Nat) (es : List (Edit α)) : Prop := ∀ e ∈ es, e.stop ≤ len

/-- the precondition of `spliceAll`: ordered, disjoint, in range -/
def Valid (len : Nat) (es : List (Edit α)) : Prop := OrderedFrom 0 es ∧ InRange len es

instance decOrderedFrom : (lo : Nat) → (es : List (Edit α)) → Decidable (OrderedFrom lo es)
  | _, [] => isTrue trivial
  | lo, e :: es =>
    have := decOrderedFrom e.stop es
    inferInstanceAs (Decidable (lo ≤ e.start ∧ e.start ≤ e.stop ∧ OrderedFrom e.stop es))

instance (len : Nat) (es : List (Edit α)) : Decidable (InRange len es) :=
  inferInstanceAs (Decidable (∀ e ∈ es, e.stop ≤ len))

instance (len : Nat) (es : List (Edit α)) : Decidable (Valid len es) :=
  inferInstanceAs (Decidable (_ ∧ _))

/-- the closed form of DESIGN §6/C06:
`old[cur..e₁.start] ++ rep₁ ++ old[e₁.stop..e₂.start] ++ … ++ old[eₖ.stop..]` -/
def segments (old : List α) : Nat → List (Edit α) → List α
  | cur, [] => old.drop cur
  | cur, e :: es => (old.drop cur).take (e.start - cur) ++ e.rep ++ segments old e.stop es

/-- number of elements inserted by the edits that end at or before `i` -/
def insBefore : List (Edit α) → Nat → Nat
  | [], _ => 0
  | e :: es, i => (if e.stop ≤ i then e.rep.length else 0) + insBefore es i

/-- number of elements deleted by the edits that end at or before `i` -/
def delBefore : List (Edit α) → Nat → Nat
  | [], _ => 0
  | e :: es, i => (if e.stop ≤ i then e.stop - e.start else 0) + delBefore es i

/-- where the element at old index `i` (outside all ranges) lands -/
def newPos (es : List (Edit α)) (i : Nat) : Nat := i + insBefore es i - delBefore es i

/-- `i` is outside every range -/
def Outside (es : List (Edit α)) (i : Nat) : Prop := ∀ e ∈ es, i < e.start ∨ e.stop ≤ i

instance (es : List (Edit α)) (i : Nat) : Decidable (Outside es i) :=
  inferInstanceAs (Decidable (∀ e ∈ es, _))

/-- pairwise form of "ordered and disjoint" -/
def PairwiseDisjoint (es : List (Edit α)) : Prop :=
  es.Pairwise (fun a b => a.stop ≤ b.start)

/-- two ranges overlap (share a position, or one starts strictly inside the other) -/
def Overlaps (a b : Edit α) : Prop := a.start < b.stop ∧ b.start < a.stop

end AGV.Spec

namespace AGV.Spec
variable {α : Type}

/-- pieces joined by a separator (`joinBy` of the `rewrite` transformation) -/
def joinWith (sep : List α) : List (List α) → List α
  | [] => []
  | [x] => x
  | x :: y :: r => x ++ sep ++ joinWith sep (y :: r)

end AGV.Spec
