/-
Specification vocabulary for C07, written from the documentation of
`crates/core/src/replacer/indent.rs` (module comment, "meta-var source indentation",
"returns 0 if no indent is found before the offset: either truly no indent exists, or the
offset is in a long line") and the rewrite guide ("indentation sensitive rewriting").
Nothing here mentions the algorithms of the model (`indentScan`, `removeIndent`,
`indentLinesImpl`, `scanTemplate`, `replaceFixerLoop`).
Only the vocabulary (`Bytes`, `NL`, `SP`) is shared with the model.
-/
import AstGrepVerif.Model.Indent

namespace AGV.Spec

/-- indentation of a line = number of leading U+0020 -/
def lead (l : Bytes) : Nat := (l.takeWhile (· == SP)).length

/-- the line's content after its indentation -/
def body (l : Bytes) : Bytes := l.dropWhile (· == SP)

/-- the same line content at indentation `n` -/
def withIndent (n : Nat) (l : Bytes) : Bytes := List.replicate n SP ++ body l

/-- the text after the last newline of `s` (all of `s` when there is none) -/
def lastLine (s : Bytes) : Bytes := (s.reverse.takeWhile (· != NL)).reverse

/-- The line an offset sits on is *short* when its start (a newline, or the start of the file)
is visible within the last 512 bytes before the offset. -/
def ShortLine (src : Bytes) : Prop :=
  (NL ∈ src ∧ (lastLine src).length < 512) ∨ (NL ∉ src ∧ src.length ≤ 512)

instance (src : Bytes) : Decidable (ShortLine src) := by unfold ShortLine; infer_instance

/-- Documented result of `get_indent_at_offset(src)`: the indentation of the line the offset
`src.len()` sits on; `0` on a long line. -/
def indentAt (src : Bytes) : Nat :=
  if ShortLine src then lead (lastLine src) else 0

/-- moving a line from a snippet whose first line sits at indentation `orig` to a place where
the first line sits at `new`: same content, indentation shifted by `new - orig` -/
def reindent (orig new : Nat) (l : Bytes) : Bytes := withIndent (lead l - orig + new) l

/-- `n` spaces inserted after every newline: what "re-indent every line except the first by
`n`" means for a text -/
def shiftNL (n : Nat) (t : Bytes) : Bytes :=
  t.flatMap fun b => if b = NL then NL :: List.replicate n SP else [b]

/-- literal fragments `f₀ f₁ … fₙ` with the values `v₁ … vₙ` put between them -/
def interleave : List Bytes → List Bytes → Bytes
  | f :: fs, v :: vs => f ++ v ++ interleave fs vs
  | f :: _, [] => f
  | [], _ => []

end AGV.Spec
