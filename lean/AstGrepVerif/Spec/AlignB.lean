/-
An executable decision procedure for the alignment specification `Spec.Aligns` /
`Spec.AlignsL` (backtracking over every constructor), used as the C03 oracle on the
implementation's reported matches: a reported match for which no alignment exists is a
violation.  Written from the constructors of `Spec/Align.lean`, not from the matcher.
`fuel` bounds the search depth; `alignFuel` is generous (every step consumes a pattern node, a
candidate or descends).
-/
import AstGrepVerif.Spec.Align

namespace AGV.Spec

open AGV

def holeNamedOKB : MetaVar → Tree → Bool
  | .capture _ named, c => !named || c.named
  | .dropped named, c => !named || c.named
  | _, _ => true

mutual
def alignsB (s : Strictness) (src : Bytes) : Nat → PNode → Tree → Bool
  | 0, _, _ => false
  | fuel + 1, p, c =>
    match p with
    | .terminal text named kind =>
      kindsMatch kind c.kind && (!named || text == c.text src || s == .signature)
    | .metaVar mv => holeNamedOKB mv c
    | .internal kind ps =>
      kindsMatch kind c.kind && !c.children.isEmpty && alignsLB s src fuel ps c.children

def alignsLB (s : Strictness) (src : Bytes) : Nat → List PNode → List Tree → Bool
  | 0, _, _ => false
  | fuel + 1, ps, cs =>
    -- done / goalsLeft
    (ps.isEmpty && cs.all (trailingSkippable s)) ||
    (cs.isEmpty && ps.all (goalSkippableEnd s)) ||
    -- both
    (match ps, cs with
     | p :: ps', c :: cs' => alignsB s src fuel p c && alignsLB s src fuel ps' cs'
     | _, _ => false) ||
    -- skipCand
    (match cs with
     | c :: cs' => candSkippable s c && alignsLB s src fuel ps cs'
     | [] => false) ||
    -- skipGoal / ellipsis
    (match ps with
     | p :: ps' =>
       (goalSkippableMid s p && alignsLB s src fuel ps' cs) ||
       (isEllipsis p && ellipsisB s src fuel ps' cs)
     | [] => false)

/-- after an ellipsis: drop any number of the unnamed tokens written directly after it, then let
the ellipsis absorb any prefix of the candidates -/
def ellipsisB (s : Strictness) (src : Bytes) : Nat → List PNode → List Tree → Bool
  | 0, _, _ => false
  | fuel + 1, ps, cs =>
    runB s src fuel ps cs ||
    (match ps with
     | t :: ps' => t.isTrivial && ellipsisB s src fuel ps' cs
     | [] => false)

/-- the ellipsis absorbs `run`, the rest `ps` aligns with what follows -/
def runB (s : Strictness) (src : Bytes) : Nat → List PNode → List Tree → Bool
  | 0, _, _ => false
  | fuel + 1, ps, cs =>
    alignsLB s src fuel ps cs ||
    (match cs with
     | _ :: cs' => runB s src fuel ps cs'
     | [] => false)
end

def alignFuel (p : PNode) (c : Tree) : Nat := 4 * (p.size + 2) * (c.size + 2)

end AGV.Spec
