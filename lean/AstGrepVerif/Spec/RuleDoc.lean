/-
Declarative vocabulary about rule documents (C11 / C12), written from the rule reference
(https://ast-grep.github.io/reference/rule.html, .../yaml.html) and independent of the list-producing
functions of the loader model:

  * `Defines r v`       a pattern somewhere in rule `r` captures the meta-variable `v`
                        (utility references are not followed: a `matches` defines nothing by itself)
  * `Refs r id`         `matches: id` occurs somewhere in `r` (under any operator)
  * `RefsSame o r id`   `matches: id` occurs in `r` at a place that is evaluated **on the same node**
                        as `r` itself: under `all` / `any` / `not` / as one of several keys, and —
                        when `o` — under `nthChild.ofRule` (the siblings tested by `ofRule` include
                        the node itself)

Only the data types of `Model/RuleDoc.lean` are shared with the model.
-/
import AstGrepVerif.Model.RuleDoc

namespace AGV.Loader.Spec

open AGV AGV.Loader

mutual
inductive Defines : SRule → Name → Prop where
  | part {ps p v} : p ∈ ps → PartDefines p v → Defines (.mk ps) v
inductive PartDefines : SPart → Name → Prop where
  | pattern {ok vars kinds v} : v ∈ vars → PartDefines (.pattern ok vars kinds) v
  | ofRule {pos r rev v} : Defines r v → PartDefines (.nthChild pos (some r) rev) v
  | all {rs r v} : r ∈ rs → Defines r v → PartDefines (.all rs) v
  | any {rs r v} : r ∈ rs → Defines r v → PartDefines (.any rs) v
  | not {r v} : Defines r v → PartDefines (.not r) v
  | inside {r stop f v} : Defines r v → PartDefines (.inside r stop f) v
  | insideStop {r s f v} : Defines s v → PartDefines (.inside r (.rule s) f) v
  | has {r stop f v} : Defines r v → PartDefines (.has r stop f) v
  | hasStop {r s f v} : Defines s v → PartDefines (.has r (.rule s) f) v
  | precedes {r stop f v} : Defines r v → PartDefines (.precedes r stop f) v
  | precedesStop {r s f v} : Defines s v → PartDefines (.precedes r (.rule s) f) v
  | follows {r stop f v} : Defines r v → PartDefines (.follows r stop f) v
  | followsStop {r s f v} : Defines s v → PartDefines (.follows r (.rule s) f) v
end

mutual
inductive Refs : SRule → Name → Prop where
  | part {ps p id} : p ∈ ps → PartRefs p id → Refs (.mk ps) id
inductive PartRefs : SPart → Name → Prop where
  | matches {id} : PartRefs (.matches id) id
  | ofRule {pos r rev id} : Refs r id → PartRefs (.nthChild pos (some r) rev) id
  | all {rs r id} : r ∈ rs → Refs r id → PartRefs (.all rs) id
  | any {rs r id} : r ∈ rs → Refs r id → PartRefs (.any rs) id
  | not {r id} : Refs r id → PartRefs (.not r) id
  | inside {r stop f id} : Refs r id → PartRefs (.inside r stop f) id
  | insideStop {r s f id} : Refs s id → PartRefs (.inside r (.rule s) f) id
  | has {r stop f id} : Refs r id → PartRefs (.has r stop f) id
  | hasStop {r s f id} : Refs s id → PartRefs (.has r (.rule s) f) id
  | precedes {r stop f id} : Refs r id → PartRefs (.precedes r stop f) id
  | precedesStop {r s f id} : Refs s id → PartRefs (.precedes r (.rule s) f) id
  | follows {r stop f id} : Refs r id → PartRefs (.follows r stop f) id
  | followsStop {r s f id} : Refs s id → PartRefs (.follows r (.rule s) f) id
end

mutual
inductive RefsSame (o : Bool) : SRule → Name → Prop where
  | part {ps p id} : p ∈ ps → PartRefsSame o p id → RefsSame o (.mk ps) id
inductive PartRefsSame (o : Bool) : SPart → Name → Prop where
  | matches {id} : PartRefsSame o (.matches id) id
  | all {rs r id} : r ∈ rs → RefsSame o r id → PartRefsSame o (.all rs) id
  | any {rs r id} : r ∈ rs → RefsSame o r id → PartRefsSame o (.any rs) id
  | not {r id} : RefsSame o r id → PartRefsSame o (.not r) id
  | ofRule {pos r rev id} : o = true → RefsSame o r id → PartRefsSame o (.nthChild pos (some r) rev) id
end

/-- a same-node reference is a reference -/
theorem RefsSame.refs {o : Bool} : ∀ {r : SRule} {id : Name}, RefsSame o r id → Refs r id
  | _, _, .part hp h => .part hp (PartRefsSame.refs h)
where
  PartRefsSame.refs {o : Bool} : ∀ {p : SPart} {id : Name}, PartRefsSame o p id → PartRefs p id
  | _, _, .matches => .matches
  | _, _, .all hr h => .all hr (RefsSame.refs h)
  | _, _, .any hr h => .any hr (RefsSame.refs h)
  | _, _, .not h => .not (RefsSame.refs h)
  | _, _, .ofRule _ h => .ofRule (RefsSame.refs h)

end AGV.Loader.Spec
