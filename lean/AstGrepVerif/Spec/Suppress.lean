/-
Specification of suppression comments, written from the property text (C14), not from the code:

  "A finding is suppressed if and only if an `ast-grep-ignore` comment sits on the line before the
   line where the finding starts (comment on its own line) or at the end of that same line, and the
   comment lists the rule id or lists nothing.  All other findings are unaffected, and a suppression
   is reported as unused exactly when it silenced nothing."

Everything here is declarative (`Prop`, existentials over decompositions of the text); nothing is
shared with the model except the plain data types of the input (`CNode`, `Finding`, `Input`).
-/
import AstGrepVerif.Model.Suppress

namespace AGV.Suppress.Spec
open AGV.Suppress (CNode Finding Input)

/-- `ast-grep-ignore` -/
def marker : Bytes := [97, 115, 116, 45, 103, 114, 101, 112, 45, 105, 103, 110, 111, 114, 101]

/-- `comment` -/
def commentWord : Bytes := [99, 111, 109, 109, 101, 110, 116]

def colon : UInt8 := 58
def comma : UInt8 := 44

/-- `pat` occurs somewhere in `s` -/
def Occurs (pat s : Bytes) : Prop := ∃ pre post, s = pre ++ pat ++ post

/-- The UTF-8 encodings of the Unicode `White_Space` characters (U+0009..U+000D, U+0020, U+0085,
U+00A0, U+1680, U+2000..U+200A, U+2028, U+2029, U+202F, U+205F, U+3000). -/
def wsChars : List Bytes :=
  [[0x09], [0x0A], [0x0B], [0x0C], [0x0D], [0x20], [0xC2, 0x85], [0xC2, 0xA0], [0xE1, 0x9A, 0x80],
   [0xE2, 0x80, 0x80], [0xE2, 0x80, 0x81], [0xE2, 0x80, 0x82], [0xE2, 0x80, 0x83], [0xE2, 0x80, 0x84],
   [0xE2, 0x80, 0x85], [0xE2, 0x80, 0x86], [0xE2, 0x80, 0x87], [0xE2, 0x80, 0x88], [0xE2, 0x80, 0x89],
   [0xE2, 0x80, 0x8A], [0xE2, 0x80, 0xA8], [0xE2, 0x80, 0xA9], [0xE2, 0x80, 0xAF], [0xE2, 0x81, 0x9F],
   [0xE3, 0x80, 0x80]]

/-- a (possibly empty) run of white-space characters -/
inductive Blank : Bytes → Prop
  | nil : Blank []
  | cons {w s : Bytes} : w ∈ wsChars → Blank s → Blank (w ++ s)

/-- `t` is `s` without its surrounding white space -/
def Stripped (s t : Bytes) : Prop :=
  ∃ l r, s = l ++ t ++ r ∧ Blank l ∧ Blank r ∧
    (∀ w ∈ wsChars, ¬ w <+: t) ∧ (∀ w ∈ wsChars, ¬ w <:+ t)

/-- `ps` are the comma-separated pieces of `s` -/
inductive Pieces : Bytes → List Bytes → Prop
  | last {s : Bytes} : comma ∉ s → Pieces s [s]
  | cons {p r : Bytes} {ps : List Bytes} : comma ∉ p → Pieces r ps → Pieces (p ++ comma :: r) (p :: ps)

/-- a suppression comment: a comment node whose text mentions `ast-grep-ignore` -/
def IsSuppression (c : CNode) : Prop := Occurs commentWord c.kind ∧ Occurs marker c.text

/-- `tail` is what follows the FIRST `ast-grep-ignore` of the comment text -/
def DirectiveTail (text tail : Bytes) : Prop :=
  ∃ pre, text = pre ++ marker ++ tail ∧
    ∀ pre' tail', text = pre' ++ marker ++ tail' → pre.length ≤ pre'.length

/-- the directive lists `id`: after the first colon of the tail, one of the comma-separated
pieces is `id` surrounded by white space (`id` itself non-empty) -/
def Lists (tail id : Bytes) : Prop :=
  id ≠ [] ∧ ∃ a rules ps p, tail = a ++ colon :: rules ∧ colon ∉ a ∧ Pieces rules ps ∧ p ∈ ps ∧
    Stripped p id

/-- "lists nothing": no colon, or no id after it -/
def ListsNothing (tail : Bytes) : Prop := ∀ id, ¬ Lists tail id

/-- the comment names the rule: "the comment lists the rule id or lists nothing" -/
def names (c : CNode) (id : Bytes) : Prop :=
  ∃ tail, DirectiveTail c.text tail ∧ (ListsNothing tail ∨ Lists tail id)

/-- textual "own line": only white space before the comment on its line -/
def OwnLine (c : CNode) : Prop := Blank c.lead

/-- the line a suppression comment governs: the line after it when it is on its own line,
its own line when it trails a statement -/
def governsLine (c : CNode) (line : Nat) : Prop :=
  (OwnLine c ∧ c.endLine + 1 = line) ∨ (¬ OwnLine c ∧ c.startLine = line)

def governs (c : CNode) (f : Finding) : Prop := IsSuppression c ∧ governsLine c f.line

/-- the finding is silenced by some comment of the input -/
def suppressed (inp : Input) (f : Finding) : Prop :=
  ∃ c ∈ inp.nodes, governs c f ∧ names c f.rule

/-- the comment silences nothing -/
def unused (inp : Input) (c : CNode) : Prop :=
  ¬ ∃ f ∈ inp.findings, governs c f ∧ names c f.rule

/-- well-formed id list: a colon is followed by at least one id (`ast-grep-ignore:` with nothing
after the colon is where the code and the property text part ways, see
`AGV.C14.parse_empty_list_counterexample`) -/
def ListOK (text : Bytes) : Prop :=
  ∀ tail, DirectiveTail text tail → colon ∈ tail → ∃ id, Lists tail id

/-- at most one suppression comment governs any line -/
def AtMostOneGovernor (inp : Input) : Prop :=
  ∀ (line j j' : Nat) (c c' : CNode), inp.nodes[j]? = some c → inp.nodes[j']? = some c' →
    IsSuppression c → IsSuppression c' → governsLine c line → governsLine c' line → j = j'

end AGV.Suppress.Spec
