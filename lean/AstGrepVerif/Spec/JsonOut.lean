/-
Specification of the CLI's JSON output shapes, written from the documentation of `--json`
(reference/cli/run.html#json-style), not from the printer:

  * `stream`  — one JSON object per line (records separated by a newline character);
  * `compact` — a single-line JSON array, no whitespace: `[r1,r2,…]` followed by a newline;
  * `pretty`  — a JSON array with line breaks: `[`, newline, the records separated by
                `,` newline, newline, `]`, newline;  the empty array is `[]`.

`render style records` is *the* well-formed output for a list of records: given that each
record is one JSON value, `render .compact`/`.pretty` is a JSON array with exactly these
elements in this order and `render .stream` is JSON-lines with exactly these lines.
-/
import AstGrepVerif.Model.JsonFrameMin

namespace AGV.Spec.JsonOut

open AGV AGV.JsonFrameMin

/-- `r1 sep r2 sep … rn` -/
def joinSep (sep : Bytes) : List Bytes → Bytes
  | [] => []
  | [r] => r
  | r :: r' :: rs => r ++ sep ++ joinSep sep (r' :: rs)

def render : Style → List Record → Bytes
  | .stream, rs => joinSep [0x0A] rs
  | .compact, rs => [0x5B] ++ joinSep [0x2C] rs ++ [0x5D, 0x0A]
  | .pretty, [] => [0x5B, 0x5D, 0x0A]
  | .pretty, r :: rs => [0x5B, 0x0A] ++ joinSep [0x2C, 0x0A] (r :: rs) ++ [0x0A, 0x5D, 0x0A]

/-- a record usable in stream style: non-empty and without a raw newline (serde_json's
compact writer escapes control characters inside strings and emits no whitespace) -/
def LineRecord (r : Record) : Prop := r ≠ [] ∧ (0x0A : UInt8) ∉ r

end AGV.Spec.JsonOut
