/-
Specification vocabulary for fix-template expansion (C07): what a template variable *denotes*,
independently of how `maybe_get_var` / `indent_lines` compute it.
Only the data types (`TEnv`, `MetaVarExtract`, `lookupB`) are shared with the model.
-/
import AstGrepVerif.Model.Template
import AstGrepVerif.Spec.Indent

namespace AGV.Spec

/-- `source[start..stop]` -/
def slice (source : Bytes) (r : Nat × Nat) : Bytes := (source.drop r.1).take (r.2 - r.1)

/-- the byte range a variable captured: a single node, or first-to-last node of a `$$$` run -/
def varRange (env : TEnv) : MetaVarExtract → Option (Nat × Nat)
  | .single n => lookupB n env.single
  | .multiple n => lookupB n env.multi
  | .transformed _ => none

/-- The text a template variable denotes: the exact source text of what it captured, or the
transformed string; `none` when the variable is unbound. -/
def capturedText (source : Bytes) (env : TEnv) : MetaVarExtract → Option Bytes
  | .single n => (lookupB n env.single).map (slice source)
  | .multiple n => (lookupB n env.multi).map (slice source)
  | .transformed n => lookupB n env.transformed

/-- the spelling `$NAME` / `$$NAME` / `$$$NAME` -/
def spelling (mc : UInt8) (k : Nat) (name : Bytes) : Bytes := List.replicate k mc ++ name

end AGV.Spec
