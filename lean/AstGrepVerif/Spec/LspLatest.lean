/-
Specification side of the LSP-history half of C09, written from the property text and the
LSP specification (textDocument/didOpen, didChange, didClose; `TextDocumentSyncKind.Full`),
not from the server's code.

  * A document's life is `didOpen … didClose`; "the text received" for a version is the
    text of `didOpen`, or for `didChange` under full sync the document after applying
    *all* `contentChanges` in order, i.e. the text of the **last** element (no element: no text).
  * "the highest-version text received, the latest among equals" = `IsLatestMax`.
-/
import AstGrepVerif.Model.Lsp

namespace AGV.Spec.Lsp

open AGV AGV.Lsp

/-- `m` is the element of `S` with the greatest version — the latest one among equals -/
def IsLatestMax (S : List (Version × Text)) (m : Version × Text) : Prop :=
  ∃ A B, S = A ++ m :: B ∧ (∀ p ∈ A, p.1 ≤ m.1) ∧ (∀ p ∈ B, p.1 < m.1)

/-- full sync: the document after a `didChange` is the text of the last content change; a
`didChange` without any content change carries no text -/
def changeText (ts : List Text) : Option Text := ts.getLast?

def isOpenOf (u : Uri) : Op → Bool
  | .open u' _ _ => decide (u' = u)
  | _ => false

def isCloseOf (u : Uri) : Op → Bool
  | .close u' => decide (u' = u)
  | _ => false

/-- the texts received by `didChange` for `u` up to (excluding) the first `didClose u` -/
def changesUntilClose (u : Uri) : List Op → List (Version × Text)
  | [] => []
  | .close u' :: rest => if u' = u then [] else changesUntilClose u rest
  | .change u' v ts :: rest =>
    if u' = u then
      match changeText ts with
      | some t => (v, t) :: changesUntilClose u rest
      | none => changesUntilClose u rest
    else changesUntilClose u rest
  | .open _ _ _ :: rest => changesUntilClose u rest

/-- is `u` closed in this stretch of history -/
def closedIn (u : Uri) (post : List Op) : Bool := post.any (isCloseOf u)

/-- everything ever received for `u`, in order (the *literal* reading of the property:
"the highest-version text received", over the whole history) -/
def received (u : Uri) : List Op → List (Version × Text)
  | [] => []
  | .open u' v t :: rest => if u' = u then (v, t) :: received u rest else received u rest
  | .change u' v ts :: rest =>
    if u' = u then
      match changeText ts with
      | some t => (v, t) :: received u rest
      | none => received u rest
    else received u rest
  | .close _ :: rest => received u rest

end AGV.Spec.Lsp
