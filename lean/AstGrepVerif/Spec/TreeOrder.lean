/-
Specifications for C19, written by structural recursion on the tree (no cursor, no machine):
post-order, level-order (by depth layers), outermost / innermost matches, the ancestor relation,
unique ids and well-formed ranges (`RangesWF`; `Tree.WF` of `Lemmas/MatchNodes.lean` is the boolean variant used by C02/C03).  `Tree.preorder` (the pre-order spec) is in `Model/Tree.lean`.
-/
import AstGrepVerif.Model.Tree

namespace AGV
namespace Tree

/-- `node_id()` is injective on the nodes of the subtree (the harness numbers nodes in pre-order,
the driver checks it on every registered tree) -/
def UniqueIds (t : Tree) : Prop := (t.preorder.map Tree.id).Nodup

mutual
/-- post-order: the children's subtrees left to right, then the node -/
def postorder : Tree → List Tree
  | .node i cs => postorderList cs ++ [.node i cs]
def postorderList : List Tree → List Tree
  | [] => []
  | t :: ts => t.postorder ++ postorderList ts
end

mutual
/-- the nodes exactly `d` edges below the node, left to right -/
def atDepth : Nat → Tree → List Tree
  | 0, t => [t]
  | d + 1, .node _ cs => atDepthList d cs
def atDepthList : Nat → List Tree → List Tree
  | _, [] => []
  | d, t :: ts => atDepth d t ++ atDepthList d ts
end

mutual
def height : Tree → Nat
  | .node _ cs => 1 + heightList cs
def heightList : List Tree → Nat
  | [] => 0
  | t :: ts => max t.height (heightList ts)
end

/-- layers `d, d+1, ..., d+k-1` concatenated -/
def layersFrom (t : Tree) : (k : Nat) → (d : Nat) → List Tree
  | 0, _ => []
  | k + 1, d => atDepth d t ++ layersFrom t k (d + 1)

/-- level-order: layer by layer from the top, each layer left to right -/
def levelorder (t : Tree) : List Tree := layersFrom t t.height 0

mutual
/-- the matching nodes that are not inside another matching node, in document order -/
def outermost (m : Tree → Bool) : Tree → List Tree
  | .node i cs => if m (.node i cs) then [.node i cs] else outermostList m cs
def outermostList (m : Tree → Bool) : List Tree → List Tree
  | [] => []
  | t :: ts => outermost m t ++ outermostList m ts
end

mutual
/-- the matching nodes that have no matching node inside, in post-order -/
def innermost (m : Tree → Bool) : Tree → List Tree
  | .node i cs =>
    let inner := innermostList m cs
    if inner.isEmpty && m (.node i cs) then [.node i cs] else inner
def innermostList (m : Tree → Bool) : List Tree → List Tree
  | [] => []
  | t :: ts => innermost m t ++ innermostList m ts
end

/-- `a` is a proper descendant of `b` -/
inductive Below : Tree → Tree → Prop where
  | child {a b : Tree} : a ∈ b.children → Below a b
  | step {a b c : Tree} : Below a b → b ∈ c.children → Below a c

/-- children's byte ranges are ordered and non-negative (tree-sitter contract, DESIGN 5.2) -/
def ChildrenOrdered (p : Tree) : Prop :=
  p.children.Pairwise (fun a b => a.stop ≤ b.start) ∧ ∀ c ∈ p.children, c.start ≤ c.stop

/-- children's byte ranges lie inside the parent's -/
def ChildrenNested (p : Tree) : Prop :=
  ∀ c ∈ p.children, p.start ≤ c.start ∧ c.stop ≤ p.stop

/-- well-formed ranges everywhere in the subtree -/
def RangesWF (t : Tree) : Prop := ∀ p ∈ t.preorder, ChildrenOrdered p ∧ ChildrenNested p

/-- the quantifier guard of the sibling clause -/
def NoZeroWidthChildren (p : Tree) : Prop := ∀ c ∈ p.children, c.start < c.stop

end Tree
end AGV
