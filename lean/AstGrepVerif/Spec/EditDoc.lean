/-
Specification for C10, written from the documentation (tree-sitter `api.h`: `TSPoint`, `TSInputEdit`,
`ts_tree_edit`; ast-grep `Edit { position, deleted_length, inserted_text }`), independently of the code.

* A `TSPoint` is (row, column): the row of a byte offset is the number of line breaks before it, the
  column is the number of BYTES between the start of its line and the offset.
* An edit description (`TSInputEdit`) of a change from `old` to `new` names the byte where the texts
  start to differ, the byte where the changed region ends in `old` and where it ends in `new`, and the
  points of these three offsets (the first two in `old`, the third in `new`); outside the region the two
  texts are the same.
* The text after a history of edits is obtained by applying the splices one after the other
  (`Spec.splice1` of `Spec/Splice.lean`).
-/
import AstGrepVerif.Spec.Splice

namespace AGV.Spec

/-- the line break byte -/
def LF : UInt8 := 0x0A

/-- `TSPoint` of byte offset `off` in `text` -/
def pointAt (text : List UInt8) (off : Nat) : Nat × Nat :=
  ((text.take off).count LF, ((text.take off).reverse.takeWhile (· ≠ LF)).length)

/-- the extent of a whole text (`pointAt` of its end) -/
def extent (text : List UInt8) : Nat × Nat := pointAt text text.length

/-- tree-sitter's `point_add`: walking `b` further from point `a` -/
def pointAdd (a b : Nat × Nat) : Nat × Nat :=
  if 0 < b.1 then (a.1 + b.1, b.2) else (a.1, a.2 + b.2)

/-- `(start, oldEnd, newEnd, startPoint, oldEndPoint, newEndPoint)` describes the change `old → new` -/
structure Describes (old new : List UInt8) (startByte oldEndByte newEndByte : Nat)
    (startPoint oldEndPoint newEndPoint : Nat × Nat) : Prop where
  old_range : startByte ≤ oldEndByte ∧ oldEndByte ≤ old.length
  new_range : startByte ≤ newEndByte ∧ newEndByte ≤ new.length
  same_before : new.take startByte = old.take startByte
  same_after : new.drop newEndByte = old.drop oldEndByte
  start_point : startPoint = pointAt old startByte
  old_end_point : oldEndPoint = pointAt old oldEndByte
  new_end_point : newEndPoint = pointAt new newEndByte

/-- the texts a history of splices goes through (the initial text excluded) -/
def spliceTrace {α : Type} (s : List α) : List (Edit α) → List (List α)
  | [] => []
  | e :: es => splice1 s e :: spliceTrace (splice1 s e) es

/-- the text after a history: the splices applied in order -/
def spliceSeq {α : Type} (s : List α) (es : List (Edit α)) : List α :=
  es.foldl splice1 s

end AGV.Spec
