/-
Helper lemmas about the template scanner (`create_template` / `split_first_meta_var`).
-/
import AstGrepVerif.Model.Template

set_option linter.unusedSimpArgs false
set_option linter.unusedVariables false

namespace AGV

theorem scan_skip (mc : UInt8) (tr : List Bytes) :
    ∀ (skip : Nat) (before frag rest : Bytes), skip ≤ rest.length →
      scanTemplate mc tr before frag skip rest =
        scanTemplate mc tr (before ++ rest.take skip) frag 0 (rest.drop skip) := by
  intro skip
  induction skip with
  | zero => intro before frag rest _; simp
  | succ n ih =>
    intro before frag rest h
    cases rest with
    | nil => simp at h
    | cons c cs =>
      simp only [scanTemplate, List.take_succ_cons, List.drop_succ_cons]
      rw [ih (before ++ [c]) frag cs (by simpa using h)]
      simp

/-- the variable a sigil run of length `k` followed by `name` denotes -/
def mkVar (tr : List Bytes) (k : Nat) (name : Bytes) : MetaVarExtract :=
  if k = 3 then .multiple name else if tr.contains name then .transformed name else .single name

theorem takeWhile_append_of_all {p : UInt8 → Bool} {name post : Bytes}
    (hall : name.all p = true) (hpost : ∀ b, post.head? = some b → p b = false) :
    (name ++ post).takeWhile p = name := by
  induction name with
  | nil =>
    cases post with
    | nil => rfl
    | cons b bs => simp [List.takeWhile, hpost b rfl]
  | cons a as ih =>
    simp only [List.all_cons, Bool.and_eq_true] at hall
    simp [List.takeWhile, hall.1, ih hall.2]

theorem splitFirst_run (mc : UInt8) (hmc : isValidMetaVarByte mc = false) (tr : List Bytes)
    (k : Nat) (hk : 1 ≤ k ∧ k ≤ 3) (name post : Bytes) (hne : name ≠ [])
    (hall : name.all isValidMetaVarByte = true)
    (hrec : isRecognisedName tr name = true)
    (hpost : ∀ b, post.head? = some b → isValidMetaVarByte b = false) :
    splitFirstMetaVar (List.replicate k mc ++ name ++ post) mc tr =
      some (mkVar tr k name, k + name.length) := by
  cases name with
  | nil => exact absurd rfl hne
  | cons a as =>
    have ha : isValidMetaVarByte a = true := by
      simp only [List.all_cons, Bool.and_eq_true] at hall; exact hall.1
    have ham : a ≠ mc := by intro h; subst h; rw [hmc] at ha; cases ha
    have htw := takeWhile_append_of_all hall hpost
    have hk' : k = 1 ∨ k = 2 ∨ k = 3 := by omega
    rcases hk' with rfl | rfl | rfl
    · have : countSigils mc (List.replicate 1 mc ++ (a :: as) ++ post) = (1, false) := by
        cases as <;> cases post <;> simp [countSigils, List.replicate, ham]
      simp only [splitFirstMetaVar, this]
      have hd : (List.replicate 1 mc ++ (a :: as) ++ post).drop 1 = (a :: as) ++ post := by
        simp [List.replicate]
      rw [hd, htw]
      simp [mkVar, hrec]
    · have : countSigils mc (List.replicate 2 mc ++ (a :: as) ++ post) = (2, false) := by
        simp [countSigils, List.replicate, ham]
      simp only [splitFirstMetaVar, this]
      have hd : (List.replicate 2 mc ++ (a :: as) ++ post).drop 2 = (a :: as) ++ post := by
        simp [List.replicate]
      rw [hd, htw]
      simp [mkVar, hrec]
    · have : countSigils mc (List.replicate 3 mc ++ (a :: as) ++ post) = (3, true) := by
        simp [countSigils, List.replicate]
      simp only [splitFirstMetaVar, this]
      have hd : (List.replicate 3 mc ++ (a :: as) ++ post).drop 3 = (a :: as) ++ post := by
        simp [List.replicate]
      rw [hd, htw]
      simp [mkVar, hrec]


/-- One step of the scanner at a recognised variable: the literal fragment collected so far
is closed, the variable is recorded with the indentation of the text before it, and scanning
resumes right after the variable's name. -/
theorem scan_var_step (mc : UInt8) (hmc : isValidMetaVarByte mc = false) (tr : List Bytes)
    (before frag : Bytes) (k : Nat) (hk : 1 ≤ k ∧ k ≤ 3) (name post : Bytes) (hne : name ≠ [])
    (hall : name.all isValidMetaVarByte = true)
    (hrec : isRecognisedName tr name = true)
    (hpost : ∀ b, post.head? = some b → isValidMetaVarByte b = false) :
    scanTemplate mc tr before frag 0 (List.replicate k mc ++ name ++ post) =
      (frag :: (scanTemplate mc tr (before ++ List.replicate k mc ++ name) [] 0 post).1,
       (mkVar tr k name, getIndentAtOffset before) ::
         (scanTemplate mc tr (before ++ List.replicate k mc ++ name) [] 0 post).2) := by
  have hsplit := splitFirst_run mc hmc tr k hk name post hne hall hrec hpost
  obtain ⟨k', rfl⟩ : ∃ k', k = k' + 1 := ⟨k - 1, by omega⟩
  have hshape : List.replicate (k' + 1) mc ++ name ++ post
      = mc :: (List.replicate k' mc ++ name ++ post) := by
    simp [List.replicate_succ]
  rw [hshape] at hsplit ⊢
  simp only [scanTemplate, ↓reduceIte, hsplit]
  have hlen : k' + 1 + name.length - 1 ≤ (List.replicate k' mc ++ name ++ post).length := by
    simp only [List.length_append, List.length_replicate]; omega
  rw [scan_skip mc tr _ _ _ _ hlen]
  have h1 : k' + 1 + name.length - 1 = k' + name.length := by omega
  have htake : (List.replicate k' mc ++ name ++ post).take (k' + name.length)
      = List.replicate k' mc ++ name := by
    have : k' + name.length = (List.replicate k' mc ++ name).length := by simp
    rw [this, List.take_left']
    rfl
  have hdrop : (List.replicate k' mc ++ name ++ post).drop (k' + name.length) = post := by
    have : k' + name.length = (List.replicate k' mc ++ name).length := by simp
    rw [this, List.drop_left']
    rfl
  rw [h1, htake, hdrop]
  simp [List.replicate_succ]

/-- A template in which no sigil is immediately followed by a name character
(`[A-Z0-9_]`) — e.g. `$lower`, a lone `$`, `$$`, `$ x`, `a$` — is pure text: one
fragment, no variable. -/
def NoVarStart (mc : UInt8) (t : Bytes) : Prop :=
  ∀ pre post b, t = pre ++ mc :: b :: post → isValidMetaVarByte b = false

theorem NoVarStart.tail {mc c : UInt8} {t : Bytes} (h : NoVarStart mc (c :: t)) :
    NoVarStart mc t := by
  intro pre post b ht
  exact h (c :: pre) post b (by simp [ht])

theorem splitFirst_none_of_noVarStart (mc : UInt8) (tr : List Bytes) (cs : Bytes)
    (h : NoVarStart mc (mc :: cs)) : splitFirstMetaVar (mc :: cs) mc tr = none := by
  unfold splitFirstMetaVar
  -- whatever the sigil count, the byte after the last counted sigil is not a name byte
  have key : ∀ b rest, (mc :: cs).drop (countSigils mc (mc :: cs)).1 = b :: rest →
      isValidMetaVarByte b = false := by
    intro b rest hd
    cases cs with
    | nil => simp [countSigils] at hd
    | cons x cs' =>
      cases cs' with
      | nil =>
        by_cases hx : x = mc
        · subst hx; simp [countSigils] at hd
        · simp [countSigils, hx] at hd
          exact h [] [] b (by simp [hd.1])
      | cons y r =>
        by_cases hx : x = mc
        · subst hx
          by_cases hy : y = x
          · subst hy
            simp [countSigils] at hd
            exact h [y, y] rest b (by simp [hd])
          · simp [countSigils, hy] at hd
            exact h [x] r b (by simp [hd.1])
        · simp [countSigils, hx] at hd
          exact h [] (y :: r) b (by simp [hd.1])
  cases hdrop : (mc :: cs).drop (countSigils mc (mc :: cs)).1 with
  | nil => simp [hdrop]
  | cons b rest =>
    have := key b rest hdrop
    simp [hdrop, List.takeWhile, this]

theorem scan_noVarStart (mc : UInt8) (tr : List Bytes) :
    ∀ (rest before frag : Bytes), NoVarStart mc rest →
      scanTemplate mc tr before frag 0 rest = ([frag ++ rest], []) := by
  intro rest
  induction rest with
  | nil => intro before frag _; simp [scanTemplate]
  | cons c cs ih =>
    intro before frag h
    by_cases hc : c = mc
    · subst hc
      simp only [scanTemplate, ↓reduceIte, splitFirst_none_of_noVarStart c tr cs h]
      rw [ih _ _ h.tail]; simp
    · simp only [scanTemplate, hc, ↓reduceIte]
      rw [ih _ _ h.tail]; simp

theorem scan_literal_prefix (mc : UInt8) (tr : List Bytes) :
    ∀ (pre before frag rest : Bytes), mc ∉ pre →
      scanTemplate mc tr before frag 0 (pre ++ rest) =
        scanTemplate mc tr (before ++ pre) (frag ++ pre) 0 rest := by
  intro pre
  induction pre with
  | nil => intro before frag rest _; simp
  | cons c cs ih =>
    intro before frag rest h
    simp only [List.mem_cons, not_or] at h
    have hc : c ≠ mc := fun h' => h.1 h'.symm
    simp only [List.cons_append, scanTemplate, hc, ↓reduceIte]
    rw [ih _ _ _ h.2]; simp

/-- the current scanner is the pinned one restricted to recognised names -/
theorem splitFirst_eq_pinned (src : Bytes) (mc : UInt8) (tr : List Bytes) :
    splitFirstMetaVar src mc tr =
      if isRecognisedName tr ((src.drop (countSigils mc src).1).takeWhile isValidMetaVarByte) = true
      then splitFirstMetaVarPinned src mc tr else none := by
  unfold splitFirstMetaVar splitFirstMetaVarPinned
  simp only
  cases isRecognisedName tr ((src.drop (countSigils mc src).1).takeWhile isValidMetaVarByte) <;>
    simp

/-- whatever the current scanner recognises, the pinned one recognised identically -/
theorem splitFirst_pinned_of_some {src : Bytes} {mc : UInt8} {tr : List Bytes}
    {r : MetaVarExtract × Nat} (h : splitFirstMetaVar src mc tr = some r) :
    splitFirstMetaVarPinned src mc tr = some r := by
  rw [splitFirst_eq_pinned] at h
  split at h
  · exact h
  · cases h

/-- structural facts: every variable name is a non-empty run of name bytes, and it is a
recognised name (valid first byte, or a declared transformation) -/
theorem splitFirst_name_valid {mc : UInt8} {tr : List Bytes} {src : Bytes} {v : MetaVarExtract}
    {n : Nat} (h : splitFirstMetaVar src mc tr = some (v, n)) :
    v.usedVar ≠ [] ∧ v.usedVar.all isValidMetaVarByte = true ∧ 2 ≤ n ∧
      isRecognisedName tr v.usedVar = true := by
  unfold splitFirstMetaVar at h
  simp only at h
  split at h
  · cases h
  · next hlen =>
    split at h
    · cases h
    · next hrec =>
      have hrec' : isRecognisedName tr
          ((src.drop (countSigils mc src).1).takeWhile isValidMetaVarByte) = true := by
        simpa using hrec
      have hcs : 1 ≤ (countSigils mc src).1 := by
        unfold countSigils; split <;> (try split) <;> (try split) <;> simp
      have hval : ((src.drop (countSigils mc src).1).takeWhile isValidMetaVarByte).all
          isValidMetaVarByte = true := by
        exact List.all_takeWhile
      have hne : (src.drop (countSigils mc src).1).takeWhile isValidMetaVarByte ≠ [] := by
        intro h0; rw [h0] at hlen; simp at hlen
      have hl : 1 ≤ ((src.drop (countSigils mc src).1).takeWhile isValidMetaVarByte).length := by
        cases hh : (src.drop (countSigils mc src).1).takeWhile isValidMetaVarByte with
        | nil => exact absurd hh hne
        | cons _ _ => simp
      simp only [Option.some.injEq, Prod.mk.injEq] at h
      obtain ⟨hv, hn⟩ := h
      subst hv hn
      refine ⟨?_, ?_, by omega, ?_⟩ <;> (repeat' split) <;> simp only [MetaVarExtract.usedVar] <;>
        first | exact hne | exact hval | exact hrec'

/-- every slot the scanner records comes from a successful `split_first_meta_var` -/
theorem scan_vars_split (mc : UInt8) (tr : List Bytes) : ∀ (rest before frag : Bytes) (skip : Nat),
    ∀ x ∈ (scanTemplate mc tr before frag skip rest).2,
      ∃ src n, splitFirstMetaVar src mc tr = some (x.1, n) := by
  intro rest
  induction rest with
  | nil => intro before frag skip x hx; simp [scanTemplate] at hx
  | cons c cs ih =>
    intro before frag skip x hx
    cases skip with
    | succ n =>
      simp only [scanTemplate] at hx
      exact ih _ _ _ x hx
    | zero =>
      simp only [scanTemplate] at hx
      split at hx
      · split at hx
        · rename_i mv skipped hs
          simp only [List.mem_cons] at hx
          rcases hx with hx | hx
          · subst hx
            exact ⟨_, _, hs⟩
          · exact ih _ _ _ x hx
        · exact ih _ _ _ x hx
      · exact ih _ _ _ x hx

/-- a name byte that is not a valid first byte is a digit, and conversely -/
theorem digit_iff_valid_not_first (b : UInt8) :
    (0x30 ≤ b ∧ b ≤ 0x39) ↔ (isValidMetaVarByte b = true ∧ isValidFirstByte b = false) := by
  simp only [isValidMetaVarByte, isValidFirstByte, Bool.or_eq_true, Bool.and_eq_true,
    decide_eq_true_eq, beq_iff_eq, Bool.or_eq_false_iff, Bool.and_eq_false_iff,
    decide_eq_false_iff_not, beq_eq_false_iff_ne, ne_eq, UInt8.le_iff_toNat_le,
    ← UInt8.toNat_inj]
  have e1 : (0x30 : UInt8).toNat = 0x30 := by decide
  have e2 : (0x39 : UInt8).toNat = 0x39 := by decide
  have e3 : (0x41 : UInt8).toNat = 0x41 := by decide
  have e4 : (0x5A : UInt8).toNat = 0x5A := by decide
  have e5 : (0x5F : UInt8).toNat = 0x5F := by decide
  rw [e1, e2, e3, e4, e5]
  omega

/-- a candidate name that is not recognised (digit-first and not a transformation) after a
sigil run: `split_first_meta_var` finds no variable -/
theorem splitFirst_unrecognised_run (mc : UInt8) (hmc : isValidMetaVarByte mc = false)
    (tr : List Bytes) (k : Nat) (hk : 1 ≤ k ∧ k ≤ 3) (name post : Bytes) (hne : name ≠ [])
    (hall : name.all isValidMetaVarByte = true)
    (hrec : isRecognisedName tr name = false)
    (hpost : ∀ b, post.head? = some b → isValidMetaVarByte b = false) :
    splitFirstMetaVar (List.replicate k mc ++ name ++ post) mc tr = none := by
  cases name with
  | nil => exact absurd rfl hne
  | cons a as =>
    have ha : isValidMetaVarByte a = true := by
      simp only [List.all_cons, Bool.and_eq_true] at hall; exact hall.1
    have ham : a ≠ mc := by intro h; subst h; rw [hmc] at ha; cases ha
    have htw := takeWhile_append_of_all hall hpost
    have hk' : k = 1 ∨ k = 2 ∨ k = 3 := by omega
    rcases hk' with rfl | rfl | rfl
    · have : countSigils mc (List.replicate 1 mc ++ (a :: as) ++ post) = (1, false) := by
        cases as <;> cases post <;> simp [countSigils, List.replicate, ham]
      simp only [splitFirstMetaVar, this]
      have hd : (List.replicate 1 mc ++ (a :: as) ++ post).drop 1 = (a :: as) ++ post := by
        simp [List.replicate]
      rw [hd, htw]
      simp [hrec]
    · have : countSigils mc (List.replicate 2 mc ++ (a :: as) ++ post) = (2, false) := by
        simp [countSigils, List.replicate, ham]
      simp only [splitFirstMetaVar, this]
      have hd : (List.replicate 2 mc ++ (a :: as) ++ post).drop 2 = (a :: as) ++ post := by
        simp [List.replicate]
      rw [hd, htw]
      simp [hrec]
    · have : countSigils mc (List.replicate 3 mc ++ (a :: as) ++ post) = (3, true) := by
        simp [countSigils, List.replicate]
      simp only [splitFirstMetaVar, this]
      have hd : (List.replicate 3 mc ++ (a :: as) ++ post).drop 3 = (a :: as) ++ post := by
        simp [List.replicate]
      rw [hd, htw]
      simp [hrec]

/-- One step of the scanner at an unrecognised candidate (`$100`, `$$1A`, `$$$9`): every sigil of
the run and the whole candidate name go to the literal fragment, no slot is recorded, and
scanning resumes right after the name. -/
theorem scan_unrecognised_step (mc : UInt8) (hmc : isValidMetaVarByte mc = false) (tr : List Bytes)
    (name post : Bytes) (hne : name ≠ [])
    (hall : name.all isValidMetaVarByte = true)
    (hrec : isRecognisedName tr name = false)
    (hpost : ∀ b, post.head? = some b → isValidMetaVarByte b = false) :
    ∀ (k : Nat), k ≤ 3 → ∀ (before frag : Bytes),
    scanTemplate mc tr before frag 0 (List.replicate k mc ++ name ++ post) =
      scanTemplate mc tr (before ++ List.replicate k mc ++ name)
        (frag ++ List.replicate k mc ++ name) 0 post := by
  have hnm : mc ∉ name := by
    intro hm
    have := List.all_eq_true.mp hall mc hm
    rw [hmc] at this; cases this
  intro k
  induction k with
  | zero =>
    intro _ before frag
    simp only [List.replicate_zero, List.nil_append, List.append_nil]
    exact scan_literal_prefix mc tr name before frag post hnm
  | succ k ih =>
    intro hk before frag
    have hnone := splitFirst_unrecognised_run mc hmc tr (k + 1) ⟨by omega, hk⟩ name post hne hall hrec hpost
    have hshape : List.replicate (k + 1) mc ++ name ++ post
        = mc :: (List.replicate k mc ++ name ++ post) := by
      simp [List.replicate_succ]
    rw [hshape] at hnone ⊢
    simp only [scanTemplate, ↓reduceIte, hnone]
    rw [ih (by omega)]
    simp [List.replicate_succ]

end AGV
