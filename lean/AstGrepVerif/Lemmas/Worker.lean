/-
Helper lemmas for C17: interleavings are permutations of the concatenation; the JSON frame
state machine prints the canonical rendering of the records in arrival order.
-/
import AstGrepVerif.Model.Worker
import AstGrepVerif.Spec.JsonOut

set_option linter.unusedSimpArgs false
set_option linter.unusedVariables false

namespace AGV.Worker

open AGV AGV.JsonFrameMin AGV.Spec.JsonOut

/-! ## Interleavings -/

theorem flatten_all_nil {α : Type} : ∀ (ls : List (List α)), (∀ l ∈ ls, l = []) → ls.flatten = []
  | [], _ => rfl
  | l :: ls, h => by
    have h1 : l = [] := h l (by simp)
    have h2 := flatten_all_nil ls (fun l' hl' => h l' (by simp [hl']))
    simp [h1, h2]

/-- any interleaving of lists is a permutation of their concatenation -/
theorem interleave_perm {α : Type} {ls : List (List α)} {out : List α}
    (h : Interleave ls out) : out.Perm ls.flatten := by
  induction h with
  | done ls hall => rw [flatten_all_nil ls hall]
  | step pre x l post out _ ih =>
    have e1 : (pre ++ (x :: l) :: post).flatten = pre.flatten ++ x :: (l ++ post.flatten) := by
      simp
    have e2 : (pre ++ l :: post).flatten = pre.flatten ++ (l ++ post.flatten) := by simp
    rw [e1]
    rw [e2] at ih
    exact (List.Perm.cons x ih).trans List.perm_middle.symm

/-- the sequential schedule is an interleaving (non-vacuity of `Interleave`) -/
theorem interleave_single {α : Type} : ∀ (l : List α), Interleave [l] l
  | [] => Interleave.done [[]] (by simp)
  | x :: l => Interleave.step [] x l [] l (interleave_single l)

/-- thread after thread is an interleaving -/
theorem interleave_flatten {α : Type} : ∀ (ls : List (List α)), Interleave ls ls.flatten
  | [] => Interleave.done [] (by simp)
  | [] :: ls => by
    have ih := interleave_flatten ls
    -- prepend an exhausted thread
    have : ∀ {ls : List (List α)} {out}, Interleave ls out → Interleave ([] :: ls) out := by
      intro ls out h
      induction h with
      | done ls hall => exact Interleave.done _ (by
          intro l hl; simp at hl; rcases hl with rfl | hl
          · rfl
          · exact hall l hl)
      | step pre x l post out _ ih => exact Interleave.step ([] :: pre) x l post out ih
    simpa using this ih
  | (x :: l) :: ls => by
    have ih := interleave_flatten (l :: ls)
    have := Interleave.step [] x l ls (l ++ ls.flatten) (by simpa using ih)
    simpa using this

/-- the executable check is sound -/
theorem isInterleaveAux_sound {α : Type} [DecidableEq α] :
    ∀ (fuel : Nat) (ls : List (List α)) (out : List α),
      isInterleaveAux fuel ls out = true → Interleave ls out
  | _, ls, [], h => by
    unfold isInterleaveAux at h
    refine Interleave.done ls ?_
    intro l hl
    have := (List.all_eq_true.mp h) l hl
    simpa using this
  | 0, _, _ :: _, h => by simp [isInterleaveAux] at h
  | fuel + 1, ls, x :: out, h => by
    unfold isInterleaveAux at h
    rw [List.any_eq_true] at h
    obtain ⟨i, hi, hb⟩ := h
    have hlt : i < ls.length := by simpa using hi
    cases hget : ls[i]? with
    | none => simp [hget] at hb
    | some li =>
      cases li with
      | nil => simp [hget] at hb
      | cons y l =>
        simp only [hget, Bool.and_eq_true, decide_eq_true_eq] at hb
        obtain ⟨hy, hrec⟩ := hb
        subst hy
        have ih := isInterleaveAux_sound fuel (ls.set i l) out hrec
        have hgi : ls[i] = y :: l := by
          have := List.getElem?_eq_some_iff.mp hget
          exact this.2
        -- decompose ls around index i
        have hdec : ls = ls.take i ++ (y :: l) :: ls.drop (i + 1) := by
          conv => lhs; rw [← List.take_append_drop i ls]
          rw [List.drop_eq_getElem_cons hlt, hgi]
        have hset : ls.set i l = ls.take i ++ l :: ls.drop (i + 1) := by
          rw [List.set_eq_take_append_cons_drop]
          simp [hlt]
        rw [hdec]
        rw [hset] at ih
        exact Interleave.step _ y l _ out ih

theorem isInterleave_sound {α : Type} [DecidableEq α] (ls : List (List α)) (out : List α)
    (h : isInterleave ls out = true) : Interleave ls out :=
  isInterleaveAux_sound _ _ _ h

/-! ## The frame -/

theorem printDocsTail_append (s : Style) (a b : List Record) :
    printDocsTail s (a ++ b) = printDocsTail s a ++ printDocsTail s b := by
  induction a with
  | nil => simp [printDocsTail]
  | cons d ds ih => simp [printDocsTail, ih, List.append_assoc]

theorem printDocs_cons_append (s : Style) (d : Record) (ds b : List Record) :
    printDocs s (d :: ds ++ b) = printDocs s (d :: ds) ++ printDocsTail s b := by
  simp [printDocs, printDocsTail_append, List.append_assoc]

theorem printDocsTail_cons (s : Style) (d : Record) (ds : List Record) :
    printDocsTail s (d :: ds) = docSep s ++ printDocs s (d :: ds) := by
  simp [printDocsTail, printDocs, List.append_assoc]

theorem procSep_eq_docSep (s : Style) : procSep s = docSep s := by cases s <;> rfl

/-- a buffer is empty exactly when its item has no records (records are non-empty) -/
theorem printDocs_isEmpty (s : Style) (docs : List Record) (hne : ∀ r ∈ docs, r ≠ []) :
    (printDocs s docs).isEmpty = docs.isEmpty := by
  cases docs with
  | nil => rfl
  | cons d ds =>
    have hd : d ≠ [] := hne d (by simp)
    cases d with
    | nil => exact absurd rfl hd
    | cons b bs => simp [printDocs]

theorem printDocs_cons_ne_nil (s : Style) (d : Record) (ds : List Record) (hd : d ≠ []) :
    printDocs s (d :: ds) ≠ [] := by
  cases d with
  | nil => exact absurd rfl hd
  | cons b bs => simp [printDocs]

/-- once something has been printed, every further item appends `sep ++ record` for each of
its records -/
theorem fold_matched (s : Style) :
    ∀ (items : List Item) (p : Printer), p.matched = true →
      (∀ it ∈ items, ∀ r ∈ it.docs, r ≠ []) →
      (items.map (Item.buffer s)).foldl (process s) p =
        { out := p.out ++ printDocsTail s (items.flatMap (·.docs)), matched := true }
  | [], p, hm, _ => by cases p; simp_all [printDocsTail]
  | it :: items, p, hm, hne => by
    have hne' : ∀ it' ∈ items, ∀ r ∈ it'.docs, r ≠ [] := fun it' h => hne it' (by simp [h])
    have hit : ∀ r ∈ it.docs, r ≠ [] := hne it (by simp)
    simp only [List.map_cons, List.foldl_cons, List.flatMap_cons]
    cases hdocs : it.docs with
    | nil =>
      have : process s p (Item.buffer s it) = p := by
        simp [process, Item.buffer, hdocs, printDocs]
      rw [this, fold_matched s items p hm hne']
      simp
    | cons d ds =>
      have hb : printDocs s (d :: ds) ≠ [] :=
        printDocs_cons_ne_nil s d ds (hit d (by simp [hdocs]))
      have hstep : process s p (Item.buffer s it) =
          { out := p.out ++ docSep s ++ printDocs s (d :: ds), matched := true } := by
        simp [process, hb, hm, procSep_eq_docSep, Item.buffer, hdocs]
      rw [hstep, fold_matched s items _ rfl hne']
      simp [printDocsTail, printDocs, printDocsTail_append, List.append_assoc]

/-- what `process` writes in front of the very first non-empty buffer -/
def firstPrefix (s : Style) : Bytes := if s = .pretty then [NL] else []

theorem fold_unmatched (s : Style) :
    ∀ (items : List Item) (p : Printer), p.matched = false →
      (∀ it ∈ items, ∀ r ∈ it.docs, r ≠ []) →
      (items.map (Item.buffer s)).foldl (process s) p =
        match items.flatMap (·.docs) with
        | [] => p
        | d :: ds => { out := p.out ++ firstPrefix s ++ printDocs s (d :: ds), matched := true }
  | [], p, _, _ => by simp
  | it :: items, p, hm, hne => by
    have hne' : ∀ it' ∈ items, ∀ r ∈ it'.docs, r ≠ [] := fun it' h => hne it' (by simp [h])
    have hit : ∀ r ∈ it.docs, r ≠ [] := hne it (by simp)
    simp only [List.map_cons, List.foldl_cons, List.flatMap_cons]
    cases hdocs : it.docs with
    | nil =>
      have : process s p (Item.buffer s it) = p := by
        simp [process, Item.buffer, hdocs, printDocs]
      rw [this, fold_unmatched s items p hm hne']
      simp
    | cons d ds =>
      have hb : printDocs s (d :: ds) ≠ [] :=
        printDocs_cons_ne_nil s d ds (hit d (by simp [hdocs]))
      have hstep : process s p (Item.buffer s it) =
          { out := p.out ++ firstPrefix s ++ printDocs s (d :: ds), matched := true } := by
        simp [process, hb, hm, firstPrefix, Item.buffer, hdocs]
      rw [hstep, fold_matched s items _ rfl hne']
      simp [printDocsTail, printDocs, printDocsTail_append, List.append_assoc]

theorem printDocs_eq_joinSep (s : Style) : ∀ (rs : List Record),
    printDocs s rs = joinSep (docSep s) rs
  | [] => rfl
  | [r] => by simp [printDocs, printDocsTail, joinSep]
  | r :: r' :: rs => by
    have ih := printDocs_eq_joinSep s (r' :: rs)
    simp only [printDocs, printDocsTail, joinSep] at ih ⊢
    rw [← ih]
    simp [List.append_assoc]

/-- **frame theorem**: whatever the arrival order, the consumer prints the canonical rendering
of the arrived records, in arrival order -/
theorem consume_eq_render (s : Style) (items : List Item)
    (hne : ∀ it ∈ items, ∀ r ∈ it.docs, r ≠ []) :
    (consume s (items.map (Item.buffer s))).out = render s (items.flatMap (·.docs)) := by
  unfold consume
  have hm : (beforePrint s Printer.init).matched = false := by
    cases s <;> simp [beforePrint, Printer.init]
  rw [fold_unmatched s items _ hm hne]
  cases hR : items.flatMap (·.docs) with
  | nil =>
    cases s <;> rfl
  | cons d ds =>
    cases s <;>
      simp only [afterPrint, beforePrint, Printer.init, render, firstPrefix, printDocs_eq_joinSep,
        docSep, reduceCtorEq, ↓reduceIte, Bool.and_true, Bool.true_and, Bool.and_false,
        decide_true, decide_false, List.append_assoc, List.nil_append, List.cons_append,
        List.append_nil] <;> rfl

/-! ## JSON lines are uniquely decodable -/

theorem splitNL_line : ∀ (r : Bytes), NL ∉ r → splitNL r = [r]
  | [], _ => rfl
  | b :: bs, h => by
    have hb : b ≠ NL := fun e => h (by simp [e])
    have hbs : NL ∉ bs := fun m => h (List.mem_cons_of_mem _ m)
    simp [splitNL, hb, splitNL_line bs hbs]

theorem splitNL_append_nl : ∀ (r rest : Bytes), NL ∉ r →
    splitNL (r ++ NL :: rest) = r :: splitNL rest
  | [], rest, _ => by simp [splitNL]
  | b :: bs, rest, h => by
    have hb : b ≠ NL := fun e => h (by simp [e])
    have hbs : NL ∉ bs := fun m => h (List.mem_cons_of_mem _ m)
    simp [splitNL, hb, splitNL_append_nl bs rest hbs]

theorem splitNL_joinSep : ∀ (r : Record) (rs : List Record), (∀ x ∈ r :: rs, NL ∉ x) →
    splitNL (joinSep [NL] (r :: rs)) = r :: rs
  | r, [], h => by simpa [joinSep] using splitNL_line r (h r (by simp))
  | r, r' :: rs, h => by
    have hr : NL ∉ r := h r (by simp)
    have ih := splitNL_joinSep r' rs (fun x hx => h x (List.mem_cons_of_mem _ hx))
    simp only [joinSep]
    have : r ++ [NL] ++ joinSep [NL] (r' :: rs) = r ++ NL :: joinSep [NL] (r' :: rs) := by simp
    rw [this, splitNL_append_nl r _ hr, ih]

theorem joinSep_cons_ne_nil (sep : Bytes) (r : Record) (rs : List Record) (hr : r ≠ []) :
    joinSep sep (r :: rs) ≠ [] := by
  cases r with
  | nil => exact absurd rfl hr
  | cons b bs => cases rs <;> simp [joinSep]

/-! ## Sums and counts -/

theorem foldl_add_eq_sum : ∀ (l : List Nat) (a : Nat), l.foldl (· + ·) a = a + l.sum
  | [], a => by simp
  | x :: l, a => by simp [List.foldl_cons, foldl_add_eq_sum l (a + x), Nat.add_assoc]

theorem sum_map_length_eq {α : Type} : ∀ (ls : List (List α)),
    (ls.map (·.length)).sum = ls.flatten.length
  | [] => rfl
  | l :: ls => by
    have ih := sum_map_length_eq ls
    simp only [List.map_cons, List.sum_cons, List.flatten_cons, List.length_append, ih]

theorem sum_map_filter_length {α : Type} (p : α → Bool) : ∀ (ls : List (List α)),
    (ls.map (fun l => (l.filter p).length)).sum = (ls.flatten.filter p).length
  | [] => rfl
  | l :: ls => by
    have ih := sum_map_filter_length p ls
    simp only [List.map_cons, List.sum_cons, List.flatten_cons, List.filter_append,
      List.length_append, ih]

theorem flatten_map_threadSends {F : Type} (produce : Produce F) (parts : List (List F)) :
    (parts.map (threadSends produce)).flatten = parts.flatten.flatMap (fileItems produce) := by
  induction parts with
  | nil => rfl
  | cons p ps ih => simp [threadSends, ih, List.flatMap_append]

/-- whatever order a thread sends the items of each of its files in, it sends the items of
its files -/
theorem sendsOf_perm {F : Type} {produce : Produce F} {p : List F} {s : List Item}
    (h : SendsOf produce p s) : s.Perm (p.flatMap (fileItems produce)) := by
  induction h with
  | nil => exact List.Perm.refl _
  | cons f fs its rest hp _ ih =>
    simp only [List.flatMap_cons]
    exact List.Perm.append hp ih

theorem sendsOf_canonical {F : Type} (produce : Produce F) : ∀ (p : List F),
    SendsOf produce p (threadSends produce p)
  | [] => SendsOf.nil
  | f :: fs => by
    have := SendsOf.cons f fs (fileItems produce f) (threadSends produce fs)
      (List.Perm.refl _) (sendsOf_canonical produce fs)
    simpa [threadSends] using this

theorem sends_flatten_perm {F : Type} {produce : Produce F} {parts : List (List F)}
    {sends : List (List Item)} (h : AllSends produce parts sends) :
    sends.flatten.Perm (parts.flatten.flatMap (fileItems produce)) := by
  induction h with
  | nil => exact List.Perm.refl _
  | cons hs _ ih =>
    simp only [List.flatten_cons, List.flatMap_append]
    exact List.Perm.append (sendsOf_perm hs) ih

/-- the items that arrive are the items of the files, each once -/
theorem arrival_perm {F : Type} {produce : Produce F} {files : List F} {r : Run F}
    (hv : r.Valid produce files) : r.arrival.Perm (files.flatMap (fileItems produce)) :=
  ((interleave_perm hv.channel).trans (sends_flatten_perm hv.produced)).trans
    (List.Perm.flatMap_right _ hv.partition)

theorem flatten_map_map {α β : Type} (f : α → β) (parts : List (List α)) :
    (parts.map (·.map f)).flatten = parts.flatten.map f := by
  induction parts with
  | nil => rfl
  | cons p ps ih =>
    simp only [List.map_cons, List.flatten_cons, List.map_append, ih]

theorem flatMap_flatMap_docs {F : Type} (produce : Produce F) (files : List F) :
    (files.flatMap (fileItems produce)).flatMap (·.docs) = files.flatMap (fileRecords produce) := by
  induction files with
  | nil => rfl
  | cons f fs ih => simp [List.flatMap_cons, List.flatMap_append, ih, fileRecords]

end AGV.Worker
