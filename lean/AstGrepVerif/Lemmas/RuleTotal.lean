/-
Termination of the rule evaluator, instantiated (`Lemmas/RuleFuelReg.lean` is the abstract part):
the environment invariant "the single bindings are keyed, without repetition, by names of a fixed
list `K`" (which bounds the number of bindings the constraint loop of a global utility walks over),
a computable rank for registries, and the statement for whole documents.
-/
import AstGrepVerif.Lemmas.RuleFuelReg
import AstGrepVerif.Lemmas.TreeClosed
import AstGrepVerif.Lemmas.RuleRefVars
import AstGrepVerif.Lemmas.MatchNodes

set_option linter.unusedSimpArgs false
set_option linter.unusedVariables false

namespace AGV.RuleFuelReg

open AGV AGV.RuleFuel

/-! ## the invariant: single bindings keyed by distinct names of `K` -/

def keysOf {β} (l : List (Name × β)) : List Name := l.map (·.1)

/-- the single bindings are keyed by pairwise distinct names, all in `K` -/
def EnvK (K : List Name) (env : Env) : Prop :=
  (∀ v ∈ keysOf env.single, v ∈ K) ∧ (keysOf env.single).Nodup

theorem nodup_subset_length : ∀ (l K : List Name), l.Nodup → (∀ v ∈ l, v ∈ K) → l.length ≤ K.length
  | [], K, _, _ => Nat.zero_le _
  | x :: xs, K, hnd, hsub => by
    have hx : x ∈ K := hsub x List.mem_cons_self
    have hnd' := List.nodup_cons.1 hnd
    have hsub' : ∀ v ∈ xs, v ∈ K.erase x := by
      intro v hv
      have hne : v ≠ x := fun e => hnd'.1 (e ▸ hv)
      exact (List.mem_erase_of_ne hne).2 (hsub v (List.mem_cons_of_mem _ hv))
    have := nodup_subset_length xs (K.erase x) hnd'.2 hsub'
    have hlen := List.length_erase_of_mem hx
    have : K.length ≥ 1 := List.length_pos_of_mem hx
    simp only [List.length_cons]; omega

theorem EnvK.length_le {K : List Name} {env : Env} (h : EnvK K env) : env.single.length ≤ K.length := by
  have := nodup_subset_length _ K h.2 h.1
  simpa [keysOf] using this

theorem EnvK.empty (K : List Name) : EnvK K Env.empty := ⟨fun v hv => (by cases hv), List.nodup_nil⟩

theorem EnvK.addLabel {K : List Name} {env : Env} (h : EnvK K env) (m : Tree) :
    EnvK K (env.addLabel secondaryLabel m) := by
  unfold Env.addLabel; split <;> exact h

theorem keysOf_ainsert {β} (k : Name) (v : β) : ∀ l : List (Name × β),
    keysOf (ainsert k v l) = if k ∈ keysOf l then keysOf l else keysOf l ++ [k]
  | [] => by simp [ainsert, keysOf]
  | (k', v') :: rest => by
    have ih := keysOf_ainsert k v rest
    simp only [ainsert]
    by_cases he : k' = k
    · subst he; simp [keysOf]
    · have hne : ¬ k = k' := fun e => he e.symm
      simp only [he, ↓reduceIte]
      simp only [keysOf, List.map_cons, List.mem_cons, hne, false_or] at ih ⊢
      rw [ih]
      by_cases hk : k ∈ List.map (fun x => x.fst) rest <;> simp [hk]

theorem nodup_keys_ainsert {β} (k : Name) (v : β) (l : List (Name × β)) (h : (keysOf l).Nodup) :
    (keysOf (ainsert k v l)).Nodup := by
  rw [keysOf_ainsert]
  split
  · exact h
  · next hk =>
    rw [List.nodup_append]
    refine ⟨h, by simp, ?_⟩
    intro a ha b hb
    simp only [List.mem_singleton] at hb
    subst hb
    intro e; exact hk (e ▸ ha)

theorem map_ite {α β} (c : Prop) [Decidable c] (f : α → β) (a : α) :
    Option.map f (if c then some a else none) = if c then some (f a) else none := by
  split <;> rfl

/-- restriction of the single bindings only (the multi bindings carry the `secondary` label) -/
def restrictSingle (V : Name → Bool) (env : Env) : Env :=
  ⟨restrictL V env.single, env.multi, env.transformed⟩

theorem matchNode_restrictSingle (s : Strictness) (src : Bytes) (V : Name → Bool) (f : Nat)
    (p : PNode) (c : Tree) (st : Env) (hp : p.namesIn (fun v => V v = true)) :
    (matchNode (envAgg src) s src f p c st).map (proj1 (restrictSingle V))
      = matchNode (envAgg src) s src f p c (restrictSingle V st) := by
  refine (all_proj (envAgg src) (envAgg src) (restrictSingle V) (fun v => V v = true) s src
    ?_ ?_ ?_ f).1 p c st hp
  · intro st t; rfl
  · intro st mv t hmv
    have hins : ∀ name, V name = true →
        (Env.insert src st name t).map (restrictSingle V) = Env.insert src (restrictSingle V st) name t := by
      intro name hn
      simp only [Env.insert, Env.matchVariable, restrictSingle, alookup_restrictL V hn]
      split
      · next hc => simp [hc, restrictSingle, ainsert_restrictL V hn]
      · next hc => simp [hc]
    cases mv with
    | capture name named =>
      simp only [envAgg, matchLeafMetaVar]
      split
      · rfl
      · exact hins name hmv
    | dropped named => simp only [envAgg, matchLeafMetaVar]; split <;> rfl
    | multiple => rfl
    | multiCapture name =>
      simp only [envAgg, matchLeafMetaVar]
      exact hins name hmv
  · intro st name l k hname
    cases name with
    | none => rfl
    | some v =>
      simp only [envAgg, Env.insertMulti]
      have e : ∀ l', Env.matchMultiVar src (restrictSingle V st) v l' = Env.matchMultiVar src st v l' :=
        fun _ => rfl
      rw [e, map_ite]; rfl

theorem restrictL_eq_self_iff {β} (V : Name → Bool) (l : List (Name × β)) :
    restrictL V l = l ↔ ∀ v ∈ keysOf l, V v = true := by
  unfold restrictL keysOf
  rw [List.filter_eq_self]
  simp

/-- a successful pattern match keeps `EnvK K` when the pattern's variables are in `K` -/
theorem pattern_keeps_envK (K : List Name) (s : Strictness) (src : Bytes) (f : Nat) (p : PNode)
    (c : Tree) (env env' : Env) (hv : ∀ v ∈ p.vars, v ∈ K) (hI : EnvK K env)
    (h : matchPatternEnv s src f p c env = .ok (some env')) : EnvK K env' := by
  simp only [matchPatternEnv] at h
  rcases hm : matchNode (envAgg src) s src f p c env with err | ⟨r, st⟩
  · rw [hm] at h; cases h
  · rw [hm] at h
    cases r <;> simp only [Except.ok.injEq, Option.some.injEq, reduceCtorEq] at h
    subst h
    constructor
    · -- keys stay inside `K`
      let V : Name → Bool := fun v => decide (v ∈ K)
      have hp : p.namesIn (fun v => V v = true) :=
        PNode.namesIn_mono (fun v hv' => by simpa [V] using hv v hv') p (PNode.namesIn_vars p)
      have hr := matchNode_restrictSingle s src V f p c env hp
      have he : restrictSingle V env = env := by
        have := (restrictL_eq_self_iff V env.single).2 (fun v hv' => by simpa [V] using hI.1 v hv')
        simp [restrictSingle, this]
      rw [he, hm] at hr
      simp only [Except.map, proj1, Except.ok.injEq, Prod.mk.injEq, true_and] at hr
      have h1 : restrictL V st.single = st.single := congrArg Env.single hr
      intro v hv'
      have := (restrictL_eq_self_iff V st.single).1 h1 v hv'
      simpa [V] using this
    · -- keys stay distinct
      have hup := (all_up (envAgg src) s src
        (fun a b : Env => (keysOf a.single).Nodup → (keysOf b.single).Nodup)
        (fun _ h => h) (fun _ _ _ h1 h2 h => h2 (h1 h)) ?_ ?_ ?_ f).1 p c env _ hm
      · exact hup hI.2
      · intro st t st' h; simp only [envAgg, Option.some.injEq] at h; subst h; exact id
      · intro st mv t st' h hnd
        have hins : ∀ name, Env.insert src st name t = some st' → (keysOf st'.single).Nodup := by
          intro name hi
          simp only [Env.insert] at hi
          split at hi
          · simp only [Option.some.injEq] at hi; subst hi; exact nodup_keys_ainsert _ _ _ hnd
          · cases hi
        simp only [envAgg, matchLeafMetaVar] at h
        cases mv with
        | capture name named =>
          simp only at h
          split at h
          · cases h
          · exact hins name h
        | dropped named =>
          simp only at h
          split at h
          · cases h
          · simp only [Option.some.injEq] at h; subst h; exact hnd
        | multiple => simp only [Option.some.injEq] at h; subst h; exact hnd
        | multiCapture name => exact hins name h
      · intro st n l k st' h hnd
        simp only [envAgg] at h
        cases n with
        | none => simp only [Option.some.injEq] at h; subst h; exact hnd
        | some v =>
          simp only [Env.insertMulti] at h
          split at h
          · simp only [Option.some.injEq] at h; subst h; exact hnd
          · cases h

end AGV.RuleFuelReg

namespace AGV.RuleFuelReg

open AGV AGV.RuleFuel


/-! ## captured nodes are nodes of the candidate; the invariant with values in the document -/

/-- the single bindings of `st'` are those of `st` or bind nodes satisfying `N` -/
def EnvStep (N : Tree → Prop) (st st' : Env) : Prop := ∀ kv ∈ st'.single, kv ∈ st.single ∨ N kv.2

theorem mem_ainsert {β} (k : Name) (v : β) : ∀ (l : List (Name × β)) (x : Name × β),
    x ∈ ainsert k v l → x = (k, v) ∨ x ∈ l
  | [], x, h => by simp [ainsert] at h; exact .inl h
  | (k', v') :: rest, x, h => by
    simp only [ainsert] at h
    split at h
    · rcases List.mem_cons.1 h with h | h
      · exact .inl h
      · exact .inr (List.mem_cons_of_mem _ h)
    · rcases List.mem_cons.1 h with h | h
      · exact .inr (h ▸ List.mem_cons_self)
      · rcases mem_ainsert k v rest x h with h | h
        · exact .inl h
        · exact .inr (List.mem_cons_of_mem _ h)

theorem envAgg_stepOK (src : Bytes) : StepOK (envAgg src) EnvStep where
  refl := fun kv h => .inl h
  trans := fun h1 h2 kv h => by
    rcases h2 kv h with h | h
    · exact h1 kv h
    · exact .inr h
  mono := fun hNM h1 kv h => (h1 kv h).imp id (hNM _)
  terminal := fun h _ kv hk => by
    simp only [envAgg, Option.some.injEq] at h; subst h; exact .inl hk
  metaVar := by
    intro N st st' mv t h hN kv hk
    have hins : ∀ name, Env.insert src st name t = some st' → kv ∈ st.single ∨ N kv.2 := by
      intro name hi
      simp only [Env.insert] at hi
      split at hi
      · simp only [Option.some.injEq] at hi; subst hi
        rcases mem_ainsert _ _ _ _ hk with h | h
        · exact .inr (h ▸ hN)
        · exact .inl h
      · cases hi
    simp only [envAgg, matchLeafMetaVar] at h
    cases mv with
    | capture name named =>
      simp only at h
      split at h
      · cases h
      · exact hins name h
    | dropped named =>
      simp only at h
      split at h
      · cases h
      · simp only [Option.some.injEq] at h; subst h; exact .inl hk
    | multiple => simp only [Option.some.injEq] at h; subst h; exact .inl hk
    | multiCapture name => exact hins name h
  ellipsis := by
    intro N st st' n nodes k h _ kv hk
    simp only [envAgg] at h
    cases n with
    | none => simp only [Option.some.injEq] at h; subst h; exact .inl hk
    | some v =>
      simp only [Env.insertMulti] at h
      split at h
      · simp only [Option.some.injEq] at h; subst h; exact .inl hk
      · cases h

/-- **captured nodes are nodes of the candidate's subtree** -/
theorem matchPatternEnv_values (s : Strictness) (src : Bytes) (f : Nat) (p : PNode) (c : Tree)
    (env env' : Env) (h : matchPatternEnv s src f p c env = .ok (some env')) :
    ∀ kv ∈ env'.single, kv ∈ env.single ∨ kv.2 ∈ c.preorder := by
  simp only [matchPatternEnv] at h
  rcases hm : matchNode (envAgg src) s src f p c env with err | ⟨r, st⟩
  · rw [hm] at h; cases h
  · rw [hm] at h
    cases r <;> simp only [Except.ok.injEq, Option.some.injEq, reduceCtorEq] at h
    subst h
    exact (all_st (envAgg src) s src EnvStep (envAgg_stepOK src) f).1 p c env _ hm

/-- single bindings keyed by distinct names of `K`, binding nodes of `S` -/
def EnvKS (K : List Name) (S : List Tree) (env : Env) : Prop :=
  EnvK K env ∧ ∀ kv ∈ env.single, kv.2 ∈ S

theorem EnvKS.empty (K : List Name) (S : List Tree) : EnvKS K S Env.empty :=
  ⟨EnvK.empty K, fun kv h => by cases h⟩

theorem EnvKS.addLabel {K : List Name} {S : List Tree} {env : Env} (h : EnvKS K S env) (m : Tree) :
    EnvKS K S (env.addLabel secondaryLabel m) := by
  refine ⟨h.1.addLabel m, ?_⟩
  unfold Env.addLabel; split <;> exact h.2

/-! ## a computable rank: the depth of the reference graph -/

mutual
/-- least strict upper bound of the ranks of the utilities a rule refers to (anywhere) -/
def refMax (rank : Name → Nat) : Rule → Nat
  | .pattern _ _ _ => 0
  | .kind _ => 0
  | .regex _ => 0
  | .nthChild _ _ ofRule _ =>
    match ofRule with
    | some r => refMax rank r
    | none => 0
  | .range _ _ _ _ => 0
  | .inside r stop _ => max (refMax rank r) (refMaxStop rank stop)
  | .has r stop _ => max (refMax rank r) (refMaxStop rank stop)
  | .precedes r stop => max (refMax rank r) (refMaxStop rank stop)
  | .follows r stop => max (refMax rank r) (refMaxStop rank stop)
  | .all rs _ => refMaxList rank rs
  | .any rs _ => refMaxList rank rs
  | .not r => refMax rank r
  | .matches id => rank id + 1
def refMaxStop (rank : Name → Nat) : StopBy → Nat
  | .neighbor => 0
  | .end_ => 0
  | .rule r => refMax rank r
def refMaxList (rank : Name → Nat) : List Rule → Nat
  | [] => 0
  | r :: rs => max (refMax rank r) (refMaxList rank rs)
end

def refMaxCons (rank : Name → Nat) : List (Name × Rule) → Nat
  | [] => 0
  | c :: rest => max (refMax rank c.2) (refMaxCons rank rest)

/-- depth of `id` in the reference graph, explored to depth `k` -/
def depthRank (ctx : RCtx) : Nat → Name → Nat
  | 0, _ => 0
  | k + 1, id =>
    match alookup id ctx.locals with
    | some q => refMax (depthRank ctx k) q
    | none =>
      match alookup id ctx.globals with
      | some core => max (refMax (depthRank ctx k) core.rule) (refMaxCons (depthRank ctx k) core.constraints)
      | none => 0

/-- the rank the checker uses: depth explored one level further than there are utilities -/
def regRank (ctx : RCtx) : Name → Nat := depthRank ctx (ctx.locals.length + ctx.globals.length + 1)

/-- **the full reference graph of the registries is acyclic** (decidable: the depth function is
checked to be a rank) -/
def RegAcyclicAll (ctx : RCtx) : Prop := RegRanked ctx (regRank ctx)

instance (ctx : RCtx) : Decidable (RegAcyclicAll ctx) := by unfold RegAcyclicAll; infer_instance

/-! ## the statement for whole documents -/

/-- what is asked of a pattern: the matcher itself does not end in a `bad` outcome on it, and its
variables are among `K` -/
def PpK (ctx : RCtx) (bad : Abn → Prop) (K : List Name) (p : PNode) (s : Strictness) : Prop :=
  (∀ n env e, bad e → matchPatternEnv s ctx.src (matchFuel p n) p n env ≠ .error e) ∧
  ∀ v ∈ p.vars, v ∈ K

/-- every pattern of every utility (local rules, global rules, constraint rules) is fine -/
def RegPats (ctx : RCtx) (Pp : PNode → Strictness → Prop) : Prop :=
  (∀ id q, alookup id ctx.locals = some q → PatsAll Pp q) ∧
  (∀ id core, alookup id ctx.globals = some core →
    PatsAll Pp core.rule ∧ ∀ v m, alookup v core.constraints = some m → PatsAll Pp m)

/-- global utilities carry no constraints -/
def NoConstraints (ctx : RCtx) : Prop :=
  ∀ id core, alookup id ctx.globals = some core → core.constraints = []

/-- **termination over an acyclic registry** (local and global utilities; global utilities
without constraints — with constraints see `rule_noFuel`, which asks in addition that captured
nodes are nodes of the document).  `bad = (· = .fuel)`: the evaluator does not run out of fuel;
`bad = fun _ => True`: it ends normally. -/
theorem matchRule_noBad_document (ctx : RCtx) (bad : Abn → Prop) (rank : Name → Nat)
    (hrank : RegRanked ctx rank) (K : List Name) (hreg : RegPats ctx (PpK ctx bad K))
    (hnc : NoConstraints ctx) (Kr : Nat) (r : Rule) (hr : refsBelow rank Kr r = true)
    (hp : PatsAll (PpK ctx bad K) r) (n : Tree) (hn : n ∈ ctx.root.preorder) (env : Env)
    (henv : EnvK K env) (fuel : Nat)
    (hf : costG (mcost ctx ctx.root.size K.length Kr) ctx.root.size r ≤ fuel) :
    NoBad bad (matchRule ctx fuel r n env) :=
  rule_noFuel ctx bad ctx.root.preorder ctx.root.size K.length (closed_of_tree ctx) rank hrank
    (EnvK K) (EnvK.empty K) (fun env h => h.length_le) (fun env m h => h.addLabel m)
    (PpK ctx bad K) (fun p s h => h.1)
    (fun p s h f c env env' _ hI hm => pattern_keeps_envK K s ctx.src f p c env env' h.2 hI hm)
    hreg.1 hreg.2 (fun id core hg => .inl (hnc id core hg)) Kr r hr hp n hn env fuel henv hf

end AGV.RuleFuelReg

namespace AGV.RuleFuelReg

open AGV AGV.RuleFuel

/-! ## the statements for whole documents, constraints included -/

section
variable (ctx : RCtx) (bad : Abn → Prop) (rank : Name → Nat) (hrank : RegRanked ctx rank)
  (K : List Name) (hreg : RegPats ctx (PpK ctx bad K))

include hrank hreg in
/-- **termination over an acyclic registry, constraints of global utilities included**: the
environment invariant also says that bound nodes are nodes of the document
(`matchPatternEnv_values`), so the constraint rules are run on nodes of the document -/
theorem matchRule_noBad_document' (Kr : Nat) (r : Rule) (hr : refsBelow rank Kr r = true)
    (hp : PatsAll (PpK ctx bad K) r) (n : Tree) (hn : n ∈ ctx.root.preorder) (env : Env)
    (henv : EnvKS K ctx.root.preorder env) (fuel : Nat)
    (hf : costG (mcost ctx ctx.root.size K.length Kr) ctx.root.size r ≤ fuel) :
    NoBad bad (matchRule ctx fuel r n env) :=
  rule_noFuel ctx bad ctx.root.preorder ctx.root.size K.length (closed_of_tree ctx) rank hrank
    (EnvKS K ctx.root.preorder) (EnvKS.empty K _) (fun env h => h.1.length_le)
    (fun env m h => h.addLabel m)
    (PpK ctx bad K) (fun p s h => h.1)
    (fun p s h f c env env' hc hI hm =>
      ⟨pattern_keeps_envK K s ctx.src f p c env env' h.2 hI.1 hm, fun kv hk => by
        rcases matchPatternEnv_values s ctx.src f p c env env' hm kv hk with h1 | h1
        · exact hI.2 kv h1
        · exact ((closed_of_tree ctx).preorder c hc).1 _ h1⟩)
    hreg.1 hreg.2 (fun id core hg => .inr fun env hI => hI.2) Kr r hr hp n hn env fuel henv hf

include hrank hreg in
/-- the same for a rule core (rule and constraints), e.g. the core a scan runs on every node -/
theorem matchCore_noBad_document (Kr : Nat) (core : RuleCore)
    (hr1 : refsBelow rank Kr core.rule = true)
    (hr2 : ∀ c ∈ core.constraints, refsBelow rank Kr c.2 = true)
    (hp1 : PatsAll (PpK ctx bad K) core.rule)
    (hp2 : ∀ v m, alookup v core.constraints = some m → PatsAll (PpK ctx bad K) m)
    (n : Tree) (hn : n ∈ ctx.root.preorder) (env : Env)
    (henv : EnvKS K ctx.root.preorder env) (fuel : Nat)
    (hf : coreCost ctx ctx.root.size K.length Kr core ≤ fuel) :
    NoBad bad (matchCore ctx fuel core n env) :=
  core_noFuel ctx bad ctx.root.preorder ctx.root.size K.length (closed_of_tree ctx) rank hrank
    (EnvKS K ctx.root.preorder) (EnvKS.empty K _) (fun env h => h.1.length_le)
    (fun env m h => h.addLabel m)
    (PpK ctx bad K) (fun p s h => h.1)
    (fun p s h f c env env' hc hI hm =>
      ⟨pattern_keeps_envK K s ctx.src f p c env env' h.2 hI.1 hm, fun kv hk => by
        rcases matchPatternEnv_values s ctx.src f p c env env' hm kv hk with h1 | h1
        · exact hI.2 kv h1
        · exact ((closed_of_tree ctx).preorder c hc).1 _ h1⟩)
    hreg.1 hreg.2 (fun id core hg => .inr fun env hI => hI.2) Kr core hr1 hr2 hp1 hp2
    (.inr fun env hI => hI.2) n hn env fuel henv hf

end

end AGV.RuleFuelReg
