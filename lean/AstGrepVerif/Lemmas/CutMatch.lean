/-
Helper lemmas for C02: a pattern cut from a piece of code matches that code.

The main result is the mutual pair `matchNode_cut` / `matchLoop_cutList`: the child-alignment
loop, run on `(goals = cutList … cs, cands = cs)`, walks both lists in lock-step.  At every
step `mayMatchEllipsis` falls through (or, on the `$$$NAME` goal of a trailing run, takes all
the remaining candidates), and `matchSingle` gets `matchedBoth` at its *first* comparison, so
none of the strictness-dependent skip branches is ever entered: the statement is uniform in the
strictness level.
-/
import AstGrepVerif.Model.Pattern

set_option linter.unusedSimpArgs false
set_option linter.unusedVariables false

namespace AGV

/-! ## Association lists -/

theorem alookup_ainsert_self {β} (k : Name) (v : β) (l : List (Name × β)) :
    alookup k (ainsert k v l) = some v := by
  induction l with
  | nil => simp [ainsert, alookup]
  | cons p l ih =>
    obtain ⟨k', v'⟩ := p
    simp only [ainsert]
    split
    · simp [alookup]
    · next h => simp [alookup, h, ih]

theorem alookup_ainsert_ne {β} {k k' : Name} (h : k' ≠ k) (v : β) (l : List (Name × β)) :
    alookup k (ainsert k' v l) = alookup k l := by
  induction l with
  | nil => simp [ainsert, alookup, h]
  | cons p l ih =>
    obtain ⟨k'', v''⟩ := p
    simp only [ainsert]
    split
    · next h2 =>
      subst h2
      simp [alookup, h]
    · next h2 =>
      simp only [alookup, ih]

/-- insert a list of bindings, left to right -/
def extend {β} (l : List (Name × β)) (bs : List (Name × β)) : List (Name × β) :=
  bs.foldl (fun l b => ainsert b.1 b.2 l) l

@[simp] theorem extend_nil {β} (l : List (Name × β)) : extend l [] = l := rfl

theorem extend_cons {β} (l : List (Name × β)) (b : Name × β) (bs : List (Name × β)) :
    extend l (b :: bs) = extend (ainsert b.1 b.2 l) bs := rfl

theorem extend_append {β} (l a b : List (Name × β)) :
    extend l (a ++ b) = extend (extend l a) b := by
  simp [extend, List.foldl_append]

theorem alookup_extend_of_not_mem {β} {k : Name} {bs : List (Name × β)} (l : List (Name × β))
    (h : k ∉ bs.map Prod.fst) : alookup k (extend l bs) = alookup k l := by
  induction bs generalizing l with
  | nil => rfl
  | cons b bs ih =>
    simp only [List.map_cons, List.mem_cons, not_or] at h
    rw [extend_cons, ih _ h.2, alookup_ainsert_ne (fun e => h.1 e.symm)]

theorem alookup_extend_of_mem {β} {k : Name} {v : β} {bs : List (Name × β)} (l : List (Name × β))
    (hnd : (bs.map Prod.fst).Nodup) (h : (k, v) ∈ bs) : alookup k (extend l bs) = some v := by
  induction bs generalizing l with
  | nil => cases h
  | cons b bs ih =>
    simp only [List.map_cons, List.nodup_cons] at hnd
    rw [extend_cons]
    rcases List.mem_cons.1 h with h | h
    · subst h
      rw [alookup_extend_of_not_mem _ hnd.1, alookup_ainsert_self]
    · exact ih _ hnd.2 h

/-- the keys `ks` are pairwise distinct and unbound in `l` -/
def FreshKeys {β} (ks : List Name) (l : List (Name × β)) : Prop :=
  ks.Nodup ∧ ∀ k ∈ ks, alookup k l = none

theorem FreshKeys.nil {β} (l : List (Name × β)) : FreshKeys [] l :=
  ⟨List.nodup_nil, fun _ h => by cases h⟩

theorem FreshKeys.left {β} {ks₁ ks₂ : List Name} {l : List (Name × β)}
    (h : FreshKeys (ks₁ ++ ks₂) l) : FreshKeys ks₁ l :=
  ⟨(List.nodup_append.1 h.1).1, fun k hk => h.2 k (List.mem_append_left _ hk)⟩

theorem FreshKeys.right {β} {ks₂ : List Name} {bs : List (Name × β)} {l : List (Name × β)}
    (h : FreshKeys (bs.map Prod.fst ++ ks₂) l) : FreshKeys ks₂ (extend l bs) := by
  obtain ⟨hnd, hfr⟩ := h
  have hnd' := List.nodup_append.1 hnd
  refine ⟨hnd'.2.1, fun k hk => ?_⟩
  rw [alookup_extend_of_not_mem]
  · exact hfr k (List.mem_append_right _ hk)
  · intro hk1
    exact hnd'.2.2 _ hk1 _ hk rfl

/-! ## Environments -/

/-- `env` with the single bindings `bs` and the multi bindings `ms` added -/
def Env.bind (env : Env) (bs : List (Name × Tree)) (ms : List (Name × List Tree)) : Env :=
  { single := extend env.single bs, multi := extend env.multi ms, transformed := env.transformed }

@[simp] theorem Env.bind_nil (env : Env) : env.bind [] [] = env := by
  cases env; rfl

theorem Env.bind_bind (env : Env) (b₁ b₂ : List (Name × Tree)) (m₁ m₂ : List (Name × List Tree)) :
    (env.bind b₁ m₁).bind b₂ m₂ = env.bind (b₁ ++ b₂) (m₁ ++ m₂) := by
  simp [Env.bind, extend_append]

@[simp] theorem Env.bind_single (env : Env) (bs ms) : (env.bind bs ms).single = extend env.single bs := rfl
@[simp] theorem Env.bind_multi (env : Env) (bs ms) : (env.bind bs ms).multi = extend env.multi ms := rfl

theorem Env.insert_fresh (src : Bytes) (env : Env) (k : Name) (n : Tree)
    (h : alookup k env.single = none) : env.insert src k n = some (env.bind [(k, n)] []) := by
  simp [Env.insert, Env.matchVariable, h, Env.bind, extend]

theorem Env.insertMulti_fresh (src : Bytes) (env : Env) (k : Name) (ns : List Tree)
    (h : alookup k env.multi = none) : env.insertMulti src k ns = some (env.bind [] [(k, ns)]) := by
  simp [Env.insertMulti, Env.matchMultiVar, h, Env.bind, extend]

/-! ## Basic facts about the matcher -/

theorem kindsMatch_self (k : Nat) : kindsMatch k k = true := by simp [kindsMatch]

theorem exactMatch_self (src : Bytes) (t : Tree) : exactMatch src t t = true := by
  cases t; simp [exactMatch]

theorem matchTerminal_self (s : Strictness) (src : Bytes) (t : Tree) :
    s.matchTerminal src t.named (t.text src) t.kind t = .matchedBoth := by
  simp [Strictness.matchTerminal, kindsMatch_self]

/-! ## What `cut` produces: hole nodes, bindings, and the side conditions -/

/-- a child that may follow a `$$$NAME` run: an unnamed, non-missing leaf token that is not a
hole itself (`cut` makes it a trivial `.terminal`) -/
def trailTok (hs : List Hole) (c : Tree) : Bool :=
  !c.named && c.children.isEmpty && !c.info.missing && (findSingleHole hs c.start c.stop).isNone

mutual
/-- the single-variable bindings the pattern `cut src hs t` makes: (name, hole node) for every
*hole node* of `t` — the outermost nodes, in `cut`'s top-down sense, whose byte range is the
range of a single hole — in pre-order -/
def bindsS (hs : List Hole) : Tree → List (Name × Tree)
  | .node i cs =>
    match findSingleHole hs i.start i.stop with
    | some h => [(h.name, .node i cs)]
    | none => bindsSList hs (findRunHole hs i.id) 0 cs
def bindsSList (hs : List Hole) (run : Option (Nat × Nat × Name)) : Nat → List Tree → List (Name × Tree)
  | _, [] => []
  | idx, c :: cs =>
    match run with
    | some (a, _, _) =>
      if a ≤ idx then [] else bindsS hs c ++ bindsSList hs run (idx + 1) cs
    | none => bindsS hs c ++ bindsSList hs run (idx + 1) cs
end

mutual
/-- the multi-variable bindings: (name, children `a ..= b`) for every node outside the holes
that carries a run hole -/
def bindsM (hs : List Hole) : Tree → List (Name × List Tree)
  | .node i cs =>
    match findSingleHole hs i.start i.stop with
    | some _ => []
    | none => bindsMList hs (findRunHole hs i.id) 0 cs
def bindsMList (hs : List Hole) (run : Option (Nat × Nat × Name)) : Nat → List Tree → List (Name × List Tree)
  | _, [] => []
  | idx, c :: cs =>
    match run with
    | some (a, b, name) =>
      if a ≤ idx then [(name, (c :: cs).take (b + 1 - a))]
      else bindsM hs c ++ bindsMList hs run (idx + 1) cs
    | none => bindsM hs c ++ bindsMList hs run (idx + 1) cs
end

mutual
/-- the structural side conditions under which `cut src hs t` is a faithful picture of `t`:
hole nodes are named (`$NAME` only binds named nodes), no child outside a hole is missing
(`cut` drops missing children, the matcher does not skip them under `cst`), a run `a ..= b`
lies inside the child list (`a ≤ b < length`) and is followed by closing tokens only -/
def cutOK (hs : List Hole) : Tree → Bool
  | .node i cs =>
    match findSingleHole hs i.start i.stop with
    | some _ => i.named
    | none => cutOKList hs (findRunHole hs i.id) 0 cs
def cutOKList (hs : List Hole) (run : Option (Nat × Nat × Name)) : Nat → List Tree → Bool
  | _, [] => run.isNone
  | idx, c :: cs =>
    match run with
    | some (a, b, _) =>
      if idx < a then !c.info.missing && cutOK hs c && cutOKList hs run (idx + 1) cs
      else idx == a && decide (a ≤ b) && decide (b - a < (c :: cs).length) &&
        ((c :: cs).drop (b + 1 - a)).all (trailTok hs)
    | none => !c.info.missing && cutOK hs c && cutOKList hs run (idx + 1) cs
end

/-! ## One lock-step iteration of the loop -/

section
variable {σ : Type} (agg : Agg σ) (s : Strictness) (src : Bytes)

/-- if the first goal is not an ellipsis and matches the first candidate outright, the loop
consumes both -/
theorem matchLoop_step {f : Nat} {g : PNode} {gs : List PNode} {c : Tree} {cs : List Tree}
    {st st1 : σ} (hg : ellipsisMode g = none)
    (h : matchNode agg s src f g c st = .ok (.matchedBoth, st1)) :
    matchLoop agg s src (f + 2) (g :: gs) (c :: cs) st =
      match gs with
      | [] => .ok (cs.all s.shouldSkipTrailing, st1)
      | g2 :: gs2 =>
        match cs with
        | [] => .ok (false, st1)
        | c2 :: cs2 => matchLoop agg s src (f + 1) (g2 :: gs2) (c2 :: cs2) st1 := by
  simp only [matchLoop, mayMatchEllipsis, hg, matchSingle, h]
  cases gs with
  | nil => rfl
  | cons g2 gs2 =>
    cases cs with
    | nil => rfl
    | cons c2 cs2 => rfl

end

theorem ellipsisMode_cut (src : Bytes) (hs : List Hole) (t : Tree) :
    ellipsisMode (cut src hs t) = none := by
  obtain ⟨i, cs⟩ := t
  simp only [cut]
  split
  · rfl
  · split <;> rfl


/-! ## The goals of a `$$$NAME` run -/

theorem skipTrivialGoals_all_trivial (gs : List PNode) (h : gs.all PNode.isTrivial = true) :
    skipTrivialGoals gs = (gs.length, []) := by
  induction gs with
  | nil => rfl
  | cons g gs ih =>
    simp only [List.all_cons, Bool.and_eq_true] at h
    simp [skipTrivialGoals, h.1, ih h.2]

theorem cut_trailTok (src : Bytes) (hs : List Hole) (c : Tree) (h : trailTok hs c = true) :
    (cut src hs c).isTrivial = true := by
  obtain ⟨i, cs⟩ := c
  simp only [trailTok, Tree.named, Tree.info, Tree.children, Tree.start, Tree.stop, Bool.and_eq_true,
    Bool.not_eq_true', List.isEmpty_iff, Option.isNone_iff_eq_none] at h
  obtain ⟨⟨⟨hn, hc⟩, hm⟩, hf⟩ := h
  subst hc
  simp [cut, hf, PNode.isTrivial, hn]

/-- past the start of the run, `cutList` drops the rest of the run and converts what follows -/
theorem cutList_after (src : Bytes) (hs : List Hole) (a b : Nat) (n : Name) :
    ∀ (cs : List Tree) (idx : Nat), a < idx →
      (cs.drop (b + 1 - idx)).all (fun c => !c.info.missing) = true →
      cutList src hs (some (a, b, n)) idx cs = (cs.drop (b + 1 - idx)).map (cut src hs)
  | [], idx, _, _ => by simp [cutList]
  | c :: cs, idx, hlt, hm => by
    have hne : (idx == a) = false := by simp; omega
    by_cases hb : idx ≤ b
    · have e : b + 1 - idx = (b + 1 - (idx + 1)) + 1 := by omega
      rw [e, List.drop_succ_cons] at hm ⊢
      have ih := cutList_after src hs a b n cs (idx + 1) (by omega) hm
      have h1 : (decide (a ≤ idx) && decide (idx ≤ b)) = true := by simp; omega
      simp only [cutList, hne, h1, if_true, ih]
      simp
    · have e : b + 1 - idx = 0 := by omega
      have e' : b + 1 - (idx + 1) = 0 := by omega
      rw [e] at hm ⊢
      simp only [List.drop_zero, List.all_cons, Bool.and_eq_true, Bool.not_eq_true'] at hm
      have ih := cutList_after src hs a b n cs (idx + 1) (by omega) (by rw [e']; simpa using hm.2)
      rw [e'] at ih
      have h1 : (decide (a ≤ idx) && decide (idx ≤ b)) = false := by simp; omega
      simp only [cutList, hne, h1, hm.1, ih]
      simp

theorem trailTok_not_missing {hs : List Hole} {l : List Tree} (h : l.all (trailTok hs) = true) :
    l.all (fun c => !c.info.missing) = true := by
  simp only [List.all_eq_true] at h ⊢
  intro c hc
  have := h c hc
  simp only [trailTok, Bool.and_eq_true] at this
  exact this.1.2

/-- at the start of a well-placed run: the `$$$NAME` goal, then the closing tokens -/
theorem cutList_run_start (src : Bytes) (hs : List Hole) (a b : Nat) (n : Name) (c : Tree)
    (cs : List Tree) (hab : a ≤ b) (ht : ((c :: cs).drop (b + 1 - a)).all (trailTok hs) = true) :
    cutList src hs (some (a, b, n)) a (c :: cs) =
      .metaVar (.multiCapture n) :: ((c :: cs).drop (b + 1 - a)).map (cut src hs) := by
  have e : b + 1 - a = (b + 1 - (a + 1)) + 1 := by omega
  rw [e, List.drop_succ_cons] at ht ⊢
  have h1 : (decide (a ≤ a) && decide (a ≤ b)) = true := by simp; omega
  simp only [cutList, beq_self_eq_true, h1, if_true,
    cutList_after src hs a b n cs (a + 1) (by omega) (trailTok_not_missing ht)]
  simp

section
variable {σ : Type} (agg : Agg σ) (s : Strictness) (src : Bytes)

/-- a `$$$NAME` goal followed by trivial goals only takes all the remaining candidates but the
last `gs.length` -/
theorem matchLoop_run {f : Nat} {n : Name} {gs : List PNode} {cands : List Tree} {st : σ}
    (hgs : gs.all PNode.isTrivial = true) :
    matchLoop agg s src (f + 2) (.metaVar (.multiCapture n) :: gs) cands st =
      match matchEllipsis agg st (some n) [] cands gs.length with
      | some st' => .ok (true, st')
      | none => .ok (false, st) := by
  cases gs with
  | nil =>
    cases hm : matchEllipsis agg st (some n) [] cands 0 <;>
      simp only [matchLoop, mayMatchEllipsis, ellipsisMode, List.length_nil, hm]
  | cons g gs =>
    cases hm : matchEllipsis agg st (some n) [] cands (g :: gs).length <;>
      simp only [matchLoop, mayMatchEllipsis, ellipsisMode, skipTrivialGoals_all_trivial _ hgs, hm]

end


/-! ## The main induction -/

theorem cutList_ne_nil (src : Bytes) (hs : List Hole) (run : Option (Nat × Nat × Name)) (idx : Nat)
    (c : Tree) (cs : List Tree) (h : cutOKList hs run idx (c :: cs) = true) :
    ∃ g gs, cutList src hs run idx (c :: cs) = g :: gs := by
  match run with
  | none =>
    simp only [cutOKList, Bool.and_eq_true, Bool.not_eq_true'] at h
    exact ⟨_, _, by simp only [cutList, h.1.1]; rfl⟩
  | some (a, b, n) =>
    by_cases hlt : idx < a
    · simp only [cutOKList, hlt, if_true, Bool.and_eq_true, Bool.not_eq_true'] at h
      have hne : (idx == a) = false := by simp; omega
      have h1 : (decide (a ≤ idx) && decide (idx ≤ b)) = false := by simp; omega
      exact ⟨_, _, by simp only [cutList, hne, h1, h.1.1]; rfl⟩
    · simp only [cutOKList, hlt, if_false, Bool.and_eq_true, beq_iff_eq, decide_eq_true_eq] at h
      obtain ⟨⟨⟨rfl, hab⟩, hlen⟩, ht⟩ := h
      exact ⟨_, _, cutList_run_start src hs idx b n c cs hab ht⟩

section
variable (s : Strictness) (src : Bytes) (hs : List Hole)

mutual
theorem matchNode_cut : ∀ (t : Tree), cutOK hs t = true → ∀ (env : Env) (fuel : Nat),
    FreshKeys ((bindsS hs t).map Prod.fst) env.single →
    FreshKeys ((bindsM hs t).map Prod.fst) env.multi →
    4 * t.size ≤ fuel →
    matchNode (envAgg src) s src fuel (cut src hs t) t env =
      .ok (.matchedBoth, env.bind (bindsS hs t) (bindsM hs t))
  | .node i cs, hok, env, fuel, hS, hM, hf => by
    obtain ⟨f, rfl⟩ : ∃ f, fuel = f + 1 := ⟨fuel - 1, by simp only [Tree.size] at hf; omega⟩
    cases hfind : findSingleHole hs i.start i.stop with
    | some h =>
      simp only [cutOK, hfind] at hok
      simp only [bindsS, hfind, List.map_cons, List.map_nil] at hS
      have hfr : alookup h.name env.single = none := hS.2 _ (List.mem_singleton.2 rfl)
      simp only [cut, bindsS, bindsM, hfind, matchNode, envAgg, matchLeafMetaVar, Tree.named,
        Tree.info, hok, Bool.not_true, Bool.and_false, Bool.false_eq_true, if_false,
        Env.insert_fresh src env _ _ hfr]
    | none =>
      simp only [cutOK, hfind] at hok
      simp only [bindsS, hfind] at hS
      simp only [bindsM, hfind] at hM
      cases cs with
      | nil =>
        have := matchTerminal_self s src (.node i [])
        simp only [Tree.named, Tree.kind, Tree.info] at this
        simp only [cut, bindsS, bindsM, hfind, bindsSList, bindsMList, matchNode, this, envAgg,
          Env.bind_nil]
      | cons c cs =>
        simp only [Tree.size] at hf
        obtain ⟨f', rfl⟩ : ∃ f', f = f' + 1 := ⟨f - 1, by omega⟩
        have ih := matchLoop_cutList (c :: cs) (by simp) (findRunHole hs i.id) 0 hok env f' hS hM
          (by omega)
        simp only [cut, bindsS, bindsM, hfind, matchNode, Tree.kind, Tree.info, Tree.children,
          kindsMatch_self, if_true, matchNodes, ih]
theorem matchLoop_cutList : ∀ (cs : List Tree), cs ≠ [] → ∀ (run : Option (Nat × Nat × Name))
    (idx : Nat), cutOKList hs run idx cs = true → ∀ (env : Env) (fuel : Nat),
    FreshKeys ((bindsSList hs run idx cs).map Prod.fst) env.single →
    FreshKeys ((bindsMList hs run idx cs).map Prod.fst) env.multi →
    4 * Tree.sizeList cs + 2 ≤ fuel →
    matchLoop (envAgg src) s src fuel (cutList src hs run idx cs) cs env =
      .ok (true, env.bind (bindsSList hs run idx cs) (bindsMList hs run idx cs))
  | [], hne, _, _, _, _, _, _, _, _ => absurd rfl hne
  | c :: cs, _, run, idx, hok, env, fuel, hS, hM, hf => by
    simp only [Tree.sizeList] at hf
    have hcsz : 1 ≤ c.size := by cases c; simp only [Tree.size]; omega
    obtain ⟨f, rfl⟩ : ∃ f, fuel = f + 2 := ⟨fuel - 2, by omega⟩
    -- the lock-step case: the first goal is `cut … c`
    have lock : cutOK hs c = true → cutOKList hs run (idx + 1) cs = true →
        cutList src hs run idx (c :: cs) = cut src hs c :: cutList src hs run (idx + 1) cs →
        bindsSList hs run idx (c :: cs) = bindsS hs c ++ bindsSList hs run (idx + 1) cs →
        bindsMList hs run idx (c :: cs) = bindsM hs c ++ bindsMList hs run (idx + 1) cs →
        matchLoop (envAgg src) s src (f + 2) (cutList src hs run idx (c :: cs)) (c :: cs) env =
          .ok (true, env.bind (bindsSList hs run idx (c :: cs)) (bindsMList hs run idx (c :: cs))) := by
      intro hokc hokcs ecut eS eM
      rw [eS, List.map_append] at hS
      rw [eM, List.map_append] at hM
      have h1 := matchNode_cut c hokc env f hS.left hM.left (by omega)
      rw [ecut, eS, eM, matchLoop_step (envAgg src) s src (ellipsisMode_cut src hs c) h1]
      cases cs with
      | nil => simp [cutList, bindsSList, bindsMList]
      | cons c2 cs2 =>
        obtain ⟨g, gs, eg⟩ := cutList_ne_nil src hs run (idx + 1) c2 cs2 hokcs
        have ih := matchLoop_cutList (c2 :: cs2) (by simp) run (idx + 1) hokcs
          (env.bind (bindsS hs c) (bindsM hs c)) (f + 1) hS.right hM.right (by omega)
        rw [eg] at ih ⊢
        simp only [ih, Env.bind_bind]
    match run with
    | none =>
      simp only [cutOKList, Bool.and_eq_true, Bool.not_eq_true'] at hok
      exact lock hok.1.2 hok.2 (by simp only [cutList, hok.1.1]; rfl) (by simp only [bindsSList])
        (by simp only [bindsMList])
    | some (a, b, n) =>
      by_cases hlt : idx < a
      · simp only [cutOKList, hlt, if_true, Bool.and_eq_true, Bool.not_eq_true'] at hok
        have hne : (idx == a) = false := by simp; omega
        have h1 : (decide (a ≤ idx) && decide (idx ≤ b)) = false := by simp; omega
        have h2 : ¬ a ≤ idx := by omega
        exact lock hok.1.2 hok.2 (by simp only [cutList, hne, h1, hok.1.1]; rfl)
          (by simp only [bindsSList, h2, if_false]) (by simp only [bindsMList, h2, if_false])
      · simp only [cutOKList, hlt, if_false, Bool.and_eq_true, beq_iff_eq, decide_eq_true_eq] at hok
        obtain ⟨⟨⟨rfl, hab⟩, hlen⟩, ht⟩ := hok
        have hgs : (((c :: cs).drop (b + 1 - idx)).map (cut src hs)).all PNode.isTrivial = true := by
          simp only [List.all_map, List.all_eq_true] at ht ⊢
          intro x hx
          exact cut_trailTok src hs x (ht x hx)
        simp only [bindsMList, Nat.le_refl, if_true, List.map_cons, List.map_nil] at hM
        have hfr : alookup n env.multi = none := hM.2 _ (List.mem_singleton.2 rfl)
        have htake : (c :: cs).take ((c :: cs).length - ((c :: cs).drop (b + 1 - idx)).length) =
            (c :: cs).take (b + 1 - idx) := by
          congr 1
          simp only [List.length_drop]
          omega
        rw [cutList_run_start src hs idx b n c cs hab ht, matchLoop_run (envAgg src) s src hgs]
        simp only [matchEllipsis, envAgg, List.nil_append, List.length_map, htake,
          Env.insertMulti_fresh src env _ _ hfr, bindsSList, bindsMList, Nat.le_refl, if_true]
end

end


/-! ## Where the bindings come from -/

theorem findSingleHole_some {hs : List Hole} {s e : Nat} {h : Hole}
    (hf : findSingleHole hs s e = some h) : h ∈ hs ∧ h.run = none ∧ h.start = s ∧ h.stop = e := by
  unfold findSingleHole at hf
  have h1 := List.mem_of_find?_eq_some hf
  have h2 := List.find?_some hf
  simp only [Hole.isSingleAt, Bool.and_eq_true, Option.isNone_iff_eq_none, beq_iff_eq] at h2
  exact ⟨h1, h2.1.1, h2.1.2, h2.2⟩

theorem findRunHole_some {hs : List Hole} {id a b : Nat} {nm : Name}
    (hf : findRunHole hs id = some (a, b, nm)) : ∃ h ∈ hs, h.run = some (id, a, b) ∧ h.name = nm := by
  unfold findRunHole at hf
  split at hf
  · next h hfind =>
    have h1 := List.mem_of_find?_eq_some hfind
    have h2 := List.find?_some hfind
    split at hf
    · next p a' b' hrun =>
      simp only [hrun, beq_iff_eq] at h2
      simp only [Option.some.injEq, Prod.mk.injEq] at hf
      obtain ⟨rfl, rfl, rfl⟩ := hf
      exact ⟨h, h1, by rw [hrun, h2], rfl⟩
    · cases hf
  · cases hf

theorem Tree.mem_preorder_self (t : Tree) : t ∈ t.preorder := by
  cases t; simp [Tree.preorder]

mutual
theorem mem_bindsS {hs : List Hole} {nm : Name} {n : Tree} : ∀ (t : Tree), (nm, n) ∈ bindsS hs t →
    n ∈ t.preorder ∧ ∃ h, findSingleHole hs n.start n.stop = some h ∧ h.name = nm
  | .node i cs, hmem => by
    cases hfind : findSingleHole hs i.start i.stop with
    | some h =>
      simp only [bindsS, hfind, List.mem_singleton, Prod.mk.injEq] at hmem
      obtain ⟨rfl, rfl⟩ := hmem
      exact ⟨Tree.mem_preorder_self _, h, hfind, rfl⟩
    | none =>
      simp only [bindsS, hfind] at hmem
      have := mem_bindsSList cs _ _ hmem
      exact ⟨by simp [Tree.preorder, this.1], this.2⟩
theorem mem_bindsSList {hs : List Hole} {nm : Name} {n : Tree} : ∀ (cs : List Tree)
    (run : Option (Nat × Nat × Name)) (idx : Nat), (nm, n) ∈ bindsSList hs run idx cs →
    n ∈ Tree.preorderList cs ∧ ∃ h, findSingleHole hs n.start n.stop = some h ∧ h.name = nm
  | [], _, _, hmem => by simp [bindsSList] at hmem
  | c :: cs, run, idx, hmem => by
    have key : (nm, n) ∈ bindsS hs c ++ bindsSList hs run (idx + 1) cs →
        n ∈ Tree.preorderList (c :: cs) ∧ ∃ h, findSingleHole hs n.start n.stop = some h ∧ h.name = nm := by
      intro hm
      rcases List.mem_append.1 hm with hm | hm
      · have := mem_bindsS c hm
        exact ⟨by simp [Tree.preorderList, this.1], this.2⟩
      · have := mem_bindsSList cs run (idx + 1) hm
        exact ⟨by simp [Tree.preorderList, this.1], this.2⟩
    match run with
    | none =>
      simp only [bindsSList] at hmem
      exact key hmem
    | some (a, b, w) =>
      simp only [bindsSList] at hmem
      split at hmem
      · cases hmem
      · exact key hmem
end

mutual
theorem mem_bindsM {hs : List Hole} {nm : Name} {l : List Tree} : ∀ (t : Tree),
    (nm, l) ∈ bindsM hs t →
    ∃ p ∈ t.preorder, ∃ a b, findRunHole hs p.id = some (a, b, nm) ∧
      l = (p.children.drop a).take (b + 1 - a)
  | .node i cs, hmem => by
    cases hfind : findSingleHole hs i.start i.stop with
    | some h => simp [bindsM, hfind] at hmem
    | none =>
      simp only [bindsM, hfind] at hmem
      rcases mem_bindsMList cs _ 0 (fun _ _ _ _ => Nat.zero_le _) hmem with ⟨a, b, hr, hl⟩ | ⟨p, hp, h⟩
      · exact ⟨.node i cs, Tree.mem_preorder_self _, a, b, hr, by simpa [Tree.children] using hl⟩
      · exact ⟨p, by simp [Tree.preorder, hp], h⟩
theorem mem_bindsMList {hs : List Hole} {nm : Name} {l : List Tree} : ∀ (cs : List Tree)
    (run : Option (Nat × Nat × Name)) (idx : Nat), (∀ a b w, run = some (a, b, w) → idx ≤ a) →
    (nm, l) ∈ bindsMList hs run idx cs →
    (∃ a b, run = some (a, b, nm) ∧ l = (cs.drop (a - idx)).take (b + 1 - a)) ∨
    (∃ p ∈ Tree.preorderList cs, ∃ a b, findRunHole hs p.id = some (a, b, nm) ∧
      l = (p.children.drop a).take (b + 1 - a))
  | [], _, _, _, hmem => by simp [bindsMList] at hmem
  | c :: cs, run, idx, hidx, hmem => by
    have key : (∀ a b w, run = some (a, b, w) → idx + 1 ≤ a) →
        (nm, l) ∈ bindsM hs c ++ bindsMList hs run (idx + 1) cs →
        (∃ a b, run = some (a, b, nm) ∧ l = ((c :: cs).drop (a - idx)).take (b + 1 - a)) ∨
        (∃ p ∈ Tree.preorderList (c :: cs), ∃ a b, findRunHole hs p.id = some (a, b, nm) ∧
          l = (p.children.drop a).take (b + 1 - a)) := by
      intro hidx' hm
      rcases List.mem_append.1 hm with hm | hm
      · obtain ⟨p, hp, h⟩ := mem_bindsM c hm
        exact .inr ⟨p, by simp [Tree.preorderList, hp], h⟩
      · rcases mem_bindsMList cs run (idx + 1) hidx' hm with ⟨a, b, hr, hl⟩ | ⟨p, hp, h⟩
        · refine .inl ⟨a, b, hr, ?_⟩
          have := hidx' a b nm hr
          have e : a - idx = (a - (idx + 1)) + 1 := by omega
          rw [e, List.drop_succ_cons]
          exact hl
        · exact .inr ⟨p, by simp [Tree.preorderList, hp], h⟩
    match run, hidx, hmem, key with
    | none, _, hmem, key =>
      simp only [bindsMList] at hmem
      exact key (fun _ _ _ h => by cases h) hmem
    | some (a, b, w), hidx, hmem, key =>
      simp only [bindsMList] at hmem
      split at hmem
      · next hle =>
        have := hidx a b w rfl
        have e : a - idx = 0 := by omega
        simp only [List.mem_singleton, Prod.mk.injEq] at hmem
        obtain ⟨rfl, rfl⟩ := hmem
        exact .inl ⟨a, b, rfl, by rw [e]; rfl⟩
      · next hle =>
        refine key ?_ hmem
        intro a' b' w' h
        simp only [Option.some.injEq, Prod.mk.injEq] at h
        omega
end


/-! ## `cutOK` from simpler conditions when there is no run hole -/

theorem findRunHole_none_of_single {hs : List Hole} (h : ∀ x ∈ hs, x.run = none) (id : Nat) :
    findRunHole hs id = none := by
  unfold findRunHole
  split
  · next x hfind =>
    have h1 := List.mem_of_find?_eq_some hfind
    simp [h x h1]
  · rfl

mutual
theorem cutOK_of_noMissing {hs : List Hole} (hr : ∀ id, findRunHole hs id = none) : ∀ (t : Tree),
    (∀ n ∈ t.preorder, n.info.missing = false) → (∀ b ∈ bindsS hs t, b.2.named = true) →
    cutOK hs t = true
  | .node i cs, hm, hn => by
    cases hfind : findSingleHole hs i.start i.stop with
    | some h =>
      simp only [bindsS, hfind, List.mem_singleton, forall_eq] at hn
      simpa only [cutOK, hfind, Tree.named, Tree.info] using hn
    | none =>
      simp only [bindsS, hfind, hr] at hn
      simp only [cutOK, hfind, hr]
      exact cutOKList_of_noMissing hr cs 0 (fun n h => hm n (by simp [Tree.preorder, h])) hn
theorem cutOKList_of_noMissing {hs : List Hole} (hr : ∀ id, findRunHole hs id = none) :
    ∀ (cs : List Tree) (idx : Nat),
    (∀ n ∈ Tree.preorderList cs, n.info.missing = false) →
    (∀ b ∈ bindsSList hs none idx cs, b.2.named = true) →
    cutOKList hs none idx cs = true
  | [], _, _, _ => by simp [cutOKList]
  | c :: cs, idx, hm, hn => by
    simp only [bindsSList, List.mem_append] at hn
    simp only [cutOKList, Bool.and_eq_true, Bool.not_eq_true']
    refine ⟨⟨hm c (by simp [Tree.preorderList, Tree.mem_preorder_self]), ?_⟩, ?_⟩
    · exact cutOK_of_noMissing hr c (fun n h => hm n (by simp [Tree.preorderList, h]))
        (fun b h => hn b (.inl h))
    · exact cutOKList_of_noMissing hr cs (idx + 1) (fun n h => hm n (by simp [Tree.preorderList, h]))
        (fun b h => hn b (.inr h))
end


/-! ## What `cutOK` guarantees about the bound nodes -/

mutual
theorem named_of_mem_bindsS {hs : List Hole} {nm : Name} {n : Tree} : ∀ (t : Tree),
    cutOK hs t = true → (nm, n) ∈ bindsS hs t → n.named = true
  | .node i cs, hok, hmem => by
    cases hfind : findSingleHole hs i.start i.stop with
    | some h =>
      simp only [bindsS, hfind, List.mem_singleton, Prod.mk.injEq] at hmem
      obtain ⟨rfl, rfl⟩ := hmem
      simpa only [cutOK, hfind, Tree.named, Tree.info] using hok
    | none =>
      simp only [bindsS, hfind] at hmem
      simp only [cutOK, hfind] at hok
      exact named_of_mem_bindsSList cs _ _ hok hmem
theorem named_of_mem_bindsSList {hs : List Hole} {nm : Name} {n : Tree} : ∀ (cs : List Tree)
    (run : Option (Nat × Nat × Name)) (idx : Nat), cutOKList hs run idx cs = true →
    (nm, n) ∈ bindsSList hs run idx cs → n.named = true
  | [], _, _, _, hmem => by simp [bindsSList] at hmem
  | c :: cs, run, idx, hok, hmem => by
    have key : cutOK hs c = true → cutOKList hs run (idx + 1) cs = true →
        (nm, n) ∈ bindsS hs c ++ bindsSList hs run (idx + 1) cs → n.named = true := by
      intro h1 h2 hm
      rcases List.mem_append.1 hm with hm | hm
      · exact named_of_mem_bindsS c h1 hm
      · exact named_of_mem_bindsSList cs run (idx + 1) h2 hm
    match run, hok, hmem, key with
    | none, hok, hmem, key =>
      simp only [bindsSList] at hmem
      simp only [cutOKList, Bool.and_eq_true] at hok
      exact key hok.1.2 hok.2 hmem
    | some (a, b, w), hok, hmem, key =>
      simp only [bindsSList] at hmem
      split at hmem
      · cases hmem
      · next hle =>
        have hlt : idx < a := by omega
        simp only [cutOKList, hlt, if_true, Bool.and_eq_true] at hok
        exact key hok.1.2 hok.2 hmem
end

mutual
/-- under `cutOK`, a multi binding is the run `a ..= b` of a node carrying a run hole; the run
lies inside the child list and is followed by closing tokens only -/
theorem mem_bindsM_ok {hs : List Hole} {nm : Name} {l : List Tree} : ∀ (t : Tree),
    cutOK hs t = true → (nm, l) ∈ bindsM hs t →
    ∃ p ∈ t.preorder, ∃ a b, findRunHole hs p.id = some (a, b, nm) ∧
      l = (p.children.drop a).take (b + 1 - a) ∧ a ≤ b ∧ b < p.children.length ∧
      (p.children.drop (b + 1)).all (trailTok hs) = true
  | .node i cs, hok, hmem => by
    cases hfind : findSingleHole hs i.start i.stop with
    | some h => simp [bindsM, hfind] at hmem
    | none =>
      simp only [bindsM, hfind] at hmem
      simp only [cutOK, hfind] at hok
      rcases mem_bindsMList_ok cs _ 0 (fun _ _ _ _ => Nat.zero_le _) hok hmem with
        ⟨a, b, hr, hl, hab, hlen, ht⟩ | ⟨p, hp, h⟩
      · simp only [Nat.sub_zero, List.length_drop, List.drop_drop] at hl hlen ht
        refine ⟨.node i cs, Tree.mem_preorder_self _, a, b, hr, hl, hab, ?_, ?_⟩
        · simp only [Tree.children]; omega
        · have e : a + (b + 1 - a) = b + 1 := by omega
          simpa only [Tree.children, e] using ht
      · exact ⟨p, by simp [Tree.preorder, hp], h⟩
theorem mem_bindsMList_ok {hs : List Hole} {nm : Name} {l : List Tree} : ∀ (cs : List Tree)
    (run : Option (Nat × Nat × Name)) (idx : Nat), (∀ a b w, run = some (a, b, w) → idx ≤ a) →
    cutOKList hs run idx cs = true →
    (nm, l) ∈ bindsMList hs run idx cs →
    (∃ a b, run = some (a, b, nm) ∧ l = (cs.drop (a - idx)).take (b + 1 - a) ∧ a ≤ b ∧
      b - a < (cs.drop (a - idx)).length ∧
      ((cs.drop (a - idx)).drop (b + 1 - a)).all (trailTok hs) = true) ∨
    (∃ p ∈ Tree.preorderList cs, ∃ a b, findRunHole hs p.id = some (a, b, nm) ∧
      l = (p.children.drop a).take (b + 1 - a) ∧ a ≤ b ∧ b < p.children.length ∧
      (p.children.drop (b + 1)).all (trailTok hs) = true)
  | [], _, _, _, _, hmem => by simp [bindsMList] at hmem
  | c :: cs, run, idx, hidx, hok, hmem => by
    have key : (∀ a b w, run = some (a, b, w) → idx + 1 ≤ a) →
        cutOK hs c = true → cutOKList hs run (idx + 1) cs = true →
        (nm, l) ∈ bindsM hs c ++ bindsMList hs run (idx + 1) cs →
        (∃ a b, run = some (a, b, nm) ∧ l = ((c :: cs).drop (a - idx)).take (b + 1 - a) ∧ a ≤ b ∧
          b - a < ((c :: cs).drop (a - idx)).length ∧
          (((c :: cs).drop (a - idx)).drop (b + 1 - a)).all (trailTok hs) = true) ∨
        (∃ p ∈ Tree.preorderList (c :: cs), ∃ a b, findRunHole hs p.id = some (a, b, nm) ∧
          l = (p.children.drop a).take (b + 1 - a) ∧ a ≤ b ∧ b < p.children.length ∧
          (p.children.drop (b + 1)).all (trailTok hs) = true) := by
      intro hidx' hokc hokcs hm
      rcases List.mem_append.1 hm with hm | hm
      · obtain ⟨p, hp, h⟩ := mem_bindsM_ok c hokc hm
        exact .inr ⟨p, by simp [Tree.preorderList, hp], h⟩
      · rcases mem_bindsMList_ok cs run (idx + 1) hidx' hokcs hm with ⟨a, b, hr, hl⟩ | ⟨p, hp, h⟩
        · refine .inl ⟨a, b, hr, ?_⟩
          have := hidx' a b nm hr
          have e : a - idx = (a - (idx + 1)) + 1 := by omega
          rw [e, List.drop_succ_cons]
          exact hl
        · exact .inr ⟨p, by simp [Tree.preorderList, hp], h⟩
    match run, hidx, hok, hmem, key with
    | none, _, hok, hmem, key =>
      simp only [bindsMList] at hmem
      simp only [cutOKList, Bool.and_eq_true] at hok
      exact key (fun _ _ _ h => by cases h) hok.1.2 hok.2 hmem
    | some (a, b, w), hidx, hok, hmem, key =>
      simp only [bindsMList] at hmem
      split at hmem
      · next hle =>
        have := hidx a b w rfl
        have e : a - idx = 0 := by omega
        have hlt : ¬ idx < a := by omega
        simp only [cutOKList, hlt, if_false, Bool.and_eq_true, beq_iff_eq, decide_eq_true_eq] at hok
        simp only [List.mem_singleton, Prod.mk.injEq] at hmem
        obtain ⟨rfl, rfl⟩ := hmem
        exact .inl ⟨a, b, rfl, by rw [e]; rfl, hok.1.1.2, by rw [e]; exact hok.1.2, by rw [e]; exact hok.2⟩
      · next hle =>
        have hlt : idx < a := by omega
        simp only [cutOKList, hlt, if_true, Bool.and_eq_true] at hok
        refine key ?_ hok.1.2 hok.2 hmem
        intro a' b' w' h
        simp only [Option.some.injEq, Prod.mk.injEq] at h
        omega
end

end AGV
