/-
The literal prefilter of the CLI (`Pattern::fixed_string`, `filter_file_pattern`) — C01.

From the alignment a successful match produces (`matchNode_sound`, C03): every pattern token that
is *compared by text* and *cannot be skipped* is the text of a node of the matched subtree, hence
(nested byte ranges) a contiguous part of the matched node's text.
-/
import AstGrepVerif.Model.Pattern
import AstGrepVerif.Lemmas.MatchNodes

set_option linter.unusedSimpArgs false
set_option linter.unusedVariables false

namespace AGV

open Spec

/-! ## Byte slices -/

theorem slice_infix (src : Bytes) (A a b B : Nat) (h1 : A ≤ a) (h2 : b ≤ B) :
    (src.drop a).take (b - a) <:+: (src.drop A).take (B - A) := by
  have e : (src.drop a).take (b - a) = (((src.drop A).take (B - A)).drop (a - A)).take (b - a) := by
    rw [List.drop_take, List.drop_drop, List.take_take]
    have : A + (a - A) = a := by omega
    rw [this]
    congr 1
    omega
  rw [e]
  exact (List.take_prefix _ _).isInfix.trans (List.drop_suffix _ _).isInfix

/-- the text of a node is a contiguous part of the source -/
theorem Tree.text_infix_src (src : Bytes) (t : Tree) : Tree.text src t <:+: src :=
  (List.take_prefix _ _).isInfix.trans (List.drop_suffix _ _).isInfix

/-- in a tree with nested byte ranges the text of a descendant is a contiguous part of the
text of the node -/
theorem Tree.text_infix_of_mem (src : Bytes) {c d : Tree} (hwf : Tree.WF c) (hd : d ∈ c.preorder) :
    Tree.text src d <:+: Tree.text src c := by
  have hb := Tree.wf_bounds c hwf d hd
  exact slice_infix src c.start d.start d.stop c.stop hb.1 hb.2.2

mutual
/-- every node of a tree with well-formed byte ranges has well-formed byte ranges -/
theorem Tree.wf_of_mem : (t : Tree) → t.wf = true → ∀ d ∈ t.preorder, d.wf = true
  | .node i cs, h, d, hd => by
    simp only [Tree.preorder, List.mem_cons] at hd
    rcases hd with rfl | hd
    · exact h
    · simp only [Tree.wf, Bool.and_eq_true, decide_eq_true_eq] at h
      exact Tree.wfList_of_mem i.start i.stop cs h.2 d hd
theorem Tree.wfList_of_mem : (lo hi : Nat) → (ts : List Tree) → Tree.wfList lo hi ts = true →
    ∀ d ∈ Tree.preorderList ts, d.wf = true
  | lo, hi, [], h, d, hd => by simp [Tree.preorderList] at hd
  | lo, hi, t :: ts, h, d, hd => by
    simp only [Tree.wfList, Bool.and_eq_true, decide_eq_true_eq] at h
    simp only [Tree.preorderList, List.mem_append] at hd
    rcases hd with hd | hd
    · exact Tree.wf_of_mem t h.1.2 d hd
    · exact Tree.wfList_of_mem t.stop hi ts h.2 d hd
end

/-! ## The tokens of a pattern -/

mutual
/-- all `Terminal`s of a pattern: text, named flag, kind -/
def PNode.toks : PNode → List (Bytes × Bool × Nat)
  | .terminal text named kind => [(text, named, kind)]
  | .metaVar _ => []
  | .internal _ cs => PNode.toksList cs
def PNode.toksList : List PNode → List (Bytes × Bool × Nat)
  | [] => []
  | p :: ps => p.toks ++ PNode.toksList ps
end

theorem PNode.toksList_append (a b : List PNode) :
    PNode.toksList (a ++ b) = PNode.toksList a ++ PNode.toksList b := by
  induction a with
  | nil => simp [PNode.toksList]
  | cons x xs ih => simp [PNode.toksList, ih]

mutual
/-- `fixed_string` is empty or the text of one of the pattern's tokens -/
theorem fixedString_mem : (p : PNode) →
    fixedString p = [] ∨ ∃ named k, (fixedString p, named, k) ∈ p.toks
  | .terminal text named kind => .inr ⟨named, kind, by simp [fixedString, PNode.toks]⟩
  | .metaVar _ => .inl (by simp [fixedString])
  | .internal _ cs => by
    simp only [fixedString, PNode.toks]
    rcases fixedStringList_mem cs [] with h | h
    · exact .inl h
    · exact .inr h
theorem fixedStringList_mem : (ps : List PNode) → (longest : Bytes) →
    fixedStringList ps longest = longest ∨
      ∃ named k, (fixedStringList ps longest, named, k) ∈ PNode.toksList ps
  | [], longest => .inl (by simp [fixedStringList])
  | p :: ps, longest => by
    simp only [fixedStringList, PNode.toksList, List.mem_append]
    split
    · rcases fixedStringList_mem ps longest with h | ⟨n, k, h⟩
      · exact .inl h
      · exact .inr ⟨n, k, .inr h⟩
    · next hlen =>
      rcases fixedStringList_mem ps (fixedString p) with h | ⟨n, k, h⟩
      · rw [h]
        rcases fixedString_mem p with h0 | ⟨n, k, h1⟩
        · exfalso
          rw [h0] at hlen
          simp at hlen
        · exact .inr ⟨n, k, .inl h1⟩
      · exact .inr ⟨n, k, .inr h⟩
end

mutual
/-- `fixed_string_named` is empty or the text of one of the pattern's *named* tokens -/
theorem fixedStringNamed_mem : (p : PNode) →
    fixedStringNamed p = [] ∨ ∃ k, (fixedStringNamed p, true, k) ∈ p.toks
  | .terminal text named kind => by
    cases named with
    | true => exact .inr ⟨kind, by simp [fixedStringNamed, PNode.toks]⟩
    | false => exact .inl (by simp [fixedStringNamed])
  | .metaVar _ => .inl (by simp [fixedStringNamed])
  | .internal _ cs => by
    simp only [fixedStringNamed, PNode.toks]
    rcases fixedStringNamedList_mem cs [] with h | h
    · exact .inl h
    · exact .inr h
theorem fixedStringNamedList_mem : (ps : List PNode) → (longest : Bytes) →
    fixedStringNamedList ps longest = longest ∨
      ∃ k, (fixedStringNamedList ps longest, true, k) ∈ PNode.toksList ps
  | [], longest => .inl (by simp [fixedStringNamedList])
  | p :: ps, longest => by
    simp only [fixedStringNamedList, PNode.toksList, List.mem_append]
    split
    · rcases fixedStringNamedList_mem ps longest with h | ⟨k, h⟩
      · exact .inl h
      · exact .inr ⟨k, .inr h⟩
    · next hlen =>
      rcases fixedStringNamedList_mem ps (fixedStringNamed p) with h | ⟨k, h⟩
      · rw [h]
        rcases fixedStringNamed_mem p with h0 | ⟨k, h1⟩
        · exfalso
          rw [h0] at hlen
          simp at hlen
        · exact .inr ⟨k, .inl h1⟩
      · exact .inr ⟨k, .inr h⟩
end

/-! ## No unnamed token directly after an ellipsis -/

mutual
/-- in no child list an ellipsis (`$$$`, `$$$A`) is directly followed by an unnamed token: such
tokens are dropped by the matcher without being compared with anything -/
def PNode.clean : PNode → Bool
  | .internal _ cs => PNode.cleanList cs
  | _ => true
def PNode.cleanList : List PNode → Bool
  | [] => true
  | p :: ps =>
    p.clean && !(isEllipsis p && (match ps with | q :: _ => q.isTrivial | [] => false)) &&
      PNode.cleanList ps
end

/-! ## Every tracked token hits a node of the candidate -/

/-- token `tok` of the pattern was compared successfully with node `d` -/
def TokHit (s : Strictness) (src : Bytes) (tok : Bytes × Bool × Nat) (d : Tree) : Prop :=
  kindsMatch tok.2.2 d.kind = true ∧ (tok.2.1 = false ∨ tok.1 = d.text src ∨ s = .signature)

/-- which tokens are tracked: the named ones (any strictness), or all of them (only under
`cst`/`smart`, in a pattern without unnamed tokens after an ellipsis) -/
def Tracked (s : Strictness) (all : Bool) (tok : Bytes × Bool × Nat) : Prop :=
  if all then (s = .cst ∨ s = .smart) else tok.2.1 = true

theorem tracked_not_mid {s : Strictness} {all : Bool} {text : Bytes} {named : Bool} {k : Nat}
    (h : Tracked s all (text, named, k)) : goalSkippableMid s (.terminal text named k) = false := by
  unfold Tracked at h
  cases all with
  | true => rcases h with rfl | rfl <;> rfl
  | false =>
    simp only [Bool.false_eq_true, if_false] at h
    subst h
    cases s <;> rfl

theorem tracked_not_end {s : Strictness} {all : Bool} {text : Bytes} {named : Bool} {k : Nat}
    (h : Tracked s all (text, named, k)) : goalSkippableEnd s (.terminal text named k) = false := by
  unfold Tracked at h
  cases all with
  | true => rcases h with rfl | rfl <;> rfl
  | false =>
    simp only [Bool.false_eq_true, if_false] at h
    subst h
    cases s <;> rfl

theorem internal_not_end (s : Strictness) (k : Nat) (cs : List PNode) :
    goalSkippableEnd s (.internal k cs) = false := by
  cases s <;> rfl

theorem toks_of_skippable_mid {s : Strictness} {p : PNode} (h : goalSkippableMid s p = true) :
    ∃ text k, p = .terminal text false k := by
  cases p with
  | terminal text named k =>
    cases named with
    | false => exact ⟨text, k, rfl⟩
    | true => cases s <;> simp [goalSkippableMid] at h
  | metaVar mv => cases s <;> simp [goalSkippableMid] at h
  | internal k cs => cases s <;> simp [goalSkippableMid] at h

theorem trivial_is_unnamed {p : PNode} (h : p.isTrivial = true) :
    ∃ text k, p = .terminal text false k := by
  cases p with
  | terminal text named k =>
    cases named with
    | false => exact ⟨text, k, rfl⟩
    | true => simp [PNode.isTrivial] at h
  | metaVar mv => simp [PNode.isTrivial] at h
  | internal k cs => simp [PNode.isTrivial] at h

theorem ellipsis_no_toks {p : PNode} (h : isEllipsis p = true) : p.toks = [] := by
  cases p with
  | metaVar mv => simp [PNode.toks]
  | terminal text named k => simp [isEllipsis] at h
  | internal k cs => simp [isEllipsis] at h

theorem cleanList_tail {p : PNode} {ps : List PNode} (h : PNode.cleanList (p :: ps) = true) :
    p.clean = true ∧ PNode.cleanList ps = true := by
  simp only [PNode.cleanList, Bool.and_eq_true] at h
  exact ⟨h.1.1, h.2⟩

theorem no_tracked_skippable_end {s : Strictness} {all : Bool} {tok : Bytes × Bool × Nat}
    (htr : Tracked s all tok) :
    ∀ ps : List PNode, (∀ p ∈ ps, goalSkippableEnd s p = true) → tok ∈ PNode.toksList ps → False := by
  intro ps
  induction ps with
  | nil => intro _ htok; simp [PNode.toksList] at htok
  | cons p ps ih =>
    intro h htok
    simp only [PNode.toksList, List.mem_append] at htok
    rcases htok with htok | htok
    · have hp := h p List.mem_cons_self
      cases p with
      | terminal text named k =>
        simp only [PNode.toks, List.mem_singleton] at htok
        subst htok
        rw [tracked_not_end htr] at hp
        cases hp
      | metaVar mv => simp [PNode.toks] at htok
      | internal k cs =>
        rw [internal_not_end] at hp
        cases hp
    · exact ih (fun q hq => h q (List.mem_cons_of_mem _ hq)) htok

theorem no_tracked_named_in_trivs {s : Strictness} {tok : Bytes × Bool × Nat}
    (htr : Tracked s false tok) :
    ∀ trivs : List PNode, (∀ t ∈ trivs, t.isTrivial = true) → tok ∈ PNode.toksList trivs → False := by
  intro trivs
  induction trivs with
  | nil => intro _ htok; simp [PNode.toksList] at htok
  | cons t ts ih =>
    intro h2 htok
    simp only [PNode.toksList, List.mem_append] at htok
    rcases htok with htok | htok
    · obtain ⟨text, k, rfl⟩ := trivial_is_unnamed (h2 t List.mem_cons_self)
      simp only [PNode.toks, List.mem_singleton] at htok
      subst htok
      simp [Tracked] at htr
    · exact ih (fun q hq => h2 q (List.mem_cons_of_mem _ hq)) htok

mutual
theorem aligns_hits (s : Strictness) (src : Bytes) (ok : MetaVar → Tree → Prop) (all : Bool) :
    (p : PNode) → (c : Tree) → Aligns s src ok p c → (all = true → p.clean = true) →
      ∀ tok ∈ p.toks, Tracked s all tok → ∃ d ∈ c.preorder, TokHit s src tok d
  | _, _, .terminal text named kind c hk ht, _, tok, htok, _ => by
    simp only [PNode.toks, List.mem_singleton] at htok
    subst htok
    exact ⟨c, Tree.mem_preorder_self c, hk, ht⟩
  | _, _, .hole mv c h, _, tok, htok, _ => by simp [PNode.toks] at htok
  | _, _, .internal kind ps c hk hne hl, hcl, tok, htok, htr => by
    simp only [PNode.toks] at htok
    obtain ⟨d, hd, hit⟩ := alignsL_hits s src ok all ps c.children hl
      (fun ha => by have := hcl ha; simpa [PNode.clean] using this) tok htok htr
    exact ⟨d, Below.of_children hd, hit⟩
theorem alignsL_hits (s : Strictness) (src : Bytes) (ok : MetaVar → Tree → Prop) (all : Bool) :
    (ps : List PNode) → (cs : List Tree) → AlignsL s src ok ps cs →
      (all = true → PNode.cleanList ps = true) →
      ∀ tok ∈ PNode.toksList ps, Tracked s all tok → ∃ d ∈ Tree.preorderList cs, TokHit s src tok d
  | _, _, .done cs h, _, tok, htok, _ => by simp [PNode.toksList] at htok
  | _, _, .goalsLeft ps h, _, tok, htok, htr =>
    (no_tracked_skippable_end htr ps h htok).elim
  | _, _, .both p c ps cs h hl, hcl, tok, htok, htr => by
    simp only [PNode.toksList, List.mem_append] at htok
    simp only [Tree.preorderList, List.mem_append]
    rcases htok with htok | htok
    · obtain ⟨d, hd, hit⟩ := aligns_hits s src ok all p c h
        (fun ha => (cleanList_tail (hcl ha)).1) tok htok htr
      exact ⟨d, .inl hd, hit⟩
    · obtain ⟨d, hd, hit⟩ := alignsL_hits s src ok all ps cs hl
        (fun ha => (cleanList_tail (hcl ha)).2) tok htok htr
      exact ⟨d, .inr hd, hit⟩
  | _, _, .skipCand c ps cs h hl, hcl, tok, htok, htr => by
    obtain ⟨d, hd, hit⟩ := alignsL_hits s src ok all ps cs hl hcl tok htok htr
    simp only [Tree.preorderList, List.mem_append]
    exact ⟨d, .inr hd, hit⟩
  | _, _, .skipGoal p ps cs h hl, hcl, tok, htok, htr => by
    simp only [PNode.toksList, List.mem_append] at htok
    rcases htok with htok | htok
    · exfalso
      obtain ⟨text, k, rfl⟩ := toks_of_skippable_mid h
      simp only [PNode.toks, List.mem_singleton] at htok
      subst htok
      rw [tracked_not_mid htr] at h
      cases h
    · exact alignsL_hits s src ok all ps cs hl (fun ha => (cleanList_tail (hcl ha)).2) tok htok htr
  | _, _, .ellipsis p trivs ps run cs h1 h2 hl, hcl, tok, htok, htr => by
    simp only [PNode.toksList, PNode.toksList_append, List.mem_append, ellipsis_no_toks h1,
      List.not_mem_nil, false_or] at htok
    have hps : all = true → PNode.cleanList ps = true := by
      intro ha
      have hc := hcl ha
      cases trivs with
      | nil => simpa using (cleanList_tail hc).2
      | cons t ts =>
        exfalso
        have ht := h2 t List.mem_cons_self
        simp [PNode.cleanList, h1, ht] at hc
    rcases htok with htok | htok
    · exfalso
      -- a tracked token among the tokens dropped after the ellipsis
      cases hall : all with
      | false =>
        subst hall
        exact no_tracked_named_in_trivs htr trivs h2 htok
      | true =>
        have hc := hcl hall
        cases trivs with
        | nil => simp [PNode.toksList] at htok
        | cons t ts =>
          have ht := h2 t List.mem_cons_self
          simp [PNode.cleanList, h1, ht] at hc
    · obtain ⟨d, hd, hit⟩ := alignsL_hits s src ok all ps cs hl hps tok htok htr
      simp only [Tree.preorderList_append, List.mem_append]
      exact ⟨d, .inr hd, hit⟩
end

/-! ## The literal is part of the matched text -/

/-- a compared-by-text token is a contiguous part of the candidate's text -/
theorem tokHit_infix {s : Strictness} {src : Bytes} {text : Bytes} {k : Nat} {c d : Tree}
    (hs : s ≠ .signature) (hwf : Tree.WF c) (hd : d ∈ c.preorder)
    (hit : TokHit s src (text, true, k) d) : text <:+: Tree.text src c := by
  rcases hit.2 with h | h | h
  · cases h
  · simp only at h
    rw [h]
    exact Tree.text_infix_of_mem src hwf hd
  · exact absurd h hs

section
variable {σ : Type} (agg : Agg σ)

/-- **`fixed_string_named` is sound** (every strictness except `signature`, any aggregator):
when the pattern matches a node, the longest named literal is a contiguous part of the node's
text -/
theorem fixedStringNamed_infix (s : Strictness) (hs : s ≠ .signature) (src : Bytes) (fuel : Nat)
    (p : PNode) (hp : PatternWF p) (c : Tree) (hwf : Tree.WF c) (st st' : σ)
    (h : matchNode agg s src fuel p c st = .ok (.matchedBoth, st')) :
    fixedStringNamed p <:+: Tree.text src c := by
  have hal : Aligns s src (fun _ _ => True) p c :=
    matchNode_sound agg s src (fun _ _ => True) (fun _ _ _ _ _ => trivial) fuel p hp c st st' h
  rcases fixedStringNamed_mem p with h0 | ⟨k, hk⟩
  · rw [h0]; exact List.nil_infix
  · obtain ⟨d, hd, hit⟩ := aligns_hits s src _ false p c hal (fun h => by cases h) _ hk
      (by simp [Tracked])
    exact tokHit_infix hs hwf hd hit

/-- the candidate's tokens carry the text the pattern's unnamed tokens of the same kind have
(what `fixed_string` silently assumes: "a keyword has one spelling") -/
def TokensFaithful (src : Bytes) (p : PNode) (c : Tree) : Prop :=
  ∀ text k, (text, false, k) ∈ p.toks → ∀ d ∈ c.preorder, kindsMatch k d.kind = true →
    Tree.text src d = text

/-- **`fixed_string` (all tokens) is sound under `cst`/`smart` only with two more hypotheses**:
the unnamed tokens are spelled in the candidate as in the pattern, and no unnamed token follows
an ellipsis directly -/
theorem fixedString_infix (s : Strictness) (hs : s = .cst ∨ s = .smart) (src : Bytes) (fuel : Nat)
    (p : PNode) (hp : PatternWF p) (hcl : p.clean = true) (c : Tree) (hwf : Tree.WF c)
    (hf : TokensFaithful src p c) (st st' : σ)
    (h : matchNode agg s src fuel p c st = .ok (.matchedBoth, st')) :
    fixedString p <:+: Tree.text src c := by
  have hal : Aligns s src (fun _ _ => True) p c :=
    matchNode_sound agg s src (fun _ _ => True) (fun _ _ _ _ _ => trivial) fuel p hp c st st' h
  have hns : s ≠ .signature := by rcases hs with rfl | rfl <;> simp
  rcases fixedString_mem p with h0 | ⟨named, k, hk⟩
  · rw [h0]; exact List.nil_infix
  · obtain ⟨d, hd, hit⟩ := aligns_hits s src _ true p c hal (fun _ => hcl) _ hk
      (by simp [Tracked, hs])
    cases named with
    | true => exact tokHit_infix hns hwf hd hit
    | false =>
      rw [← hf _ k hk d hd hit.1]
      exact Tree.text_infix_of_mem src hwf hd

end

/-! ## `filter_file_pattern` -/

theorem prefilterKeeps_of_infix (p : PNode) (s : Strictness) (file : Bytes)
    (h : patternFixedString p s <:+: file) : prefilterKeeps p s file = true := by
  obtain ⟨pre, suf, hfile⟩ := h
  simp only [prefilterKeeps, Bool.or_eq_true]
  refine .inr (List.any_eq_true.2 ⟨pre.length, ?_, ?_⟩)
  · rw [List.mem_range, ← hfile]
    simp only [List.length_append]
    omega
  · rw [← hfile]
    simp

theorem prefilterKeeps_signature (p : PNode) (file : Bytes) :
    prefilterKeeps p .signature file = true := by
  simp [prefilterKeeps, patternFixedString]

end AGV
