/-
Lemmas about the rewriter's splice (`Model/Rewrite.lean`): its overlap skipping is the same greedy
filter as the CLI's `process_diffs_interactive`, on positions relative to the captured slice.
-/
import AstGrepVerif.Lemmas.Interactive

set_option linter.unusedSimpArgs false

namespace AGV
open Spec

/-- an edit with absolute position, seen relative to the captured slice starting at `offset` -/
def REdit.rel (offset : Nat) (e : REdit) : Diff :=
  { start := e.position - offset, stop := e.position - offset + e.deleted, rep := e.inserted }

theorem REdit.rel_wf (offset : Nat) (e : REdit) : (e.rel offset).start ≤ (e.rel offset).stop := by
  simp [REdit.rel]

theorem byteSlice_ok {s : Bytes} {a b : Nat} (hab : a ≤ b) (hb : b ≤ s.length) :
    byteSlice s a b = .ok ((s.drop a).take (b - a)) := by
  simp [byteSlice, hab, hb]

theorem makeEditGo_eq_segments (old : Bytes) (offset : Nat) :
    ∀ (edits : List REdit) (start : Nat), (∀ e ∈ edits, offset ≤ e.position) → start ≤ old.length →
      (∀ d ∈ processDiffsGo start (edits.map (REdit.rel offset)), d.stop ≤ old.length) →
      makeEditGo old offset start edits
        = .ok (segments old start ((processDiffsGo start (edits.map (REdit.rel offset))).map Diff.toEdit)) := by
  intro edits
  induction edits with
  | nil =>
    intro start _ hs _
    simp [makeEditGo, byteSliceFrom, hs, processDiffsGo, segments]
  | cons e es ih =>
    intro start hpos hs hin
    have hp := hpos e (List.mem_cons_self ..)
    have hpos' : ∀ x ∈ es, offset ≤ x.position := fun x hx => hpos x (List.mem_cons_of_mem _ hx)
    simp only [makeEditGo, subUsize, hp, if_true, List.map_cons, processDiffsGo]
    by_cases hc : start > e.position - offset
    · have hc' : (REdit.rel offset e).start < start := hc
      simp only [processDiffsGo, List.map_cons, hc'] at hin
      have := ih start hpos' hs hin
      simp only [bind, Except.bind, pure, Except.pure, hc, hc', if_true]
      exact this
    · have hc' : ¬ (REdit.rel offset e).start < start := hc
      simp only [processDiffsGo, List.map_cons, hc', if_false] at hin
      have hstop : e.position - offset + e.deleted ≤ old.length := hin _ (List.mem_cons_self ..)
      have := ih (e.position - offset + e.deleted) hpos' hstop
        (fun d hd => hin d (List.mem_cons_of_mem _ hd))
      have hle : start ≤ e.position - offset := by omega
      simp only [bind, Except.bind, pure, Except.pure, hc, hc', if_false,
        byteSlice_ok hle (by omega : e.position - offset ≤ old.length), List.map_cons, segments]
      rw [this]
      rfl

theorem joinWith_cons {α : Type} (sep x : List α) (xs : List (List α)) :
    joinWith sep (x :: xs) = x ++ xs.flatMap (fun y => sep ++ y) := by
  induction xs generalizing x with
  | nil => simp [joinWith]
  | cons y ys ih => simp [joinWith, ih y, List.flatMap_cons]

theorem joinByGo_eq (start : Nat) (joiner : Bytes) :
    ∀ (edits : List REdit) (pos : Nat), (∀ e ∈ edits, start ≤ e.position) →
      joinByGo start joiner pos edits
        = .ok ((processDiffsGo pos (edits.map (REdit.rel start))).flatMap (fun d => joiner ++ d.rep)) := by
  intro edits
  induction edits with
  | nil => intro pos _; rfl
  | cons e es ih =>
    intro pos hpos
    have hp := hpos e (List.mem_cons_self ..)
    have hpos' : ∀ x ∈ es, start ≤ x.position := fun x hx => hpos x (List.mem_cons_of_mem _ hx)
    simp only [joinByGo, subUsize, hp, if_true, List.map_cons, processDiffsGo]
    by_cases hc : pos > e.position - start
    · have hc' : (REdit.rel start e).start < pos := hc
      simp only [bind, Except.bind, pure, Except.pure, hc, hc', if_true]
      exact ih pos hpos'
    · have hc' : ¬ (REdit.rel start e).start < pos := hc
      simp only [bind, Except.bind, pure, Except.pure, hc, hc', if_false]
      rw [ih _ hpos']
      simp [List.flatMap_cons, REdit.rel]

end AGV
