/-
Lemmas about the rewriter's splice (`Model/Rewrite.lean`): its overlap skipping is the same greedy
filter as the CLI's `process_diffs_interactive`, on positions relative to the captured slice.
Second part: the repaired splice (`makeEditFixed`/`joinByFixed`) never fails, is the closed form on
the clamped edits, and agrees with the pinned one wherever that one does not panic.
-/
import AstGrepVerif.Lemmas.Interactive

set_option linter.unusedSimpArgs false

namespace AGV
open Spec

/-- an edit with absolute position, seen relative to the captured slice starting at `offset` -/
def REdit.rel (offset : Nat) (e : REdit) : Diff :=
  { start := e.position - offset, stop := e.position - offset + e.deleted, rep := e.inserted }

theorem REdit.rel_wf (offset : Nat) (e : REdit) : (e.rel offset).start ≤ (e.rel offset).stop := by
  simp [REdit.rel]

theorem byteSlice_ok {s : Bytes} {a b : Nat} (hab : a ≤ b) (hb : b ≤ s.length) :
    byteSlice s a b = .ok ((s.drop a).take (b - a)) := by
  simp [byteSlice, hab, hb]

theorem makeEditGo_eq_segments (old : Bytes) (offset : Nat) :
    ∀ (edits : List REdit) (start : Nat), (∀ e ∈ edits, offset ≤ e.position) → start ≤ old.length →
      (∀ d ∈ processDiffsGo start (edits.map (REdit.rel offset)), d.stop ≤ old.length) →
      makeEditGo old offset start edits
        = .ok (segments old start ((processDiffsGo start (edits.map (REdit.rel offset))).map Diff.toEdit)) := by
  intro edits
  induction edits with
  | nil =>
    intro start _ hs _
    simp [makeEditGo, byteSliceFrom, hs, processDiffsGo, segments]
  | cons e es ih =>
    intro start hpos hs hin
    have hp := hpos e (List.mem_cons_self ..)
    have hpos' : ∀ x ∈ es, offset ≤ x.position := fun x hx => hpos x (List.mem_cons_of_mem _ hx)
    simp only [makeEditGo, subUsize, hp, if_true, List.map_cons, processDiffsGo]
    by_cases hc : start > e.position - offset
    · have hc' : (REdit.rel offset e).start < start := hc
      simp only [processDiffsGo, List.map_cons, hc'] at hin
      have := ih start hpos' hs hin
      simp only [bind, Except.bind, pure, Except.pure, hc, hc', if_true]
      exact this
    · have hc' : ¬ (REdit.rel offset e).start < start := hc
      simp only [processDiffsGo, List.map_cons, hc', if_false] at hin
      have hstop : e.position - offset + e.deleted ≤ old.length := hin _ (List.mem_cons_self ..)
      have := ih (e.position - offset + e.deleted) hpos' hstop
        (fun d hd => hin d (List.mem_cons_of_mem _ hd))
      have hle : start ≤ e.position - offset := by omega
      simp only [bind, Except.bind, pure, Except.pure, hc, hc', if_false,
        byteSlice_ok hle (by omega : e.position - offset ≤ old.length), List.map_cons, segments]
      rw [this]
      rfl

theorem joinWith_cons {α : Type} (sep x : List α) (xs : List (List α)) :
    joinWith sep (x :: xs) = x ++ xs.flatMap (fun y => sep ++ y) := by
  induction xs generalizing x with
  | nil => simp [joinWith]
  | cons y ys ih => simp [joinWith, ih y, List.flatMap_cons]

theorem joinByGo_eq (start : Nat) (joiner : Bytes) :
    ∀ (edits : List REdit) (pos : Nat), (∀ e ∈ edits, start ≤ e.position) →
      joinByGo start joiner pos edits
        = .ok ((processDiffsGo pos (edits.map (REdit.rel start))).flatMap (fun d => joiner ++ d.rep)) := by
  intro edits
  induction edits with
  | nil => intro pos _; rfl
  | cons e es ih =>
    intro pos hpos
    have hp := hpos e (List.mem_cons_self ..)
    have hpos' : ∀ x ∈ es, start ≤ x.position := fun x hx => hpos x (List.mem_cons_of_mem _ hx)
    simp only [joinByGo, subUsize, hp, if_true, List.map_cons, processDiffsGo]
    by_cases hc : pos > e.position - start
    · have hc' : (REdit.rel start e).start < pos := hc
      simp only [bind, Except.bind, pure, Except.pure, hc, hc', if_true]
      exact ih pos hpos'
    · have hc' : ¬ (REdit.rel start e).start < pos := hc
      simp only [bind, Except.bind, pure, Except.pure, hc, hc', if_false]
      rw [ih _ hpos']
      simp [List.flatMap_cons, REdit.rel]

/-! ### the repaired splice (`makeEditFixed`, `joinByFixed`) -/

/-- an edit as the repaired `make_edit` sees it: relative to the captured slice of length `len`,
both end-points clamped to the slice (`min … len`, `clamp(pos, len)`) -/
def REdit.relClamp (offset len : Nat) (e : REdit) : Diff :=
  { start := min (e.position - offset) len,
    stop := max (min (e.position - offset) len) (min (e.position + e.deleted - offset) len),
    rep := e.inserted }

theorem REdit.relClamp_wf (offset len : Nat) (e : REdit) :
    (e.relClamp offset len).start ≤ (e.relClamp offset len).stop := by
  simp only [REdit.relClamp]; omega

theorem REdit.relClamp_stop_le (offset len : Nat) (e : REdit) : (e.relClamp offset len).stop ≤ len := by
  simp only [REdit.relClamp]; omega

/-- an edit inside the slice is not changed by the clamping -/
theorem REdit.relClamp_eq_rel (offset len : Nat) (e : REdit) (hp : offset ≤ e.position)
    (hs : e.position - offset + e.deleted ≤ len) : e.relClamp offset len = e.rel offset := by
  simp only [REdit.relClamp, REdit.rel, Diff.mk.injEq, and_true]
  omega

/-- the repaired loop never fails (cursor inside the slice), and is the closed form of the
specification on the clamped edits kept by the greedy filter -/
theorem makeEditFixedGo_eq_segments (old : Bytes) (offset : Nat) :
    ∀ (edits : List REdit) (start : Nat), start ≤ old.length →
      makeEditFixedGo old offset start edits
        = .ok (segments old start
            ((processDiffsGo start (edits.map (REdit.relClamp offset old.length))).map Diff.toEdit)) := by
  intro edits
  induction edits with
  | nil =>
    intro start hs
    simp [makeEditFixedGo, byteSliceFrom, hs, processDiffsGo, segments]
  | cons e es ih =>
    intro start hs
    simp only [makeEditFixedGo, List.map_cons, processDiffsGo]
    by_cases hc : start > min (e.position - offset) old.length
    · have hc' : (REdit.relClamp offset old.length e).start < start := hc
      simp only [hc, hc', if_true]
      exact ih start hs
    · have hc' : ¬ (REdit.relClamp offset old.length e).start < start := hc
      have hle : start ≤ min (e.position - offset) old.length := by omega
      have hpl : min (e.position - offset) old.length ≤ old.length := Nat.min_le_right ..
      have hnext : max (min (e.position - offset) old.length)
          (min (e.position + e.deleted - offset) old.length) ≤ old.length := by omega
      simp only [bind, Except.bind, pure, Except.pure, hc, hc', if_false,
        byteSlice_ok hle hpl, List.map_cons, segments]
      rw [ih _ hnext]
      rfl

/-- a panic-free run of the pinned loop started with its cursor inside the slice -/
theorem makeEditGo_ok_start_le (old : Bytes) (offset : Nat) :
    ∀ (edits : List REdit) (start : Nat) (r : Bytes),
      makeEditGo old offset start edits = .ok r → start ≤ old.length := by
  intro edits
  induction edits with
  | nil =>
    intro start r h
    simp only [makeEditGo, byteSliceFrom] at h
    split at h
    · assumption
    · cases h
  | cons e es ih =>
    intro start r h
    simp only [makeEditGo, subUsize] at h
    by_cases hp : offset ≤ e.position
    · simp only [hp, if_true, bind, Except.bind] at h
      by_cases hc : start > e.position - offset
      · simp only [hc, if_true] at h
        exact ih start r h
      · simp only [hc, if_false, byteSlice] at h
        by_cases hb : start ≤ e.position - offset ∧ e.position - offset ≤ old.length
        · omega
        · simp only [hb, if_false] at h
          cases h
    · simp only [hp, if_false, bind, Except.bind] at h
      cases h

/-- **whenever the pinned loop does not panic the repaired loop returns the same bytes** -/
theorem makeEditFixedGo_eq_of_pinned_ok (old : Bytes) (offset : Nat) :
    ∀ (edits : List REdit) (start : Nat) (r : Bytes),
      makeEditGo old offset start edits = .ok r → makeEditFixedGo old offset start edits = .ok r := by
  intro edits
  induction edits with
  | nil => intro start r h; simpa [makeEditGo, makeEditFixedGo] using h
  | cons e es ih =>
    intro start r h
    simp only [makeEditGo, subUsize] at h
    simp only [makeEditFixedGo]
    by_cases hp : offset ≤ e.position
    · simp only [hp, if_true, bind, Except.bind] at h
      by_cases hc : start > e.position - offset
      · have hc' : start > min (e.position - offset) old.length := by omega
        simp only [hc, if_true] at h
        simp only [hc', if_true]
        exact ih start r h
      · simp only [hc, if_false, byteSlice] at h
        by_cases hb : start ≤ e.position - offset ∧ e.position - offset ≤ old.length
        · simp only [hb, and_self, if_true] at h
          cases hrest : makeEditGo old offset (e.position - offset + e.deleted) es with
          | error err => rw [hrest] at h; cases h
          | ok rest =>
            rw [hrest] at h
            have hlen := makeEditGo_ok_start_le old offset es _ rest hrest
            have hmin : min (e.position - offset) old.length = e.position - offset := by omega
            have hnext : max (e.position - offset) (min (e.position + e.deleted - offset) old.length)
                = e.position - offset + e.deleted := by omega
            have hc' : ¬ start > e.position - offset := hc
            simp only [hmin, hnext, hc', if_false, bind, Except.bind, byteSlice, hb, and_self, if_true,
              ih _ rest hrest]
            exact h
        · simp only [hb, if_false] at h
          cases h
    · simp only [hp, if_false, bind, Except.bind] at h
      cases h

/-- the repaired `joinBy` loop never fails and is the greedy filter on the (saturating) relative
positions, for ANY edit list -/
theorem joinByFixedGo_eq (start : Nat) (joiner : Bytes) :
    ∀ (edits : List REdit) (pos : Nat),
      joinByFixedGo start joiner pos edits
        = .ok ((processDiffsGo pos (edits.map (REdit.rel start))).flatMap (fun d => joiner ++ d.rep)) := by
  intro edits
  induction edits with
  | nil => intro pos; rfl
  | cons e es ih =>
    intro pos
    simp only [joinByFixedGo, List.map_cons, processDiffsGo]
    by_cases hc : pos > e.position - start
    · have hc' : (REdit.rel start e).start < pos := hc
      simp only [hc, hc', if_true]
      exact ih pos
    · have hc' : ¬ (REdit.rel start e).start < pos := hc
      simp only [bind, Except.bind, pure, Except.pure, hc, hc', if_false]
      rw [ih _]
      simp [List.flatMap_cons, REdit.rel]

/-- whenever the pinned `joinBy` loop does not panic the repaired one returns the same bytes -/
theorem joinByFixedGo_eq_of_pinned_ok (start : Nat) (joiner : Bytes) :
    ∀ (edits : List REdit) (pos : Nat) (r : Bytes),
      joinByGo start joiner pos edits = .ok r → joinByFixedGo start joiner pos edits = .ok r := by
  intro edits
  induction edits with
  | nil => intro pos r h; simpa [joinByGo, joinByFixedGo] using h
  | cons e es ih =>
    intro pos r h
    simp only [joinByGo, subUsize] at h
    simp only [joinByFixedGo]
    by_cases hp : start ≤ e.position
    · simp only [hp, if_true, bind, Except.bind] at h
      by_cases hc : pos > e.position - start
      · simp only [hc, if_true] at h ⊢
        exact ih pos r h
      · simp only [hc, if_false] at h ⊢
        cases hrest : joinByGo start joiner (e.position - start + e.deleted) es with
        | error err => rw [hrest] at h; cases h
        | ok rest =>
          rw [hrest] at h
          simp only [bind, Except.bind, ih _ rest hrest]
          exact h
    · simp only [hp, if_false, bind, Except.bind] at h
      cases h

end AGV
