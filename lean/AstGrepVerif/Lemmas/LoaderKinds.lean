/-
Potential kinds of the loader model (`potKinds`), declaratively: a rule "has potential kinds"
(`Pos`) when a kind-bearing matcher decides it — the relation the computed `Option (List Nat)`
is `some` for, given a registry whose stored kinds are coherent with it.
-/
import AstGrepVerif.Lemmas.LoaderIff

namespace AGV.Loader

open AGV AGV.Loader.Spec

mutual
/-- the rule can only match a known set of node kinds: one of its conjuncts pins the kind down -/
inductive Pos (S : List (Name × SRule)) (G : List GlobalUtil) : SRule → Prop where
  | part {ps p} : p ∈ ps → PosPart S G p → Pos S G (.mk ps)
inductive PosPart (S : List (Name × SRule)) (G : List GlobalUtil) : SPart → Prop where
  | pattern {ok vars ks} : PosPart S G (.pattern ok vars (some ks))
  | kind {ok id} : PosPart S G (.kind ok id)
  | ofRule {pos r rev} : Pos S G r → PosPart S G (.nthChild pos (some r) rev)
  | all {rs r} : r ∈ rs → Pos S G r → PosPart S G (.all rs)
  | any {rs} : (∀ r ∈ rs, Pos S G r) → PosPart S G (.any rs)
  | localUtil {id r} : alookup id S = some r → Pos S G r → PosPart S G (.matches id)
  | globalUtil {id g} : alookup id S = none → findGlobal G id = some g → g.kinds ≠ none →
      PosPart S G (.matches id)
end

/-! ### `All::compute_kinds` / `Any::compute_kinds` are `some` iff … -/

theorem foldl_all_ne_none (F : Option (List Nat) → Option (List Nat) → Option (List Nat))
    (h1 : ∀ acc, F acc none = acc) (h2 : ∀ acc n, F acc (some n) ≠ none) (l : List (Option (List Nat))) :
    ∀ acc : Option (List Nat), l.foldl F acc ≠ none ↔ acc ≠ none ∨ ∃ x ∈ l, x ≠ none := by
  induction l with
  | nil => intro acc; simp
  | cons x xs ih =>
    intro acc
    simp only [List.foldl_cons, List.mem_cons, exists_eq_or_imp]
    rw [ih]
    cases x with
    | none => simp [h1]
    | some n => simp [h2]

theorem allKinds_ne_none (l : List (Option (List Nat))) : allKinds l ≠ none ↔ ∃ x ∈ l, x ≠ none := by
  unfold allKinds
  rw [foldl_all_ne_none _ (fun acc => rfl) (fun acc n => by cases acc <;> simp)]
  simp

theorem foldl_any_ne_none (F : Option (List Nat) → Option (List Nat) → Option (List Nat))
    (h1 : ∀ s n, F (some s) (some n) ≠ none) (h2 : ∀ p, F none p = none) (h3 : ∀ acc, F acc none = none)
    (l : List (Option (List Nat))) :
    ∀ acc : Option (List Nat), l.foldl F acc ≠ none ↔ acc ≠ none ∧ ∀ x ∈ l, x ≠ none := by
  induction l with
  | nil => intro acc; simp
  | cons x xs ih =>
    intro acc
    simp only [List.foldl_cons, List.mem_cons, forall_eq_or_imp]
    rw [ih]
    cases x with
    | none => simp [h3]
    | some n =>
      cases acc with
      | none => simp [h2]
      | some s => simp [h1]

theorem anyKinds_ne_none (l : List (Option (List Nat))) : anyKinds l ≠ none ↔ ∀ x ∈ l, x ≠ none := by
  unfold anyKinds
  rw [foldl_any_ne_none _ (fun s n => by simp) (fun p => by cases p <;> rfl) (fun acc => by cases acc <;> rfl)]
  simp

theorem potKindsParts_eq_map (reg : Registry) (G : List GlobalUtil) : ∀ ps : List SPart,
    potKindsParts reg G ps = ps.map (potKindsPart reg G)
  | [] => rfl
  | p :: ps => by simp [potKindsParts, potKindsParts_eq_map reg G ps]

theorem potKindsList_eq_map (reg : Registry) (G : List GlobalUtil) : ∀ rs : List SRule,
    potKindsList reg G rs = rs.map (potKinds reg G)
  | [] => rfl
  | r :: rs => by simp [potKindsList, potKindsList_eq_map reg G rs]

/-! ### a coherent registry computes `Pos` -/

/-- the stored kinds of every registered utility agree with `Pos` -/
def KInv (S : List (Name × SRule)) (G : List GlobalUtil) (reg : Registry) : Prop :=
  ∀ u ∈ reg, alookup u.id S = some u.rule ∧ (u.kinds ≠ none ↔ Pos S G u.rule)

/-- every same-node reference of the rule is registered, or is no local utility at all -/
def Resolved (S : List (Name × SRule)) (reg : Registry) (r : SRule) : Prop :=
  ∀ id, RefsSame true r id → id ∈ reg.map (·.id) ∨ alookup id S = none

def ResolvedPart (S : List (Name × SRule)) (reg : Registry) (p : SPart) : Prop :=
  ∀ id, PartRefsSame true p id → id ∈ reg.map (·.id) ∨ alookup id S = none

theorem refKinds_iff {S : List (Name × SRule)} {G : List GlobalUtil} {reg : Registry} (hk : KInv S G reg)
    (id : Name) (hres : id ∈ reg.map (·.id) ∨ alookup id S = none) :
    refKinds reg G id ≠ none ↔ PosPart S G (.matches id) := by
  unfold refKinds Registry.find
  cases hf : reg.find? (·.id == id) with
  | some u =>
    simp only
    have hu : u ∈ reg := List.mem_of_find?_eq_some hf
    have hid : u.id = id := by simpa using List.find?_some hf
    obtain ⟨h1, h2⟩ := hk u hu
    rw [hid] at h1
    rw [h2]
    constructor
    · intro hp; exact .localUtil h1 hp
    · intro hp
      cases hp with
      | localUtil hl hp => rw [h1] at hl; injection hl with hl; exact hl ▸ hp
      | globalUtil hl _ _ => rw [h1] at hl; cases hl
  | none =>
    simp only
    have hnot : id ∉ reg.map (·.id) := by
      intro hm
      obtain ⟨u, hu, he⟩ := List.mem_map.mp hm
      have := List.find?_eq_none.mp hf u hu
      simp [he] at this
    have hS : alookup id S = none := hres.resolve_left hnot
    cases hg : findGlobal G id with
    | none =>
      simp only [ne_eq, not_true_eq_false, false_iff]
      intro hp
      cases hp with
      | localUtil hl _ => rw [hS] at hl; cases hl
      | globalUtil _ hg' _ => rw [hg] at hg'; cases hg'
    | some g =>
      simp only
      constructor
      · intro hp; exact .globalUtil hS hg hp
      · intro hp
        cases hp with
        | localUtil hl _ => rw [hS] at hl; cases hl
        | globalUtil _ hg' hk' => rw [hg] at hg'; injection hg' with hg'; exact hg' ▸ hk'

section
variable {S : List (Name × SRule)} {G : List GlobalUtil} {reg : Registry} (hk : KInv S G reg)
include hk

mutual
theorem potKinds_iff_pos : ∀ r : SRule, Resolved S reg r → (potKinds reg G r ≠ none ↔ Pos S G r)
  | .mk ps, hres => by
    simp only [potKinds]
    rw [allKinds_ne_none, potKindsParts_eq_map]
    have ih := potKindsParts_iff ps (fun p hp id hr => hres id (.part hp hr))
    constructor
    · rintro ⟨x, hx, hne⟩
      obtain ⟨p, hp, rfl⟩ := List.mem_map.mp hx
      exact .part hp ((ih p hp).mp hne)
    · intro hp
      cases hp with
      | part hp hpp => exact ⟨_, List.mem_map.mpr ⟨_, hp, rfl⟩, (ih _ hp).mpr hpp⟩
theorem potKindsParts_iff : ∀ ps : List SPart, (∀ p ∈ ps, ResolvedPart S reg p) →
    ∀ p ∈ ps, (potKindsPart reg G p ≠ none ↔ PosPart S G p)
  | [], _, p, hp => by cases hp
  | q :: qs, hres, p, hp => by
    rcases List.mem_cons.mp hp with e | e
    · rw [e]; exact potKindsPart_iff q (hres q List.mem_cons_self)
    · exact potKindsParts_iff qs (fun p' hp' => hres p' (List.mem_cons_of_mem _ hp')) p e
theorem potKindsPart_iff : ∀ p : SPart, ResolvedPart S reg p → (potKindsPart reg G p ≠ none ↔ PosPart S G p)
  | .pattern ok vars kinds, _ => by
    simp only [potKindsPart]
    cases kinds with
    | none => simp only [ne_eq, not_true_eq_false, false_iff]; intro h; cases h
    | some ks => simp only [ne_eq, reduceCtorEq, not_false_eq_true, true_iff]; exact .pattern
  | .kind ok id, _ => by
    simp only [potKindsPart, ne_eq, reduceCtorEq, not_false_eq_true, true_iff]; exact .kind
  | .regex _, _ => by simp only [potKindsPart, ne_eq, not_true_eq_false, false_iff]; intro h; cases h
  | .nthChild _ none _, _ => by
    simp only [potKindsPart, ne_eq, not_true_eq_false, false_iff]; intro h; cases h
  | .nthChild pos (some r) rev, hres => by
    simp only [potKindsPart]
    rw [potKinds_iff_pos r (fun id hr => hres id (.ofRule rfl hr))]
    exact ⟨fun h => .ofRule h, fun h => by cases h with | ofRule h => exact h⟩
  | .range _ _ _ _, _ => by simp only [potKindsPart, ne_eq, not_true_eq_false, false_iff]; intro h; cases h
  | .all rs, hres => by
    simp only [potKindsPart]
    rw [allKinds_ne_none, potKindsList_eq_map]
    have ih := potKindsList_iff rs (fun r hr id hrs => hres id (.all hr hrs))
    constructor
    · rintro ⟨x, hx, hne⟩
      obtain ⟨r, hr, rfl⟩ := List.mem_map.mp hx
      exact .all hr ((ih r hr).mp hne)
    · intro hp
      cases hp with
      | all hr hpr => exact ⟨_, List.mem_map.mpr ⟨_, hr, rfl⟩, (ih _ hr).mpr hpr⟩
  | .any rs, hres => by
    simp only [potKindsPart]
    rw [anyKinds_ne_none, potKindsList_eq_map]
    have ih := potKindsList_iff rs (fun r hr id hrs => hres id (.any hr hrs))
    constructor
    · intro hall
      refine .any fun r hr => (ih r hr).mp (hall _ (List.mem_map.mpr ⟨r, hr, rfl⟩))
    · intro hp x hx
      obtain ⟨r, hr, rfl⟩ := List.mem_map.mp hx
      cases hp with
      | any hall => exact (ih r hr).mpr (hall r hr)
  | .not _, _ => by simp only [potKindsPart, ne_eq, not_true_eq_false, false_iff]; intro h; cases h
  | .matches id, hres => by
    simp only [potKindsPart]
    exact refKinds_iff hk id (hres id .matches)
  | .inside _ _ _, _ => by simp only [potKindsPart, ne_eq, not_true_eq_false, false_iff]; intro h; cases h
  | .has _ _ _, _ => by simp only [potKindsPart, ne_eq, not_true_eq_false, false_iff]; intro h; cases h
  | .precedes _ _ _, _ => by simp only [potKindsPart, ne_eq, not_true_eq_false, false_iff]; intro h; cases h
  | .follows _ _ _, _ => by simp only [potKindsPart, ne_eq, not_true_eq_false, false_iff]; intro h; cases h
theorem potKindsList_iff : ∀ rs : List SRule, (∀ r ∈ rs, Resolved S reg r) →
    ∀ r ∈ rs, (potKinds reg G r ≠ none ↔ Pos S G r)
  | [], _, r, hr => by cases hr
  | q :: qs, hres, r, hr => by
    rcases List.mem_cons.mp hr with e | e
    · rw [e]; exact potKinds_iff_pos q (hres q List.mem_cons_self)
    · exact potKindsList_iff qs (fun r' hr' => hres r' (List.mem_cons_of_mem _ hr')) r e
end

end

/-- registering utilities one by one keeps the registry coherent, provided each one's same-node
references are resolved by what is registered before it -/
theorem kinv_extend {S : List (Name × SRule)} {G : List GlobalUtil} : ∀ (added reg : Registry),
    KInv S G reg →
    (∀ pre u post, added = pre ++ u :: post →
      u.kinds = potKinds (reg ++ pre) G u.rule ∧ alookup u.id S = some u.rule ∧
      Resolved S (reg ++ pre) u.rule) →
    KInv S G (reg ++ added)
  | [], reg, hk, _ => by simpa using hk
  | u :: rest, reg, hk, hall => by
    obtain ⟨h1, h2, h3⟩ := hall [] u rest rfl
    simp only [List.append_nil] at h1 h3
    have hk1 : KInv S G (reg ++ [u]) := by
      intro v hv
      rcases List.mem_append.mp hv with hv | hv
      · exact hk v hv
      · simp only [List.mem_singleton] at hv
        subst hv
        refine ⟨h2, ?_⟩
        rw [h1]
        exact potKinds_iff_pos hk v.rule h3
    have := kinv_extend rest (reg ++ [u]) hk1 (by
      intro pre v post he
      have := hall (u :: pre) v post (by simp [he])
      simpa using this)
    simpa using this

end AGV.Loader
