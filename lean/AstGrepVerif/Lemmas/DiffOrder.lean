/-
Helper lemmas for `Props/C18Order.lean`: the stable insertion sort by key keeps every class of
equal keys in place; a key-sorted list is determined by its classes; pre-order starts of a tree
with well-formed ranges are non-decreasing.
-/
import AstGrepVerif.Model.DiffOrder
import AstGrepVerif.Lemmas.Order
import AstGrepVerif.Lemmas.Cursor

set_option linter.unusedSimpArgs false
set_option linter.unusedVariables false

namespace AGV
open Topo

/-! ### the comparison -/

theorem DiffItem.keyLe_iff {a b : DiffItem} : DiffItem.keyLe a b = true ↔ a.key ≤ b.key := by
  simp [DiffItem.keyLe]

theorem DiffItem.keyLe_total (a b : DiffItem) : DiffItem.keyLe a b = true ∨ DiffItem.keyLe b a = true := by
  simp only [DiffItem.keyLe_iff]; omega

theorem DiffItem.keyLe_trans (a b c : DiffItem) :
    DiffItem.keyLe a b = true → DiffItem.keyLe b c = true → DiffItem.keyLe a c = true := by
  simp only [DiffItem.keyLe_iff]; omega

theorem sortedByKey_iff {l : List DiffItem} :
    SortedByKey l ↔ l.Pairwise (fun a b => DiffItem.keyLe a b = true) := by
  simp only [SortedByKey, DiffItem.keyLe_iff]

/-! ### the stable sort -/

theorem stableSortByKey_perm (l : List DiffItem) : (stableSortByKey l).Perm l :=
  sortByLe_perm _ l

theorem stableSortByKey_sorted (l : List DiffItem) : SortedByKey (stableSortByKey l) :=
  sortedByKey_iff.2 (sortByLe_sorted DiffItem.keyLe_total DiffItem.keyLe_trans l)

/-- the class of key `k` -/
abbrev keyClass (k : Nat) (l : List DiffItem) : List DiffItem := l.filter (fun x => x.key = k)

theorem keyClass_insert (k : Nat) (x : DiffItem) (l : List DiffItem) :
    keyClass k (insertByLe DiffItem.keyLe x l) = keyClass k (x :: l) := by
  induction l with
  | nil => simp [insertByLe]
  | cons y ys ih =>
    simp only [insertByLe]
    split
    · rfl
    · next hn =>
      have hlt : y.key < x.key := by
        have : ¬ x.key ≤ y.key := fun h => hn (DiffItem.keyLe_iff.2 h)
        omega
      simp only [keyClass, List.filter_cons] at ih ⊢
      rw [ih]
      by_cases hx : x.key = k
      · have hy : ¬ y.key = k := by omega
        simp [hx, hy]
      · simp [hx]

theorem keyClass_stableSort (k : Nat) (l : List DiffItem) :
    keyClass k (stableSortByKey l) = keyClass k l := by
  induction l with
  | nil => rfl
  | cons x xs ih =>
    have : stableSortByKey (x :: xs) = insertByLe DiffItem.keyLe x (stableSortByKey xs) := rfl
    rw [this, keyClass_insert]
    simp only [keyClass, List.filter_cons] at ih ⊢
    rw [ih]

/-- a sorted list is a fixed point of the insertion sort -/
theorem stableSortByKey_of_sorted (l : List DiffItem) (h : SortedByKey l) : stableSortByKey l = l := by
  induction l with
  | nil => rfl
  | cons x xs ih =>
    have hx : stableSortByKey (x :: xs) = insertByLe DiffItem.keyLe x (stableSortByKey xs) := rfl
    obtain ⟨h1, h2⟩ := List.pairwise_cons.1 h
    rw [hx, ih h2]
    cases xs with
    | nil => rfl
    | cons y ys =>
      have : DiffItem.keyLe x y = true := DiffItem.keyLe_iff.2 (h1 y (List.mem_cons_self ..))
      simp [insertByLe, this]

/-- **a key-sorted list is determined by its classes of equal keys** -/
theorem sorted_eq_of_keyClass_eq : ∀ (l1 l2 : List DiffItem), SortedByKey l1 → SortedByKey l2 →
    (∀ k, keyClass k l1 = keyClass k l2) → l1 = l2 := by
  intro l1
  induction l1 with
  | nil =>
    intro l2 _ _ h
    cases l2 with
    | nil => rfl
    | cons b l2 => have := h b.key; simp [keyClass] at this
  | cons a l1 ih =>
    intro l2 h1 h2 h
    cases l2 with
    | nil => have := h a.key; simp [keyClass] at this
    | cons b l2 =>
      obtain ⟨ha, h1'⟩ := List.pairwise_cons.1 h1
      obtain ⟨hb, h2'⟩ := List.pairwise_cons.1 h2
      have hmem1 : ∀ x, x ∈ a :: l1 ↔ x ∈ b :: l2 := by
        intro x
        have := congrArg (fun l => x ∈ l) (h x.key)
        simpa [keyClass, List.mem_filter] using this
      have hab : a = b := by
        by_cases hk : a.key = b.key
        · have := h a.key
          have e1 : keyClass a.key (a :: l1) = a :: keyClass a.key l1 := by simp [keyClass]
          have e2 : keyClass a.key (b :: l2) = b :: keyClass a.key l2 := by simp [keyClass, hk]
          rw [e1, e2] at this
          exact (List.cons.inj this).1
        · have h3 : a ∈ b :: l2 := (hmem1 a).1 (List.mem_cons_self ..)
          have h4 : b ∈ a :: l1 := (hmem1 b).2 (List.mem_cons_self ..)
          rcases List.mem_cons.1 h3 with h3 | h3
          · exact h3
          · rcases List.mem_cons.1 h4 with h4 | h4
            · exact h4.symm
            · have := ha b h4; have := hb a h3; omega
      subst hab
      congr 1
      refine ih l2 h1' h2' fun k => ?_
      have := h k
      simp only [keyClass, List.filter_cons] at this
      split at this
      · exact (List.cons.inj this).2
      · exact this

/-- permuting a list with pairwise different keys does not change a class (it has ≤ 1 element) -/
theorem keyClass_perm_of_nodup_keys (k : Nat) (l1 l2 : List DiffItem) (hp : l1.Perm l2)
    (hnd : (l1.map (·.key)).Nodup) : keyClass k l1 = keyClass k l2 := by
  have hp' : (keyClass k l1).Perm (keyClass k l2) := hp.filter _
  have hlen : (keyClass k l1).length ≤ 1 := by
    clear hp hp'
    induction l1 with
    | nil => simp [keyClass]
    | cons x xs ih =>
      simp only [List.map_cons, List.nodup_cons] at hnd
      simp only [keyClass, List.filter_cons]
      split
      · next hx =>
        have hx : x.key = k := by simpa using hx
        have : keyClass k xs = [] := by
          simp only [keyClass, List.filter_eq_nil_iff]
          intro y hy hyk
          have hyk : y.key = k := by simpa using hyk
          exact hnd.1 (List.mem_map.2 ⟨y, hy, by omega⟩)
        simp only [keyClass] at this
        simp [this]
      · exact ih hnd.2
  match h3 : keyClass k l1, h4 : keyClass k l2 with
  | [], [] => rfl
  | [], _ :: _ => rw [h3, h4] at hp'; exact absurd hp'.length_eq (by simp)
  | _ :: _, [] => rw [h3, h4] at hp'; exact absurd hp'.length_eq (by simp)
  | [x], [y] =>
    rw [h3, h4] at hp'
    have : x ∈ [y] := hp'.mem_iff.1 (List.mem_cons_self ..)
    simp at this; rw [this]
  | [_], _ :: _ :: _ => rw [h3, h4] at hp'; exact absurd hp'.length_eq (by simp)
  | _ :: _ :: _, _ => rw [h3] at hlen; simp at hlen

/-- two key-sorted permutations of a list with pairwise different keys are equal -/
theorem sorted_perm_eq_of_nodup_keys (l1 l2 : List DiffItem) (hp : l1.Perm l2)
    (hnd : (l1.map (·.key)).Nodup) (h1 : SortedByKey l1) (h2 : SortedByKey l2) : l1 = l2 :=
  sorted_eq_of_keyClass_eq l1 l2 h1 h2 fun k => keyClass_perm_of_nodup_keys k l1 l2 hp hnd

/-! ### the legal unstable sort of the counterexample -/

theorem reversingSort_isSortByKey : IsSortByKey reversingSort := fun l =>
  ⟨(stableSortByKey_perm _).trans (List.reverse_perm l), stableSortByKey_sorted _⟩

/-! ### pre-order starts -/

open Tree

theorem Tree.preorderList_eq_flatMap (cs : List Tree) : preorderList cs = cs.flatMap Tree.preorder := by
  induction cs with
  | nil => rfl
  | cons c cs ih => simp [preorderList, ih]

theorem Tree.RangesWF.child {t c : Tree} (h : RangesWF t) (hc : c ∈ t.children) : RangesWF c :=
  fun p hp => h p (Tree.preorder_trans t hp (Tree.child_mem_preorder hc))

theorem Tree.child_size_lt' {c t : Tree} (h : c ∈ t.children) : c.size < t.size := by
  rw [t.size_eq]
  generalize t.children = cs at h
  induction cs with
  | nil => cases h
  | cons x xs ih =>
    rcases List.mem_cons.1 h with rfl | h
    · have := Tree.size_pos c; simp only [sizeList]; omega
    · have := ih h; simp only [sizeList]; omega

/-- every node of a subtree with well-formed ranges lies inside the range of the subtree's root -/
theorem Tree.RangesWF.bounds : ∀ (k : Nat) (t : Tree), t.size ≤ k → RangesWF t → t.start ≤ t.stop →
    ∀ n ∈ t.preorder, t.start ≤ n.start ∧ n.start ≤ n.stop ∧ n.stop ≤ t.stop := by
  intro k
  induction k with
  | zero => intro t h; have := t.size_pos; omega
  | succ k ih =>
    intro t hk hwf hle n hn
    rw [Tree.preorder_cons] at hn
    rcases List.mem_cons.1 hn with rfl | hn
    · exact ⟨Nat.le_refl _, hle, Nat.le_refl _⟩
    · obtain ⟨c, hc, hnc⟩ := Tree.mem_preorderList_iff.1 hn
      obtain ⟨⟨_, hcle⟩, hnest⟩ := hwf t t.self_mem_preorder
      have := Tree.child_size_lt' hc
      have := ih c (by omega) (hwf.child hc) (hcle c hc) n hnc
      have := hnest c hc
      omega

/-- **pre-order visits the nodes by non-decreasing start byte** (ranges of children ordered and
inside the parent's: the tree-sitter contract `RangesWF`) -/
theorem Tree.preorder_starts_sorted : ∀ (k : Nat) (t : Tree), t.size ≤ k → RangesWF t →
    t.preorder.Pairwise (fun a b => a.start ≤ b.start) := by
  intro k
  induction k with
  | zero => intro t h; have := t.size_pos; omega
  | succ k ih =>
    intro t hk hwf
    obtain ⟨⟨hord, hcle⟩, hnest⟩ := hwf t t.self_mem_preorder
    have hb : ∀ c ∈ t.children, ∀ n ∈ c.preorder,
        c.start ≤ n.start ∧ n.start ≤ n.stop ∧ n.stop ≤ c.stop := fun c hc =>
      Tree.RangesWF.bounds c.size c (Nat.le_refl _) (hwf.child hc) (hcle c hc)
    rw [Tree.preorder_cons, List.pairwise_cons]
    constructor
    · intro n hn
      obtain ⟨c, hc, hnc⟩ := Tree.mem_preorderList_iff.1 hn
      have := hb c hc n hnc
      have := hnest c hc
      omega
    · rw [Tree.preorderList_eq_flatMap, List.pairwise_flatMap]
      constructor
      · intro c hc
        have := Tree.child_size_lt' hc
        exact ih c (by omega) (hwf.child hc)
      · refine hord.imp_of_mem ?_
        intro a b ha hb' hab x hx y hy
        have := hb a ha x hx
        have := hb b hb' y hy
        omega

end AGV
