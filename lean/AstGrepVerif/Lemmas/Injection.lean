/-
Helper lemmas for `Props/Injection.lean`: the region map as a multiset of (name, range) pairs, the
stable sort, the parser's acceptance test, leaves of a well-formed tree.
-/
import AstGrepVerif.Model.Injection
import AstGrepVerif.Lemmas.MatchNodes
import AstGrepVerif.Lemmas.TreeClosed

namespace AGV
namespace Injection

/-! ## the region map as a list of pairs -/

theorem pairs_nil : pairs [] = [] := rfl

theorem pairs_cons (e : Name × List Range) (m : RMap) :
    pairs (e :: m) = e.2.map (fun r => (e.1, r)) ++ pairs m := by
  simp [pairs, List.flatMap_cons]

/-- a push adds exactly one pair and touches no other -/
theorem pairs_push (m : RMap) (k : Name) (r : Range) :
    (pairs (push m k r)).Perm (pairs m ++ [(k, r)]) := by
  induction m with
  | nil => simp [push, pairs]
  | cons e rest ih =>
    obtain ⟨k', rs⟩ := e
    simp only [push]
    split
    · next h =>
      subst h
      simp only [pairs_cons, List.map_append, List.map_cons, List.map_nil, List.append_assoc]
      exact List.Perm.append_left _ List.perm_append_comm
    · simp only [pairs_cons, List.append_assoc]
      exact List.Perm.append_left _ ih

/-- the keys after a push: the new key goes to the end unless it is there already -/
theorem keys_push (m : RMap) (k : Name) (r : Range) :
    (push m k r).map (·.1) = if k ∈ m.map (·.1) then m.map (·.1) else m.map (·.1) ++ [k] := by
  induction m with
  | nil => simp [push]
  | cons e rest ih =>
    obtain ⟨k', rs⟩ := e
    simp only [push]
    split
    · next h => subst h; simp
    · next h =>
      simp only [List.map_cons, ih, List.mem_cons]
      have hne : ¬ k = k' := fun e => h e.symm
      by_cases hk : k ∈ rest.map (·.1)
      · simp [hk]
      · simp [hk, hne]

theorem keys_nodup_push (m : RMap) (k : Name) (r : Range) (h : (m.map (·.1)).Nodup) :
    ((push m k r).map (·.1)).Nodup := by
  rw [keys_push]
  split
  · exact h
  · next hk =>
    rw [List.nodup_append]
    refine ⟨h, by simp, ?_⟩
    intro a ha b hb
    simp only [List.mem_singleton] at hb
    subst hb
    intro e; subst e; exact hk ha

/-- no vector of the map is empty after a push -/
theorem nonempty_push (m : RMap) (k : Name) (r : Range) (h : ∀ e ∈ m, e.2 ≠ []) :
    ∀ e ∈ push m k r, e.2 ≠ [] := by
  induction m with
  | nil => intro e he; simp [push] at he; subst he; simp
  | cons e0 rest ih =>
    obtain ⟨k', rs⟩ := e0
    intro e he
    simp only [push] at he
    split at he
    · simp only [List.mem_cons] at he
      rcases he with rfl | he
      · simp
      · exact h e (List.mem_cons_of_mem _ he)
    · simp only [List.mem_cons] at he
      rcases he with rfl | he
      · exact h _ List.mem_cons_self
      · exact ih (fun e he => h e (List.mem_cons_of_mem _ he)) e he

/-- a loop of optional pushes adds the pushed pairs, each once -/
theorem pairs_foldl {α : Type} (f : α → Option (Name × Range)) (step : RMap → α → RMap)
    (hstep : ∀ m x, step m x = match f x with | some p => push m p.1 p.2 | none => m)
    (xs : List α) (m : RMap) :
    (pairs (xs.foldl step m)).Perm (pairs m ++ xs.filterMap f) := by
  induction xs generalizing m with
  | nil => simp
  | cons x xs ih =>
    simp only [List.foldl_cons]
    refine (ih (step m x)).trans ?_
    rw [hstep]
    cases hf : f x with
    | none => simp [List.filterMap_cons, hf]
    | some p =>
      simp only [List.filterMap_cons, hf]
      have := pairs_push m p.1 p.2
      refine (List.Perm.append_right _ this).trans ?_
      simp [List.append_assoc]

theorem keys_nodup_foldl {α : Type} (f : α → Option (Name × Range)) (step : RMap → α → RMap)
    (hstep : ∀ m x, step m x = match f x with | some p => push m p.1 p.2 | none => m)
    (xs : List α) (m : RMap) (h : (m.map (·.1)).Nodup) :
    ((xs.foldl step m).map (·.1)).Nodup := by
  induction xs generalizing m with
  | nil => simpa
  | cons x xs ih =>
    simp only [List.foldl_cons]
    apply ih
    rw [hstep]
    cases f x with
    | none => exact h
    | some p => exact keys_nodup_push m p.1 p.2 h

/-! ## the stable sort -/

theorem insertR_perm (x : Range) (l : List Range) : (insertR x l).Perm (x :: l) := by
  induction l with
  | nil => simp [insertR]
  | cons y ys ih =>
    simp only [insertR]
    split
    · exact List.Perm.refl _
    · exact (List.Perm.cons y ih).trans (List.Perm.swap x y ys)

theorem foldl_insertR_perm (l acc : List Range) :
    (l.foldl (fun acc x => insertR x acc) acc).Perm (acc ++ l) := by
  induction l generalizing acc with
  | nil => simp
  | cons x xs ih =>
    simp only [List.foldl_cons]
    refine (ih (insertR x acc)).trans ?_
    refine (List.Perm.append_right xs (insertR_perm x acc)).trans ?_
    simp only [List.cons_append]
    exact List.perm_middle.symm

theorem sortR_perm (l : List Range) : (sortR l).Perm l := by
  simpa [sortR] using foldl_insertR_perm l []

/-- sorted by start byte -/
def Sorted (l : List Range) : Prop := l.Pairwise fun a b => a.start ≤ b.start

theorem insertR_sorted (x : Range) (l : List Range) (h : Sorted l) : Sorted (insertR x l) := by
  induction l with
  | nil => simp [insertR, Sorted]
  | cons y ys ih =>
    unfold Sorted at h ih ⊢
    simp only [insertR]
    rw [List.pairwise_cons] at h
    split
    · next hlt =>
      rw [List.pairwise_cons]
      refine ⟨?_, List.pairwise_cons.2 h⟩
      intro b hb
      simp only [List.mem_cons] at hb
      rcases hb with rfl | hb
      · omega
      · have := h.1 b hb; omega
    · next hge =>
      rw [List.pairwise_cons]
      refine ⟨?_, ih h.2⟩
      intro b hb
      have hb' := (insertR_perm x ys).mem_iff.1 hb
      simp only [List.mem_cons] at hb'
      rcases hb' with rfl | hb'
      · omega
      · exact h.1 b hb'

theorem foldl_insertR_sorted (l acc : List Range) (h : Sorted acc) :
    Sorted (l.foldl (fun acc x => insertR x acc) acc) := by
  induction l generalizing acc with
  | nil => simpa
  | cons x xs ih => exact ih _ (insertR_sorted x acc h)

theorem sortR_sorted (l : List Range) : Sorted (sortR l) :=
  foldl_insertR_sorted l [] (by simp [Sorted])

/-- sorting a sorted vector with distinct keys changes nothing; in general two sorted
permutations of each other with distinct keys are equal -/
theorem sorted_perm_eq : ∀ (l₁ l₂ : List Range), Sorted l₁ → Sorted l₂ → l₁.Perm l₂ →
    (l₁.map (·.start)).Nodup → l₁ = l₂
  | [], l₂, _, _, hp, _ => by simpa using hp.symm.eq_nil
  | a :: l₁, [], _, _, hp, _ => by simpa using hp.eq_nil
  | a :: l₁, b :: l₂, h1, h2, hp, hn => by
    unfold Sorted at h1 h2
    rw [List.pairwise_cons] at h1 h2
    have hn2 : ((b :: l₂).map (·.start)).Nodup := (hp.map _).nodup_iff.1 hn
    have hab : a = b := by
      have ha : a ∈ b :: l₂ := hp.mem_iff.1 List.mem_cons_self
      have hb : b ∈ a :: l₁ := hp.mem_iff.2 List.mem_cons_self
      simp only [List.mem_cons] at ha hb
      rcases ha with rfl | ha
      · rfl
      rcases hb with rfl | hb
      · rfl
      have h_ab := h1.1 b hb
      have h_ba := h2.1 a ha
      have hs : a.start = b.start := by omega
      -- `b ∈ l₁` has the key of `a`: the keys of `a :: l₁` are not distinct
      simp only [List.map_cons, List.nodup_cons, List.mem_map] at hn
      exact absurd ⟨b, hb, hs.symm⟩ hn.1
    subst hab
    have hp' : l₁.Perm l₂ := List.Perm.cons_inv hp
    simp only [List.map_cons, List.nodup_cons] at hn
    rw [sorted_perm_eq l₁ l₂ h1.2 h2.2 hp' hn.2]

theorem pairs_map_sort (m : RMap) :
    (pairs (m.map fun e => (e.1, sortR e.2))).Perm (pairs m) := by
  induction m with
  | nil => simp
  | cons e rest ih =>
    simp only [List.map_cons, pairs_cons]
    exact List.Perm.append ((sortR_perm e.2).map _) ih

/-! ## the acceptance test of the parser -/

/-- two regions do not overlap and do not start together -/
def Apart (a b : Range) : Prop := (a.stop ≤ b.start ∨ b.stop ≤ a.start) ∧ a.start ≠ b.start

theorem Apart.symm {a b : Range} (h : Apart a b) : Apart b a :=
  ⟨h.1.symm, fun e => h.2 e.symm⟩

/-- every region ends where the next starts, or earlier -/
def Chain : List Range → Prop
  | [] => True
  | [_] => True
  | a :: b :: rest => a.stop ≤ b.start ∧ Chain (b :: rest)

theorem acceptedFrom_of_sorted_apart : ∀ (rs : List Range) (prev : Nat), Sorted rs →
    rs.Pairwise Apart → (∀ r ∈ rs, r.start ≤ r.stop) → (∀ r ∈ rs, prev ≤ r.start) →
    acceptedFrom prev rs = true
  | [], _, _, _, _, _ => rfl
  | r :: rs, prev, hs, ha, hw, hp => by
    unfold Sorted at hs
    rw [List.pairwise_cons] at hs ha
    simp only [acceptedFrom, Bool.and_eq_true, decide_eq_true_eq]
    refine ⟨⟨hp r List.mem_cons_self, hw r List.mem_cons_self⟩, ?_⟩
    apply acceptedFrom_of_sorted_apart rs r.stop hs.2 ha.2
      (fun q hq => hw q (List.mem_cons_of_mem _ hq))
    intro q hq
    have h1 := hs.1 q hq
    have h2 := ha.1 q hq
    have h3 := hw q (List.mem_cons_of_mem _ hq)
    unfold Apart at h2
    omega

/-- what the acceptance test establishes -/
theorem acceptedFrom_sound : ∀ (rs : List Range) (prev : Nat), acceptedFrom prev rs = true →
    (∀ r ∈ rs, prev ≤ r.start ∧ r.start ≤ r.stop) ∧
    rs.Pairwise (fun a b => a.stop ≤ b.start)
  | [], _, _ => by simp
  | r :: rs, prev, h => by
    simp only [acceptedFrom, Bool.and_eq_true, decide_eq_true_eq] at h
    obtain ⟨⟨h1, h2⟩, h3⟩ := h
    have ih := acceptedFrom_sound rs r.stop h3
    refine ⟨?_, ?_⟩
    · intro q hq
      simp only [List.mem_cons] at hq
      rcases hq with rfl | hq
      · exact ⟨h1, h2⟩
      · have := ih.1 q hq; omega
    · rw [List.pairwise_cons]
      exact ⟨fun q hq => (ih.1 q hq).1, ih.2⟩

/-! ## leaves of a well-formed tree -/

mutual
/-- two childless nodes of a well-formed tree do not overlap, unless they start together -/
theorem leaves_apart : (t : Tree) → t.wf = true → ∀ a ∈ t.preorder, ∀ b ∈ t.preorder,
    a.children = [] → b.children = [] →
    a.stop ≤ b.start ∨ b.stop ≤ a.start ∨ a.start = b.start
  | .node i cs, h, a, ha, b, hb, la, lb => by
    simp only [Tree.wf, Bool.and_eq_true, decide_eq_true_eq] at h
    simp only [Tree.preorder, List.mem_cons] at ha hb
    rcases ha with rfl | ha
    · simp only [Tree.children] at la
      subst la
      simp only [Tree.preorderList, List.not_mem_nil, or_false] at hb
      subst hb
      exact .inr (.inr rfl)
    rcases hb with rfl | hb
    · simp only [Tree.children] at lb
      subst lb
      simp [Tree.preorderList] at ha
    exact leavesList_apart i.start i.stop cs h.2 a ha b hb la lb
theorem leavesList_apart : (lo hi : Nat) → (ts : List Tree) → Tree.wfList lo hi ts = true →
    ∀ a ∈ Tree.preorderList ts, ∀ b ∈ Tree.preorderList ts,
    a.children = [] → b.children = [] →
    a.stop ≤ b.start ∨ b.stop ≤ a.start ∨ a.start = b.start
  | _, _, [], _, a, ha, _, _, _, _ => by simp [Tree.preorderList] at ha
  | lo, hi, t :: ts, h, a, ha, b, hb, la, lb => by
    simp only [Tree.wfList, Bool.and_eq_true, decide_eq_true_eq] at h
    obtain ⟨⟨⟨_, _⟩, h3⟩, h4⟩ := h
    simp only [Tree.preorderList, List.mem_append] at ha hb
    rcases ha with ha | ha <;> rcases hb with hb | hb
    · exact leaves_apart t h3 a ha b hb la lb
    · have := Tree.wf_bounds t h3 a ha
      have := Tree.wfList_bounds t.stop hi ts h4 b hb
      omega
    · have := Tree.wf_bounds t h3 b hb
      have := Tree.wfList_bounds t.stop hi ts h4 a ha
      omega
    · exact leavesList_apart t.stop hi ts h4 a ha b hb la lb
end

end Injection
end AGV
