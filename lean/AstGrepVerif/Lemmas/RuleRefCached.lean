/-
C05 for rules that carry kind caches: the reference semantics ignores the caches, and (C01,
`Lemmas/KindsDeep.lean`) sound caches are transparent for the evaluator.
-/
import AstGrepVerif.Lemmas.RuleRef
import AstGrepVerif.Lemmas.KindsDeep

set_option linter.unusedSimpArgs false
set_option linter.unusedVariables false

namespace AGV

open Spec

section
variable (ctx : RCtx)

/-- the reference semantics never looks at a cache: stripping them changes nothing -/
def SatStrip (F : Nat) : Prop :=
  (∀ r n, sat ctx F r n = sat (stripCtx ctx) F (stripR r) n) ∧
  (∀ rs n, satAll ctx F rs n = satAll (stripCtx ctx) F (stripL rs) n) ∧
  (∀ rs n, satAny ctx F rs n = satAny (stripCtx ctx) F (stripL rs) n) ∧
  (∀ r cs, satAnyNode ctx F r cs = satAnyNode (stripCtx ctx) F (stripR r) cs) ∧
  (∀ stop l, satCandidates ctx F stop l = satCandidates (stripCtx ctx) F (stripS stop) l) ∧
  (∀ r field eid l, satInside ctx F r field eid l
      = satInside (stripCtx ctx) F (stripR r) field eid l) ∧
  (∀ r stop cs, satBelow ctx F r stop cs = satBelow (stripCtx ctx) F (stripR r) (stripS stop) cs)

theorem sat_strip_all (F : Nat) : SatStrip ctx F := by
  induction F with
  | zero =>
    refine ⟨?_, ?_, ?_, ?_, ?_, ?_, ?_⟩ <;> intros <;>
      simp [sat, satAll, satAny, satAnyNode, satCandidates, satInside, satBelow]
  | succ F ih =>
    obtain ⟨h1, h2, h3, h4, h5, h6, h7⟩ := ih
    have hfun : ∀ r, sat ctx F r = sat (stripCtx ctx) F (stripR r) := fun r => funext (h1 r)
    refine ⟨?_, ?_, ?_, ?_, ?_, ?_, ?_⟩
    · intro r n
      cases r with
      | pattern p rk s => cases rk <;> simp [sat, stripR]
      | kind k => simp [sat, stripR]
      | regex id => simp [sat, stripR]
      | range a b c d => simp [sat, stripR]
      | nthChild a b ofRule rev =>
        cases ofRule with
        | none => simp [sat, stripR]
        | some q => simp only [sat, stripR, stripCtx_root, hfun q]
      | all rs kinds => simp only [sat, stripR]; exact h2 rs n
      | any rs kinds => simp only [sat, stripR]; exact h3 rs n
      | not q => simp only [sat, stripR, h1 q n]
      | «matches» id =>
        simp only [sat, stripR, stripCtx, alookup_stripCons, alookup_stripGlobals]
        cases alookup id ctx.locals with
        | some q => simp only [Option.map_some]; exact h1 q n
        | none =>
          simp only [Option.map_none]
          cases alookup id ctx.globals with
          | some core => simp only [Option.map_some, stripCore]; exact h1 core.rule n
          | none => rfl
      | inside q stop field =>
        simp only [sat, stripR, stripCtx_root]
        rw [h5 stop, h6 q]
      | has q stop field =>
        simp only [sat, stripR]
        cases field with
        | none => exact h7 q stop _
        | some fld =>
          simp only
          cases childByField n fld with
          | none => rfl
          | some c => exact h7 q stop _
      | precedes q stop =>
        simp only [sat, stripR, stripCtx_root]
        rw [h5 stop, h4 q]
      | follows q stop =>
        simp only [sat, stripR, stripCtx_root]
        rw [h5 stop, h4 q]
    · intro rs n
      cases rs with
      | nil => simp [satAll, stripL]
      | cons r rs => simp only [satAll, stripL, h1 r n, h2 rs n]
    · intro rs n
      cases rs with
      | nil => simp [satAny, stripL]
      | cons r rs => simp only [satAny, stripL, h1 r n, h3 rs n]
    · intro r cs
      cases cs with
      | nil => simp [satAnyNode]
      | cons c cs => simp only [satAnyNode, h1 r c, h4 r cs]
    · intro stop l
      cases stop with
      | neighbor => simp [satCandidates, stripS]
      | end_ => simp [satCandidates, stripS]
      | rule s => simp only [satCandidates, stripS, hfun s]
    · intro r field eid l
      cases l with
      | nil => simp [satInside]
      | cons a as => simp only [satInside, h1 r a, h6 r field a.id as]
    · intro r stop cs
      cases cs with
      | nil => simp [satBelow]
      | cons c cs =>
        cases stop with
        | neighbor => simp only [satBelow, stripS, h1 r c]; rw [h7 r .neighbor cs]; rfl
        | end_ =>
          simp only [satBelow, stripS, h1 r c]
          rw [h7 r .end_ cs, h7 r .end_ c.children]; rfl
        | rule s =>
          simp only [satBelow, stripS, h1 r c, h1 s c]
          rw [h7 r (.rule s) cs, h7 r (.rule s) c.children]; rfl

theorem sat_strip (F : Nat) (r : Rule) (n : Tree) :
    sat ctx F r n = sat (stripCtx ctx) F (stripR r) n := (sat_strip_all ctx F).1 r n

end

end AGV
