/-
Totality of the pattern matcher (`Model/Match.lean`): for every aggregator, strictness, source,
pattern, candidate and aggregator state, `matchNode` run with fuel `≥ need p c = 4·|p|·|c|`
(hence with `matchFuel p c`) ends normally — it neither runs out of fuel nor reaches one of the
four `unwrap()` sites of `match_node.rs`.

One simultaneous induction on the fuel over the six functions of the mutual block.  The list-level
functions carry the pre-conditions under which the `unwrap()`s are safe (the candidate iterator is
not exhausted on entry of the loop / of the ellipsis scan, the goal iterator is not exhausted on
entry of `match_single_node_while_skip_trivial`) and the post-conditions that re-establish them
for the next iteration (what is left of the two iterators, and that it did not grow).
-/
import AstGrepVerif.Model.Match

set_option linter.unusedSimpArgs false
set_option linter.unusedVariables false

namespace AGV.MatchTotal

open AGV

/-! ## sizes -/

theorem psize_pos (p : PNode) : 1 ≤ p.size := by
  cases p <;> simp only [PNode.size] <;> omega

theorem tsize_pos (c : Tree) : 1 ≤ c.size := by
  cases c; simp only [Tree.size]; omega

theorem tsize_children (c : Tree) : c.size = 1 + Tree.sizeList c.children := by
  cases c; simp only [Tree.size, Tree.children]

theorem psizeList_cons (p : PNode) (ps : List PNode) :
    PNode.sizeList (p :: ps) = p.size + PNode.sizeList ps := by
  simp only [PNode.sizeList]

theorem tsizeList_cons (c : Tree) (cs : List Tree) :
    Tree.sizeList (c :: cs) = c.size + Tree.sizeList cs := by
  simp only [Tree.sizeList]

theorem psizeList_nil : PNode.sizeList [] = 0 := by simp only [PNode.sizeList]
theorem tsizeList_nil : Tree.sizeList [] = 0 := by simp only [Tree.sizeList]

theorem tsizeList_pos {cs : List Tree} (h : cs ≠ []) : 1 ≤ Tree.sizeList cs := by
  cases cs with
  | nil => exact absurd rfl h
  | cons c cs => have := tsize_pos c; rw [tsizeList_cons]; omega

theorem psizeList_pos {ps : List PNode} (h : ps ≠ []) : 1 ≤ PNode.sizeList ps := by
  cases ps with
  | nil => exact absurd rfl h
  | cons c cs => have := psize_pos c; rw [psizeList_cons]; omega

theorem tsizeList_tail (cs : List Tree) : Tree.sizeList cs.tail ≤ Tree.sizeList cs := by
  cases cs with
  | nil => exact Nat.le_refl _
  | cons c cs => rw [tsizeList_cons, List.tail]; omega

/-- the goals left by the `is_trivial` loop are not larger -/
theorem skipTrivialGoals_size (gs : List PNode) :
    PNode.sizeList (skipTrivialGoals gs).2 ≤ PNode.sizeList gs := by
  induction gs with
  | nil => simp [skipTrivialGoals]
  | cons g gs ih =>
    unfold skipTrivialGoals
    split
    · rw [psizeList_cons]; simp only; omega
    · exact Nat.le_refl _

/-- an ellipsis is a meta-variable: size one -/
theorem ellipsis_size {g : PNode} {o : Option Name} (h : ellipsisMode g = some o) : g.size = 1 := by
  cases g with
  | metaVar mv => simp only [PNode.size]
  | terminal _ _ _ => simp [ellipsisMode] at h
  | internal _ _ => simp [ellipsisMode] at h

/-! ## the measure -/

/-- fuel that suffices for `matchNode` on `p`, `c` -/
def need (p : PNode) (c : Tree) : Nat := 4 * (p.size * c.size)

/-- `matchFuel` dominates `need` -/
theorem need_le_matchFuel (p : PNode) (c : Tree) : need p c ≤ matchFuel p c := by
  unfold need matchFuel
  have h : p.size * c.size ≤ (p.size + 1) * (c.size + 1) :=
    Nat.mul_le_mul (Nat.le_succ _) (Nat.le_succ _)
  rw [Nat.mul_assoc]
  omega

/-! ## the six statements -/

section
variable {σ : Type} (agg : Agg σ) (s : Strictness) (src : Bytes)

def NodeT (fuel : Nat) : Prop :=
  ∀ p c st, 4 * (p.size * c.size) ≤ fuel → ∃ r, matchNode agg s src fuel p c st = .ok r

def NodesT (fuel : Nat) : Prop :=
  ∀ goals cands st,
    4 * (PNode.sizeList goals * Tree.sizeList cands) + 2 * PNode.sizeList goals
      + Tree.sizeList cands + 3 ≤ fuel →
    ∃ r, matchNodes agg s src fuel goals cands st = .ok r

def LoopT (fuel : Nat) : Prop :=
  ∀ goals cands st, cands ≠ [] →
    4 * (PNode.sizeList goals * Tree.sizeList cands) + 2 * PNode.sizeList goals
      + Tree.sizeList cands + 2 ≤ fuel →
    ∃ r, matchLoop agg s src fuel goals cands st = .ok r

def MayT (fuel : Nat) : Prop :=
  ∀ goals cands st, cands ≠ [] →
    4 * (PNode.sizeList goals * Tree.sizeList cands) + 1 ≤ fuel →
    ∃ fl goals' cands' st', mayMatchEllipsis agg s src fuel goals cands st = .ok (fl, goals', cands', st') ∧
      PNode.sizeList goals' ≤ PNode.sizeList goals ∧ Tree.sizeList cands' ≤ Tree.sizeList cands ∧
      (fl = some .fall → goals' ≠ [] ∧ cands' ≠ []) ∧
      (fl = some .cont → cands' ≠ [] ∧ PNode.sizeList goals' < PNode.sizeList goals)

def ScanT (fuel : Nat) : Prop :=
  ∀ optName skipped goals cands matched st, goals ≠ [] → cands ≠ [] →
    4 * (PNode.sizeList goals * Tree.sizeList cands) + Tree.sizeList cands ≤ fuel →
    ∃ fl cands' st', ellipsisScan agg s src fuel optName skipped goals cands matched st
        = .ok (fl, goals, cands', st') ∧
      Tree.sizeList cands' ≤ Tree.sizeList cands ∧
      (fl = none ∨ (fl = some .fall ∧ cands' ≠ []))

def SingleT (fuel : Nat) : Prop :=
  ∀ goals cands st, goals ≠ [] →
    4 * (PNode.sizeList goals * Tree.sizeList cands) + PNode.sizeList goals
      + Tree.sizeList cands + 1 ≤ fuel →
    ∃ fl goals' cands' st', matchSingle agg s src fuel goals cands st = .ok (fl, goals', cands', st') ∧
      (fl = none ∨ (fl = some .fall ∧ PNode.sizeList goals' ≤ PNode.sizeList goals ∧
        Tree.sizeList cands' ≤ Tree.sizeList cands))

/-! ## the steps -/

theorem node_step (fuel : Nat) (hNs : NodesT agg s src fuel) : NodeT agg s src (fuel + 1) := by
  intro p c st hf
  cases p with
  | terminal text named kind =>
    simp only [matchNode]
    split
    · split <;> exact ⟨_, rfl⟩
    · exact ⟨_, rfl⟩
  | metaVar mv =>
    simp only [matchNode]
    split <;> exact ⟨_, rfl⟩
  | internal kind children =>
    simp only [matchNode]
    split
    · obtain ⟨r, hr⟩ := hNs children c.children st (by
        simp only [PNode.size] at hf
        rw [tsize_children] at hf
        generalize PNode.sizeList children = P at hf ⊢
        generalize Tree.sizeList c.children = C at hf ⊢
        have e : (1 + P) * (1 + C) = 1 + P + C + P * C := by
          rw [Nat.add_mul, Nat.mul_add, Nat.mul_add]; omega
        rw [e] at hf
        omega)
      rw [hr]
      obtain ⟨b, st'⟩ := r
      cases b <;> exact ⟨_, rfl⟩
    · exact ⟨_, rfl⟩

theorem nodes_step (fuel : Nat) (hL : LoopT agg s src fuel) : NodesT agg s src (fuel + 1) := by
  intro goals cands st hf
  simp only [matchNodes]
  split
  · exact ⟨_, rfl⟩
  · next c cs => exact hL goals (c :: cs) st (by simp) (by omega)

theorem scan_step (fuel : Nat) (hN : NodeT agg s src fuel) (hS : ScanT agg s src fuel) :
    ScanT agg s src (fuel + 1) := by
  intro optName skipped goals cands matched st hg hc hf
  cases goals with
  | nil => exact absurd rfl hg
  | cons g gs =>
  cases cands with
  | nil => exact absurd rfl hc
  | cons c cs =>
  simp only [ellipsisScan]
  rw [psizeList_cons, tsizeList_cons] at hf
  have hgp := psize_pos g
  have hcp := tsize_pos c
  obtain ⟨r, hr⟩ := hN g c st (by
    have : g.size * c.size ≤ (g.size + PNode.sizeList gs) * (c.size + Tree.sizeList cs) :=
      Nat.mul_le_mul (Nat.le_add_right _ _) (Nat.le_add_right _ _)
    omega)
  rw [hr]
  obtain ⟨m, st1⟩ := r
  have hrec : ∃ fl cands' st',
      (match cs with
        | [] => (.ok (none, g :: gs, cs, st) : Except Abn (Option Flow × List PNode × List Tree × σ))
        | _ :: _ => ellipsisScan agg s src fuel optName skipped (g :: gs) cs (matched ++ [c]) st)
        = .ok (fl, g :: gs, cands', st') ∧
      Tree.sizeList cands' ≤ Tree.sizeList (c :: cs) ∧
      (fl = none ∨ (fl = some .fall ∧ cands' ≠ [])) := by
    cases cs with
    | nil => exact ⟨none, [], st, rfl, by simp [tsizeList_nil], .inl rfl⟩
    | cons c2 cs2 =>
      obtain ⟨fl, cands', st', h1, h2, h3⟩ := hS optName skipped (g :: gs) (c2 :: cs2) (matched ++ [c]) st
        (by simp) (by simp) (by
          rw [psizeList_cons]
          have : (g.size + PNode.sizeList gs) * Tree.sizeList (c2 :: cs2)
              ≤ (g.size + PNode.sizeList gs) * (c.size + Tree.sizeList (c2 :: cs2)) :=
            Nat.mul_le_mul (Nat.le_refl _) (Nat.le_add_left _ _)
          omega)
      refine ⟨fl, cands', st', h1, ?_, h3⟩
      rw [tsizeList_cons c]; omega
  cases m with
  | matchedBoth =>
    simp only
    split
    · next st2 _ => exact ⟨some .fall, c :: cs, st2, rfl, Nat.le_refl _, .inr ⟨rfl, by simp⟩⟩
    · exact ⟨none, c :: cs, st, rfl, Nat.le_refl _, .inl rfl⟩
  | skipBoth => exact hrec
  | skipGoal => exact hrec
  | skipCandidate => exact hrec
  | noMatch => exact hrec

theorem single_step (fuel : Nat) (hN : NodeT agg s src fuel) (hS : SingleT agg s src fuel) :
    SingleT agg s src (fuel + 1) := by
  intro goals cands st hg hf
  simp only [matchSingle]
  cases cands with
  | nil =>
    simp only
    split
    · exact ⟨_, _, _, _, rfl, .inr ⟨rfl, by simp [psizeList_nil], Nat.le_refl _⟩⟩
    · exact ⟨_, _, _, _, rfl, .inl rfl⟩
  | cons c cs =>
  cases goals with
  | nil => exact absurd rfl hg
  | cons g gs =>
  simp only
  rw [psizeList_cons, tsizeList_cons] at hf
  have hgp := psize_pos g
  have hcp := tsize_pos c
  generalize hG : PNode.sizeList gs = G at hf
  generalize hC : Tree.sizeList cs = C at hf
  have e : (g.size + G) * (c.size + C) = g.size * c.size + g.size * C + G * c.size + G * C := by
    rw [Nat.add_mul, Nat.mul_add, Nat.mul_add]; omega
  rw [e] at hf
  obtain ⟨r, hr⟩ := hN g c st (by omega)
  rw [hr]
  obtain ⟨m, st1⟩ := r
  -- the three recursive calls
  have hrec1 : gs ≠ [] → ∃ fl goals' cands' st', matchSingle agg s src fuel gs (c :: cs) st1
      = .ok (fl, goals', cands', st') ∧
      (fl = none ∨ (fl = some .fall ∧ PNode.sizeList goals' ≤ PNode.sizeList (g :: gs) ∧
        Tree.sizeList cands' ≤ Tree.sizeList (c :: cs))) := by
    intro hne
    obtain ⟨fl, goals', cands', st', h1, h2⟩ := hS gs (c :: cs) st1 hne (by
      rw [tsizeList_cons, hG, hC, Nat.mul_add]; omega)
    refine ⟨fl, goals', cands', st', h1, ?_⟩
    rcases h2 with h2 | ⟨h2, h3, h4⟩
    · exact .inl h2
    · exact .inr ⟨h2, by rw [psizeList_cons]; omega, h4⟩
  have hrec2 : gs ≠ [] → ∃ fl goals' cands' st', matchSingle agg s src fuel gs cs st1
      = .ok (fl, goals', cands', st') ∧
      (fl = none ∨ (fl = some .fall ∧ PNode.sizeList goals' ≤ PNode.sizeList (g :: gs) ∧
        Tree.sizeList cands' ≤ Tree.sizeList (c :: cs))) := by
    intro hne
    obtain ⟨fl, goals', cands', st', h1, h2⟩ := hS gs cs st1 hne (by
      rw [hG, hC]; omega)
    refine ⟨fl, goals', cands', st', h1, ?_⟩
    rcases h2 with h2 | ⟨h2, h3, h4⟩
    · exact .inl h2
    · exact .inr ⟨h2, by rw [psizeList_cons]; omega, by rw [tsizeList_cons]; omega⟩
  have hrec3 : ∃ fl goals' cands' st', matchSingle agg s src fuel (g :: gs) cs st1
      = .ok (fl, goals', cands', st') ∧
      (fl = none ∨ (fl = some .fall ∧ PNode.sizeList goals' ≤ PNode.sizeList (g :: gs) ∧
        Tree.sizeList cands' ≤ Tree.sizeList (c :: cs))) := by
    obtain ⟨fl, goals', cands', st', h1, h2⟩ := hS (g :: gs) cs st1 (by simp) (by
      rw [psizeList_cons, hG, hC, Nat.add_mul]; omega)
    refine ⟨fl, goals', cands', st', h1, ?_⟩
    rcases h2 with h2 | ⟨h2, h3, h4⟩
    · exact .inl h2
    · exact .inr ⟨h2, h3, by rw [tsizeList_cons]; omega⟩
  cases m with
  | matchedBoth => exact ⟨_, _, _, _, rfl, .inr ⟨rfl, Nat.le_refl _, Nat.le_refl _⟩⟩
  | skipGoal =>
    simp only
    cases gs with
    | nil => exact ⟨_, _, _, _, rfl, .inr ⟨rfl, by simp [psizeList_nil], Nat.le_refl _⟩⟩
    | cons g2 gs2 => exact hrec1 (by simp)
  | skipBoth =>
    simp only
    cases gs with
    | nil =>
      exact ⟨_, _, _, _, rfl, .inr ⟨rfl, by simp [psizeList_nil], by rw [tsizeList_cons]; omega⟩⟩
    | cons g2 gs2 => exact hrec2 (by simp)
  | skipCandidate => exact hrec3
  | noMatch => exact ⟨_, _, _, _, rfl, .inl rfl⟩

theorem may_step (fuel : Nat) (hS : ScanT agg s src fuel) : MayT agg s src (fuel + 1) := by
  intro goals cands st hc hf
  simp only [mayMatchEllipsis]
  cases goals with
  | nil =>
    exact ⟨_, _, _, _, rfl, Nat.le_refl _, Nat.le_refl _, (fun h => by cases h), (fun h => by cases h)⟩
  | cons g gs =>
  simp only
  split
  · exact ⟨_, _, _, _, rfl, Nat.le_refl _, Nat.le_refl _, fun _ => ⟨by simp, hc⟩, (fun h => by cases h)⟩
  · next optName hmode =>
    have hg1 := ellipsis_size hmode
    split
    · split
      · exact ⟨_, _, _, _, rfl, by simp [psizeList_nil], by simp [tsizeList_nil],
          (fun h => by cases h), (fun h => by cases h)⟩
      · exact ⟨_, _, _, _, rfl, by simp [psizeList_nil], by simp [tsizeList_nil],
          (fun h => by cases h), (fun h => by cases h)⟩
    · next g1 gs1 =>
      have hsz := skipTrivialGoals_size (g1 :: gs1)
      generalize skipTrivialGoals (g1 :: gs1) = r at hsz
      obtain ⟨skipped, gs'⟩ := r
      simp only at hsz ⊢
      rw [psizeList_cons g, hg1] at hf
      split
      · split
        · exact ⟨_, _, _, _, rfl, by simp [psizeList_nil], by simp [tsizeList_nil],
            (fun h => by cases h), (fun h => by cases h)⟩
        · exact ⟨_, _, _, _, rfl, by simp [psizeList_nil], by simp [tsizeList_nil],
            (fun h => by cases h), (fun h => by cases h)⟩
      · next g2 gt2 =>
        have hle : PNode.sizeList (g2 :: gt2) ≤ PNode.sizeList (g :: g1 :: gs1) := by
          rw [psizeList_cons g]; omega
        split
        · -- the goal after the ellipsis is an ellipsis too
          cases cands with
          | nil => exact absurd rfl hc
          | cons c cs =>
            simp only
            have hcs : Tree.sizeList cs ≤ Tree.sizeList (c :: cs) := by rw [tsizeList_cons]; omega
            cases cs with
            | nil => exact ⟨_, _, _, _, rfl, hle, hcs, (fun h => by cases h), (fun h => by cases h)⟩
            | cons c2 cs2 =>
              simp only
              split
              · exact ⟨_, _, _, _, rfl, hle, hcs, (fun h => by cases h),
                  fun _ => ⟨by simp, by rw [psizeList_cons g]; omega⟩⟩
              · exact ⟨_, _, _, _, rfl, hle, hcs, (fun h => by cases h), (fun h => by cases h)⟩
        · obtain ⟨fl, cands', st', h1, h2, h3⟩ := hS optName skipped (g2 :: gt2) cands [] st
            (by simp) hc (by
              have hcp := tsizeList_pos hc
              generalize PNode.sizeList (g2 :: gt2) = G at hsz ⊢
              generalize PNode.sizeList (g1 :: gs1) = G1 at hsz hf
              generalize Tree.sizeList cands = C at hf hcp ⊢
              have : G * C ≤ G1 * C := Nat.mul_le_mul hsz (Nat.le_refl _)
              have e : (1 + G1) * C = C + G1 * C := by rw [Nat.add_mul]; omega
              rw [e] at hf
              omega)
          refine ⟨fl, _, cands', st', h1, hle, h2, ?_, ?_⟩
          · intro hfl
            rcases h3 with h3 | ⟨_, h3⟩
            · rw [h3] at hfl; cases hfl
            · exact ⟨by simp, h3⟩
          · intro hfl
            rcases h3 with h3 | ⟨h3, _⟩
            · rw [h3] at hfl; cases hfl
            · rw [h3] at hfl; cases hfl

theorem loop_step (fuel : Nat) (hM : MayT agg s src fuel) (hS : SingleT agg s src fuel)
    (hL : LoopT agg s src fuel) : LoopT agg s src (fuel + 1) := by
  intro goals cands st hc hf
  simp only [matchLoop]
  have hcp := tsizeList_pos hc
  obtain ⟨fl, goals1, cands1, st1, h1, hg1, hc1, hfall, hcont⟩ := hM goals cands st hc (by omega)
  rw [h1]
  have hmul1 : PNode.sizeList goals1 * Tree.sizeList cands1
      ≤ PNode.sizeList goals * Tree.sizeList cands := Nat.mul_le_mul hg1 hc1
  cases fl with
  | none => exact ⟨_, rfl⟩
  | some fl1 =>
  cases fl1 with
  | ret => exact ⟨_, rfl⟩
  | cont =>
    simp only
    obtain ⟨hne, hlt⟩ := hcont rfl
    exact hL goals1 cands1 st1 hne (by omega)
  | fall =>
    simp only
    obtain ⟨hgne, hcne⟩ := hfall rfl
    obtain ⟨fl2, goals2, cands2, st2, h2, hpost⟩ := hS goals1 cands1 st1 hgne (by omega)
    rw [h2]
    cases fl2 with
    | none => exact ⟨_, rfl⟩
    | some fl3 =>
    rcases hpost with hpost | ⟨hfl, hg2, hc2⟩
    · cases hpost
    · simp only [Option.some.injEq] at hfl
      subst hfl
      simp only
      cases goals2 with
      | nil => exact ⟨_, rfl⟩
      | cons g2 gs2 =>
        simp only
        cases gs2 with
        | nil => exact ⟨_, rfl⟩
        | cons g3 gs3 =>
          simp only
          cases hct : cands2.tail with
          | nil => exact ⟨_, rfl⟩
          | cons c3 cs3 =>
            simp only
            refine hL (g3 :: gs3) (c3 :: cs3) st2 (by simp) ?_
            have ht := tsizeList_tail cands2
            rw [hct] at ht
            have hgp := psize_pos g2
            rw [psizeList_cons g2] at hg2
            have hmul2 : PNode.sizeList (g3 :: gs3) * Tree.sizeList (c3 :: cs3)
                ≤ PNode.sizeList goals * Tree.sizeList cands :=
              Nat.mul_le_mul (by omega) (by omega)
            omega

/-- all six statements, by induction on the fuel -/
theorem all_total (fuel : Nat) :
    NodeT agg s src fuel ∧ NodesT agg s src fuel ∧ LoopT agg s src fuel ∧
    MayT agg s src fuel ∧ ScanT agg s src fuel ∧ SingleT agg s src fuel := by
  induction fuel with
  | zero =>
    refine ⟨?_, ?_, ?_, ?_, ?_, ?_⟩
    · intro p c st h
      have := Nat.mul_le_mul (psize_pos p) (tsize_pos c)
      omega
    · intro goals cands st h; omega
    · intro goals cands st _ h; omega
    · intro goals cands st _ h; omega
    · intro optName skipped goals cands matched st _ hc h
      have := tsizeList_pos hc; omega
    · intro goals cands st _ h; omega
  | succ fuel ih =>
    obtain ⟨hN, hNs, hL, hM, hSc, hSi⟩ := ih
    exact ⟨node_step agg s src fuel hNs, nodes_step agg s src fuel hL,
      loop_step agg s src fuel hM hSi hL, may_step agg s src fuel hSc,
      scan_step agg s src fuel hN hSc, single_step agg s src fuel hN hSi⟩

/-! ## panic freedom, at every fuel

The four `unwrap()` sites of `match_node.rs` (`.error .panic` in the model):

* P1 `may_match_ellipsis_impl`: `cand_children.next().unwrap()` when the goal after `$$$` (and
  after the trivial goals) is an ellipsis too — panics iff the candidate iterator is exhausted;
* P2 the final loop of `may_match_ellipsis_impl`: `goal_children.peek().unwrap()`;
* P3 the same loop: `cand_children.peek().unwrap()`;
* P4 `match_single_node_while_skip_trivial`: `goal_children.peek().unwrap()` with a candidate left.

None is reachable from `matchNode`/`matchNodes`: `match_nodes_impl_recursive` peeks the candidate
iterator before the loop and before every further iteration (P1, P3), the final loop is entered
with the goal just peeked (P2), and `Fallthrough` is only returned with the goal iterator
non-exhausted (P4).  The statements below say so for EVERY fuel: a run that ends abnormally ran
out of fuel. -/

/-- not a panic -/
def NP {α : Type} (res : Except Abn α) : Prop :=
  match res with
  | .error e => e = .fuel
  | .ok _ => True

theorem NP.ne {α : Type} {res : Except Abn α} (h : NP res) : res ≠ .error .panic := by
  intro e; rw [e] at h; cases h

def MayGood (res : Except Abn (Option Flow × List PNode × List Tree × σ)) : Prop :=
  match res with
  | .error e => e = .fuel
  | .ok (fl, goals', cands', _) =>
    (fl = some .fall → goals' ≠ [] ∧ cands' ≠ []) ∧ (fl = some .cont → cands' ≠ [])

def ScanGood (res : Except Abn (Option Flow × List PNode × List Tree × σ)) : Prop :=
  match res with
  | .error e => e = .fuel
  | .ok (fl, goals', cands', _) =>
    (fl = none ∨ fl = some .fall) ∧ (fl = some .fall → goals' ≠ [] ∧ cands' ≠ [])

def SingleGood (res : Except Abn (Option Flow × List PNode × List Tree × σ)) : Prop :=
  match res with
  | .error e => e = .fuel
  | .ok (fl, _, _, _) => fl ≠ some .cont

def NodeP (fuel : Nat) : Prop := ∀ p c st, NP (matchNode agg s src fuel p c st)
def NodesP (fuel : Nat) : Prop := ∀ goals cands st, NP (matchNodes agg s src fuel goals cands st)
def LoopP (fuel : Nat) : Prop :=
  ∀ goals cands st, cands ≠ [] → NP (matchLoop agg s src fuel goals cands st)
def MayP (fuel : Nat) : Prop :=
  ∀ goals cands st, cands ≠ [] → MayGood (mayMatchEllipsis agg s src fuel goals cands st)
def ScanP (fuel : Nat) : Prop :=
  ∀ optName skipped goals cands matched st, goals ≠ [] → cands ≠ [] →
    ScanGood (ellipsisScan agg s src fuel optName skipped goals cands matched st)
def SingleP (fuel : Nat) : Prop :=
  ∀ goals cands st, goals ≠ [] → SingleGood (matchSingle agg s src fuel goals cands st)

theorem node_stepP (fuel : Nat) (hNs : NodesP agg s src fuel) : NodeP agg s src (fuel + 1) := by
  intro p c st
  cases p with
  | terminal text named kind =>
    simp only [matchNode]
    split
    · split <;> trivial
    · trivial
  | metaVar mv =>
    simp only [matchNode]
    split <;> trivial
  | internal kind children =>
    simp only [matchNode]
    split
    · have h := hNs children c.children st
      generalize matchNodes agg s src fuel children c.children st = res at h
      rcases res with e | ⟨b, st'⟩
      · exact h
      · cases b <;> trivial
    · trivial

theorem nodes_stepP (fuel : Nat) (hL : LoopP agg s src fuel) : NodesP agg s src (fuel + 1) := by
  intro goals cands st
  simp only [matchNodes]
  split
  · trivial
  · next c cs => exact hL goals (c :: cs) st (by simp)

theorem scan_stepP (fuel : Nat) (hN : NodeP agg s src fuel) (hS : ScanP agg s src fuel) :
    ScanP agg s src (fuel + 1) := by
  intro optName skipped goals cands matched st hg hc
  cases goals with
  | nil => exact absurd rfl hg
  | cons g gs =>
  cases cands with
  | nil => exact absurd rfl hc
  | cons c cs =>
  simp only [ellipsisScan]
  have h := hN g c st
  generalize matchNode agg s src fuel g c st = res at h
  rcases res with e | ⟨m, st1⟩
  · exact h
  · have hrec : ScanGood
        (match cs with
        | [] => (.ok (none, g :: gs, cs, st) : Except Abn (Option Flow × List PNode × List Tree × σ))
        | _ :: _ => ellipsisScan agg s src fuel optName skipped (g :: gs) cs (matched ++ [c]) st) := by
      cases cs with
      | nil => exact ⟨.inl rfl, (fun h => by cases h)⟩
      | cons c2 cs2 => exact hS optName skipped (g :: gs) (c2 :: cs2) (matched ++ [c]) st (by simp) (by simp)
    cases m with
    | matchedBoth =>
      simp only
      split
      · exact ⟨.inr rfl, fun _ => ⟨by simp, by simp⟩⟩
      · exact ⟨.inl rfl, (fun h => by cases h)⟩
    | skipBoth => exact hrec
    | skipGoal => exact hrec
    | skipCandidate => exact hrec
    | noMatch => exact hrec

theorem single_stepP (fuel : Nat) (hN : NodeP agg s src fuel) (hS : SingleP agg s src fuel) :
    SingleP agg s src (fuel + 1) := by
  intro goals cands st hg
  simp only [matchSingle]
  cases cands with
  | nil =>
    simp only
    split
    · exact (fun h => by cases h)
    · exact (fun h => by cases h)
  | cons c cs =>
  cases goals with
  | nil => exact absurd rfl hg
  | cons g gs =>
  simp only
  have h := hN g c st
  generalize matchNode agg s src fuel g c st = res at h
  rcases res with e | ⟨m, st1⟩
  · exact h
  · cases m with
    | matchedBoth => exact (fun h => by cases h)
    | skipGoal =>
      simp only
      cases gs with
      | nil => exact (fun h => by cases h)
      | cons g2 gs2 => exact hS (g2 :: gs2) (c :: cs) st1 (by simp)
    | skipBoth =>
      simp only
      cases gs with
      | nil => exact (fun h => by cases h)
      | cons g2 gs2 => exact hS (g2 :: gs2) cs st1 (by simp)
    | skipCandidate => exact hS (g :: gs) cs st1 (by simp)
    | noMatch => exact (fun h => by cases h)

theorem may_stepP (fuel : Nat) (hS : ScanP agg s src fuel) : MayP agg s src (fuel + 1) := by
  intro goals cands st hc
  simp only [mayMatchEllipsis]
  cases goals with
  | nil => exact ⟨(fun h => by cases h), (fun h => by cases h)⟩
  | cons g gs =>
  simp only
  split
  · exact ⟨fun _ => ⟨by simp, hc⟩, (fun h => by cases h)⟩
  · next optName hmode =>
    split
    · split <;> exact ⟨(fun h => by cases h), (fun h => by cases h)⟩
    · next g1 gs1 =>
      generalize skipTrivialGoals (g1 :: gs1) = r
      obtain ⟨skipped, gs'⟩ := r
      simp only
      split
      · split <;> exact ⟨(fun h => by cases h), (fun h => by cases h)⟩
      · next g2 gt2 =>
        split
        · cases cands with
          | nil => exact absurd rfl hc
          | cons c cs =>
            simp only
            cases cs with
            | nil => exact ⟨(fun h => by cases h), (fun h => by cases h)⟩
            | cons c2 cs2 =>
              simp only
              split
              · exact ⟨(fun h => by cases h), fun _ => by simp⟩
              · exact ⟨(fun h => by cases h), (fun h => by cases h)⟩
        · have h := hS optName skipped (g2 :: gt2) cands [] st (by simp) hc
          generalize ellipsisScan agg s src fuel optName skipped (g2 :: gt2) cands [] st = res at h
          rcases res with e | ⟨fl, goals', cands', st'⟩
          · exact h
          · obtain ⟨h1, h2⟩ := h
            refine ⟨h2, ?_⟩
            intro hfl
            rcases h1 with h1 | h1 <;> rw [h1] at hfl <;> cases hfl

theorem loop_stepP (fuel : Nat) (hM : MayP agg s src fuel) (hS : SingleP agg s src fuel)
    (hL : LoopP agg s src fuel) : LoopP agg s src (fuel + 1) := by
  intro goals cands st hc
  simp only [matchLoop]
  have hm := hM goals cands st hc
  generalize mayMatchEllipsis agg s src fuel goals cands st = res at hm
  rcases res with e | ⟨fl, goals1, cands1, st1⟩
  · exact hm
  · obtain ⟨hfall, hcont⟩ := hm
    cases fl with
    | none => trivial
    | some fl1 =>
    cases fl1 with
    | ret => trivial
    | cont => exact hL goals1 cands1 st1 (hcont rfl)
    | fall =>
      simp only
      obtain ⟨hgne, hcne⟩ := hfall rfl
      have hs := hS goals1 cands1 st1 hgne
      generalize matchSingle agg s src fuel goals1 cands1 st1 = res2 at hs
      rcases res2 with e | ⟨fl2, goals2, cands2, st2⟩
      · exact hs
      · cases fl2 with
        | none => trivial
        | some fl3 =>
        cases fl3 with
        | ret => trivial
        | cont => exact absurd rfl hs
        | fall =>
          simp only
          cases goals2 with
          | nil => trivial
          | cons g2 gs2 =>
            simp only
            cases gs2 with
            | nil => trivial
            | cons g3 gs3 =>
              simp only
              cases hct : cands2.tail with
              | nil => trivial
              | cons c3 cs3 => exact hL (g3 :: gs3) (c3 :: cs3) st2 (by simp)

/-- the six panic-freedom statements, by induction on the fuel -/
theorem all_nopanic (fuel : Nat) :
    NodeP agg s src fuel ∧ NodesP agg s src fuel ∧ LoopP agg s src fuel ∧
    MayP agg s src fuel ∧ ScanP agg s src fuel ∧ SingleP agg s src fuel := by
  induction fuel with
  | zero =>
    refine ⟨?_, ?_, ?_, ?_, ?_, ?_⟩
    · intro p c st; simp only [matchNode]; rfl
    · intro goals cands st; simp only [matchNodes]; rfl
    · intro goals cands st _; simp only [matchLoop]; rfl
    · intro goals cands st _; simp only [mayMatchEllipsis]; rfl
    · intro optName skipped goals cands matched st _ _; simp only [ellipsisScan]; rfl
    · intro goals cands st _; simp only [matchSingle]; rfl
  | succ fuel ih =>
    obtain ⟨hN, hNs, hL, hM, hSc, hSi⟩ := ih
    exact ⟨node_stepP agg s src fuel hNs, nodes_stepP agg s src fuel hL,
      loop_stepP agg s src fuel hM hSi hL, may_stepP agg s src fuel hSc,
      scan_stepP agg s src fuel hN hSc, single_stepP agg s src fuel hN hSi⟩

/-! ## the theorems -/

/-- **totality of `matchNode`**, every aggregator: with fuel `≥ need p c` the run ends normally -/
theorem matchNode_total (fuel : Nat) (p : PNode) (c : Tree) (st : σ) (hf : need p c ≤ fuel) :
    ∃ r, matchNode agg s src fuel p c st = .ok r :=
  (all_total agg s src fuel).1 p c st hf

/-- `matchFuel` (the budget the rule evaluator and the driver use) suffices -/
theorem matchNode_total_matchFuel (fuel : Nat) (p : PNode) (c : Tree) (st : σ)
    (hf : matchFuel p c ≤ fuel) : ∃ r, matchNode agg s src fuel p c st = .ok r :=
  matchNode_total agg s src fuel p c st (Nat.le_trans (need_le_matchFuel p c) hf)

/-- **fuel sufficiency**: from `matchFuel p c` on, `matchNode` does not run out of fuel -/
theorem matchNode_no_fuel (fuel : Nat) (p : PNode) (c : Tree) (st : σ)
    (hf : matchFuel p c ≤ fuel) : matchNode agg s src fuel p c st ≠ .error .fuel := by
  obtain ⟨r, hr⟩ := matchNode_total_matchFuel agg s src fuel p c st hf
  rw [hr]; intro h; cases h

/-- **panic freedom**, no hypothesis at all (any aggregator, any pattern — well-formed or not —,
any tree, any fuel): none of the four `unwrap()` sites is reachable from `match_node_impl` -/
theorem matchNode_no_panic (fuel : Nat) (p : PNode) (c : Tree) (st : σ) :
    matchNode agg s src fuel p c st ≠ .error .panic :=
  ((all_nopanic agg s src fuel).1 p c st).ne

/-- the same for `match_nodes_impl_recursive` -/
theorem matchNodes_no_panic (fuel : Nat) (goals : List PNode) (cands : List Tree) (st : σ) :
    matchNodes agg s src fuel goals cands st ≠ .error .panic :=
  ((all_nopanic agg s src fuel).2.1 goals cands st).ne

/-- the only abnormal outcome of `matchNode` is the model's own budget -/
theorem matchNode_error_is_fuel (fuel : Nat) (p : PNode) (c : Tree) (st : σ) (e : Abn)
    (h : matchNode agg s src fuel p c st = .error e) : e = .fuel := by
  cases e with
  | fuel => rfl
  | panic => exact absurd h (matchNode_no_panic agg s src fuel p c st)

/-- the loop of `match_nodes_impl_recursive`, entered as the code enters it (a candidate peeked) -/
theorem matchLoop_no_panic (fuel : Nat) (goals : List PNode) (cands : List Tree) (st : σ)
    (hc : cands ≠ []) : matchLoop agg s src fuel goals cands st ≠ .error .panic :=
  ((all_nopanic agg s src fuel).2.2.1 goals cands st hc).ne

end

/-! ## the entry points -/

/-- **`match_node_non_recursive` is total** with the budget the rule evaluator gives it -/
theorem matchPatternEnv_total (s : Strictness) (src : Bytes) (p : PNode) (c : Tree) (env : Env) :
    ∃ r, matchPatternEnv s src (matchFuel p c) p c env = .ok r := by
  obtain ⟨⟨m, env'⟩, hr⟩ := matchNode_total_matchFuel (envAgg src) s src _ p c env (Nat.le_refl _)
  simp only [matchPatternEnv, hr]
  cases m <;> exact ⟨_, rfl⟩

/-- and with every larger budget -/
theorem matchPatternEnv_total_ge (s : Strictness) (src : Bytes) (fuel : Nat) (p : PNode) (c : Tree)
    (env : Env) (hf : need p c ≤ fuel) : ∃ r, matchPatternEnv s src fuel p c env = .ok r := by
  obtain ⟨⟨m, env'⟩, hr⟩ := matchNode_total (envAgg src) s src fuel p c env hf
  simp only [matchPatternEnv, hr]
  cases m <;> exact ⟨_, rfl⟩

/-- the form the rule layer asks for (`PpK`, first clause): no abnormal outcome whatsoever -/
theorem matchPatternEnv_no_error (s : Strictness) (src : Bytes) (p : PNode) (c : Tree) (env : Env)
    (e : Abn) : matchPatternEnv s src (matchFuel p c) p c env ≠ .error e := by
  obtain ⟨r, hr⟩ := matchPatternEnv_total s src p c env
  rw [hr]; intro h; cases h

/-- at any fuel, `match_node_non_recursive` does not panic -/
theorem matchPatternEnv_no_panic (s : Strictness) (src : Bytes) (fuel : Nat) (p : PNode) (c : Tree)
    (env : Env) : matchPatternEnv s src fuel p c env ≠ .error .panic := by
  intro h
  simp only [matchPatternEnv] at h
  split at h
  · next e hm =>
    injection h with h; subst h
    exact matchNode_no_panic (envAgg src) s src fuel p c env hm
  · cases h
  · cases h

/-- **`match_end_non_recursive` is total** -/
theorem matchEnd_total (s : Strictness) (src : Bytes) (fuel : Nat) (p : PNode) (c : Tree)
    (hf : matchFuel p c ≤ fuel) : ∃ r, matchEnd s src fuel p c = .ok r := by
  obtain ⟨⟨m, e⟩, hr⟩ := matchNode_total_matchFuel endAgg s src fuel p c 0 hf
  simp only [matchEnd, hr]
  cases m <;> exact ⟨_, rfl⟩

/-- **`Pattern::get_match_len` is total** -/
theorem matchLen_total (s : Strictness) (src : Bytes) (fuel : Nat) (p : PNode) (c : Tree)
    (hf : matchFuel p c ≤ fuel) : ∃ r, matchLen s src fuel p c = .ok r := by
  obtain ⟨r, hr⟩ := matchEnd_total s src fuel p c hf
  simp only [matchLen, hr]
  cases r with
  | none => exact ⟨_, rfl⟩
  | some e =>
    simp only
    split <;> exact ⟨_, rfl⟩

theorem matchEnd_no_panic (s : Strictness) (src : Bytes) (fuel : Nat) (p : PNode) (c : Tree) :
    matchEnd s src fuel p c ≠ .error .panic := by
  intro h
  simp only [matchEnd] at h
  split at h
  · next e hm =>
    injection h with h; subst h
    exact matchNode_no_panic endAgg s src fuel p c 0 hm
  · cases h
  · cases h

/-! ## the panic sites are live code: witnesses outside the pre-conditions

Each of the four sites is reached by the list-level function *called on its own* with an iterator
state that `match_nodes_impl_recursive` never produces (all four functions are private to
`match_node.rs`; the only caller chain starts at `match_node_impl`).  Kept as evidence that the
pre-conditions of `LoopP`/`MayP`/`ScanP`/`SingleP` are needed and that `matchNode_no_panic` is
not true for trivial reasons. -/

def isPanic {α : Type} : Except Abn α → Bool
  | .error .panic => true
  | _ => false

def leafTok : Tree := .node ⟨1, false, false, false, 0, 1, none, 0⟩ []

/-- P1: `$$$ $$$A` with the candidate iterator exhausted -/
theorem panic_site_P1 :
    isPanic (matchLoop endAgg .smart [] 5 [.metaVar .multiple, .metaVar (.multiCapture ['A'])] [] 0)
      = true := by decide

/-- P2: the scan loop without a goal -/
theorem panic_site_P2 :
    isPanic (ellipsisScan endAgg .smart [] 5 none 0 [] [leafTok] [] 0) = true := by decide

/-- P3: the scan loop without a candidate -/
theorem panic_site_P3 :
    isPanic (ellipsisScan endAgg .smart [] 5 none 0 [.metaVar (.dropped true)] [] [] 0) = true := by
  decide

/-- P4: `match_single_node_while_skip_trivial` with a candidate and no goal -/
theorem panic_site_P4 :
    isPanic (matchSingle endAgg .smart [] 5 [] [leafTok] 0) = true := by decide

/-- the same goals through `matchNodes`: no candidate, no match, no panic -/
theorem panic_site_P1_guarded :
    matchNodes endAgg .smart [] 5 [.metaVar .multiple, .metaVar (.multiCapture ['A'])] [] 0
      = .ok (false, 0) := rfl

/-! ## non-vacuity and sharpness of the fuel statements -/

/-- the budget is needed: one unit below what the recursion uses, the run is out of fuel … -/
theorem fuel_needed_example :
    matchNode endAgg .smart [] 4 (.internal 7 [.metaVar (.dropped false)])
      (.node ⟨7, true, false, false, 0, 1, none, 0⟩ [leafTok]) 0 = .error .fuel := rfl

/-- … with one more it ends normally (the recursion is five deep here); `need` is `16` and
`matchFuel` `44` on this input: both bounds are generous, neither is tight -/
theorem fuel_enough_example :
    matchNode endAgg .smart [] 5 (.internal 7 [.metaVar (.dropped false)])
      (.node ⟨7, true, false, false, 0, 1, none, 0⟩ [leafTok]) 0 = .ok (.matchedBoth, 1) ∧
    need (.internal 7 [.metaVar (.dropped false)])
      (.node ⟨7, true, false, false, 0, 1, none, 0⟩ [leafTok]) = 16 ∧
    matchFuel (.internal 7 [.metaVar (.dropped false)])
      (.node ⟨7, true, false, false, 0, 1, none, 0⟩ [leafTok]) = 44 := ⟨rfl, rfl, rfl⟩

end AGV.MatchTotal
