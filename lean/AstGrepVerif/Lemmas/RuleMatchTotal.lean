/-
The pattern hypothesis of the rule-level termination theorems (`PpK`, `PatsAll`, `RegPats` of
`Lemmas/RuleFuelReg.lean` / `Lemmas/RuleTotal.lean`) after matcher totality
(`Lemmas/MatchTotal.lean`): the matcher clause of `PpK` holds for every pattern, what remains is
"the variables of the patterns are among `K`" — and `K` can be computed from the rule and the
registries (`allVars`, `regVars`, `docVars`).
-/
import AstGrepVerif.Lemmas.RuleTotal
import AstGrepVerif.Lemmas.MatchTotal

set_option linter.unusedSimpArgs false
set_option linter.unusedVariables false

namespace AGV.RuleFuelReg

open AGV AGV.RuleFuel

/-- after `matchPatternEnv_no_error`, `PpK` is its variable clause -/
theorem ppK_iff (ctx : RCtx) (bad : Abn → Prop) (K : List Name) (p : PNode) (s : Strictness) :
    PpK ctx bad K p s ↔ ∀ v ∈ p.vars, v ∈ K :=
  ⟨fun h => h.2, fun h => ⟨fun n env e _ => MatchTotal.matchPatternEnv_no_error s ctx.src p n env e, h⟩⟩

/-! ## the variables of ALL patterns of a rule (stop rules and `ofRule` included) -/

mutual
def allVars : Rule → List Name
  | .pattern p _ _ => p.vars
  | .kind _ => []
  | .regex _ => []
  | .nthChild _ _ ofRule _ =>
    match ofRule with
    | some r => allVars r
    | none => []
  | .range _ _ _ _ => []
  | .inside r stop _ => allVars r ++ allVarsStop stop
  | .has r stop _ => allVars r ++ allVarsStop stop
  | .precedes r stop => allVars r ++ allVarsStop stop
  | .follows r stop => allVars r ++ allVarsStop stop
  | .all rs _ => allVarsList rs
  | .any rs _ => allVarsList rs
  | .not r => allVars r
  | .matches _ => []
def allVarsStop : StopBy → List Name
  | .neighbor => []
  | .end_ => []
  | .rule r => allVars r
def allVarsList : List Rule → List Name
  | [] => []
  | r :: rs => allVars r ++ allVarsList rs
end

/-- the variables of a list of named rules (local utilities, constraints) -/
def namedVars : List (Name × Rule) → List Name
  | [] => []
  | c :: rest => allVars c.2 ++ namedVars rest

/-- the variables of the global utilities: rule and constraint rules -/
def globalsVars : List (Name × RuleCore) → List Name
  | [] => []
  | g :: rest => allVars g.2.rule ++ namedVars g.2.constraints ++ globalsVars rest

/-- the variables of the registries -/
def regVars (ctx : RCtx) : List Name := namedVars ctx.locals ++ globalsVars ctx.globals

/-- the variables of a rule and of everything it may refer to: a `K` that always works -/
def docVars (ctx : RCtx) (r : Rule) : List Name := allVars r ++ regVars ctx

/-- "the variables of all patterns are in `K`", decidable -/
def VarsIn (K : List Name) (vs : List Name) : Prop := ∀ v ∈ vs, v ∈ K

instance (K vs : List Name) : Decidable (VarsIn K vs) := by unfold VarsIn; infer_instance

theorem VarsIn.refl (K : List Name) : VarsIn K K := fun _ h => h

theorem VarsIn.left {K a b : List Name} (h : VarsIn K (a ++ b)) : VarsIn K a :=
  fun v hv => h v (List.mem_append_left _ hv)

theorem VarsIn.right {K a b : List Name} (h : VarsIn K (a ++ b)) : VarsIn K b :=
  fun v hv => h v (List.mem_append_right _ hv)

mutual
theorem patsAll_of_vars (ctx : RCtx) (bad : Abn → Prop) (K : List Name) :
    ∀ r : Rule, VarsIn K (allVars r) → PatsAll (PpK ctx bad K) r
  | .pattern p _ s, h => by
    simp only [PatsAll]; simp only [allVars] at h; exact (ppK_iff ctx bad K p s).2 h
  | .kind _, _ => by simp [PatsAll]
  | .regex _, _ => by simp [PatsAll]
  | .range _ _ _ _, _ => by simp [PatsAll]
  | .nthChild _ _ none _, _ => by simp [PatsAll]
  | .nthChild _ _ (some r) _, h => by
    simp only [PatsAll]; simp only [allVars] at h; exact patsAll_of_vars ctx bad K r h
  | .inside r st _, h => by
    simp only [PatsAll]; simp only [allVars] at h
    exact ⟨patsAll_of_vars ctx bad K r h.left, patsAllStop_of_vars ctx bad K st h.right⟩
  | .has r st _, h => by
    simp only [PatsAll]; simp only [allVars] at h
    exact ⟨patsAll_of_vars ctx bad K r h.left, patsAllStop_of_vars ctx bad K st h.right⟩
  | .precedes r st, h => by
    simp only [PatsAll]; simp only [allVars] at h
    exact ⟨patsAll_of_vars ctx bad K r h.left, patsAllStop_of_vars ctx bad K st h.right⟩
  | .follows r st, h => by
    simp only [PatsAll]; simp only [allVars] at h
    exact ⟨patsAll_of_vars ctx bad K r h.left, patsAllStop_of_vars ctx bad K st h.right⟩
  | .all rs _, h => by
    simp only [PatsAll]; simp only [allVars] at h; exact patsAllList_of_vars ctx bad K rs h
  | .any rs _, h => by
    simp only [PatsAll]; simp only [allVars] at h; exact patsAllList_of_vars ctx bad K rs h
  | .not r, h => by
    simp only [PatsAll]; simp only [allVars] at h; exact patsAll_of_vars ctx bad K r h
  | .matches _, _ => by simp [PatsAll]
theorem patsAllStop_of_vars (ctx : RCtx) (bad : Abn → Prop) (K : List Name) :
    ∀ st : StopBy, VarsIn K (allVarsStop st) → PatsAllStop (PpK ctx bad K) st
  | .neighbor, _ => by simp [PatsAllStop]
  | .end_, _ => by simp [PatsAllStop]
  | .rule r, h => by
    simp only [PatsAllStop]; simp only [allVarsStop] at h; exact patsAll_of_vars ctx bad K r h
theorem patsAllList_of_vars (ctx : RCtx) (bad : Abn → Prop) (K : List Name) :
    ∀ rs : List Rule, VarsIn K (allVarsList rs) → PatsAllList (PpK ctx bad K) rs
  | [], _ => by simp [PatsAllList]
  | r :: rs, h => by
    simp only [PatsAllList]; simp only [allVarsList] at h
    exact ⟨patsAll_of_vars ctx bad K r h.left, patsAllList_of_vars ctx bad K rs h.right⟩
end

theorem namedVars_of_lookup {id : Name} {q : Rule} : ∀ {l : List (Name × Rule)},
    alookup id l = some q → ∀ v ∈ allVars q, v ∈ namedVars l
  | [], h => by cases h
  | (k, r) :: rest, h => by
    simp only [alookup] at h
    simp only [namedVars]
    intro v hv
    split at h
    · simp only [Option.some.injEq] at h; subst h; exact List.mem_append_left _ hv
    · exact List.mem_append_right _ (namedVars_of_lookup h v hv)

theorem globalsVars_of_lookup {id : Name} {core : RuleCore} : ∀ {l : List (Name × RuleCore)},
    alookup id l = some core →
      ∀ v ∈ allVars core.rule ++ namedVars core.constraints, v ∈ globalsVars l
  | [], h => by cases h
  | (k, r) :: rest, h => by
    simp only [alookup] at h
    simp only [globalsVars]
    intro v hv
    split at h
    · simp only [Option.some.injEq] at h; subst h; exact List.mem_append_left _ hv
    · exact List.mem_append_right _ (globalsVars_of_lookup h v hv)

/-- the registry hypothesis from "the variables of the registries are in `K`" -/
theorem regPats_of_vars (ctx : RCtx) (bad : Abn → Prop) (K : List Name)
    (h : VarsIn K (regVars ctx)) : RegPats ctx (PpK ctx bad K) := by
  refine ⟨fun id q hl => ?_, fun id core hg => ⟨?_, fun v m hv => ?_⟩⟩
  · exact patsAll_of_vars ctx bad K q (fun v hv => h.left v (namedVars_of_lookup hl v hv))
  · exact patsAll_of_vars ctx bad K core.rule
      (fun v hv => h.right v (globalsVars_of_lookup hg v (List.mem_append_left _ hv)))
  · exact patsAll_of_vars ctx bad K m (fun w hw =>
      h.right w (globalsVars_of_lookup hg w (List.mem_append_right _ (namedVars_of_lookup hv w hw))))

/-- **termination of the rule evaluator over an acyclic registry, matcher hypothesis discharged**:
the abnormal outcomes of `matchRule` are excluded — all of them (`bad := fun _ => True`) — with
only the variable bookkeeping left. -/
theorem matchRule_noBad_document_vars (ctx : RCtx) (bad : Abn → Prop) (rank : Name → Nat)
    (hrank : RegRanked ctx rank) (K : List Name) (r : Rule) (hK : VarsIn K (docVars ctx r))
    (hnc : NoConstraints ctx) (Kr : Nat) (hr : refsBelow rank Kr r = true)
    (n : Tree) (hn : n ∈ ctx.root.preorder) (env : Env)
    (henv : EnvK K env) (fuel : Nat)
    (hf : costG (mcost ctx ctx.root.size K.length Kr) ctx.root.size r ≤ fuel) :
    NoBad bad (matchRule ctx fuel r n env) :=
  matchRule_noBad_document ctx bad rank hrank K (regPats_of_vars ctx bad K hK.right) hnc Kr r hr
    (patsAll_of_vars ctx bad K r hK.left) n hn env henv fuel hf

end AGV.RuleFuelReg
