/-
The C04 oracle (`Spec/PureRule.lean`): `isolate r` wraps every sub-rule of `r` in a singleton
`all … none`, which makes its evaluation trace-free by construction.  Here: the evaluator computes
the same verdict and the same bindings for `isolate r` and for `r` itself.
-/
import AstGrepVerif.Lemmas.RuleRefVars
import AstGrepVerif.Spec.PureRule

set_option linter.unusedSimpArgs false
set_option linter.unusedVariables false

namespace AGV

open Spec

/-! ## Environments up to the `secondary` label -/

/-- every name but the label `secondary` -/
def nsV : Name → Bool := fun v => decide (v ≠ secondaryLabel)

/-- the same single bindings, the same multi bindings except under `secondary`, the same
`transformed` (the label records the node a relation returned: `isolate` changes that node) -/
def EqNS (e1 e2 : Env) : Prop := restrictEnv nsV e1 = restrictEnv nsV e2

theorem EqNS.refl (e : Env) : EqNS e e := rfl
theorem EqNS.symm {a b : Env} (h : EqNS a b) : EqNS b a := Eq.symm h
theorem EqNS.trans {a b c : Env} (h1 : EqNS a b) (h2 : EqNS b c) : EqNS a c := Eq.trans h1 h2

theorem restrictL_ainsert_not {β} (V : Name → Bool) {k : Name} (hk : V k = false) (v : β)
    (l : List (Name × β)) : restrictL V (ainsert k v l) = restrictL V l := by
  induction l with
  | nil => simp [restrictL, ainsert, hk]
  | cons x xs ih =>
    obtain ⟨k', v'⟩ := x
    unfold restrictL at ih ⊢
    simp only [ainsert]
    split
    · next he => subst he; simp [List.filter_cons, hk]
    · rw [List.filter_cons, List.filter_cons, ih]

theorem EqNS.addLabel {a b : Env} (h : EqNS a b) (m1 m2 : Tree) :
    EqNS (a.addLabel secondaryLabel m1) (b.addLabel secondaryLabel m2) := by
  have hs : nsV secondaryLabel = false := by simp [nsV]
  have key : ∀ (e : Env) (m : Tree), restrictEnv nsV (e.addLabel secondaryLabel m) = restrictEnv nsV e := by
    intro e m
    unfold Env.addLabel
    split <;> simp [restrictEnv, restrictL_ainsert_not nsV hs]
  unfold EqNS
  rw [key, key]; exact h

/-- what `EqNS` says, binding by binding -/
theorem EqNS.lookups {a b : Env} (h : EqNS a b) :
    (∀ v, v ≠ secondaryLabel → alookup v a.single = alookup v b.single) ∧
    (∀ v, v ≠ secondaryLabel → alookup v a.multi = alookup v b.multi) ∧
    a.transformed = b.transformed := by
  have h1 : restrictL nsV a.single = restrictL nsV b.single := congrArg Env.single h
  have h2 : restrictL nsV a.multi = restrictL nsV b.multi := congrArg Env.multi h
  refine ⟨fun v hv => ?_, fun v hv => ?_, ?_⟩
  · have hk : nsV v = true := by simp [nsV, hv]
    rw [← alookup_restrictL nsV hk a.single, ← alookup_restrictL nsV hk b.single, h1]
  · have hk : nsV v = true := by simp [nsV, hv]
    rw [← alookup_restrictL nsV hk a.multi, ← alookup_restrictL nsV hk b.multi, h2]
  · have h3 := congrArg Env.transformed h
    simpa [restrictEnv] using h3

/-- results agree: same verdict, environments equal up to the label -/
def AgreeNS (x y : Option Tree × Env) : Prop := x.1.isSome = y.1.isSome ∧ EqNS x.2 y.2

/-- a pattern that does not capture the name `secondary` cannot tell the two environments apart -/
theorem matchPatternEnv_eqNS (s : Strictness) (src : Bytes) (f : Nat) (p : PNode) (c : Tree)
    (e1 e2 : Env) (hp : p.namesIn (fun v => nsV v = true)) (h : EqNS e1 e2) :
    (∀ err, matchPatternEnv s src f p c e1 = .error err → matchPatternEnv s src f p c e2 = .error err) ∧
    (matchPatternEnv s src f p c e1 = .ok none → matchPatternEnv s src f p c e2 = .ok none) ∧
    (∀ a, matchPatternEnv s src f p c e1 = .ok (some a) →
      ∃ b, matchPatternEnv s src f p c e2 = .ok (some b) ∧ EqNS a b) := by
  have h1 := matchNode_restrictEnv s src nsV f p c e1 hp
  have h2 := matchNode_restrictEnv s src nsV f p c e2 hp
  have h12 : (matchNode (envAgg src) s src f p c e1).map (proj1 (restrictEnv nsV))
      = (matchNode (envAgg src) s src f p c e2).map (proj1 (restrictEnv nsV)) := by
    rw [h1, h2, h]
  clear h1 h2
  simp only [matchPatternEnv]
  generalize matchNode (envAgg src) s src f p c e1 = R1 at h12 ⊢
  generalize matchNode (envAgg src) s src f p c e2 = R2 at h12 ⊢
  rcases R1 with err1 | ⟨r1, st1⟩ <;> rcases R2 with err2 | ⟨r2, st2⟩ <;>
    simp only [Except.map, proj1, Except.ok.injEq, Except.error.injEq, Prod.mk.injEq,
      reduceCtorEq] at h12
  · subst h12; exact ⟨fun err he => he, ⟨fun he => by simp at he, fun a he => by simp at he⟩⟩
  · obtain ⟨rfl, hst⟩ := h12
    cases r1 <;> simp <;> exact hst

/-! ## The fragment: no `matches`, no pattern variable called `secondary` -/

mutual
def Rule.isoOK : Rule → Bool
  | .pattern p _ _ => !(p.vars.contains secondaryLabel)
  | .kind _ => true
  | .regex _ => true
  | .range _ _ _ _ => true
  | .nthChild _ _ none _ => true
  | .nthChild _ _ (some r) _ => r.isoOK
  | .inside r stop _ => r.isoOK && stop.isoOK
  | .has r stop _ => r.isoOK && stop.isoOK
  | .precedes r stop => r.isoOK && stop.isoOK
  | .follows r stop => r.isoOK && stop.isoOK
  | .all rs _ => Rule.isoOKList rs
  | .any rs _ => Rule.isoOKList rs
  | .not r => r.isoOK
  | .matches _ => false
def StopBy.isoOK : StopBy → Bool
  | .neighbor => true
  | .end_ => true
  | .rule r => r.isoOK
def Rule.isoOKList : List Rule → Bool
  | [] => true
  | r :: rs => r.isoOK && Rule.isoOKList rs
end

theorem namesIn_nsV {p : PNode} (h : (!(p.vars.contains secondaryLabel)) = true) :
    p.namesIn (fun v => nsV v = true) := by
  refine PNode.namesIn_mono (fun v hv => ?_) p (PNode.namesIn_vars p)
  simp only [nsV, decide_eq_true_eq]
  intro e; subst e
  simp [hv] at h

section
variable (ctx : RCtx)

/-- a singleton `all` without kind cache: the inner rule's verdict and environment, the node
itself as result, the caller's environment on failure -/
theorem wrap_run {F : Nat} {q : Rule} {n : Tree} {e : Env} {x : Option Tree × Env}
    (h : matchRule ctx F (.all [q] none) n e = .ok x) :
    ∃ x0, matchRule ctx F q n e = .ok x0 ∧
      ((∃ m e', x0 = (some m, e') ∧ x = (some n, e')) ∨ (∃ e', x0 = (none, e') ∧ x = (none, e))) := by
  cases F with
  | zero => simp [matchRule] at h
  | succ F =>
    simp only [matchRule, kindsGate, Bool.not_true, Bool.false_eq_true, ↓reduceIte] at h
    cases F with
    | zero => simp [allLoop] at h
    | succ F =>
      simp only [allLoop] at h
      rcases hq : matchRule ctx F q n e with err | ⟨m, e'⟩
      · rw [hq] at h; cases h
      · rw [hq] at h
        have hq' := matchRule_fuel_mono ctx (by omega : F ≤ F + 1 + 1) hq
        cases m with
        | none =>
          simp only [Except.ok.injEq] at h
          exact ⟨_, hq', .inr ⟨e', rfl, h.symm⟩⟩
        | some m =>
          simp only at h
          cases F with
          | zero => simp [allLoop] at h
          | succ F =>
            simp only [allLoop, Except.ok.injEq] at h
            exact ⟨_, hq', .inl ⟨m, e', rfl, h.symm⟩⟩

def SRule (f : Nat) : Prop :=
  ∀ r n e1 e2 x, Rule.isoOK r = true → EqNS e1 e2 → matchRule ctx f (isolate r) n e1 = .ok x →
    ∃ y, matchRule ctx f r n e2 = .ok y ∧ AgreeNS x y
def SAll (f : Nat) : Prop :=
  ∀ rs n e1 e2 x, Rule.isoOKList rs = true → EqNS e1 e2 →
    allLoop ctx f (isolateList rs) n e1 = .ok x →
    ∃ y, allLoop ctx f rs n e2 = .ok y ∧ x.1 = y.1 ∧ EqNS x.2 y.2
def SAny (f : Nat) : Prop :=
  ∀ rs n e1 e2 x, Rule.isoOKList rs = true → EqNS e1 e2 →
    anyLoop ctx f (isolateList rs) n e1 = .ok x →
    ∃ y, anyLoop ctx f rs n e2 = .ok y ∧
      ((x = none ∧ y = none) ∨ ∃ a b, x = some a ∧ y = some b ∧ EqNS a b)
def SFilter (f : Nat) : Prop :=
  ∀ r cs e1 e2 l, Rule.isoOK r = true → EqNS e1 e2 →
    filterMapRule ctx f (isolate r) cs e1 = .ok l → filterMapRule ctx f r cs e2 = .ok l
def SFinder (f : Nat) : Prop :=
  ∀ r field eid c e1 e2 x, Rule.isoOK r = true → EqNS e1 e2 →
    finderStep ctx f (isolate r) field eid c e1 = .ok x →
    ∃ y, finderStep ctx f r field eid c e2 = .ok y ∧ AgreeNS x y
def SFindMap (f : Nat) : Prop :=
  ∀ r field eid cs e1 e2 x, Rule.isoOK r = true → EqNS e1 e2 →
    findMapRule ctx f (isolate r) field eid cs e1 = .ok x →
    ∃ y, findMapRule ctx f r field eid cs e2 = .ok y ∧ AgreeNS x y
def SUntil (f : Nat) : Prop :=
  ∀ r s field eid st cs e1 e2 x, Rule.isoOK r = true → Rule.isoOK s = true → EqNS e1 e2 →
    findMapUntil ctx f (isolate r) (isolate s) field eid st cs e1 = .ok x →
    ∃ y, findMapUntil ctx f r s field eid st cs e2 = .ok y ∧ AgreeNS x y
def SStopBy (f : Nat) : Prop :=
  ∀ stop r field eid once multi e1 e2 x, Rule.isoOK r = true → StopBy.isoOK stop = true →
    EqNS e1 e2 →
    stopByFind ctx f (isolateStop stop) (isolate r) field eid once multi e1 = .ok x →
    ∃ y, stopByFind ctx f stop r field eid once multi e2 = .ok y ∧ AgreeNS x y
def SInside (f : Nat) : Prop :=
  ∀ r stop field n e1 e2 x, Rule.isoOK r = true → StopBy.isoOK stop = true → EqNS e1 e2 →
    matchInside ctx f (isolate r) (isolateStop stop) field n e1 = .ok x →
    ∃ y, matchInside ctx f r stop field n e2 = .ok y ∧ AgreeNS x y
def SHasUntil (f : Nat) : Prop :=
  ∀ r s cs e1 e2 x, Rule.isoOK r = true → Rule.isoOK s = true → EqNS e1 e2 →
    hasUntil ctx f (isolate r) (isolate s) cs e1 = .ok x →
    ∃ y, hasUntil ctx f r s cs e2 = .ok y ∧ AgreeNS x y
def SHas (f : Nat) : Prop :=
  ∀ r stop field n e1 e2 x, Rule.isoOK r = true → StopBy.isoOK stop = true → EqNS e1 e2 →
    matchHas ctx f (isolate r) (isolateStop stop) field n e1 = .ok x →
    ∃ y, matchHas ctx f r stop field n e2 = .ok y ∧ AgreeNS x y

end

section
variable (ctx : RCtx)

theorem agree_cases {m : Option Tree} {e1' : Env} {y0 : Option Tree × Env}
    (h : AgreeNS (m, e1') y0) :
    (m = none ∧ ∃ e2', y0 = (none, e2') ∧ EqNS e1' e2') ∨
    (∃ a b e2', m = some a ∧ y0 = (some b, e2') ∧ EqNS e1' e2') := by
  obtain ⟨m', e2'⟩ := y0
  obtain ⟨h1, h2⟩ := h
  cases m <;> cases m' <;> simp at h1
  · exact .inl ⟨rfl, e2', rfl, h2⟩
  · exact .inr ⟨_, _, e2', rfl, rfl, h2⟩

theorem s_all_step (f : Nat) (hR : SRule ctx f) (hA : SAll ctx f) : SAll ctx (f + 1) := by
  intro rs n e1 e2 x hv he h
  cases rs with
  | nil =>
    simp only [isolateList, allLoop, Except.ok.injEq] at h ⊢
    subst h; exact ⟨_, rfl, rfl, he⟩
  | cons r rs =>
    simp only [Rule.isoOKList, Bool.and_eq_true] at hv
    simp only [isolateList, allLoop] at h ⊢
    rcases hq : matchRule ctx f (isolate r) n e1 with err | ⟨m, e1'⟩
    · rw [hq] at h; cases h
    · rw [hq] at h
      obtain ⟨y0, hy0, hag⟩ := hR _ _ _ _ _ hv.1 he hq
      rw [hy0]
      rcases agree_cases hag with ⟨rfl, e2', rfl, he'⟩ | ⟨a, b, e2', rfl, rfl, he'⟩
      · simp only [Except.ok.injEq] at h ⊢
        subst h; exact ⟨_, rfl, rfl, he'⟩
      · exact hA _ _ _ _ _ hv.2 he' h

theorem s_any_step (f : Nat) (hR : SRule ctx f) (hA : SAny ctx f) : SAny ctx (f + 1) := by
  intro rs n e1 e2 x hv he h
  cases rs with
  | nil =>
    simp only [isolateList, anyLoop, Except.ok.injEq] at h ⊢
    subst h; exact ⟨_, rfl, .inl ⟨rfl, rfl⟩⟩
  | cons r rs =>
    simp only [Rule.isoOKList, Bool.and_eq_true] at hv
    simp only [isolateList, anyLoop] at h ⊢
    rcases hq : matchRule ctx f (isolate r) n e1 with err | ⟨m, e1'⟩
    · rw [hq] at h; cases h
    · rw [hq] at h
      obtain ⟨y0, hy0, hag⟩ := hR _ _ _ _ _ hv.1 he hq
      rw [hy0]
      rcases agree_cases hag with ⟨rfl, e2', rfl, he'⟩ | ⟨a, b, e2', rfl, rfl, he'⟩
      · exact hA _ _ _ _ _ hv.2 he h
      · simp only [Except.ok.injEq] at h ⊢
        subst h; exact ⟨_, rfl, .inr ⟨_, _, rfl, rfl, he'⟩⟩

theorem s_filter_step (f : Nat) (hR : SRule ctx f) (hF : SFilter ctx f) : SFilter ctx (f + 1) := by
  intro r cs e1 e2 l hv he h
  cases cs with
  | nil => simp only [filterMapRule] at h ⊢; exact h
  | cons c cs =>
    simp only [filterMapRule] at h ⊢
    rcases hq : matchRule ctx f (isolate r) c e1 with err | ⟨m, e1'⟩
    · rw [hq] at h; cases h
    · rw [hq] at h
      obtain ⟨y0, hy0, hag⟩ := hR _ _ _ _ _ hv he hq
      rw [hy0]
      simp only at h ⊢
      rcases hfr : filterMapRule ctx f (isolate r) cs e1 with err | rest
      · rw [hfr] at h; cases h
      · rw [hfr] at h
        rw [hF _ _ _ _ _ hv he hfr]
        rcases agree_cases hag with ⟨rfl, e2', rfl, he'⟩ | ⟨a, b, e2', rfl, rfl, he'⟩
        · exact h
        · exact h

theorem s_finder_step (f : Nat) (hR : SRule ctx f) : SFinder ctx (f + 1) := by
  intro r field eid c e1 e2 x hv he h
  cases field with
  | none => simp only [finderStep] at h ⊢; exact hR _ _ _ _ _ hv he h
  | some fld =>
    simp only [finderStep] at h ⊢
    cases hcb : childByField c fld with
    | none =>
      rw [hcb] at h
      simp only [Except.ok.injEq] at h ⊢
      subst h; exact ⟨_, rfl, rfl, he⟩
    | some ch =>
      rw [hcb] at h
      simp only at h ⊢
      by_cases hid : (ch.id != eid) = true
      · rw [if_pos hid] at h ⊢
        simp only [Except.ok.injEq] at h ⊢
        subst h; exact ⟨_, rfl, rfl, he⟩
      · rw [if_neg hid] at h ⊢
        exact hR _ _ _ _ _ hv he h

theorem s_findMap_step (f : Nat) (hF : SFinder ctx f) (hM : SFindMap ctx f) :
    SFindMap ctx (f + 1) := by
  intro r field eid cs e1 e2 x hv he h
  cases cs with
  | nil =>
    simp only [findMapRule, Except.ok.injEq] at h ⊢
    subst h; exact ⟨_, rfl, rfl, he⟩
  | cons c cs =>
    simp only [findMapRule] at h ⊢
    rcases hq : finderStep ctx f (isolate r) field eid c e1 with err | ⟨m, e1'⟩
    · rw [hq] at h; cases h
    · rw [hq] at h
      obtain ⟨y0, hy0, hag⟩ := hF _ _ _ _ _ _ _ hv he hq
      rw [hy0]
      rcases agree_cases hag with ⟨rfl, e2', rfl, he'⟩ | ⟨a, b, e2', rfl, rfl, he'⟩
      · exact hM _ _ _ _ _ _ _ hv he' h
      · simp only [Except.ok.injEq] at h ⊢
        subst h; exact ⟨_, rfl, rfl, he'⟩

theorem s_until_step (f : Nat) (hR : SRule ctx f) (hF : SFinder ctx f) (hU : SUntil ctx f) :
    SUntil ctx (f + 1) := by
  intro r s field eid st cs e1 e2 x hv hsv he h
  cases cs with
  | nil =>
    simp only [findMapUntil, Except.ok.injEq] at h ⊢
    subst h; exact ⟨_, rfl, rfl, he⟩
  | cons c cs =>
    simp only [findMapUntil] at h ⊢
    cases st with
    | true =>
      simp only [↓reduceIte, Except.ok.injEq] at h ⊢
      subst h; exact ⟨_, rfl, rfl, he⟩
    | false =>
      simp only [Bool.false_eq_true, ↓reduceIte] at h ⊢
      rcases hs : matchRule ctx f (isolate s) c Env.empty with err | ⟨sm, se⟩
      · rw [hs] at h; cases h
      · rw [hs] at h
        obtain ⟨ys, hys, hags⟩ := hR _ _ _ _ _ hsv (EqNS.refl _) hs
        rw [hys]
        simp only at h ⊢
        rcases hq : finderStep ctx f (isolate r) field eid c e1 with err | ⟨m, e1'⟩
        · rw [hq] at h; cases h
        · rw [hq] at h
          obtain ⟨y0, hy0, hag⟩ := hF _ _ _ _ _ _ _ hv he hq
          rw [hy0]
          rcases agree_cases hag with ⟨rfl, e2', rfl, he'⟩ | ⟨a, b, e2', rfl, rfl, he'⟩
          · simp only at h ⊢
            rw [← hags.1]
            exact hU _ _ _ _ _ _ _ _ _ hv hsv he' h
          · simp only [Except.ok.injEq] at h ⊢
            subst h; exact ⟨_, rfl, rfl, he'⟩

theorem s_stopBy_step (f : Nat) (hF : SFinder ctx f) (hM : SFindMap ctx f) (hU : SUntil ctx f) :
    SStopBy ctx (f + 1) := by
  intro stop r field eid once multi e1 e2 x hv hsv he h
  cases stop with
  | neighbor =>
    cases once with
    | none =>
      simp only [isolateStop, stopByFind, Except.ok.injEq] at h ⊢
      subst h; exact ⟨_, rfl, rfl, he⟩
    | some c =>
      simp only [isolateStop, stopByFind] at h ⊢
      exact hF _ _ _ _ _ _ _ hv he h
  | end_ =>
    simp only [isolateStop, stopByFind] at h ⊢
    exact hM _ _ _ _ _ _ _ hv he h
  | rule s =>
    simp only [isolateStop, stopByFind] at h ⊢
    exact hU _ _ _ _ _ _ _ _ _ hv (by simpa [StopBy.isoOK] using hsv) he h

theorem s_inside_step (f : Nat) (hS : SStopBy ctx f) : SInside ctx (f + 1) := by
  intro r stop field n e1 e2 x hv hsv he h
  simp only [matchInside] at h ⊢
  exact hS _ _ _ _ _ _ _ _ _ hv hsv he h

theorem s_hasUntil_step (f : Nat) (hR : SRule ctx f) (hH : SHasUntil ctx f) :
    SHasUntil ctx (f + 1) := by
  intro r s cs e1 e2 x hv hsv he h
  cases cs with
  | nil =>
    simp only [hasUntil, Except.ok.injEq] at h ⊢
    subst h; exact ⟨_, rfl, rfl, he⟩
  | cons c cs =>
    simp only [hasUntil] at h ⊢
    rcases hq : matchRule ctx f (isolate r) c e1 with err | ⟨m, e1'⟩
    · rw [hq] at h; cases h
    · rw [hq] at h
      obtain ⟨y0, hy0, hag⟩ := hR _ _ _ _ _ hv he hq
      rw [hy0]
      rcases agree_cases hag with ⟨rfl, e2', rfl, he'⟩ | ⟨a, b, e2', rfl, rfl, he'⟩
      · simp only at h ⊢
        rcases hs : matchRule ctx f (isolate s) c Env.empty with err | ⟨sm, se⟩
        · rw [hs] at h; cases h
        · rw [hs] at h
          obtain ⟨ys, hys, hags⟩ := hR _ _ _ _ _ hsv (EqNS.refl _) hs
          rw [hys]
          rcases agree_cases hags with ⟨rfl, se', rfl, _⟩ | ⟨a, b, se', rfl, rfl, _⟩
          · simp only at h ⊢
            rcases hh : hasUntil ctx f (isolate r) (isolate s) c.children e1' with err | ⟨m2, e1''⟩
            · rw [hh] at h; cases h
            · rw [hh] at h
              obtain ⟨y2, hy2, hag2⟩ := hH _ _ _ _ _ _ hv hsv he' hh
              rw [hy2]
              rcases agree_cases hag2 with ⟨rfl, e2'', rfl, he''⟩ | ⟨a, b, e2'', rfl, rfl, he''⟩
              · exact hH _ _ _ _ _ _ hv hsv he'' h
              · simp only [Except.ok.injEq] at h ⊢
                subst h; exact ⟨_, rfl, rfl, he''⟩
          · simp only at h ⊢
            exact hH _ _ _ _ _ _ hv hsv he' h
      · simp only [Except.ok.injEq] at h ⊢
        subst h; exact ⟨_, rfl, rfl, he'⟩

theorem s_has_step (f : Nat) (hR : SRule ctx f) (hM : SFindMap ctx f) (hHU : SHasUntil ctx f) :
    SHas ctx (f + 1) := by
  intro r stop field n e1 e2 x hv hsv he h
  cases field with
  | some fld =>
    simp only [matchHas] at h ⊢
    cases hcb : childByField n fld with
    | none =>
      rw [hcb] at h
      simp only [Except.ok.injEq] at h ⊢
      subst h; exact ⟨_, rfl, rfl, he⟩
    | some nd =>
      rw [hcb] at h
      simp only at h ⊢
      cases stop with
      | neighbor => simp only [isolateStop] at h ⊢; exact hR _ _ _ _ _ hv he h
      | end_ => simp only [isolateStop] at h ⊢; exact hM _ _ _ _ _ _ _ hv he h
      | rule s =>
        have hsv' : s.isoOK = true := by simpa [StopBy.isoOK] using hsv
        simp only [isolateStop] at h ⊢
        rcases hq : matchRule ctx f (isolate r) nd e1 with err | ⟨m, e1'⟩
        · rw [hq] at h; cases h
        · rw [hq] at h
          obtain ⟨y0, hy0, hag⟩ := hR _ _ _ _ _ hv he hq
          rw [hy0]
          rcases agree_cases hag with ⟨rfl, e2', rfl, he'⟩ | ⟨a, b, e2', rfl, rfl, he'⟩
          · simp only at h ⊢
            rcases hs : matchRule ctx f (isolate s) nd Env.empty with err | ⟨sm, se⟩
            · rw [hs] at h; cases h
            · rw [hs] at h
              obtain ⟨ys, hys, hags⟩ := hR _ _ _ _ _ hsv' (EqNS.refl _) hs
              rw [hys]
              rcases agree_cases hags with ⟨rfl, se', rfl, _⟩ | ⟨a, b, se', rfl, rfl, _⟩
              · simp only at h ⊢
                exact hHU _ _ _ _ _ _ hv hsv' he' h
              · simp only [Except.ok.injEq] at h ⊢
                subst h; exact ⟨_, rfl, rfl, he'⟩
          · simp only [Except.ok.injEq] at h ⊢
            subst h; exact ⟨_, rfl, rfl, he'⟩
  | none =>
    cases stop with
    | neighbor => simp only [isolateStop, matchHas] at h ⊢; exact hM _ _ _ _ _ _ _ hv he h
    | end_ => simp only [isolateStop, matchHas] at h ⊢; exact hM _ _ _ _ _ _ _ hv he h
    | rule s =>
      simp only [isolateStop, matchHas] at h ⊢
      exact hHU _ _ _ _ _ _ hv (by simpa [StopBy.isoOK] using hsv) he h

end

section
variable (ctx : RCtx)

theorem wrap_agree {n : Tree} {e1 e2 : Env} {x x0 y : Option Tree × Env} {F : Nat} {r : Rule}
    (hx : (∃ m e', x0 = (some m, e') ∧ x = (some n, e')) ∨ (∃ e', x0 = (none, e') ∧ x = (none, e1)))
    (hag : AgreeNS x0 y) (hy : matchRule ctx F r n e2 = .ok y) (he : EqNS e1 e2) : AgreeNS x y := by
  obtain ⟨my, ey⟩ := y
  rcases hx with ⟨m, e', rfl, rfl⟩ | ⟨e', rfl, rfl⟩
  · exact ⟨by simpa using hag.1, hag.2⟩
  · have hmy : my = none := by
      have := hag.1; cases my <;> simp_all
    subst hmy
    have := (all_notrace ctx F).1 _ _ _ _ hy
    subst this
    exact ⟨rfl, he⟩

theorem withLabel_agree {X1 X2 : Except Abn (Option Tree × Env)} {a b x0 : Option Tree × Env}
    (h1 : X1 = .ok a) (h2 : X2 = .ok b) (hag : AgreeNS a b) (h : withLabel ctx X1 = .ok x0) :
    ∃ y, withLabel ctx X2 = .ok y ∧ AgreeNS x0 y := by
  subst h1; subst h2
  obtain ⟨ma, ea⟩ := a
  rcases agree_cases hag with ⟨rfl, e2', rfl, he'⟩ | ⟨m1, m2, e2', rfl, rfl, he'⟩
  · simp only [withLabel, Except.ok.injEq] at h ⊢
    subst h; exact ⟨_, rfl, rfl, he'⟩
  · simp only [withLabel, Except.ok.injEq] at h ⊢
    subst h; exact ⟨_, rfl, rfl, he'.addLabel m1 m2⟩

theorem s_rule_step (f : Nat) (hR : SRule ctx f) (hAl : SAll ctx f) (hAn : SAny ctx f)
    (hFi : SFilter ctx f) (hI : SInside ctx f) (hH : SHas ctx f) (hS : SStopBy ctx f) :
    SRule ctx (f + 1) := by
  intro r n e1 e2 x hv he h
  cases r with
  | pattern p k s =>
    simp only [isolate] at h
    obtain ⟨x0, hq, hx⟩ := wrap_run ctx h
    have hp := matchPatternEnv_eqNS s ctx.src (matchFuel p n) p n e1 e2
      (namesIn_nsV (by simpa [Rule.isoOK] using hv)) he
    suffices hmain : ∃ y, matchRule ctx (f + 1) (.pattern p k s) n e2 = .ok y ∧ AgreeNS x0 y by
      obtain ⟨y, hy, hag⟩ := hmain
      exact ⟨y, hy, wrap_agree ctx hx hag hy he⟩
    cases k with
    | none =>
      simp only [matchRule, Bool.false_eq_true, ↓reduceIte] at hq ⊢
      rcases hpe : matchPatternEnv s ctx.src (matchFuel p n) p n e1 with err | o
      · rw [hpe] at hq; cases hq
      · rw [hpe] at hq
        cases o with
        | none =>
          rw [hp.2.1 hpe]
          simp only [Except.ok.injEq] at hq ⊢
          subst hq; exact ⟨_, rfl, rfl, he⟩
        | some a =>
          obtain ⟨b, hb, hab⟩ := hp.2.2 a hpe
          rw [hb]
          simp only [Except.ok.injEq] at hq ⊢
          subst hq; exact ⟨_, rfl, rfl, hab⟩
    | some kd =>
      simp only [matchRule] at hq ⊢
      by_cases hk : (n.kind != kd) = true
      · rw [if_pos hk] at hq ⊢
        simp only [Except.ok.injEq] at hq ⊢
        subst hq; exact ⟨_, rfl, rfl, he⟩
      · rw [if_neg hk] at hq ⊢
        rcases hpe : matchPatternEnv s ctx.src (matchFuel p n) p n e1 with err | o
        · rw [hpe] at hq; cases hq
        · rw [hpe] at hq
          cases o with
          | none =>
            rw [hp.2.1 hpe]
            simp only [Except.ok.injEq] at hq ⊢
            subst hq; exact ⟨_, rfl, rfl, he⟩
          | some a =>
            obtain ⟨b, hb, hab⟩ := hp.2.2 a hpe
            rw [hb]
            simp only [Except.ok.injEq] at hq ⊢
            subst hq; exact ⟨_, rfl, rfl, hab⟩
  | kind kd =>
    simp only [isolate, matchRule, Except.ok.injEq] at h ⊢
    subst h; exact ⟨_, rfl, rfl, he⟩
  | regex id =>
    simp only [isolate, matchRule, Except.ok.injEq] at h ⊢
    subst h; exact ⟨_, rfl, rfl, he⟩
  | range sl sc el ec =>
    simp only [isolate, matchRule] at h ⊢
    split at h
    · next h1 =>
      rw [if_pos h1]
      simp only [Except.ok.injEq] at h ⊢
      subst h; exact ⟨_, rfl, rfl, he⟩
    · next h1 =>
      rw [if_neg h1]
      split at h
      · next h2 =>
        rw [if_pos h2]
        simp only [Except.ok.injEq] at h ⊢
        subst h; exact ⟨_, rfl, rfl, he⟩
      · next h2 =>
        rw [if_neg h2]
        simp only [Except.ok.injEq] at h ⊢
        subst h; exact ⟨_, rfl, rfl, he⟩
  | nthChild a b ofRule reverse =>
    cases ofRule with
    | none =>
      simp only [isolate] at h
      obtain ⟨x0, hq, hx⟩ := wrap_run ctx h
      suffices hmain : ∃ y, matchRule ctx (f + 1) (.nthChild a b none reverse) n e2 = .ok y ∧
          AgreeNS x0 y by
        obtain ⟨y, hy, hag⟩ := hmain
        exact ⟨y, hy, wrap_agree ctx hx hag hy he⟩
      simp only [matchRule] at hq ⊢
      cases hpar : parentOf ctx.root n with
      | none =>
        rw [hpar] at hq
        simp only [Except.ok.injEq] at hq ⊢
        subst hq; exact ⟨_, rfl, rfl, he⟩
      | some parent =>
        rw [hpar] at hq
        simp only at hq ⊢
        generalize (if reverse = true then (List.filter (fun x => x.named) parent.children).reverse
          else List.filter (fun x => x.named) parent.children) = kids at hq ⊢
        cases hidx : indexById n kids with
        | none =>
          rw [hidx] at hq
          simp only [Except.ok.injEq] at hq ⊢
          subst hq; exact ⟨_, rfl, rfl, he⟩
        | some index =>
          rw [hidx] at hq
          simp only at hq ⊢
          cases hm : isMatched a b index <;> rw [hm] at hq <;>
            simp only [Except.ok.injEq] at hq ⊢ <;> (subst hq; exact ⟨_, rfl, rfl, he⟩)
    | some rule =>
      have hv' : rule.isoOK = true := by simpa [Rule.isoOK] using hv
      simp only [isolate] at h
      obtain ⟨x0, hq, hx⟩ := wrap_run ctx h
      suffices hmain : ∃ y, matchRule ctx (f + 1) (.nthChild a b (some rule) reverse) n e2 = .ok y ∧
          AgreeNS x0 y by
        obtain ⟨y, hy, hag⟩ := hmain
        exact ⟨y, hy, wrap_agree ctx hx hag hy he⟩
      simp only [matchRule] at hq ⊢
      cases hpar : parentOf ctx.root n with
      | none =>
        rw [hpar] at hq
        simp only [Except.ok.injEq] at hq ⊢
        subst hq; exact ⟨_, rfl, rfl, he⟩
      | some parent =>
        rw [hpar] at hq
        simp only at hq ⊢
        rcases hfm : filterMapRule ctx f (isolate rule)
          (List.filter (fun x => x.named) parent.children) e1 with err | kids0
        · rw [hfm] at hq; cases hq
        · rw [hfm] at hq
          rw [hFi _ _ _ _ _ hv' he hfm]
          simp only at hq ⊢
          generalize (if reverse = true then kids0.reverse else kids0) = kids at hq ⊢
          cases hidx : indexById n kids with
          | none =>
            rw [hidx] at hq
            simp only [Except.ok.injEq] at hq ⊢
            subst hq; exact ⟨_, rfl, rfl, he⟩
          | some index =>
            rw [hidx] at hq
            simp only at hq ⊢
            cases hmt : isMatched a b index with
            | false =>
              rw [hmt] at hq
              simp only [Except.ok.injEq] at hq ⊢
              subst hq; exact ⟨_, rfl, rfl, he⟩
            | true =>
              rw [hmt] at hq
              simp only at hq ⊢
              rcases hm : matchRule ctx f (isolate rule) n e1 with err | ⟨m, e1'⟩
              · rw [hm] at hq; cases hq
              · rw [hm] at hq
                obtain ⟨y0, hy0, hag⟩ := hR _ _ _ _ _ hv' he hm
                rw [hy0]
                rcases agree_cases hag with ⟨rfl, e2', rfl, he'⟩ | ⟨m1, m2, e2', rfl, rfl, he'⟩
                · simp only [Except.ok.injEq] at hq ⊢
                  subst hq; exact ⟨_, rfl, rfl, he'⟩
                · simp only [Except.ok.injEq] at hq ⊢
                  subst hq; exact ⟨_, rfl, rfl, he'⟩
  | all rs kinds =>
    have hv' : Rule.isoOKList rs = true := by simpa [Rule.isoOK] using hv
    simp only [isolate, matchRule] at h ⊢
    by_cases hk : (!kindsGate kinds n) = true
    · rw [if_pos hk] at h ⊢
      simp only [Except.ok.injEq] at h ⊢
      subst h; exact ⟨_, rfl, rfl, he⟩
    · rw [if_neg hk] at h ⊢
      rcases ha : allLoop ctx f (isolateList rs) n e1 with err | ⟨b, e1'⟩
      · rw [ha] at h; cases h
      · rw [ha] at h
        obtain ⟨y0, hy0, hb, he'⟩ := hAl _ _ _ _ _ hv' he ha
        rw [hy0]
        obtain ⟨b', e2'⟩ := y0
        simp only at hb he'
        subst hb
        cases b <;> simp only [Except.ok.injEq] at h ⊢ <;> subst h
        · exact ⟨_, rfl, rfl, he⟩
        · exact ⟨_, rfl, rfl, he'⟩
  | any rs kinds =>
    have hv' : Rule.isoOKList rs = true := by simpa [Rule.isoOK] using hv
    simp only [isolate, matchRule] at h ⊢
    by_cases hk : (!kindsGate kinds n) = true
    · rw [if_pos hk] at h ⊢
      simp only [Except.ok.injEq] at h ⊢
      subst h; exact ⟨_, rfl, rfl, he⟩
    · rw [if_neg hk] at h ⊢
      rcases ha : anyLoop ctx f (isolateList rs) n e1 with err | o
      · rw [ha] at h; cases h
      · rw [ha] at h
        obtain ⟨y0, hy0, hcase⟩ := hAn _ _ _ _ _ hv' he ha
        rw [hy0]
        rcases hcase with ⟨rfl, rfl⟩ | ⟨ea, eb, rfl, rfl, hab⟩
        · simp only [Except.ok.injEq] at h ⊢
          subst h; exact ⟨_, rfl, rfl, he⟩
        · simp only [Except.ok.injEq] at h ⊢
          subst h; exact ⟨_, rfl, rfl, hab⟩
  | not q =>
    have hv' : q.isoOK = true := by simpa [Rule.isoOK] using hv
    simp only [isolate, matchRule] at h ⊢
    rcases hm : matchRule ctx f (isolate q) n e1 with err | ⟨m, e1'⟩
    · rw [hm] at h; cases h
    · rw [hm] at h
      obtain ⟨y0, hy0, hag⟩ := hR _ _ _ _ _ hv' he hm
      rw [hy0]
      rcases agree_cases hag with ⟨rfl, e2', rfl, he'⟩ | ⟨m1, m2, e2', rfl, rfl, he'⟩
      · simp only [Except.ok.injEq] at h ⊢
        subst h; exact ⟨_, rfl, rfl, he⟩
      · simp only [Except.ok.injEq] at h ⊢
        subst h; exact ⟨_, rfl, rfl, he⟩
  | «matches» id => simp [Rule.isoOK] at hv
  | inside q stop field =>
    have hv' : q.isoOK = true ∧ stop.isoOK = true := by simpa [Rule.isoOK] using hv
    simp only [isolate] at h
    obtain ⟨x0, hq, hx⟩ := wrap_run ctx h
    suffices hmain : ∃ y, matchRule ctx (f + 1) (.inside q stop field) n e2 = .ok y ∧
        AgreeNS x0 y by
      obtain ⟨y, hy, hag⟩ := hmain
      exact ⟨y, hy, wrap_agree ctx hx hag hy he⟩
    simp only [matchRule] at hq ⊢
    rcases hh : matchInside ctx f (isolate q) (isolateStop stop) field n e1 with err | a
    · rw [hh] at hq; simp [withLabel] at hq
    · obtain ⟨b, hb, hag⟩ := hI _ _ _ _ _ _ _ hv'.1 hv'.2 he hh
      exact withLabel_agree ctx hh hb hag hq
  | has q stop field =>
    have hv' : q.isoOK = true ∧ stop.isoOK = true := by simpa [Rule.isoOK] using hv
    simp only [isolate] at h
    obtain ⟨x0, hq, hx⟩ := wrap_run ctx h
    suffices hmain : ∃ y, matchRule ctx (f + 1) (.has q stop field) n e2 = .ok y ∧
        AgreeNS x0 y by
      obtain ⟨y, hy, hag⟩ := hmain
      exact ⟨y, hy, wrap_agree ctx hx hag hy he⟩
    simp only [matchRule] at hq ⊢
    rcases hh : matchHas ctx f (isolate q) (isolateStop stop) field n e1 with err | a
    · rw [hh] at hq; simp [withLabel] at hq
    · obtain ⟨b, hb, hag⟩ := hH _ _ _ _ _ _ _ hv'.1 hv'.2 he hh
      exact withLabel_agree ctx hh hb hag hq
  | precedes q stop =>
    have hv' : q.isoOK = true ∧ stop.isoOK = true := by simpa [Rule.isoOK] using hv
    simp only [isolate] at h
    obtain ⟨x0, hq, hx⟩ := wrap_run ctx h
    suffices hmain : ∃ y, matchRule ctx (f + 1) (.precedes q stop) n e2 = .ok y ∧
        AgreeNS x0 y by
      obtain ⟨y, hy, hag⟩ := hmain
      exact ⟨y, hy, wrap_agree ctx hx hag hy he⟩
    simp only [matchRule] at hq ⊢
    rcases hh : stopByFind ctx f (isolateStop stop) (isolate q) none n.id (nextOf ctx.root n)
      (nextAllOf ctx.root n) e1 with err | a
    · rw [hh] at hq; simp [withLabel] at hq
    · obtain ⟨b, hb, hag⟩ := hS _ _ _ _ _ _ _ _ _ hv'.1 hv'.2 he hh
      exact withLabel_agree ctx hh hb hag hq
  | follows q stop =>
    have hv' : q.isoOK = true ∧ stop.isoOK = true := by simpa [Rule.isoOK] using hv
    simp only [isolate] at h
    obtain ⟨x0, hq, hx⟩ := wrap_run ctx h
    suffices hmain : ∃ y, matchRule ctx (f + 1) (.follows q stop) n e2 = .ok y ∧
        AgreeNS x0 y by
      obtain ⟨y, hy, hag⟩ := hmain
      exact ⟨y, hy, wrap_agree ctx hx hag hy he⟩
    simp only [matchRule] at hq ⊢
    rcases hh : stopByFind ctx f (isolateStop stop) (isolate q) none n.id (prevOf ctx.root n)
      (prevAllOf ctx.root n) e1 with err | a
    · rw [hh] at hq; simp [withLabel] at hq
    · obtain ⟨b, hb, hag⟩ := hS _ _ _ _ _ _ _ _ _ hv'.1 hv'.2 he hh
      exact withLabel_agree ctx hh hb hag hq

end

section
variable (ctx : RCtx)

/-- the simulation, by induction on the fuel -/
theorem all_s (f : Nat) :
    SRule ctx f ∧ SAll ctx f ∧ SAny ctx f ∧ SFilter ctx f ∧ SFinder ctx f ∧ SFindMap ctx f ∧
    SUntil ctx f ∧ SStopBy ctx f ∧ SInside ctx f ∧ SHasUntil ctx f ∧ SHas ctx f := by
  induction f with
  | zero =>
    refine ⟨?_, ?_, ?_, ?_, ?_, ?_, ?_, ?_, ?_, ?_, ?_⟩
    · intro r n e1 e2 x _ _ h; simp [matchRule] at h
    · intro rs n e1 e2 x _ _ h; simp [allLoop] at h
    · intro rs n e1 e2 x _ _ h; simp [anyLoop] at h
    · intro r cs e1 e2 l _ _ h; simp [filterMapRule] at h
    · intro r field eid c e1 e2 x _ _ h; simp [finderStep] at h
    · intro r field eid cs e1 e2 x _ _ h; simp [findMapRule] at h
    · intro r s field eid st cs e1 e2 x _ _ _ h; simp [findMapUntil] at h
    · intro stop r field eid once multi e1 e2 x _ _ _ h; simp [stopByFind] at h
    · intro r stop field n e1 e2 x _ _ _ h; simp [matchInside] at h
    · intro r s cs e1 e2 x _ _ _ h; simp [hasUntil] at h
    · intro r stop field n e1 e2 x _ _ _ h; simp [matchHas] at h
  | succ f ih =>
    obtain ⟨hR, hAl, hAn, hFi, hF, hM, hU, hS, hI, hHU, hH⟩ := ih
    exact ⟨s_rule_step ctx f hR hAl hAn hFi hI hH hS, s_all_step ctx f hR hAl,
      s_any_step ctx f hR hAn, s_filter_step ctx f hR hFi, s_finder_step ctx f hR,
      s_findMap_step ctx f hF hM, s_until_step ctx f hR hF hU, s_stopBy_step ctx f hF hM hU,
      s_inside_step ctx f hS, s_hasUntil_step ctx f hR hHU, s_has_step ctx f hR hM hHU⟩

/-- whenever the isolated rule ends normally, so does the rule itself, with the same fuel, the
same verdict and the same environment up to the `secondary` label -/
theorem isolate_simulates' (f : Nat) (r : Rule) (hr : r.isoOK = true) (n : Tree) (env : Env)
    (x : Option Tree × Env) (h : matchRule ctx f (isolate r) n env = .ok x) :
    ∃ y, matchRule ctx f r n env = .ok y ∧ AgreeNS x y :=
  (all_s ctx f).1 r n env env x hr (EqNS.refl env) h

/-- the two evaluations agree whenever both end normally (with any two fuels) -/
theorem isolate_agrees' (f f' : Nat) (r : Rule) (hr : r.isoOK = true) (n : Tree) (env : Env)
    (x y : Option Tree × Env) (hx : matchRule ctx f (isolate r) n env = .ok x)
    (hy : matchRule ctx f' r n env = .ok y) : AgreeNS x y := by
  obtain ⟨y', hy', hag⟩ := isolate_simulates' ctx f r hr n env x hx
  have h1 := matchRule_fuel_mono ctx (Nat.le_max_left f f') hy'
  have h2 := matchRule_fuel_mono ctx (Nat.le_max_right f f') hy
  rw [h1] at h2
  simp only [Except.ok.injEq] at h2
  subst h2; exact hag

end

end AGV
