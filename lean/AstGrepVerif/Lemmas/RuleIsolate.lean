/-
The C04 oracle (`Spec/PureRule.lean`): `isolate r` wraps every sub-rule of `r` in a singleton
`all … none`, which makes its evaluation trace-free by construction.  Here: the evaluator computes
the same verdict and the same bindings for `isolate r` and for `r` itself.
-/
import AstGrepVerif.Lemmas.RuleRefVars
import AstGrepVerif.Spec.PureRule

set_option linter.unusedSimpArgs false
set_option linter.unusedVariables false

namespace AGV

open Spec

/-! ## Environments up to the `secondary` label -/

/-- every name but the label `secondary` -/
def nsV : Name → Bool := fun v => decide (v ≠ secondaryLabel)

/-- restriction of the multi bindings only -/
def restrictMulti (V : Name → Bool) (env : Env) : Env :=
  ⟨env.single, restrictL V env.multi, env.transformed⟩

/-- the same single bindings, the same multi bindings except under `secondary`, the same
`transformed` (the label records the node a relation returned: `isolate` changes that node) -/
def EqNS (e1 e2 : Env) : Prop := restrictMulti nsV e1 = restrictMulti nsV e2

theorem EqNS.refl (e : Env) : EqNS e e := rfl
theorem EqNS.symm {a b : Env} (h : EqNS a b) : EqNS b a := Eq.symm h
theorem EqNS.trans {a b c : Env} (h1 : EqNS a b) (h2 : EqNS b c) : EqNS a c := Eq.trans h1 h2

theorem restrictL_ainsert_not {β} (V : Name → Bool) {k : Name} (hk : V k = false) (v : β)
    (l : List (Name × β)) : restrictL V (ainsert k v l) = restrictL V l := by
  induction l with
  | nil => simp [restrictL, ainsert, hk]
  | cons x xs ih =>
    obtain ⟨k', v'⟩ := x
    unfold restrictL at ih ⊢
    simp only [ainsert]
    split
    · next he => subst he; simp [List.filter_cons, hk]
    · rw [List.filter_cons, List.filter_cons, ih]

theorem EqNS.addLabel {a b : Env} (h : EqNS a b) (m1 m2 : Tree) :
    EqNS (a.addLabel secondaryLabel m1) (b.addLabel secondaryLabel m2) := by
  have hs : nsV secondaryLabel = false := by simp [nsV]
  have key : ∀ (e : Env) (m : Tree),
      restrictMulti nsV (e.addLabel secondaryLabel m) = restrictMulti nsV e := by
    intro e m
    unfold Env.addLabel
    split <;> simp [restrictMulti, restrictL_ainsert_not nsV hs]
  unfold EqNS
  rw [key, key]; exact h

theorem EqNS.single {a b : Env} (h : EqNS a b) : a.single = b.single := by
  have := congrArg Env.single (show restrictMulti nsV a = restrictMulti nsV b from h)
  exact this

theorem EqNS.transformed {a b : Env} (h : EqNS a b) : a.transformed = b.transformed := by
  have := congrArg Env.transformed (show restrictMulti nsV a = restrictMulti nsV b from h)
  exact this

/-- what `EqNS` says, binding by binding -/
theorem EqNS.lookups {a b : Env} (h : EqNS a b) :
    a.single = b.single ∧
    (∀ v, v ≠ secondaryLabel → alookup v a.multi = alookup v b.multi) ∧
    a.transformed = b.transformed := by
  have h2 : restrictL nsV a.multi = restrictL nsV b.multi := congrArg Env.multi h
  refine ⟨h.single, fun v hv => ?_, h.transformed⟩
  have hk : nsV v = true := by simp [nsV, hv]
  rw [← alookup_restrictL nsV hk a.multi, ← alookup_restrictL nsV hk b.multi, h2]

theorem map_ite' {α β} (c : Prop) [Decidable c] (f : α → β) (a : α) :
    Option.map f (if c then some a else none) = if c then some (f a) else none := by
  split <;> rfl

theorem matchNode_restrictMulti (s : Strictness) (src : Bytes) (V : Name → Bool) (f : Nat)
    (p : PNode) (c : Tree) (st : Env) (hp : p.namesIn (fun v => V v = true)) :
    (matchNode (envAgg src) s src f p c st).map (proj1 (restrictMulti V))
      = matchNode (envAgg src) s src f p c (restrictMulti V st) := by
  refine (all_proj (envAgg src) (envAgg src) (restrictMulti V) (fun v => V v = true) s src
    ?_ ?_ ?_ f).1 p c st hp
  · intro st t; rfl
  · intro st mv t _
    have hins : ∀ name,
        (Env.insert src st name t).map (restrictMulti V) = Env.insert src (restrictMulti V st) name t := by
      intro name
      simp only [Env.insert]
      have e : Env.matchVariable src (restrictMulti V st) name t = Env.matchVariable src st name t := rfl
      rw [e, map_ite']; rfl
    cases mv with
    | capture name named =>
      simp only [envAgg, matchLeafMetaVar]
      split
      · rfl
      · exact hins name
    | dropped named => simp only [envAgg, matchLeafMetaVar]; split <;> rfl
    | multiple => rfl
    | multiCapture name =>
      simp only [envAgg, matchLeafMetaVar]
      exact hins name
  · intro st name l k hname
    cases name with
    | none => rfl
    | some v =>
      have hv := hname v rfl
      simp only [envAgg, Env.insertMulti, Env.matchMultiVar, restrictMulti, alookup_restrictL V hv]
      split
      · next hc => simp [hc, restrictMulti, ainsert_restrictL V hv]
      · next hc => simp [hc]

/-- results agree: same verdict, environments equal up to the label -/
def AgreeNS (x y : Option Tree × Env) : Prop := x.1.isSome = y.1.isSome ∧ EqNS x.2 y.2

/-- a pattern that does not capture the name `secondary` cannot tell the two environments apart -/
theorem matchPatternEnv_eqNS (s : Strictness) (src : Bytes) (f : Nat) (p : PNode) (c : Tree)
    (e1 e2 : Env) (hp : p.namesIn (fun v => nsV v = true)) (h : EqNS e1 e2) :
    (∀ err, matchPatternEnv s src f p c e1 = .error err → matchPatternEnv s src f p c e2 = .error err) ∧
    (matchPatternEnv s src f p c e1 = .ok none → matchPatternEnv s src f p c e2 = .ok none) ∧
    (∀ a, matchPatternEnv s src f p c e1 = .ok (some a) →
      ∃ b, matchPatternEnv s src f p c e2 = .ok (some b) ∧ EqNS a b) := by
  have h1 := matchNode_restrictMulti s src nsV f p c e1 hp
  have h2 := matchNode_restrictMulti s src nsV f p c e2 hp
  have h12 : (matchNode (envAgg src) s src f p c e1).map (proj1 (restrictMulti nsV))
      = (matchNode (envAgg src) s src f p c e2).map (proj1 (restrictMulti nsV)) := by
    rw [h1, h2, h]
  clear h1 h2
  simp only [matchPatternEnv]
  generalize matchNode (envAgg src) s src f p c e1 = R1 at h12 ⊢
  generalize matchNode (envAgg src) s src f p c e2 = R2 at h12 ⊢
  rcases R1 with err1 | ⟨r1, st1⟩ <;> rcases R2 with err2 | ⟨r2, st2⟩ <;>
    simp only [Except.map, proj1, Except.ok.injEq, Except.error.injEq, Prod.mk.injEq,
      reduceCtorEq] at h12
  · subst h12; exact ⟨fun err he => he, ⟨fun he => by simp at he, fun a he => by simp at he⟩⟩
  · obtain ⟨rfl, hst⟩ := h12
    cases r1 <;> simp <;> exact hst

/-! ## The fragment: no pattern variable called `secondary` -/

mutual
def Rule.isoOK : Rule → Bool
  | .pattern p _ _ => !(p.vars.contains secondaryLabel)
  | .kind _ => true
  | .regex _ => true
  | .range _ _ _ _ => true
  | .nthChild _ _ none _ => true
  | .nthChild _ _ (some r) _ => r.isoOK
  | .inside r stop _ => r.isoOK && stop.isoOK
  | .has r stop _ => r.isoOK && stop.isoOK
  | .precedes r stop => r.isoOK && stop.isoOK
  | .follows r stop => r.isoOK && stop.isoOK
  | .all rs _ => Rule.isoOKList rs
  | .any rs _ => Rule.isoOKList rs
  | .not r => r.isoOK
  | .matches _ => true
def StopBy.isoOK : StopBy → Bool
  | .neighbor => true
  | .end_ => true
  | .rule r => r.isoOK
def Rule.isoOKList : List Rule → Bool
  | [] => true
  | r :: rs => r.isoOK && Rule.isoOKList rs
end

theorem namesIn_nsV {p : PNode} (h : (!(p.vars.contains secondaryLabel)) = true) :
    p.namesIn (fun v => nsV v = true) := by
  refine PNode.namesIn_mono (fun v hv => ?_) p (PNode.namesIn_vars p)
  simp only [nsV, decide_eq_true_eq]
  intro e; subst e
  simp [hv] at h

/-- the context the oracle evaluates the isolated rule in: every registered utility isolated
(`Driver/RuleIO.lean`, `opOracleIsolate`) -/
def isoCtx (ctx : RCtx) : RCtx :=
  { ctx with locals := ctx.locals.map fun kv => (kv.1, isolate kv.2),
             globals := ctx.globals.map fun kv => (kv.1, isolateCore kv.2) }

@[simp] theorem isoCtx_src (ctx : RCtx) : (isoCtx ctx).src = ctx.src := rfl
@[simp] theorem isoCtx_root (ctx : RCtx) : (isoCtx ctx).root = ctx.root := rfl
@[simp] theorem isoCtx_regex (ctx : RCtx) : (isoCtx ctx).regex = ctx.regex := rfl

theorem alookup_map_snd {β γ : Type} (g : β → γ) (id : Name) (l : List (Name × β)) :
    alookup id (l.map fun kv => (kv.1, g kv.2)) = (alookup id l).map g := by
  induction l with
  | nil => rfl
  | cons kv rest ih =>
    obtain ⟨k, v⟩ := kv
    simp only [List.map_cons, alookup]
    split
    · rfl
    · exact ih

theorem isoCtx_locals (ctx : RCtx) (id : Name) :
    alookup id (isoCtx ctx).locals = (alookup id ctx.locals).map isolate :=
  alookup_map_snd isolate id ctx.locals

theorem isoCtx_globals (ctx : RCtx) (id : Name) :
    alookup id (isoCtx ctx).globals = (alookup id ctx.globals).map isolateCore :=
  alookup_map_snd isolateCore id ctx.globals

theorem isolateCore_constraints (core : RuleCore) (v : Name) :
    alookup v (isolateCore core).constraints = (alookup v core.constraints).map isolate := by
  have : (isolateCore core).constraints = core.constraints.map fun kv => (kv.1, isolate kv.2) := by
    simp only [isolateCore]
  rw [this]; exact alookup_map_snd isolate v core.constraints

/-- every registered rule (local, global, constraint) is in the fragment -/
def RegIsoOK (ctx : RCtx) : Prop :=
  (∀ id q, alookup id ctx.locals = some q → q.isoOK = true) ∧
  (∀ id core, alookup id ctx.globals = some core →
    core.rule.isoOK = true ∧ ∀ v m, alookup v core.constraints = some m → m.isoOK = true)

section
variable (ctx : RCtx)

/-- a singleton `all` without kind cache: the inner rule's verdict and environment, the node
itself as result, the caller's environment on failure -/
theorem wrap_run {F : Nat} {q : Rule} {n : Tree} {e : Env} {x : Option Tree × Env}
    (h : matchRule ctx F (.all [q] none) n e = .ok x) :
    ∃ x0, matchRule ctx F q n e = .ok x0 ∧
      ((∃ m e', x0 = (some m, e') ∧ x = (some n, e')) ∨ (∃ e', x0 = (none, e') ∧ x = (none, e))) := by
  cases F with
  | zero => simp [matchRule] at h
  | succ F =>
    simp only [matchRule, kindsGate, Bool.not_true, Bool.false_eq_true, ↓reduceIte] at h
    cases F with
    | zero => simp [allLoop] at h
    | succ F =>
      simp only [allLoop] at h
      rcases hq : matchRule ctx F q n e with err | ⟨m, e'⟩
      · rw [hq] at h; cases h
      · rw [hq] at h
        have hq' := matchRule_fuel_mono ctx (by omega : F ≤ F + 1 + 1) hq
        cases m with
        | none =>
          simp only [Except.ok.injEq] at h
          exact ⟨_, hq', .inr ⟨e', rfl, h.symm⟩⟩
        | some m =>
          simp only at h
          cases F with
          | zero => simp [allLoop] at h
          | succ F =>
            simp only [allLoop, Except.ok.injEq] at h
            exact ⟨_, hq', .inl ⟨m, e', rfl, h.symm⟩⟩

def SRule (f : Nat) : Prop :=
  ∀ r n e1 e2 x, Rule.isoOK r = true → EqNS e1 e2 → matchRule (isoCtx ctx) f (isolate r) n e1 = .ok x →
    ∃ y, matchRule ctx f r n e2 = .ok y ∧ AgreeNS x y
def SAll (f : Nat) : Prop :=
  ∀ rs n e1 e2 x, Rule.isoOKList rs = true → EqNS e1 e2 →
    allLoop (isoCtx ctx) f (isolateList rs) n e1 = .ok x →
    ∃ y, allLoop ctx f rs n e2 = .ok y ∧ x.1 = y.1 ∧ EqNS x.2 y.2
def SAny (f : Nat) : Prop :=
  ∀ rs n e1 e2 x, Rule.isoOKList rs = true → EqNS e1 e2 →
    anyLoop (isoCtx ctx) f (isolateList rs) n e1 = .ok x →
    ∃ y, anyLoop ctx f rs n e2 = .ok y ∧
      ((x = none ∧ y = none) ∨ ∃ a b, x = some a ∧ y = some b ∧ EqNS a b)
def SFilter (f : Nat) : Prop :=
  ∀ r cs e1 e2 l, Rule.isoOK r = true → EqNS e1 e2 →
    filterMapRule (isoCtx ctx) f (isolate r) cs e1 = .ok l → filterMapRule ctx f r cs e2 = .ok l
def SFinder (f : Nat) : Prop :=
  ∀ r field eid c e1 e2 x, Rule.isoOK r = true → EqNS e1 e2 →
    finderStep (isoCtx ctx) f (isolate r) field eid c e1 = .ok x →
    ∃ y, finderStep ctx f r field eid c e2 = .ok y ∧ AgreeNS x y
def SFindMap (f : Nat) : Prop :=
  ∀ r field eid cs e1 e2 x, Rule.isoOK r = true → EqNS e1 e2 →
    findMapRule (isoCtx ctx) f (isolate r) field eid cs e1 = .ok x →
    ∃ y, findMapRule ctx f r field eid cs e2 = .ok y ∧ AgreeNS x y
def SUntil (f : Nat) : Prop :=
  ∀ r s field eid st cs e1 e2 x, Rule.isoOK r = true → Rule.isoOK s = true → EqNS e1 e2 →
    findMapUntil (isoCtx ctx) f (isolate r) (isolate s) field eid st cs e1 = .ok x →
    ∃ y, findMapUntil ctx f r s field eid st cs e2 = .ok y ∧ AgreeNS x y
def SStopBy (f : Nat) : Prop :=
  ∀ stop r field eid once multi e1 e2 x, Rule.isoOK r = true → StopBy.isoOK stop = true →
    EqNS e1 e2 →
    stopByFind (isoCtx ctx) f (isolateStop stop) (isolate r) field eid once multi e1 = .ok x →
    ∃ y, stopByFind ctx f stop r field eid once multi e2 = .ok y ∧ AgreeNS x y
def SInside (f : Nat) : Prop :=
  ∀ r stop field n e1 e2 x, Rule.isoOK r = true → StopBy.isoOK stop = true → EqNS e1 e2 →
    matchInside (isoCtx ctx) f (isolate r) (isolateStop stop) field n e1 = .ok x →
    ∃ y, matchInside ctx f r stop field n e2 = .ok y ∧ AgreeNS x y
def SHasUntil (f : Nat) : Prop :=
  ∀ r s cs e1 e2 x, Rule.isoOK r = true → Rule.isoOK s = true → EqNS e1 e2 →
    hasUntil (isoCtx ctx) f (isolate r) (isolate s) cs e1 = .ok x →
    ∃ y, hasUntil ctx f r s cs e2 = .ok y ∧ AgreeNS x y
def SCons (f : Nat) : Prop :=
  ∀ (cons icons : List (Name × Rule)) L e1 e2 x,
    (∀ v, alookup v icons = (alookup v cons).map isolate) →
    (∀ v m, alookup v cons = some m → Rule.isoOK m = true) → EqNS e1 e2 →
    constraintLoop (isoCtx ctx) f icons L e1 = .ok x →
    ∃ y, constraintLoop ctx f cons L e2 = .ok y ∧ x.1 = y.1 ∧ EqNS x.2 y.2
def SCore (f : Nat) : Prop :=
  ∀ core n e1 e2 x, Rule.isoOK core.rule = true →
    (∀ v m, alookup v core.constraints = some m → Rule.isoOK m = true) → EqNS e1 e2 →
    matchCore (isoCtx ctx) f (isolateCore core) n e1 = .ok x →
    ∃ y, matchCore ctx f core n e2 = .ok y ∧ AgreeNS x y
def SHas (f : Nat) : Prop :=
  ∀ r stop field n e1 e2 x, Rule.isoOK r = true → StopBy.isoOK stop = true → EqNS e1 e2 →
    matchHas (isoCtx ctx) f (isolate r) (isolateStop stop) field n e1 = .ok x →
    ∃ y, matchHas ctx f r stop field n e2 = .ok y ∧ AgreeNS x y

end

section
variable (ctx : RCtx)

theorem agree_cases {m : Option Tree} {e1' : Env} {y0 : Option Tree × Env}
    (h : AgreeNS (m, e1') y0) :
    (m = none ∧ ∃ e2', y0 = (none, e2') ∧ EqNS e1' e2') ∨
    (∃ a b e2', m = some a ∧ y0 = (some b, e2') ∧ EqNS e1' e2') := by
  obtain ⟨m', e2'⟩ := y0
  obtain ⟨h1, h2⟩ := h
  cases m <;> cases m' <;> simp at h1
  · exact .inl ⟨rfl, e2', rfl, h2⟩
  · exact .inr ⟨_, _, e2', rfl, rfl, h2⟩

theorem s_all_step (f : Nat) (hR : SRule ctx f) (hA : SAll ctx f) : SAll ctx (f + 1) := by
  intro rs n e1 e2 x hv he h
  cases rs with
  | nil =>
    simp only [isolateList, allLoop, Except.ok.injEq] at h ⊢
    subst h; exact ⟨_, rfl, rfl, he⟩
  | cons r rs =>
    simp only [Rule.isoOKList, Bool.and_eq_true] at hv
    simp only [isolateList, allLoop] at h ⊢
    rcases hq : matchRule (isoCtx ctx) f (isolate r) n e1 with err | ⟨m, e1'⟩
    · rw [hq] at h; cases h
    · rw [hq] at h
      obtain ⟨y0, hy0, hag⟩ := hR _ _ _ _ _ hv.1 he hq
      rw [hy0]
      rcases agree_cases hag with ⟨rfl, e2', rfl, he'⟩ | ⟨a, b, e2', rfl, rfl, he'⟩
      · simp only [Except.ok.injEq] at h ⊢
        subst h; exact ⟨_, rfl, rfl, he'⟩
      · exact hA _ _ _ _ _ hv.2 he' h

theorem s_any_step (f : Nat) (hR : SRule ctx f) (hA : SAny ctx f) : SAny ctx (f + 1) := by
  intro rs n e1 e2 x hv he h
  cases rs with
  | nil =>
    simp only [isolateList, anyLoop, Except.ok.injEq] at h ⊢
    subst h; exact ⟨_, rfl, .inl ⟨rfl, rfl⟩⟩
  | cons r rs =>
    simp only [Rule.isoOKList, Bool.and_eq_true] at hv
    simp only [isolateList, anyLoop] at h ⊢
    rcases hq : matchRule (isoCtx ctx) f (isolate r) n e1 with err | ⟨m, e1'⟩
    · rw [hq] at h; cases h
    · rw [hq] at h
      obtain ⟨y0, hy0, hag⟩ := hR _ _ _ _ _ hv.1 he hq
      rw [hy0]
      rcases agree_cases hag with ⟨rfl, e2', rfl, he'⟩ | ⟨a, b, e2', rfl, rfl, he'⟩
      · exact hA _ _ _ _ _ hv.2 he h
      · simp only [Except.ok.injEq] at h ⊢
        subst h; exact ⟨_, rfl, .inr ⟨_, _, rfl, rfl, he'⟩⟩

theorem s_filter_step (f : Nat) (hR : SRule ctx f) (hF : SFilter ctx f) : SFilter ctx (f + 1) := by
  intro r cs e1 e2 l hv he h
  cases cs with
  | nil => simp only [filterMapRule] at h ⊢; exact h
  | cons c cs =>
    simp only [filterMapRule] at h ⊢
    rcases hq : matchRule (isoCtx ctx) f (isolate r) c e1 with err | ⟨m, e1'⟩
    · rw [hq] at h; cases h
    · rw [hq] at h
      obtain ⟨y0, hy0, hag⟩ := hR _ _ _ _ _ hv he hq
      rw [hy0]
      simp only at h ⊢
      rcases hfr : filterMapRule (isoCtx ctx) f (isolate r) cs e1 with err | rest
      · rw [hfr] at h; cases h
      · rw [hfr] at h
        rw [hF _ _ _ _ _ hv he hfr]
        rcases agree_cases hag with ⟨rfl, e2', rfl, he'⟩ | ⟨a, b, e2', rfl, rfl, he'⟩
        · exact h
        · exact h

theorem s_finder_step (f : Nat) (hR : SRule ctx f) : SFinder ctx (f + 1) := by
  intro r field eid c e1 e2 x hv he h
  cases field with
  | none => simp only [finderStep] at h ⊢; exact hR _ _ _ _ _ hv he h
  | some fld =>
    simp only [finderStep] at h ⊢
    cases hcb : childByField c fld with
    | none =>
      rw [hcb] at h
      simp only [Except.ok.injEq] at h ⊢
      subst h; exact ⟨_, rfl, rfl, he⟩
    | some ch =>
      rw [hcb] at h
      simp only at h ⊢
      by_cases hid : (ch.id != eid) = true
      · rw [if_pos hid] at h ⊢
        simp only [Except.ok.injEq] at h ⊢
        subst h; exact ⟨_, rfl, rfl, he⟩
      · rw [if_neg hid] at h ⊢
        exact hR _ _ _ _ _ hv he h

theorem s_findMap_step (f : Nat) (hF : SFinder ctx f) (hM : SFindMap ctx f) :
    SFindMap ctx (f + 1) := by
  intro r field eid cs e1 e2 x hv he h
  cases cs with
  | nil =>
    simp only [findMapRule, Except.ok.injEq] at h ⊢
    subst h; exact ⟨_, rfl, rfl, he⟩
  | cons c cs =>
    simp only [findMapRule] at h ⊢
    rcases hq : finderStep (isoCtx ctx) f (isolate r) field eid c e1 with err | ⟨m, e1'⟩
    · rw [hq] at h; cases h
    · rw [hq] at h
      obtain ⟨y0, hy0, hag⟩ := hF _ _ _ _ _ _ _ hv he hq
      rw [hy0]
      rcases agree_cases hag with ⟨rfl, e2', rfl, he'⟩ | ⟨a, b, e2', rfl, rfl, he'⟩
      · exact hM _ _ _ _ _ _ _ hv he' h
      · simp only [Except.ok.injEq] at h ⊢
        subst h; exact ⟨_, rfl, rfl, he'⟩

theorem s_until_step (f : Nat) (hR : SRule ctx f) (hF : SFinder ctx f) (hU : SUntil ctx f) :
    SUntil ctx (f + 1) := by
  intro r s field eid st cs e1 e2 x hv hsv he h
  cases cs with
  | nil =>
    simp only [findMapUntil, Except.ok.injEq] at h ⊢
    subst h; exact ⟨_, rfl, rfl, he⟩
  | cons c cs =>
    simp only [findMapUntil] at h ⊢
    cases st with
    | true =>
      simp only [↓reduceIte, Except.ok.injEq] at h ⊢
      subst h; exact ⟨_, rfl, rfl, he⟩
    | false =>
      simp only [Bool.false_eq_true, ↓reduceIte] at h ⊢
      rcases hs : matchRule (isoCtx ctx) f (isolate s) c Env.empty with err | ⟨sm, se⟩
      · rw [hs] at h; cases h
      · rw [hs] at h
        obtain ⟨ys, hys, hags⟩ := hR _ _ _ _ _ hsv (EqNS.refl _) hs
        rw [hys]
        simp only at h ⊢
        rcases hq : finderStep (isoCtx ctx) f (isolate r) field eid c e1 with err | ⟨m, e1'⟩
        · rw [hq] at h; cases h
        · rw [hq] at h
          obtain ⟨y0, hy0, hag⟩ := hF _ _ _ _ _ _ _ hv he hq
          rw [hy0]
          rcases agree_cases hag with ⟨rfl, e2', rfl, he'⟩ | ⟨a, b, e2', rfl, rfl, he'⟩
          · simp only at h ⊢
            rw [← hags.1]
            exact hU _ _ _ _ _ _ _ _ _ hv hsv he' h
          · simp only [Except.ok.injEq] at h ⊢
            subst h; exact ⟨_, rfl, rfl, he'⟩

theorem s_stopBy_step (f : Nat) (hF : SFinder ctx f) (hM : SFindMap ctx f) (hU : SUntil ctx f) :
    SStopBy ctx (f + 1) := by
  intro stop r field eid once multi e1 e2 x hv hsv he h
  cases stop with
  | neighbor =>
    cases once with
    | none =>
      simp only [isolateStop, stopByFind, Except.ok.injEq] at h ⊢
      subst h; exact ⟨_, rfl, rfl, he⟩
    | some c =>
      simp only [isolateStop, stopByFind] at h ⊢
      exact hF _ _ _ _ _ _ _ hv he h
  | end_ =>
    simp only [isolateStop, stopByFind] at h ⊢
    exact hM _ _ _ _ _ _ _ hv he h
  | rule s =>
    simp only [isolateStop, stopByFind] at h ⊢
    exact hU _ _ _ _ _ _ _ _ _ hv (by simpa [StopBy.isoOK] using hsv) he h

theorem s_inside_step (f : Nat) (hS : SStopBy ctx f) : SInside ctx (f + 1) := by
  intro r stop field n e1 e2 x hv hsv he h
  simp only [matchInside] at h ⊢
  exact hS _ _ _ _ _ _ _ _ _ hv hsv he h

theorem s_hasUntil_step (f : Nat) (hR : SRule ctx f) (hH : SHasUntil ctx f) :
    SHasUntil ctx (f + 1) := by
  intro r s cs e1 e2 x hv hsv he h
  cases cs with
  | nil =>
    simp only [hasUntil, Except.ok.injEq] at h ⊢
    subst h; exact ⟨_, rfl, rfl, he⟩
  | cons c cs =>
    simp only [hasUntil] at h ⊢
    rcases hq : matchRule (isoCtx ctx) f (isolate r) c e1 with err | ⟨m, e1'⟩
    · rw [hq] at h; cases h
    · rw [hq] at h
      obtain ⟨y0, hy0, hag⟩ := hR _ _ _ _ _ hv he hq
      rw [hy0]
      rcases agree_cases hag with ⟨rfl, e2', rfl, he'⟩ | ⟨a, b, e2', rfl, rfl, he'⟩
      · simp only at h ⊢
        rcases hs : matchRule (isoCtx ctx) f (isolate s) c Env.empty with err | ⟨sm, se⟩
        · rw [hs] at h; cases h
        · rw [hs] at h
          obtain ⟨ys, hys, hags⟩ := hR _ _ _ _ _ hsv (EqNS.refl _) hs
          rw [hys]
          rcases agree_cases hags with ⟨rfl, se', rfl, _⟩ | ⟨a, b, se', rfl, rfl, _⟩
          · simp only at h ⊢
            rcases hh : hasUntil (isoCtx ctx) f (isolate r) (isolate s) c.children e1' with err | ⟨m2, e1''⟩
            · rw [hh] at h; cases h
            · rw [hh] at h
              obtain ⟨y2, hy2, hag2⟩ := hH _ _ _ _ _ _ hv hsv he' hh
              rw [hy2]
              rcases agree_cases hag2 with ⟨rfl, e2'', rfl, he''⟩ | ⟨a, b, e2'', rfl, rfl, he''⟩
              · exact hH _ _ _ _ _ _ hv hsv he'' h
              · simp only [Except.ok.injEq] at h ⊢
                subst h; exact ⟨_, rfl, rfl, he''⟩
          · simp only at h ⊢
            exact hH _ _ _ _ _ _ hv hsv he' h
      · simp only [Except.ok.injEq] at h ⊢
        subst h; exact ⟨_, rfl, rfl, he'⟩

theorem s_has_step (f : Nat) (hR : SRule ctx f) (hM : SFindMap ctx f) (hHU : SHasUntil ctx f) :
    SHas ctx (f + 1) := by
  intro r stop field n e1 e2 x hv hsv he h
  cases field with
  | some fld =>
    simp only [matchHas] at h ⊢
    cases hcb : childByField n fld with
    | none =>
      rw [hcb] at h
      simp only [Except.ok.injEq] at h ⊢
      subst h; exact ⟨_, rfl, rfl, he⟩
    | some nd =>
      rw [hcb] at h
      simp only at h ⊢
      cases stop with
      | neighbor => simp only [isolateStop] at h ⊢; exact hR _ _ _ _ _ hv he h
      | end_ => simp only [isolateStop] at h ⊢; exact hM _ _ _ _ _ _ _ hv he h
      | rule s =>
        have hsv' : s.isoOK = true := by simpa [StopBy.isoOK] using hsv
        simp only [isolateStop] at h ⊢
        rcases hq : matchRule (isoCtx ctx) f (isolate r) nd e1 with err | ⟨m, e1'⟩
        · rw [hq] at h; cases h
        · rw [hq] at h
          obtain ⟨y0, hy0, hag⟩ := hR _ _ _ _ _ hv he hq
          rw [hy0]
          rcases agree_cases hag with ⟨rfl, e2', rfl, he'⟩ | ⟨a, b, e2', rfl, rfl, he'⟩
          · simp only at h ⊢
            rcases hs : matchRule (isoCtx ctx) f (isolate s) nd Env.empty with err | ⟨sm, se⟩
            · rw [hs] at h; cases h
            · rw [hs] at h
              obtain ⟨ys, hys, hags⟩ := hR _ _ _ _ _ hsv' (EqNS.refl _) hs
              rw [hys]
              rcases agree_cases hags with ⟨rfl, se', rfl, _⟩ | ⟨a, b, se', rfl, rfl, _⟩
              · simp only at h ⊢
                exact hHU _ _ _ _ _ _ hv hsv' he' h
              · simp only [Except.ok.injEq] at h ⊢
                subst h; exact ⟨_, rfl, rfl, he'⟩
          · simp only [Except.ok.injEq] at h ⊢
            subst h; exact ⟨_, rfl, rfl, he'⟩
  | none =>
    cases stop with
    | neighbor => simp only [isolateStop, matchHas] at h ⊢; exact hM _ _ _ _ _ _ _ hv he h
    | end_ => simp only [isolateStop, matchHas] at h ⊢; exact hM _ _ _ _ _ _ _ hv he h
    | rule s =>
      simp only [isolateStop, matchHas] at h ⊢
      exact hHU _ _ _ _ _ _ hv (by simpa [StopBy.isoOK] using hsv) he h

end

section
variable (ctx : RCtx)

theorem s_cons_step (f : Nat) (hR : SRule ctx f) (hC : SCons ctx f) : SCons ctx (f + 1) := by
  intro cons icons L e1 e2 x hic hok he h
  cases L with
  | nil =>
    simp only [constraintLoop, Except.ok.injEq] at h ⊢
    subst h; exact ⟨_, rfl, rfl, he⟩
  | cons b rest =>
    obtain ⟨v, cand⟩ := b
    simp only [constraintLoop] at h ⊢
    rw [hic v] at h
    cases hl : alookup v cons with
    | none =>
      rw [hl] at h
      simp only [Option.map_none] at h ⊢
      exact hC _ _ _ _ _ _ hic hok he h
    | some m =>
      rw [hl] at h
      simp only [Option.map_some] at h ⊢
      rcases hq : matchRule (isoCtx ctx) f (isolate m) cand e1 with err | ⟨o, e1'⟩
      · rw [hq] at h; cases h
      · rw [hq] at h
        obtain ⟨y0, hy0, hag⟩ := hR _ _ _ _ _ (hok v m hl) he hq
        rw [hy0]
        rcases agree_cases hag with ⟨rfl, e2', rfl, he'⟩ | ⟨a, b, e2', rfl, rfl, he'⟩
        · simp only [Except.ok.injEq] at h ⊢
          subst h; exact ⟨_, rfl, rfl, he'⟩
        · exact hC _ _ _ _ _ _ hic hok he' h

theorem s_core_step (f : Nat) (hR : SRule ctx f) (hC : SCons ctx f) : SCore ctx (f + 1) := by
  intro core n e1 e2 x hrk hck he h
  have hk : (isolateCore core).kinds = core.kinds := rfl
  have hrl : (isolateCore core).rule = isolate core.rule := rfl
  simp only [matchCore, hk, hrl] at h ⊢
  by_cases hg : (!kindsGate core.kinds n) = true
  · rw [if_pos hg] at h ⊢
    simp only [Except.ok.injEq] at h ⊢
    subst h; exact ⟨_, rfl, rfl, he⟩
  · rw [if_neg hg] at h ⊢
    rcases hq : matchRule (isoCtx ctx) f (isolate core.rule) n e1 with err | ⟨o, e1'⟩
    · rw [hq] at h; cases h
    · rw [hq] at h
      obtain ⟨y0, hy0, hag⟩ := hR _ _ _ _ _ hrk he hq
      rw [hy0]
      rcases agree_cases hag with ⟨rfl, e2', rfl, he'⟩ | ⟨a, b, e2', rfl, rfl, he'⟩
      · simp only [Except.ok.injEq] at h ⊢
        subst h; exact ⟨_, rfl, rfl, he⟩
      · simp only at h ⊢
        rw [← he'.single]
        rcases hc : constraintLoop (isoCtx ctx) f (isolateCore core).constraints
            (sortByName e1'.single) e1' with err | ⟨bb, e1''⟩
        · rw [hc] at h; cases h
        · rw [hc] at h
          obtain ⟨y1, hy1, hb, he''⟩ := hC core.constraints _ _ _ _ _ (isolateCore_constraints core) hck he' hc
          rw [hy1]
          obtain ⟨b2, e2''⟩ := y1
          simp only at hb he''
          subst hb
          cases bb <;> simp only [Except.ok.injEq] at h ⊢ <;> subst h
          · exact ⟨_, rfl, rfl, he⟩
          · exact ⟨_, rfl, rfl, he''⟩

theorem wrap_agree {n : Tree} {e1 e2 : Env} {x x0 y : Option Tree × Env} {F : Nat} {r : Rule}
    (hx : (∃ m e', x0 = (some m, e') ∧ x = (some n, e')) ∨ (∃ e', x0 = (none, e') ∧ x = (none, e1)))
    (hag : AgreeNS x0 y) (hy : matchRule ctx F r n e2 = .ok y) (he : EqNS e1 e2) : AgreeNS x y := by
  obtain ⟨my, ey⟩ := y
  rcases hx with ⟨m, e', rfl, rfl⟩ | ⟨e', rfl, rfl⟩
  · exact ⟨by simpa using hag.1, hag.2⟩
  · have hmy : my = none := by
      have := hag.1; cases my <;> simp_all
    subst hmy
    have := (all_notrace ctx F).1 _ _ _ _ hy
    subst this
    exact ⟨rfl, he⟩

theorem withLabel_agree {X1 X2 : Except Abn (Option Tree × Env)} {a b x0 : Option Tree × Env}
    (h1 : X1 = .ok a) (h2 : X2 = .ok b) (hag : AgreeNS a b) (h : withLabel ctx X1 = .ok x0) :
    ∃ y, withLabel ctx X2 = .ok y ∧ AgreeNS x0 y := by
  subst h1; subst h2
  obtain ⟨ma, ea⟩ := a
  rcases agree_cases hag with ⟨rfl, e2', rfl, he'⟩ | ⟨m1, m2, e2', rfl, rfl, he'⟩
  · simp only [withLabel, Except.ok.injEq] at h ⊢
    subst h; exact ⟨_, rfl, rfl, he'⟩
  · simp only [withLabel, Except.ok.injEq] at h ⊢
    subst h; exact ⟨_, rfl, rfl, he'.addLabel m1 m2⟩

/-- rule forms that consult nothing but the document: the same run in both contexts -/
theorem iso_atomic (F : Nat) (r : Rule) (n : Tree) (e : Env)
    (hr : (∃ p k s, r = .pattern p k s) ∨ (∃ k, r = .kind k) ∨ (∃ i, r = .regex i) ∨
      (∃ a b c d, r = .range a b c d) ∨ (∃ a b rev, r = .nthChild a b none rev)) :
    matchRule (isoCtx ctx) F r n e = matchRule ctx F r n e := by
  cases F with
  | zero => simp [matchRule]
  | succ F =>
    rcases hr with ⟨p, k, s, rfl⟩ | ⟨k, rfl⟩ | ⟨i, rfl⟩ | ⟨a, b, c, d, rfl⟩ | ⟨a, b, rev, rfl⟩
    · cases k <;> simp only [matchRule] <;> rfl
    · simp only [matchRule]
    · simp only [matchRule]; rfl
    · simp only [matchRule]; rfl
    · simp only [matchRule]; rfl

theorem s_rule_step (hreg : RegIsoOK ctx) (f : Nat) (hR : SRule ctx f) (hAl : SAll ctx f)
    (hAn : SAny ctx f) (hFi : SFilter ctx f) (hI : SInside ctx f) (hH : SHas ctx f)
    (hS : SStopBy ctx f) (hCo : SCore ctx f) :
    SRule ctx (f + 1) := by
  intro r n e1 e2 x hv he h
  cases r with
  | pattern p k s =>
    simp only [isolate] at h
    obtain ⟨x0, hq, hx⟩ := wrap_run (isoCtx ctx) h
    rw [iso_atomic ctx _ _ _ _ (.inl ⟨_, _, _, rfl⟩)] at hq
    have hp := matchPatternEnv_eqNS s ctx.src (matchFuel p n) p n e1 e2
      (namesIn_nsV (by simpa [Rule.isoOK] using hv)) he
    suffices hmain : ∃ y, matchRule ctx (f + 1) (.pattern p k s) n e2 = .ok y ∧ AgreeNS x0 y by
      obtain ⟨y, hy, hag⟩ := hmain
      exact ⟨y, hy, wrap_agree ctx hx hag hy he⟩
    cases k with
    | none =>
      simp only [matchRule, Bool.false_eq_true, ↓reduceIte] at hq ⊢
      rcases hpe : matchPatternEnv s ctx.src (matchFuel p n) p n e1 with err | o
      · rw [hpe] at hq; cases hq
      · rw [hpe] at hq
        cases o with
        | none =>
          rw [hp.2.1 hpe]
          simp only [Except.ok.injEq] at hq ⊢
          subst hq; exact ⟨_, rfl, rfl, he⟩
        | some a =>
          obtain ⟨b, hb, hab⟩ := hp.2.2 a hpe
          rw [hb]
          simp only [Except.ok.injEq] at hq ⊢
          subst hq; exact ⟨_, rfl, rfl, hab⟩
    | some kd =>
      simp only [matchRule] at hq ⊢
      by_cases hk : (n.kind != kd) = true
      · rw [if_pos hk] at hq ⊢
        simp only [Except.ok.injEq] at hq ⊢
        subst hq; exact ⟨_, rfl, rfl, he⟩
      · rw [if_neg hk] at hq ⊢
        rcases hpe : matchPatternEnv s ctx.src (matchFuel p n) p n e1 with err | o
        · rw [hpe] at hq; cases hq
        · rw [hpe] at hq
          cases o with
          | none =>
            rw [hp.2.1 hpe]
            simp only [Except.ok.injEq] at hq ⊢
            subst hq; exact ⟨_, rfl, rfl, he⟩
          | some a =>
            obtain ⟨b, hb, hab⟩ := hp.2.2 a hpe
            rw [hb]
            simp only [Except.ok.injEq] at hq ⊢
            subst hq; exact ⟨_, rfl, rfl, hab⟩
  | kind kd =>
    simp only [isolate] at h
    rw [iso_atomic ctx _ _ _ _ (.inr (.inl ⟨_, rfl⟩))] at h
    simp only [matchRule, Except.ok.injEq] at h ⊢
    subst h; exact ⟨_, rfl, rfl, he⟩
  | regex id =>
    simp only [isolate] at h
    rw [iso_atomic ctx _ _ _ _ (.inr (.inr (.inl ⟨_, rfl⟩)))] at h
    simp only [matchRule, Except.ok.injEq] at h ⊢
    subst h; exact ⟨_, rfl, rfl, he⟩
  | range sl sc el ec =>
    simp only [isolate] at h
    rw [iso_atomic ctx _ _ _ _ (.inr (.inr (.inr (.inl ⟨_, _, _, _, rfl⟩))))] at h
    simp only [matchRule] at h ⊢
    by_cases h1 : (sl != lineOfOffset ctx.src n.start || el != lineOfOffset ctx.src n.stop) = true
    · rw [if_pos h1] at h ⊢
      simp only [Except.ok.injEq] at h ⊢
      subst h; exact ⟨_, rfl, rfl, he⟩
    · rw [if_neg h1] at h ⊢
      by_cases h2 : (sc != charColOfOffset ctx.src n.start || ec != charColOfOffset ctx.src n.stop) = true
      · rw [if_pos h2] at h ⊢
        simp only [Except.ok.injEq] at h ⊢
        subst h; exact ⟨_, rfl, rfl, he⟩
      · rw [if_neg h2] at h ⊢
        simp only [Except.ok.injEq] at h ⊢
        subst h; exact ⟨_, rfl, rfl, he⟩
  | nthChild a b ofRule reverse =>
    cases ofRule with
    | none =>
      simp only [isolate] at h
      obtain ⟨x0, hq, hx⟩ := wrap_run (isoCtx ctx) h
      suffices hmain : ∃ y, matchRule ctx (f + 1) (.nthChild a b none reverse) n e2 = .ok y ∧
          AgreeNS x0 y by
        obtain ⟨y, hy, hag⟩ := hmain
        exact ⟨y, hy, wrap_agree ctx hx hag hy he⟩
      rw [iso_atomic ctx _ _ _ _ (.inr (.inr (.inr (.inr ⟨_, _, _, rfl⟩))))] at hq
      simp only [matchRule] at hq ⊢
      cases hpar : parentOf ctx.root n with
      | none =>
        rw [hpar] at hq
        simp only [Except.ok.injEq] at hq ⊢
        subst hq; exact ⟨_, rfl, rfl, he⟩
      | some parent =>
        rw [hpar] at hq
        simp only at hq ⊢
        generalize (if reverse = true then (List.filter (fun x => x.named) parent.children).reverse
          else List.filter (fun x => x.named) parent.children) = kids at hq ⊢
        cases hidx : indexById n kids with
        | none =>
          rw [hidx] at hq
          simp only [Except.ok.injEq] at hq ⊢
          subst hq; exact ⟨_, rfl, rfl, he⟩
        | some index =>
          rw [hidx] at hq
          simp only at hq ⊢
          cases hm : isMatched a b index <;> rw [hm] at hq <;>
            simp only [Except.ok.injEq] at hq ⊢ <;> (subst hq; exact ⟨_, rfl, rfl, he⟩)
    | some rule =>
      have hv' : rule.isoOK = true := by simpa [Rule.isoOK] using hv
      simp only [isolate] at h
      obtain ⟨x0, hq, hx⟩ := wrap_run (isoCtx ctx) h
      suffices hmain : ∃ y, matchRule ctx (f + 1) (.nthChild a b (some rule) reverse) n e2 = .ok y ∧
          AgreeNS x0 y by
        obtain ⟨y, hy, hag⟩ := hmain
        exact ⟨y, hy, wrap_agree ctx hx hag hy he⟩
      simp only [isoCtx_src, isoCtx_root, isoCtx_regex, matchRule] at hq ⊢
      cases hpar : parentOf ctx.root n with
      | none =>
        rw [hpar] at hq
        simp only [Except.ok.injEq] at hq ⊢
        subst hq; exact ⟨_, rfl, rfl, he⟩
      | some parent =>
        rw [hpar] at hq
        simp only at hq ⊢
        rcases hfm : filterMapRule (isoCtx ctx) f (isolate rule)
          (List.filter (fun x => x.named) parent.children) e1 with err | kids0
        · rw [hfm] at hq; cases hq
        · rw [hfm] at hq
          rw [hFi _ _ _ _ _ hv' he hfm]
          simp only at hq ⊢
          generalize (if reverse = true then kids0.reverse else kids0) = kids at hq ⊢
          cases hidx : indexById n kids with
          | none =>
            rw [hidx] at hq
            simp only [Except.ok.injEq] at hq ⊢
            subst hq; exact ⟨_, rfl, rfl, he⟩
          | some index =>
            rw [hidx] at hq
            simp only at hq ⊢
            cases hmt : isMatched a b index with
            | false =>
              rw [hmt] at hq
              simp only [Except.ok.injEq] at hq ⊢
              subst hq; exact ⟨_, rfl, rfl, he⟩
            | true =>
              rw [hmt] at hq
              simp only at hq ⊢
              rcases hm : matchRule (isoCtx ctx) f (isolate rule) n e1 with err | ⟨m, e1'⟩
              · rw [hm] at hq; cases hq
              · rw [hm] at hq
                obtain ⟨y0, hy0, hag⟩ := hR _ _ _ _ _ hv' he hm
                rw [hy0]
                rcases agree_cases hag with ⟨rfl, e2', rfl, he'⟩ | ⟨m1, m2, e2', rfl, rfl, he'⟩
                · simp only [Except.ok.injEq] at hq ⊢
                  subst hq; exact ⟨_, rfl, rfl, he'⟩
                · simp only [Except.ok.injEq] at hq ⊢
                  subst hq; exact ⟨_, rfl, rfl, he'⟩
  | all rs kinds =>
    have hv' : Rule.isoOKList rs = true := by simpa [Rule.isoOK] using hv
    simp only [isoCtx_src, isoCtx_root, isoCtx_regex, isolate, matchRule] at h ⊢
    by_cases hk : (!kindsGate kinds n) = true
    · rw [if_pos hk] at h ⊢
      simp only [Except.ok.injEq] at h ⊢
      subst h; exact ⟨_, rfl, rfl, he⟩
    · rw [if_neg hk] at h ⊢
      rcases ha : allLoop (isoCtx ctx) f (isolateList rs) n e1 with err | ⟨b, e1'⟩
      · rw [ha] at h; cases h
      · rw [ha] at h
        obtain ⟨y0, hy0, hb, he'⟩ := hAl _ _ _ _ _ hv' he ha
        rw [hy0]
        obtain ⟨b', e2'⟩ := y0
        simp only at hb he'
        subst hb
        cases b <;> simp only [Except.ok.injEq] at h ⊢ <;> subst h
        · exact ⟨_, rfl, rfl, he⟩
        · exact ⟨_, rfl, rfl, he'⟩
  | any rs kinds =>
    have hv' : Rule.isoOKList rs = true := by simpa [Rule.isoOK] using hv
    simp only [isoCtx_src, isoCtx_root, isoCtx_regex, isolate, matchRule] at h ⊢
    by_cases hk : (!kindsGate kinds n) = true
    · rw [if_pos hk] at h ⊢
      simp only [Except.ok.injEq] at h ⊢
      subst h; exact ⟨_, rfl, rfl, he⟩
    · rw [if_neg hk] at h ⊢
      rcases ha : anyLoop (isoCtx ctx) f (isolateList rs) n e1 with err | o
      · rw [ha] at h; cases h
      · rw [ha] at h
        obtain ⟨y0, hy0, hcase⟩ := hAn _ _ _ _ _ hv' he ha
        rw [hy0]
        rcases hcase with ⟨rfl, rfl⟩ | ⟨ea, eb, rfl, rfl, hab⟩
        · simp only [Except.ok.injEq] at h ⊢
          subst h; exact ⟨_, rfl, rfl, he⟩
        · simp only [Except.ok.injEq] at h ⊢
          subst h; exact ⟨_, rfl, rfl, hab⟩
  | not q =>
    have hv' : q.isoOK = true := by simpa [Rule.isoOK] using hv
    simp only [isoCtx_src, isoCtx_root, isoCtx_regex, isolate, matchRule] at h ⊢
    rcases hm : matchRule (isoCtx ctx) f (isolate q) n e1 with err | ⟨m, e1'⟩
    · rw [hm] at h; cases h
    · rw [hm] at h
      obtain ⟨y0, hy0, hag⟩ := hR _ _ _ _ _ hv' he hm
      rw [hy0]
      rcases agree_cases hag with ⟨rfl, e2', rfl, he'⟩ | ⟨m1, m2, e2', rfl, rfl, he'⟩
      · simp only [Except.ok.injEq] at h ⊢
        subst h; exact ⟨_, rfl, rfl, he⟩
      · simp only [Except.ok.injEq] at h ⊢
        subst h; exact ⟨_, rfl, rfl, he⟩
  | «matches» id =>
    simp only [isolate] at h
    obtain ⟨x0, hq, hx⟩ := wrap_run (isoCtx ctx) h
    suffices hmain : ∃ y, matchRule ctx (f + 1) (.matches id) n e2 = .ok y ∧ AgreeNS x0 y by
      obtain ⟨y, hy, hag⟩ := hmain
      exact ⟨y, hy, wrap_agree ctx hx hag hy he⟩
    simp only [matchRule] at hq ⊢
    rw [isoCtx_locals] at hq
    cases hl : alookup id ctx.locals with
    | some q =>
      rw [hl] at hq
      simp only [Option.map_some] at hq ⊢
      exact hR _ _ _ _ _ (hreg.1 id q hl) he hq
    | none =>
      rw [hl] at hq
      simp only [Option.map_none] at hq ⊢
      rw [isoCtx_globals] at hq
      cases hg : alookup id ctx.globals with
      | some core =>
        rw [hg] at hq
        simp only [Option.map_some] at hq ⊢
        obtain ⟨h1, h2⟩ := hreg.2 id core hg
        exact hCo _ _ _ _ _ h1 h2 he hq
      | none =>
        rw [hg] at hq
        simp only [Option.map_none, Except.ok.injEq] at hq ⊢
        subst hq; exact ⟨_, rfl, rfl, he⟩
  | inside q stop field =>
    have hv' : q.isoOK = true ∧ stop.isoOK = true := by simpa [Rule.isoOK] using hv
    simp only [isolate] at h
    obtain ⟨x0, hq, hx⟩ := wrap_run (isoCtx ctx) h
    suffices hmain : ∃ y, matchRule ctx (f + 1) (.inside q stop field) n e2 = .ok y ∧
        AgreeNS x0 y by
      obtain ⟨y, hy, hag⟩ := hmain
      exact ⟨y, hy, wrap_agree ctx hx hag hy he⟩
    simp only [isoCtx_src, isoCtx_root, isoCtx_regex, matchRule] at hq ⊢
    rcases hh : matchInside (isoCtx ctx) f (isolate q) (isolateStop stop) field n e1 with err | a
    · rw [hh] at hq; simp [withLabel] at hq
    · obtain ⟨b, hb, hag⟩ := hI _ _ _ _ _ _ _ hv'.1 hv'.2 he hh
      exact withLabel_agree ctx hh hb hag hq
  | has q stop field =>
    have hv' : q.isoOK = true ∧ stop.isoOK = true := by simpa [Rule.isoOK] using hv
    simp only [isolate] at h
    obtain ⟨x0, hq, hx⟩ := wrap_run (isoCtx ctx) h
    suffices hmain : ∃ y, matchRule ctx (f + 1) (.has q stop field) n e2 = .ok y ∧
        AgreeNS x0 y by
      obtain ⟨y, hy, hag⟩ := hmain
      exact ⟨y, hy, wrap_agree ctx hx hag hy he⟩
    simp only [isoCtx_src, isoCtx_root, isoCtx_regex, matchRule] at hq ⊢
    rcases hh : matchHas (isoCtx ctx) f (isolate q) (isolateStop stop) field n e1 with err | a
    · rw [hh] at hq; simp [withLabel] at hq
    · obtain ⟨b, hb, hag⟩ := hH _ _ _ _ _ _ _ hv'.1 hv'.2 he hh
      exact withLabel_agree ctx hh hb hag hq
  | precedes q stop =>
    have hv' : q.isoOK = true ∧ stop.isoOK = true := by simpa [Rule.isoOK] using hv
    simp only [isolate] at h
    obtain ⟨x0, hq, hx⟩ := wrap_run (isoCtx ctx) h
    suffices hmain : ∃ y, matchRule ctx (f + 1) (.precedes q stop) n e2 = .ok y ∧
        AgreeNS x0 y by
      obtain ⟨y, hy, hag⟩ := hmain
      exact ⟨y, hy, wrap_agree ctx hx hag hy he⟩
    simp only [isoCtx_src, isoCtx_root, isoCtx_regex, matchRule] at hq ⊢
    rcases hh : stopByFind (isoCtx ctx) f (isolateStop stop) (isolate q) none n.id (nextOf ctx.root n)
      (nextAllOf ctx.root n) e1 with err | a
    · rw [hh] at hq; simp [withLabel] at hq
    · obtain ⟨b, hb, hag⟩ := hS _ _ _ _ _ _ _ _ _ hv'.1 hv'.2 he hh
      exact withLabel_agree ctx hh hb hag hq
  | follows q stop =>
    have hv' : q.isoOK = true ∧ stop.isoOK = true := by simpa [Rule.isoOK] using hv
    simp only [isolate] at h
    obtain ⟨x0, hq, hx⟩ := wrap_run (isoCtx ctx) h
    suffices hmain : ∃ y, matchRule ctx (f + 1) (.follows q stop) n e2 = .ok y ∧
        AgreeNS x0 y by
      obtain ⟨y, hy, hag⟩ := hmain
      exact ⟨y, hy, wrap_agree ctx hx hag hy he⟩
    simp only [isoCtx_src, isoCtx_root, isoCtx_regex, matchRule] at hq ⊢
    rcases hh : stopByFind (isoCtx ctx) f (isolateStop stop) (isolate q) none n.id (prevOf ctx.root n)
      (prevAllOf ctx.root n) e1 with err | a
    · rw [hh] at hq; simp [withLabel] at hq
    · obtain ⟨b, hb, hag⟩ := hS _ _ _ _ _ _ _ _ _ hv'.1 hv'.2 he hh
      exact withLabel_agree ctx hh hb hag hq

end

section
variable (ctx : RCtx)

/-- the simulation, by induction on the fuel -/
theorem all_s (hreg : RegIsoOK ctx) (f : Nat) :
    SRule ctx f ∧ SAll ctx f ∧ SAny ctx f ∧ SFilter ctx f ∧ SFinder ctx f ∧ SFindMap ctx f ∧
    SUntil ctx f ∧ SStopBy ctx f ∧ SInside ctx f ∧ SHasUntil ctx f ∧ SHas ctx f ∧ SCore ctx f ∧
    SCons ctx f := by
  induction f with
  | zero =>
    refine ⟨?_, ?_, ?_, ?_, ?_, ?_, ?_, ?_, ?_, ?_, ?_, ?_, ?_⟩
    · intro r n e1 e2 x _ _ h; simp [matchRule] at h
    · intro rs n e1 e2 x _ _ h; simp [allLoop] at h
    · intro rs n e1 e2 x _ _ h; simp [anyLoop] at h
    · intro r cs e1 e2 l _ _ h; simp [filterMapRule] at h
    · intro r field eid c e1 e2 x _ _ h; simp [finderStep] at h
    · intro r field eid cs e1 e2 x _ _ h; simp [findMapRule] at h
    · intro r s field eid st cs e1 e2 x _ _ _ h; simp [findMapUntil] at h
    · intro stop r field eid once multi e1 e2 x _ _ _ h; simp [stopByFind] at h
    · intro r stop field n e1 e2 x _ _ _ h; simp [matchInside] at h
    · intro r s cs e1 e2 x _ _ _ h; simp [hasUntil] at h
    · intro r stop field n e1 e2 x _ _ _ h; simp [matchHas] at h
    · intro core n e1 e2 x _ _ _ h; simp [matchCore] at h
    · intro cons icons L e1 e2 x _ _ _ h; simp [constraintLoop] at h
  | succ f ih =>
    obtain ⟨hR, hAl, hAn, hFi, hF, hM, hU, hS, hI, hHU, hH, hCo, hCn⟩ := ih
    exact ⟨s_rule_step ctx hreg f hR hAl hAn hFi hI hH hS hCo, s_all_step ctx f hR hAl,
      s_any_step ctx f hR hAn, s_filter_step ctx f hR hFi, s_finder_step ctx f hR,
      s_findMap_step ctx f hF hM, s_until_step ctx f hR hF hU, s_stopBy_step ctx f hF hM hU,
      s_inside_step ctx f hS, s_hasUntil_step ctx f hR hHU, s_has_step ctx f hR hM hHU,
      s_core_step ctx f hR hCn, s_cons_step ctx f hR hCn⟩

/-- whenever the isolated rule (in the isolated context) ends normally, so does the rule itself,
with the same fuel, the same verdict and the same environment up to the `secondary` label -/
theorem isolate_simulates' (hreg : RegIsoOK ctx) (f : Nat) (r : Rule) (hr : r.isoOK = true) (n : Tree)
    (env : Env) (x : Option Tree × Env) (h : matchRule (isoCtx ctx) f (isolate r) n env = .ok x) :
    ∃ y, matchRule ctx f r n env = .ok y ∧ AgreeNS x y :=
  (all_s ctx hreg f).1 r n env env x hr (EqNS.refl env) h

/-- the two evaluations agree whenever both end normally (with any two fuels) -/
theorem isolate_agrees' (hreg : RegIsoOK ctx) (f f' : Nat) (r : Rule) (hr : r.isoOK = true) (n : Tree)
    (env : Env) (x y : Option Tree × Env)
    (hx : matchRule (isoCtx ctx) f (isolate r) n env = .ok x)
    (hy : matchRule ctx f' r n env = .ok y) : AgreeNS x y := by
  obtain ⟨y', hy', hag⟩ := isolate_simulates' ctx hreg f r hr n env x hx
  have h1 := matchRule_fuel_mono ctx (Nat.le_max_left f f') hy'
  have h2 := matchRule_fuel_mono ctx (Nat.le_max_right f f') hy
  rw [h1] at h2
  simp only [Except.ok.injEq] at h2
  subst h2; exact hag

theorem matchCore_fuel_mono {fuel fuel' : Nat} (hle : fuel ≤ fuel') {core : RuleCore} {n : Tree}
    {env : Env} {x : Option Tree × Env} (h : matchCore ctx fuel core n env = .ok x) :
    matchCore ctx fuel' core n env = .ok x := by
  induction hle with
  | refl => exact h
  | step _ ih => exact (all_mo ctx _).2.2.2.2.2.2.2.2.2.2.2.1 _ _ _ _ ih

/-- a rule core in the fragment: its rule and its constraint rules -/
def CoreIsoOK (core : RuleCore) : Prop :=
  core.rule.isoOK = true ∧ ∀ v m, alookup v core.constraints = some m → m.isoOK = true

/-- the same for a whole rule core (what the oracle runs: `matchCore` on `isolateCore core`) -/
theorem isolateCore_simulates' (hreg : RegIsoOK ctx) (f : Nat) (core : RuleCore) (hc : CoreIsoOK core)
    (n : Tree) (env : Env) (x : Option Tree × Env)
    (h : matchCore (isoCtx ctx) f (isolateCore core) n env = .ok x) :
    ∃ y, matchCore ctx f core n env = .ok y ∧ AgreeNS x y :=
  (all_s ctx hreg f).2.2.2.2.2.2.2.2.2.2.2.1 core n env env x hc.1 hc.2 (EqNS.refl env) h

theorem isolateCore_agrees' (hreg : RegIsoOK ctx) (f f' : Nat) (core : RuleCore) (hc : CoreIsoOK core)
    (n : Tree) (env : Env) (x y : Option Tree × Env)
    (hx : matchCore (isoCtx ctx) f (isolateCore core) n env = .ok x)
    (hy : matchCore ctx f' core n env = .ok y) : AgreeNS x y := by
  obtain ⟨y', hy', hag⟩ := isolateCore_simulates' ctx hreg f core hc n env x hx
  have h1 := matchCore_fuel_mono ctx (Nat.le_max_left f f') hy'
  have h2 := matchCore_fuel_mono ctx (Nat.le_max_right f f') hy
  rw [h1] at h2
  simp only [Except.ok.injEq] at h2
  subst h2; exact hag

end

end AGV
