/-
Order-independence lemmas for `Model/Topo.lean` / `Model/Snapshot.lean`:
  * insertion sort by a strict order is a function of the *set* of (pairwise comparable) inputs;
  * `bytesLt` / `fixIdLt` are strict total orders;
  * transformation steps that neither overwrite each other's key nor each other's source commute;
  * constraints with disjoint footprints commute.
-/
import AstGrepVerif.Model.Topo

set_option linter.unusedSimpArgs false
set_option linter.unusedVariables false

namespace AGV.Topo

/-! ## sorting -/

section SortSec
variable {κ : Type} (lt : κ → κ → Bool)

theorem insertBy_perm (x : κ) (l : List κ) : (insertBy lt x l).Perm (x :: l) := by
  induction l with
  | nil => simp [insertBy]
  | cons y ys ih =>
    simp only [insertBy]
    split
    · exact ((List.perm_cons y).mpr ih).trans (List.Perm.swap x y ys)
    · exact List.Perm.refl _

theorem sortBy_perm (l : List κ) : (sortBy lt l).Perm l := by
  induction l with
  | nil => simp [sortBy]
  | cons x xs ih =>
    simp only [sortBy]
    exact (insertBy_perm lt x _).trans ((List.perm_cons x).mpr ih)

variable {lt}

theorem insertBy_sorted (htrans : ∀ a b c, lt a b = true → lt b c = true → lt a c = true)
    (x : κ) (l : List κ) (hs : l.Pairwise (fun a b => lt a b = true))
    (hc : ∀ y ∈ l, lt y x = true ∨ lt x y = true) :
    (insertBy lt x l).Pairwise (fun a b => lt a b = true) := by
  induction l with
  | nil => simp [insertBy]
  | cons y ys ih =>
    simp only [insertBy]
    obtain ⟨hy, hys⟩ := List.pairwise_cons.mp hs
    split
    · next hlt =>
      refine List.pairwise_cons.mpr ⟨?_, ih hys (fun z hz => hc z (List.mem_cons_of_mem _ hz))⟩
      intro z hz
      rcases List.mem_cons.mp (((insertBy_perm lt x ys).mem_iff).mp hz) with rfl | hz
      · exact hlt
      · exact hy z hz
    · next hnlt =>
      have hxy : lt x y = true := by
        rcases hc y (by simp) with h | h
        · exact absurd h hnlt
        · exact h
      refine List.pairwise_cons.mpr ⟨?_, hs⟩
      intro z hz
      rcases List.mem_cons.mp hz with rfl | hz
      · exact hxy
      · exact htrans _ _ _ hxy (hy z hz)

theorem sortBy_sorted (htrans : ∀ a b c, lt a b = true → lt b c = true → lt a c = true)
    (l : List κ) (hc : l.Pairwise (fun a b => lt a b = true ∨ lt b a = true)) :
    (sortBy lt l).Pairwise (fun a b => lt a b = true) := by
  induction l with
  | nil => simp [sortBy]
  | cons x xs ih =>
    simp only [sortBy]
    obtain ⟨hx, hxs⟩ := List.pairwise_cons.mp hc
    refine insertBy_sorted htrans x _ (ih hxs) ?_
    intro y hy
    have hy' : y ∈ xs := ((sortBy_perm lt xs).mem_iff).mp hy
    rcases hx y hy' with h | h
    · exact .inr h
    · exact .inl h

/-- two strictly sorted lists with the same elements are equal -/
theorem sorted_perm_eq (hasymm : ∀ a b, lt a b = true → lt b a = true → False) :
    ∀ (l1 l2 : List κ), l1.Perm l2 → l1.Pairwise (fun a b => lt a b = true) →
      l2.Pairwise (fun a b => lt a b = true) → l1 = l2 := by
  intro l1
  induction l1 with
  | nil => intro l2 hp _ _; exact (List.Perm.nil_eq hp)
  | cons a l1 ih =>
    intro l2 hp h1 h2
    cases l2 with
    | nil => exact absurd hp.length_eq (by simp)
    | cons b l2 =>
      obtain ⟨ha, h1'⟩ := List.pairwise_cons.mp h1
      obtain ⟨hb, h2'⟩ := List.pairwise_cons.mp h2
      have hab : a = b := by
        have ha2 : a ∈ b :: l2 := (hp.mem_iff).mp (by simp)
        have hb1 : b ∈ a :: l1 := (hp.mem_iff).mpr (by simp)
        rcases List.mem_cons.mp ha2 with h | h
        · exact h
        · rcases List.mem_cons.mp hb1 with h' | h'
          · exact h'.symm
          · exact (hasymm _ _ (ha b h') (hb a h)).elim
      subst hab
      rw [ih l2 hp.cons_inv h1' h2']

/-- **Sorting is canonical**: for inputs whose elements are pairwise comparable (= pairwise
different keys under a total order), the sorted list depends only on the multiset of inputs. -/
theorem sortBy_canonical (htrans : ∀ a b c, lt a b = true → lt b c = true → lt a c = true)
    (hasymm : ∀ a b, lt a b = true → lt b a = true → False)
    {l1 l2 : List κ} (hp : l1.Perm l2)
    (hc : l1.Pairwise (fun a b => lt a b = true ∨ lt b a = true)) :
    sortBy lt l1 = sortBy lt l2 := by
  have hc2 : l2.Pairwise (fun a b => lt a b = true ∨ lt b a = true) :=
    (hp.pairwise_iff (fun {x y} h => h.symm)).mp hc
  exact sorted_perm_eq hasymm _ _
    (((sortBy_perm lt l1).trans hp).trans (sortBy_perm lt l2).symm)
    (sortBy_sorted htrans l1 hc) (sortBy_sorted htrans l2 hc2)

/-- whatever algorithm sorts (e.g. `sort_unstable_by_key`): a strictly sorted permutation of the
input is the model's result -/
theorem sortBy_unique (htrans : ∀ a b c, lt a b = true → lt b c = true → lt a c = true)
    (hasymm : ∀ a b, lt a b = true → lt b a = true → False)
    {l out : List κ} (hp : out.Perm l) (hs : out.Pairwise (fun a b => lt a b = true)) :
    out = sortBy lt l := by
  have hc : out.Pairwise (fun a b => lt a b = true ∨ lt b a = true) := hs.imp (fun h => .inl h)
  have hcl : l.Pairwise (fun a b => lt a b = true ∨ lt b a = true) :=
    (hp.pairwise_iff (fun {x y} h => h.symm)).mp hc
  exact sorted_perm_eq hasymm _ _ (hp.trans (sortBy_perm lt l).symm) hs (sortBy_sorted htrans l hcl)

end SortSec

/-! ## `bytesLt` is a strict total order -/

theorem bytesLt_trans : ∀ a b c, bytesLt a b = true → bytesLt b c = true → bytesLt a c = true := by
  intro a
  induction a with
  | nil =>
    intro b c h1 h2
    cases b with
    | nil => simp [bytesLt] at h1
    | cons y b => cases c with
      | nil => simp [bytesLt] at h2
      | cons z c => simp [bytesLt]
  | cons x a ih =>
    intro b c h1 h2
    cases b with
    | nil => simp [bytesLt] at h1
    | cons y b =>
      cases c with
      | nil => simp [bytesLt] at h2
      | cons z c =>
        simp only [bytesLt, UInt8.lt_iff_toNat_lt] at h1 h2 ⊢
        split at h1
        · split at h2
          · rw [if_pos (by omega)]
          · split at h2
            · simp at h2
            · rw [if_pos (by omega)]
        · split at h1
          · simp at h1
          · split at h2
            · rw [if_pos (by omega)]
            · split at h2
              · simp at h2
              · rw [if_neg (by omega), if_neg (by omega)]
                exact ih b c h1 h2

theorem bytesLt_asymm : ∀ a b, bytesLt a b = true → bytesLt b a = true → False := by
  intro a
  induction a with
  | nil => intro b h1 h2; cases b <;> simp [bytesLt] at h1 h2
  | cons x a ih =>
    intro b h1 h2
    cases b with
    | nil => simp [bytesLt] at h1
    | cons y b =>
      simp only [bytesLt, UInt8.lt_iff_toNat_lt] at h1 h2
      split at h1
      · rw [if_neg (by omega), if_pos (by omega)] at h2; simp at h2
      · split at h1
        · simp at h1
        · rw [if_neg (by omega), if_neg (by omega)] at h2
          exact ih b h1 h2

theorem bytesLt_total : ∀ a b, a ≠ b → bytesLt a b = true ∨ bytesLt b a = true := by
  intro a
  induction a with
  | nil => intro b h; cases b with
    | nil => exact absurd rfl h
    | cons y b => simp [bytesLt]
  | cons x a ih =>
    intro b h
    cases b with
    | nil => simp [bytesLt]
    | cons y b =>
      simp only [bytesLt, UInt8.lt_iff_toNat_lt]
      by_cases h1 : x.toNat < y.toNat
      · simp [h1]
      · by_cases h2 : y.toNat < x.toNat
        · simp [h1, h2]
        · have hxy : x = y := UInt8.toNat_inj.mp (by omega)
          subst hxy
          simp only [h1, if_false]
          exact ih b (fun hab => h (by rw [hab]))

theorem fixIdLt_trans : ∀ a b c, fixIdLt a b = true → fixIdLt b c = true → fixIdLt a c = true := by
  intro ⟨fa, ia⟩ ⟨fb, ib⟩ ⟨fc, ic⟩ h1 h2
  simp only [fixIdLt] at h1 h2 ⊢
  cases fa <;> cases fb <;> cases fc <;> simp_all
  · exact bytesLt_trans _ _ _ h1 h2
  · exact bytesLt_trans _ _ _ h1 h2

theorem fixIdLt_asymm : ∀ a b, fixIdLt a b = true → fixIdLt b a = true → False := by
  intro ⟨fa, ia⟩ ⟨fb, ib⟩ h1 h2
  simp only [fixIdLt] at h1 h2
  cases fa <;> cases fb <;> simp_all
  · exact bytesLt_asymm _ _ h1 h2
  · exact bytesLt_asymm _ _ h1 h2

theorem fixIdLt_total (a b : Bool × List UInt8) (h : a.2 ≠ b.2) :
    fixIdLt a b = true ∨ fixIdLt b a = true := by
  obtain ⟨fa, ia⟩ := a
  obtain ⟨fb, ib⟩ := b
  simp only [fixIdLt]
  cases fa <;> cases fb <;> simp
  · exact bytesLt_total _ _ h
  · exact bytesLt_total _ _ h

/-! ## transformation steps -/

section Transform
variable {α : Type} [DecidableEq α] {V : Type}

/-- `s` and `t` do not interfere: different keys, neither writes the other's source -/
def Indep (s t : Step α V) : Prop := s.key ≠ t.key ∧ t.key ≠ s.source ∧ s.key ≠ t.source

omit [DecidableEq α] in
theorem TEnv.ext' {e1 e2 : TEnv α V} (h1 : e1.matched = e2.matched) (h2 : e1.transformed = e2.transformed) :
    e1 = e2 := by
  cases e1; cases e2; simp_all

theorem get_applyStep_ne (e : TEnv α V) (t : Step α V) (x : α) (h : t.key ≠ x) :
    (applyStep e t).get x = e.get x := by
  simp only [TEnv.get, applyStep]
  have : (x = t.key) = False := by simp; exact fun h' => h h'.symm
  simp [this]

theorem applyStep_comm (e : TEnv α V) (s t : Step α V) (h : Indep s t) :
    applyStep (applyStep e s) t = applyStep (applyStep e t) s := by
  obtain ⟨hk, h1, h2⟩ := h
  apply TEnv.ext'
  · simp [applyStep]
  · funext x
    have g1 := get_applyStep_ne e t s.source h1
    have g2 := get_applyStep_ne e s t.source h2
    simp only [applyStep] at g1 g2 ⊢
    rw [g1, g2]
    by_cases hx : x = t.key
    · subst hx
      have : ¬ t.key = s.key := fun h' => hk h'.symm
      simp [this]
    · simp [hx]

theorem applyTransform_move (s : Step α V) (post : List (Step α V)) :
    ∀ (pre : List (Step α V)) (e : TEnv α V), (∀ t ∈ pre, Indep s t) →
      applyTransform (pre ++ s :: post) e = applyTransform (s :: (pre ++ post)) e := by
  intro pre
  induction pre with
  | nil => intro e _; rfl
  | cons t pre ih =>
    intro e h
    simp only [applyTransform, List.cons_append, List.foldl_cons] at ih ⊢
    rw [ih (applyStep e t) (fun u hu => h u (List.mem_cons_of_mem _ hu))]
    rw [applyStep_comm e s t (h t (by simp))]

/-- **Commuting steps.** Two arrangements of the same steps (pairwise different keys), in each
of which no step is followed by a step that writes its source, compute the same environment. -/
theorem applyTransform_perm :
    ∀ (l1 l2 : List (Step α V)), l1.Perm l2 →
      l1.Pairwise (fun a b => a.key ≠ b.key) →
      l1.Pairwise (fun a b => b.key ≠ a.source) →
      l2.Pairwise (fun a b => b.key ≠ a.source) →
      ∀ e : TEnv α V, applyTransform l1 e = applyTransform l2 e := by
  intro l1
  induction l1 with
  | nil => intro l2 hp _ _ _ e; rw [← List.Perm.nil_eq hp]
  | cons s l1 ih =>
    intro l2 hp hk hv1 hv2 e
    obtain ⟨pre, post, rfl⟩ := List.append_of_mem ((hp.mem_iff).mp (List.mem_cons_self))
    have hp' : l1.Perm (pre ++ post) := (hp.trans List.perm_middle).cons_inv
    obtain ⟨hks, hk'⟩ := List.pairwise_cons.mp hk
    obtain ⟨hvs, hv1'⟩ := List.pairwise_cons.mp hv1
    obtain ⟨hpre, hspost, hcross⟩ := List.pairwise_append.mp hv2
    have hindep : ∀ t ∈ pre, Indep s t := by
      intro t ht
      have ht1 : t ∈ l1 := (hp'.mem_iff).mpr (List.mem_append_left _ ht)
      exact ⟨hks t ht1, hvs t ht1, hcross t ht s (by simp)⟩
    rw [applyTransform_move s post pre e hindep]
    have hsub : (pre ++ post).Sublist (pre ++ s :: post) :=
      List.Sublist.append (List.Sublist.refl _) (List.sublist_cons_self _ _)
    have := ih (pre ++ post) hp' hk' hv1' (hv2.sublist hsub) (applyStep e s)
    simpa [applyTransform] using this

end Transform

/-! ## constraints -/

section Constraints
variable {α V : Type}

/-- `c` reads and writes only the variables in `S` -/
structure Local (c : Constraint α V) (S : α → Prop) : Prop where
  frame : ∀ e r, c e = some r → ∀ x, ¬ S x → r x = e x
  success : ∀ e e', (∀ x, S x → e x = e' x) → (c e).isSome = (c e').isSome
  value : ∀ e e' r r', (∀ x, S x → e x = e' x) → c e = some r → c e' = some r' → ∀ x, S x → r x = r' x

theorem constraint_comm {c1 c2 : Constraint α V} {S1 S2 : α → Prop}
    (h1 : Local c1 S1) (h2 : Local c2 S2) (hd : ∀ x, ¬ (S1 x ∧ S2 x)) (e : CEnv α V) :
    (c1 e).bind c2 = (c2 e).bind c1 := by
  cases hc1 : c1 e with
  | none =>
    cases hc2 : c2 e with
    | none => rfl
    | some r2 =>
      simp only [Option.bind]
      have hag : ∀ x, S1 x → e x = r2 x := fun x hx => (h2.frame e r2 hc2 x (fun h => hd x ⟨hx, h⟩)).symm
      have := h1.success e r2 hag
      rw [hc1] at this
      cases h : c1 r2 with
      | none => rfl
      | some _ => rw [h] at this; simp at this
  | some r1 =>
    have hag1 : ∀ x, S2 x → e x = r1 x := fun x hx => (h1.frame e r1 hc1 x (fun h => hd x ⟨h, hx⟩)).symm
    have hs2 := h2.success e r1 hag1
    cases hc2 : c2 e with
    | none =>
      simp only [Option.bind]
      rw [hc2] at hs2
      cases h : c2 r1 with
      | none => rfl
      | some _ => rw [h] at hs2; simp at hs2
    | some r2 =>
      have hag2 : ∀ x, S1 x → e x = r2 x := fun x hx => (h2.frame e r2 hc2 x (fun h => hd x ⟨hx, h⟩)).symm
      have hs1 := h1.success e r2 hag2
      rw [hc2] at hs2
      rw [hc1] at hs1
      simp only [Option.bind]
      cases h12 : c2 r1 with
      | none => rw [h12] at hs2; simp at hs2
      | some r12 =>
        cases h21 : c1 r2 with
        | none => rw [h21] at hs1; simp at hs1
        | some r21 =>
          congr 1
          funext x
          by_cases hx1 : S1 x
          · have hx2 : ¬ S2 x := fun h => hd x ⟨hx1, h⟩
            rw [h2.frame r1 r12 h12 x hx2]
            exact h1.value e r2 r1 r21 hag2 hc1 h21 x hx1
          · by_cases hx2 : S2 x
            · rw [h1.frame r2 r21 h21 x hx1]
              exact (h2.value e r1 r2 r12 hag1 hc2 h12 x hx2).symm
            · rw [h2.frame r1 r12 h12 x hx2, h1.frame r2 r21 h21 x hx1,
                h1.frame e r1 hc1 x hx1, h2.frame e r2 hc2 x hx2]

end Constraints

/-! ## sorting by a total order `le` (the sort of `match_constraints`) -/

section SortLe
variable {α : Type} (le : α → α → Bool)

theorem insertByLe_perm (x : α) (l : List α) : (insertByLe le x l).Perm (x :: l) := by
  induction l with
  | nil => simp [insertByLe]
  | cons y ys ih =>
    simp only [insertByLe]
    split
    · exact List.Perm.refl _
    · exact ((List.perm_cons y).mpr ih).trans (List.Perm.swap x y ys)

theorem sortByLe_cons (x : α) (xs : List α) : sortByLe le (x :: xs) = insertByLe le x (sortByLe le xs) := rfl

theorem sortByLe_perm (l : List α) : (sortByLe le l).Perm l := by
  induction l with
  | nil => exact List.Perm.refl _
  | cons x xs ih =>
    rw [sortByLe_cons]
    exact (insertByLe_perm le x _).trans ((List.perm_cons x).mpr ih)

variable {le}

theorem insertByLe_sorted (htotal : ∀ a b, le a b = true ∨ le b a = true)
    (htrans : ∀ a b c, le a b = true → le b c = true → le a c = true)
    (x : α) (l : List α) (hs : l.Pairwise (fun a b => le a b = true)) :
    (insertByLe le x l).Pairwise (fun a b => le a b = true) := by
  induction l with
  | nil => simp [insertByLe]
  | cons y ys ih =>
    simp only [insertByLe]
    obtain ⟨hy, hys⟩ := List.pairwise_cons.mp hs
    split
    · next hle =>
      refine List.pairwise_cons.mpr ⟨?_, hs⟩
      intro z hz
      rcases List.mem_cons.mp hz with rfl | hz
      · exact hle
      · exact htrans _ _ _ hle (hy z hz)
    · next hnle =>
      have hyx : le y x = true := by
        rcases htotal x y with h | h
        · exact absurd h hnle
        · exact h
      refine List.pairwise_cons.mpr ⟨?_, ih hys⟩
      intro z hz
      rcases List.mem_cons.mp (((insertByLe_perm le x ys).mem_iff).mp hz) with rfl | hz
      · exact hyx
      · exact hy z hz

theorem sortByLe_sorted (htotal : ∀ a b, le a b = true ∨ le b a = true)
    (htrans : ∀ a b c, le a b = true → le b c = true → le a c = true) (l : List α) :
    (sortByLe le l).Pairwise (fun a b => le a b = true) := by
  induction l with
  | nil => simp [sortByLe]
  | cons x xs ih => rw [sortByLe_cons]; exact insertByLe_sorted htotal htrans x _ ih

/-- two lists sorted by an antisymmetric order with the same elements are equal -/
theorem sortedLe_perm_eq (hanti : ∀ a b, le a b = true → le b a = true → a = b) :
    ∀ (l1 l2 : List α), l1.Perm l2 → l1.Pairwise (fun a b => le a b = true) →
      l2.Pairwise (fun a b => le a b = true) → l1 = l2 := by
  intro l1
  induction l1 with
  | nil => intro l2 hp _ _; exact (List.Perm.nil_eq hp)
  | cons a l1 ih =>
    intro l2 hp h1 h2
    cases l2 with
    | nil => exact absurd hp.length_eq (by simp)
    | cons b l2 =>
      obtain ⟨ha, h1'⟩ := List.pairwise_cons.mp h1
      obtain ⟨hb, h2'⟩ := List.pairwise_cons.mp h2
      have hab : a = b := by
        have ha2 : a ∈ b :: l2 := (hp.mem_iff).mp (by simp)
        have hb1 : b ∈ a :: l1 := (hp.mem_iff).mpr (by simp)
        rcases List.mem_cons.mp ha2 with h | h
        · exact h
        · rcases List.mem_cons.mp hb1 with h' | h'
          · exact h'.symm
          · exact hanti _ _ (ha b h') (hb a h)
      subst hab
      rw [ih l2 hp.cons_inv h1' h2']

/-- **Sorting by a total order is canonical**: the result depends only on the multiset of inputs. -/
theorem sortByLe_canonical (htotal : ∀ a b, le a b = true ∨ le b a = true)
    (htrans : ∀ a b c, le a b = true → le b c = true → le a c = true)
    (hanti : ∀ a b, le a b = true → le b a = true → a = b)
    {l1 l2 : List α} (hp : l1.Perm l2) : sortByLe le l1 = sortByLe le l2 :=
  sortedLe_perm_eq hanti _ _ (((sortByLe_perm le l1).trans hp).trans (sortByLe_perm le l2).symm)
    (sortByLe_sorted htotal htrans l1) (sortByLe_sorted htotal htrans l2)

end SortLe

/-! ## `nameLe` is a total order -/

theorem nameLe_total : ∀ a b, nameLe a b = true ∨ nameLe b a = true := by
  intro a
  induction a with
  | nil => intro b; simp [nameLe]
  | cons x a ih =>
    intro b
    cases b with
    | nil => simp [nameLe]
    | cons y b =>
      simp only [nameLe]
      by_cases h1 : x.toNat < y.toNat
      · simp [h1]
      · by_cases h2 : y.toNat < x.toNat
        · simp [h1, h2]
        · have h2' : ¬ x.toNat > y.toNat := h2
          simp only [h1, h2, h2', if_false, gt_iff_lt]
          exact ih b

theorem nameLe_trans : ∀ a b c, nameLe a b = true → nameLe b c = true → nameLe a c = true := by
  intro a
  induction a with
  | nil => intro b c _ _; simp [nameLe]
  | cons x a ih =>
    intro b c h1 h2
    cases b with
    | nil => simp [nameLe] at h1
    | cons y b =>
      cases c with
      | nil => simp [nameLe] at h2
      | cons z c =>
        simp only [nameLe, gt_iff_lt] at h1 h2 ⊢
        split at h1
        · split at h2
          · rw [if_pos (by omega)]
          · split at h2
            · simp at h2
            · rw [if_pos (by omega)]
        · split at h1
          · simp at h1
          · split at h2
            · rw [if_pos (by omega)]
            · split at h2
              · simp at h2
              · rw [if_neg (by omega), if_neg (by omega)]
                exact ih b c h1 h2

theorem nameLe_antisymm : ∀ a b, nameLe a b = true → nameLe b a = true → a = b := by
  intro a
  induction a with
  | nil => intro b _ h2; cases b with
    | nil => rfl
    | cons y b => simp [nameLe] at h2
  | cons x a ih =>
    intro b h1 h2
    cases b with
    | nil => simp [nameLe] at h1
    | cons y b =>
      simp only [nameLe, gt_iff_lt] at h1 h2
      split at h1
      · rw [if_neg (by omega), if_pos (by omega)] at h2; simp at h2
      · split at h1
        · simp at h1
        · rw [if_neg (by omega), if_neg (by omega)] at h2
          have hxy : x = y := Char.toNat_inj.mp (by omega)
          rw [hxy, ih b h1 h2]

end AGV.Topo
