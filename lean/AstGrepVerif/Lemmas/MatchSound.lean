/-
Soundness of the pattern matcher (`Model/Match.lean`) against the alignment specification
(`Spec/Align.lean`): helper lemmas and the simultaneous induction on the fuel.
-/
import AstGrepVerif.Spec.Align

set_option linter.unusedSimpArgs false
set_option linter.unusedVariables false

namespace AGV

open Spec

/-! ## Well-formed patterns: an inner pattern node has children -/

mutual
def PNode.wf : PNode → Bool
  | .metaVar _ => true
  | .terminal _ _ _ => true
  | .internal _ cs => !cs.isEmpty && PNode.wfList cs
def PNode.wfList : List PNode → Bool
  | [] => true
  | p :: ps => p.wf && PNode.wfList ps
end

/-- every `.internal` node of the pattern, recursively, has a non-empty child list -/
def PatternWF (p : PNode) : Prop := p.wf = true

instance (p : PNode) : Decidable (PatternWF p) := inferInstanceAs (Decidable (p.wf = true))

theorem wfList_append (a b : List PNode) :
    PNode.wfList (a ++ b) = (PNode.wfList a && PNode.wfList b) := by
  induction a with
  | nil => simp [PNode.wfList]
  | cons x xs ih => simp [PNode.wfList, ih, Bool.and_assoc]

/-! ## The strictness tables agree with the specification's -/

theorem shouldSkipTrailing_eq (s : Strictness) (c : Tree) :
    s.shouldSkipTrailing c = trailingSkippable s c := by
  cases s <;> rfl

theorem goalSkippable_eq (s : Strictness) (p : PNode) :
    s.goalSkippable p = goalSkippableEnd s p := by
  cases s <;> cases p <;> (try rename_i mv; cases mv) <;> rfl

theorem matchTerminal_spec (s : Strictness) (src : Bytes) (named : Bool) (text : Bytes)
    (kind : Nat) (c : Tree) :
    (s.matchTerminal src named text kind c = .matchedBoth →
      kindsMatch kind c.kind = true ∧ (named = false ∨ text = c.text src ∨ s = .signature)) ∧
    ((s.matchTerminal src named text kind c = .skipGoal ∨
      s.matchTerminal src named text kind c = .skipBoth) →
      goalSkippableMid s (.terminal text named kind) = true) ∧
    ((s.matchTerminal src named text kind c = .skipCandidate ∨
      s.matchTerminal src named text kind c = .skipBoth) →
      candSkippable s c = true) := by
  unfold Strictness.matchTerminal
  simp only []
  split
  · next h =>
    simp only [Bool.and_eq_true, Bool.or_eq_true, Bool.not_eq_true', beq_iff_eq] at h
    refine ⟨fun _ => ⟨h.1, ?_⟩, ?_, ?_⟩
    · rcases h.2 with h | h
      · exact .inl h
      · exact .inr (.inl h)
    · intro h'; rcases h' with h' | h' <;> cases h'
    · intro h'; rcases h' with h' | h' <;> cases h'
  · next h =>
    cases s <;> cases named <;> cases hn : c.named <;> cases hc : c.info.comment <;>
      cases hk : kindsMatch kind c.kind <;>
      simp_all [skipPair, skipCommentOrUnnamed, goalSkippableMid, candSkippable]

/-! ## `skipTrivialGoals` drops a prefix of trivial goals -/

theorem skipTrivialGoals_spec (gs : List PNode) :
    ∃ trivs, gs = trivs ++ (skipTrivialGoals gs).2 ∧ ∀ t ∈ trivs, t.isTrivial = true := by
  induction gs with
  | nil => exact ⟨[], rfl, by simp⟩
  | cons g gs ih =>
    obtain ⟨trivs, h1, h2⟩ := ih
    unfold skipTrivialGoals
    split
    · next hg =>
      refine ⟨g :: trivs, ?_, ?_⟩
      · simp only [List.cons_append]; congr 1
      · intro t ht
        rcases List.mem_cons.1 ht with rfl | ht
        · exact hg
        · exact h2 t ht
    · exact ⟨[], rfl, by simp⟩

/-! ## The invariants, one per function of the mutual block -/

section
variable {σ : Type} (agg : Agg σ) (s : Strictness) (src : Bytes) (ok : MetaVar → Tree → Prop)

def NodeInv (fuel : Nat) : Prop :=
  ∀ p c st r st', matchNode agg s src fuel p c st = .ok (r, st') →
    (r = .matchedBoth → p.wf = true → Aligns s src ok p c) ∧
    ((r = .skipGoal ∨ r = .skipBoth) → goalSkippableMid s p = true) ∧
    ((r = .skipCandidate ∨ r = .skipBoth) → candSkippable s c = true)

def NodesInv (fuel : Nat) : Prop :=
  ∀ goals cands st st', matchNodes agg s src fuel goals cands st = .ok (true, st') →
    goals ≠ [] → PNode.wfList goals = true → AlignsL s src ok goals cands

def LoopInv (fuel : Nat) : Prop :=
  ∀ goals cands st st', matchLoop agg s src fuel goals cands st = .ok (true, st') →
    goals ≠ [] → PNode.wfList goals = true → AlignsL s src ok goals cands

def MayInv (fuel : Nat) : Prop :=
  ∀ goals cands st flow goals' cands' st',
    mayMatchEllipsis agg s src fuel goals cands st = .ok (some flow, goals', cands', st') →
    goals ≠ [] →
    (flow = .ret → AlignsL s src ok goals cands) ∧
    (flow ≠ .ret → goals' ≠ [] ∧ (PNode.wfList goals = true → PNode.wfList goals' = true) ∧
      (AlignsL s src ok goals' cands' → AlignsL s src ok goals cands))

def ScanInv (fuel : Nat) : Prop :=
  ∀ optName skipped goals cands matched st flow goals' cands' st',
    ellipsisScan agg s src fuel optName skipped goals cands matched st
      = .ok (some flow, goals', cands', st') →
    flow = .fall ∧ goals' = goals ∧ ∃ run, cands = run ++ cands'

def SingleInv (fuel : Nat) : Prop :=
  ∀ goals cands st flow goals' cands' st',
    matchSingle agg s src fuel goals cands st = .ok (some flow, goals', cands', st') →
    PNode.wfList goals = true →
    flow = .fall ∧
    ((goals' = [] ∧ (AlignsL s src ok [] cands' → AlignsL s src ok goals cands)) ∨
     (∃ g gt c ct, goals' = g :: gt ∧ cands' = c :: ct ∧ Aligns s src ok g c ∧
        PNode.wfList gt = true ∧ (AlignsL s src ok gt ct → AlignsL s src ok goals cands)))

theorem isEllipsis_of_mode {g : PNode} {n : Option Name} (h : ellipsisMode g = some n) :
    isEllipsis g = true := by
  cases g with
  | metaVar mv => cases mv <;> simp [ellipsisMode] at h <;> rfl
  | terminal _ _ _ => simp [ellipsisMode] at h
  | internal _ _ => simp [ellipsisMode] at h

theorem nodes_step (fuel : Nat) (hL : LoopInv agg s src ok fuel) :
    NodesInv agg s src ok (fuel + 1) := by
  intro goals cands st st' h hne hwf
  simp only [matchNodes] at h
  split at h
  · simp at h
  · exact hL _ _ _ _ h hne hwf

theorem scan_step (fuel : Nat) (hS : ScanInv agg s src fuel) :
    ScanInv agg s src (fuel + 1) := by
  intro optName skipped goals cands matched st flow goals' cands' st' h
  simp only [ellipsisScan] at h
  split at h
  · cases h
  · cases h
  · next g gt c cs =>
    split at h
    · cases h
    · split at h
      · simp only [Except.ok.injEq, Prod.mk.injEq, Option.some.injEq] at h
        obtain ⟨rfl, rfl, rfl, rfl⟩ := h
        exact ⟨rfl, rfl, [], rfl⟩
      · simp at h
    · split at h
      · simp at h
      · next c2 cs2 =>
        obtain ⟨h1, h2, run, h3⟩ := hS _ _ _ _ _ _ _ _ _ _ h
        exact ⟨h1, h2, c :: run, by simp [h3]⟩

theorem may_step (fuel : Nat) (hS : ScanInv agg s src fuel) :
    MayInv agg s src ok (fuel + 1) := by
  intro goals cands st flow goals' cands' st' h hne
  simp only [mayMatchEllipsis] at h
  split at h
  · exact absurd rfl hne
  · next g gs =>
    split at h
    · simp only [Except.ok.injEq, Prod.mk.injEq, Option.some.injEq] at h
      obtain ⟨rfl, rfl, rfl, rfl⟩ := h
      exact ⟨fun h' => (by cases h'), fun _ => ⟨hne, id, id⟩⟩
    · next optName hmode =>
      have hell := isEllipsis_of_mode hmode
      split at h
      · split at h
        · simp only [Except.ok.injEq, Prod.mk.injEq, Option.some.injEq] at h
          obtain ⟨rfl, rfl, rfl, rfl⟩ := h
          refine ⟨fun _ => ?_, fun h' => absurd rfl h'⟩
          have := AlignsL.ellipsis (s := s) (src := src) (ok := ok) g [] [] cands [] hell
            (by simp) (AlignsL.done [] (by simp))
          simpa using this
        · simp at h
      · next g1 gs1 =>
        obtain ⟨trivs, ht1, ht2⟩ := skipTrivialGoals_spec (g1 :: gs1)
        generalize skipTrivialGoals (g1 :: gs1) = r at h ht1
        obtain ⟨skipped, gs'⟩ := r
        simp only at h ht1
        rw [ht1]
        have hwf' : PNode.wfList (g :: (trivs ++ gs')) = true → PNode.wfList gs' = true := by
          intro hw
          simp only [PNode.wfList, wfList_append, Bool.and_eq_true] at hw
          exact hw.2.2
        have hal : ∀ run cs, AlignsL s src ok gs' cs →
            AlignsL s src ok (g :: (trivs ++ gs')) (run ++ cs) :=
          fun run cs h' => AlignsL.ellipsis g trivs gs' run cs hell ht2 h'
        split at h
        · split at h
          · simp only [Except.ok.injEq, Prod.mk.injEq, Option.some.injEq] at h
            obtain ⟨rfl, rfl, rfl, rfl⟩ := h
            refine ⟨fun _ => ?_, fun h' => absurd rfl h'⟩
            have := hal cands [] (AlignsL.done [] (by simp))
            simpa using this
          · simp at h
        · next g2 gt2 =>
          split at h
          · split at h
            · cases h
            · next c cs =>
              split at h
              · simp at h
              · split at h
                · simp only [Except.ok.injEq, Prod.mk.injEq, Option.some.injEq] at h
                  obtain ⟨rfl, rfl, rfl, rfl⟩ := h
                  refine ⟨fun h' => (by cases h'), fun _ => ⟨by simp, hwf', fun h' => ?_⟩⟩
                  exact hal [c] _ h'
                · simp at h
          · obtain ⟨rfl, rfl, run, rfl⟩ := hS _ _ _ _ _ _ _ _ _ _ h
            exact ⟨fun h' => (by cases h'), fun _ => ⟨by simp, hwf', fun h' => hal run _ h'⟩⟩


theorem single_step (fuel : Nat) (hN : NodeInv agg s src ok fuel)
    (hS : SingleInv agg s src ok fuel) : SingleInv agg s src ok (fuel + 1) := by
  intro goals cands st flow goals' cands' st' h hwf
  simp only [matchSingle] at h
  split at h
  · split at h
    · next hsk =>
      simp only [Except.ok.injEq, Prod.mk.injEq, Option.some.injEq] at h
      obtain ⟨rfl, rfl, rfl, rfl⟩ := h
      refine ⟨rfl, .inl ⟨rfl, fun _ => AlignsL.goalsLeft goals ?_⟩⟩
      intro p hp
      simp only [Strictness.shouldSkipGoal, List.all_eq_true] at hsk
      rw [← goalSkippable_eq]; exact hsk p hp
    · simp at h
  · next c cs =>
    split at h
    · cases h
    · next g gs =>
      have hwf' : g.wf = true ∧ PNode.wfList gs = true := by
        simpa [PNode.wfList] using hwf
      -- the recursive calls: transport the post-condition along one skip step
      have hrec : ∀ goals1 cands1 st1,
          matchSingle agg s src fuel goals1 cands1 st1 = .ok (some flow, goals', cands', st') →
          PNode.wfList goals1 = true →
          (AlignsL s src ok goals1 cands1 → AlignsL s src ok (g :: gs) (c :: cs)) →
          flow = .fall ∧
          ((goals' = [] ∧ (AlignsL s src ok [] cands' → AlignsL s src ok (g :: gs) (c :: cs))) ∨
           (∃ g' gt c' ct, goals' = g' :: gt ∧ cands' = c' :: ct ∧ Aligns s src ok g' c' ∧
              PNode.wfList gt = true ∧
              (AlignsL s src ok gt ct → AlignsL s src ok (g :: gs) (c :: cs)))) := by
        intro goals1 cands1 st1 h1 hw1 hstep
        obtain ⟨hf, hr⟩ := hS _ _ _ _ _ _ _ h1 hw1
        refine ⟨hf, ?_⟩
        rcases hr with ⟨e1, e2⟩ | ⟨g', gt, c', ct, e1, e2, e3, e4, e5⟩
        · exact .inl ⟨e1, fun h' => hstep (e2 h')⟩
        · exact .inr ⟨g', gt, c', ct, e1, e2, e3, e4, fun h' => hstep (e5 h')⟩
      split at h
      · cases h
      · next st1 hm =>
        simp only [Except.ok.injEq, Prod.mk.injEq, Option.some.injEq] at h
        obtain ⟨rfl, rfl, rfl, rfl⟩ := h
        have ha := (hN _ _ _ _ _ hm).1 rfl hwf'.1
        exact ⟨rfl, .inr ⟨g, gs, c, cs, rfl, rfl, ha, hwf'.2, fun h' => AlignsL.both _ _ _ _ ha h'⟩⟩
      · next st1 hm =>
        have hg := (hN _ _ _ _ _ hm).2.1 (.inl rfl)
        split at h
        · simp only [Except.ok.injEq, Prod.mk.injEq, Option.some.injEq] at h
          obtain ⟨rfl, rfl, rfl, rfl⟩ := h
          exact ⟨rfl, .inl ⟨rfl, fun h' => AlignsL.skipGoal _ _ _ hg h'⟩⟩
        · exact hrec _ _ _ h hwf'.2 (fun h' => AlignsL.skipGoal _ _ _ hg h')
      · next st1 hm =>
        have hg := (hN _ _ _ _ _ hm).2.1 (.inr rfl)
        have hc := (hN _ _ _ _ _ hm).2.2 (.inr rfl)
        split at h
        · simp only [Except.ok.injEq, Prod.mk.injEq, Option.some.injEq] at h
          obtain ⟨rfl, rfl, rfl, rfl⟩ := h
          exact ⟨rfl, .inl ⟨rfl, fun h' =>
            AlignsL.skipGoal _ _ _ hg (AlignsL.skipCand _ _ _ hc h')⟩⟩
        · exact hrec _ _ _ h hwf'.2 (fun h' =>
            AlignsL.skipGoal _ _ _ hg (AlignsL.skipCand _ _ _ hc h'))
      · next st1 hm =>
        have hc := (hN _ _ _ _ _ hm).2.2 (.inl rfl)
        exact hrec _ _ _ h hwf (fun h' => AlignsL.skipCand _ _ _ hc h')
      · simp at h

theorem loop_step (fuel : Nat) (hM : MayInv agg s src ok fuel)
    (hS : SingleInv agg s src ok fuel) (hL : LoopInv agg s src ok fuel) :
    LoopInv agg s src ok (fuel + 1) := by
  intro goals cands st st' h hne hwf
  simp only [matchLoop] at h
  split at h
  · cases h
  · simp at h
  · next hm => exact (hM _ _ _ _ _ _ _ hm hne).1 rfl
  · next goals1 cands1 st1 hm =>
    obtain ⟨h1, h2, h3⟩ := (hM _ _ _ _ _ _ _ hm hne).2 (by simp)
    exact h3 (hL _ _ _ _ h h1 (h2 hwf))
  · next goals1 cands1 st1 hm =>
    obtain ⟨h1, h2, h3⟩ := (hM _ _ _ _ _ _ _ hm hne).2 (by simp)
    apply h3
    split at h
    · cases h
    · simp at h
    · next hs => have := (hS _ _ _ _ _ _ _ hs (h2 hwf)).1; cases this
    · next hs => have := (hS _ _ _ _ _ _ _ hs (h2 hwf)).1; cases this
    · next goals2 cands2 st2 hs =>
      obtain ⟨_, hr⟩ := hS _ _ _ _ _ _ _ hs (h2 hwf)
      rcases hr with ⟨rfl, hr⟩ | ⟨g, gt, c, ct, rfl, rfl, ha, hw, hr⟩
      · simp only at h
        simp only [Except.ok.injEq, Prod.mk.injEq, List.all_eq_true] at h
        exact hr (AlignsL.done _ (fun c hc => by rw [← shouldSkipTrailing_eq]; exact h.1 c hc))
      · simp only [List.tail] at h
        apply hr
        split at h
        · simp only [Except.ok.injEq, Prod.mk.injEq, List.all_eq_true] at h
          exact AlignsL.done _ (fun c hc => by rw [← shouldSkipTrailing_eq]; exact h.1 c hc)
        · split at h
          · simp at h
          · exact hL _ _ _ _ h (by simp) hw

variable (hagg : ∀ st mv c st', agg.metaVar st mv c = some st' → ok mv c)
include hagg

theorem node_step (fuel : Nat) (hN : NodesInv agg s src ok fuel) :
    NodeInv agg s src ok (fuel + 1) := by
  intro p c st r st' h
  cases p with
  | terminal text named kind =>
    simp only [matchNode] at h
    have hs := matchTerminal_spec s src named text kind c
    split at h
    · next hm =>
      split at h
      · simp only [Except.ok.injEq, Prod.mk.injEq] at h
        obtain ⟨rfl, rfl⟩ := h
        refine ⟨fun _ _ => ?_, fun h' => ?_, fun h' => ?_⟩
        · obtain ⟨h1, h2⟩ := hs.1 hm
          exact Aligns.terminal text named kind c h1 h2
        · rcases h' with h' | h' <;> cases h'
        · rcases h' with h' | h' <;> cases h'
      · simp only [Except.ok.injEq, Prod.mk.injEq] at h
        obtain ⟨rfl, rfl⟩ := h
        refine ⟨fun h' => (by cases h'), fun h' => ?_, fun h' => ?_⟩
        · rcases h' with h' | h' <;> cases h'
        · rcases h' with h' | h' <;> cases h'
    · next hm =>
      simp only [Except.ok.injEq, Prod.mk.injEq] at h
      obtain ⟨rfl, rfl⟩ := h
      refine ⟨fun h' => absurd h' (hm), hs.2.1, hs.2.2⟩
  | metaVar mv =>
    simp only [matchNode] at h
    split at h
    · next hm =>
      simp only [Except.ok.injEq, Prod.mk.injEq] at h
      obtain ⟨rfl, rfl⟩ := h
      refine ⟨fun _ _ => Aligns.hole mv c (hagg _ _ _ _ hm), fun h' => ?_, fun h' => ?_⟩
      · rcases h' with h' | h' <;> cases h'
      · rcases h' with h' | h' <;> cases h'
    · simp only [Except.ok.injEq, Prod.mk.injEq] at h
      obtain ⟨rfl, rfl⟩ := h
      refine ⟨fun h' => (by cases h'), fun h' => ?_, fun h' => ?_⟩
      · rcases h' with h' | h' <;> cases h'
      · rcases h' with h' | h' <;> cases h'
  | internal kind children =>
    simp only [matchNode] at h
    split at h
    · next hk =>
      split at h
      · cases h
      · next st1 hm =>
        simp only [Except.ok.injEq, Prod.mk.injEq] at h
        obtain ⟨rfl, rfl⟩ := h
        refine ⟨fun _ hwf => ?_, fun h' => ?_, fun h' => ?_⟩
        · simp only [PNode.wf, Bool.and_eq_true, Bool.not_eq_true', List.isEmpty_eq_false_iff] at hwf
          have hne : c.children ≠ [] := by
            intro hc
            rw [hc] at hm
            cases fuel <;> simp [matchNodes] at hm
          exact Aligns.internal kind children c hk hne (hN _ _ _ _ hm hwf.1 hwf.2)
        · rcases h' with h' | h' <;> cases h'
        · rcases h' with h' | h' <;> cases h'
      · simp only [Except.ok.injEq, Prod.mk.injEq] at h
        obtain ⟨rfl, rfl⟩ := h
        refine ⟨fun h' => (by cases h'), fun h' => ?_, fun h' => ?_⟩
        · rcases h' with h' | h' <;> cases h'
        · rcases h' with h' | h' <;> cases h'
    · simp only [Except.ok.injEq, Prod.mk.injEq] at h
      obtain ⟨rfl, rfl⟩ := h
      refine ⟨fun h' => (by cases h'), fun h' => ?_, fun h' => ?_⟩
      · rcases h' with h' | h' <;> cases h'
      · rcases h' with h' | h' <;> cases h'

/-- all six invariants, by induction on the fuel -/
theorem all_inv (fuel : Nat) :
    NodeInv agg s src ok fuel ∧ NodesInv agg s src ok fuel ∧ LoopInv agg s src ok fuel ∧
    MayInv agg s src ok fuel ∧ ScanInv agg s src fuel ∧ SingleInv agg s src ok fuel := by
  induction fuel with
  | zero =>
    refine ⟨?_, ?_, ?_, ?_, ?_, ?_⟩
    · intro p c st r st' h; simp [matchNode] at h
    · intro goals cands st st' h; simp [matchNodes] at h
    · intro goals cands st st' h; simp [matchLoop] at h
    · intro goals cands st flow goals' cands' st' h; simp [mayMatchEllipsis] at h
    · intro optName skipped goals cands matched st flow goals' cands' st' h
      simp [ellipsisScan] at h
    · intro goals cands st flow goals' cands' st' h; simp [matchSingle] at h
  | succ fuel ih =>
    obtain ⟨hN, hNs, hL, hM, hSc, hSi⟩ := ih
    exact ⟨node_step agg s src ok hagg fuel hNs, nodes_step agg s src ok fuel hL,
      loop_step agg s src ok fuel hM hSi hL, may_step agg s src ok fuel hSc,
      scan_step agg s src fuel hSc, single_step agg s src ok fuel hN hSi⟩

/-- soundness of `matchNode`, generic in the aggregator -/
theorem matchNode_sound (fuel : Nat) (p : PNode) (hwf : PatternWF p) (c : Tree) (st st' : σ)
    (h : matchNode agg s src fuel p c st = .ok (.matchedBoth, st')) : Aligns s src ok p c :=
  ((all_inv agg s src ok hagg fuel).1 p c st _ st' h).1 rfl hwf

end

/-! ## The `hagg` hypothesis holds for the two real aggregators -/

theorem envAgg_metaVar_ok (src : Bytes) (st : Env) (mv : MetaVar) (c : Tree) (st' : Env)
    (h : (envAgg src).metaVar st mv c = some st') : holeNamedOK mv c := by
  cases mv with
  | capture name named =>
    simp only [envAgg, matchLeafMetaVar] at h
    split at h
    · cases h
    · next hn =>
      intro hnamed; subst hnamed
      simpa using hn
  | dropped named =>
    simp only [envAgg, matchLeafMetaVar] at h
    split at h
    · cases h
    · next hn =>
      intro hnamed; subst hnamed
      simpa using hn
  | multiple => trivial
  | multiCapture name => trivial

/-! ## Ellipsis runs are contiguous: a logging wrapper around any aggregator -/

abbrev Log := List (List Tree)

/-- `agg`, and next to it the list of the node lists handed to a successful `ellipsis` call -/
def logged {σ : Type} (agg : Agg σ) : Agg (σ × Log) where
  terminal st t := (agg.terminal st.1 t).map fun x => (x, st.2)
  metaVar st mv t := (agg.metaVar st.1 mv t).map fun x => (x, st.2)
  ellipsis st n nodes k := (agg.ellipsis st.1 n nodes k).map fun x => (x, st.2 ++ [nodes])

/-- `l` is a contiguous run of siblings of the forest `cands`: of `cands` itself or of the
children of a node below -/
inductive InSiblings : List Tree → List Tree → Prop
  | here {cands l : List Tree} : l <:+: cands → InSiblings cands l
  | under {cands : List Tree} {c : Tree} {l : List Tree} :
      c ∈ cands → InSiblings c.children l → InSiblings cands l

theorem InSiblings.of_infix {cs cands l : List Tree} (hi : cs <:+: cands)
    (h : InSiblings cs l) : InSiblings cands l := by
  cases h with
  | here h => exact .here (h.trans hi)
  | under hc h => exact .under (hi.subset hc) h

theorem Tree.preorder_eq (t : Tree) : t.preorder = t :: Tree.preorderList t.children := by
  cases t; simp [Tree.preorder, Tree.children]

theorem Tree.mem_preorderList {c : Tree} {cs : List Tree} (hc : c ∈ cs) :
    ∀ t ∈ c.preorder, t ∈ Tree.preorderList cs := by
  induction cs with
  | nil => cases hc
  | cons x xs ih =>
    intro t ht
    simp only [Tree.preorderList, List.mem_append]
    rcases List.mem_cons.1 hc with rfl | hc
    · exact .inl ht
    · exact .inr (ih hc t ht)

/-- readable form: a run of siblings is an infix of the top list or of the children list of
one node of the forest -/
theorem InSiblings.spec {cands l : List Tree} (h : InSiblings cands l) :
    l <:+: cands ∨ ∃ t ∈ Tree.preorderList cands, l <:+: t.children := by
  induction h with
  | here h => exact .inl h
  | @under cands c l hc _ ih =>
    refine .inr ?_
    rcases ih with ih | ⟨t, ht, hl⟩
    · exact ⟨c, Tree.mem_preorderList hc c (by rw [Tree.preorder_eq]; simp), ih⟩
    · exact ⟨t, Tree.mem_preorderList hc t (by rw [Tree.preorder_eq]; simp [ht]), hl⟩

def Grows (P : List Tree → Prop) (lg lg' : Log) : Prop :=
  ∃ new, lg' = lg ++ new ∧ ∀ l ∈ new, P l

theorem Grows.refl {P : List Tree → Prop} {lg : Log} : Grows P lg lg := ⟨[], by simp, by simp⟩

theorem Grows.of_eq {P : List Tree → Prop} {lg lg' : Log} (h : lg' = lg) : Grows P lg lg' :=
  h ▸ Grows.refl

theorem Grows.trans {P : List Tree → Prop} {a b c : Log} (h1 : Grows P a b) (h2 : Grows P b c) :
    Grows P a c := by
  obtain ⟨n1, rfl, p1⟩ := h1
  obtain ⟨n2, rfl, p2⟩ := h2
  refine ⟨n1 ++ n2, by simp, ?_⟩
  intro l hl
  rcases List.mem_append.1 hl with hl | hl
  · exact p1 l hl
  · exact p2 l hl

theorem Grows.mono {P Q : List Tree → Prop} {a b : Log} (h : ∀ l, P l → Q l) (h1 : Grows P a b) :
    Grows Q a b := by
  obtain ⟨n1, e, p1⟩ := h1
  exact ⟨n1, e, fun l hl => h l (p1 l hl)⟩

theorem Grows.push {P : List Tree → Prop} {lg lg' : Log} {l : List Tree} (h : P l)
    (e : lg' = lg ++ [l]) : Grows P lg lg' :=
  ⟨[l], e, by simpa using h⟩

section
variable {σ : Type} (agg : Agg σ) (s : Strictness) (src : Bytes)

theorem logged_terminal {st st' : σ × Log} {t : Tree}
    (h : (logged agg).terminal st t = some st') : st'.2 = st.2 := by
  simp only [logged, Option.map_eq_some_iff] at h
  obtain ⟨x, _, rfl⟩ := h; rfl

theorem logged_metaVar {st st' : σ × Log} {mv : MetaVar} {t : Tree}
    (h : (logged agg).metaVar st mv t = some st') : st'.2 = st.2 := by
  simp only [logged, Option.map_eq_some_iff] at h
  obtain ⟨x, _, rfl⟩ := h; rfl

theorem logged_ellipsis {st st' : σ × Log} {n : Option Name} {m r : List Tree} {k : Nat}
    (h : matchEllipsis (logged agg) st n m r k = some st') : st'.2 = st.2 ++ [m ++ r] := by
  simp only [matchEllipsis, logged, Option.map_eq_some_iff] at h
  obtain ⟨x, _, rfl⟩ := h; rfl

def NodeLog (fuel : Nat) : Prop :=
  ∀ p c st r, matchNode (logged agg) s src fuel p c st = .ok r →
    Grows (InSiblings c.children) st.2 r.2.2

def NodesLog (fuel : Nat) : Prop :=
  ∀ goals cands st r, matchNodes (logged agg) s src fuel goals cands st = .ok r →
    Grows (InSiblings cands) st.2 r.2.2

def LoopLog (fuel : Nat) : Prop :=
  ∀ goals cands st r, matchLoop (logged agg) s src fuel goals cands st = .ok r →
    Grows (InSiblings cands) st.2 r.2.2

def MayLog (fuel : Nat) : Prop :=
  ∀ goals cands st r, mayMatchEllipsis (logged agg) s src fuel goals cands st = .ok r →
    Grows (InSiblings cands) st.2 r.2.2.2.2 ∧ r.2.2.1 <:+ cands

def ScanLog (fuel : Nat) : Prop :=
  ∀ optName skipped goals cands matched st r,
    ellipsisScan (logged agg) s src fuel optName skipped goals cands matched st = .ok r →
    Grows (InSiblings (matched ++ cands)) st.2 r.2.2.2.2 ∧ r.2.2.1 <:+ cands

def SingleLog (fuel : Nat) : Prop :=
  ∀ goals cands st r, matchSingle (logged agg) s src fuel goals cands st = .ok r →
    Grows (InSiblings cands) st.2 r.2.2.2.2 ∧ r.2.2.1 <:+ cands

theorem node_log_step (fuel : Nat) (hN : NodesLog agg s src fuel) :
    NodeLog agg s src (fuel + 1) := by
  intro p c st r h
  cases p with
  | terminal text named kind =>
    simp only [matchNode] at h
    split at h
    · split at h
      · next st' hs =>
        simp only [Except.ok.injEq] at h; subst h
        exact Grows.of_eq (logged_terminal agg hs)
      · simp only [Except.ok.injEq] at h; subst h; exact Grows.refl
    · simp only [Except.ok.injEq] at h; subst h; exact Grows.refl
  | metaVar mv =>
    simp only [matchNode] at h
    split at h
    · next st' hs =>
      simp only [Except.ok.injEq] at h; subst h
      exact Grows.of_eq (logged_metaVar agg hs)
    · simp only [Except.ok.injEq] at h; subst h; exact Grows.refl
  | internal kind children =>
    simp only [matchNode] at h
    split at h
    · split at h
      · cases h
      · next st1 hm =>
        simp only [Except.ok.injEq] at h; subst h
        exact hN _ _ _ _ hm
      · next st1 hm =>
        simp only [Except.ok.injEq] at h; subst h
        exact hN _ _ _ _ hm
    · simp only [Except.ok.injEq] at h; subst h; exact Grows.refl

theorem nodes_log_step (fuel : Nat) (hL : LoopLog agg s src fuel) :
    NodesLog agg s src (fuel + 1) := by
  intro goals cands st r h
  simp only [matchNodes] at h
  split at h
  · simp only [Except.ok.injEq] at h; subst h; exact Grows.refl
  · exact hL _ _ _ _ h

theorem scan_log_step (fuel : Nat) (hN : NodeLog agg s src fuel) (hS : ScanLog agg s src fuel) :
    ScanLog agg s src (fuel + 1) := by
  intro optName skipped goals cands matched st r h
  simp only [ellipsisScan] at h
  split at h
  · cases h
  · cases h
  · next g gt c cs =>
    -- the trial `matchNode` runs on a copy of the aggregator: its log entries are dropped
    split at h
    · cases h
    · split at h
      · next st2 he =>
        simp only [Except.ok.injEq] at h; subst h
        refine ⟨Grows.push ?_ (logged_ellipsis agg he), List.suffix_refl _⟩
        exact .here (by simp only [List.append_nil]; exact (List.prefix_append _ _).isInfix)
      · simp only [Except.ok.injEq] at h; subst h
        exact ⟨Grows.refl, List.suffix_refl _⟩
    · split at h
      · simp only [Except.ok.injEq] at h; subst h
        exact ⟨Grows.refl, List.suffix_cons _ _⟩
      · next c2 cs2 =>
        obtain ⟨g2, s2⟩ := hS _ _ _ _ _ _ _ h
        refine ⟨?_, s2.trans (List.suffix_cons _ _)⟩
        simpa using g2

theorem may_log_step (fuel : Nat) (hS : ScanLog agg s src fuel) :
    MayLog agg s src (fuel + 1) := by
  intro goals cands st r h
  simp only [mayMatchEllipsis] at h
  split at h
  · simp only [Except.ok.injEq] at h; subst h; exact ⟨Grows.refl, List.suffix_refl _⟩
  · next g gs =>
    split at h
    · simp only [Except.ok.injEq] at h; subst h; exact ⟨Grows.refl, List.suffix_refl _⟩
    · next optName hmode =>
      split at h
      · split at h
        · next st' he =>
          simp only [Except.ok.injEq] at h; subst h
          exact ⟨Grows.push (.here (by simp)) (logged_ellipsis agg he), List.nil_suffix⟩
        · simp only [Except.ok.injEq] at h; subst h; exact ⟨Grows.refl, List.nil_suffix⟩
      · next g1 gs1 =>
        generalize skipTrivialGoals (g1 :: gs1) = sk at h
        obtain ⟨skipped, gs'⟩ := sk
        simp only at h
        split at h
        · split at h
          · next st' he =>
            simp only [Except.ok.injEq] at h; subst h
            exact ⟨Grows.push (.here (by simp)) (logged_ellipsis agg he), List.nil_suffix⟩
          · simp only [Except.ok.injEq] at h; subst h; exact ⟨Grows.refl, List.nil_suffix⟩
        · next g2 gt2 =>
          split at h
          · split at h
            · cases h
            · next c cs =>
              split at h
              · simp only [Except.ok.injEq] at h; subst h
                exact ⟨Grows.refl, List.suffix_cons _ _⟩
              · split at h
                · next st' he =>
                  simp only [Except.ok.injEq] at h; subst h
                  refine ⟨Grows.push (.here ?_) (logged_ellipsis agg he), List.suffix_cons _ _⟩
                  exact (List.prefix_append [c] _).isInfix
                · simp only [Except.ok.injEq] at h; subst h
                  exact ⟨Grows.refl, List.suffix_cons _ _⟩
          · have := hS _ _ _ _ _ _ _ h
            simpa using this

/-- Since the trial comparison inside `ellipsisScan` runs on a copy of the aggregator, one
`ellipsisScan` call logs only its own `ellipsis` call: an infix of `matched ++ cands`. -/
theorem scan_log_direct (fuel : Nat) :
    ∀ optName skipped goals cands matched st r,
      ellipsisScan (logged agg) s src fuel optName skipped goals cands matched st = .ok r →
      Grows (· <:+: matched ++ cands) st.2 r.2.2.2.2 := by
  induction fuel with
  | zero => intro optName skipped goals cands matched st r h; simp [ellipsisScan] at h
  | succ fuel ih =>
    intro optName skipped goals cands matched st r h
    simp only [ellipsisScan] at h
    split at h
    · cases h
    · cases h
    · next g gt c cs =>
      split at h
      · cases h
      · split at h
        · next st2 he =>
          simp only [Except.ok.injEq] at h; subst h
          refine Grows.push ?_ (logged_ellipsis agg he)
          simp only [List.append_nil]; exact (List.prefix_append _ _).isInfix
        · simp only [Except.ok.injEq] at h; subst h; exact Grows.refl
      · split at h
        · simp only [Except.ok.injEq] at h; subst h; exact Grows.refl
        · have := ih _ _ _ _ _ _ _ h
          simpa using this

/-- … and one `mayMatchEllipsis` call logs only infixes of its own candidate list -/
theorem may_log_direct (fuel : Nat) :
    ∀ goals cands st r, mayMatchEllipsis (logged agg) s src fuel goals cands st = .ok r →
      Grows (· <:+: cands) st.2 r.2.2.2.2 := by
  intro goals cands st r h
  cases fuel with
  | zero => simp [mayMatchEllipsis] at h
  | succ fuel =>
    simp only [mayMatchEllipsis] at h
    split at h
    · simp only [Except.ok.injEq] at h; subst h; exact Grows.refl
    · next g gs =>
      split at h
      · simp only [Except.ok.injEq] at h; subst h; exact Grows.refl
      · next optName hmode =>
        split at h
        · split at h
          · next st' he =>
            simp only [Except.ok.injEq] at h; subst h
            exact Grows.push (by simp) (logged_ellipsis agg he)
          · simp only [Except.ok.injEq] at h; subst h; exact Grows.refl
        · next g1 gs1 =>
          generalize skipTrivialGoals (g1 :: gs1) = sk at h
          obtain ⟨skipped, gs'⟩ := sk
          simp only at h
          split at h
          · split at h
            · next st' he =>
              simp only [Except.ok.injEq] at h; subst h
              exact Grows.push (by simp) (logged_ellipsis agg he)
            · simp only [Except.ok.injEq] at h; subst h; exact Grows.refl
          · next g2 gt2 =>
            split at h
            · split at h
              · cases h
              · next c cs =>
                split at h
                · simp only [Except.ok.injEq] at h; subst h; exact Grows.refl
                · split at h
                  · next st' he =>
                    simp only [Except.ok.injEq] at h; subst h
                    exact Grows.push (List.prefix_append [c] _).isInfix (logged_ellipsis agg he)
                  · simp only [Except.ok.injEq] at h; subst h; exact Grows.refl
            · have := scan_log_direct agg s src fuel _ _ _ _ _ _ _ h
              simpa using this

theorem single_log_step (fuel : Nat) (hN : NodeLog agg s src fuel)
    (hS : SingleLog agg s src fuel) : SingleLog agg s src (fuel + 1) := by
  intro goals cands st r h
  simp only [matchSingle] at h
  split at h
  · split at h
    · simp only [Except.ok.injEq] at h; subst h; exact ⟨Grows.refl, List.suffix_refl _⟩
    · simp only [Except.ok.injEq] at h; subst h; exact ⟨Grows.refl, List.suffix_refl _⟩
  · next c cs =>
    have hin : ∀ l, InSiblings c.children l → InSiblings (c :: cs) l :=
      fun l hl => .under (by simp) hl
    have hcs : ∀ l, InSiblings cs l → InSiblings (c :: cs) l :=
      fun l hl => hl.of_infix (List.suffix_cons _ _).isInfix
    split at h
    · cases h
    · next g gs =>
      split at h
      · cases h
      · next st1 hm =>
        simp only [Except.ok.injEq] at h; subst h
        exact ⟨(hN _ _ _ _ hm).mono hin, List.suffix_refl _⟩
      · next st1 hm =>
        have g1 := (hN _ _ _ _ hm).mono hin
        split at h
        · simp only [Except.ok.injEq] at h; subst h
          exact ⟨g1, List.suffix_refl _⟩
        · obtain ⟨g2, s2⟩ := hS _ _ _ _ h
          exact ⟨g1.trans g2, s2⟩
      · next st1 hm =>
        have g1 := (hN _ _ _ _ hm).mono hin
        split at h
        · simp only [Except.ok.injEq] at h; subst h
          exact ⟨g1, List.suffix_cons _ _⟩
        · obtain ⟨g2, s2⟩ := hS _ _ _ _ h
          exact ⟨g1.trans (g2.mono hcs), s2.trans (List.suffix_cons _ _)⟩
      · next st1 hm =>
        have g1 := (hN _ _ _ _ hm).mono hin
        obtain ⟨g2, s2⟩ := hS _ _ _ _ h
        exact ⟨g1.trans (g2.mono hcs), s2.trans (List.suffix_cons _ _)⟩
      · next st1 hm =>
        simp only [Except.ok.injEq] at h; subst h
        exact ⟨(hN _ _ _ _ hm).mono hin, List.suffix_refl _⟩

theorem loop_log_step (fuel : Nat) (hM : MayLog agg s src fuel)
    (hS : SingleLog agg s src fuel) (hL : LoopLog agg s src fuel) :
    LoopLog agg s src (fuel + 1) := by
  intro goals cands st r h
  simp only [matchLoop] at h
  split at h
  · cases h
  · next hm => simp only [Except.ok.injEq] at h; subst h; exact (hM _ _ _ _ hm).1
  · next hm => simp only [Except.ok.injEq] at h; subst h; exact (hM _ _ _ _ hm).1
  · next goals1 cands1 st1 hm =>
    obtain ⟨g1, s1⟩ := hM _ _ _ _ hm
    exact g1.trans ((hL _ _ _ _ h).mono fun l hl => hl.of_infix s1.isInfix)
  · next goals1 cands1 st1 hm =>
    obtain ⟨g1, s1⟩ := hM _ _ _ _ hm
    simp only at s1
    split at h
    · cases h
    · next hs =>
      simp only [Except.ok.injEq] at h; subst h
      exact g1.trans (((hS _ _ _ _ hs).1).mono fun l hl => hl.of_infix s1.isInfix)
    · next hs =>
      simp only [Except.ok.injEq] at h; subst h
      exact g1.trans (((hS _ _ _ _ hs).1).mono fun l hl => hl.of_infix s1.isInfix)
    · next goals2 cands2 st2 hs =>
      obtain ⟨g2, s2⟩ := hS _ _ _ _ hs
      simp only at s2
      exact (g1.trans (g2.mono fun l hl => hl.of_infix s1.isInfix)).trans
        ((hL _ _ _ _ h).mono fun l hl => hl.of_infix (s2.trans s1).isInfix)
    · next goals2 cands2 st2 hs =>
      obtain ⟨g2, s2⟩ := hS _ _ _ _ hs
      simp only at s2 g2
      have g12 := g1.trans (g2.mono fun l hl => hl.of_infix s1.isInfix)
      cases goals2 with
      | nil =>
        simp only [Except.ok.injEq] at h; subst h; exact g12
      | cons g0 gs0 =>
        simp only at h
        split at h
        · simp only [Except.ok.injEq] at h; subst h; exact g12
        · split at h
          · simp only [Except.ok.injEq] at h; subst h; exact g12
          · exact g12.trans ((hL _ _ _ _ h).mono fun l hl =>
              hl.of_infix (((List.tail_suffix _).trans s2).trans s1).isInfix)

theorem all_log (fuel : Nat) :
    NodeLog agg s src fuel ∧ NodesLog agg s src fuel ∧ LoopLog agg s src fuel ∧
    MayLog agg s src fuel ∧ ScanLog agg s src fuel ∧ SingleLog agg s src fuel := by
  induction fuel with
  | zero =>
    refine ⟨?_, ?_, ?_, ?_, ?_, ?_⟩
    · intro p c st r h; simp [matchNode] at h
    · intro goals cands st r h; simp [matchNodes] at h
    · intro goals cands st r h; simp [matchLoop] at h
    · intro goals cands st r h; simp [mayMatchEllipsis] at h
    · intro optName skipped goals cands matched st r h; simp [ellipsisScan] at h
    · intro goals cands st r h; simp [matchSingle] at h
  | succ fuel ih =>
    obtain ⟨hN, hNs, hL, hM, hSc, hSi⟩ := ih
    exact ⟨node_log_step agg s src fuel hNs, nodes_log_step agg s src fuel hL,
      loop_log_step agg s src fuel hM hSi hL, may_log_step agg s src fuel hSc,
      scan_log_step agg s src fuel hN hSc, single_log_step agg s src fuel hN hSi⟩

end

/-! ## The logging wrapper is transparent: dropping the log gives the run of `agg` -/
section
variable {σ : Type} (agg : Agg σ) (s : Strictness) (src : Bytes)

def dropLog1 {α : Type} (r : α × σ × Log) : α × σ := (r.1, r.2.1)
def dropLog3 {α β γ : Type} (r : α × β × γ × σ × Log) : α × β × γ × σ :=
  (r.1, r.2.1, r.2.2.1, r.2.2.2.1)

def NodeSim (fuel : Nat) : Prop :=
  ∀ p c st, (matchNode (logged agg) s src fuel p c st).map dropLog1 = matchNode agg s src fuel p c st.1
def NodesSim (fuel : Nat) : Prop :=
  ∀ goals cands st, (matchNodes (logged agg) s src fuel goals cands st).map dropLog1
    = matchNodes agg s src fuel goals cands st.1

theorem node_sim_step (fuel : Nat) (hN : NodesSim agg s src fuel) : NodeSim agg s src (fuel + 1) := by
  intro p c st
  cases p with
  | terminal text named kind =>
    simp only [matchNode]
    split
    · simp only [logged]
      cases agg.terminal st.1 c <;> rfl
    · rfl
  | metaVar mv =>
    simp only [matchNode, logged]
    cases agg.metaVar st.1 mv c <;> rfl
  | internal kind children =>
    simp only [matchNode]
    split
    · rw [← hN]
      rcases matchNodes (logged agg) s src fuel children c.children st with e | ⟨b, st'⟩
      · rfl
      · cases b <;> rfl
    · rfl

def LoopSim (fuel : Nat) : Prop :=
  ∀ goals cands st, (matchLoop (logged agg) s src fuel goals cands st).map dropLog1
    = matchLoop agg s src fuel goals cands st.1
def MaySim (fuel : Nat) : Prop :=
  ∀ goals cands st, (mayMatchEllipsis (logged agg) s src fuel goals cands st).map dropLog3
    = mayMatchEllipsis agg s src fuel goals cands st.1
def ScanSim (fuel : Nat) : Prop :=
  ∀ optName skipped goals cands matched st,
    (ellipsisScan (logged agg) s src fuel optName skipped goals cands matched st).map dropLog3
    = ellipsisScan agg s src fuel optName skipped goals cands matched st.1
def SingleSim (fuel : Nat) : Prop :=
  ∀ goals cands st, (matchSingle (logged agg) s src fuel goals cands st).map dropLog3
    = matchSingle agg s src fuel goals cands st.1

theorem nodes_sim_step (fuel : Nat) (hL : LoopSim agg s src fuel) :
    NodesSim agg s src (fuel + 1) := by
  intro goals cands st
  simp only [matchNodes]
  split
  · rfl
  · exact hL _ _ _

theorem matchEllipsis_logged (st : σ × Log) (n : Option Name) (m r : List Tree) (k : Nat) :
    matchEllipsis (logged agg) st n m r k
      = (matchEllipsis agg st.1 n m r k).map fun x => (x, st.2 ++ [m ++ r]) := rfl

theorem scan_sim_step (fuel : Nat) (hN : NodeSim agg s src fuel) (hS : ScanSim agg s src fuel) :
    ScanSim agg s src (fuel + 1) := by
  intro optName skipped goals cands matched st
  simp only [ellipsisScan]
  split
  · rfl
  · rfl
  · next g gt c cs =>
    rw [← hN]
    rcases matchNode (logged agg) s src fuel g c st with e | ⟨r, st1⟩
    · rfl
    · cases r
      · simp only [Except.map, dropLog1, matchEllipsis_logged]
        cases matchEllipsis agg st.1 optName matched [] skipped <;> rfl
      all_goals
        simp only [Except.map, dropLog1]
        cases cs with
        | nil => rfl
        | cons c2 cs2 => exact hS _ _ _ _ _ _

theorem may_sim_step (fuel : Nat) (hS : ScanSim agg s src fuel) :
    MaySim agg s src (fuel + 1) := by
  intro goals cands st
  simp only [mayMatchEllipsis]
  split
  · rfl
  · next g gs =>
    split
    · rfl
    · next optName hmode =>
      split
      · simp only [matchEllipsis_logged]
        cases matchEllipsis agg st.1 optName [] cands 0 <;> rfl
      · next g1 gs1 =>
        generalize skipTrivialGoals (g1 :: gs1) = sk
        obtain ⟨skipped, gs'⟩ := sk
        simp only
        split
        · simp only [matchEllipsis_logged]
          cases matchEllipsis agg st.1 optName [] cands skipped <;> rfl
        · split
          · split
            · rfl
            · next c cs =>
              split
              · rfl
              · simp only [matchEllipsis_logged]
                cases matchEllipsis agg st.1 optName [c] [] skipped <;> rfl
          · exact hS _ _ _ _ _ _

theorem single_sim_step (fuel : Nat) (hN : NodeSim agg s src fuel)
    (hS : SingleSim agg s src fuel) : SingleSim agg s src (fuel + 1) := by
  intro goals cands st
  simp only [matchSingle]
  split
  · split <;> rfl
  · next c cs =>
    split
    · rfl
    · next g gs =>
      rw [← hN]
      rcases matchNode (logged agg) s src fuel g c st with e | ⟨r, st1⟩
      · rfl
      · cases r <;> simp only [Except.map, dropLog1]
        · rfl
        · cases gs with
          | nil => rfl
          | cons => exact hS _ _ _
        · cases gs with
          | nil => rfl
          | cons => exact hS _ _ _
        · exact hS _ _ _
        · rfl

theorem loop_sim_step (fuel : Nat) (hM : MaySim agg s src fuel)
    (hS : SingleSim agg s src fuel) (hL : LoopSim agg s src fuel) :
    LoopSim agg s src (fuel + 1) := by
  intro goals cands st
  simp only [matchLoop]
  rw [← hM]
  rcases mayMatchEllipsis (logged agg) s src fuel goals cands st with e | ⟨fl, goals1, cands1, st1⟩
  · rfl
  · rcases fl with _ | fl
    · rfl
    · cases fl <;> simp only [Except.map, dropLog3]
      · exact hL _ _ _
      · rw [← hS]
        rcases matchSingle (logged agg) s src fuel goals1 cands1 st1 with e | ⟨fl2, goals2, cands2, st2⟩
        · rfl
        · rcases fl2 with _ | fl2
          · rfl
          · cases fl2 <;> simp only [Except.map, dropLog3]
            · exact hL _ _ _
            · cases goals2 with
              | nil => rfl
              | cons g0 gs0 =>
                simp only
                generalize cands2.tail = ct
                cases gs0 with
                | nil => rfl
                | cons =>
                  cases ct with
                  | nil => rfl
                  | cons => exact hL _ _ _
            · rfl
      · rfl

/-- the logging wrapper does not change the run: dropping the log gives the run of `agg` -/
theorem all_sim (fuel : Nat) :
    NodeSim agg s src fuel ∧ NodesSim agg s src fuel ∧ LoopSim agg s src fuel ∧
    MaySim agg s src fuel ∧ ScanSim agg s src fuel ∧ SingleSim agg s src fuel := by
  induction fuel with
  | zero =>
    refine ⟨?_, ?_, ?_, ?_, ?_, ?_⟩
    · intro p c st; simp [matchNode, Except.map]
    · intro goals cands st; simp [matchNodes, Except.map]
    · intro goals cands st; simp [matchLoop, Except.map]
    · intro goals cands st; simp [mayMatchEllipsis, Except.map]
    · intro optName skipped goals cands matched st; simp [ellipsisScan, Except.map]
    · intro goals cands st; simp [matchSingle, Except.map]
  | succ fuel ih =>
    obtain ⟨hN, hNs, hL, hM, hSc, hSi⟩ := ih
    exact ⟨node_sim_step agg s src fuel hNs, nodes_sim_step agg s src fuel hL,
      loop_sim_step agg s src fuel hM hSi hL, may_sim_step agg s src fuel hSc,
      scan_sim_step agg s src fuel hN hSc, single_sim_step agg s src fuel hN hSi⟩

end
end AGV
