/-
`potential_kinds()` at construction time after FIX 418aa84 (`potentialKindsD`): an id announced
as local never falls back to the global registry.  Consequence: a cache computed while the local
utilities are still being inserted is sound for the final registries WITHOUT the `NoShadow`
hypothesis of `Lemmas/Kinds.lean`.
-/
import AstGrepVerif.Lemmas.KindsDeep

set_option linter.unusedSimpArgs false
set_option linter.unusedVariables false

namespace AGV

/-- with nothing announced the repaired lookup is the pinned one -/
theorem potentialKindsD_nil (l : List (Name × Rule)) (g : List (Name × RuleCore)) :
    ∀ (pf : Nat) (r : Rule), potentialKindsD [] l g pf r = potentialKinds l g pf r := by
  intro pf
  induction pf with
  | zero => intro r; simp [potentialKindsD, potentialKinds]
  | succ pf ih =>
    intro r
    cases r with
    | nthChild a b ofRule rev =>
      cases ofRule with
      | none => simp [potentialKindsD, potentialKinds]
      | some rule => simp only [potentialKindsD, potentialKinds]; exact ih rule
    | «matches» id =>
      simp only [potentialKindsD, potentialKinds, List.contains_nil, Bool.false_eq_true, ↓reduceIte]
      cases alookup id l with
      | some q => exact ih q
      | none =>
        simp only
        cases alookup id g with
        | some core => exact ih core.rule
        | none => rfl
    | _ => simp [potentialKindsD, potentialKinds]

/-- `All::new` / `Any::new` under the repaired lookup -/
def mkAllD (declared : List Name) (locals : List (Name × Rule)) (globals : List (Name × RuleCore))
    (rs : List Rule) : Rule :=
  .all rs (allComputeKinds (rs.map (potentialKindsD declared locals globals 64)))

def mkAnyD (declared : List Name) (locals : List (Name × Rule)) (globals : List (Name × RuleCore))
    (rs : List Rule) : Rule :=
  .any rs (anyComputeKinds (rs.map (potentialKindsD declared locals globals 64)))

theorem mkAllD_nil (l : List (Name × Rule)) (g : List (Name × RuleCore)) (rs : List Rule) :
    mkAllD [] l g rs = mkAll l g rs := by
  have : rs.map (potentialKindsD [] l g 64) = rs.map (potentialKinds l g 64) :=
    List.map_congr_left fun r _ => potentialKindsD_nil l g 64 r
  unfold mkAllD mkAll
  rw [this]

theorem mkAnyD_nil (l : List (Name × Rule)) (g : List (Name × RuleCore)) (rs : List Rule) :
    mkAnyD [] l g rs = mkAny l g rs := by
  have : rs.map (potentialKindsD [] l g 64) = rs.map (potentialKinds l g 64) :=
    List.map_congr_left fun r _ => potentialKindsD_nil l g 64 r
  unfold mkAnyD mkAny
  rw [this]

/-- the local registry grows: every id already inserted keeps its rule -/
def LocalsExt (l0 l : List (Name × Rule)) : Prop := ∀ id r, alookup id l0 = some r → alookup id l = some r

theorem LocalsExt.refl (l : List (Name × Rule)) : LocalsExt l l := fun _ _ h => h

/-- every local id was announced up front -/
def AllDeclared (declared : List Name) (l : List (Name × Rule)) : Prop :=
  ∀ id, alookup id l ≠ none → id ∈ declared

/-- **a *defined* construction-time `potential_kinds` is the final one**: no `NoShadow` — an
announced id never answered with the global rule it shadows -/
theorem potentialKindsD_stable {declared : List Name} {l0 l : List (Name × Rule)}
    {g : List (Name × RuleCore)} (hext : LocalsExt l0 l) (hd : AllDeclared declared l) :
    ∀ (pf : Nat) (r : Rule) (ks : List Nat), potentialKindsD declared l0 g pf r = some ks →
      potentialKinds l g pf r = some ks := by
  intro pf
  induction pf with
  | zero => intro r ks h; simp [potentialKindsD] at h
  | succ pf ih =>
    intro r ks h
    cases r with
    | pattern p rootKind s => simpa [potentialKindsD, potentialKinds] using h
    | kind k => simpa [potentialKindsD, potentialKinds] using h
    | regex id => simp [potentialKindsD] at h
    | range a b c d => simp [potentialKindsD] at h
    | inside r stop field => simp [potentialKindsD] at h
    | has r stop field => simp [potentialKindsD] at h
    | precedes r stop => simp [potentialKindsD] at h
    | follows r stop => simp [potentialKindsD] at h
    | not r => simp [potentialKindsD] at h
    | all rs kinds => simpa [potentialKindsD, potentialKinds] using h
    | any rs kinds => simpa [potentialKindsD, potentialKinds] using h
    | nthChild a b ofRule rev =>
      cases ofRule with
      | none => simp [potentialKindsD] at h
      | some rule =>
        simp only [potentialKindsD] at h
        simp only [potentialKinds]
        exact ih rule ks h
    | «matches» id =>
      simp only [potentialKindsD] at h
      simp only [potentialKinds]
      cases hl0 : alookup id l0 with
      | some q =>
        rw [hl0] at h
        rw [hext id q hl0]
        exact ih q ks h
      | none =>
        rw [hl0] at h
        simp only at h
        by_cases hdec : declared.contains id = true
        · rw [if_pos hdec] at h; cases h
        · rw [if_neg hdec] at h
          have hl : alookup id l = none := by
            cases hl' : alookup id l with
            | none => rfl
            | some x =>
              exact absurd (List.contains_iff_mem.2 (hd id (by rw [hl']; simp))) hdec
          rw [hl]
          simp only
          cases hg : alookup id g with
          | none => rw [hg] at h; cases h
          | some core =>
            rw [hg] at h
            exact ih core.rule ks h

theorem parts_le_declared {declared : List Name} {l0 l : List (Name × Rule)}
    {g : List (Name × RuleCore)} (hext : LocalsExt l0 l) (hd : AllDeclared declared l)
    (rs : List Rule) :
    PartsLe (rs.map (potentialKindsD declared l0 g 64)) (rs.map (potentialKinds l g 64)) := by
  induction rs with
  | nil => exact .nil
  | cons r rs ih => exact .cons (fun ks h => potentialKindsD_stable hext hd 64 r ks h) ih

/-- the early `All` cache is sound for the final registries -/
theorem mkAllD_cacheOK_ext (ctx : RCtx) {declared : List Name} {l0 : List (Name × Rule)}
    (hext : LocalsExt l0 ctx.locals) (hd : AllDeclared declared ctx.locals) (rs : List Rule) :
    AllCacheSound ctx rs (allComputeKinds (rs.map (potentialKindsD declared l0 ctx.globals 64))) := by
  intro ks hk fuel n env env' h
  refine allComputeKinds_mem hk ?_
  intro p hp ksp hpk
  obtain ⟨r, hr, rfl⟩ := List.mem_map.1 hp
  obtain ⟨f, e, m, e', hm⟩ := allLoop_true ctx n rs fuel env env' h r hr
  exact kinds_sound_all ctx r f n e m e' ksp hm (potentialKindsD_stable hext hd 64 r ksp hpk)

theorem mkAnyD_cacheOK_ext (ctx : RCtx) {declared : List Name} {l0 : List (Name × Rule)}
    (hext : LocalsExt l0 ctx.locals) (hd : AllDeclared declared ctx.locals) (rs : List Rule) :
    AnyCacheSound ctx rs (anyComputeKinds (rs.map (potentialKindsD declared l0 ctx.globals 64))) := by
  intro ks hk fuel n env env' h
  obtain ⟨r, hr, f, m, hm⟩ := anyLoop_some ctx n rs fuel env env' h
  obtain ⟨ksp, hksp, hsub⟩ := anyComputeKinds_spec hk _ (List.mem_map.2 ⟨r, hr, rfl⟩)
  exact hsub _ (kinds_sound_all ctx r f n env m env' ksp hm
    (potentialKindsD_stable hext hd 64 r ksp hksp))

/-! ## rules and registries built by the repaired `with_utils` -/

mutual
/-- `r` was built by `deserialize_rule` while the announced ids were `declared`, the local
registry `l0` and the global one `g`: every `All`/`Any` inside carries the cache its constructor
computes from those (sub-rules are built first, under the same registries) -/
def BuiltD (declared : List Name) (l0 : List (Name × Rule)) (g : List (Name × RuleCore)) : Rule → Prop
  | .pattern _ _ _ => True
  | .kind _ => True
  | .regex _ => True
  | .nthChild _ _ (some r) _ => BuiltD declared l0 g r
  | .nthChild _ _ none _ => True
  | .range _ _ _ _ => True
  | .inside r st _ => BuiltD declared l0 g r ∧ BuiltDS declared l0 g st
  | .has r st _ => BuiltD declared l0 g r ∧ BuiltDS declared l0 g st
  | .precedes r st => BuiltD declared l0 g r ∧ BuiltDS declared l0 g st
  | .follows r st => BuiltD declared l0 g r ∧ BuiltDS declared l0 g st
  | .all rs kinds =>
    kinds = allComputeKinds (rs.map (potentialKindsD declared l0 g 64)) ∧ BuiltDL declared l0 g rs
  | .any rs kinds =>
    kinds = anyComputeKinds (rs.map (potentialKindsD declared l0 g 64)) ∧ BuiltDL declared l0 g rs
  | .not r => BuiltD declared l0 g r
  | .matches _ => True
def BuiltDS (declared : List Name) (l0 : List (Name × Rule)) (g : List (Name × RuleCore)) :
    StopBy → Prop
  | .neighbor => True
  | .end_ => True
  | .rule r => BuiltD declared l0 g r
def BuiltDL (declared : List Name) (l0 : List (Name × Rule)) (g : List (Name × RuleCore)) :
    List Rule → Prop
  | [] => True
  | r :: rs => BuiltD declared l0 g r ∧ BuiltDL declared l0 g rs
end

mutual
/-- a rule built early has sound caches in every later state of the local registry -/
theorem cachesOK_of_builtD (ctx : RCtx) {declared : List Name} {l0 : List (Name × Rule)}
    (hext : LocalsExt l0 ctx.locals) (hd : AllDeclared declared ctx.locals) :
    ∀ r : Rule, BuiltD declared l0 ctx.globals r → CachesOK ctx r
  | .pattern _ _ _, _ => by simp [CachesOK]
  | .kind _, _ => by simp [CachesOK]
  | .regex _, _ => by simp [CachesOK]
  | .range _ _ _ _, _ => by simp [CachesOK]
  | .nthChild _ _ none _, _ => by simp [CachesOK]
  | .nthChild _ _ (some r) _, h => by
    simp only [BuiltD] at h; simp only [CachesOK]; exact cachesOK_of_builtD ctx hext hd r h
  | .inside r st _, h => by
    simp only [BuiltD] at h; simp only [CachesOK]
    exact ⟨cachesOK_of_builtD ctx hext hd r h.1, cachesOKS_of_builtD ctx hext hd st h.2⟩
  | .has r st _, h => by
    simp only [BuiltD] at h; simp only [CachesOK]
    exact ⟨cachesOK_of_builtD ctx hext hd r h.1, cachesOKS_of_builtD ctx hext hd st h.2⟩
  | .precedes r st, h => by
    simp only [BuiltD] at h; simp only [CachesOK]
    exact ⟨cachesOK_of_builtD ctx hext hd r h.1, cachesOKS_of_builtD ctx hext hd st h.2⟩
  | .follows r st, h => by
    simp only [BuiltD] at h; simp only [CachesOK]
    exact ⟨cachesOK_of_builtD ctx hext hd r h.1, cachesOKS_of_builtD ctx hext hd st h.2⟩
  | .all rs kinds, h => by
    simp only [BuiltD] at h; simp only [CachesOK]
    exact ⟨h.1 ▸ mkAllD_cacheOK_ext ctx hext hd rs, cachesOKL_of_builtD ctx hext hd rs h.2⟩
  | .any rs kinds, h => by
    simp only [BuiltD] at h; simp only [CachesOK]
    exact ⟨h.1 ▸ mkAnyD_cacheOK_ext ctx hext hd rs, cachesOKL_of_builtD ctx hext hd rs h.2⟩
  | .not r, h => by
    simp only [BuiltD] at h; simp only [CachesOK]; exact cachesOK_of_builtD ctx hext hd r h
  | .matches _, _ => by simp [CachesOK]
theorem cachesOKS_of_builtD (ctx : RCtx) {declared : List Name} {l0 : List (Name × Rule)}
    (hext : LocalsExt l0 ctx.locals) (hd : AllDeclared declared ctx.locals) :
    ∀ st : StopBy, BuiltDS declared l0 ctx.globals st → CachesOKS ctx st
  | .neighbor, _ => by simp [CachesOKS]
  | .end_, _ => by simp [CachesOKS]
  | .rule r, h => by
    simp only [BuiltDS] at h; simp only [CachesOKS]; exact cachesOK_of_builtD ctx hext hd r h
theorem cachesOKL_of_builtD (ctx : RCtx) {declared : List Name} {l0 : List (Name × Rule)}
    (hext : LocalsExt l0 ctx.locals) (hd : AllDeclared declared ctx.locals) :
    ∀ rs : List Rule, BuiltDL declared l0 ctx.globals rs → CachesOKL ctx rs
  | [], _ => by simp [CachesOKL]
  | r :: rs, h => by
    simp only [BuiltDL] at h; simp only [CachesOKL]
    exact ⟨cachesOK_of_builtD ctx hext hd r h.1, cachesOKL_of_builtD ctx hext hd rs h.2⟩
end

/-- **the local registry as `with_utils` builds it**: all ids announced first (`declared`), then
the rules inserted one by one — in ANY order — each built under the registries of that moment;
an id is inserted once -/
inductive WithUtils (declared : List Name) (g : List (Name × RuleCore)) : List (Name × Rule) → Prop
  | nil : WithUtils declared g []
  | insert {l : List (Name × Rule)} {id : Name} {r : Rule} :
      WithUtils declared g l → id ∈ declared → alookup id l = none → BuiltD declared l g r →
      WithUtils declared g (l ++ [(id, r)])

theorem alookup_append_new {β} {id k : Name} {l : List (Name × β)} {v : β} :
    alookup id (l ++ [(k, v)]) =
      match alookup id l with
      | some x => some x
      | none => if k = id then some v else none := by
  induction l with
  | nil => simp [alookup]
  | cons x xs ih =>
    obtain ⟨k', v'⟩ := x
    simp only [List.cons_append, alookup]
    split
    · rfl
    · exact ih

theorem localsExt_append (l : List (Name × Rule)) (k : Name) (r : Rule) : LocalsExt l (l ++ [(k, r)]) := by
  intro id q h
  rw [alookup_append_new, h]

theorem WithUtils.allDeclared {declared : List Name} {g : List (Name × RuleCore)}
    {l : List (Name × Rule)} (h : WithUtils declared g l) : AllDeclared declared l := by
  induction h with
  | nil => intro id hne; simp [alookup] at hne
  | @insert l k r _ hk _ _ ih =>
    intro id hne
    rw [alookup_append_new] at hne
    cases hl : alookup id l with
    | some x => exact ih id (by rw [hl]; simp)
    | none =>
      rw [hl] at hne
      simp only at hne
      by_cases e : k = id
      · exact e ▸ hk
      · simp [e] at hne

/-- every inserted rule was built under a registry the final one extends -/
theorem WithUtils.lookup {declared : List Name} {g : List (Name × RuleCore)}
    {l : List (Name × Rule)} (h : WithUtils declared g l) :
    ∀ id q, alookup id l = some q → ∃ l0, LocalsExt l0 l ∧ BuiltD declared l0 g q := by
  induction h with
  | nil => intro id q hq; simp [alookup] at hq
  | @insert l k r _ _ hnew hb ih =>
    intro id q hq
    rw [alookup_append_new] at hq
    cases hl : alookup id l with
    | some x =>
      rw [hl] at hq
      simp only [Option.some.injEq] at hq; subst hq
      obtain ⟨l0, h1, h2⟩ := ih id x hl
      exact ⟨l0, fun i t ht => localsExt_append l k r i t (h1 i t ht), h2⟩
    | none =>
      rw [hl] at hq
      simp only at hq
      by_cases e : k = id
      · simp only [e, ↓reduceIte, Option.some.injEq] at hq; subst hq
        exact ⟨l, localsExt_append l k r, hb⟩
      · simp [e] at hq

end AGV
