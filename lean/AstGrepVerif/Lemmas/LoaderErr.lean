/-
Where the errors of the load pipeline come from (`Model/Loader.lean`, all repairs on): for every
stage, what an `err` result means.  Feeds the error-soundness theorems of C12.
-/
import AstGrepVerif.Lemmas.LoaderIff

namespace AGV.Loader

open AGV AGV.Loader.Spec

/-- the errors `deserialize_rule` itself can produce (field errors), as opposed to the
reference errors `UndefinedUtil` / `DuplicateRule` / `CyclicRule` of the registry and the checks -/
def RSE.isField : RSE → Bool
  | .undefinedUtil => false
  | .duplicateRule => false
  | .cyclicRule => false
  | .nthInvalidRule e => e.isField
  | _ => true

theorem parsePos_err_field (fx : Fixes) (pos : NthPos) (e : RSE) (h : parsePos fx pos = .err e) :
    e.isField = true := by
  cases pos with
  | numeric n =>
    simp only [parsePos] at h
    split at h
    · injection h with h; subst h; rfl
    · cases h
  | functional s =>
    simp only [parsePos] at h
    split at h
    · cases h
    · injection h with h; subst h; rfl
    · injection h with h; subst h; rfl
    · split at h
      · injection h with h; subst h; rfl
      · cases h

theorem checkField_err_field (f : SField) (e : RSE) (h : checkField f = .err e) : e.isField = true := by
  cases f <;> simp [checkField] at h
  subst h; rfl

mutual
theorem deserRule_err_field (fx : Fixes) : ∀ (r : SRule) (e : RSE), deserRule fx r = .err e → e.isField = true
  | .mk ps, e, h => by
    simp only [deserRule] at h
    split at h
    · rename_i e' he
      injection h with h; subst h
      exact deserParts_err_field fx ps _ he
    · cases h
    · split at h
      · injection h with h; subst h; rfl
      · cases h
      · cases h
theorem deserParts_err_field (fx : Fixes) : ∀ (ps : List SPart) (e : RSE), deserParts fx ps = .err e →
    e.isField = true
  | [], e, h => by simp [deserParts] at h
  | p :: ps, e, h => by
    simp only [deserParts] at h
    split at h
    · rename_i e' he
      injection h with h; subst h
      exact deserPart_err_field fx p _ he
    · cases h
    · exact deserParts_err_field fx ps e h
theorem deserPart_err_field (fx : Fixes) : ∀ (p : SPart) (e : RSE), deserPart fx p = .err e → e.isField = true
  | .pattern ok _ _, e, h => by
    simp only [deserPart] at h
    split at h
    · cases h
    · injection h with h; subst h; rfl
  | .kind ok _, e, h => by
    simp only [deserPart] at h
    split at h
    · cases h
    · injection h with h; subst h; rfl
  | .regex ok, e, h => by
    simp only [deserPart] at h
    split at h
    · cases h
    · injection h with h; subst h; rfl
  | .nthChild pos none _, e, h => by
    simp only [deserPart] at h
    split at h
    · rename_i e' he
      injection h with h; subst h
      exact parsePos_err_field fx pos _ he
    · cases h
    · cases h
  | .nthChild pos (some r) _, e, h => by
    simp only [deserPart] at h
    split at h
    · rename_i e' he
      injection h with h; subst h
      exact parsePos_err_field fx pos _ he
    · cases h
    · split at h
      · rename_i e' he
        injection h with h; subst h
        simp only [RSE.isField]
        exact deserRule_err_field fx r _ he
      · cases h
      · cases h
  | .range _ _ _ _, e, h => by
    simp only [deserPart] at h
    split at h
    · injection h with h; subst h; rfl
    · cases h
  | .all rs, e, h => by simp only [deserPart] at h; exact deserList_err_field fx rs e h
  | .any rs, e, h => by simp only [deserPart] at h; exact deserList_err_field fx rs e h
  | .not r, e, h => by simp only [deserPart] at h; exact deserRule_err_field fx r e h
  | .matches _, e, h => by simp [deserPart] at h
  | .inside r stop f, e, h => by
    simp only [deserPart] at h
    split at h
    · rename_i e' he
      injection h with h; subst h
      exact deserStop_err_field fx stop _ he
    · cases h
    · split at h
      · rename_i e' he
        injection h with h; subst h
        exact checkField_err_field f _ he
      · cases h
      · exact deserRule_err_field fx r e h
  | .has r stop f, e, h => by
    simp only [deserPart] at h
    split at h
    · rename_i e' he
      injection h with h; subst h
      exact deserStop_err_field fx stop _ he
    · cases h
    · split at h
      · rename_i e' he
        injection h with h; subst h
        exact deserRule_err_field fx r _ he
      · cases h
      · exact checkField_err_field f e h
  | .precedes r stop f, e, h => by
    simp only [deserPart] at h
    split at h
    · split at h
      · rename_i e' he
        injection h with h; subst h
        exact deserStop_err_field fx stop _ he
      · cases h
      · exact deserRule_err_field fx r e h
    · injection h with h; subst h; rfl
  | .follows r stop f, e, h => by
    simp only [deserPart] at h
    split at h
    · split at h
      · rename_i e' he
        injection h with h; subst h
        exact deserStop_err_field fx stop _ he
      · cases h
      · exact deserRule_err_field fx r e h
    · injection h with h; subst h; rfl
theorem deserList_err_field (fx : Fixes) : ∀ (rs : List SRule) (e : RSE), deserList fx rs = .err e →
    e.isField = true
  | [], e, h => by simp [deserList] at h
  | r :: rs, e, h => by
    simp only [deserList] at h
    split at h
    · rename_i e' he
      injection h with h; subst h
      exact deserRule_err_field fx r _ he
    · cases h
    · exact deserList_err_field fx rs e h
theorem deserStop_err_field (fx : Fixes) : ∀ (st : SStop) (e : RSE), deserStop fx st = .err e → e.isField = true
  | .neighbor, e, h => by simp [deserStop] at h
  | .end_, e, h => by simp [deserStop] at h
  | .rule r, e, h => by simp only [deserStop] at h; exact deserRule_err_field fx r e h
end

/-- a field error of a rule means the rule is not well formed -/
theorem not_parses_of_err (r : SRule) (e : RSE) (h : deserRule Fixes.all r = .err e) : ¬ RuleParses r := by
  intro hp
  rw [(deserRule_ok_iff Fixes.all rfl r).mpr hp] at h
  cases h

/-! ### `register_utils` / `with_utils` -/

theorem registerUtils_err (globals : List GlobalUtil) (utils : List (Name × SRule)) :
    ∀ ids reg e, ids.Nodup → registerUtils Fixes.all globals utils ids reg = .err e →
      (e = .duplicateRule ∧ ∃ id ∈ ids, id ∈ reg.map (·.id)) ∨
      (e = .cyclicRule ∧ ∃ id r, alookup id utils = some r ∧ RefsSame true r id) ∨
      (e.isField = true ∧ ∃ id r, alookup id utils = some r ∧ deserRule Fixes.all r = .err e)
  | [], reg, e, _, h => by simp [registerUtils] at h
  | id :: ids, reg, e, hnd, h => by
    simp only [registerUtils] at h
    cases hl : alookup id utils with
    | none => rw [hl] at h; cases h
    | some rule =>
      rw [hl] at h
      simp only at h
      cases hd : deserRule Fixes.all rule with
      | panic s => rw [hd] at h; cases h
      | err e' =>
        rw [hd] at h
        injection h with h; subst h
        exact Or.inr (Or.inr ⟨deserRule_err_field _ rule _ hd, id, rule, hl, hd⟩)
      | ok u =>
        rw [hd] at h
        simp only at h
        by_cases hhas : reg.has id = true
        · simp only [hhas, ↓reduceIte] at h
          injection h with h; subst h
          exact Or.inl ⟨rfl, id, List.mem_cons_self, (Registry.has_iff reg id).mp hhas⟩
        · simp only [hhas, Bool.false_eq_true, ↓reduceIte] at h
          by_cases hcy : checkCyclic Fixes.all id rule = true
          · simp only [hcy, ↓reduceIte] at h
            injection h with h; subst h
            exact Or.inr (Or.inl ⟨rfl, id, rule, hl, (checkCyclic_iff Fixes.all id rule).mp hcy⟩)
          · simp only [hcy, Bool.false_eq_true, ↓reduceIte] at h
            rw [List.nodup_cons] at hnd
            rcases registerUtils_err globals utils ids _ e hnd.2 h with ⟨he, i, hi, hm⟩ | h2 | h3
            · refine Or.inl ⟨he, i, List.mem_cons_of_mem _ hi, ?_⟩
              simp only [List.map_append, List.map_cons, List.map_nil, List.mem_append, List.mem_singleton] at hm
              rcases hm with hm | hm
              · exact hm
              · subst hm; exact absurd hi hnd.1
            · exact Or.inr (Or.inl h2)
            · exact Or.inr (Or.inr h3)

/-- **errors of `with_utils`**: a same-node cycle, an id that is already registered, or a utility
rule that is not well formed -/
theorem withUtils_err (globals : List GlobalUtil) (utils : List (Name × SRule)) (reg : Registry) (e : RSE)
    (h : withUtils Fixes.all globals utils reg = .err e) :
    (e = .cyclicRule ∧ ∃ k, Reach (utilGraph Fixes.all utils) k k) ∨
    (e = .duplicateRule ∧ ∃ id ∈ utils.map (·.1), id ∈ reg.map (·.id)) ∨
    (e.isField = true ∧ ∃ id r, alookup id utils = some r ∧ ¬ RuleParses r) := by
  unfold withUtils at h
  cases ho : getOrder (utils.map fun kv => (kv.1, depIds Fixes.all kv.2)) with
  | error te =>
    rw [ho] at h
    cases te with
    | cyclic k =>
      injection h with h; subst h
      exact Or.inl ⟨rfl, k, getOrder_cyclic _ k ho⟩
    | fuel => cases h
  | ok order =>
    rw [ho] at h
    simp only at h
    obtain ⟨hord, hkeys⟩ := getOrder_ok _ order ho
    rcases registerUtils_err globals utils order reg e hord.nodup h with ⟨he, id, hid, hm⟩ | ⟨he, id, r, hl, hr⟩ | ⟨he, id, r, hl, hd⟩
    · exact Or.inr (Or.inl ⟨he, id, (utilGraph_keys Fixes.all utils id).mp ((hkeys id).mp hid), hm⟩)
    · refine Or.inl ⟨he, id, .single ⟨depIds Fixes.all r, ?_, (mem_depIds_iff Fixes.all r id).mpr hr⟩⟩
      unfold utilGraph
      rw [alookup_map_snd', hl]; rfl
    · exact Or.inr (Or.inr ⟨he, id, r, hl, not_parses_of_err r e hd⟩)

/-! ### `Transform::deserialize` -/

theorem parseTransList_err (expando : Char) (tr : List (Name × STrans)) : ∀ ids (e : TE),
    parseTransList Fixes.all expando tr ids = .err e →
      (e = .malformedVar ∨ e = .invalidRegex) ∧ ∃ k t, alookup k tr = some t ∧ ¬ TransParses expando t
  | [], e, h => by simp [parseTransList] at h
  | k :: ks, e, h => by
    simp only [parseTransList] at h
    cases hl : alookup k tr with
    | none => rw [hl] at h; cases h
    | some t =>
      rw [hl] at h
      simp only at h
      cases hp : parseTrans Fixes.all expando t with
      | error e' =>
        rw [hp] at h
        injection h with h; subst h
        refine ⟨?_, k, t, hl, fun hh => by rw [(parseTrans_ok_iff expando t).mpr hh] at hp; cases hp⟩
        unfold parseTrans at hp
        split at hp
        · injection hp with hp; exact Or.inl hp.symm
        · split at hp
          · split at hp
            · injection hp with hp; exact Or.inr hp.symm
            · cases hp
          · cases hp
      | ok u =>
        rw [hp] at h
        exact parseTransList_err expando tr ks e h

theorem transformDeserialize_err (expando : Char) (tr : List (Name × STrans)) (g : Graph)
    (hg : transformGraph Fixes.all tr = some g) (e : TE)
    (h : transformDeserialize Fixes.all expando tr = .err e) :
    (e = .cyclic ∧ ∃ k, Reach g k k) ∨
    ((e = .malformedVar ∨ e = .invalidRegex) ∧ ∃ k t, alookup k tr = some t ∧ ¬ TransParses expando t) := by
  unfold transformDeserialize at h
  rw [hg] at h
  simp only at h
  cases ho : getOrder g with
  | error te =>
    rw [ho] at h
    cases te with
    | cyclic k =>
      injection h with h; subst h
      exact Or.inl ⟨rfl, k, getOrder_cyclic g k ho⟩
    | fuel => cases h
  | ok order =>
    rw [ho] at h
    exact Or.inr (parseTransList_err expando tr order e h)

end AGV.Loader
