/-
The post-order machine: `trace_down` goes to the leftmost leaf, `next` moves to the next node of
the recursive post-order; invariant and the plain iteration.
-/
import AstGrepVerif.Lemmas.Pre

namespace AGV
open Tree

/-- the nodes of the start node's post-order that come after the focus (whose own subtree is
finished): right siblings' subtrees, then the parent, and so on upwards -/
def restPost : Tree → List Frame → List Tree
  | _, [] => []
  | t, f :: p => postorderList f.right ++ (f.plug t :: restPost (f.plug t) p)

/-- where `trace_down` ends: the leftmost leaf below the focus (fuel-free description) -/
def leftmost : (fuel : Nat) → Tree → List Frame → Cursor
  | 0, t, path => ⟨t, path⟩
  | fuel + 1, t, path =>
    match t.children with
    | k :: ks => leftmost fuel k (⟨t.info, [], ks⟩ :: path)
    | [] => ⟨t, path⟩

theorem Tree.postorder_eq (t : Tree) : t.postorder = postorderList t.children ++ [t] := by
  cases t; simp [Tree.postorder, Tree.children]

theorem child_size_lt {t k : Tree} {ks : List Tree} (h : t.children = k :: ks) : k.size < t.size := by
  rw [t.size_eq, h]; simp [sizeList]; omega

/-- `trace_down` = `leftmost`, the depth counter grows by the number of steps -/
theorem traceDown_eq (sid : Option Nat) (md : Nat) :
    ∀ (fuel : Nat) (t : Tree) (path : List Frame) (d : Nat), t.size ≤ fuel →
      Post.traceDown fuel ⟨⟨t, path⟩, sid, d, md⟩
        = .ok ⟨leftmost fuel t path, sid, d + ((leftmost fuel t path).path.length - path.length), md⟩
  | 0, t, path, d, h => by have := t.size_pos; omega
  | fuel + 1, t, path, d, h => by
    cases hc : t.children with
    | nil => simp [Post.traceDown, Cursor.gotoFirstChild_of_leaf hc, leftmost, hc]
    | cons k ks =>
      have hk := child_size_lt hc
      have ih := traceDown_eq sid md fuel k (⟨t.info, [], ks⟩ :: path) (d + 1) (by omega)
      simp only [Post.traceDown, Cursor.gotoFirstChild_of_children hc, leftmost, hc, ih]
      have hlen : ∀ (fuel : Nat) (t : Tree) (path : List Frame), path.length ≤ (leftmost fuel t path).path.length := by
        intro fuel
        induction fuel with
        | zero => intro t path; simp [leftmost]
        | succ fuel ih2 =>
          intro t path
          simp only [leftmost]
          split
          · next k ks _ => have := ih2 k (⟨t.info, [], ks⟩ :: path); simp at this; omega
          · simp
      have := hlen fuel k (⟨t.info, [], ks⟩ :: path)
      simp only [List.length_cons] at this ⊢
      generalize (leftmost fuel k (⟨t.info, [], ks⟩ :: path)).path.length = L at this ⊢
      congr 2
      omega

/-- the leftmost leaf and what follows it = the post-order of the focus' subtree and what
follows the focus -/
theorem leftmost_remaining :
    ∀ (fuel : Nat) (t : Tree) (path : List Frame), t.size ≤ fuel →
      (leftmost fuel t path).focus :: restPost (leftmost fuel t path).focus (leftmost fuel t path).path
        = t.postorder ++ restPost t path
  | 0, t, path, h => by have := t.size_pos; omega
  | fuel + 1, t, path, h => by
    cases hc : t.children with
    | nil => simp [leftmost, hc, Tree.postorder_eq, postorderList]
    | cons k ks =>
      have hk := child_size_lt hc
      have ih := leftmost_remaining fuel k (⟨t.info, [], ks⟩ :: path) (by omega)
      simp only [leftmost, hc, ih]
      rw [t.postorder_eq, hc]
      simp [restPost, postorderList, plug_first t hc]

theorem leftmost_root :
    ∀ (fuel : Nat) (t : Tree) (path : List Frame), (leftmost fuel t path).root = plugAll t path
  | 0, t, path => rfl
  | fuel + 1, t, path => by
    cases hc : t.children with
    | nil => simp [leftmost, hc, Cursor.root]
    | cons k ks =>
      simp only [leftmost, hc, leftmost_root fuel k]
      simp [plugAll, plug_first t hc]

theorem leftmost_len :
    ∀ (fuel : Nat) (t : Tree) (path : List Frame), path.length ≤ (leftmost fuel t path).path.length
  | 0, t, path => by simp [leftmost]
  | fuel + 1, t, path => by
    cases hc : t.children with
    | nil => simp [leftmost, hc]
    | cons k ks =>
      have := leftmost_len fuel k (⟨t.info, [], ks⟩ :: path)
      simp only [leftmost, hc, List.length_cons] at this ⊢; omega

/-- the right siblings of the innermost frame -/
def headRight : List Frame → List Tree
  | [] => []
  | f :: _ => f.right

/-- what a plain post-order iteration still has to emit -/
def Post.remaining (p : Post) : List Tree :=
  match p.startId with
  | none => []
  | some _ => p.cursor.focus :: restPost p.cursor.focus p.cursor.path

/-- invariant of the machine started at `n`: the cursor is inside `n` and `current_depth` is the
focus' depth below `n` -/
def Post.Inv (n : Tree) (p : Post) : Prop :=
  match p.startId with
  | none => True
  | some s => s = n.id ∧ p.cursor.root = n ∧ p.depth = p.cursor.path.length

/-- the state after `next` on a running machine standing on `t` -/
def Post.afterNext (F : Nat) (s : Nat) (t : Tree) (d md : Nat) : List Frame → Post
  | [] => ⟨⟨t, []⟩, none, d, md⟩
  | ⟨i, l, r :: rs⟩ :: p =>
    let c := leftmost F r (⟨i, t :: l, rs⟩ :: p)
    ⟨c, some s, c.path.length, md⟩
  | ⟨i, l, []⟩ :: p => ⟨⟨Frame.plug ⟨i, l, []⟩ t, p⟩, some s, d - 1, md⟩

theorem Post.next_eq (n : Tree) (hu : n.UniqueIds) (F : Nat) (hF : n.size ≤ F) (t : Tree) (path : List Frame)
    (d md : Nat) (hinv : Post.Inv n ⟨⟨t, path⟩, some n.id, d, md⟩) :
    Post.next F ⟨⟨t, path⟩, some n.id, d, md⟩ = .ok (some t, Post.afterNext F n.id t d md path) := by
  obtain ⟨_, hroot, hd⟩ := hinv
  simp only [Cursor.root] at hroot hd
  have hid := idsOk_of_unique hu path t hroot
  match path, hid, hroot, hd with
  | [], hid, _, _ =>
    simp only [IdsOk] at hid
    simp [Post.next, Cursor.node, hid, Post.afterNext]
  | ⟨i, l, r :: rs⟩ :: p, hid, hroot, hd =>
    have hne : t.id ≠ n.id := hid.1
    have hrsz : r.size ≤ F := by
      have h1 := size_plugAll (Frame.plug ⟨i, l, r :: rs⟩ t) p
      have h2 := Frame.size_plug ⟨i, l, r :: rs⟩ t
      simp only [plugAll] at hroot
      rw [hroot] at h1
      simp only [sizeList] at h2
      omega
    simp only [Post.next, Cursor.node, beq_iff_eq, hne, ↓reduceIte, Cursor.gotoNextSibling,
      traceDown_eq (some n.id) md F r _ d hrsz, Post.afterNext]
    congr 3
    have := leftmost_len F r (⟨i, t :: l, rs⟩ :: p)
    simp only [List.length_cons] at this hd ⊢
    omega
  | ⟨i, l, []⟩ :: p, hid, hroot, hd =>
    have hne : t.id ≠ n.id := hid.1
    have hd0 : d ≠ 0 := by simp at hd; omega
    simp [Post.next, Cursor.node, hne, Cursor.gotoNextSibling, Post.stepUp, hd0, Cursor.gotoParent,
      Post.afterNext, Frame.plug]

theorem Post.afterNext_remaining (F : Nat) (s : Nat) (t : Tree) (d md : Nat) (path : List Frame)
    (hF : ∀ r ∈ headRight path, r.size ≤ F) :
    (Post.afterNext F s t d md path).remaining = restPost t path := by
  match path, hF with
  | [], _ => simp [Post.afterNext, Post.remaining, restPost]
  | ⟨i, l, r :: rs⟩ :: p, hF =>
    have := leftmost_remaining F r (⟨i, t :: l, rs⟩ :: p) (hF r (by simp [headRight]))
    simp only [Post.afterNext, Post.remaining, this, restPost, postorderList, plug_next]
    simp
  | ⟨i, l, []⟩ :: p, _ => simp [Post.afterNext, Post.remaining, restPost, postorderList]

theorem Post.afterNext_inv (n : Tree) (F : Nat) (t : Tree) (d md : Nat) (path : List Frame)
    (hroot : plugAll t path = n) (hd : d = path.length) :
    (Post.afterNext F n.id t d md path).Inv n := by
  match path, hroot, hd with
  | [], _, _ => simp [Post.afterNext, Post.Inv]
  | ⟨i, l, r :: rs⟩ :: p, hroot, hd =>
    simp only [Post.afterNext, Post.Inv, leftmost_root, true_and, and_true]
    simp only [plugAll] at hroot ⊢
    rw [plug_next]; exact hroot
  | ⟨i, l, []⟩ :: p, hroot, hd =>
    simp only [Post.afterNext, Post.Inv, Cursor.root, true_and]
    exact ⟨by simpa [plugAll] using hroot, by simp at hd; omega⟩

theorem Post.right_size_le {n t : Tree} {path : List Frame} (hroot : plugAll t path = n) :
    ∀ r ∈ headRight path, r.size ≤ n.size := by
  match path, hroot with
  | [], _ => simp [headRight]
  | ⟨i, l, right⟩ :: p, hroot =>
    intro r hr
    simp only [headRight] at hr
    have h1 := size_plugAll (Frame.plug ⟨i, l, right⟩ t) p
    have h2 := Frame.size_plug ⟨i, l, right⟩ t
    simp only [plugAll] at hroot
    rw [hroot] at h1
    have h3 : r.size ≤ sizeList right := by
      clear h1 h2 hroot
      induction right with
      | nil => simp at hr
      | cons x xs ih =>
        simp only [List.mem_cons] at hr
        rcases hr with rfl | hr
        · simp [sizeList]
        · have := ih hr; simp only [sizeList]; omega
    simp only at h2
    omega

theorem Post.remaining_le {n : Tree} {p : Post} (h : p.Inv n) : p.remaining.length ≤ n.size := by
  obtain ⟨⟨t, path⟩, sid, d, md⟩ := p
  cases sid with
  | none => simp [Post.remaining]
  | some s =>
    have hr : plugAll t path = n := h.2.1
    subst hr
    simp only [Post.remaining]
    clear h
    have key : ∀ (path : List Frame) (t : Tree), (restPost t path).length + t.size ≤ (plugAll t path).size := by
      intro path
      induction path with
      | nil => intro t; simp [restPost, plugAll]
      | cons f p ih =>
        intro t
        have := ih (f.plug t)
        have h2 := f.size_plug t
        have h3 : (postorderList f.right).length = sizeList f.right := by
          have hp : ∀ (ts : List Tree), (postorderList ts).length = sizeList ts ∧ ∀ t ∈ ts, t.postorder.length = t.size := by
            intro ts
            induction ts with
            | nil => simp [postorderList, sizeList]
            | cons x xs ihx =>
              have hx : x.postorder.length = x.size := by
                have : ∀ (k : Nat) (x : Tree), x.size ≤ k → x.postorder.length = x.size := by
                  intro k
                  induction k with
                  | zero => intro x hx; have := x.size_pos; omega
                  | succ k ihk =>
                    intro x hx
                    rw [x.postorder_eq, x.size_eq]
                    have : ∀ (cs : List Tree), sizeList cs ≤ k → (postorderList cs).length = sizeList cs := by
                      intro cs
                      induction cs with
                      | nil => simp [postorderList, sizeList]
                      | cons c cs ihc =>
                        intro hcs
                        simp only [sizeList] at hcs
                        simp only [postorderList, sizeList, List.length_append, ihk c (by omega), ihc (by omega)]
                    rw [x.size_eq] at hx
                    simp [this x.children (by omega)]; omega
                exact this x.size x (Nat.le_refl _)
              refine ⟨?_, ?_⟩
              · simp [postorderList, sizeList, hx, ihx.1]
              · intro t ht
                simp only [List.mem_cons] at ht
                rcases ht with rfl | ht
                · exact hx
                · exact ihx.2 t ht
          exact (hp f.right).1
        simp only [restPost, plugAll, List.length_append, List.length_cons, h3]
        omega
    have := key path t
    have := t.size_pos
    simp only [List.length_cons]
    omega

theorem Post.collect_eq (n : Tree) (hu : n.UniqueIds) (F : Nat) (hF : n.size ≤ F) :
    ∀ (fuel : Nat) (p : Post), p.Inv n → p.remaining.length < fuel →
      Post.collect F fuel p = .ok p.remaining := by
  intro fuel
  induction fuel with
  | zero => intro p _ h; omega
  | succ fuel ih =>
    intro p hinv hlen
    obtain ⟨⟨t, path⟩, sid, d, md⟩ := p
    cases sid with
    | none => simp [Post.collect, Post.next, Post.remaining]
    | some s =>
      have hs : s = n.id := hinv.1
      subst hs
      have hroot : plugAll t path = n := hinv.2.1
      have hd : d = path.length := hinv.2.2
      have hnext := Post.next_eq n hu F hF t path d md hinv
      have hrem := Post.afterNext_remaining F n.id t d md path
        (fun r hr => Nat.le_trans (Post.right_size_le hroot r hr) hF)
      have hinv' := Post.afterNext_inv n F t d md path hroot hd
      have hlen' : (Post.afterNext F n.id t d md path).remaining.length < fuel := by
        rw [hrem]; simp only [Post.remaining, List.length_cons] at hlen; omega
      simp only [Post.collect, hnext, ih _ hinv' hlen', hrem]
      simp [Post.remaining]

/-! ### the reentrant visit: a filter of the traversal -/

theorem Post.visitNext_reentrant (n : Tree) (hu : n.UniqueIds) (F : Nat) (hF : n.size ≤ F)
    (dbg named : Bool) (m : Tree → Bool) :
    ∀ (fuel : Nat) (p : Post), p.Inv n → p.remaining.length < fuel →
      ∃ p', p'.Inv n ∧
        match p.remaining.filter (fun t => (!named || t.named) && m t) with
        | [] => Post.visitNext dbg true named m F fuel p = .ok (none, p')
        | x :: xs => Post.visitNext dbg true named m F fuel p = .ok (some x, p')
            ∧ p'.remaining.filter (fun t => (!named || t.named) && m t) = xs
            ∧ p'.remaining.length < p.remaining.length := by
  intro fuel
  induction fuel with
  | zero => intro p _ h; omega
  | succ fuel ih =>
    intro p hinv hlen
    obtain ⟨⟨t, path⟩, sid, d, md⟩ := p
    cases sid with
    | none =>
      exact ⟨_, hinv, by simp [Post.remaining, Post.visitNext, Post.next]⟩
    | some s =>
      have hs : s = n.id := hinv.1
      subst hs
      have hroot : plugAll t path = n := hinv.2.1
      have hd : d = path.length := hinv.2.2
      have hnext := Post.next_eq n hu F hF t path d md hinv
      have hrem' := Post.afterNext_remaining F n.id t d md path
        (fun r hr => Nat.le_trans (Post.right_size_le hroot r hr) hF)
      have hrem : Post.remaining ⟨⟨t, path⟩, some n.id, d, md⟩
          = t :: (Post.afterNext F n.id t d md path).remaining := by
        rw [hrem']; rfl
      have hinv' := Post.afterNext_inv n F t d md path hroot hd
      have hlen' : (Post.afterNext F n.id t d md path).remaining.length < fuel := by
        rw [hrem] at hlen; simp at hlen; omega
      rw [hrem]
      by_cases hm : ((!named || t.named) && m t) = true
      · refine ⟨Post.afterNext F n.id t d md path, hinv', ?_⟩
        simp only [List.filter_cons, hm, ↓reduceIte]
        refine ⟨?_, trivial, by simp⟩
        simp only [Post.visitNext, hnext]
        simp [hm]
      · obtain ⟨p', hp', hres⟩ := ih _ hinv' hlen'
        refine ⟨p', hp', ?_⟩
        have hstep : Post.visitNext dbg true named m F (fuel + 1) ⟨⟨t, path⟩, some n.id, d, md⟩
            = Post.visitNext dbg true named m F fuel (Post.afterNext F n.id t d md path) := by
          simp only [Post.visitNext, hnext]
          simp [hm]
        simp only [List.filter_cons, hm, Bool.false_eq_true, ↓reduceIte, hstep]
        split at hres
        · exact hres
        · exact ⟨hres.1, hres.2.1, by simp; omega⟩

theorem Post.visitCollect_reentrant (n : Tree) (hu : n.UniqueIds) (F : Nat) (hF : n.size < F)
    (dbg named : Bool) (m : Tree → Bool) :
    ∀ (fuel : Nat) (p : Post), p.Inv n → p.remaining.length < fuel →
      Post.visitCollect dbg true named m F fuel p
        = .ok (p.remaining.filter (fun t => (!named || t.named) && m t)) := by
  intro fuel
  induction fuel with
  | zero => intro p _ h; omega
  | succ fuel ih =>
    intro p hinv hlen
    have hb : p.remaining.length ≤ n.size := Post.remaining_le hinv
    obtain ⟨p', hp', hres⟩ := Post.visitNext_reentrant n hu F (by omega) dbg named m F p hinv (by omega)
    split at hres
    · next h0 => simp [Post.visitCollect, hres, h0]
    · next x xs h0 =>
      simp only [Post.visitCollect, hres.1, ih p' hp' (by omega), hres.2.1, h0]

end AGV
