/-
The state machine of `string_case.rs` (buffer form, `Lemmas/StringCase.lean`) computes the
words of the window specification `Spec/StringCase.lean`: the machine's state is a function of
the two characters before the current one (`stateOf`); the specification takes cut (3) one
character before the machine does (it looks ahead, the machine moves the boundary back), which
the second half of `bsplit_eq_wordsFrom` accounts for.
-/
import AstGrepVerif.Spec.StringCase
import AstGrepVerif.Lemmas.StringCase
set_option linter.unusedSimpArgs false
set_option linter.unusedVariables false
namespace AGV.StringCase
open AGV.Spec.StringCase


/-- the state of the code's machine as a function of the characters already passed -/
def stateOf (delims : List Char) (caseOn : Bool) (before : List Char) : CaseState :=
  if !caseOn then .ignoreCase else
  match before with
  | [] => .lower
  | x :: b =>
    if nonLower delims (some x) then (if nonLower delims b.head? then .multiUpper x else .oneUpper)
    else .lower

theorem yield_eq_emit : @yield = @emit := rfl

theorem uppers_not_lower : ∀ c ∈ uppers, isLower c = false := by decide

theorem nonLower_sep (delims : List Char) (c : Char) (h : delims.contains c = true) :
    nonLower delims (some c) = false := by
  simp only [nonLower, h]; rfl

theorem nonLower_nonsep (delims : List Char) (c : Char) (h : delims.contains c = false) :
    nonLower delims (some c) = !isLower c := by
  simp only [nonLower, h]; rfl

theorem stateOf_lower_iff (delims : List Char) (before : List Char) :
    stateOf delims true before = .lower ↔ nonLower delims before.head? = false := by
  cases before with
  | nil => simp [stateOf, nonLower]
  | cons x b =>
    simp only [stateOf, List.head?_cons]
    by_cases h1 : nonLower delims (some x) = true <;> by_cases h2 : nonLower delims b.head? = true <;>
      simp [h1, h2]

theorem stateOf_multi (delims : List Char) (before : List Char) (l : Char)
    (h : stateOf delims true before = .multiUpper l) :
    nonLower delims before.head? = true ∧ nonLower delims before.tail.head? = true := by
  cases before with
  | nil => simp [stateOf] at h
  | cons x b =>
    simp only [stateOf, List.head?_cons, List.tail_cons] at h ⊢
    by_cases h1 : nonLower delims (some x) = true <;> by_cases h2 : nonLower delims b.head? = true <;>
      simp_all

theorem stateOf_ne_ignore (delims : List Char) (before : List Char) :
    stateOf delims true before ≠ .ignoreCase := by
  cases before with
  | nil => simp [stateOf]
  | cons x b =>
    simp only [stateOf]
    by_cases h1 : nonLower delims (some x) = true <;> by_cases h2 : nonLower delims b.head? = true <;>
      simp [h1, h2]

theorem bsplit_eq_wordsFrom (delims : List Char) (caseOn : Bool)
    (hsub : ∀ c ∈ delims, c ∈ fiveDelims) (rest : List Char) :
    (∀ before buf,
      (caseOn = true → ¬(nonLower delims before.head? = true ∧ nonLower delims before.tail.head? = true ∧
        rest.head?.any isLower = true)) →
      bsplit delims (stateOf delims caseOn before) buf rest = wordsFrom delims caseOn before buf rest) ∧
    (∀ before w x l, caseOn = true → rest.head?.any isLower = true →
      bsplit delims (.multiUpper l) (w ++ [x]) rest = emit w (wordsFrom delims caseOn before [x] rest)) := by
  have lower_facts : ∀ c, isLower c = true → delims.contains c = false ∧ isUpper c = false := by
    intro c hc
    have hm := (isLower_iff c).mp hc
    refine ⟨?_, lowers_not_upper c hm⟩
    have h1 := lowers_not_delim c hm
    simp only [List.contains_eq_mem, decide_eq_false_iff_not] at h1 ⊢
    exact fun h => h1 (hsub c h)
  induction rest with
  | nil =>
    refine ⟨fun before buf _ => by simp [bsplit, wordsFrom, yield_eq_emit], fun before w x l _ h => by simp at h⟩
  | cons c cs ih =>
    obtain ⟨ihS, ihL⟩ := ih
    constructor
    · intro before buf hinv
      cases caseOn with
      | false =>
        have hst : ∀ b, stateOf delims false b = .ignoreCase := fun b => by simp [stateOf]
        rw [hst]
        rcases bsplit_step delims .ignoreCase buf c cs with ⟨hd, e⟩ | ⟨_, h, _⟩ | ⟨_, ⟨l, h⟩, _⟩ | ⟨hd, _, _, e⟩
        · rw [e, wordsFrom]; simp only [hd, if_true, yield_eq_emit]
          have := ihS (c :: before) [] (by simp); rw [hst] at this; rw [this]
        · simp at h
        · simp at h
        · rw [e, wordsFrom]; simp only [hd, Bool.false_and, if_false]
          have := ihS (c :: before) (buf ++ [c]) (by simp); rw [hst] at this
          simpa [nextState] using this
      | true =>
        have hinv := hinv rfl
        simp only [List.head?_cons, Option.any_some] at hinv
        rcases bsplit_step delims (stateOf delims true before) buf c cs with
          ⟨hd, e⟩ | ⟨hd, hst, hu, e⟩ | ⟨hd, ⟨l, hst⟩, hl, e⟩ | ⟨hd, hn2, hn3, e⟩
        · -- (1) separator
          rw [e, wordsFrom]; simp only [hd, if_true, yield_eq_emit, stateOf_ne_ignore, if_false]
          have hN := nonLower_sep delims c hd
          have hs : stateOf delims true (c :: before) = .lower := by
            rw [stateOf_lower_iff]; simpa using hN
          have := ihS (c :: before) [] (by intro _; simp [hN])
          rw [hs] at this; rw [this]
        · -- (2) lower to upper
          have hb : nonLower delims before.head? = false := (stateOf_lower_iff delims before).mp hst
          have hlc : isLower c = false := uppers_not_lower c ((isUpper_iff c).mp hu)
          have hcut : cutHere delims before c cs.head? = true := by simp [cutHere, hu, hb]
          rw [e, wordsFrom]; simp only [hd, hcut, Bool.and_self, if_true, Bool.false_eq_true, if_false, yield_eq_emit]
          have hN : nonLower delims (some c) = true := by rw [nonLower_nonsep delims c hd, hlc]; rfl
          have hs : stateOf delims true (c :: before) = .oneUpper := by
            simp [stateOf, hN, hb]
          have := ihS (c :: before) [c] (by intro _; simp [hb])
          rw [hs] at this; rw [this]
        · -- (3) cannot be in step: the cut was taken one character earlier
          exact absurd ⟨(stateOf_multi delims before l hst).1, (stateOf_multi delims before l hst).2, hl⟩ hinv
        · -- no cut by the machine at this character
          have h2 : (isUpper c && !nonLower delims before.head?) = false := by
            cases hu : isUpper c <;> cases hb : nonLower delims before.head? <;> simp
            exact hn2 ⟨(stateOf_lower_iff delims before).mpr hb, hu⟩
          by_cases h3 : (nonLower delims (some c) && nonLower delims before.head? && cs.head?.any isLower) = true
          · -- the specification cuts here, the machine one character later
            simp only [Bool.and_eq_true] at h3
            obtain ⟨⟨hNc, hNb⟩, hnext⟩ := h3
            have hlc : isLower c = false := by rw [nonLower_nonsep delims c hd] at hNc; simpa using hNc
            have hne : stateOf delims true before ≠ .lower := by
              rw [Ne, stateOf_lower_iff]; simp [hNb]
            have hcut : cutHere delims before c cs.head? = true := by simp [cutHere, hNc, hNb, hnext]
            rw [e, wordsFrom]; simp only [hd, hcut, Bool.and_self, if_true, Bool.false_eq_true, if_false, yield_eq_emit]
            have hns : nextState (stateOf delims true before) c = .multiUpper c := by
              simp [nextState, stateOf_ne_ignore, hlc, hne]
            rw [hns, ihL (c :: before) buf c c rfl hnext]
          · have hcut : cutHere delims before c cs.head? = false := by
              simp only [cutHere, h2, Bool.false_or]; simpa using h3
            rw [e, wordsFrom]; simp only [hd, hcut, Bool.and_false, Bool.false_eq_true, if_false]
            have hns : nextState (stateOf delims true before) c = stateOf delims true (c :: before) := by
              have hrhs : stateOf delims true (c :: before) =
                  (if nonLower delims (some c) = true then
                    (if nonLower delims before.head? = true then CaseState.multiUpper c else .oneUpper)
                  else .lower) := rfl
              rw [hrhs, nonLower_nonsep delims c hd]
              unfold nextState
              rw [if_neg (stateOf_ne_ignore delims before)]
              cases hlc : isLower c
              · by_cases hb : nonLower delims before.head? = true
                · have : stateOf delims true before ≠ .lower := by rw [Ne, stateOf_lower_iff]; simp [hb]
                  simp [this, hb]
                · have : stateOf delims true before = .lower := by rw [stateOf_lower_iff]; simpa using hb
                  simp [this, hb]
              · simp
            rw [hns]
            exact ihS (c :: before) (buf ++ [c]) (by
              intro _
              simp only [List.head?_cons, List.tail_cons]
              intro ⟨a1, a2, a3⟩
              exact h3 (by simp [a1, a2, a3]))
    · intro before w x l hon hl
      simp only [List.head?_cons, Option.any_some] at hl
      obtain ⟨hd, hu⟩ := lower_facts c hl
      rcases bsplit_step delims (.multiUpper l) (w ++ [x]) c cs with ⟨h, _⟩ | ⟨_, h, _⟩ | ⟨_, _, _, e⟩ | ⟨_, _, h3, _⟩
      · rw [hd] at h; contradiction
      · simp at h
      · rw [e]
        have hN : nonLower delims (some c) = false := by rw [nonLower_nonsep delims c hd, hl]; rfl
        have hcut : cutHere delims before c cs.head? = false := by
          simp [cutHere, hu, hN]
        have hstate : stateOf delims true (c :: before) = .lower := by
          simp [stateOf, hN]
        subst hon
        rw [wordsFrom]
        simp only [hd, hcut, Bool.and_false, Bool.false_eq_true, if_false]
        have := ihS (c :: before) ([x] ++ [c]) (by intro _; simp [hN])
        rw [hstate] at this
        simp only [List.cons_append, List.nil_append] at this
        simp [this]
      · exact absurd ⟨⟨l, rfl⟩, hl⟩ h3
end AGV.StringCase
