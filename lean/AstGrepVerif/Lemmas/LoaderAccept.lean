/-
Inversion lemmas for the checks of `Model/CheckVar.lean` and the registry of `Model/Loader.lean`:
what a successful step guarantees, and what a reported error means.
-/
import AstGrepVerif.Lemmas.CheckVar
import AstGrepVerif.Lemmas.LoaderTopo

namespace AGV.Loader

open AGV AGV.Loader.Spec

theorem memName_iff (v : Name) (vars : List Name) : memName v vars = true ↔ v ∈ vars := by
  unfold memName; simp

/-! ### `firstMissing` -/

theorem firstMissing_none (vars : List Name) : ∀ ks, firstMissing vars ks = none ↔ ∀ k ∈ ks, k ∈ vars
  | [] => by simp [firstMissing]
  | k :: ks => by
    simp only [firstMissing]
    by_cases h : memName k vars = true
    · simp only [h, ↓reduceIte, List.mem_cons, forall_eq_or_imp]
      rw [firstMissing_none vars ks]
      exact ⟨fun hh => ⟨(memName_iff k vars).mp h, hh⟩, fun hh => hh.2⟩
    · simp only [h, Bool.false_eq_true, ↓reduceIte, List.mem_cons, forall_eq_or_imp]
      constructor
      · intro hh; cases hh
      · intro hh; exact absurd ((memName_iff k vars).mpr hh.1) h

theorem firstMissing_some (vars : List Name) : ∀ ks k, firstMissing vars ks = some k → k ∈ ks ∧ k ∉ vars
  | [], k, h => by simp [firstMissing] at h
  | k0 :: ks, k, h => by
    simp only [firstMissing] at h
    by_cases h0 : memName k0 vars = true
    · simp only [h0, ↓reduceIte] at h
      obtain ⟨h1, h2⟩ := firstMissing_some vars ks k h
      exact ⟨List.mem_cons_of_mem _ h1, h2⟩
    · simp only [h0, Bool.false_eq_true, ↓reduceIte, Option.some.injEq] at h
      subst h
      exact ⟨List.mem_cons_self, fun hm => h0 ((memName_iff _ _).mpr hm)⟩

/-! ### `check_var_in_constraints` -/

theorem checkVarInConstraints_ok (vars vars' : List Name) (cs : List (Name × SRule))
    (h : checkVarInConstraints vars cs = .ok vars') :
    vars' = vars ++ definedVarsList (cs.map (·.2)) ∧ ∀ k ∈ cs.map (·.1), k ∈ vars' := by
  unfold checkVarInConstraints at h
  simp only at h
  cases hm : firstMissing (vars ++ definedVarsList (cs.map (·.2))) (cs.map (·.1)) with
  | some k => rw [hm] at h; cases h
  | none =>
    rw [hm] at h
    injection h with h
    subst h
    exact ⟨rfl, (firstMissing_none _ _).mp hm⟩

theorem checkVarInConstraints_err (vars : List Name) (cs : List (Name × SRule)) (e : CoreErr)
    (h : checkVarInConstraints vars cs = .error e) :
    ∃ k, e = .undefinedMetaVar k .constraints ∧ k ∈ cs.map (·.1) ∧
      k ∉ vars ++ definedVarsList (cs.map (·.2)) := by
  unfold checkVarInConstraints at h
  simp only at h
  cases hm : firstMissing (vars ++ definedVarsList (cs.map (·.2))) (cs.map (·.1)) with
  | none => rw [hm] at h; cases h
  | some k =>
    rw [hm] at h
    injection h with h
    obtain ⟨h1, h2⟩ := firstMissing_some _ _ k hm
    exact ⟨k, h.symm, h1, h2⟩

/-! ### `check_var_in_transform` -/

theorem insertKeys_ok : ∀ (ks vars vars' : List Name), insertKeys vars ks = .ok vars' →
    vars' = vars ++ ks ∧ (∀ k ∈ ks, k ∉ vars)
  | [], vars, vars', h => by
    simp only [insertKeys] at h
    injection h with h
    subst h
    exact ⟨by simp, fun k hk => by cases hk⟩
  | k :: ks, vars, vars', h => by
    simp only [insertKeys] at h
    by_cases hk : memName k vars = true
    · simp [hk] at h
    · simp only [hk, Bool.false_eq_true, ↓reduceIte] at h
      obtain ⟨h1, h2⟩ := insertKeys_ok ks (vars ++ [k]) vars' h
      refine ⟨by rw [h1]; simp, ?_⟩
      intro k' hk'
      rcases List.mem_cons.mp hk' with e | e
      · subst e; exact fun hm => hk ((memName_iff _ _).mpr hm)
      · intro hm
        exact h2 k' e (List.mem_append_left _ hm)

theorem insertKeys_err : ∀ (ks vars : List Name) (e : CoreErr), insertKeys vars ks = .error e →
    e = .transform .alreadyDefined ∧ ∃ k ∈ ks, k ∈ vars ∨ (ks.count k > 1)
  | [], vars, e, h => by simp [insertKeys] at h
  | k :: ks, vars, e, h => by
    simp only [insertKeys] at h
    by_cases hk : memName k vars = true
    · simp only [hk, ↓reduceIte] at h
      injection h with h
      exact ⟨h.symm, k, List.mem_cons_self, Or.inl ((memName_iff _ _).mp hk)⟩
    · simp only [hk, Bool.false_eq_true, ↓reduceIte] at h
      obtain ⟨h1, k', hk', h2⟩ := insertKeys_err ks (vars ++ [k]) e h
      refine ⟨h1, k', List.mem_cons_of_mem _ hk', ?_⟩
      rcases h2 with h2 | h2
      · rcases List.mem_append.mp h2 with h3 | h3
        · exact Or.inl h3
        · simp only [List.mem_singleton] at h3
          subst h3
          right
          have : List.count k' ks > 0 := List.count_pos_iff.mpr hk'
          simp only [List.count_cons_self]
          omega
      · right
        have : List.count k' ks ≤ List.count k' (k :: ks) := by
          simp only [List.count_cons]; omega
        omega

theorem checkSources_ok (fx : Fixes) (vars : List Name) : ∀ ts, checkSources fx vars ts = .ok () →
    ∀ t ∈ ts, ∃ v, usedVars fx t.source = some v ∧ v ∈ vars
  | [], _, t, ht => by cases ht
  | t0 :: ts, h, t, ht => by
    simp only [checkSources] at h
    cases hu : usedVars fx t0.source with
    | none => rw [hu] at h; cases h
    | some v =>
      rw [hu] at h
      simp only at h
      by_cases hm : memName v vars = true
      · simp only [hm, ↓reduceIte] at h
        rcases List.mem_cons.mp ht with e | e
        · subst e; exact ⟨v, hu, (memName_iff _ _).mp hm⟩
        · exact checkSources_ok fx vars ts h t e
      · simp [hm] at h

theorem checkSources_err (fx : Fixes) (vars : List Name) : ∀ ts e, checkSources fx vars ts = .err e →
    ∃ t ∈ ts, ∃ v, usedVars fx t.source = some v ∧ v ∉ vars ∧ e = .undefinedMetaVar v .transform
  | [], e, h => by simp [checkSources] at h
  | t0 :: ts, e, h => by
    simp only [checkSources] at h
    cases hu : usedVars fx t0.source with
    | none => rw [hu] at h; cases h
    | some v =>
      rw [hu] at h
      simp only at h
      by_cases hm : memName v vars = true
      · simp only [hm, ↓reduceIte] at h
        obtain ⟨t, ht, v', h1, h2, h3⟩ := checkSources_err fx vars ts e h
        exact ⟨t, List.mem_cons_of_mem _ ht, v', h1, h2, h3⟩
      · simp only [hm, Bool.false_eq_true, ↓reduceIte] at h
        injection h with h
        exact ⟨t0, List.mem_cons_self, v, hu, fun hv => hm ((memName_iff _ _).mpr hv), h.symm⟩

theorem checkVarInTransform_ok (fx : Fixes) (vars vars' : List Name) (tr : List (Name × STrans))
    (h : checkVarInTransform fx vars (some tr) = .ok vars') :
    vars' = vars ++ tr.map (·.1) ∧ (∀ k ∈ tr.map (·.1), k ∉ vars) ∧
      ∀ t ∈ tr.map (·.2), ∃ v, usedVars fx t.source = some v ∧ v ∈ vars' := by
  simp only [checkVarInTransform] at h
  cases hi : insertKeys vars (tr.map (·.1)) with
  | error e => rw [hi] at h; cases h
  | ok vars1 =>
    rw [hi] at h
    simp only at h
    obtain ⟨h1, h2⟩ := insertKeys_ok _ _ _ hi
    cases hc : checkSources fx vars1 (tr.map (·.2)) with
    | ok u =>
      rw [hc] at h
      simp only at h
      injection h with h
      subst h
      exact ⟨h1, h2, checkSources_ok fx vars1 _ hc⟩
    | err e => rw [hc] at h; cases h
    | panic s => rw [hc] at h; cases h

theorem checkVarInTransform_none (fx : Fixes) (vars vars' : List Name)
    (h : checkVarInTransform fx vars none = .ok vars') : vars' = vars := by
  simp only [checkVarInTransform] at h
  injection h with h; exact h.symm

/-! ### `check_var_in_fix` -/

theorem checkVarInFix_ok (vars used : List Name) (h : checkVarInFix vars used = .ok ()) :
    ∀ v ∈ used, v ∈ vars := by
  unfold checkVarInFix at h
  cases hm : firstMissing vars used with
  | some k => rw [hm] at h; cases h
  | none => exact (firstMissing_none _ _).mp hm

theorem checkVarInFix_err (vars used : List Name) (e : CoreErr) (h : checkVarInFix vars used = .error e) :
    ∃ v, e = .undefinedMetaVar v .fix ∧ v ∈ used ∧ v ∉ vars := by
  unfold checkVarInFix at h
  cases hm : firstMissing vars used with
  | none => rw [hm] at h; cases h
  | some k =>
    rw [hm] at h
    injection h with h
    obtain ⟨h1, h2⟩ := firstMissing_some _ _ k hm
    exact ⟨k, h.symm, h1, h2⟩

/-! ### `check_vars` -/

/-- the variables `check_vars` starts from -/
def CheckInput.vars0 (i : CheckInput) : List Name := definedVars i.rule ++ i.localUtilVars

/-- what a successful variable check guarantees -/
structure VarsOk (fx : Fixes) (i : CheckInput) (upper : List Name) : Prop where
  /-- every constraint key is defined by the rule, a utility or a constraint -/
  constraintKeys : ∀ k ∈ i.constraints.map (·.1),
    k ∈ i.vars0 ++ definedVarsList (i.constraints.map (·.2))
  /-- no transformation key redefines such a variable, every transformation source is one of
  them or another transformation key -/
  transformKeys : ∀ tr, i.transform = some tr →
    (∀ k ∈ tr.map (·.1), k ∉ i.vars0 ++ definedVarsList (i.constraints.map (·.2))) ∧
    ∀ t ∈ tr.map (·.2), ∃ v, usedVars fx t.source = some v ∧
      v ∈ i.vars0 ++ definedVarsList (i.constraints.map (·.2)) ++ tr.map (·.1)
  /-- every fix variable is one of them, a transformation key, or a variable of the enclosing rule -/
  fixVars : ∀ used, i.fixVars = some used → ∀ v ∈ used,
    v ∈ i.vars0 ++ definedVarsList (i.constraints.map (·.2)) ++
      (match i.transform with | some tr => tr.map (·.1) | none => []) ++ upper

theorem checkVars_ok (fx : Fixes) (i : CheckInput) (upper : List Name) (h : checkVars fx i upper = .ok ()) :
    VarsOk fx i upper := by
  unfold checkVars at h
  simp only at h
  cases hc : checkVarInConstraints (definedVars i.rule ++ i.localUtilVars) i.constraints with
  | error e => rw [hc] at h; cases h
  | ok vars1 =>
    rw [hc] at h
    simp only at h
    obtain ⟨hv1, hk1⟩ := checkVarInConstraints_ok _ _ _ hc
    cases ht : checkVarInTransform fx vars1 i.transform with
    | err e => rw [ht] at h; cases h
    | panic s => rw [ht] at h; cases h
    | ok vars2 =>
      rw [ht] at h
      simp only at h
      refine ⟨?_, ?_, ?_⟩
      · intro k hk
        have := hk1 k hk
        rw [hv1] at this
        exact this
      · intro tr htr
        rw [htr] at ht
        obtain ⟨h1, h2, h3⟩ := checkVarInTransform_ok fx vars1 vars2 tr ht
        rw [hv1] at h2 h1
        refine ⟨h2, ?_⟩
        intro t htm
        obtain ⟨v, hu, hv⟩ := h3 t htm
        exact ⟨v, hu, by rw [h1] at hv; exact hv⟩
      · intro used hu v hv
        rw [hu] at h
        simp only at h
        cases hf : checkVarInFix (vars2 ++ upper) used with
        | error e => rw [hf] at h; cases h
        | ok u =>
          have hmem := checkVarInFix_ok _ _ hf v hv
          cases htr : i.transform with
          | none =>
            rw [htr] at ht
            have he := checkVarInTransform_none fx vars1 vars2 ht
            rw [he, hv1] at hmem
            simpa [CheckInput.vars0, or_assoc] using hmem
          | some tr =>
            rw [htr] at ht
            obtain ⟨h1, _, _⟩ := checkVarInTransform_ok fx vars1 vars2 tr ht
            rw [h1, hv1] at hmem
            exact hmem

/-! ### the registry built by `with_utils` -/

theorem registerUtils_ok (fx : Fixes) (globals : List GlobalUtil) (utils : List (Name × SRule)) :
    ∀ ids reg reg', registerUtils fx globals utils ids reg = .ok reg' →
      ∃ added, reg' = reg ++ added ∧ added.map (·.id) = ids ∧
        ∀ u ∈ added, alookup u.id utils = some u.rule
  | [], reg, reg', h => by
    simp only [registerUtils] at h
    injection h with h
    exact ⟨[], by simp [h], rfl, fun u hu => by cases hu⟩
  | id :: ids, reg, reg', h => by
    simp only [registerUtils] at h
    cases hl : alookup id utils with
    | none => rw [hl] at h; cases h
    | some rule =>
      rw [hl] at h
      simp only at h
      cases hd : deserRule fx rule with
      | err e => rw [hd] at h; cases h
      | panic s => rw [hd] at h; cases h
      | ok u =>
        rw [hd] at h
        simp only at h
        split at h
        · cases h
        · split at h
          · cases h
          · obtain ⟨added, h1, h2, h3⟩ := registerUtils_ok fx globals utils ids _ reg' h
            refine ⟨⟨id, rule, potKinds reg globals rule⟩ :: added, ?_, ?_, ?_⟩
            · rw [h1]; simp
            · simp [h2]
            · intro u hu
              rcases List.mem_cons.mp hu with e | e
              · subst e; exact hl
              · exact h3 u e

theorem withUtils_ok (fx : Fixes) (globals : List GlobalUtil) (utils : List (Name × SRule))
    (reg reg' : Registry) (h : withUtils fx globals utils reg = .ok reg') :
    ∃ added, reg' = reg ++ added ∧ (∀ id, id ∈ added.map (·.id) ↔ id ∈ utils.map (·.1)) ∧
      (added.map (·.id)).Nodup ∧ ∀ u ∈ added, alookup u.id utils = some u.rule := by
  unfold withUtils at h
  cases ho : getOrder (utils.map fun kv => (kv.1, depIds fx kv.2)) with
  | error e => rw [ho] at h; cases e <;> cases h
  | ok order =>
    rw [ho] at h
    simp only at h
    obtain ⟨added, h1, h2, h3⟩ := registerUtils_ok fx globals utils order reg reg' h
    obtain ⟨hord, hkeys⟩ := getOrder_ok _ order ho
    refine ⟨added, h1, ?_, ?_, h3⟩
    · intro id
      rw [h2, hkeys id]
      unfold IsKey
      simp [List.map_map, Function.comp_def]
    · rw [h2]; exact hord.nodup

theorem Registry.has_iff (reg : Registry) (id : Name) : reg.has id = true ↔ id ∈ reg.map (·.id) := by
  unfold Registry.has Registry.find
  rw [List.find?_isSome]
  constructor
  · rintro ⟨u, hu, he⟩
    exact List.mem_map.mpr ⟨u, hu, by simpa using he⟩
  · intro h
    obtain ⟨u, hu, he⟩ := List.mem_map.mp h
    exact ⟨u, hu, by simp [he]⟩

end AGV.Loader
