/-
Environment discipline of the rule evaluator (`Model/Rule.lean`): lemmas for property C04.
-/
import AstGrepVerif.Model.Rule

set_option linter.unusedSimpArgs false
set_option linter.unusedVariables false

namespace AGV

/-! ## `withLabel` -/

theorem withLabel_none {ctx : RCtx} {x : Except Abn (Option Tree × Env)} {env' : Env}
    (h : withLabel ctx x = .ok (none, env')) : x = .ok (none, env') := by
  rcases x with e | ⟨m, env⟩
  · simp [withLabel] at h
  · cases m with
    | none => simpa [withLabel] using h
    | some m => simp [withLabel] at h

theorem withLabel_some {ctx : RCtx} {x : Except Abn (Option Tree × Env)} {m : Tree} {env' : Env}
    (h : withLabel ctx x = .ok (some m, env')) :
    ∃ env1, x = .ok (some m, env1) ∧ env' = env1.addLabel secondaryLabel m := by
  rcases x with e | ⟨m', env⟩
  · simp [withLabel] at h
  · cases m' with
    | none => simp [withLabel] at h
    | some m' =>
      simp only [withLabel, Except.ok.injEq, Prod.mk.injEq, Option.some.injEq] at h
      obtain ⟨rfl, rfl⟩ := h
      exact ⟨env, rfl, rfl⟩

/-! ## No trace: a failed rule leaves the caller's environment as it was

(Since the repair of `RuleCore::do_match` — rule and constraints work on a scratch copy of the
caller's environment — this holds for every rule form and every registry.) -/

/-- no global utility rule has constraints (still needed by C05: the reference semantics
ignores constraints) -/
def NoGlobalConstraints (ctx : RCtx) : Prop :=
  ∀ id core, alookup id ctx.globals = some core → core.constraints = []

section
variable (ctx : RCtx)

def NTRule (fuel : Nat) : Prop :=
  ∀ r n env env', matchRule ctx fuel r n env = .ok (none, env') → env' = env
def NTFinder (fuel : Nat) : Prop :=
  ∀ r field eid c env env', finderStep ctx fuel r field eid c env = .ok (none, env') → env' = env
def NTFindMap (fuel : Nat) : Prop :=
  ∀ r field eid cs env env', findMapRule ctx fuel r field eid cs env = .ok (none, env') → env' = env
def NTUntil (fuel : Nat) : Prop :=
  ∀ r s field eid st cs env env',
    findMapUntil ctx fuel r s field eid st cs env = .ok (none, env') → env' = env
def NTStopBy (fuel : Nat) : Prop :=
  ∀ stop r field eid once multi env env',
    stopByFind ctx fuel stop r field eid once multi env = .ok (none, env') → env' = env
def NTInside (fuel : Nat) : Prop :=
  ∀ r stop field n env env', matchInside ctx fuel r stop field n env = .ok (none, env') → env' = env
def NTHas (fuel : Nat) : Prop :=
  ∀ r stop field n env env', matchHas ctx fuel r stop field n env = .ok (none, env') → env' = env
def NTHasUntil (fuel : Nat) : Prop :=
  ∀ r s cs env env', hasUntil ctx fuel r s cs env = .ok (none, env') → env' = env
def NTCore (fuel : Nat) : Prop :=
  ∀ core n env env', matchCore ctx fuel core n env = .ok (none, env') → env' = env

/-- without constraints the constraint loop is the identity -/
theorem constraintLoop_nil (fuel : Nat) (l : List (Name × Tree)) (env : Env) (b : Bool) (env' : Env)
    (h : constraintLoop ctx fuel [] l env = .ok (b, env')) : b = true ∧ env' = env := by
  induction fuel generalizing l with
  | zero => simp [constraintLoop] at h
  | succ fuel ih =>
    cases l with
    | nil =>
      simp only [constraintLoop, Except.ok.injEq, Prod.mk.injEq] at h
      exact ⟨h.1.symm, h.2.symm⟩
    | cons x xs =>
      obtain ⟨v, cand⟩ := x
      simp only [constraintLoop, alookup] at h
      exact ih _ h

theorem nt_finder_step (fuel : Nat) (hR : NTRule ctx fuel) : NTFinder ctx (fuel + 1) := by
  intro r field eid c env env' h
  cases field with
  | none => simp only [finderStep] at h; exact hR _ _ _ _ h
  | some f =>
    simp only [finderStep] at h
    split at h
    · simp only [Except.ok.injEq, Prod.mk.injEq, true_and] at h; exact h.symm
    · split at h
      · simp only [Except.ok.injEq, Prod.mk.injEq, true_and] at h; exact h.symm
      · exact hR _ _ _ _ h

theorem nt_findMap_step (fuel : Nat) (hF : NTFinder ctx fuel) (hM : NTFindMap ctx fuel) :
    NTFindMap ctx (fuel + 1) := by
  intro r field eid cs env env' h
  cases cs with
  | nil =>
    simp only [findMapRule, Except.ok.injEq, Prod.mk.injEq, true_and] at h; exact h.symm
  | cons c cs =>
    simp only [findMapRule] at h
    split at h
    · cases h
    · simp at h
    · next env1 hf =>
      have := hF _ _ _ _ _ _ hf; subst this
      exact hM _ _ _ _ _ _ h

theorem nt_until_step (fuel : Nat) (hF : NTFinder ctx fuel) (hU : NTUntil ctx fuel) :
    NTUntil ctx (fuel + 1) := by
  intro r s field eid st cs env env' h
  cases cs with
  | nil =>
    simp only [findMapUntil, Except.ok.injEq, Prod.mk.injEq, true_and] at h; exact h.symm
  | cons c cs =>
    simp only [findMapUntil] at h
    split at h
    · simp only [Except.ok.injEq, Prod.mk.injEq, true_and] at h; exact h.symm
    · split at h
      · cases h
      · split at h
        · cases h
        · simp at h
        · next env1 hf =>
          have := hF _ _ _ _ _ _ hf; subst this
          exact hU _ _ _ _ _ _ _ _ h

theorem nt_stopBy_step (fuel : Nat) (hF : NTFinder ctx fuel) (hM : NTFindMap ctx fuel)
    (hU : NTUntil ctx fuel) : NTStopBy ctx (fuel + 1) := by
  intro stop r field eid once multi env env' h
  cases stop with
  | neighbor =>
    cases once with
    | none => simp only [stopByFind, Except.ok.injEq, Prod.mk.injEq, true_and] at h; exact h.symm
    | some c => simp only [stopByFind] at h; exact hF _ _ _ _ _ _ h
  | end_ =>
    simp only [stopByFind] at h
    exact hM _ _ _ _ _ _ h
  | rule s =>
    simp only [stopByFind] at h
    exact hU _ _ _ _ _ _ _ _ h

theorem nt_inside_step (fuel : Nat) (hS : NTStopBy ctx fuel) : NTInside ctx (fuel + 1) := by
  intro r stop field n env env' h
  simp only [matchInside] at h
  exact hS _ _ _ _ _ _ _ _ h

theorem nt_hasUntil_step (fuel : Nat) (hR : NTRule ctx fuel) (hH : NTHasUntil ctx fuel) :
    NTHasUntil ctx (fuel + 1) := by
  intro r s cs env env' h
  cases cs with
  | nil =>
    simp only [hasUntil, Except.ok.injEq, Prod.mk.injEq, true_and] at h; exact h.symm
  | cons c cs =>
    simp only [hasUntil] at h
    split at h
    · cases h
    · simp at h
    · next env1 hm =>
      have := hR _ _ _ _ hm; subst this
      split at h
      · cases h
      · exact hH _ _ _ _ _ h
      · split at h
        · cases h
        · simp at h
        · next env2 hh =>
          have := hH _ _ _ _ _ hh; subst this
          exact hH _ _ _ _ _ h

theorem nt_has_step (fuel : Nat) (hR : NTRule ctx fuel) (hM : NTFindMap ctx fuel)
    (hH : NTHasUntil ctx fuel) : NTHas ctx (fuel + 1) := by
  intro r stop field n env env' h
  cases field with
  | some f =>
    simp only [matchHas] at h
    split at h
    · simp only [Except.ok.injEq, Prod.mk.injEq, true_and] at h; exact h.symm
    · split at h
      · exact hR _ _ _ _ h
      · exact hM _ _ _ _ _ _ h
      · split at h
        · cases h
        · simp at h
        · next env1 hm =>
          have := hR _ _ _ _ hm; subst this
          split at h
          · cases h
          · simp only [Except.ok.injEq, Prod.mk.injEq, true_and] at h; exact h.symm
          · exact hH _ _ _ _ _ h
  | none =>
    cases stop with
    | neighbor => simp only [matchHas] at h; exact hM _ _ _ _ _ _ h
    | end_ => simp only [matchHas] at h; exact hM _ _ _ _ _ _ h
    | rule s => simp only [matchHas] at h; exact hH _ _ _ _ _ h

theorem nt_core_step (fuel : Nat) : NTCore ctx (fuel + 1) := by
  intro core n env env' h
  simp only [matchCore] at h
  split at h
  · simp only [Except.ok.injEq, Prod.mk.injEq, true_and] at h; exact h.symm
  · split at h
    · cases h
    · simp only [Except.ok.injEq, Prod.mk.injEq, true_and] at h; exact h.symm
    · split at h
      · cases h
      · simp at h
      · simp only [Except.ok.injEq, Prod.mk.injEq, true_and] at h; exact h.symm

theorem nt_rule_step (fuel : Nat) (hR : NTRule ctx fuel)
    (hI : NTInside ctx fuel) (hH : NTHas ctx fuel) (hS : NTStopBy ctx fuel) (hC : NTCore ctx fuel) :
    NTRule ctx (fuel + 1) := by
  intro r n env env' h
  cases r with
  | pattern p rootKind s =>
    cases rootKind <;>
    · simp only [matchRule] at h
      split at h
      · simp only [Except.ok.injEq, Prod.mk.injEq, true_and] at h; exact h.symm
      · split at h
        · cases h
        · simp at h
        · simp only [Except.ok.injEq, Prod.mk.injEq, true_and] at h; exact h.symm
  | kind k => simp only [matchRule, Except.ok.injEq, Prod.mk.injEq] at h; exact h.2.symm
  | regex id => simp only [matchRule, Except.ok.injEq, Prod.mk.injEq] at h; exact h.2.symm
  | range sl sc el ec =>
    simp only [matchRule] at h
    split at h
    · simp only [Except.ok.injEq, Prod.mk.injEq, true_and] at h; exact h.symm
    · split at h
      · simp only [Except.ok.injEq, Prod.mk.injEq, true_and] at h; exact h.symm
      · simp at h
  | nthChild a b ofRule reverse =>
    cases ofRule with
    | none =>
      simp only [matchRule] at h
      split at h
      · simp only [Except.ok.injEq, Prod.mk.injEq, true_and] at h; exact h.symm
      · split at h
        · simp only [Except.ok.injEq, Prod.mk.injEq, true_and] at h; exact h.symm
        · split at h
          · simp only [Except.ok.injEq, Prod.mk.injEq, true_and] at h; exact h.symm
          · simp at h
    | some rule =>
      simp only [matchRule] at h
      split at h
      · simp only [Except.ok.injEq, Prod.mk.injEq, true_and] at h; exact h.symm
      · split at h
        · cases h
        · split at h
          · simp only [Except.ok.injEq, Prod.mk.injEq, true_and] at h; exact h.symm
          · split at h
            · simp only [Except.ok.injEq, Prod.mk.injEq, true_and] at h; exact h.symm
            · split at h
              · cases h
              · simp at h
              · next env1 hm =>
                simp only [Except.ok.injEq, Prod.mk.injEq, true_and] at h; subst h
                exact hR _ _ _ _ hm
  | all rs kinds =>
    simp only [matchRule] at h
    split at h
    · simp only [Except.ok.injEq, Prod.mk.injEq, true_and] at h; exact h.symm
    · split at h
      · cases h
      · simp at h
      · simp only [Except.ok.injEq, Prod.mk.injEq, true_and] at h; exact h.symm
  | any rs kinds =>
    simp only [matchRule] at h
    split at h
    · simp only [Except.ok.injEq, Prod.mk.injEq, true_and] at h; exact h.symm
    · split at h
      · cases h
      · simp at h
      · simp only [Except.ok.injEq, Prod.mk.injEq, true_and] at h; exact h.symm
  | not r =>
    simp only [matchRule] at h
    split at h
    · cases h
    · simp only [Except.ok.injEq, Prod.mk.injEq, true_and] at h; exact h.symm
    · simp at h
  | «matches» id =>
    simp only [matchRule] at h
    split at h
    · exact hR _ _ _ _ h
    · split at h
      · exact hC _ _ _ _ h
      · simp only [Except.ok.injEq, Prod.mk.injEq, true_and] at h; exact h.symm
  | inside r stop field =>
    simp only [matchRule] at h
    exact hI _ _ _ _ _ _ (withLabel_none h)
  | has r stop field =>
    simp only [matchRule] at h
    exact hH _ _ _ _ _ _ (withLabel_none h)
  | precedes r stop =>
    simp only [matchRule] at h
    exact hS _ _ _ _ _ _ _ _ (withLabel_none h)
  | follows r stop =>
    simp only [matchRule] at h
    exact hS _ _ _ _ _ _ _ _ (withLabel_none h)

/-- all the no-trace invariants, by induction on the fuel -/
theorem all_notrace (fuel : Nat) :
    NTRule ctx fuel ∧ NTFinder ctx fuel ∧ NTFindMap ctx fuel ∧ NTUntil ctx fuel ∧
    NTStopBy ctx fuel ∧ NTInside ctx fuel ∧ NTHas ctx fuel ∧ NTHasUntil ctx fuel ∧
    NTCore ctx fuel := by
  induction fuel with
  | zero =>
    refine ⟨?_, ?_, ?_, ?_, ?_, ?_, ?_, ?_, ?_⟩
    · intro r n env env' h; simp [matchRule] at h
    · intro r field eid c env env' h; simp [finderStep] at h
    · intro r field eid cs env env' h; simp [findMapRule] at h
    · intro r s field eid st cs env env' h; simp [findMapUntil] at h
    · intro stop r field eid once multi env env' h; simp [stopByFind] at h
    · intro r stop field n env env' h; simp [matchInside] at h
    · intro r stop field n env env' h; simp [matchHas] at h
    · intro r s cs env env' h; simp [hasUntil] at h
    · intro core n env env' h; simp [matchCore] at h
  | succ fuel ih =>
    obtain ⟨hR, hF, hM, hU, hS, hI, hH, hHU, hC⟩ := ih
    exact ⟨nt_rule_step ctx fuel hR hI hH hS hC, nt_finder_step ctx fuel hR,
      nt_findMap_step ctx fuel hF hM, nt_until_step ctx fuel hF hU,
      nt_stopBy_step ctx fuel hF hM hU, nt_inside_step ctx fuel hS,
      nt_has_step ctx fuel hR hM hHU, nt_hasUntil_step ctx fuel hR hHU,
      nt_core_step ctx fuel⟩

end

/-! ## The pattern matcher only moves the aggregator state upwards

Generic in the aggregator: if every successful aggregator call goes from `st` to some `st'`
with `le st st'` (`le` a preorder), then every run of every function of the matcher does. -/

section
variable {σ : Type} (agg : Agg σ) (s : Strictness) (src : Bytes) (le : σ → σ → Prop)

def NodeUp (fuel : Nat) : Prop :=
  ∀ p c st r, matchNode agg s src fuel p c st = .ok r → le st r.2
def NodesUp (fuel : Nat) : Prop :=
  ∀ goals cands st r, matchNodes agg s src fuel goals cands st = .ok r → le st r.2
def LoopUp (fuel : Nat) : Prop :=
  ∀ goals cands st r, matchLoop agg s src fuel goals cands st = .ok r → le st r.2
def MayUp (fuel : Nat) : Prop :=
  ∀ goals cands st r, mayMatchEllipsis agg s src fuel goals cands st = .ok r → le st r.2.2.2
def ScanUp (fuel : Nat) : Prop :=
  ∀ optName skipped goals cands matched st r,
    ellipsisScan agg s src fuel optName skipped goals cands matched st = .ok r → le st r.2.2.2
def SingleUp (fuel : Nat) : Prop :=
  ∀ goals cands st r, matchSingle agg s src fuel goals cands st = .ok r → le st r.2.2.2

variable (le_refl : ∀ a, le a a) (le_trans : ∀ a b c, le a b → le b c → le a c)
  (hT : ∀ st t st', agg.terminal st t = some st' → le st st')
  (hM : ∀ st mv t st', agg.metaVar st mv t = some st' → le st st')
  (hE : ∀ st n l k st', agg.ellipsis st n l k = some st' → le st st')

include le_refl hT hM in
theorem node_up_step (fuel : Nat) (hN : NodesUp agg s src le fuel) :
    NodeUp agg s src le (fuel + 1) := by
  intro p c st r h
  cases p with
  | terminal text named kind =>
    simp only [matchNode] at h
    split at h
    · split at h
      · next st' hs =>
        simp only [Except.ok.injEq] at h; subst h
        exact hT _ _ _ hs
      · simp only [Except.ok.injEq] at h; subst h; exact le_refl _
    · simp only [Except.ok.injEq] at h; subst h; exact le_refl _
  | metaVar mv =>
    simp only [matchNode] at h
    split at h
    · next st' hs =>
      simp only [Except.ok.injEq] at h; subst h
      exact hM _ _ _ _ hs
    · simp only [Except.ok.injEq] at h; subst h; exact le_refl _
  | internal kind children =>
    simp only [matchNode] at h
    split at h
    · split at h
      · cases h
      · next st1 hm =>
        simp only [Except.ok.injEq] at h; subst h
        exact hN _ _ _ _ hm
      · next st1 hm =>
        simp only [Except.ok.injEq] at h; subst h
        exact hN _ _ _ _ hm
    · simp only [Except.ok.injEq] at h; subst h; exact le_refl _

include le_refl in
theorem nodes_up_step (fuel : Nat) (hL : LoopUp agg s src le fuel) :
    NodesUp agg s src le (fuel + 1) := by
  intro goals cands st r h
  simp only [matchNodes] at h
  split at h
  · simp only [Except.ok.injEq] at h; subst h; exact le_refl _
  · exact hL _ _ _ _ h

include le_refl hE in
theorem scan_up_step (fuel : Nat) (hS : ScanUp agg s src le fuel) :
    ScanUp agg s src le (fuel + 1) := by
  intro optName skipped goals cands matched st r h
  simp only [ellipsisScan] at h
  split at h
  · cases h
  · cases h
  · next g gt c cs =>
    -- the trial `matchNode` runs on a copy of the aggregator: what it writes is dropped
    split at h
    · cases h
    · split at h
      · next st2 he =>
        simp only [Except.ok.injEq] at h; subst h
        exact hE _ _ _ _ _ he
      · simp only [Except.ok.injEq] at h; subst h
        exact le_refl _
    · split at h
      · simp only [Except.ok.injEq] at h; subst h
        exact le_refl _
      · next c2 cs2 =>
        exact hS _ _ _ _ _ _ _ h

include le_refl hE in
theorem may_up_step (fuel : Nat) (hS : ScanUp agg s src le fuel) :
    MayUp agg s src le (fuel + 1) := by
  intro goals cands st r h
  simp only [mayMatchEllipsis] at h
  split at h
  · simp only [Except.ok.injEq] at h; subst h; exact le_refl _
  · next g gs =>
    split at h
    · simp only [Except.ok.injEq] at h; subst h; exact le_refl _
    · next optName hmode =>
      split at h
      · split at h
        · next st' he =>
          simp only [Except.ok.injEq] at h; subst h
          exact hE _ _ _ _ _ he
        · simp only [Except.ok.injEq] at h; subst h; exact le_refl _
      · next g1 gs1 =>
        generalize skipTrivialGoals (g1 :: gs1) = sk at h
        obtain ⟨skipped, gs'⟩ := sk
        simp only at h
        split at h
        · split at h
          · next st' he =>
            simp only [Except.ok.injEq] at h; subst h
            exact hE _ _ _ _ _ he
          · simp only [Except.ok.injEq] at h; subst h; exact le_refl _
        · next g2 gt2 =>
          split at h
          · split at h
            · cases h
            · next c cs =>
              split at h
              · simp only [Except.ok.injEq] at h; subst h
                exact le_refl _
              · split at h
                · next st' he =>
                  simp only [Except.ok.injEq] at h; subst h
                  exact hE _ _ _ _ _ he
                · simp only [Except.ok.injEq] at h; subst h
                  exact le_refl _
          · exact hS _ _ _ _ _ _ _ h

include le_refl le_trans in
theorem single_up_step (fuel : Nat) (hN : NodeUp agg s src le fuel)
    (hS : SingleUp agg s src le fuel) : SingleUp agg s src le (fuel + 1) := by
  intro goals cands st r h
  simp only [matchSingle] at h
  split at h
  · split at h
    · simp only [Except.ok.injEq] at h; subst h; exact le_refl _
    · simp only [Except.ok.injEq] at h; subst h; exact le_refl _
  · next c cs =>
    split at h
    · cases h
    · next g gs =>
      split at h
      · cases h
      · next st1 hm =>
        simp only [Except.ok.injEq] at h; subst h
        exact hN _ _ _ _ hm
      · next st1 hm =>
        have g1 := hN _ _ _ _ hm
        split at h
        · simp only [Except.ok.injEq] at h; subst h
          exact g1
        · exact le_trans _ _ _ g1 (hS _ _ _ _ h)
      · next st1 hm =>
        have g1 := hN _ _ _ _ hm
        split at h
        · simp only [Except.ok.injEq] at h; subst h
          exact g1
        · exact le_trans _ _ _ g1 (hS _ _ _ _ h)
      · next st1 hm =>
        have g1 := hN _ _ _ _ hm
        exact le_trans _ _ _ g1 (hS _ _ _ _ h)
      · next st1 hm =>
        simp only [Except.ok.injEq] at h; subst h
        exact hN _ _ _ _ hm

include le_trans in
theorem loop_up_step (fuel : Nat) (hM' : MayUp agg s src le fuel)
    (hS : SingleUp agg s src le fuel) (hL : LoopUp agg s src le fuel) :
    LoopUp agg s src le (fuel + 1) := by
  intro goals cands st r h
  simp only [matchLoop] at h
  split at h
  · cases h
  · next hm => simp only [Except.ok.injEq] at h; subst h; exact hM' _ _ _ _ hm
  · next hm => simp only [Except.ok.injEq] at h; subst h; exact hM' _ _ _ _ hm
  · next goals1 cands1 st1 hm =>
    exact le_trans _ _ _ (hM' _ _ _ _ hm) (hL _ _ _ _ h)
  · next goals1 cands1 st1 hm =>
    have g1 := hM' _ _ _ _ hm
    simp only at g1
    split at h
    · cases h
    · next hs =>
      simp only [Except.ok.injEq] at h; subst h
      exact le_trans _ _ _ g1 (hS _ _ _ _ hs)
    · next hs =>
      simp only [Except.ok.injEq] at h; subst h
      exact le_trans _ _ _ g1 (hS _ _ _ _ hs)
    · next goals2 cands2 st2 hs =>
      exact le_trans _ _ _ (le_trans _ _ _ g1 (hS _ _ _ _ hs)) (hL _ _ _ _ h)
    · next goals2 cands2 st2 hs =>
      have g12 := le_trans _ _ _ g1 (hS _ _ _ _ hs)
      simp only at g12
      cases goals2 with
      | nil =>
        simp only [Except.ok.injEq] at h; subst h; exact g12
      | cons g0 gs0 =>
        simp only at h
        split at h
        · simp only [Except.ok.injEq] at h; subst h; exact g12
        · split at h
          · simp only [Except.ok.injEq] at h; subst h; exact g12
          · exact le_trans _ _ _ g12 (hL _ _ _ _ h)

include le_refl le_trans hT hM hE in
theorem all_up (fuel : Nat) :
    NodeUp agg s src le fuel ∧ NodesUp agg s src le fuel ∧ LoopUp agg s src le fuel ∧
    MayUp agg s src le fuel ∧ ScanUp agg s src le fuel ∧ SingleUp agg s src le fuel := by
  induction fuel with
  | zero =>
    refine ⟨?_, ?_, ?_, ?_, ?_, ?_⟩
    · intro p c st r h; simp [matchNode] at h
    · intro goals cands st r h; simp [matchNodes] at h
    · intro goals cands st r h; simp [matchLoop] at h
    · intro goals cands st r h; simp [mayMatchEllipsis] at h
    · intro optName skipped goals cands matched st r h; simp [ellipsisScan] at h
    · intro goals cands st r h; simp [matchSingle] at h
  | succ fuel ih =>
    obtain ⟨hN, hNs, hL, hMy, hSc, hSi⟩ := ih
    exact ⟨node_up_step agg s src le le_refl hT hM fuel hNs,
      nodes_up_step agg s src le le_refl fuel hL,
      loop_up_step agg s src le le_trans fuel hMy hSi hL,
      may_up_step agg s src le le_refl hE fuel hSc,
      scan_up_step agg s src le le_refl hE fuel hSc,
      single_up_step agg s src le le_refl le_trans fuel hN hSi⟩

end

/-! ## Association lists -/

theorem alookup_ainsert_eq {β} (k : Name) (v : β) (l : List (Name × β)) :
    alookup k (ainsert k v l) = some v := by
  induction l with
  | nil => simp [ainsert, alookup]
  | cons x xs ih =>
    obtain ⟨k', v'⟩ := x
    simp only [ainsert]
    split
    · simp [alookup]
    · next hne => simp [alookup, hne, ih]

theorem alookup_ainsert_other {β} (k k' : Name) (v : β) (l : List (Name × β)) (hne : k' ≠ k) :
    alookup k' (ainsert k v l) = alookup k' l := by
  induction l with
  | nil => simp [ainsert, alookup, Ne.symm hne]
  | cons x xs ih =>
    obtain ⟨k'', v''⟩ := x
    simp only [ainsert]
    split
    · next h => subst h; simp [alookup, Ne.symm hne]
    · next h =>
      simp only [alookup]
      split
      · rfl
      · exact ih

/-! ## `exactMatch` is reflexive (the `node_id` short-cut) but not transitive -/

theorem exactMatch_refl (src : Bytes) (t : Tree) : exactMatch src t t = true := by
  cases t with
  | node i cs => simp [exactMatch]

theorem matchNamedLists_refl (src : Bytes) (l : List Tree) : Env.matchNamedLists src l l = true := by
  induction l with
  | nil => rfl
  | cons x xs ih => simp [Env.matchNamedLists, exactMatch_refl, ih]

/-- `a` and `c` are linked by a chain of `exactMatch` steps (the reflexive-transitive closure:
`exactMatch` itself is not transitive) -/
inductive ExactChain (src : Bytes) : Tree → Tree → Prop
  | refl (t : Tree) : ExactChain src t t
  | step {a b c : Tree} : ExactChain src a b → exactMatch src b c = true → ExactChain src a c

theorem ExactChain.trans {src : Bytes} {a b c : Tree} (h1 : ExactChain src a b)
    (h2 : ExactChain src b c) : ExactChain src a c := by
  induction h2 with
  | refl => exact h1
  | step _ hs ih => exact .step ih hs

theorem ExactChain.single {src : Bytes} {a b : Tree} (h : exactMatch src a b = true) :
    ExactChain src a b := .step (.refl a) h

/-- chain of `match_multi_var`-compatible replacements of a multi binding -/
inductive MultiChain (src : Bytes) : List Tree → List Tree → Prop
  | refl (l : List Tree) : MultiChain src l l
  | step {a b c : List Tree} : MultiChain src a b →
      Env.matchNamedLists src (b.filter (·.named)) (c.filter (·.named)) = true → MultiChain src a c

theorem MultiChain.trans {src : Bytes} {a b c : List Tree} (h1 : MultiChain src a b)
    (h2 : MultiChain src b c) : MultiChain src a c := by
  induction h2 with
  | refl => exact h1
  | step _ hs ih => exact .step ih hs

/-- `env'` extends `env`: every single binding of `env` is still bound, to a node linked to the
old one by `exactMatch` steps; every multi binding other than the label `secondary` is still
bound, to a list linked to the old one by `match_multi_var` steps; `transformed` is untouched -/
def EnvLe (src : Bytes) (env env' : Env) : Prop :=
  (∀ v t, alookup v env.single = some t →
    ∃ t', alookup v env'.single = some t' ∧ ExactChain src t t') ∧
  (∀ v l, v ≠ secondaryLabel → alookup v env.multi = some l →
    ∃ l', alookup v env'.multi = some l' ∧ MultiChain src l l') ∧
  env'.transformed = env.transformed

theorem EnvLe.refl (src : Bytes) (env : Env) : EnvLe src env env :=
  ⟨fun v t h => ⟨t, h, .refl t⟩, fun v l _ h => ⟨l, h, .refl l⟩, rfl⟩

theorem EnvLe.trans {src : Bytes} {a b c : Env} (h1 : EnvLe src a b) (h2 : EnvLe src b c) :
    EnvLe src a c := by
  refine ⟨fun v t h => ?_, fun v l hv h => ?_, h2.2.2.trans h1.2.2⟩
  · obtain ⟨t1, e1, c1⟩ := h1.1 v t h
    obtain ⟨t2, e2, c2⟩ := h2.1 v t1 e1
    exact ⟨t2, e2, c1.trans c2⟩
  · obtain ⟨l1, e1, c1⟩ := h1.2.1 v l hv h
    obtain ⟨l2, e2, c2⟩ := h2.2.1 v l1 hv e1
    exact ⟨l2, e2, c1.trans c2⟩

/-- `insert` refuses a second binding that is not structurally equal; otherwise it (re)binds
`v` to `n` and touches nothing else -/
theorem insert_coherent (src : Bytes) (env : Env) (v : Name) (n : Tree) (env' : Env)
    (h : Env.insert src env v n = some env') :
    (∀ m, alookup v env.single = some m → exactMatch src m n = true) ∧
    alookup v env'.single = some n ∧
    (∀ w, w ≠ v → alookup w env'.single = alookup w env.single) ∧
    env'.multi = env.multi ∧ env'.transformed = env.transformed := by
  simp only [Env.insert] at h
  split at h
  · next hm =>
    simp only [Option.some.injEq] at h; subst h
    refine ⟨fun m hl => ?_, alookup_ainsert_eq _ _ _, fun w hw => alookup_ainsert_other _ _ _ _ hw,
      rfl, rfl⟩
    simpa [Env.matchVariable, hl] using hm
  · cases h

theorem insert_le (src : Bytes) (env : Env) (v : Name) (n : Tree) (env' : Env)
    (h : Env.insert src env v n = some env') : EnvLe src env env' := by
  obtain ⟨h1, h2, h3, h4, h5⟩ := insert_coherent src env v n env' h
  refine ⟨fun w t hw => ?_, fun w l _ hw => ⟨l, by rw [h4]; exact hw, .refl l⟩, h5⟩
  by_cases hwv : w = v
  · subst hwv; exact ⟨n, h2, .single (h1 t hw)⟩
  · exact ⟨t, by rw [h3 w hwv]; exact hw, .refl t⟩

theorem insertMulti_le (src : Bytes) (env : Env) (v : Name) (l : List Tree) (env' : Env)
    (h : Env.insertMulti src env v l = some env') : EnvLe src env env' := by
  simp only [Env.insertMulti] at h
  split at h
  · next hm =>
    simp only [Option.some.injEq] at h; subst h
    refine ⟨fun w t hw => ⟨t, hw, .refl t⟩, fun w l0 _ hw => ?_, rfl⟩
    by_cases hwv : w = v
    · subst hwv
      refine ⟨l, alookup_ainsert_eq _ _ _, .step (.refl l0) ?_⟩
      simpa [Env.matchMultiVar, hw] using hm
    · exact ⟨l0, by simp only; rw [alookup_ainsert_other _ _ _ _ hwv]; exact hw, .refl l0⟩
  · cases h

theorem addLabel_le (src : Bytes) (env : Env) (n : Tree) :
    EnvLe src env (env.addLabel secondaryLabel n) := by
  refine ⟨fun w t hw => ⟨t, ?_, .refl t⟩, fun w l hne hw => ⟨l, ?_, .refl l⟩, ?_⟩
  · unfold Env.addLabel; split <;> exact hw
  · unfold Env.addLabel
    split <;> (simp only; rw [alookup_ainsert_other _ _ _ _ hne]; exact hw)
  · unfold Env.addLabel; split <;> rfl

/-- a successful pattern match extends the environment -/
theorem matchPatternEnv_le (s : Strictness) (src : Bytes) (fuel : Nat) (p : PNode) (c : Tree)
    (env env' : Env) (h : matchPatternEnv s src fuel p c env = .ok (some env')) :
    EnvLe src env env' := by
  simp only [matchPatternEnv] at h
  split at h
  · cases h
  · next st hm =>
    simp only [Except.ok.injEq, Option.some.injEq] at h; subst h
    refine (all_up (envAgg src) s src (EnvLe src) (EnvLe.refl src) (fun _ _ _ => EnvLe.trans)
      ?_ ?_ ?_ fuel).1 _ _ _ _ hm
    · intro st t st' h; simp only [envAgg, Option.some.injEq] at h; subst h; exact EnvLe.refl _ _
    · intro st mv t st' h
      simp only [envAgg, matchLeafMetaVar] at h
      cases mv with
      | capture name named =>
        simp only at h
        split at h
        · cases h
        · exact insert_le _ _ _ _ _ h
      | dropped named =>
        simp only at h
        split at h
        · cases h
        · simp only [Option.some.injEq] at h; subst h; exact EnvLe.refl _ _
      | multiple => simp only [Option.some.injEq] at h; subst h; exact EnvLe.refl _ _
      | multiCapture name => exact insert_le _ _ _ _ _ h
    · intro st n l k st' h
      simp only [envAgg] at h
      cases n with
      | none => simp only [Option.some.injEq] at h; subst h; exact EnvLe.refl _ _
      | some v => exact insertMulti_le _ _ _ _ _ h
  · simp at h

/-! ## Every run of the rule evaluator extends the caller's environment (success or not) -/

section
variable (ctx : RCtx)

local notation "LE" => EnvLe ctx.src

def ExRule (fuel : Nat) : Prop :=
  ∀ r n env x, matchRule ctx fuel r n env = .ok x → LE env x.2
def ExAll (fuel : Nat) : Prop :=
  ∀ rs n env x, allLoop ctx fuel rs n env = .ok x → LE env x.2
def ExAny (fuel : Nat) : Prop :=
  ∀ rs n env env', anyLoop ctx fuel rs n env = .ok (some env') → LE env env'
def ExFinder (fuel : Nat) : Prop :=
  ∀ r field eid c env x, finderStep ctx fuel r field eid c env = .ok x → LE env x.2
def ExFindMap (fuel : Nat) : Prop :=
  ∀ r field eid cs env x, findMapRule ctx fuel r field eid cs env = .ok x → LE env x.2
def ExUntil (fuel : Nat) : Prop :=
  ∀ r s field eid st cs env x, findMapUntil ctx fuel r s field eid st cs env = .ok x → LE env x.2
def ExStopBy (fuel : Nat) : Prop :=
  ∀ stop r field eid once multi env x,
    stopByFind ctx fuel stop r field eid once multi env = .ok x → LE env x.2
def ExInside (fuel : Nat) : Prop :=
  ∀ r stop field n env x, matchInside ctx fuel r stop field n env = .ok x → LE env x.2
def ExHas (fuel : Nat) : Prop :=
  ∀ r stop field n env x, matchHas ctx fuel r stop field n env = .ok x → LE env x.2
def ExHasUntil (fuel : Nat) : Prop :=
  ∀ r s cs env x, hasUntil ctx fuel r s cs env = .ok x → LE env x.2
def ExCore (fuel : Nat) : Prop :=
  ∀ core n env x, matchCore ctx fuel core n env = .ok x → LE env x.2
def ExCons (fuel : Nat) : Prop :=
  ∀ cons l env x, constraintLoop ctx fuel cons l env = .ok x → LE env x.2

theorem withLabel_le {x : Except Abn (Option Tree × Env)} {y : Option Tree × Env} {env : Env}
    (h : withLabel ctx x = .ok y) (hx : ∀ z, x = .ok z → LE env z.2) : LE env y.2 := by
  rcases x with e | ⟨m, env1⟩
  · simp [withLabel] at h
  · cases m with
    | none =>
      simp only [withLabel, Except.ok.injEq] at h; subst h
      exact hx _ rfl
    | some m =>
      simp only [withLabel, Except.ok.injEq] at h; subst h
      exact (hx _ rfl).trans (addLabel_le _ _ _)

theorem ex_all_step (fuel : Nat) (hR : ExRule ctx fuel) (hA : ExAll ctx fuel) :
    ExAll ctx (fuel + 1) := by
  intro rs n env x h
  cases rs with
  | nil => simp only [allLoop, Except.ok.injEq] at h; subst h; exact EnvLe.refl _ _
  | cons r rs =>
    simp only [allLoop] at h
    split at h
    · cases h
    · next env1 hm => exact (hR _ _ _ _ hm).trans (hA _ _ _ _ h)
    · next env1 hm => simp only [Except.ok.injEq] at h; subst h; exact hR _ _ _ _ hm

theorem ex_any_step (fuel : Nat) (hR : ExRule ctx fuel) (hA : ExAny ctx fuel) :
    ExAny ctx (fuel + 1) := by
  intro rs n env env' h
  cases rs with
  | nil => simp [anyLoop] at h
  | cons r rs =>
    simp only [anyLoop] at h
    split at h
    · cases h
    · next env1 hm =>
      simp only [Except.ok.injEq, Option.some.injEq] at h; subst h; exact hR _ _ _ _ hm
    · exact hA _ _ _ _ h

theorem ex_finder_step (fuel : Nat) (hR : ExRule ctx fuel) : ExFinder ctx (fuel + 1) := by
  intro r field eid c env x h
  cases field with
  | none => simp only [finderStep] at h; exact hR _ _ _ _ h
  | some f =>
    simp only [finderStep] at h
    split at h
    · simp only [Except.ok.injEq] at h; subst h; exact EnvLe.refl _ _
    · split at h
      · simp only [Except.ok.injEq] at h; subst h; exact EnvLe.refl _ _
      · exact hR _ _ _ _ h

theorem ex_findMap_step (fuel : Nat) (hF : ExFinder ctx fuel) (hM : ExFindMap ctx fuel) :
    ExFindMap ctx (fuel + 1) := by
  intro r field eid cs env x h
  cases cs with
  | nil => simp only [findMapRule, Except.ok.injEq] at h; subst h; exact EnvLe.refl _ _
  | cons c cs =>
    simp only [findMapRule] at h
    split at h
    · cases h
    · next hf => simp only [Except.ok.injEq] at h; subst h; exact hF _ _ _ _ _ _ hf
    · next hf => exact (hF _ _ _ _ _ _ hf).trans (hM _ _ _ _ _ _ h)

theorem ex_until_step (fuel : Nat) (hF : ExFinder ctx fuel) (hU : ExUntil ctx fuel) :
    ExUntil ctx (fuel + 1) := by
  intro r s field eid st cs env x h
  cases cs with
  | nil => simp only [findMapUntil, Except.ok.injEq] at h; subst h; exact EnvLe.refl _ _
  | cons c cs =>
    simp only [findMapUntil] at h
    split at h
    · simp only [Except.ok.injEq] at h; subst h; exact EnvLe.refl _ _
    · split at h
      · cases h
      · split at h
        · cases h
        · next hf => simp only [Except.ok.injEq] at h; subst h; exact hF _ _ _ _ _ _ hf
        · next hf => exact (hF _ _ _ _ _ _ hf).trans (hU _ _ _ _ _ _ _ _ h)

theorem ex_stopBy_step (fuel : Nat) (hF : ExFinder ctx fuel) (hM : ExFindMap ctx fuel)
    (hU : ExUntil ctx fuel) : ExStopBy ctx (fuel + 1) := by
  intro stop r field eid once multi env x h
  cases stop with
  | neighbor =>
    cases once with
    | none => simp only [stopByFind, Except.ok.injEq] at h; subst h; exact EnvLe.refl _ _
    | some c => simp only [stopByFind] at h; exact hF _ _ _ _ _ _ h
  | end_ => simp only [stopByFind] at h; exact hM _ _ _ _ _ _ h
  | rule s => simp only [stopByFind] at h; exact hU _ _ _ _ _ _ _ _ h

theorem ex_inside_step (fuel : Nat) (hS : ExStopBy ctx fuel) : ExInside ctx (fuel + 1) := by
  intro r stop field n env x h
  simp only [matchInside] at h
  exact hS _ _ _ _ _ _ _ _ h

theorem ex_hasUntil_step (fuel : Nat) (hR : ExRule ctx fuel) (hH : ExHasUntil ctx fuel) :
    ExHasUntil ctx (fuel + 1) := by
  intro r s cs env x h
  cases cs with
  | nil => simp only [hasUntil, Except.ok.injEq] at h; subst h; exact EnvLe.refl _ _
  | cons c cs =>
    simp only [hasUntil] at h
    split at h
    · cases h
    · next hm => simp only [Except.ok.injEq] at h; subst h; exact hR _ _ _ _ hm
    · next env1 hm =>
      have g1 := hR _ _ _ _ hm
      split at h
      · cases h
      · exact g1.trans (hH _ _ _ _ _ h)
      · split at h
        · cases h
        · next hh => simp only [Except.ok.injEq] at h; subst h; exact g1.trans (hH _ _ _ _ _ hh)
        · next hh => exact (g1.trans (hH _ _ _ _ _ hh)).trans (hH _ _ _ _ _ h)

theorem ex_has_step (fuel : Nat) (hR : ExRule ctx fuel) (hM : ExFindMap ctx fuel)
    (hH : ExHasUntil ctx fuel) : ExHas ctx (fuel + 1) := by
  intro r stop field n env x h
  cases field with
  | some f =>
    simp only [matchHas] at h
    split at h
    · simp only [Except.ok.injEq] at h; subst h; exact EnvLe.refl _ _
    · split at h
      · exact hR _ _ _ _ h
      · exact hM _ _ _ _ _ _ h
      · split at h
        · cases h
        · next hm => simp only [Except.ok.injEq] at h; subst h; exact hR _ _ _ _ hm
        · next env1 hm =>
          have g1 := hR _ _ _ _ hm
          split at h
          · cases h
          · simp only [Except.ok.injEq] at h; subst h; exact g1
          · exact g1.trans (hH _ _ _ _ _ h)
  | none =>
    cases stop with
    | neighbor => simp only [matchHas] at h; exact hM _ _ _ _ _ _ h
    | end_ => simp only [matchHas] at h; exact hM _ _ _ _ _ _ h
    | rule s => simp only [matchHas] at h; exact hH _ _ _ _ _ h

theorem ex_cons_step (fuel : Nat) (hR : ExRule ctx fuel) (hC : ExCons ctx fuel) :
    ExCons ctx (fuel + 1) := by
  intro cons l env x h
  cases l with
  | nil => simp only [constraintLoop, Except.ok.injEq] at h; subst h; exact EnvLe.refl _ _
  | cons b rest =>
    obtain ⟨v, cand⟩ := b
    simp only [constraintLoop] at h
    split at h
    · exact hC _ _ _ _ h
    · split at h
      · cases h
      · next hm => simp only [Except.ok.injEq] at h; subst h; exact hR _ _ _ _ hm
      · next hm => exact (hR _ _ _ _ hm).trans (hC _ _ _ _ h)

theorem ex_core_step (fuel : Nat) (hR : ExRule ctx fuel) (hC : ExCons ctx fuel) :
    ExCore ctx (fuel + 1) := by
  intro core n env x h
  simp only [matchCore] at h
  split at h
  · simp only [Except.ok.injEq] at h; subst h; exact EnvLe.refl _ _
  · split at h
    · cases h
    · simp only [Except.ok.injEq] at h; subst h; exact EnvLe.refl _ _
    · next ret env1 hm =>
      have g1 := hR _ _ _ _ hm
      split at h
      · cases h
      · next hc => simp only [Except.ok.injEq] at h; subst h; exact g1.trans (hC _ _ _ _ hc)
      · simp only [Except.ok.injEq] at h; subst h; exact EnvLe.refl _ _

theorem ex_rule_step (fuel : Nat) (hR : ExRule ctx fuel) (hAl : ExAll ctx fuel)
    (hAn : ExAny ctx fuel) (hI : ExInside ctx fuel) (hH : ExHas ctx fuel) (hS : ExStopBy ctx fuel)
    (hC : ExCore ctx fuel) : ExRule ctx (fuel + 1) := by
  intro r n env x h
  cases r with
  | pattern p rootKind s =>
    cases rootKind <;>
    · simp only [matchRule] at h
      split at h
      · simp only [Except.ok.injEq] at h; subst h; exact EnvLe.refl _ _
      · split at h
        · cases h
        · next hm =>
          simp only [Except.ok.injEq] at h; subst h; exact matchPatternEnv_le _ _ _ _ _ _ _ hm
        · simp only [Except.ok.injEq] at h; subst h; exact EnvLe.refl _ _
  | kind k => simp only [matchRule, Except.ok.injEq] at h; subst h; exact EnvLe.refl _ _
  | regex id => simp only [matchRule, Except.ok.injEq] at h; subst h; exact EnvLe.refl _ _
  | range sl sc el ec =>
    simp only [matchRule] at h
    split at h
    · simp only [Except.ok.injEq] at h; subst h; exact EnvLe.refl _ _
    · split at h <;> (simp only [Except.ok.injEq] at h; subst h; exact EnvLe.refl _ _)
  | nthChild a b ofRule reverse =>
    cases ofRule with
    | none =>
      simp only [matchRule] at h
      split at h
      · simp only [Except.ok.injEq] at h; subst h; exact EnvLe.refl _ _
      · split at h
        · simp only [Except.ok.injEq] at h; subst h; exact EnvLe.refl _ _
        · split at h
          · simp only [Except.ok.injEq] at h; subst h; exact EnvLe.refl _ _
          · simp only [Except.ok.injEq] at h; subst h; exact EnvLe.refl _ _
    | some rule =>
      simp only [matchRule] at h
      split at h
      · simp only [Except.ok.injEq] at h; subst h; exact EnvLe.refl _ _
      · split at h
        · cases h
        · split at h
          · simp only [Except.ok.injEq] at h; subst h; exact EnvLe.refl _ _
          · split at h
            · simp only [Except.ok.injEq] at h; subst h; exact EnvLe.refl _ _
            · split at h
              · cases h
              · next hm =>
                simp only [Except.ok.injEq] at h; subst h
                have := hR _ _ _ _ hm; exact this
              · next hm => simp only [Except.ok.injEq] at h; subst h; exact hR _ _ _ _ hm
  | all rs kinds =>
    simp only [matchRule] at h
    split at h
    · simp only [Except.ok.injEq] at h; subst h; exact EnvLe.refl _ _
    · split at h
      · cases h
      · next hm => simp only [Except.ok.injEq] at h; subst h; exact hAl _ _ _ _ hm
      · simp only [Except.ok.injEq] at h; subst h; exact EnvLe.refl _ _
  | any rs kinds =>
    simp only [matchRule] at h
    split at h
    · simp only [Except.ok.injEq] at h; subst h; exact EnvLe.refl _ _
    · split at h
      · cases h
      · next hm => simp only [Except.ok.injEq] at h; subst h; exact hAn _ _ _ _ hm
      · simp only [Except.ok.injEq] at h; subst h; exact EnvLe.refl _ _
  | not r =>
    simp only [matchRule] at h
    split at h
    · cases h
    · simp only [Except.ok.injEq] at h; subst h; exact EnvLe.refl _ _
    · simp only [Except.ok.injEq] at h; subst h; exact EnvLe.refl _ _
  | «matches» id =>
    simp only [matchRule] at h
    split at h
    · exact hR _ _ _ _ h
    · split at h
      · exact hC _ _ _ _ h
      · simp only [Except.ok.injEq] at h; subst h; exact EnvLe.refl _ _
  | inside r stop field =>
    simp only [matchRule] at h
    exact withLabel_le ctx h (fun z hz => hI _ _ _ _ _ _ hz)
  | has r stop field =>
    simp only [matchRule] at h
    exact withLabel_le ctx h (fun z hz => hH _ _ _ _ _ _ hz)
  | precedes r stop =>
    simp only [matchRule] at h
    exact withLabel_le ctx h (fun z hz => hS _ _ _ _ _ _ _ _ hz)
  | follows r stop =>
    simp only [matchRule] at h
    exact withLabel_le ctx h (fun z hz => hS _ _ _ _ _ _ _ _ hz)

/-- all the extension invariants, by induction on the fuel -/
theorem all_ex (fuel : Nat) :
    ExRule ctx fuel ∧ ExAll ctx fuel ∧ ExAny ctx fuel ∧ ExFinder ctx fuel ∧ ExFindMap ctx fuel ∧
    ExUntil ctx fuel ∧ ExStopBy ctx fuel ∧ ExInside ctx fuel ∧ ExHas ctx fuel ∧
    ExHasUntil ctx fuel ∧ ExCore ctx fuel ∧ ExCons ctx fuel := by
  induction fuel with
  | zero =>
    refine ⟨?_, ?_, ?_, ?_, ?_, ?_, ?_, ?_, ?_, ?_, ?_, ?_⟩
    · intro r n env x h; simp [matchRule] at h
    · intro rs n env x h; simp [allLoop] at h
    · intro rs n env x h; simp [anyLoop] at h
    · intro r field eid c env x h; simp [finderStep] at h
    · intro r field eid cs env x h; simp [findMapRule] at h
    · intro r s field eid st cs env x h; simp [findMapUntil] at h
    · intro stop r field eid once multi env x h; simp [stopByFind] at h
    · intro r stop field n env x h; simp [matchInside] at h
    · intro r stop field n env x h; simp [matchHas] at h
    · intro r s cs env x h; simp [hasUntil] at h
    · intro core n env x h; simp [matchCore] at h
    · intro cons l env x h; simp [constraintLoop] at h
  | succ fuel ih =>
    obtain ⟨hR, hAl, hAn, hF, hM, hU, hS, hI, hH, hHU, hC, hCo⟩ := ih
    exact ⟨ex_rule_step ctx fuel hR hAl hAn hI hH hS hC, ex_all_step ctx fuel hR hAl,
      ex_any_step ctx fuel hR hAn, ex_finder_step ctx fuel hR, ex_findMap_step ctx fuel hF hM,
      ex_until_step ctx fuel hF hU, ex_stopBy_step ctx fuel hF hM hU, ex_inside_step ctx fuel hS,
      ex_has_step ctx fuel hR hM hHU, ex_hasUntil_step ctx fuel hR hHU,
      ex_core_step ctx fuel hR hCo, ex_cons_step ctx fuel hR hCo⟩

end

/-! ## More fuel never changes a normal outcome -/

section
variable (ctx : RCtx)

def MoRule (fuel : Nat) : Prop :=
  ∀ r n env x, matchRule ctx fuel r n env = .ok x → matchRule ctx (fuel + 1) r n env = .ok x
def MoAll (fuel : Nat) : Prop :=
  ∀ rs n env x, allLoop ctx fuel rs n env = .ok x → allLoop ctx (fuel + 1) rs n env = .ok x
def MoAny (fuel : Nat) : Prop :=
  ∀ rs n env x, anyLoop ctx fuel rs n env = .ok x → anyLoop ctx (fuel + 1) rs n env = .ok x
def MoFilter (fuel : Nat) : Prop :=
  ∀ r cs env x, filterMapRule ctx fuel r cs env = .ok x →
    filterMapRule ctx (fuel + 1) r cs env = .ok x
def MoFinder (fuel : Nat) : Prop :=
  ∀ r field eid c env x, finderStep ctx fuel r field eid c env = .ok x →
    finderStep ctx (fuel + 1) r field eid c env = .ok x
def MoFindMap (fuel : Nat) : Prop :=
  ∀ r field eid cs env x, findMapRule ctx fuel r field eid cs env = .ok x →
    findMapRule ctx (fuel + 1) r field eid cs env = .ok x
def MoUntil (fuel : Nat) : Prop :=
  ∀ r s field eid st cs env x, findMapUntil ctx fuel r s field eid st cs env = .ok x →
    findMapUntil ctx (fuel + 1) r s field eid st cs env = .ok x
def MoStopBy (fuel : Nat) : Prop :=
  ∀ stop r field eid once multi env x,
    stopByFind ctx fuel stop r field eid once multi env = .ok x →
    stopByFind ctx (fuel + 1) stop r field eid once multi env = .ok x
def MoInside (fuel : Nat) : Prop :=
  ∀ r stop field n env x, matchInside ctx fuel r stop field n env = .ok x →
    matchInside ctx (fuel + 1) r stop field n env = .ok x
def MoHas (fuel : Nat) : Prop :=
  ∀ r stop field n env x, matchHas ctx fuel r stop field n env = .ok x →
    matchHas ctx (fuel + 1) r stop field n env = .ok x
def MoHasUntil (fuel : Nat) : Prop :=
  ∀ r s cs env x, hasUntil ctx fuel r s cs env = .ok x → hasUntil ctx (fuel + 1) r s cs env = .ok x
def MoCore (fuel : Nat) : Prop :=
  ∀ core n env x, matchCore ctx fuel core n env = .ok x → matchCore ctx (fuel + 1) core n env = .ok x
def MoCons (fuel : Nat) : Prop :=
  ∀ cons l env x, constraintLoop ctx fuel cons l env = .ok x →
    constraintLoop ctx (fuel + 1) cons l env = .ok x

theorem mo_all_step (fuel : Nat) (hR : MoRule ctx fuel) (hA : MoAll ctx fuel) :
    MoAll ctx (fuel + 1) := by
  intro rs n env x h
  cases rs with
  | nil => simp only [allLoop] at h ⊢; exact h
  | cons r rs =>
    simp only [allLoop] at h ⊢
    split at h
    · cases h
    · next hm => rw [hR _ _ _ _ hm]; exact hA _ _ _ _ h
    · next hm => rw [hR _ _ _ _ hm]; exact h

theorem mo_any_step (fuel : Nat) (hR : MoRule ctx fuel) (hA : MoAny ctx fuel) :
    MoAny ctx (fuel + 1) := by
  intro rs n env x h
  cases rs with
  | nil => simp only [anyLoop] at h ⊢; exact h
  | cons r rs =>
    simp only [anyLoop] at h ⊢
    split at h
    · cases h
    · next hm => rw [hR _ _ _ _ hm]; exact h
    · next hm => rw [hR _ _ _ _ hm]; exact hA _ _ _ _ h

theorem mo_filter_step (fuel : Nat) (hR : MoRule ctx fuel) (hF : MoFilter ctx fuel) :
    MoFilter ctx (fuel + 1) := by
  intro r cs env x h
  cases cs with
  | nil => simp only [filterMapRule] at h ⊢; exact h
  | cons c cs =>
    simp only [filterMapRule] at h ⊢
    split at h
    · cases h
    · next hm =>
      rw [hR _ _ _ _ hm]
      split at h
      · cases h
      · next hf => (try simp only); rw [hF _ _ _ _ hf]; exact h

theorem mo_finder_step (fuel : Nat) (hR : MoRule ctx fuel) : MoFinder ctx (fuel + 1) := by
  intro r field eid c env x h
  cases field with
  | none => simp only [finderStep] at h ⊢; exact hR _ _ _ _ h
  | some f =>
    simp only [finderStep] at h ⊢
    split at h
    · exact h
    · split at h
      · next hk => rw [if_pos hk]; exact h
      · next hk => rw [if_neg hk]; exact hR _ _ _ _ h

theorem mo_findMap_step (fuel : Nat) (hF : MoFinder ctx fuel) (hM : MoFindMap ctx fuel) :
    MoFindMap ctx (fuel + 1) := by
  intro r field eid cs env x h
  cases cs with
  | nil => simp only [findMapRule] at h ⊢; exact h
  | cons c cs =>
    simp only [findMapRule] at h ⊢
    split at h
    · cases h
    · next hf => rw [hF _ _ _ _ _ _ hf]; exact h
    · next hf => rw [hF _ _ _ _ _ _ hf]; exact hM _ _ _ _ _ _ h

theorem mo_until_step (fuel : Nat) (hR : MoRule ctx fuel) (hF : MoFinder ctx fuel)
    (hU : MoUntil ctx fuel) : MoUntil ctx (fuel + 1) := by
  intro r s field eid st cs env x h
  cases cs with
  | nil => simp only [findMapUntil] at h ⊢; exact h
  | cons c cs =>
    simp only [findMapUntil] at h ⊢
    split at h
    · next hk => rw [if_pos hk]; exact h
    · next hk =>
      rw [if_neg hk]
      split at h
      · cases h
      · next hs =>
        rw [hR _ _ _ _ hs]
        split at h
        · cases h
        · next hf => (try simp only); rw [hF _ _ _ _ _ _ hf]; exact h
        · next hf => (try simp only); rw [hF _ _ _ _ _ _ hf]; exact hU _ _ _ _ _ _ _ _ h

theorem mo_stopBy_step (fuel : Nat) (hF : MoFinder ctx fuel) (hM : MoFindMap ctx fuel)
    (hU : MoUntil ctx fuel) : MoStopBy ctx (fuel + 1) := by
  intro stop r field eid once multi env x h
  cases stop with
  | neighbor =>
    cases once with
    | none => simp only [stopByFind] at h ⊢; exact h
    | some c => simp only [stopByFind] at h ⊢; exact hF _ _ _ _ _ _ h
  | end_ => simp only [stopByFind] at h ⊢; exact hM _ _ _ _ _ _ h
  | rule s => simp only [stopByFind] at h ⊢; exact hU _ _ _ _ _ _ _ _ h

theorem mo_inside_step (fuel : Nat) (hS : MoStopBy ctx fuel) : MoInside ctx (fuel + 1) := by
  intro r stop field n env x h
  simp only [matchInside] at h ⊢
  exact hS _ _ _ _ _ _ _ _ h

theorem mo_hasUntil_step (fuel : Nat) (hR : MoRule ctx fuel) (hH : MoHasUntil ctx fuel) :
    MoHasUntil ctx (fuel + 1) := by
  intro r s cs env x h
  cases cs with
  | nil => simp only [hasUntil] at h ⊢; exact h
  | cons c cs =>
    simp only [hasUntil] at h ⊢
    split at h
    · cases h
    · next hm => rw [hR _ _ _ _ hm]; exact h
    · next env1 hm =>
      rw [hR _ _ _ _ hm]
      split at h
      · cases h
      · next hs => (try simp only); rw [hR _ _ _ _ hs]; exact hH _ _ _ _ _ h
      · next hs =>
        (try simp only); rw [hR _ _ _ _ hs]
        split at h
        · cases h
        · next hh => (try simp only); rw [hH _ _ _ _ _ hh]; exact h
        · next hh => (try simp only); rw [hH _ _ _ _ _ hh]; exact hH _ _ _ _ _ h

theorem mo_has_step (fuel : Nat) (hR : MoRule ctx fuel) (hM : MoFindMap ctx fuel)
    (hH : MoHasUntil ctx fuel) : MoHas ctx (fuel + 1) := by
  intro r stop field n env x h
  cases field with
  | some f =>
    simp only [matchHas] at h ⊢
    split at h
    · exact h
    · split at h
      · exact hR _ _ _ _ h
      · exact hM _ _ _ _ _ _ h
      · split at h
        · cases h
        · next hm => rw [hR _ _ _ _ hm]; exact h
        · next env1 hm =>
          rw [hR _ _ _ _ hm]
          split at h
          · cases h
          · next hs => (try simp only); rw [hR _ _ _ _ hs]; exact h
          · next hs => (try simp only); rw [hR _ _ _ _ hs]; exact hH _ _ _ _ _ h
  | none =>
    cases stop with
    | neighbor => simp only [matchHas] at h ⊢; exact hM _ _ _ _ _ _ h
    | end_ => simp only [matchHas] at h ⊢; exact hM _ _ _ _ _ _ h
    | rule s => simp only [matchHas] at h ⊢; exact hH _ _ _ _ _ h

theorem mo_cons_step (fuel : Nat) (hR : MoRule ctx fuel) (hC : MoCons ctx fuel) :
    MoCons ctx (fuel + 1) := by
  intro cons l env x h
  cases l with
  | nil => simp only [constraintLoop] at h ⊢; exact h
  | cons b rest =>
    obtain ⟨v, cand⟩ := b
    simp only [constraintLoop] at h ⊢
    split at h
    · exact hC _ _ _ _ h
    · split at h
      · cases h
      · next hm => rw [hR _ _ _ _ hm]; exact h
      · next hm => rw [hR _ _ _ _ hm]; exact hC _ _ _ _ h

theorem mo_core_step (fuel : Nat) (hR : MoRule ctx fuel) (hC : MoCons ctx fuel) :
    MoCore ctx (fuel + 1) := by
  intro core n env x h
  simp only [matchCore] at h ⊢
  split at h
  · next hk => rw [if_pos hk]; exact h
  · next hk =>
    rw [if_neg hk]
    split at h
    · cases h
    · next hm => rw [hR _ _ _ _ hm]; exact h
    · next ret env1 hm =>
      rw [hR _ _ _ _ hm]
      split at h
      · cases h
      · next hc => (try simp only); rw [hC _ _ _ _ hc]; exact h
      · next hc => (try simp only); rw [hC _ _ _ _ hc]; exact h

theorem withLabel_congr {a b : Except Abn (Option Tree × Env)} {x : Option Tree × Env}
    (h : withLabel ctx a = .ok x) (hab : ∀ y, a = .ok y → b = .ok y) : withLabel ctx b = .ok x := by
  rcases a with e | y
  · simp [withLabel] at h
  · rw [hab y rfl]; exact h

theorem mo_rule_step (fuel : Nat) (hR : MoRule ctx fuel) (hAl : MoAll ctx fuel)
    (hAn : MoAny ctx fuel) (hFi : MoFilter ctx fuel) (hI : MoInside ctx fuel) (hH : MoHas ctx fuel)
    (hS : MoStopBy ctx fuel) (hC : MoCore ctx fuel) : MoRule ctx (fuel + 1) := by
  intro r n env x h
  cases r with
  | pattern p rootKind s => cases rootKind <;> (simp only [matchRule] at h ⊢; exact h)
  | kind k => simp only [matchRule] at h ⊢; exact h
  | regex id => simp only [matchRule] at h ⊢; exact h
  | range sl sc el ec => simp only [matchRule] at h ⊢; exact h
  | nthChild a b ofRule reverse =>
    cases ofRule with
    | none => simp only [matchRule] at h ⊢; exact h
    | some rule =>
      simp only [matchRule] at h ⊢
      split at h
      · exact h
      · split at h
        · cases h
        · next hf =>
          (try simp only); rw [hFi _ _ _ _ hf]
          split at h
          · next hi => (try simp only); rw [hi]; exact h
          · next hi =>
            (try simp only); rw [hi]; (try simp only)
            split at h
            · exact h
            · split at h
              · cases h
              · next hm => rw [hR _ _ _ _ hm]; exact h
              · next hm => rw [hR _ _ _ _ hm]; exact h
  | all rs kinds =>
    simp only [matchRule] at h ⊢
    split at h
    · next hk => rw [if_pos hk]; exact h
    · next hk =>
      rw [if_neg hk]
      split at h
      · cases h
      · next hm => rw [hAl _ _ _ _ hm]; exact h
      · next hm => rw [hAl _ _ _ _ hm]; exact h
  | any rs kinds =>
    simp only [matchRule] at h ⊢
    split at h
    · next hk => rw [if_pos hk]; exact h
    · next hk =>
      rw [if_neg hk]
      split at h
      · cases h
      · next hm => rw [hAn _ _ _ _ hm]; exact h
      · next hm => rw [hAn _ _ _ _ hm]; exact h
  | not r =>
    simp only [matchRule] at h ⊢
    split at h
    · cases h
    · next hm => rw [hR _ _ _ _ hm]; exact h
    · next hm => rw [hR _ _ _ _ hm]; exact h
  | «matches» id =>
    simp only [matchRule] at h ⊢
    split at h
    · exact hR _ _ _ _ h
    · split at h
      · exact hC _ _ _ _ h
      · exact h
  | inside r stop field =>
    simp only [matchRule] at h ⊢
    exact withLabel_congr ctx h (fun y hy => hI _ _ _ _ _ _ hy)
  | has r stop field =>
    simp only [matchRule] at h ⊢
    exact withLabel_congr ctx h (fun y hy => hH _ _ _ _ _ _ hy)
  | precedes r stop =>
    simp only [matchRule] at h ⊢
    exact withLabel_congr ctx h (fun y hy => hS _ _ _ _ _ _ _ _ hy)
  | follows r stop =>
    simp only [matchRule] at h ⊢
    exact withLabel_congr ctx h (fun y hy => hS _ _ _ _ _ _ _ _ hy)

theorem all_mo (fuel : Nat) :
    MoRule ctx fuel ∧ MoAll ctx fuel ∧ MoAny ctx fuel ∧ MoFilter ctx fuel ∧ MoFinder ctx fuel ∧
    MoFindMap ctx fuel ∧ MoUntil ctx fuel ∧ MoStopBy ctx fuel ∧ MoInside ctx fuel ∧
    MoHas ctx fuel ∧ MoHasUntil ctx fuel ∧ MoCore ctx fuel ∧ MoCons ctx fuel := by
  induction fuel with
  | zero =>
    refine ⟨?_, ?_, ?_, ?_, ?_, ?_, ?_, ?_, ?_, ?_, ?_, ?_, ?_⟩
    · intro r n env x h; simp [matchRule] at h
    · intro rs n env x h; simp [allLoop] at h
    · intro rs n env x h; simp [anyLoop] at h
    · intro r cs env x h; simp [filterMapRule] at h
    · intro r field eid c env x h; simp [finderStep] at h
    · intro r field eid cs env x h; simp [findMapRule] at h
    · intro r s field eid st cs env x h; simp [findMapUntil] at h
    · intro stop r field eid once multi env x h; simp [stopByFind] at h
    · intro r stop field n env x h; simp [matchInside] at h
    · intro r stop field n env x h; simp [matchHas] at h
    · intro r s cs env x h; simp [hasUntil] at h
    · intro core n env x h; simp [matchCore] at h
    · intro cons l env x h; simp [constraintLoop] at h
  | succ fuel ih =>
    obtain ⟨hR, hAl, hAn, hFi, hF, hM, hU, hS, hI, hH, hHU, hC, hCo⟩ := ih
    exact ⟨mo_rule_step ctx fuel hR hAl hAn hFi hI hH hS hC, mo_all_step ctx fuel hR hAl,
      mo_any_step ctx fuel hR hAn, mo_filter_step ctx fuel hR hFi, mo_finder_step ctx fuel hR,
      mo_findMap_step ctx fuel hF hM, mo_until_step ctx fuel hR hF hU,
      mo_stopBy_step ctx fuel hF hM hU, mo_inside_step ctx fuel hS,
      mo_has_step ctx fuel hR hM hHU, mo_hasUntil_step ctx fuel hR hHU,
      mo_core_step ctx fuel hR hCo, mo_cons_step ctx fuel hR hCo⟩

/-- fuel monotonicity of the rule evaluator -/
theorem matchRule_fuel_mono {fuel fuel' : Nat} (hle : fuel ≤ fuel') {r : Rule} {n : Tree} {env : Env}
    {x : Option Tree × Env} (h : matchRule ctx fuel r n env = .ok x) :
    matchRule ctx fuel' r n env = .ok x := by
  induction hle with
  | refl => exact h
  | step _ ih => exact (all_mo ctx _).1 _ _ _ _ ih

end

/-! ## What `any`, `all` and `matchCore` expose -/

section
variable (ctx : RCtx)

theorem allLoop_fuel_mono {fuel fuel' : Nat} (hle : fuel ≤ fuel') {rs : List Rule} {n : Tree}
    {env : Env} {x : Bool × Env} (h : allLoop ctx fuel rs n env = .ok x) :
    allLoop ctx fuel' rs n env = .ok x := by
  induction hle with
  | refl => exact h
  | step _ ih => exact (all_mo ctx _).2.1 _ _ _ _ ih

theorem constraintLoop_fuel_mono {fuel fuel' : Nat} (hle : fuel ≤ fuel') {cons : List (Name × Rule)}
    {l : List (Name × Tree)} {env : Env} {x : Bool × Env}
    (h : constraintLoop ctx fuel cons l env = .ok x) :
    constraintLoop ctx fuel' cons l env = .ok x := by
  induction hle with
  | refl => exact h
  | step _ ih => exact (all_mo ctx _).2.2.2.2.2.2.2.2.2.2.2.2 _ _ _ _ ih

/-- `anyLoop` returns the environment of the first alternative that succeeds from the caller's
environment; every alternative before it fails from that same environment -/
theorem anyLoop_winner (fuel : Nat) (rs : List Rule) (n : Tree) (env env' : Env)
    (h : anyLoop ctx fuel rs n env = .ok (some env')) :
    ∃ pre r post m, rs = pre ++ r :: post ∧
      (∀ q ∈ pre, ∃ e, matchRule ctx fuel q n env = .ok (none, e)) ∧
      matchRule ctx fuel r n env = .ok (some m, env') := by
  induction fuel generalizing rs with
  | zero => simp [anyLoop] at h
  | succ fuel ih =>
    cases rs with
    | nil => simp [anyLoop] at h
    | cons r rs =>
      simp only [anyLoop] at h
      split at h
      · cases h
      · next m env1 hm =>
        simp only [Except.ok.injEq, Option.some.injEq] at h; subst h
        exact ⟨[], r, rs, m, rfl, by simp, matchRule_fuel_mono ctx (Nat.le_succ _) hm⟩
      · next e hm =>
        obtain ⟨pre, r', post, m, e1, e2, e3⟩ := ih _ h
        refine ⟨r :: pre, r', post, m, by simp [e1], ?_, matchRule_fuel_mono ctx (Nat.le_succ _) e3⟩
        intro q hq
        rcases List.mem_cons.1 hq with rfl | hq
        · exact ⟨e, matchRule_fuel_mono ctx (Nat.le_succ _) hm⟩
        · obtain ⟨e', he'⟩ := e2 q hq
          exact ⟨e', matchRule_fuel_mono ctx (Nat.le_succ _) he'⟩

/-- `anyLoop` finds nothing: every alternative fails from the caller's environment -/
theorem anyLoop_none (fuel : Nat) (rs : List Rule) (n : Tree) (env : Env)
    (h : anyLoop ctx fuel rs n env = .ok none) :
    ∀ q ∈ rs, ∃ e, matchRule ctx fuel q n env = .ok (none, e) := by
  induction fuel generalizing rs with
  | zero => simp [anyLoop] at h
  | succ fuel ih =>
    cases rs with
    | nil => simp
    | cons r rs =>
      simp only [anyLoop] at h
      split at h
      · cases h
      · simp at h
      · next e hm =>
        intro q hq
        rcases List.mem_cons.1 hq with rfl | hq
        · exact ⟨e, matchRule_fuel_mono ctx (Nat.le_succ _) hm⟩
        · obtain ⟨e', he'⟩ := ih _ h q hq
          exact ⟨e', matchRule_fuel_mono ctx (Nat.le_succ _) he'⟩

/-- the branches of an `all`, run in order, each from its predecessor's environment -/
def AllChain (fuel : Nat) (n : Tree) : List Rule → Env → Env → Prop
  | [], env, env' => env' = env
  | r :: rs, env, env' =>
    ∃ m env1, matchRule ctx fuel r n env = .ok (some m, env1) ∧ AllChain fuel n rs env1 env'

theorem AllChain.mono {fuel fuel' : Nat} (hle : fuel ≤ fuel') {n : Tree} {rs : List Rule}
    {env env' : Env} (h : AllChain ctx fuel n rs env env') : AllChain ctx fuel' n rs env env' := by
  induction rs generalizing env with
  | nil => exact h
  | cons r rs ih =>
    obtain ⟨m, env1, h1, h2⟩ := h
    exact ⟨m, env1, matchRule_fuel_mono ctx hle h1, ih h2⟩

theorem allLoop_true_chain (fuel : Nat) (rs : List Rule) (n : Tree) (env env' : Env)
    (h : allLoop ctx fuel rs n env = .ok (true, env')) : AllChain ctx fuel n rs env env' := by
  induction fuel generalizing rs env with
  | zero => simp [allLoop] at h
  | succ fuel ih =>
    cases rs with
    | nil =>
      simp only [allLoop, Except.ok.injEq, Prod.mk.injEq, true_and] at h
      exact h.symm
    | cons r rs =>
      simp only [allLoop] at h
      split at h
      · cases h
      · next m env1 hm =>
        exact ⟨m, env1, matchRule_fuel_mono ctx (Nat.le_succ _) hm,
          (ih _ _ h).mono ctx (Nat.le_succ _)⟩
      · simp at h

/-- `allLoop` fails: a (possibly empty) prefix succeeded in a chain, the next branch failed -/
theorem allLoop_false (fuel : Nat) (rs : List Rule) (n : Tree) (env env' : Env)
    (h : allLoop ctx fuel rs n env = .ok (false, env')) :
    ∃ pre r post env1, rs = pre ++ r :: post ∧ AllChain ctx fuel n pre env env1 ∧
      matchRule ctx fuel r n env1 = .ok (none, env') := by
  induction fuel generalizing rs env with
  | zero => simp [allLoop] at h
  | succ fuel ih =>
    cases rs with
    | nil => simp [allLoop] at h
    | cons r rs =>
      simp only [allLoop] at h
      split at h
      · cases h
      · next m env1 hm =>
        obtain ⟨pre, r', post, env2, e1, e2, e3⟩ := ih _ _ h
        refine ⟨r :: pre, r', post, env2, by simp [e1], ?_, matchRule_fuel_mono ctx (Nat.le_succ _) e3⟩
        exact ⟨m, env1, matchRule_fuel_mono ctx (Nat.le_succ _) hm, e2.mono ctx (Nat.le_succ _)⟩
      · next env1 hm =>
        simp only [Except.ok.injEq, Prod.mk.injEq, true_and] at h; subst h
        exact ⟨[], r, rs, env, rfl, rfl, matchRule_fuel_mono ctx (Nat.le_succ _) hm⟩

/-- a chain of successes makes `allLoop` succeed (with enough fuel) -/
theorem allLoop_of_chain (fuel : Nat) (rs : List Rule) (n : Tree) (env env' : Env)
    (h : AllChain ctx fuel n rs env env') :
    allLoop ctx (fuel + rs.length + 1) rs n env = .ok (true, env') := by
  induction rs generalizing env with
  | nil => cases h; simp [allLoop]
  | cons r rs ih =>
    obtain ⟨m, env1, h1, h2⟩ := h
    have e : fuel + (r :: rs).length + 1 = (fuel + rs.length + 1) + 1 := by simp; omega
    rw [e]
    simp only [allLoop]
    rw [matchRule_fuel_mono ctx (by omega) h1]
    exact ih _ h2

/-- the exact outcome of `matchCore` (`RuleCore::do_match`), case by case: every failure hands
the caller's environment back -/
theorem matchCore_cases (fuel : Nat) (core : RuleCore) (n : Tree) (env : Env)
    (res : Option Tree) (env' : Env) (h : matchCore ctx fuel core n env = .ok (res, env')) :
    (kindsGate core.kinds n = false ∧ res = none ∧ env' = env) ∨
    (kindsGate core.kinds n = true ∧
      ((∃ env1, matchRule ctx fuel core.rule n env = .ok (none, env1) ∧ res = none ∧ env' = env) ∨
       (∃ ret env1, matchRule ctx fuel core.rule n env = .ok (some ret, env1) ∧
          ((constraintLoop ctx fuel core.constraints (sortByName env1.single) env1 = .ok (true, env') ∧
              res = some ret) ∨
           (∃ env2, constraintLoop ctx fuel core.constraints (sortByName env1.single) env1 = .ok (false, env2) ∧
              res = none ∧ env' = env))))) := by
  cases fuel with
  | zero => simp [matchCore] at h
  | succ fuel =>
    simp only [matchCore] at h
    split at h
    · next hk =>
      simp only [Except.ok.injEq, Prod.mk.injEq] at h
      exact .inl ⟨by simpa using hk, h.1.symm, h.2.symm⟩
    · next hk =>
      refine .inr ⟨by simpa using hk, ?_⟩
      split at h
      · cases h
      · next env1 hm =>
        simp only [Except.ok.injEq, Prod.mk.injEq] at h
        obtain ⟨rfl, rfl⟩ := h
        exact .inl ⟨env1, matchRule_fuel_mono ctx (Nat.le_succ _) hm, rfl, rfl⟩
      · next ret env1 hm =>
        refine .inr ⟨ret, env1, matchRule_fuel_mono ctx (Nat.le_succ _) hm, ?_⟩
        split at h
        · cases h
        · next env2 hc =>
          simp only [Except.ok.injEq, Prod.mk.injEq] at h
          obtain ⟨rfl, rfl⟩ := h
          exact .inl ⟨constraintLoop_fuel_mono ctx (Nat.le_succ _) hc, rfl⟩
        · next env2 hc =>
          simp only [Except.ok.injEq, Prod.mk.injEq] at h
          obtain ⟨rfl, rfl⟩ := h
          exact .inr ⟨env2, constraintLoop_fuel_mono ctx (Nat.le_succ _) hc, rfl, rfl⟩

end

/-! ## Relations: the winner is evaluated from the caller's environment -/

section
variable (ctx : RCtx)

theorem finderStep_some {fuel : Nat} {r : Rule} {field : Option Nat} {eid : Nat} {c : Tree}
    {env : Env} {m : Tree} {env' : Env}
    (h : finderStep ctx fuel r field eid c env = .ok (some m, env')) :
    matchRule ctx fuel r c env = .ok (some m, env') := by
  cases fuel with
  | zero => simp [finderStep] at h
  | succ fuel =>
    cases field with
    | none => simp only [finderStep] at h; exact matchRule_fuel_mono ctx (Nat.le_succ _) h
    | some f =>
      simp only [finderStep] at h
      split at h
      · simp at h
      · split at h
        · simp at h
        · exact matchRule_fuel_mono ctx (Nat.le_succ _) h

theorem findMapRule_winner (fuel : Nat) (r : Rule)
    (field : Option Nat) (eid : Nat) (cs : List Tree) (env : Env) (m : Tree) (env' : Env)
    (h : findMapRule ctx fuel r field eid cs env = .ok (some m, env')) :
    ∃ c ∈ cs, matchRule ctx fuel r c env = .ok (some m, env') := by
  induction fuel generalizing cs eid with
  | zero => simp [findMapRule] at h
  | succ fuel ih =>
    cases cs with
    | nil => simp [findMapRule] at h
    | cons c cs =>
      simp only [findMapRule] at h
      split at h
      · cases h
      · next m1 env1 hf =>
        simp only [Except.ok.injEq, Prod.mk.injEq, Option.some.injEq] at h
        obtain ⟨rfl, rfl⟩ := h
        exact ⟨c, by simp, matchRule_fuel_mono ctx (Nat.le_succ _) (finderStep_some ctx hf)⟩
      · next env1 hf =>
        have := (all_notrace ctx fuel).2.1 _ _ _ _ _ _ hf
        subst this
        obtain ⟨c', hc', hm⟩ := ih _ _ h
        exact ⟨c', by simp [hc'], matchRule_fuel_mono ctx (Nat.le_succ _) hm⟩

theorem findMapUntil_winner (fuel : Nat) (r s : Rule)
    (field : Option Nat) (eid : Nat) (st : Bool) (cs : List Tree) (env : Env) (m : Tree) (env' : Env)
    (h : findMapUntil ctx fuel r s field eid st cs env = .ok (some m, env')) :
    ∃ c ∈ cs, matchRule ctx fuel r c env = .ok (some m, env') := by
  induction fuel generalizing cs eid st with
  | zero => simp [findMapUntil] at h
  | succ fuel ih =>
    cases cs with
    | nil => simp [findMapUntil] at h
    | cons c cs =>
      simp only [findMapUntil] at h
      split at h
      · simp at h
      · split at h
        · cases h
        · split at h
          · cases h
          · next m1 env1 hf =>
            simp only [Except.ok.injEq, Prod.mk.injEq, Option.some.injEq] at h
            obtain ⟨rfl, rfl⟩ := h
            exact ⟨c, by simp, matchRule_fuel_mono ctx (Nat.le_succ _) (finderStep_some ctx hf)⟩
          · next env1 hf =>
            have := (all_notrace ctx fuel).2.1 _ _ _ _ _ _ hf
            subst this
            obtain ⟨c', hc', hm⟩ := ih _ _ _ h
            exact ⟨c', by simp [hc'], matchRule_fuel_mono ctx (Nat.le_succ _) hm⟩

theorem stopByFind_winner (fuel : Nat) (stop : StopBy) (r : Rule)
    (field : Option Nat) (eid : Nat) (once : Option Tree) (multi : List Tree) (env : Env)
    (m : Tree) (env' : Env)
    (h : stopByFind ctx fuel stop r field eid once multi env = .ok (some m, env')) :
    ∃ c, (once = some c ∨ c ∈ multi) ∧ matchRule ctx fuel r c env = .ok (some m, env') := by
  cases fuel with
  | zero => simp [stopByFind] at h
  | succ fuel =>
    cases stop with
    | neighbor =>
      cases once with
      | none => simp [stopByFind] at h
      | some c =>
        simp only [stopByFind] at h
        exact ⟨c, .inl rfl, matchRule_fuel_mono ctx (Nat.le_succ _) (finderStep_some ctx h)⟩
    | end_ =>
      simp only [stopByFind] at h
      obtain ⟨c, hc, hm⟩ := findMapRule_winner ctx fuel r field eid multi env m env' h
      exact ⟨c, .inr hc, matchRule_fuel_mono ctx (Nat.le_succ _) hm⟩
    | rule s =>
      simp only [stopByFind] at h
      obtain ⟨c, hc, hm⟩ := findMapUntil_winner ctx fuel r s field eid false multi env m env' h
      exact ⟨c, .inr hc, matchRule_fuel_mono ctx (Nat.le_succ _) hm⟩

theorem hasUntil_winner (fuel : Nat) (r s : Rule) (cs : List Tree)
    (env : Env) (m : Tree) (env' : Env) (h : hasUntil ctx fuel r s cs env = .ok (some m, env')) :
    ∃ c ∈ Tree.preorderList cs, matchRule ctx fuel r c env = .ok (some m, env') := by
  induction fuel generalizing cs with
  | zero => simp [hasUntil] at h
  | succ fuel ih =>
    cases cs with
    | nil => simp [hasUntil] at h
    | cons c cs =>
      have hself : c ∈ Tree.preorderList (c :: cs) := by
        cases c; simp [Tree.preorderList, Tree.preorder]
      have hkids : ∀ d ∈ Tree.preorderList c.children, d ∈ Tree.preorderList (c :: cs) := by
        intro d hd; cases c; simp [Tree.preorderList, Tree.preorder, Tree.children] at hd ⊢
        exact .inr (.inl hd)
      have hrest : ∀ d ∈ Tree.preorderList cs, d ∈ Tree.preorderList (c :: cs) := by
        intro d hd; simp [Tree.preorderList, hd]
      simp only [hasUntil] at h
      split at h
      · cases h
      · next m1 env1 hm =>
        simp only [Except.ok.injEq, Prod.mk.injEq, Option.some.injEq] at h
        obtain ⟨rfl, rfl⟩ := h
        exact ⟨c, hself, matchRule_fuel_mono ctx (Nat.le_succ _) hm⟩
      · next env1 hm =>
        have := (all_notrace ctx fuel).1 _ _ _ _ hm
        subst this
        split at h
        · cases h
        · obtain ⟨d, hd, hm'⟩ := ih _ h
          exact ⟨d, hrest d hd, matchRule_fuel_mono ctx (Nat.le_succ _) hm'⟩
        · split at h
          · cases h
          · next m2 env2 hh =>
            simp only [Except.ok.injEq, Prod.mk.injEq, Option.some.injEq] at h
            obtain ⟨rfl, rfl⟩ := h
            obtain ⟨d, hd, hm'⟩ := ih _ hh
            exact ⟨d, hkids d hd, matchRule_fuel_mono ctx (Nat.le_succ _) hm'⟩
          · next env2 hh =>
            have := (all_notrace ctx fuel).2.2.2.2.2.2.2.1 _ _ _ _ _ hh
            subst this
            obtain ⟨d, hd, hm'⟩ := ih _ h
            exact ⟨d, hrest d hd, matchRule_fuel_mono ctx (Nat.le_succ _) hm'⟩

theorem matchHas_winner (fuel : Nat) (r : Rule) (stop : StopBy)
    (field : Option Nat) (n : Tree) (env : Env) (m : Tree) (env' : Env)
    (h : matchHas ctx fuel r stop field n env = .ok (some m, env')) :
    ∃ c ∈ Tree.preorderList n.children, matchRule ctx fuel r c env = .ok (some m, env') := by
  cases fuel with
  | zero => simp [matchHas] at h
  | succ fuel =>
    have hchild : ∀ c ∈ n.children, ∀ d ∈ c.preorder, d ∈ Tree.preorderList n.children := by
      intro c hc d hd
      generalize n.children = l at hc
      induction l with
      | nil => cases hc
      | cons x xs ih =>
        simp only [Tree.preorderList, List.mem_append]
        rcases List.mem_cons.1 hc with rfl | hc
        · exact .inl hd
        · exact .inr (ih hc)
    have hself : ∀ c : Tree, c ∈ c.preorder := fun c => by cases c; simp [Tree.preorder]
    have hsub : ∀ c : Tree, ∀ d ∈ Tree.preorderList c.children, d ∈ c.preorder := by
      intro c d hd; cases c; simp [Tree.preorder, Tree.children] at hd ⊢; exact .inr hd
    cases field with
    | some f =>
      simp only [matchHas] at h
      split at h
      · simp at h
      · next nd hnd =>
        have hndc : nd ∈ n.children := by
          unfold childByField at hnd; exact List.mem_of_find?_eq_some hnd
        split at h
        · exact ⟨nd, hchild nd hndc nd (hself nd), matchRule_fuel_mono ctx (Nat.le_succ _) h⟩
        · obtain ⟨c, hc, hm⟩ := findMapRule_winner ctx fuel r none 0 _ env m env' h
          exact ⟨c, hchild nd hndc c hc, matchRule_fuel_mono ctx (Nat.le_succ _) hm⟩
        · split at h
          · cases h
          · next m1 env1 hm =>
            simp only [Except.ok.injEq, Prod.mk.injEq, Option.some.injEq] at h
            obtain ⟨rfl, rfl⟩ := h
            exact ⟨nd, hchild nd hndc nd (hself nd), matchRule_fuel_mono ctx (Nat.le_succ _) hm⟩
          · next env1 hm =>
            have := (all_notrace ctx fuel).1 _ _ _ _ hm
            subst this
            split at h
            · cases h
            · simp at h
            · obtain ⟨c, hc, hm'⟩ := hasUntil_winner ctx fuel r _ _ _ m env' h
              exact ⟨c, hchild nd hndc c (hsub nd c hc), matchRule_fuel_mono ctx (Nat.le_succ _) hm'⟩
    | none =>
      cases stop with
      | neighbor =>
        simp only [matchHas] at h
        obtain ⟨c, hc, hm⟩ := findMapRule_winner ctx fuel r none 0 _ env m env' h
        exact ⟨c, hchild c hc c (hself c), matchRule_fuel_mono ctx (Nat.le_succ _) hm⟩
      | end_ =>
        simp only [matchHas] at h
        obtain ⟨c, hc, hm⟩ := findMapRule_winner ctx fuel r none 0 _ env m env' h
        refine ⟨c, ?_, matchRule_fuel_mono ctx (Nat.le_succ _) hm⟩
        cases n; simpa [Tree.preorder, Tree.children] using hc
      | rule s =>
        simp only [matchHas] at h
        obtain ⟨c, hc, hm⟩ := hasUntil_winner ctx fuel r s _ env m env' h
        exact ⟨c, hc, matchRule_fuel_mono ctx (Nat.le_succ _) hm⟩

end

end AGV
