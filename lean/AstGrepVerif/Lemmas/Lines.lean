/-
Lines of a text: the specification notion (`splitNL`, the pieces between newlines) against
Rust's `str::lines` (`strLines`) as used by the plain-text report.
-/
import AstGrepVerif.Model.Print
import AstGrepVerif.Lemmas.Print

set_option linter.unusedSimpArgs false
set_option linter.unusedVariables false

namespace AGV

/-! ## `split('\n')` -/

theorem splitNL_ne_nil_p (bs : Bytes) : splitNL bs ≠ [] := by
  induction bs with
  | nil => simp [splitNL]
  | cons b bs ih =>
    by_cases hb : b = NL
    · simp [splitNL, hb]
    · simp only [splitNL, hb, ↓reduceIte]
      split <;> simp

theorem splitNL_cons_nl (bs : Bytes) : splitNL (NL :: bs) = [] :: splitNL bs := by
  simp [splitNL]

theorem splitNL_cons_ne_p (b : UInt8) (bs : Bytes) (hb : b ≠ NL) :
    ∃ l ls, splitNL bs = l :: ls ∧ splitNL (b :: bs) = (b :: l) :: ls := by
  cases h : splitNL bs with
  | nil => exact absurd h (splitNL_ne_nil_p bs)
  | cons l ls => exact ⟨l, ls, rfl, by simp [splitNL, hb, h]⟩

theorem splitNL_append_nl (a b : Bytes) : splitNL (a ++ NL :: b) = splitNL a ++ splitNL b := by
  induction a with
  | nil => simp [splitNL]
  | cons x a ih =>
    by_cases hx : x = NL
    · subst hx; simp [splitNL_cons_nl, ih]
    · obtain ⟨l, ls, h1, h2⟩ := splitNL_cons_ne_p x a hx
      obtain ⟨l', ls', h1', h2'⟩ := splitNL_cons_ne_p x (a ++ NL :: b) hx
      rw [List.cons_append, h2', h2]
      rw [ih, h1] at h1'
      simp at h1'
      simp [h1'.1, h1'.2]

theorem splitNL_length (a : Bytes) : (splitNL a).length = a.count NL + 1 := by
  induction a with
  | nil => simp [splitNL]
  | cons x a ih =>
    by_cases hx : x = NL
    · subst hx; simp [splitNL_cons_nl, ih]
    · obtain ⟨l, ls, h1, h2⟩ := splitNL_cons_ne_p x a hx
      rw [h2, List.count_cons_of_ne (fun h => hx h), ← ih, h1]; simp

/-! ## `str::lines` -/

theorem stripSuffixByte_cons (b : UInt8) (l : Bytes) (c : UInt8) (hl : l ≠ []) :
    stripSuffixByte (b :: l) c = (stripSuffixByte l c).map (b :: ·) := by
  cases l with
  | nil => exact absurd rfl hl
  | cons x xs => rfl

theorem stripSuffixByte_nl_singleton : stripSuffixByte [NL] NL = some [] := by
  simp [stripSuffixByte]

theorem stripLineEnd_nl : stripLineEnd [NL] = [] := by
  simp [stripLineEnd, stripSuffixByte]

theorem stripSuffixByte_eq_some_nil (l : Bytes) (c : UInt8) (h : stripSuffixByte l c = some []) :
    l = [c] := by
  match l with
  | [] => simp [stripSuffixByte] at h
  | [b] =>
    simp only [stripSuffixByte] at h
    split at h
    · next hb => rw [hb]
    · cases h
  | b :: b' :: bs =>
    rw [stripSuffixByte_cons b (b' :: bs) c (by simp)] at h
    cases h' : stripSuffixByte (b' :: bs) c <;> simp [h'] at h

/-- consing a byte onto a non-empty piece commutes with stripping the line end, except for the
one case `\r` + `"\n"` where the new byte itself becomes part of the terminator -/
theorem stripLineEnd_cons (b : UInt8) (l : Bytes) (hl : l ≠ []) (hx : ¬ (b = CR ∧ l = [NL])) :
    stripLineEnd (b :: l) = b :: stripLineEnd l := by
  unfold stripLineEnd
  rw [stripSuffixByte_cons b l NL hl]
  cases h1 : stripSuffixByte l NL with
  | none => simp
  | some l1 =>
    simp only [Option.map_some]
    by_cases hl1 : l1 = []
    · subst hl1
      have : l = [NL] := stripSuffixByte_eq_some_nil l NL h1
      have hb : b ≠ CR := fun h => hx ⟨h, this⟩
      simp [stripSuffixByte, hb]
    · rw [stripSuffixByte_cons b l1 CR hl1]
      cases h2 : stripSuffixByte l1 CR <;> simp

theorem splitInclusiveNL_eq_nil (bs : Bytes) : splitInclusiveNL bs = [] ↔ bs = [] := by
  cases bs with
  | nil => simp [splitInclusiveNL]
  | cons b bs =>
    by_cases hb : b = NL
    · simp [splitInclusiveNL, hb]
    · simp only [splitInclusiveNL, hb, ↓reduceIte]
      split <;> simp

theorem splitInclusiveNL_pieces_ne_nil (bs : Bytes) : ∀ l ∈ splitInclusiveNL bs, l ≠ [] := by
  induction bs with
  | nil => simp [splitInclusiveNL]
  | cons b bs ih =>
    by_cases hb : b = NL
    · intro l hl
      simp only [splitInclusiveNL, hb, ↓reduceIte, List.mem_cons] at hl
      rcases hl with hl | hl
      · simp [hl]
      · exact ih l hl
    · intro l hl
      simp only [splitInclusiveNL, hb, ↓reduceIte] at hl
      split at hl
      · simp at hl; simp [hl]
      · next l' ls' heq =>
        simp only [List.mem_cons] at hl
        rcases hl with hl | hl
        · simp [hl]
        · exact ih l (by rw [heq]; simp [hl])

/-- the first piece of `split_inclusive` is `"\n"` only if the text starts with a newline -/
theorem splitInclusiveNL_head_nl (bs : Bytes) (ls : List Bytes)
    (h : splitInclusiveNL bs = [NL] :: ls) : ∃ bs', bs = NL :: bs' := by
  cases bs with
  | nil => simp [splitInclusiveNL] at h
  | cons b bs =>
    by_cases hb : b = NL
    · exact ⟨bs, by rw [hb]⟩
    · simp only [splitInclusiveNL, hb, ↓reduceIte] at h
      split at h
      · simp at h; exact absurd h.1 hb
      · next l' ls' heq =>
        simp only [List.cons.injEq] at h
        have hl' : l' ≠ [] := splitInclusiveNL_pieces_ne_nil bs l' (by rw [heq]; simp)
        exact absurd h.1.2 hl'

/-- line `i` according to `str::lines` is line `i` according to `split('\n')`, up to one
trailing `\r` -/
theorem strLines_vs_splitNL (x : Bytes) (i : Nat) (t : Bytes) (h : (strLines x)[i]? = some t) :
    ∃ l0, (splitNL x)[i]? = some l0 ∧ (l0 = t ∨ l0 = t ++ [CR]) := by
  induction x generalizing i t with
  | nil => simp [strLines, splitInclusiveNL] at h
  | cons b bs ih =>
    by_cases hb : b = NL
    · subst hb
      have hs : strLines (NL :: bs) = [] :: strLines bs := by
        simp [strLines, splitInclusiveNL, stripLineEnd_nl]
      rw [hs] at h
      rw [splitNL_cons_nl]
      cases i with
      | zero => simp at h; exact ⟨[], by simp, .inl h.symm⟩
      | succ i => simpa using ih i t (by simpa using h)
    · obtain ⟨l0, ls0, h1, h2⟩ := splitNL_cons_ne_p b bs hb
      rw [h2]
      cases hsi : splitInclusiveNL bs with
      | nil =>
        have hbs : bs = [] := (splitInclusiveNL_eq_nil bs).mp hsi
        subst hbs
        have hs : strLines [b] = [[b]] := by
          simp [strLines, splitInclusiveNL, hb, stripLineEnd, stripSuffixByte]
        rw [hs] at h
        simp [splitNL] at h1
        cases i with
        | zero => simp at h; exact ⟨[b], by simp [h1.1], .inl h⟩
        | succ i => simp at h
      | cons l' ls' =>
        have hl' : l' ≠ [] := splitInclusiveNL_pieces_ne_nil bs l' (by rw [hsi]; simp)
        have hs : strLines (b :: bs) = stripLineEnd (b :: l') :: ls'.map stripLineEnd := by
          simp [strLines, splitInclusiveNL, hb, hsi]
        have hs' : strLines bs = stripLineEnd l' :: ls'.map stripLineEnd := by
          simp [strLines, hsi]
        rw [hs] at h
        cases i with
        | zero =>
          simp at h
          obtain ⟨l00, hl00, hrel⟩ := ih 0 (stripLineEnd l') (by simp [hs'])
          rw [h1] at hl00
          simp at hl00
          subst hl00
          by_cases hx : b = CR ∧ l' = [NL]
          · obtain ⟨hbc, hln⟩ := hx
            obtain ⟨bs', hbs'⟩ := splitInclusiveNL_head_nl bs ls' (by rw [hsi, hln])
            rw [hbs', splitNL_cons_nl] at h1
            simp at h1
            have ht : t = [] := by
              rw [← h, hln, hbc]; simp [stripLineEnd, stripSuffixByte]
            exact ⟨b :: l0, by simp, .inr (by rw [ht, h1.1, hbc]; simp)⟩
          · rw [stripLineEnd_cons b l' hl' hx] at h
            refine ⟨b :: l0, by simp, ?_⟩
            rcases hrel with hrel | hrel
            · left; rw [← h, hrel]
            · right; rw [← h, hrel]; simp
        | succ i =>
          have := ih (i + 1) t (by rw [hs']; simpa using h)
          rw [h1] at this
          simpa using this

/-! ## `push_matched_to_ret` -/

theorem joinLines_cons_cons (b : UInt8) (x : Bytes) (rest : List Bytes) :
    joinLines ((b :: x) :: rest) = b :: joinLines (x :: rest) := by
  cases rest <;> simp [joinLines]

/-- a matched text that does not end with a newline and holds no `\r` is pushed unchanged -/
theorem joinLines_strLines (m : Bytes) (hcr : CR ∉ m) (hnl : m.getLast? ≠ some NL) :
    joinLines (strLines m) = m := by
  induction m with
  | nil => simp [strLines, splitInclusiveNL, joinLines]
  | cons b bs ih =>
    have hcr' : CR ∉ bs := fun h => hcr (List.mem_cons_of_mem _ h)
    have hbcr : b ≠ CR := fun h => hcr (by rw [h]; simp)
    cases hsi : splitInclusiveNL bs with
    | nil =>
      have hbs : bs = [] := (splitInclusiveNL_eq_nil bs).mp hsi
      subst hbs
      have hb : b ≠ NL := by simpa using hnl
      simp [strLines, splitInclusiveNL, hb, stripLineEnd, stripSuffixByte, joinLines]
    | cons l' ls' =>
      have hbsne : bs ≠ [] := fun h => by rw [h] at hsi; simp [splitInclusiveNL] at hsi
      have hnl' : bs.getLast? ≠ some NL := by
        rw [List.getLast?_cons_of_ne_nil hbsne] at hnl
        · exact hnl
      have hih := ih hcr' hnl'
      have hs' : strLines bs = stripLineEnd l' :: ls'.map stripLineEnd := by simp [strLines, hsi]
      by_cases hb : b = NL
      · have hs : strLines (b :: bs) = [] :: strLines bs := by
          simp [strLines, splitInclusiveNL, hb, stripLineEnd_nl]
        rw [hs, hs']
        rw [hs'] at hih
        simp only [joinLines]
        rw [hih, hb]; simp
      · have hl' : l' ≠ [] := splitInclusiveNL_pieces_ne_nil bs l' (by rw [hsi]; simp)
        have hs : strLines (b :: bs) = stripLineEnd (b :: l') :: ls'.map stripLineEnd := by
          simp [strLines, splitInclusiveNL, hb, hsi]
        rw [hs, stripLineEnd_cons b l' hl' (fun h => hbcr h.1), joinLines_cons_cons, ← hs', hih]

/-- `lines()` joined by `\n`, plus the final `\n` that `lines()` swallows, is the text itself when
it holds no `\r` (what `push_matched_to_ret` appends since 0b29009) -/
theorem joinLines_strLines_tail (m : Bytes) (hcr : CR ∉ m) :
    joinLines (strLines m) ++ (if endsWithNL m then [NL] else []) = m := by
  induction m with
  | nil => simp [strLines, splitInclusiveNL, joinLines, endsWithNL]
  | cons b bs ih =>
    have hcr' : CR ∉ bs := fun h => hcr (List.mem_cons_of_mem _ h)
    have hbcr : b ≠ CR := fun h => hcr (by rw [h]; simp)
    cases hsi : splitInclusiveNL bs with
    | nil =>
      have hbs : bs = [] := (splitInclusiveNL_eq_nil bs).mp hsi
      subst hbs
      by_cases hb : b = NL
      · subst hb
        simp [strLines, splitInclusiveNL, stripLineEnd_nl, joinLines, endsWithNL]
      · simp [strLines, splitInclusiveNL, hb, stripLineEnd, stripSuffixByte, joinLines, endsWithNL]
    | cons l' ls' =>
      have hbsne : bs ≠ [] := fun h => by rw [h] at hsi; simp [splitInclusiveNL] at hsi
      have hlast : endsWithNL (b :: bs) = endsWithNL bs := by
        simp [endsWithNL, List.getLast?_cons_of_ne_nil hbsne]
      have hih := ih hcr'
      have hs' : strLines bs = stripLineEnd l' :: ls'.map stripLineEnd := by simp [strLines, hsi]
      rw [hlast]
      by_cases hb : b = NL
      · have hs : strLines (b :: bs) = [] :: strLines bs := by
          simp [strLines, splitInclusiveNL, hb, stripLineEnd_nl]
        rw [hs, hs']
        rw [hs'] at hih
        simp only [joinLines, List.nil_append, List.cons_append]
        rw [hih, hb]
      · have hl' : l' ≠ [] := splitInclusiveNL_pieces_ne_nil bs l' (by rw [hsi]; simp)
        have hs : strLines (b :: bs) = stripLineEnd (b :: l') :: ls'.map stripLineEnd := by
          simp [strLines, splitInclusiveNL, hb, hsi]
        rw [hs, stripLineEnd_cons b l' hl' (fun h => hbcr h.1), joinLines_cons_cons, ← hs',
          List.cons_append, hih]

theorem strLines_eq_nil (m : Bytes) : strLines m = [] ↔ m = [] := by
  simp [strLines, splitInclusiveNL_eq_nil]

end AGV
