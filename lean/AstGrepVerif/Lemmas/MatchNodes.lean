/-
Which candidate nodes the matcher hands to its aggregator: only nodes of the candidate's
subtree.  Generic in the aggregator (any state relation `Step N st st'` — "the state moved
from `st` to `st'` by callbacks on nodes satisfying `N`" — that is reflexive, transitive,
monotone and respected by the three callbacks), then instantiated with `endAgg`.
Also: well-formed byte ranges of a tree (`Tree.WF`) and their consequences.
-/
import AstGrepVerif.Lemmas.MatchSound

set_option linter.unusedSimpArgs false
set_option linter.unusedVariables false

namespace AGV

/-! ## Nodes of a forest -/

/-- `t` is a node of the forest `cands` -/
def Below (cands : List Tree) (t : Tree) : Prop := t ∈ Tree.preorderList cands

theorem Tree.mem_preorder_self (t : Tree) : t ∈ t.preorder := by
  rw [Tree.preorder_eq]; simp

theorem Tree.preorderList_append (a b : List Tree) :
    Tree.preorderList (a ++ b) = Tree.preorderList a ++ Tree.preorderList b := by
  induction a with
  | nil => simp [Tree.preorderList]
  | cons x xs ih => simp [Tree.preorderList, ih]

theorem Below.child {cs : List Tree} {c t : Tree} (hc : c ∈ cs) (ht : t ∈ c.preorder) :
    Below cs t := Tree.mem_preorderList hc t ht

theorem Below.of_mem {cs : List Tree} {x : Tree} (h : x ∈ cs) : Below cs x :=
  Below.child h (Tree.mem_preorder_self x)

theorem Below.of_suffix {cs' cs : List Tree} (h : cs' <:+ cs) {t : Tree} (ht : Below cs' t) :
    Below cs t := by
  obtain ⟨pre, rfl⟩ := h
  simp only [Below, Tree.preorderList_append, List.mem_append]
  exact .inr ht

theorem Below.of_children {c t : Tree} (ht : Below c.children t) : t ∈ c.preorder := by
  rw [Tree.preorder_eq]; exact List.mem_cons_of_mem _ ht

/-! ## The generic invariant -/

/-- what the state relation must satisfy -/
structure StepOK {σ : Type} (agg : Agg σ) (Step : (Tree → Prop) → σ → σ → Prop) : Prop where
  refl : ∀ {N : Tree → Prop} {st : σ}, Step N st st
  trans : ∀ {N : Tree → Prop} {a b c : σ}, Step N a b → Step N b c → Step N a c
  mono : ∀ {N M : Tree → Prop} {a b : σ}, (∀ t, N t → M t) → Step N a b → Step M a b
  terminal : ∀ {N : Tree → Prop} {st st' : σ} {t : Tree},
    agg.terminal st t = some st' → N t → Step N st st'
  metaVar : ∀ {N : Tree → Prop} {st st' : σ} {mv : MetaVar} {t : Tree},
    agg.metaVar st mv t = some st' → N t → Step N st st'
  ellipsis : ∀ {N : Tree → Prop} {st st' : σ} {n : Option Name} {nodes : List Tree} {k : Nat},
    agg.ellipsis st n nodes k = some st' → (∀ x ∈ nodes, N x) → Step N st st'

section
variable {σ : Type} (agg : Agg σ) (s : Strictness) (src : Bytes)
variable (Step : (Tree → Prop) → σ → σ → Prop)

def NodeSt (fuel : Nat) : Prop :=
  ∀ p c st r, matchNode agg s src fuel p c st = .ok r → Step (· ∈ c.preorder) st r.2

def NodesSt (fuel : Nat) : Prop :=
  ∀ goals cands st r, matchNodes agg s src fuel goals cands st = .ok r →
    Step (Below cands) st r.2

def LoopSt (fuel : Nat) : Prop :=
  ∀ goals cands st r, matchLoop agg s src fuel goals cands st = .ok r →
    Step (Below cands) st r.2

def MaySt (fuel : Nat) : Prop :=
  ∀ goals cands st r, mayMatchEllipsis agg s src fuel goals cands st = .ok r →
    Step (Below cands) st r.2.2.2 ∧ r.2.2.1 <:+ cands

def ScanSt (fuel : Nat) : Prop :=
  ∀ optName skipped goals cands matched st r,
    ellipsisScan agg s src fuel optName skipped goals cands matched st = .ok r →
    Step (Below (matched ++ cands)) st r.2.2.2 ∧ r.2.2.1 <:+ cands

def SingleSt (fuel : Nat) : Prop :=
  ∀ goals cands st r, matchSingle agg s src fuel goals cands st = .ok r →
    Step (Below cands) st r.2.2.2 ∧ r.2.2.1 <:+ cands

variable (hok : StepOK agg Step)
include hok

theorem node_st_step (fuel : Nat) (hN : NodesSt agg s src Step fuel) :
    NodeSt agg s src Step (fuel + 1) := by
  intro p c st r h
  cases p with
  | terminal text named kind =>
    simp only [matchNode] at h
    split at h
    · split at h
      · next st' hs =>
        simp only [Except.ok.injEq] at h; subst h
        exact hok.terminal hs (Tree.mem_preorder_self c)
      · simp only [Except.ok.injEq] at h; subst h; exact hok.refl
    · simp only [Except.ok.injEq] at h; subst h; exact hok.refl
  | metaVar mv =>
    simp only [matchNode] at h
    split at h
    · next st' hs =>
      simp only [Except.ok.injEq] at h; subst h
      exact hok.metaVar hs (Tree.mem_preorder_self c)
    · simp only [Except.ok.injEq] at h; subst h; exact hok.refl
  | internal kind children =>
    simp only [matchNode] at h
    split at h
    · split at h
      · cases h
      · next st1 hm =>
        simp only [Except.ok.injEq] at h; subst h
        exact hok.mono (fun t ht => Below.of_children ht) (hN _ _ _ _ hm)
      · next st1 hm =>
        simp only [Except.ok.injEq] at h; subst h
        exact hok.mono (fun t ht => Below.of_children ht) (hN _ _ _ _ hm)
    · simp only [Except.ok.injEq] at h; subst h; exact hok.refl

theorem nodes_st_step (fuel : Nat) (hL : LoopSt agg s src Step fuel) :
    NodesSt agg s src Step (fuel + 1) := by
  intro goals cands st r h
  simp only [matchNodes] at h
  split at h
  · simp only [Except.ok.injEq] at h; subst h; exact hok.refl
  · exact hL _ _ _ _ h

theorem scan_st_step (fuel : Nat) (hN : NodeSt agg s src Step fuel)
    (hS : ScanSt agg s src Step fuel) : ScanSt agg s src Step (fuel + 1) := by
  intro optName skipped goals cands matched st r h
  simp only [ellipsisScan] at h
  split at h
  · cases h
  · cases h
  · next g gt c cs =>
    -- the trial `matchNode` runs on a copy of the aggregator: its state is dropped
    split at h
    · cases h
    · split at h
      · next st2 he =>
        simp only [Except.ok.injEq] at h; subst h
        refine ⟨hok.ellipsis he ?_, List.suffix_refl _⟩
        intro x hx
        exact Below.of_mem (by simp at hx; simp [hx])
      · simp only [Except.ok.injEq] at h; subst h
        exact ⟨hok.refl, List.suffix_refl _⟩
    · split at h
      · simp only [Except.ok.injEq] at h; subst h
        exact ⟨hok.refl, List.suffix_cons _ _⟩
      · next c2 cs2 =>
        obtain ⟨g2, s2⟩ := hS _ _ _ _ _ _ _ h
        refine ⟨?_, s2.trans (List.suffix_cons _ _)⟩
        simpa using g2

theorem may_st_step (fuel : Nat) (hS : ScanSt agg s src Step fuel) :
    MaySt agg s src Step (fuel + 1) := by
  intro goals cands st r h
  simp only [mayMatchEllipsis] at h
  split at h
  · simp only [Except.ok.injEq] at h; subst h; exact ⟨hok.refl, List.suffix_refl _⟩
  · next g gs =>
    split at h
    · simp only [Except.ok.injEq] at h; subst h; exact ⟨hok.refl, List.suffix_refl _⟩
    · next optName hmode =>
      have hall : ∀ {st' : σ} {k : Nat}, matchEllipsis agg st optName [] cands k = some st' →
          Step (Below cands) st st' :=
        fun he => hok.ellipsis he (fun x hx => Below.of_mem (by simpa using hx))
      split at h
      · split at h
        · next st' he =>
          simp only [Except.ok.injEq] at h; subst h
          exact ⟨hall he, List.nil_suffix⟩
        · simp only [Except.ok.injEq] at h; subst h; exact ⟨hok.refl, List.nil_suffix⟩
      · next g1 gs1 =>
        generalize skipTrivialGoals (g1 :: gs1) = sk at h
        obtain ⟨skipped, gs'⟩ := sk
        simp only at h
        split at h
        · split at h
          · next st' he =>
            simp only [Except.ok.injEq] at h; subst h
            exact ⟨hall he, List.nil_suffix⟩
          · simp only [Except.ok.injEq] at h; subst h; exact ⟨hok.refl, List.nil_suffix⟩
        · next g2 gt2 =>
          split at h
          · split at h
            · cases h
            · next c cs =>
              split at h
              · simp only [Except.ok.injEq] at h; subst h
                exact ⟨hok.refl, List.suffix_cons _ _⟩
              · split at h
                · next st' he =>
                  simp only [Except.ok.injEq] at h; subst h
                  refine ⟨hok.ellipsis he ?_, List.suffix_cons _ _⟩
                  intro x hx
                  exact Below.of_mem (by simp at hx; simp [hx])
                · simp only [Except.ok.injEq] at h; subst h
                  exact ⟨hok.refl, List.suffix_cons _ _⟩
          · have := hS _ _ _ _ _ _ _ h
            simpa using this

theorem single_st_step (fuel : Nat) (hN : NodeSt agg s src Step fuel)
    (hS : SingleSt agg s src Step fuel) : SingleSt agg s src Step (fuel + 1) := by
  intro goals cands st r h
  simp only [matchSingle] at h
  split at h
  · split at h
    · simp only [Except.ok.injEq] at h; subst h; exact ⟨hok.refl, List.suffix_refl _⟩
    · simp only [Except.ok.injEq] at h; subst h; exact ⟨hok.refl, List.suffix_refl _⟩
  · next c cs =>
    have hin : ∀ t, t ∈ c.preorder → Below (c :: cs) t :=
      fun t ht => Below.child (by simp) ht
    have hcs : ∀ t, Below cs t → Below (c :: cs) t :=
      fun t ht => Below.of_suffix (List.suffix_cons _ _) ht
    split at h
    · cases h
    · next g gs =>
      split at h
      · cases h
      · next st1 hm =>
        simp only [Except.ok.injEq] at h; subst h
        exact ⟨hok.mono hin (hN _ _ _ _ hm), List.suffix_refl _⟩
      · next st1 hm =>
        have g1 := hok.mono hin (hN _ _ _ _ hm)
        split at h
        · simp only [Except.ok.injEq] at h; subst h
          exact ⟨g1, List.suffix_refl _⟩
        · obtain ⟨g2, s2⟩ := hS _ _ _ _ h
          exact ⟨hok.trans g1 g2, s2⟩
      · next st1 hm =>
        have g1 := hok.mono hin (hN _ _ _ _ hm)
        split at h
        · simp only [Except.ok.injEq] at h; subst h
          exact ⟨g1, List.suffix_cons _ _⟩
        · obtain ⟨g2, s2⟩ := hS _ _ _ _ h
          exact ⟨hok.trans g1 (hok.mono hcs g2), s2.trans (List.suffix_cons _ _)⟩
      · next st1 hm =>
        have g1 := hok.mono hin (hN _ _ _ _ hm)
        obtain ⟨g2, s2⟩ := hS _ _ _ _ h
        exact ⟨hok.trans g1 (hok.mono hcs g2), s2.trans (List.suffix_cons _ _)⟩
      · next st1 hm =>
        simp only [Except.ok.injEq] at h; subst h
        exact ⟨hok.mono hin (hN _ _ _ _ hm), List.suffix_refl _⟩

theorem loop_st_step (fuel : Nat) (hM : MaySt agg s src Step fuel)
    (hS : SingleSt agg s src Step fuel) (hL : LoopSt agg s src Step fuel) :
    LoopSt agg s src Step (fuel + 1) := by
  intro goals cands st r h
  simp only [matchLoop] at h
  split at h
  · cases h
  · next hm => simp only [Except.ok.injEq] at h; subst h; exact (hM _ _ _ _ hm).1
  · next hm => simp only [Except.ok.injEq] at h; subst h; exact (hM _ _ _ _ hm).1
  · next goals1 cands1 st1 hm =>
    obtain ⟨g1, s1⟩ := hM _ _ _ _ hm
    exact hok.trans g1 (hok.mono (fun t ht => Below.of_suffix s1 ht) (hL _ _ _ _ h))
  · next goals1 cands1 st1 hm =>
    obtain ⟨g1, s1⟩ := hM _ _ _ _ hm
    simp only at s1
    split at h
    · cases h
    · next hs =>
      simp only [Except.ok.injEq] at h; subst h
      exact hok.trans g1 (hok.mono (fun t ht => Below.of_suffix s1 ht) (hS _ _ _ _ hs).1)
    · next hs =>
      simp only [Except.ok.injEq] at h; subst h
      exact hok.trans g1 (hok.mono (fun t ht => Below.of_suffix s1 ht) (hS _ _ _ _ hs).1)
    · next goals2 cands2 st2 hs =>
      obtain ⟨g2, s2⟩ := hS _ _ _ _ hs
      simp only at s2
      exact hok.trans (hok.trans g1 (hok.mono (fun t ht => Below.of_suffix s1 ht) g2))
        (hok.mono (fun t ht => Below.of_suffix (s2.trans s1) ht) (hL _ _ _ _ h))
    · next goals2 cands2 st2 hs =>
      obtain ⟨g2, s2⟩ := hS _ _ _ _ hs
      simp only at s2 g2
      have g12 := hok.trans g1 (hok.mono (fun t ht => Below.of_suffix s1 ht) g2)
      cases goals2 with
      | nil =>
        simp only [Except.ok.injEq] at h; subst h; exact g12
      | cons g0 gs0 =>
        simp only at h
        split at h
        · simp only [Except.ok.injEq] at h; subst h; exact g12
        · split at h
          · simp only [Except.ok.injEq] at h; subst h; exact g12
          · exact hok.trans g12 (hok.mono
              (fun t ht => Below.of_suffix (((List.tail_suffix _).trans s2).trans s1) ht)
              (hL _ _ _ _ h))

/-- all six invariants, by induction on the fuel -/
theorem all_st (fuel : Nat) :
    NodeSt agg s src Step fuel ∧ NodesSt agg s src Step fuel ∧ LoopSt agg s src Step fuel ∧
    MaySt agg s src Step fuel ∧ ScanSt agg s src Step fuel ∧ SingleSt agg s src Step fuel := by
  induction fuel with
  | zero =>
    refine ⟨?_, ?_, ?_, ?_, ?_, ?_⟩
    · intro p c st r h; simp [matchNode] at h
    · intro goals cands st r h; simp [matchNodes] at h
    · intro goals cands st r h; simp [matchLoop] at h
    · intro goals cands st r h; simp [mayMatchEllipsis] at h
    · intro optName skipped goals cands matched st r h; simp [ellipsisScan] at h
    · intro goals cands st r h; simp [matchSingle] at h
  | succ fuel ih =>
    obtain ⟨hN, hNs, hL, hM, hSc, hSi⟩ := ih
    exact ⟨node_st_step agg s src Step hok fuel hNs, nodes_st_step agg s src Step hok fuel hL,
      loop_st_step agg s src Step hok fuel hM hSi hL, may_st_step agg s src Step hok fuel hSc,
      scan_st_step agg s src Step hok fuel hN hSc, single_st_step agg s src Step hok fuel hN hSi⟩

end

/-! ## `endAgg`: the state is `0`-or-initial, or the end offset of a node handed to a callback -/

def EndStep (N : Tree → Prop) (e e' : Nat) : Prop := e' = e ∨ ∃ d, N d ∧ e' = d.stop

theorem endAgg_stepOK : StepOK endAgg EndStep where
  refl := .inl rfl
  trans := by
    intro N a b c h1 h2
    rcases h2 with rfl | h2
    · exact h1
    · exact .inr h2
  mono := by
    intro N M a b h h1
    rcases h1 with h1 | ⟨d, hd, e⟩
    · exact .inl h1
    · exact .inr ⟨d, h d hd, e⟩
  terminal := by
    intro N st st' t h ht
    simp only [endAgg, Option.some.injEq] at h
    exact .inr ⟨t, ht, h.symm⟩
  metaVar := by
    intro N st st' mv t h ht
    simp only [endAgg, Option.some.injEq] at h
    exact .inr ⟨t, ht, h.symm⟩
  ellipsis := by
    intro N st st' n nodes k h hn
    simp only [endAgg] at h
    split at h
    · next d hd =>
      simp only [Option.some.injEq] at h
      exact .inr ⟨d, hn d (List.mem_of_getLast? hd), h.symm⟩
    · cases h

theorem matchNode_end_state (s : Strictness) (src : Bytes) (fuel : Nat) (p : PNode) (c : Tree)
    (e : Nat) (r : MatchOne) (e' : Nat) (h : matchNode endAgg s src fuel p c e = .ok (r, e')) :
    e' = e ∨ ∃ d ∈ c.preorder, e' = d.stop :=
  (all_st endAgg s src EndStep endAgg_stepOK fuel).1 p c e _ h

/-! ## Well-formed byte ranges -/

mutual
/-- `start ≤ stop`, and the children lie inside the node, ordered left to right, recursively -/
def Tree.wf : Tree → Bool
  | .node i cs => decide (i.start ≤ i.stop) && Tree.wfList i.start i.stop cs
/-- the siblings `ts` lie inside `[lo, hi]`, each starting where the previous one stopped or
later -/
def Tree.wfList (lo hi : Nat) : List Tree → Bool
  | [] => true
  | t :: ts =>
    decide (lo ≤ t.start) && decide (t.stop ≤ hi) && t.wf && Tree.wfList t.stop hi ts
end

def Tree.WF (t : Tree) : Prop := t.wf = true

instance (t : Tree) : Decidable (Tree.WF t) := inferInstanceAs (Decidable (t.wf = true))

theorem Tree.wf_range {t : Tree} (h : t.wf = true) : t.start ≤ t.stop := by
  cases t with
  | node i cs =>
    simp only [Tree.wf, Bool.and_eq_true, decide_eq_true_eq] at h
    exact h.1

mutual
theorem Tree.wf_bounds : (t : Tree) → t.wf = true →
    ∀ d ∈ t.preorder, t.start ≤ d.start ∧ d.start ≤ d.stop ∧ d.stop ≤ t.stop
  | .node i cs, h, d, hd => by
    have hr := Tree.wf_range h
    simp only [Tree.wf, Bool.and_eq_true, decide_eq_true_eq] at h
    simp only [Tree.preorder, List.mem_cons] at hd
    rcases hd with rfl | hd
    · exact ⟨Nat.le_refl _, hr, Nat.le_refl _⟩
    · exact Tree.wfList_bounds i.start i.stop cs h.2 d hd
theorem Tree.wfList_bounds : (lo hi : Nat) → (ts : List Tree) → Tree.wfList lo hi ts = true →
    ∀ d ∈ Tree.preorderList ts, lo ≤ d.start ∧ d.start ≤ d.stop ∧ d.stop ≤ hi
  | lo, hi, [], h, d, hd => by simp [Tree.preorderList] at hd
  | lo, hi, t :: ts, h, d, hd => by
    simp only [Tree.wfList, Bool.and_eq_true, decide_eq_true_eq] at h
    obtain ⟨⟨⟨h1, h2⟩, h3⟩, h4⟩ := h
    have hr := Tree.wf_range h3
    simp only [Tree.preorderList, List.mem_append] at hd
    rcases hd with hd | hd
    · have := Tree.wf_bounds t h3 d hd
      omega
    · have := Tree.wfList_bounds t.stop hi ts h4 d hd
      omega
end

/- in a well-formed tree the end of a node never falls strictly inside a childless node
(a token) -/
mutual
theorem Tree.wf_no_split : (t : Tree) → t.wf = true →
    ∀ d ∈ t.preorder, ∀ l ∈ t.preorder, l.children = [] →
      ¬ (l.start < d.stop ∧ d.stop < l.stop)
  | .node i cs, h, d, hd, l, hl, hleaf => by
    have hb := Tree.wf_bounds (.node i cs) h
    have hbd := hb d hd
    have hbl := hb l hl
    simp only [Tree.wf, Bool.and_eq_true, decide_eq_true_eq] at h
    simp only [Tree.preorder, List.mem_cons] at hd hl
    rcases hd with rfl | hd <;> rcases hl with rfl | hl
    · omega
    · omega
    · simp only [Tree.children] at hleaf
      subst hleaf
      simp [Tree.preorderList] at hd
    · exact Tree.wfList_no_split i.start i.stop cs h.2 d hd l hl hleaf
theorem Tree.wfList_no_split : (lo hi : Nat) → (ts : List Tree) → Tree.wfList lo hi ts = true →
    ∀ d ∈ Tree.preorderList ts, ∀ l ∈ Tree.preorderList ts, l.children = [] →
      ¬ (l.start < d.stop ∧ d.stop < l.stop)
  | lo, hi, [], h, d, hd, l, hl, hleaf => by simp [Tree.preorderList] at hd
  | lo, hi, t :: ts, h, d, hd, l, hl, hleaf => by
    simp only [Tree.wfList, Bool.and_eq_true, decide_eq_true_eq] at h
    obtain ⟨⟨⟨h1, h2⟩, h3⟩, h4⟩ := h
    simp only [Tree.preorderList, List.mem_append] at hd hl
    rcases hd with hd | hd <;> rcases hl with hl | hl
    · exact Tree.wf_no_split t h3 d hd l hl hleaf
    · have := Tree.wf_bounds t h3 d hd
      have := Tree.wfList_bounds t.stop hi ts h4 l hl
      omega
    · have := Tree.wf_bounds t h3 l hl
      have := Tree.wfList_bounds t.stop hi ts h4 d hd
      omega
    · exact Tree.wfList_no_split t.stop hi ts h4 d hd l hl hleaf
end

end AGV
