/-
Helper lemmas for `Model/Bytes.lean`: rows, columns, the abstract UTF-8 interface.
-/
import AstGrepVerif.Model.Bytes

set_option linter.unusedSimpArgs false
set_option linter.unusedVariables false

namespace AGV

/-! ## the abstract UTF-8 interface (DESIGN 3.1) -/

/-- What the theorems need to know about the encoder: a character is one non-continuation byte
followed by continuation bytes, and the byte `\n` occurs exactly as the image of the char `\n`.
(Checked for Rust's encoder on every generated text by oracle `c16_utf8_interface`.) -/
structure Utf8Like (enc1 : Char → Bytes) : Prop where
  shape : ∀ c, ∃ h t, enc1 c = h :: t ∧ isCont h = false ∧ ∀ b ∈ t, isCont b = true
  nl : enc1 '\n' = [NL]
  no_nl : ∀ c, c ≠ '\n' → NL ∉ enc1 c

/-- the text of a character list -/
def encode (enc1 : Char → Bytes) (cs : List Char) : Bytes := (cs.map enc1).flatten

theorem encode_append (enc1 : Char → Bytes) (xs ys : List Char) :
    encode enc1 (xs ++ ys) = encode enc1 xs ++ encode enc1 ys := by
  simp [encode]

theorem encode_cons (enc1 : Char → Bytes) (c : Char) (cs : List Char) :
    encode enc1 (c :: cs) = enc1 c ++ encode enc1 cs := by
  simp [encode]

theorem isCont_NL : isCont NL = false := by decide

/-! ## charCount -/

theorem charCount_append (a b : Bytes) : charCount (a ++ b) = charCount a + charCount b := by
  simp [charCount, List.countP_append]

theorem charCount_reverse (a : Bytes) : charCount a.reverse = charCount a := by
  simp [charCount]

theorem charCount_enc1 {enc1 : Char → Bytes} (h : Utf8Like enc1) (c : Char) :
    charCount (enc1 c) = 1 := by
  obtain ⟨hd, tl, he, hh, ht⟩ := h.shape c
  rw [he]
  simp only [charCount, List.countP_cons, hh]
  have : List.countP (fun b => !isCont b) tl = 0 := by
    rw [List.countP_eq_zero]
    intro b hb
    simp [ht b hb]
  simp [this]

/-- `chars().count()` of a text is its number of characters -/
theorem charCount_encode {enc1 : Char → Bytes} (h : Utf8Like enc1) (cs : List Char) :
    charCount (encode enc1 cs) = cs.length := by
  induction cs with
  | nil => rfl
  | cons c cs ih => rw [encode_cons, charCount_append, charCount_enc1 h, ih]; simp; omega

/-! ## get_char_column -/

theorem colScan_eq (bs : Bytes) (col : Nat) :
    colScan bs col = col + charCount (bs.takeWhile (· ≠ NL)) := by
  induction bs generalizing col with
  | nil => simp [colScan, charCount]
  | cons b bs ih =>
    by_cases hb : b = NL
    · simp [colScan, hb, charCount]
    · simp only [colScan, hb, ↓reduceIte, ih]
      rw [List.takeWhile_cons_of_pos (by simpa using hb)]
      by_cases hc : isCont b = true
      · simp [hc, charCount]
      · simp [hc, charCount]; omega

/-- byte-level reading of `get_char_column`: the number of non-continuation bytes between the
last newline before `offset` (or the start of the text) and `offset` -/
theorem getCharColumn_bytes (src : Bytes) (off : Nat) (h : off ≤ src.length) :
    getCharColumn src off = some (charCount ((src.take off).reverse.takeWhile (· ≠ NL))) := by
  simp [getCharColumn, h, colScan_eq]

theorem takeWhile_reverse_enc1 {enc1 : Char → Bytes} (h : Utf8Like enc1) (c : Char) (hc : c ≠ '\n')
    (rest : Bytes) :
    ((enc1 c).reverse ++ rest).takeWhile (· ≠ NL) = (enc1 c).reverse ++ rest.takeWhile (· ≠ NL) := by
  rw [List.takeWhile_append_of_pos]
  intro b hb
  have hb' : b ∈ enc1 c := by simpa using hb
  have := h.no_nl c hc
  simp only [ne_eq, decide_eq_true_eq]
  intro hbn
  exact this (hbn ▸ hb')

/-- scanning the reversed text of `rs.reverse` from its end: everything up to the last `\n` char -/
theorem takeWhile_reverse_encode {enc1 : Char → Bytes} (h : Utf8Like enc1) (rs : List Char) :
    charCount (((rs.map fun c => (enc1 c).reverse).flatten).takeWhile (· ≠ NL))
      = (rs.takeWhile (· ≠ '\n')).length := by
  induction rs with
  | nil => rfl
  | cons c rs ih =>
    by_cases hc : c = '\n'
    · subst hc
      simp [h.nl]
      rfl
    · simp only [List.map_cons, List.flatten_cons]
      rw [takeWhile_reverse_enc1 h c hc, charCount_append, charCount_reverse, charCount_enc1 h, ih]
      rw [List.takeWhile_cons_of_pos (by simpa using hc)]
      simp; omega

theorem reverse_encode (enc1 : Char → Bytes) (cs : List Char) :
    (encode enc1 cs).reverse = (cs.reverse.map fun c => (enc1 c).reverse).flatten := by
  induction cs with
  | nil => rfl
  | cons c cs ih => rw [encode_cons]; simp [ih]

/-! ## rows -/

theorem takeWhile_append_of_exists {α : Type} {p : α → Bool} {xs ys : List α}
    (h : ∃ x ∈ xs, ¬ (p x = true)) : (xs ++ ys).takeWhile p = xs.takeWhile p := by
  induction xs with
  | nil => obtain ⟨x, hx, _⟩ := h; cases hx
  | cons a xs ih =>
    by_cases ha : p a = true
    · simp only [List.cons_append, List.takeWhile_cons_of_pos ha]
      congr 1
      apply ih
      obtain ⟨x, hx, hp⟩ := h
      cases hx with
      | head => exact absurd ha hp
      | tail _ hx => exact ⟨x, hx, hp⟩
    · simp [List.takeWhile_cons_of_neg ha]


theorem posScan_row (bs : Bytes) (row col : Nat) :
    (posScan bs row col).1 = row + bs.count NL := by
  induction bs generalizing row col with
  | nil => simp [posScan]
  | cons b bs ih =>
    by_cases hb : b = NL
    · simp only [posScan, hb, ↓reduceIte, ih]; simp; omega
    · simp only [posScan, hb, ↓reduceIte, ih]
      rw [List.count_cons_of_ne (by exact fun h => hb h)]

theorem lineOf_eq (src : Bytes) (off : Nat) : lineOf src off = (src.take off).count NL := by
  simp [lineOf, posScan_row]

/-- byte column = length of the newline-free run before the offset -/
theorem posScan_col (bs : Bytes) (row col : Nat) :
    (posScan bs row col).2 =
      if NL ∈ bs then (bs.reverse.takeWhile (· ≠ NL)).length else col + bs.length := by
  induction bs generalizing row col with
  | nil => simp [posScan]
  | cons b bs ih =>
    by_cases hb : b = NL
    · subst hb
      simp only [posScan, ↓reduceIte, ih, List.mem_cons, true_or, List.reverse_cons]
      by_cases hm : NL ∈ bs
      · simp only [hm, ↓reduceIte]
        obtain ⟨a, c, hc⟩ := List.append_of_mem (List.mem_reverse.mpr hm)
        -- the run stops inside `bs.reverse`
        have : ∃ x ∈ bs.reverse, ¬ ((fun x => decide (x ≠ NL)) x = true) := ⟨NL, List.mem_reverse.mpr hm, by simp⟩
        rw [takeWhile_append_of_exists this]
      · simp only [hm, ↓reduceIte]
        rw [List.takeWhile_append_of_pos (by
          intro x hx; simp only [ne_eq, decide_eq_true_eq]; intro hxe; exact hm (hxe ▸ List.mem_reverse.mp hx))]
        simp
    · simp only [posScan, hb, ↓reduceIte, ih, List.mem_cons, List.reverse_cons]
      have hb' : NL ≠ b := fun h => hb h.symm
      by_cases hm : NL ∈ bs
      · simp only [hm, or_true, ↓reduceIte]
        have : ∃ x ∈ bs.reverse, ¬ ((fun x => decide (x ≠ NL)) x = true) := ⟨NL, List.mem_reverse.mpr hm, by simp⟩
        rw [takeWhile_append_of_exists this]
      · simp only [hm, hb', or_self, ↓reduceIte, List.length_cons]; omega

end AGV
