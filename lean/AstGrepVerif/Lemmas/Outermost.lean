/-
`outermost m t` characterised without recursion: the matching nodes of the subtree that have no
matching proper ancestor inside the subtree (for trees with unique ids), in pre-order.
-/
import AstGrepVerif.Lemmas.Nav
import AstGrepVerif.Lemmas.Pre

namespace AGV
open Tree

theorem Tree.child_size_lt {c t : Tree} (h : c ∈ t.children) : c.size < t.size := by
  rw [t.size_eq]
  have : ∀ (cs : List Tree), c ∈ cs → c.size ≤ sizeList cs := by
    intro cs
    induction cs with
    | nil => intro h; cases h
    | cons x xs ih =>
      intro h
      simp only [List.mem_cons] at h
      rcases h with rfl | h
      · simp [sizeList]
      · have := ih h; simp only [sizeList]; omega
  have := this _ h
  omega

theorem Tree.mem_preorder_iff {x t : Tree} : x ∈ t.preorder ↔ x = t ∨ x ∈ preorderList t.children := by
  rw [t.preorder_cons]; simp

theorem Tree.size_le_of_mem : ∀ (k : Nat) (t x : Tree), t.size ≤ k → x ∈ t.preorder → x.size ≤ t.size := by
  intro k
  induction k with
  | zero => intro t x h; have := t.size_pos; omega
  | succ k ih =>
    intro t x hk hx
    rcases Tree.mem_preorder_iff.1 hx with rfl | hx
    · exact Nat.le_refl _
    · obtain ⟨c, hc, hxc⟩ := Tree.mem_preorderList_iff.1 hx
      have := Tree.child_size_lt hc
      have := ih c x (by omega) hxc
      omega

theorem Tree.size_lt_of_mem_children {t x : Tree} (hx : x ∈ preorderList t.children) : x.size < t.size := by
  obtain ⟨c, hc, hxc⟩ := Tree.mem_preorderList_iff.1 hx
  have := Tree.child_size_lt hc
  have := Tree.size_le_of_mem c.size c x (Nat.le_refl _) hxc
  omega

theorem Tree.Below.mem {x a : Tree} (h : Below x a) : x ∈ preorderList a.children := by
  induction h with
  | child hc => exact Tree.mem_preorderList_iff.2 ⟨_, hc, Tree.self_mem_preorder _⟩
  | step _ hb ih =>
    exact Tree.mem_preorderList_iff.2 ⟨_, hb, Tree.mem_preorder_iff.2 (Or.inr ih)⟩

theorem Tree.Below.of_mem : ∀ (k : Nat) (t x : Tree), t.size ≤ k → x ∈ preorderList t.children → Below x t := by
  intro k
  induction k with
  | zero => intro t x h; have := t.size_pos; omega
  | succ k ih =>
    intro t x hk hx
    obtain ⟨c, hc, hxc⟩ := Tree.mem_preorderList_iff.1 hx
    rcases Tree.mem_preorder_iff.1 hxc with rfl | hxc
    · exact Below.child hc
    · have := Tree.child_size_lt hc
      exact Below.step (ih c x (by omega) hxc) hc

theorem Tree.Below.size_lt {x a : Tree} (h : Below x a) : x.size < a.size :=
  Tree.size_lt_of_mem_children h.mem

theorem Tree.mem_outermostList {m : Tree → Bool} {x : Tree} {ts : List Tree} :
    x ∈ outermostList m ts ↔ ∃ t ∈ ts, x ∈ outermost m t := by
  induction ts with
  | nil => simp [outermostList]
  | cons t ts ih => simp [outermostList, ih]

/-- children of a node with unique ids: unique ids, and a node cannot lie in two of them -/
theorem Tree.UniqueIds.children {t : Tree} (hu : t.UniqueIds) :
    (∀ c ∈ t.children, c.UniqueIds) ∧
    (∀ c ∈ t.children, ∀ c' ∈ t.children, ∀ x, x ∈ c.preorder → x ∈ c'.preorder → c = c') := by
  constructor
  · intro c hc
    obtain ⟨l, r, hlr⟩ := List.append_of_mem hc
    have hplug : t = Frame.plug ⟨t.info, l.reverse, r⟩ c := by
      cases t with
      | node i cs => simp [Tree.children] at hlr; simp [Frame.plug, Tree.info, hlr]
    rw [hplug] at hu
    exact (Frame.uniqueIds_plug hu).1
  · intro c hc c' hc' x hx hx'
    obtain ⟨l, r, hlr⟩ := List.append_of_mem hc
    have hplug : t = Frame.plug ⟨t.info, l.reverse, r⟩ c := by
      cases t with
      | node i cs => simp [Tree.children] at hlr; simp [Frame.plug, Tree.info, hlr]
    rw [hplug] at hu
    obtain ⟨_, hl, hr, _⟩ := Frame.uniqueIds_plug hu
    rw [hlr] at hc'
    simp only [List.mem_append, List.mem_cons] at hc'
    rcases hc' with h | rfl | h
    · exact absurd rfl (hl c' (by simpa using h) x hx' x hx)
    · rfl
    · exact absurd rfl (hr c' h x hx' x hx)

theorem mem_outermost_iff (m : Tree → Bool) :
    ∀ (k : Nat) (t : Tree), t.size ≤ k → t.UniqueIds → ∀ x,
      (x ∈ outermost m t ↔ x ∈ t.preorder ∧ m x = true ∧ ∀ a ∈ t.preorder, Below x a → m a = false) := by
  intro k
  induction k with
  | zero => intro t h; have := t.size_pos; omega
  | succ k ih =>
    intro t hk hu x
    rw [Tree.outermost_eq]
    by_cases hm : m t = true
    · simp only [hm, ↓reduceIte, List.mem_singleton]
      constructor
      · rintro rfl
        refine ⟨Tree.self_mem_preorder _, hm, ?_⟩
        intro a ha hb
        have h1 := hb.size_lt
        have h2 := Tree.size_le_of_mem x.size x a (Nat.le_refl _) ha
        omega
      · rintro ⟨hx, _, hno⟩
        rcases Tree.mem_preorder_iff.1 hx with rfl | hx
        · rfl
        · have := hno t (Tree.self_mem_preorder _) (Below.of_mem t.size t x (Nat.le_refl _) hx)
          rw [hm] at this; cases this
    · simp only [hm, Bool.false_eq_true, ↓reduceIte, Tree.mem_outermostList]
      obtain ⟨huc, hdis⟩ := hu.children
      constructor
      · rintro ⟨c, hc, hxc⟩
        have hcs := Tree.child_size_lt hc
        obtain ⟨h1, h2, h3⟩ := (ih c (by omega) (huc c hc) x).1 hxc
        refine ⟨Tree.preorder_trans _ h1 (Tree.child_mem_preorder hc), h2, ?_⟩
        intro a ha hb
        rcases Tree.mem_preorder_iff.1 ha with rfl | ha
        · simpa using hm
        · obtain ⟨c', hc', hac'⟩ := Tree.mem_preorderList_iff.1 ha
          have hxc' : x ∈ c'.preorder :=
            Tree.preorder_trans _ (Tree.mem_preorder_iff.2 (Or.inr hb.mem)) hac'
          have := hdis c hc c' hc' x h1 hxc'
          subst this
          exact h3 a hac' hb
      · rintro ⟨hx, hmx, hno⟩
        rcases Tree.mem_preorder_iff.1 hx with rfl | hx
        · rw [hmx] at hm; exact absurd rfl hm
        · obtain ⟨c, hc, hxc⟩ := Tree.mem_preorderList_iff.1 hx
          have hcs := Tree.child_size_lt hc
          refine ⟨c, hc, (ih c (by omega) (huc c hc) x).2 ⟨hxc, hmx, ?_⟩⟩
          intro a ha hb
          exact hno a (Tree.preorder_trans _ ha (Tree.child_mem_preorder hc)) hb

mutual
theorem outermost_sublist (m : Tree → Bool) : (t : Tree) → (outermost m t).Sublist t.preorder
  | .node i cs => by
    simp only [outermost, Tree.preorder]
    split
    · exact List.Sublist.cons_cons _ (List.nil_sublist _)
    · exact List.Sublist.cons _ (outermostList_sublist m cs)
theorem outermostList_sublist (m : Tree → Bool) : (ts : List Tree) → (outermostList m ts).Sublist (preorderList ts)
  | [] => by simp [outermostList, preorderList]
  | t :: ts => by
    simp only [outermostList, preorderList]
    exact List.Sublist.append (outermost_sublist m t) (outermostList_sublist m ts)
end

end AGV
