/-
Lemmas about the accept-all filter and the splice loop of the CLI (`Model/Interactive.lean`).
-/
import AstGrepVerif.Model.Edit
import AstGrepVerif.Lemmas.Splice

set_option linter.unusedSimpArgs false

namespace AGV
open Spec

/-- a CLI diff read as an edit of the specification -/
def Diff.toEdit (d : Diff) : Edit UInt8 := ⟨d.start, d.stop, d.rep⟩

@[simp] theorem Diff.toEdit_start (d : Diff) : d.toEdit.start = d.start := rfl
@[simp] theorem Diff.toEdit_stop (d : Diff) : d.toEdit.stop = d.stop := rfl
@[simp] theorem Diff.toEdit_rep (d : Diff) : d.toEdit.rep = d.rep := rfl

/-- the value of the variable `end` after the loop of `process_diffs_interactive` -/
def endAfter : Nat → List Diff → Nat
  | e, [] => e
  | e, d :: ds => if d.start < e then endAfter e ds else endAfter d.stop ds

/-- consecutive form of "ordered": each diff starts at or after the stop of the one before -/
def ChainFrom : Nat → List Diff → Prop
  | _, [] => True
  | lo, d :: ds => lo ≤ d.start ∧ ChainFrom d.stop ds

theorem processDiffsGo_append (e : Nat) (xs ys : List Diff) :
    processDiffsGo e (xs ++ ys) = processDiffsGo e xs ++ processDiffsGo (endAfter e xs) ys := by
  induction xs generalizing e with
  | nil => rfl
  | cons d ds ih =>
    simp only [List.cons_append, processDiffsGo, endAfter]
    split
    · exact ih e
    · simp [ih d.stop]

theorem processDiffsGo_sublist (e : Nat) (ds : List Diff) : (processDiffsGo e ds).Sublist ds := by
  induction ds generalizing e with
  | nil => exact List.Sublist.slnil
  | cons d ds ih =>
    simp only [processDiffsGo]
    split
    · exact List.Sublist.cons _ (ih e)
    · exact List.Sublist.cons_cons _ (ih d.stop)

theorem processDiffsGo_chain (e : Nat) (ds : List Diff) : ChainFrom e (processDiffsGo e ds) := by
  induction ds generalizing e with
  | nil => trivial
  | cons d ds ih =>
    simp only [processDiffsGo]
    split
    · exact ih e
    · exact ⟨by omega, ih d.stop⟩

theorem orderedFrom_of_chain {lo : Nat} {ds : List Diff} (hc : ChainFrom lo ds)
    (hw : ∀ d ∈ ds, d.start ≤ d.stop) : OrderedFrom lo (ds.map Diff.toEdit) := by
  induction ds generalizing lo with
  | nil => trivial
  | cons d ds ih =>
    exact ⟨hc.1, hw d (List.mem_cons_self ..),
      ih hc.2 (fun x hx => hw x (List.mem_cons_of_mem _ hx))⟩

theorem chain_of_orderedFrom {lo : Nat} {ds : List Diff} (h : OrderedFrom lo (ds.map Diff.toEdit)) :
    ChainFrom lo ds := by
  induction ds generalizing lo with
  | nil => trivial
  | cons d ds ih => exact ⟨h.1, ih h.2.2⟩

/-- `end` is the stop of the last accepted diff, or unchanged when nothing was accepted -/
theorem endAfter_eq (e : Nat) (ds : List Diff) :
    (processDiffsGo e ds = [] ∧ endAfter e ds = e) ∨
    (∃ a, (processDiffsGo e ds).getLast? = some a ∧ endAfter e ds = a.stop) := by
  induction ds generalizing e with
  | nil => exact .inl ⟨rfl, rfl⟩
  | cons d ds ih =>
    simp only [processDiffsGo, endAfter]
    split
    · exact ih e
    · rcases ih d.stop with ⟨h1, h2⟩ | ⟨a, h1, h2⟩
      · exact .inr ⟨d, by simp [h1], h2⟩
      · refine .inr ⟨a, ?_, h2⟩
        rw [List.getLast?_cons, h1]; rfl

/-- with well-formed ranges `end` never moves backwards and dominates every accepted stop -/
theorem endAfter_mono {e : Nat} {ds : List Diff} (hw : ∀ d ∈ ds, d.start ≤ d.stop) :
    e ≤ endAfter e ds ∧ ∀ a ∈ processDiffsGo e ds, a.stop ≤ endAfter e ds := by
  induction ds generalizing e with
  | nil => exact ⟨Nat.le_refl _, fun a h => by cases h⟩
  | cons d ds ih =>
    have hw' : ∀ x ∈ ds, x.start ≤ x.stop := fun x hx => hw x (List.mem_cons_of_mem _ hx)
    have hd := hw d (List.mem_cons_self ..)
    simp only [processDiffsGo, endAfter]
    split
    · exact ih hw'
    · have := @ih d.stop hw'
      refine ⟨by omega, ?_⟩
      intro a ha
      rcases List.mem_cons.1 ha with rfl | ha
      · exact this.1
      · exact this.2 a ha

/-- an already ordered list passes the filter unchanged -/
theorem processDiffsGo_id {e : Nat} {ds : List Diff} (h : ChainFrom e ds) : processDiffsGo e ds = ds := by
  induction ds generalizing e with
  | nil => rfl
  | cons d ds ih =>
    have : ¬ d.start < e := by have := h.1; omega
    simp [processDiffsGo, this, ih h.2]

/-! ### `str` slicing -/

theorem isCharBoundary_le {s : Bytes} {i : Nat} (h : isCharBoundary s i = true) : i ≤ s.length := by
  unfold isCharBoundary at h
  split at h
  · omega
  · split at h
    · simp at h; omega
    · rename_i b hb
      have := (List.getElem?_eq_some_iff.1 hb).1
      omega

theorem strSlice_ok {s : Bytes} {a b : Nat} (hab : a ≤ b) (ha : isCharBoundary s a = true)
    (hb : isCharBoundary s b = true) : strSlice s a b = .ok ((s.drop a).take (b - a)) := by
  simp [strSlice, hab, ha, hb]

theorem strSliceFrom_ok {s : Bytes} {a : Nat} (ha : isCharBoundary s a = true) :
    strSliceFrom s a = .ok (s.drop a) := by
  simp [strSliceFrom, ha]

/-- the slices taken by `apply_rewrite` are legal exactly when the cursor positions are ordered and
on char boundaries -/
def Sliceable (old : Bytes) (ds : List Diff) : Prop :=
  ∀ d ∈ ds, isCharBoundary old d.start = true ∧ isCharBoundary old d.stop = true

instance (old : Bytes) (ds : List Diff) : Decidable (Sliceable old ds) :=
  inferInstanceAs (Decidable (∀ d ∈ ds, _))

/-- the left-to-right loop computes the closed form when every slice is legal -/
theorem applyRewriteGo_eq_segments (old : Bytes) :
    ∀ (ds : List Diff) (cur : Nat), ChainFrom cur ds → isCharBoundary old cur = true →
      (∀ d ∈ ds, isCharBoundary old d.start = true ∧ isCharBoundary old d.stop = true) →
      applyRewriteGo old cur ds = .ok (segments old cur (ds.map Diff.toEdit)) := by
  intro ds
  induction ds with
  | nil =>
    intro cur _ hb _
    simp [applyRewriteGo, segments, strSliceFrom_ok hb]
  | cons d ds ih =>
    intro cur hc hb hall
    have hd := hall d (List.mem_cons_self ..)
    have ih' := ih d.stop hc.2 hd.2 (fun x hx => hall x (List.mem_cons_of_mem _ hx))
    simp only [applyRewriteGo, strSlice_ok hc.1 hb hd.1, ih', List.map_cons, segments]
    rfl

/-- every slice being legal is also necessary: a panic-free run means ordered cursor positions on
char boundaries -/
theorem applyRewriteGo_ok_inv (old : Bytes) :
    ∀ (ds : List Diff) (cur : Nat) (r : Bytes), applyRewriteGo old cur ds = .ok r →
      ChainFrom cur ds ∧ isCharBoundary old cur = true ∧
      (∀ d ∈ ds, isCharBoundary old d.start = true ∧ isCharBoundary old d.stop = true) := by
  intro ds
  induction ds with
  | nil =>
    intro cur r h
    simp only [applyRewriteGo, strSliceFrom] at h
    split at h
    · rename_i hb; exact ⟨trivial, hb, fun d hd => by cases hd⟩
    · cases h
  | cons d ds ih =>
    intro cur r h
    simp only [applyRewriteGo, strSlice] at h
    split at h
    · rename_i hc
      cases hr : applyRewriteGo old d.stop ds with
      | error e => rw [hr] at h; cases h
      | ok r' =>
        obtain ⟨h1, h2, h3⟩ := ih d.stop r' hr
        refine ⟨⟨hc.1, h1⟩, hc.2.1, ?_⟩
        intro x hx
        rcases List.mem_cons.1 hx with rfl | hx
        · exact ⟨hc.2.2, h2⟩
        · exact h3 x hx
    · cases h

theorem inRange_of_sliceable {old : Bytes} {ds : List Diff} (h : Sliceable old ds) :
    InRange old.length (ds.map Diff.toEdit) := by
  intro e he
  obtain ⟨d, hd, rfl⟩ := List.mem_map.1 he
  exact isCharBoundary_le (h d hd).2

theorem applyRewrite_eq_spliceAll (old : Bytes) (acc : List Diff)
    (ho : OrderedFrom 0 (acc.map Diff.toEdit)) (hb : Sliceable old acc) :
    applyRewrite old acc = .ok (spliceAll old (acc.map Diff.toEdit)) := by
  unfold applyRewrite
  rw [applyRewriteGo_eq_segments old acc 0 (chain_of_orderedFrom ho) (by simp [isCharBoundary]) hb]
  rw [spliceAll_eq_segments old _ ⟨ho, inRange_of_sliceable hb⟩]

theorem applyRewrite_processDiffs_ok (old : Bytes) (ds : List Diff)
    (hw : ∀ d ∈ ds, d.start ≤ d.stop) (hb : Sliceable old ds) :
    applyRewrite old (processDiffs ds) = .ok (spliceAll old ((processDiffs ds).map Diff.toEdit)) := by
  apply applyRewrite_eq_spliceAll
  · exact orderedFrom_of_chain (processDiffsGo_chain 0 ds)
      (fun d hd => hw d ((processDiffsGo_sublist 0 ds).subset hd))
  · exact fun d hd => hb d ((processDiffsGo_sublist 0 ds).subset hd)

/-! ### the file-system association list -/

theorem fsRead_fsWrite (fs : FS) (p q : Nat) (c : Bytes) :
    fsRead (fsWrite fs p c) q = if q = p then some c else fsRead fs q := by
  induction fs with
  | nil =>
    by_cases h : q = p
    · subst h; simp [fsWrite, fsRead, List.lookup]
    · have : (q == p) = false := by simp [h]
      simp [fsWrite, fsRead, List.lookup, this, h]
  | cons x fs ih =>
    obtain ⟨k, v⟩ := x
    simp only [fsWrite]
    by_cases hk : k = p
    · subst hk
      by_cases h : q = k
      · subst h; simp [fsRead, List.lookup]
      · have : (q == k) = false := by simp [h]
        simp [fsRead, List.lookup, this, h]
    · simp only [hk, if_false]
      by_cases h : q = k
      · subst h
        have : ¬ q = p := hk
        simp [fsRead, List.lookup, this]
      · have hqk : (q == k) = false := by simp [h]
        simp only [fsRead, List.lookup, hqk] at ih ⊢
        exact ih

end AGV
