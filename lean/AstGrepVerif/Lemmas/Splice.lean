/-
Lemmas about the splice specification (`Spec/Splice.lean`).
-/
import AstGrepVerif.Spec.Splice

namespace AGV.Spec
variable {α : Type}

theorem OrderedFrom.mono {lo lo' : Nat} {es : List (Edit α)} (h : OrderedFrom lo es) (hl : lo' ≤ lo) :
    OrderedFrom lo' es := by
  cases es with
  | nil => trivial
  | cons e es => exact ⟨Nat.le_trans hl h.1, h.2.1, h.2.2⟩

theorem take_append_take_drop (old : List α) {cur a : Nat} (h : cur ≤ a) :
    old.take cur ++ (old.drop cur).take (a - cur) = old.take a := by
  have : a = cur + (a - cur) := by omega
  conv => rhs; rw [this, List.take_add]

/-- the one-at-a-time specification equals the closed form -/
theorem spliceAll_eq_segments_from (old : List α) :
    ∀ (es : List (Edit α)) (cur : Nat), OrderedFrom cur es → InRange old.length es →
      spliceAll old es = old.take cur ++ segments old cur es := by
  intro es
  induction es with
  | nil => intro cur _ _; simp [spliceAll, segments]
  | cons e es ih =>
    intro cur ho hr
    obtain ⟨h1, h2, h3⟩ := ho
    have hstop : e.stop ≤ old.length := hr e (List.mem_cons_self ..)
    have hr' : InRange old.length es := fun x hx => hr x (List.mem_cons_of_mem _ hx)
    have ih' := ih e.stop h3 hr'
    have hs : spliceAll old (e :: es) = splice1 (spliceAll old es) e := rfl
    rw [hs, ih']
    have hlen : (old.take e.stop).length = e.stop := by simp [List.length_take]; omega
    unfold splice1
    have ht : (old.take e.stop ++ segments old e.stop es).take e.start = old.take e.start := by
      rw [List.take_append_of_le_length (by omega), List.take_take]
      congr 1; omega
    have hd : (old.take e.stop ++ segments old e.stop es).drop e.stop = segments old e.stop es := by
      rw [List.drop_append_of_le_length (by omega)]
      simp [List.drop_eq_nil_of_le, hlen]
    rw [ht, hd]
    simp only [segments]
    rw [← take_append_take_drop old h1]
    simp [List.append_assoc]

theorem spliceAll_eq_segments (old : List α) (es : List (Edit α)) (h : Valid old.length es) :
    spliceAll old es = segments old 0 es := by
  have := spliceAll_eq_segments_from old es 0 h.1 h.2
  simpa using this

/-! ### nothing outside the ranges moves relative to its neighbours -/

theorem insBefore_eq_zero {es : List (Edit α)} {i : Nat} (h : ∀ e ∈ es, i < e.stop) :
    insBefore es i = 0 := by
  induction es with
  | nil => rfl
  | cons e es ih =>
    have h1 := h e (List.mem_cons_self ..)
    have := ih (fun x hx => h x (List.mem_cons_of_mem _ hx))
    simp [insBefore, this]; omega

theorem delBefore_eq_zero {es : List (Edit α)} {i : Nat} (h : ∀ e ∈ es, i < e.stop) :
    delBefore es i = 0 := by
  induction es with
  | nil => rfl
  | cons e es ih =>
    have h1 := h e (List.mem_cons_self ..)
    have := ih (fun x hx => h x (List.mem_cons_of_mem _ hx))
    simp [delBefore, this]; omega

/-- every edit of an ordered list ends at or after the lower bound -/
theorem OrderedFrom.stop_ge {lo : Nat} {es : List (Edit α)} (h : OrderedFrom lo es) :
    ∀ e ∈ es, lo ≤ e.start ∧ e.start ≤ e.stop := by
  induction es generalizing lo with
  | nil => intro e he; cases he
  | cons x xs ih =>
    intro e he
    obtain ⟨h1, h2, h3⟩ := h
    rcases List.mem_cons.1 he with rfl | he
    · exact ⟨h1, h2⟩
    · have := ih h3 e he
      exact ⟨by omega, this.2⟩

/-- what was deleted before `i` fits between `lo` and `i` -/
theorem delBefore_le {es : List (Edit α)} : ∀ {lo i : Nat}, OrderedFrom lo es → lo ≤ i →
    delBefore es i ≤ i - lo := by
  induction es with
  | nil => intro lo i _ _; simp [delBefore]
  | cons e es ih =>
    intro lo i ho hi
    obtain ⟨h1, h2, h3⟩ := ho
    simp only [delBefore]
    by_cases hc : e.stop ≤ i
    · have := ih h3 hc
      simp [hc]; omega
    · have hz : delBefore es i = 0 := by
        apply delBefore_eq_zero
        intro x hx
        have := (OrderedFrom.stop_ge h3 x hx)
        omega
      simp [hc, hz]

theorem segments_getElem? (old : List α) :
    ∀ (es : List (Edit α)) (cur i : Nat), OrderedFrom cur es → InRange old.length es →
      cur ≤ i → Outside es i →
      (segments old cur es)[(i - cur) + insBefore es i - delBefore es i]? = old[i]? := by
  intro es
  induction es with
  | nil =>
    intro cur i _ _ hci _
    simp [segments, insBefore, delBefore]
    congr 1; omega
  | cons e es ih =>
    intro cur i ho hr hci hout
    obtain ⟨h1, h2, h3⟩ := ho
    have hstop : e.stop ≤ old.length := hr e (List.mem_cons_self ..)
    have hr' : InRange old.length es := fun x hx => hr x (List.mem_cons_of_mem _ hx)
    have hout' : Outside es i := fun x hx => hout x (List.mem_cons_of_mem _ hx)
    have hlen1 : ((old.drop cur).take (e.start - cur)).length = e.start - cur := by
      simp [List.length_take, List.length_drop]; omega
    simp only [segments, insBefore, delBefore]
    rcases hout e (List.mem_cons_self ..) with hlt | hge
    · -- before this edit: no edit ends at or before i
      have hall : ∀ x ∈ es, i < x.stop := by
        intro x hx
        have := OrderedFrom.stop_ge h3 x hx
        omega
      have hi0 := insBefore_eq_zero hall
      have hd0 := delBefore_eq_zero hall
      have hns : ¬ e.stop ≤ i := by omega
      simp only [hns, if_false, hi0, hd0, Nat.add_zero, Nat.sub_zero, List.append_assoc]
      rw [List.getElem?_append_left (by omega)]
      rw [List.getElem?_take_of_lt (by omega), List.getElem?_drop]
      congr 1; omega
    · have hdl := delBefore_le h3 hge
      have ih' := ih e.stop i h3 hr' hge hout'
      simp only [hge, if_true, List.append_assoc]
      have hidx : (i - cur) + (e.rep.length + insBefore es i) - ((e.stop - e.start) + delBefore es i)
          = (e.start - cur) + (e.rep.length + ((i - e.stop) + insBefore es i - delBefore es i)) := by
        omega
      rw [hidx]
      rw [List.getElem?_append_right (by omega)]
      rw [hlen1]
      rw [List.getElem?_append_right (by omega)]
      have : e.start - cur + (e.rep.length + (i - e.stop + insBefore es i - delBefore es i)) - (e.start - cur)
          - e.rep.length = i - e.stop + insBefore es i - delBefore es i := by omega
      rw [this]
      exact ih'

/-- length bookkeeping of the closed form -/
theorem segments_length (old : List α) :
    ∀ (es : List (Edit α)) (cur : Nat), OrderedFrom cur es → InRange old.length es → cur ≤ old.length →
      (segments old cur es).length + (es.map (fun e => e.stop - e.start)).sum
        = (old.length - cur) + (es.map (fun e => e.rep.length)).sum := by
  intro es
  induction es with
  | nil => intro cur _ _ _; simp [segments]
  | cons e es ih =>
    intro cur ho hr hc
    obtain ⟨h1, h2, h3⟩ := ho
    have hstop : e.stop ≤ old.length := hr e (List.mem_cons_self ..)
    have hr' : InRange old.length es := fun x hx => hr x (List.mem_cons_of_mem _ hx)
    have := ih e.stop h3 hr' hstop
    simp only [segments, List.length_append, List.length_take, List.length_drop, List.map_cons,
      List.sum_cons]
    omega

/-- chain form implies pairwise form -/
theorem OrderedFrom.pairwise {lo : Nat} {es : List (Edit α)} (h : OrderedFrom lo es) :
    PairwiseDisjoint es := by
  induction es generalizing lo with
  | nil => exact List.Pairwise.nil
  | cons e es ih =>
    obtain ⟨_, _, h3⟩ := h
    refine List.Pairwise.cons ?_ (ih h3)
    intro x hx
    exact (OrderedFrom.stop_ge h3 x hx).1

end AGV.Spec
