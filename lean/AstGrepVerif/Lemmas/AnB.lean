/-
`parse_an_b` under checked arithmetic (FIX_C11_3): the loop invariant and its consequence — every
accepted position has both coefficients in the `i32` range.  (Moved here from `Props/C11.lean` so
that C20 can state the An+B facts for the current code as well.)
-/
import AstGrepVerif.Model.Notation

set_option linter.unusedSimpArgs false
set_option linter.unusedVariables false

namespace AGV

/-- the invariant of the `parse_an_b` loop under checked arithmetic -/
def AnbOK (st : AnBState) : Prop :=
  0 ≤ st.num ∧ st.num ≤ 2147483647 ∧ -2147483647 ≤ st.stepSize ∧ st.stepSize ≤ 2147483647 ∧
    (st.sign = 1 ∨ st.sign = -1)

theorem digitVal_bounds (c : Char) (h : isDigitC c = true) : 0 ≤ digitVal c ∧ digitVal c ≤ 9 := by
  unfold isDigitC at h
  unfold digitVal
  simp only [Bool.and_eq_true, decide_eq_true_eq] at h
  have h1 : ('0'.toNat : Nat) = 48 := by decide
  have h2 : ('9'.toNat : Nat) = 57 := by decide
  rw [h1] at h ⊢
  rw [h2] at h
  omega

theorem signOf_cases (c : Char) : signOf c = 1 ∨ signOf c = -1 := by
  unfold signOf; split <;> simp

theorem anbStep_ok (st st' : AnBState) (c : Char) (h : AnbOK st) (hs : anbStep st c = .ok st') : AnbOK st' := by
  obtain ⟨h1, h2, h3, h4, h5⟩ := h
  unfold anbStep at hs
  unfold AnbOK
  split at hs
  · cases hs; exact ⟨h1, h2, h3, h4, h5⟩
  · split at hs
    · -- initial
      split at hs
      · cases hs; exact ⟨h1, h2, h3, h4, signOf_cases c⟩
      · split at hs
        · rename_i hd
          cases hs
          have := digitVal_bounds c hd
          exact ⟨this.1, by simp only; omega, h3, h4, h5⟩
        · split at hs
          · cases hs
            refine ⟨h1, h2, ?_, ?_, h5⟩ <;> rcases h5 with h5 | h5 <;> simp only [h5] <;> omega
          · cases hs
    · -- sign
      split at hs
      · cases hs
      · split at hs
        · rename_i hd
          cases hs
          have := digitVal_bounds c hd
          exact ⟨this.1, by simp only; omega, h3, h4, h5⟩
        · split at hs
          · split at hs
            · cases hs
            · cases hs
              refine ⟨h1, h2, ?_, ?_, h5⟩ <;> rcases h5 with h5 | h5 <;> simp only [h5] <;> omega
          · cases hs
    · -- num
      split at hs
      · cases hs
      · split at hs
        · rename_i hd
          split at hs
          · cases hs
          · rename_i hov
            cases hs
            have hb := digitVal_bounds c hd
            simp only [inI32, i32Min, i32Max] at hov
            refine ⟨by simp only; omega, ?_, h3, h4, h5⟩
            simp only
            by_cases hle : st.num * 10 + digitVal c ≤ 2147483647
            · exact hle
            · exfalso; apply hov; simp [hle]
        · split at hs
          · split at hs
            · cases hs
            · cases hs
              refine ⟨by simp, by simp, ?_, ?_, h5⟩ <;> rcases h5 with h5 | h5 <;> simp only [h5] <;> omega
          · cases hs
    · -- n
      split at hs
      · cases hs; exact ⟨by simp, by simp, h3, h4, signOf_cases c⟩
      · split at hs
        · cases hs
        · split at hs <;> cases hs

theorem anbLoop_ok (cs : List Char) : ∀ (st st' : AnBState), AnbOK st → anbLoop st cs = .ok st' → AnbOK st' := by
  induction cs with
  | nil =>
    intro st st' h hs
    unfold anbLoop at hs
    injection hs with hs
    rw [← hs]; exact h
  | cons c cs ih =>
    intro st st' h hs
    unfold anbLoop at hs
    cases hc : anbStep st c with
    | error e => rw [hc] at hs; cases hs
    | ok st1 =>
      rw [hc] at hs
      exact ih st1 st' (anbStep_ok st st1 c h hc) hs

/-- whatever the repaired `parse_an_b` accepts has both coefficients in the `i32` range -/
theorem parseAnBChecked_in_i32 (input : List Char) (a b : Int) (h : parseAnBChecked input = .ok (a, b)) :
    inI32 a = true ∧ inI32 b = true := by
  unfold parseAnBChecked at h
  have hp : parseAnB input = .ok (a, b) := by
    cases hq : parseAnB input with
    | ok v => rw [hq] at h; simpa using h
    | error e => rw [hq] at h; cases e <;> simp at h
  unfold parseAnB at hp
  cases hl : anbLoop {} input with
  | error e => rw [hl] at hp; cases hp
  | ok st =>
    rw [hl] at hp
    simp only at hp
    have hok : AnbOK st := anbLoop_ok input {} st ⟨by decide, by decide, by decide, by decide, Or.inl rfl⟩ hl
    obtain ⟨h1, h2, h3, h4, h5⟩ := hok
    have hres : a = st.stepSize ∧ b = st.num * st.sign := by
      split at hp
      · cases hp
      · cases hp
      · simp only [Except.ok.injEq, Prod.mk.injEq] at hp
        exact ⟨hp.1.symm, hp.2.symm⟩
    obtain ⟨ha, hb⟩ := hres
    subst ha; subst hb
    unfold inI32 i32Min i32Max
    constructor
    · simp only [Bool.and_eq_true, decide_eq_true_eq]; omega
    · simp only [Bool.and_eq_true, decide_eq_true_eq]
      rcases h5 with h5 | h5 <;> rw [h5] <;> omega


end AGV
