/-
Node navigation: unique ids, contexts (the frames from the document root down to a node),
`child_with_descendant`, `parent`, `ancestors`, `children`, `next_all` / `prev_all`.
-/
import AstGrepVerif.Lemmas.Cursor
import AstGrepVerif.Model.Nav

namespace AGV
open Tree

/-! ### unique ids -/

theorem Tree.uniqueIds_iff (t : Tree) :
    t.UniqueIds ↔ t.id ∉ (preorderList t.children).map Tree.id ∧ ((preorderList t.children).map Tree.id).Nodup := by
  unfold Tree.UniqueIds
  rw [Tree.preorder_cons, List.map_cons, List.nodup_cons]

theorem inj_of_nodup_map {α β : Type} (f : α → β) :
    ∀ (l : List α), (l.map f).Nodup → ∀ x ∈ l, ∀ y ∈ l, f x = f y → x = y
  | [], _, x, hx, _, _, _ => by simp at hx
  | a :: l, h, x, hx, y, hy, hxy => by
    rw [List.map_cons, List.nodup_cons] at h
    simp only [List.mem_cons] at hx hy
    rcases hx with rfl | hx <;> rcases hy with rfl | hy
    · rfl
    · exact absurd (hxy ▸ List.mem_map_of_mem hy) h.1
    · exact absurd (hxy ▸ List.mem_map_of_mem hx) h.1
    · exact inj_of_nodup_map f l h.2 x hx y hy hxy

/-- ids are injective on the nodes of a tree with unique ids -/
theorem Tree.UniqueIds.inj {t x y : Tree} (hu : t.UniqueIds) (hx : x ∈ t.preorder) (hy : y ∈ t.preorder)
    (h : x.id = y.id) : x = y :=
  inj_of_nodup_map Tree.id _ hu x hx y hy h

theorem list_nil_or_concat {α : Type} : ∀ (l : List α), l = [] ∨ ∃ init last, l = init ++ [last]
  | [] => Or.inl rfl
  | a :: l => by
    rcases list_nil_or_concat l with rfl | ⟨init, last, rfl⟩
    · exact Or.inr ⟨[], a, rfl⟩
    · exact Or.inr ⟨a :: init, last, rfl⟩

theorem nodupList_split {l r : List Tree} {c : Tree}
    (h : ((preorderList (l ++ c :: r)).map Tree.id).Nodup) :
    (c.preorder.map Tree.id).Nodup ∧
    (∀ k ∈ l, ∀ x ∈ k.preorder, ∀ y ∈ c.preorder, x.id ≠ y.id) ∧
    (∀ k ∈ r, ∀ x ∈ k.preorder, ∀ y ∈ c.preorder, x.id ≠ y.id) := by
  rw [Tree.preorderList_append, preorderList, List.map_append, List.map_append] at h
  rw [List.nodup_append] at h
  obtain ⟨_, h2, h3⟩ := h
  rw [List.nodup_append] at h2
  obtain ⟨h4, _, h6⟩ := h2
  refine ⟨h4, ?_, ?_⟩
  · intro k hk x hx y hy
    exact h3 _ (List.mem_map_of_mem (Tree.mem_preorderList_iff.2 ⟨k, hk, hx⟩)) _
      (List.mem_append_left _ (List.mem_map_of_mem hy))
  · intro k hk x hx y hy heq
    exact h6 _ (List.mem_map_of_mem hy) _ (List.mem_map_of_mem (Tree.mem_preorderList_iff.2 ⟨k, hk, hx⟩)) heq.symm

theorem Frame.uniqueIds_plug {f : Frame} {t : Tree} (hu : (f.plug t).UniqueIds) :
    t.UniqueIds ∧
    (∀ k ∈ f.left, ∀ x ∈ k.preorder, ∀ y ∈ t.preorder, x.id ≠ y.id) ∧
    (∀ k ∈ f.right, ∀ x ∈ k.preorder, ∀ y ∈ t.preorder, x.id ≠ y.id) ∧
    (∀ y ∈ t.preorder, y.id ≠ (f.plug t).id) := by
  rw [Tree.uniqueIds_iff] at hu
  obtain ⟨h1, h2⟩ := hu
  have hc : (f.plug t).children = f.left.reverse ++ t :: f.right := rfl
  rw [hc] at h1 h2
  obtain ⟨a, b, c⟩ := nodupList_split h2
  refine ⟨a, fun k hk => b k (List.mem_reverse.2 hk), c, ?_⟩
  intro y hy heq
  apply h1
  rw [← heq]
  exact List.mem_map_of_mem (Tree.mem_preorderList_iff.2 ⟨t, by simp, hy⟩)

mutual
theorem Tree.containsId_iff : (x : Nat) → (t : Tree) → (t.containsId x = true ↔ ∃ y ∈ t.preorder, y.id = x)
  | x, .node i cs => by
    simp only [Tree.containsId, Bool.or_eq_true, beq_iff_eq, Tree.preorder, List.mem_cons,
      Tree.containsIdList_iff x cs]
    constructor
    · rintro (h | ⟨y, hy, h⟩)
      · exact ⟨_, Or.inl rfl, h⟩
      · exact ⟨y, Or.inr hy, h⟩
    · rintro ⟨y, rfl | hy, h⟩
      · exact Or.inl h
      · exact Or.inr ⟨y, hy, h⟩
theorem Tree.containsIdList_iff : (x : Nat) → (ts : List Tree) → (containsIdList x ts = true ↔ ∃ y ∈ preorderList ts, y.id = x)
  | x, [] => by simp [containsIdList, preorderList]
  | x, t :: ts => by
    simp only [containsIdList, Bool.or_eq_true, Tree.containsId_iff x t, Tree.containsIdList_iff x ts,
      preorderList, List.mem_append]
    constructor
    · rintro (⟨y, hy, h⟩ | ⟨y, hy, h⟩)
      · exact ⟨y, Or.inl hy, h⟩
      · exact ⟨y, Or.inr hy, h⟩
    · rintro ⟨y, hy | hy, h⟩
      · exact Or.inl ⟨y, hy, h⟩
      · exact Or.inr ⟨y, hy, h⟩
end

/-! ### `child_with_descendant` on a plugged frame -/

theorem childWithDescendant_plug {f : Frame} {t n : Tree} (hu : (f.plug t).UniqueIds)
    (hn : n ∈ t.preorder) : (f.plug t).childWithDescendant n = some t := by
  obtain ⟨_, hl, _, _⟩ := Frame.uniqueIds_plug hu
  unfold Tree.childWithDescendant
  have hc : (f.plug t).children = f.left.reverse ++ t :: f.right := rfl
  rw [hc, List.find?_append]
  have h1 : List.find? (fun c => c.containsId n.id) f.left.reverse = none := by
    rw [List.find?_eq_none]
    intro k hk hcon
    rw [Tree.containsId_iff] at hcon
    obtain ⟨y, hy, hid⟩ := hcon
    exact hl k (List.mem_reverse.1 hk) y hy n hn hid
  have h2 : t.containsId n.id = true := (Tree.containsId_iff _ _).2 ⟨n, hn, rfl⟩
  simp [h1, h2]

/-! ### contexts: the frames from the document root down to a node, outermost first -/

def plugOut : List Frame → Tree → Tree
  | [], n => n
  | g :: ctx, n => g.plug (plugOut ctx n)

/-- the proper ancestors of the hole, top-down -/
def downs : List Frame → Tree → List Tree
  | [], _ => []
  | g :: ctx, n => plugOut (g :: ctx) n :: downs ctx n

theorem mem_preorder_plugOut (ctx : List Frame) (n : Tree) : n ∈ (plugOut ctx n).preorder := by
  induction ctx with
  | nil => exact n.self_mem_preorder
  | cons g ctx ih => exact Tree.preorder_trans _ ih (Tree.child_mem_preorder (g.mem_children_plug _))

theorem size_plugOut (ctx : List Frame) (n : Tree) : n.size + ctx.length ≤ (plugOut ctx n).size := by
  induction ctx with
  | nil => simp [plugOut]
  | cons g ctx ih => have := g.size_plug (plugOut ctx n); simp only [plugOut, List.length_cons]; omega

theorem plugOut_append (a b : List Frame) (n : Tree) : plugOut (a ++ b) n = plugOut a (plugOut b n) := by
  induction a with
  | nil => rfl
  | cons g a ih => simp [plugOut, ih]

theorem uniqueIds_plugOut {ctx : List Frame} {n : Tree} (hu : (plugOut ctx n).UniqueIds) : n.UniqueIds := by
  induction ctx with
  | nil => exact hu
  | cons g ctx ih => exact ih (Frame.uniqueIds_plug hu).1

theorem id_ne_plugOut {g : Frame} {ctx : List Frame} {n : Tree} (hu : (plugOut (g :: ctx) n).UniqueIds) :
    (plugOut (g :: ctx) n).id ≠ n.id := by
  have := (Frame.uniqueIds_plug hu).2.2.2 n (mem_preorder_plugOut ctx n)
  exact fun h => this h.symm

mutual
/-- every node of a tree is the hole of some context -/
theorem exists_ctx : (t n : Tree) → n ∈ t.preorder → ∃ ctx, plugOut ctx n = t
  | .node i cs, n, h => by
    simp only [Tree.preorder, List.mem_cons] at h
    rcases h with rfl | h
    · exact ⟨[], rfl⟩
    · obtain ⟨l, c, r, hcs, ctx, hctx⟩ := exists_ctxList cs n h
      refine ⟨⟨i, l.reverse, r⟩ :: ctx, ?_⟩
      simp [plugOut, Frame.plug, hctx, hcs]
theorem exists_ctxList : (cs : List Tree) → (n : Tree) → n ∈ preorderList cs →
    ∃ l c r, cs = l ++ c :: r ∧ ∃ ctx, plugOut ctx n = c
  | [], n, h => by simp [preorderList] at h
  | c :: cs, n, h => by
    simp only [preorderList, List.mem_append] at h
    rcases h with h | h
    · obtain ⟨ctx, hctx⟩ := exists_ctx c n h
      exact ⟨[], c, cs, rfl, ctx, hctx⟩
    · obtain ⟨l, c', r, hcs, ctx, hctx⟩ := exists_ctxList cs n h
      exact ⟨c :: l, c', r, by simp [hcs], ctx, hctx⟩
end

/-! ### `parent` and `ancestors` -/

theorem parentWalk_plugOut (g : Frame) (n : Tree) :
    ∀ (ctx : List Frame) (fuel : Nat), (plugOut ctx (g.plug n)).UniqueIds → ctx.length < fuel →
      parentWalk fuel (plugOut ctx (g.plug n)) n = g.plug n
  | [], fuel, hu, hf => by
    obtain ⟨fuel, rfl⟩ : ∃ k, fuel = k + 1 := ⟨fuel - 1, by simp at hf; omega⟩
    simp only [plugOut] at hu ⊢
    simp [parentWalk, childWithDescendant_plug hu n.self_mem_preorder]
  | h :: ctx, fuel, hu, hf => by
    obtain ⟨fuel, rfl⟩ : ∃ k, fuel = k + 1 := ⟨fuel - 1, by simp at hf; omega⟩
    simp only [plugOut] at hu ⊢
    have hmem : n ∈ (plugOut ctx (g.plug n)).preorder :=
      Tree.preorder_trans _ (Tree.child_mem_preorder (g.mem_children_plug n)) (mem_preorder_plugOut ctx _)
    have hu' := (Frame.uniqueIds_plug hu).1
    have hne : (plugOut ctx (g.plug n)).id ≠ n.id := by
      have h2 : (plugOut (ctx ++ [g]) n).UniqueIds := by rw [plugOut_append]; exact hu'
      have h3 : plugOut (ctx ++ [g]) n = plugOut ctx (g.plug n) := by rw [plugOut_append]; rfl
      cases ctx with
      | nil => simpa [plugOut] using id_ne_plugOut (ctx := []) (g := g) (n := n) (by simpa [plugOut] using hu')
      | cons k ctx => rw [← h3]; exact id_ne_plugOut (by simpa using h2)
    simp only [parentWalk, childWithDescendant_plug hu hmem, beq_iff_eq, hne, ↓reduceIte]
    exact parentWalk_plugOut g n ctx fuel hu' (by simp at hf; omega)

/-- `parent` of the hole of a non-empty context is the innermost frame plugged -/
theorem parent_plugOut (ctx : List Frame) (g : Frame) (n : Tree)
    (hu : (plugOut ctx (g.plug n)).UniqueIds) :
    Tree.parent (plugOut ctx (g.plug n)) n = some (g.plug n) := by
  have hne : (plugOut (ctx ++ [g]) n).id ≠ n.id := by
    have h2 : (plugOut (ctx ++ [g]) n).UniqueIds := by rw [plugOut_append]; exact hu
    cases ctx with
    | nil => exact id_ne_plugOut (ctx := []) (by simpa using h2)
    | cons k ctx => exact id_ne_plugOut (by simpa using h2)
  rw [plugOut_append] at hne
  simp only [plugOut] at hne
  have hsz := size_plugOut ctx (g.plug n)
  have := (g.plug n).size_pos
  simp only [Tree.parent, plugOut, beq_iff_eq, hne, ↓reduceIte, Option.some.injEq]
  exact parentWalk_plugOut g n ctx _ hu (by omega)

theorem parent_root (n : Tree) : Tree.parent n n = none := by simp [Tree.parent]

theorem ancestorsDown_plugOut (n : Tree) :
    ∀ (ctx : List Frame) (fuel : Nat), (plugOut ctx n).UniqueIds → ctx.length < fuel →
      Nav.ancestorsDown fuel (some (plugOut ctx n)) n = .ok (downs ctx n)
  | [], fuel, _, hf => by
    obtain ⟨fuel, rfl⟩ : ∃ k, fuel = k + 1 := ⟨fuel - 1, by simp at hf; omega⟩
    simp [Nav.ancestorsDown, plugOut, downs]
  | g :: ctx, fuel, hu, hf => by
    obtain ⟨fuel, rfl⟩ : ∃ k, fuel = k + 1 := ⟨fuel - 1, by simp at hf; omega⟩
    have hne := id_ne_plugOut hu
    have hcw : (plugOut (g :: ctx) n).childWithDescendant n = some (plugOut ctx n) :=
      childWithDescendant_plug hu (mem_preorder_plugOut ctx n)
    have ih := ancestorsDown_plugOut n ctx fuel (Frame.uniqueIds_plug hu).1 (by simp at hf; omega)
    simp only [Nav.ancestorsDown, beq_iff_eq, hne, ↓reduceIte, hcw, ih, downs]

/-- the chain of parents: `parent`, its `parent`, ... (what the property calls the chain of
parents; written over the node-level `parent()` only) -/
def parentChain (root : Tree) : Nat → Tree → List Tree
  | 0, _ => []
  | fuel + 1, n =>
    match Nav.parent root n with
    | none => []
    | some p => p :: parentChain root fuel p

theorem parentChain_plugOut :
    ∀ (k : Nat) (ctx : List Frame) (n : Tree) (fuel : Nat), ctx.length = k →
      (plugOut ctx n).UniqueIds → ctx.length < fuel →
      parentChain (plugOut ctx n) fuel n = (downs ctx n).reverse := by
  intro k
  induction k with
  | zero =>
    intro ctx n fuel hk _ hf
    obtain ⟨fuel, rfl⟩ : ∃ k, fuel = k + 1 := ⟨fuel - 1, by omega⟩
    have : ctx = [] := List.length_eq_zero_iff.1 hk
    subst this
    simp [parentChain, Nav.parent, plugOut, parent_root, downs]
  | succ k ih =>
    intro ctx0 n fuel hk hu hf
    obtain ⟨fuel, rfl⟩ : ∃ k, fuel = k + 1 := ⟨fuel - 1, by omega⟩
    rcases list_nil_or_concat ctx0 with rfl | ⟨ctx, g, rfl⟩
    · simp at hk
    have hroot : plugOut (ctx ++ [g]) n = plugOut ctx (g.plug n) := by rw [plugOut_append]; rfl
    have hdowns : downs (ctx ++ [g]) n = downs ctx (g.plug n) ++ [g.plug n] := by
      clear ih hu hf hroot hk
      induction ctx with
      | nil => simp [downs, plugOut]
      | cons k ctx ih2 => simp [downs, ih2, plugOut, plugOut_append]
    rw [hroot] at hu ⊢
    simp only [parentChain, Nav.parent, parent_plugOut ctx g n hu]
    rw [ih ctx (g.plug n) fuel (by simp at hk; omega) hu (by simp at hf; omega), hdowns]
    simp

/-! ### `children` through the cursor -/

theorem walkSiblings_eq (i : Info) (p : List Frame) :
    ∀ (r : List Tree) (k : Tree) (l : List Tree),
      walkSiblings (r.length + 1) ⟨k, ⟨i, l, r⟩ :: p⟩ = k :: r
  | [], k, l => by simp [walkSiblings, Cursor.node]
  | x :: r, k, l => by
    have ih := walkSiblings_eq i p r x (k :: l)
    simp only [List.length_cons] at ih ⊢
    rw [walkSiblings]
    simp [Cursor.node, Cursor.gotoNextSibling, ih]

theorem childrenViaCursor_eq (n : Tree) : childrenViaCursor n = n.children := by
  unfold childrenViaCursor
  cases hc : n.children with
  | nil => simp [walkSiblings]
  | cons k ks =>
    simp only [Cursor.new, Cursor.gotoFirstChild_of_children hc, List.length_cons]
    exact walkSiblings_eq _ _ ks k []

/-! ### siblings -/

theorem splitForByte_eq (b : Nat) (n : Tree) (r : List Tree) (hn : b < n.stop) :
    ∀ (pre acc : List Tree), (∀ k ∈ pre, k.stop ≤ b) →
      Cursor.splitForByte b acc (pre ++ n :: r) = some (pre.reverse ++ acc, n, r)
  | [], acc, _ => by simp [Cursor.splitForByte, hn]
  | k :: pre, acc, h => by
    have hk : ¬ k.stop > b := by have := h k (by simp); omega
    have ih := splitForByte_eq b n r hn pre (k :: acc) (fun x hx => h x (by simp [hx]))
    simp only [List.cons_append, Cursor.splitForByte, hk, ↓reduceIte, ih]
    simp

theorem iterNextSibling_eq (i : Info) :
    ∀ (r : List Tree) (k : Tree) (l : List Tree) (fuel : Nat), r.length < fuel →
      Nav.iterNextSibling fuel ⟨k, [⟨i, l, r⟩]⟩ = .ok r
  | [], k, l, fuel, hf => by
    obtain ⟨fuel, rfl⟩ : ∃ j, fuel = j + 1 := ⟨fuel - 1, by simp at hf; omega⟩
    simp [Nav.iterNextSibling, Cursor.gotoNextSibling]
  | x :: r, k, l, fuel, hf => by
    obtain ⟨fuel, rfl⟩ : ∃ j, fuel = j + 1 := ⟨fuel - 1, by simp at hf; omega⟩
    have ih := iterNextSibling_eq i r x (k :: l) fuel (by simp at hf; omega)
    simp [Nav.iterNextSibling, Cursor.gotoNextSibling, ih, Cursor.node]

theorem iterPrevSibling_eq (i : Info) :
    ∀ (l : List Tree) (k : Tree) (r : List Tree) (fuel : Nat), l.length < fuel →
      Nav.iterPrevSibling fuel ⟨k, [⟨i, l, r⟩]⟩ = .ok l
  | [], k, r, fuel, hf => by
    obtain ⟨fuel, rfl⟩ : ∃ j, fuel = j + 1 := ⟨fuel - 1, by simp at hf; omega⟩
    simp [Nav.iterPrevSibling, Cursor.gotoPrevSibling]
  | x :: l, k, r, fuel, hf => by
    obtain ⟨fuel, rfl⟩ : ∃ j, fuel = j + 1 := ⟨fuel - 1, by simp at hf; omega⟩
    have ih := iterPrevSibling_eq i l x (k :: r) fuel (by simp at hf; omega)
    simp [Nav.iterPrevSibling, Cursor.gotoPrevSibling, ih, Cursor.node]

/-! ### node-level `next()` / `prev()` iterated -/

/-- `next()`, then `next()` of that, ... -/
def iterNext (root : Tree) : Nat → Tree → List Tree
  | 0, _ => []
  | fuel + 1, n =>
    match Nav.next root n with
    | none => []
    | some s => s :: iterNext root fuel s

/-- `prev()`, then `prev()` of that, ... -/
def iterPrev (root : Tree) : Nat → Tree → List Tree
  | 0, _ => []
  | fuel + 1, n =>
    match Nav.prev root n with
    | none => []
    | some s => s :: iterPrev root fuel s

theorem afterId_eq (x : Tree) (r : List Tree) :
    ∀ (pre : List Tree), (∀ k ∈ pre, k.id ≠ x.id) → Tree.afterId x.id (pre ++ x :: r) = r.head?
  | [], _ => by
    cases r with
    | nil => simp [Tree.afterId]
    | cons b rest => simp [Tree.afterId]
  | [a], h => by
    have ha : a.id ≠ x.id := h a (by simp)
    have ih := afterId_eq x r [] (by simp)
    simp only [List.nil_append] at ih
    simp [Tree.afterId, ha, ih]
  | a :: b :: pre, h => by
    have ha : a.id ≠ x.id := h a (by simp)
    have ih := afterId_eq x r (b :: pre) (fun k hk => h k (by simp [hk]))
    simp only [List.cons_append] at ih ⊢
    simp [Tree.afterId, ha, ih]

theorem beforeId_none (x : Nat) : ∀ (l : List Tree), (∀ k ∈ l.tail, k.id ≠ x) → Tree.beforeId x l = none
  | [], _ => by simp [Tree.beforeId]
  | [a], _ => by simp [Tree.beforeId]
  | a :: b :: rest, h => by
    have hb : b.id ≠ x := h b (by simp)
    have ih := beforeId_none x (b :: rest) (fun k hk => h k (by simp at hk ⊢; exact Or.inr hk))
    simp [Tree.beforeId, hb, ih]

theorem beforeId_eq (x : Tree) (r : List Tree) (hr : ∀ k ∈ r, k.id ≠ x.id) :
    ∀ (pre : List Tree), (∀ k ∈ pre, k.id ≠ x.id) → Tree.beforeId x.id (pre ++ x :: r) = pre.getLast?
  | [], _ => by
    simp only [List.nil_append, List.getLast?_nil]
    exact beforeId_none x.id (x :: r) (by simpa using hr)
  | [a], _ => by
    simp [Tree.beforeId]
  | a :: b :: pre, h => by
    have hb : b.id ≠ x.id := h b (by simp)
    have ih := beforeId_eq x r hr (b :: pre) (fun k hk => h k (by simp [hk]))
    simp only [List.cons_append] at ih ⊢
    simp only [Tree.beforeId, beq_iff_eq, hb, ↓reduceIte, ih]
    simp [List.getLast?_cons_cons]

/-- distinct children of a node with unique ids have distinct ids -/
theorem Frame.sibling_ids {f : Frame} {t : Tree} (hu : (f.plug t).UniqueIds) :
    (∀ k ∈ f.left, k.id ≠ t.id) ∧ (∀ k ∈ f.right, k.id ≠ t.id) := by
  obtain ⟨_, hl, hr, _⟩ := Frame.uniqueIds_plug hu
  exact ⟨fun k hk => hl k hk k k.self_mem_preorder t t.self_mem_preorder,
         fun k hk => hr k hk k k.self_mem_preorder t t.self_mem_preorder⟩

theorem uniqueIds_plugOut_inner {ctx : List Frame} {n : Tree} (hu : (plugOut ctx n).UniqueIds) :
    n.UniqueIds := uniqueIds_plugOut hu

theorem next_plugOut (ctx : List Frame) (i : Info) (l r : List Tree) (n : Tree)
    (hu : (plugOut ctx (Frame.plug ⟨i, l, r⟩ n)).UniqueIds) :
    Nav.next (plugOut ctx (Frame.plug ⟨i, l, r⟩ n)) n = r.head? := by
  have hu' : (Frame.plug ⟨i, l, r⟩ n).UniqueIds := uniqueIds_plugOut hu
  obtain ⟨hl, _⟩ := Frame.sibling_ids hu'
  simp only [Nav.next, Tree.nextSibling, parent_plugOut ctx _ n hu]
  exact afterId_eq n r l.reverse (fun k hk => hl k (List.mem_reverse.1 hk))

theorem prev_plugOut (ctx : List Frame) (i : Info) (l r : List Tree) (n : Tree)
    (hu : (plugOut ctx (Frame.plug ⟨i, l, r⟩ n)).UniqueIds) :
    Nav.prev (plugOut ctx (Frame.plug ⟨i, l, r⟩ n)) n = l.head? := by
  have hu' : (Frame.plug ⟨i, l, r⟩ n).UniqueIds := uniqueIds_plugOut hu
  obtain ⟨hl, hr⟩ := Frame.sibling_ids hu'
  simp only [Nav.prev, Tree.prevSibling, parent_plugOut ctx _ n hu]
  have := beforeId_eq n r hr l.reverse (fun k hk => hl k (List.mem_reverse.1 hk))
  simp only [Frame.plug, Tree.children] at this ⊢
  rw [this, List.getLast?_reverse]

theorem iterNext_plugOut (ctx : List Frame) (i : Info) :
    ∀ (r l : List Tree) (n : Tree) (fuel : Nat),
      (plugOut ctx (Frame.plug ⟨i, l, r⟩ n)).UniqueIds → r.length < fuel →
      iterNext (plugOut ctx (Frame.plug ⟨i, l, r⟩ n)) fuel n = r
  | [], l, n, fuel, hu, hf => by
    obtain ⟨fuel, rfl⟩ : ∃ j, fuel = j + 1 := ⟨fuel - 1, by simp at hf; omega⟩
    simp [iterNext, next_plugOut ctx i l [] n hu]
  | s :: r, l, n, fuel, hu, hf => by
    obtain ⟨fuel, rfl⟩ : ∃ j, fuel = j + 1 := ⟨fuel - 1, by simp at hf; omega⟩
    have hnext := next_plugOut ctx i l (s :: r) n hu
    have hp : Frame.plug ⟨i, l, s :: r⟩ n = Frame.plug ⟨i, n :: l, r⟩ s := (plug_next i l n s r).symm
    simp only [iterNext, hnext, List.head?_cons]
    rw [hp] at hu ⊢
    rw [iterNext_plugOut ctx i r (n :: l) s fuel hu (by simp at hf; omega)]

theorem iterPrev_plugOut (ctx : List Frame) (i : Info) :
    ∀ (l r : List Tree) (n : Tree) (fuel : Nat),
      (plugOut ctx (Frame.plug ⟨i, l, r⟩ n)).UniqueIds → l.length < fuel →
      iterPrev (plugOut ctx (Frame.plug ⟨i, l, r⟩ n)) fuel n = l
  | [], r, n, fuel, hu, hf => by
    obtain ⟨fuel, rfl⟩ : ∃ j, fuel = j + 1 := ⟨fuel - 1, by simp at hf; omega⟩
    simp [iterPrev, prev_plugOut ctx i [] r n hu]
  | s :: l, r, n, fuel, hu, hf => by
    obtain ⟨fuel, rfl⟩ : ∃ j, fuel = j + 1 := ⟨fuel - 1, by simp at hf; omega⟩
    have hprev := prev_plugOut ctx i (s :: l) r n hu
    have hp : Frame.plug ⟨i, s :: l, r⟩ n = Frame.plug ⟨i, l, n :: r⟩ s := plug_next i l s n r
    simp only [iterPrev, hprev, List.head?_cons]
    rw [hp] at hu ⊢
    rw [iterPrev_plugOut ctx i l (n :: r) s fuel hu (by simp at hf; omega)]

/-- the cursor of `next_all` / `prev_all` stands on the node itself when the siblings before it
end at or before its start and the node has non-zero width -/
theorem siblingCursor_plugOut (ctx : List Frame) (i : Info) (l r : List Tree) (n : Tree)
    (hu : (plugOut ctx (Frame.plug ⟨i, l, r⟩ n)).UniqueIds)
    (hord : ∀ k ∈ l, k.stop ≤ n.start) (hw : n.start < n.stop) :
    Nav.siblingCursor (plugOut ctx (Frame.plug ⟨i, l, r⟩ n)) n = ⟨n, [⟨i, l, r⟩]⟩ := by
  have hsplit := splitForByte_eq n.start n r hw l.reverse [] (fun k hk => hord k (List.mem_reverse.1 hk))
  have hp := parent_plugOut ctx _ n hu
  unfold Nav.siblingCursor Nav.parent
  rw [hp]
  simp only [List.reverse_reverse, List.append_nil] at hsplit
  simp [Cursor.new, Cursor.gotoFirstChildForByte, Frame.plug, hsplit]

end AGV
