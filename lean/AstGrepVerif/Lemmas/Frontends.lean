/-
Helper lemmas for C08 / C09a: byte order = (line, character) order on one text
(`position_order_iso`), the stable insertion sort of `compute_all_fixes`, `allSome`.
-/
import AstGrepVerif.Model.Frontends
import AstGrepVerif.Lemmas.Bytes

namespace AGV

/-! ### `allSome` -/

theorem allSome_map_some {α β : Type} (f : α → Option β) (l : List α)
    (h : ∀ x ∈ l, ∃ y, f x = some y) : ∃ ys, allSome (l.map f) = some ys ∧ ys.length = l.length := by
  induction l with
  | nil => exact ⟨[], rfl, rfl⟩
  | cons x xs ih =>
    obtain ⟨y, hy⟩ := h x (by simp)
    obtain ⟨ys, hys, hl⟩ := ih (fun z hz => h z (by simp [hz]))
    exact ⟨y :: ys, by simp [allSome, hy, hys], by simp [hl]⟩

theorem allSome_eq_some {α : Type} : ∀ (l : List (Option α)) (ys : List α),
    allSome l = some ys → l = ys.map some
  | [], ys, h => by simp [allSome] at h; subst h; rfl
  | none :: _, _, h => by simp [allSome] at h
  | some a :: r, ys, h => by
    simp only [allSome, Option.map_eq_some_iff] at h
    obtain ⟨t, ht, rfl⟩ := h
    simp [allSome_eq_some r t ht]

/-! ### positions -/

/-- the character column of byte offset `off` (what `get_char_column` computes) -/
def colOf (src : Bytes) (off : Nat) : Nat := charCount ((src.take off).reverse.takeWhile (· ≠ NL))

theorem lspPos?_eq (src : Bytes) (off : Nat) (h : off ≤ src.length) :
    lspPos? src off = some (lineOf src off, colOf src off) := by
  simp [lspPos?, getCharColumn_bytes src off h, colOf]

theorem lspPos?_none (src : Bytes) (off : Nat) (h : ¬ off ≤ src.length) : lspPos? src off = none := by
  simp [lspPos?, getCharColumn, h]

/-- `a` is the first byte of a character of `src` (or the end of the text) -/
def CharStart (src : Bytes) (a : Nat) : Prop := ∀ b, src[a]? = some b → isCont b = false

instance (src : Bytes) (a : Nat) : Decidable (CharStart src a) := by
  unfold CharStart
  cases h : src[a]? with
  | none => exact isTrue (by simp)
  | some b =>
    by_cases hb : isCont b = false
    · exact isTrue (by intro b' hb'; cases hb'; exact hb)
    · exact isFalse (by intro hh; exact hb (hh b rfl))

theorem take_split (src : Bytes) {a b : Nat} (h : a ≤ b) :
    src.take b = src.take a ++ (src.drop a).take (b - a) := by
  have : b = a + (b - a) := by omega
  conv => lhs; rw [this]
  exact List.take_add

theorem lineOf_split (src : Bytes) {a b : Nat} (h : a ≤ b) :
    lineOf src b = lineOf src a + ((src.drop a).take (b - a)).count NL := by
  rw [lineOf_eq, lineOf_eq, take_split src h, List.count_append]

theorem colOf_split (src : Bytes) {a b : Nat} (h : a ≤ b)
    (hnl : NL ∉ (src.drop a).take (b - a)) :
    colOf src b = colOf src a + charCount ((src.drop a).take (b - a)) := by
  unfold colOf
  rw [take_split src h, List.reverse_append, List.takeWhile_append_of_pos, charCount_append,
    charCount_reverse]
  · omega
  · intro x hx
    simp only [ne_eq, decide_eq_true_eq]
    intro hxe
    exact hnl (hxe ▸ List.mem_reverse.mp hx)

theorem charCount_pos_of_head (mid : Bytes) (b : UInt8) (rest : Bytes) (hm : mid = b :: rest)
    (hb : isCont b = false) : 0 < charCount mid := by
  subst hm
  simp [charCount, hb]

/-- byte order implies position order, strictly when the smaller offset starts a character -/
theorem pos_lt_of_lt (src : Bytes) {a b : Nat} (hab : a < b) (hb : b ≤ src.length)
    (ha : CharStart src a) :
    lposLt (lineOf src a, colOf src a) (lineOf src b, colOf src b) = true := by
  have hsplit := lineOf_split src (Nat.le_of_lt hab)
  by_cases hnl : NL ∈ (src.drop a).take (b - a)
  · have : 0 < ((src.drop a).take (b - a)).count NL := List.count_pos_iff.mpr hnl
    simp [lposLt]; left; omega
  · have hcol := colOf_split src (Nat.le_of_lt hab) hnl
    have hcnt : ((src.drop a).take (b - a)).count NL = 0 := List.count_eq_zero.mpr hnl
    -- the first byte of the middle part is `src[a]`, a character start
    have halen : a < src.length := by omega
    have hmid : (src.drop a).take (b - a) = src[a] :: (src.drop (a + 1)).take (b - a - 1) := by
      rw [List.drop_eq_getElem_cons halen]
      have : b - a = (b - a - 1) + 1 := by omega
      rw [this, List.take_succ_cons]
      simp
    have hc : isCont src[a] = false := ha src[a] (by simp [halen])
    have hpos := charCount_pos_of_head _ _ _ hmid hc
    simp [lposLt]; right; constructor <;> omega

theorem pos_not_lt_self (p : LPos) : lposLt p p = false := by
  simp [lposLt]

theorem lposLt_asymm {p q : LPos} (h : lposLt p q = true) : lposLt q p = false := by
  simp only [lposLt, Bool.or_eq_true, decide_eq_true_eq, Bool.and_eq_true, beq_iff_eq] at h
  simp only [lposLt, Bool.or_eq_false_iff, decide_eq_false_iff_not, Bool.and_eq_false_iff,
    beq_eq_false_iff_ne, ne_eq]
  rcases h with h | ⟨h1, h2⟩
  · constructor
    · omega
    · left; omega
  · constructor
    · omega
    · right; omega

/-- **byte order = (line, character) order** on one text, for offsets that start a character -/
theorem position_order_iso (src : Bytes) {a b : Nat} (ha : a ≤ src.length) (hb : b ≤ src.length)
    (hca : CharStart src a) (hcb : CharStart src b) :
    lposLt (lineOf src a, colOf src a) (lineOf src b, colOf src b) = true ↔ a < b := by
  constructor
  · intro h
    by_cases hlt : a < b
    · exact hlt
    · exfalso
      by_cases heq : a = b
      · subst heq; simp [pos_not_lt_self] at h
      · have hba : b < a := by omega
        have := lposLt_asymm (pos_lt_of_lt src hba ha hcb)
        rw [this] at h; cases h
  · intro h; exact pos_lt_of_lt src h hb hca

/-! ### the sort of `compute_all_fixes` -/

/-- a list on which the stable insertion sort does nothing: every element is `≤` its successor -/
def SortedBy (le : LspDiag → LspDiag → Bool) : List LspDiag → Prop
  | [] => True
  | [_] => True
  | a :: b :: r => le a b = true ∧ SortedBy le (b :: r)

theorem sortDiags_id (o : Bool) : ∀ (ds : List LspDiag), SortedBy (diagLe o) ds → sortDiags o ds = ds
  | [], _ => rfl
  | [d], _ => rfl
  | a :: b :: r, h => by
    have ih := sortDiags_id o (b :: r) h.2
    show insertDiag o a (sortDiags o (b :: r)) = a :: b :: r
    rw [ih]
    simp [insertDiag, h.1]

end AGV
