/-
Helper lemmas for the JSON framing state machine (C16, reused by C17).

`Spec`: what a consumer expects, written without looking at the printer: a token-level
recogniser of a JSON array (newlines are insignificant white space) and of NDJSON.
-/
import AstGrepVerif.Model.JsonFrame

namespace AGV.JsonFrame
variable {ρ : Type}

/-! ## specification: what a JSON / NDJSON consumer accepts -/

/-- after the first element of an array: `]`, or `, value` and again -/
def parseTail : List (Tok ρ) → Option (List ρ)
  | [.closeB] => some []
  | .comma :: .record r :: rest => (parseTail rest).map (r :: ·)
  | _ => none

def isNl : Tok ρ → Bool
  | .nl => true
  | _ => false

@[simp] theorem isNl_nl : isNl (Tok.nl : Tok ρ) = true := rfl
@[simp] theorem isNl_record (r : ρ) : isNl (Tok.record r) = false := rfl
@[simp] theorem isNl_comma : isNl (Tok.comma : Tok ρ) = false := rfl
@[simp] theorem isNl_openB : isNl (Tok.openB : Tok ρ) = false := rfl
@[simp] theorem isNl_closeB : isNl (Tok.closeB : Tok ρ) = false := rfl

/-- a JSON array of records: `[` `]` or `[` value (`,` value)* `]`; white space (newlines)
may appear between any two tokens; nothing may follow the closing bracket but white space -/
def parseArray (ts : List (Tok ρ)) : Option (List ρ) :=
  match ts.filter (fun t => !isNl t) with
  | [.openB, .closeB] => some []
  | .openB :: .record r :: rest => (parseTail rest).map (r :: ·)
  | _ => none

/-- newline-delimited JSON: every line holds exactly one record; the last line may or may not
be terminated -/
def parseStream : List (Tok ρ) → Option (List ρ)
  | [] => some []
  | [.record r] => some [r]
  | .record r :: .nl :: rest => (parseStream rest).map (r :: ·)
  | _ => none

/-- records separated by exactly one `sep` -/
def joinRecs (sep : List (Tok ρ)) : List ρ → List (Tok ρ)
  | [] => []
  | [r] => [.record r]
  | r :: rs => .record r :: sep ++ joinRecs sep rs

/-- the byte-exact (token-exact) expected output of one CLI run that found the records `rs` -/
def expected : JsonStyle → List ρ → List (Tok ρ)
  | .compact, rs => [.openB] ++ joinRecs [.comma] rs ++ [.closeB, .nl]
  | .pretty, [] => [.openB, .closeB, .nl]
  | .pretty, rs => [.openB, .nl] ++ joinRecs [.comma, .nl] rs ++ [.nl, .closeB, .nl]
  | .stream, rs => joinRecs [.nl] rs

/-! ## lemmas -/

theorem joinRecs_cons_cons (sep : List (Tok ρ)) (r r' : ρ) (rs : List ρ) :
    joinRecs sep (r :: r' :: rs) = .record r :: sep ++ joinRecs sep (r' :: rs) := rfl

theorem printRest_eq (style : JsonStyle) (d : ρ) (ds : List ρ) :
    Tok.record d :: printRest style ds = joinRecs (docSep style) (d :: ds) := by
  induction ds generalizing d with
  | nil => rfl
  | cons d' ds ih =>
    rw [joinRecs_cons_cons, ← ih d']
    simp [printRest]

theorem printDocs_eq (style : JsonStyle) (ds : List ρ) :
    printDocs style ds = joinRecs (docSep style) ds := by
  cases ds with
  | nil => rfl
  | cons d ds => exact printRest_eq style d ds

theorem joinRecs_append (sep : List (Tok ρ)) (xs ys : List ρ) (hx : xs ≠ []) (hy : ys ≠ []) :
    joinRecs sep (xs ++ ys) = joinRecs sep xs ++ sep ++ joinRecs sep ys := by
  induction xs with
  | nil => exact absurd rfl hx
  | cons x xs ih =>
    cases xs with
    | nil =>
      cases ys with
      | nil => exact absurd rfl hy
      | cons y ys => simp [joinRecs]
    | cons x' xs =>
      have := ih (by simp)
      simp only [List.cons_append, joinRecs_cons_cons] at this ⊢
      rw [this]; simp

theorem joinRecs_eq_nil (sep : List (Tok ρ)) (rs : List ρ) : joinRecs sep rs = [] ↔ rs = [] := by
  cases rs with
  | nil => simp [joinRecs]
  | cons r rs => cases rs <;> simp [joinRecs]

/-- what has been written before the records, given the records seen so far -/
def headOf : JsonStyle → List ρ → List (Tok ρ)
  | .stream, _ => []
  | .compact, _ => [.openB]
  | .pretty, [] => [.openB]
  | .pretty, _ :: _ => [.openB, .nl]

/-- the invariant on the `matched` flag: it is set iff some record has been written, and the
output is the opening followed by all records so far separated by exactly one separator -/
structure Inv (style : JsonStyle) (p : Printer ρ) (rs : List ρ) : Prop where
  style_eq : p.style = style
  matched_iff : p.matched = !rs.isEmpty
  out_eq : p.out = headOf style rs ++ joinRecs (docSep style) rs

theorem inv_init (style : JsonStyle) : Inv style (beforePrint (new style : Printer ρ)) [] := by
  cases style <;> constructor <;> simp [beforePrint, new, headOf, joinRecs]

theorem process_cons (p : Printer ρ) (t : Tok ρ) (ts : List (Tok ρ)) :
    process p (t :: ts) =
      { p with matched := true, out := p.out ++ sepBefore p.style p.matched ++ t :: ts } := rfl

theorem printDocs_cons (style : JsonStyle) (d : ρ) (ds : List ρ) :
    printDocs style (d :: ds) = .record d :: printRest style ds := rfl

theorem inv_process (style : JsonStyle) (p : Printer ρ) (rs ds : List ρ) (h : Inv style p rs) :
    Inv style (process p (printDocs style ds)) (rs ++ ds) := by
  cases ds with
  | nil => simpa [process, printDocs] using h
  | cons d ds =>
    obtain ⟨hs, hm, ho⟩ := h
    have hpd : printDocs style (d :: ds) = joinRecs (docSep style) (d :: ds) := printDocs_eq _ _
    cases rs with
    | nil =>
      constructor
      · rw [printDocs_cons, process_cons]; exact hs
      · rw [printDocs_cons, process_cons]; simp
      · rw [printDocs_cons, process_cons, ← printDocs_cons, hpd]
        simp only [hm, ho, hs]
        cases style <;> simp [headOf, joinRecs, sepBefore]
    | cons r rs =>
      constructor
      · rw [printDocs_cons, process_cons]; exact hs
      · rw [printDocs_cons, process_cons]; simp
      · rw [printDocs_cons, process_cons, ← printDocs_cons, hpd]
        simp only [hm, ho, hs]
        rw [joinRecs_append _ (r :: rs) (d :: ds) (by simp) (by simp)]
        cases style <;> simp [headOf, docSep, sepBefore]

theorem inv_foldl (style : JsonStyle) (files : List (List ρ)) (p : Printer ρ) (rs : List ρ)
    (h : Inv style p rs) :
    Inv style ((files.map (printDocs style)).foldl process p) (rs ++ files.flatten) := by
  induction files generalizing p rs with
  | nil => simpa using h
  | cons f fs ih =>
    simp only [List.map_cons, List.foldl_cons, List.flatten_cons, ← List.append_assoc]
    exact ih _ _ (inv_process style p rs f h)

theorem run_eq_expected (style : JsonStyle) (files : List (List ρ)) :
    run style files = expected style files.flatten := by
  have h := inv_foldl style files (beforePrint (new style)) [] (inv_init style)
  simp only [List.nil_append] at h
  obtain ⟨hs, hm, ho⟩ := h
  cases style with
  | stream => simp [run, runBuffers, afterPrint, hs, ho, expected, headOf, docSep]
  | compact => simp [run, runBuffers, afterPrint, hs, ho, expected, headOf, docSep]
  | pretty =>
    cases hrs : files.flatten with
    | nil => simp [run, runBuffers, afterPrint, hs, hm, ho, hrs, expected, headOf, joinRecs]
    | cons r rs => simp [run, runBuffers, afterPrint, hs, hm, ho, hrs, expected, headOf, docSep]

theorem parseTail_join (rs : List ρ) (tl : List (Tok ρ)) (htl : tl = [.closeB]) :
    parseTail ((rs.map fun r => [Tok.comma, Tok.record r]).flatten ++ tl) = some rs := by
  induction rs with
  | nil => subst htl; rfl
  | cons r rs ih => simp [parseTail, ih]

theorem filter_joinRecs (sep : List (Tok ρ)) (hsep : sep.filter (fun t => !isNl t) = [.comma])
    (r : ρ) (rs : List ρ) :
    (joinRecs sep (r :: rs)).filter (fun t => !isNl t)
      = .record r :: (rs.map fun r => [Tok.comma, Tok.record r]).flatten := by
  induction rs generalizing r with
  | nil => simp [joinRecs]
  | cons r' rs ih =>
    rw [joinRecs_cons_cons]
    simp [List.filter_append, hsep, ih r']

theorem parseArray_expected (style : JsonStyle) (hs : style ≠ .stream) (rs : List ρ) :
    parseArray (expected style rs) = some rs := by
  cases rs with
  | nil => cases style <;> simp_all [expected, parseArray, joinRecs]
  | cons r rs =>
    cases style with
    | stream => exact absurd rfl hs
    | compact =>
      simp only [expected, parseArray, List.filter_append, filter_joinRecs [.comma] (by simp)]
      simp [parseTail_join]
    | pretty =>
      simp only [expected, parseArray, List.filter_append,
        filter_joinRecs [.comma, .nl] (by simp)]
      simp [parseTail_join]

theorem parseStream_expected (rs : List ρ) : parseStream (expected .stream rs) = some rs := by
  induction rs with
  | nil => rfl
  | cons r rs ih =>
    cases rs with
    | nil => rfl
    | cons r' rs =>
      simp only [expected] at ih ⊢
      rw [joinRecs_cons_cons]
      simp [parseStream, ih]

end AGV.JsonFrame
