/-
From the fold to `innermost`: when no node that passes the test is the last child of its parent,
the fold of `Spec/PostVisit.lean` reports exactly the innermost matches (and never trips the debug
assertion).
-/
import AstGrepVerif.Lemmas.PostVisit
import AstGrepVerif.Lemmas.Outermost

namespace AGV
open Tree

/-- prepend to a result -/
def consAll (xs : List Tree) : TM (List Tree) → TM (List Tree)
  | .ok ys => .ok (xs ++ ys)
  | .error e => .error e

theorem consAll_nil (r : TM (List Tree)) : consAll [] r = r := by cases r <;> rfl

theorem consAll_append (a b : List Tree) (r : TM (List Tree)) :
    consAll (a ++ b) r = consAll a (consAll b r) := by
  cases r <;> simp [consAll]

theorem consAll_cons (x : Tree) (r : TM (List Tree)) :
    consAll [x] r = (match r with | .ok ys => .ok (x :: ys) | .error e => .error e) := by
  cases r <;> rfl

/-- the `skipping` flag after an unmatched node -/
def nextFlag (rest : List PItem) (md : Nat) : Bool :=
  match rest with
  | nxt :: _ => decide (nxt.depth < md)
  | [] => false

/-- the static guard: no node of the subtree that passes the test is the last child of its parent -/
def NoPassingLastChild (f : Tree → Bool) (t : Tree) : Prop :=
  ∀ p ∈ t.preorder, ∀ c, p.children.getLast? = some c → f c = false

theorem NoPassingLastChild.child {f : Tree → Bool} {t c : Tree} (h : NoPassingLastChild f t)
    (hc : c ∈ t.children) : NoPassingLastChild f c :=
  fun p hp => h p (Tree.preorder_trans _ hp (Tree.child_mem_preorder hc))

theorem Tree.innermost_eq (f : Tree → Bool) (t : Tree) :
    innermost f t = if (innermostList f t.children).isEmpty && f t then [t] else innermostList f t.children := by
  cases t; simp [innermost, Tree.children]

/-- the first item of a non-empty forest at depth `d` is at depth `≥ d` -/
theorem postItems_head (d : Nat) : ∀ (k : Nat) (t : Tree) (last : Bool), t.size ≤ k →
    ∃ it more, postItems d last t = it :: more ∧ d ≤ it.depth := by
  intro k
  induction k generalizing d with
  | zero => intro t _ h; have := t.size_pos; omega
  | succ k ih =>
    intro t last hk
    rw [Tree.postItems_eq]
    cases hc : t.children with
    | nil => exact ⟨⟨t, d, last⟩, [], by simp [postItemsList], Nat.le_refl _⟩
    | cons c cs =>
      have := child_size_lt hc
      obtain ⟨it, more, h1, h2⟩ := ih (d + 1) c cs.isEmpty (by omega)
      exact ⟨it, more ++ postItemsList (d + 1) cs ++ [⟨t, d, last⟩], by simp [postItemsList, h1], by omega⟩

theorem nextFlag_forest (d md : Nat) (c : Tree) (cs : List Tree) (rest : List PItem) (h : md ≤ d) :
    nextFlag (postItemsList d (c :: cs) ++ rest) md = false := by
  obtain ⟨it, more, h1, h2⟩ := postItems_head d c.size c cs.isEmpty (Nat.le_refl _)
  simp only [postItemsList, h1, List.cons_append, nextFlag, decide_eq_false_iff_not]
  omega

theorem foldNR_unmatched (dbg : Bool) (f : Tree → Bool) (it : PItem) (rest : List PItem) (md : Nat)
    (h : f it.node = false) :
    foldNR dbg f (it :: rest) md false = foldNR dbg f rest md (nextFlag rest md) := by
  simp only [foldNR, h, Bool.false_eq_true, ↓reduceIte]
  rfl

theorem foldNR_matched (dbg : Bool) (f : Tree → Bool) (it : PItem) (rest : List PItem) (md : Nat)
    (h : f it.node = true) (hd : md ≤ it.depth) :
    foldNR dbg f (it :: rest) md false = consAll [it.node] (foldNR dbg f rest it.depth false) := by
  have : (dbg && decide (it.depth < md)) = false := by
    simp only [Bool.and_eq_false_imp, decide_eq_false_iff_not]; intro _; omega
  simp only [foldNR, h, ↓reduceIte, this, Bool.false_eq_true, consAll_cons]
  rfl

theorem foldNR_skipping (dbg : Bool) (f : Tree → Bool) (it : PItem) (rest : List PItem) (md : Nat) :
    foldNR dbg f (it :: rest) md true = foldNR dbg f rest it.depth it.last := by
  simp [foldNR]

/-- the forest lemmas, given the tree lemma for every member of the forest -/
theorem forest_lemmas (dbg : Bool) (f : Tree → Bool) (dpar : Nat)
    (cs : List Tree)
    (L : ∀ c ∈ cs, ∀ (last : Bool) (md : Nat) (rest : List PItem), md ≤ dpar + 1 →
      (f c = true → last = false) →
      foldNR dbg f (postItems (dpar + 1) last c ++ rest) md false =
        if (innermost f c).isEmpty then foldNR dbg f rest md (nextFlag rest md)
        else consAll (innermost f c) (foldNR dbg f rest (dpar + 1) last))
    (hlast : ∀ c, cs.getLast? = some c → f c = false)
    (par : PItem) (hpar : par.depth = dpar) (rest' : List PItem) :
    (∀ md, md ≤ dpar →
      foldNR dbg f (postItemsList (dpar + 1) cs ++ par :: rest') md false =
        if (innermostList f cs).isEmpty then foldNR dbg f (par :: rest') md false
        else consAll (innermostList f cs) (foldNR dbg f (par :: rest') (dpar + 1) true)) ∧
    (cs ≠ [] →
      foldNR dbg f (postItemsList (dpar + 1) cs ++ par :: rest') (dpar + 1) false =
        consAll (innermostList f cs) (foldNR dbg f (par :: rest') (dpar + 1) true)) := by
  induction cs with
  | nil =>
    refine ⟨?_, fun h => absurd rfl h⟩
    intro md _
    simp [postItemsList, innermostList]
  | cons c cs ih =>
    have ihc := ih (fun c' hc' => L c' (List.mem_cons_of_mem _ hc'))
      (fun c' hc' => hlast c' (by
        cases cs with
        | nil => simp at hc'
        | cons x xs => simpa [List.getLast?_cons_cons] using hc'))
    have hLc := L c (by simp)
    have hfc : f c = true → cs.isEmpty = false := by
      intro hf
      cases cs with
      | nil => have := hlast c (by simp); rw [hf] at this; cases this
      | cons x xs => rfl
    have hsplit : postItemsList (dpar + 1) (c :: cs) ++ par :: rest'
        = postItems (dpar + 1) cs.isEmpty c ++ (postItemsList (dpar + 1) cs ++ par :: rest') := by
      simp [postItemsList]
    have hflagpar : nextFlag (par :: rest') (dpar + 1) = true := by
      simp [nextFlag, hpar]
    -- the second statement (the parent is already known to contain a match)
    have h2 : foldNR dbg f (postItemsList (dpar + 1) (c :: cs) ++ par :: rest') (dpar + 1) false =
        consAll (innermostList f (c :: cs)) (foldNR dbg f (par :: rest') (dpar + 1) true) := by
      rw [hsplit, hLc cs.isEmpty (dpar + 1) _ (Nat.le_refl _) hfc]
      cases cs with
      | nil =>
        simp only [postItemsList, List.nil_append, innermostList, List.append_nil, List.isEmpty_nil]
        split
        · next he => simp [List.isEmpty_iff.1 he, consAll_nil, hflagpar]
        · rfl
      | cons x xs =>
        have hx := ihc.2 (by simp)
        simp only [List.isEmpty_cons]
        split
        · next he =>
          rw [nextFlag_forest _ _ _ _ _ (Nat.le_refl _), hx]
          simp [innermostList, List.isEmpty_iff.1 he]
        · rw [hx]
          simp [innermostList, consAll_append]
    refine ⟨?_, fun _ => h2⟩
    intro md hmd
    rw [hsplit, hLc cs.isEmpty md _ (by omega) hfc]
    by_cases he : (innermost f c).isEmpty = true
    · simp only [he, ↓reduceIte]
      have hnil := List.isEmpty_iff.1 he
      cases cs with
      | nil =>
        simp only [postItemsList, List.nil_append, innermostList, hnil, List.append_nil, List.isEmpty_nil,
          ↓reduceIte]
        have : nextFlag (par :: rest') md = false := by
          simp only [nextFlag, hpar, decide_eq_false_iff_not]; omega
        rw [this]
      | cons x xs =>
        rw [nextFlag_forest _ _ _ _ _ (by omega), ihc.1 md hmd]
        simp [innermostList, hnil]
    · simp only [he, Bool.false_eq_true, ↓reduceIte]
      have hne : (innermostList f (c :: cs)).isEmpty = false := by
        have hne' : innermost f c ≠ [] := fun h => he (by simp [h])
        cases hi : innermost f c with
        | nil => exact absurd hi hne'
        | cons a as => simp [innermostList, hi]
      simp only [hne, Bool.false_eq_true, ↓reduceIte]
      cases cs with
      | nil => simp [postItemsList, innermostList]
      | cons x xs =>
        simp only [List.isEmpty_cons]
        rw [ihc.2 (by simp)]
        simp [innermostList, consAll_append]

/-- the tree lemma -/
theorem tree_lemma (dbg : Bool) (f : Tree → Bool) :
    ∀ (k : Nat) (x : Tree), x.size ≤ k → NoPassingLastChild f x →
      ∀ (d : Nat) (last : Bool) (md : Nat) (rest : List PItem), md ≤ d →
      (f x = true → last = false ∨ rest = []) →
      foldNR dbg f (postItems d last x ++ rest) md false =
        if (innermost f x).isEmpty then foldNR dbg f rest md (nextFlag rest md)
        else consAll (innermost f x) (foldNR dbg f rest d last) := by
  intro k
  induction k with
  | zero => intro x h; have := x.size_pos; omega
  | succ k ih =>
    intro x hk hH d last md rest hmd hfx
    have hL : ∀ c ∈ x.children, ∀ (last : Bool) (md : Nat) (rest : List PItem), md ≤ d + 1 →
        (f c = true → last = false) →
        foldNR dbg f (postItems (d + 1) last c ++ rest) md false =
          if (innermost f c).isEmpty then foldNR dbg f rest md (nextFlag rest md)
          else consAll (innermost f c) (foldNR dbg f rest (d + 1) last) := by
      intro c hc last' md' rest'' hmd' hfc
      have := Tree.child_size_lt hc
      exact ih c (by omega) (hH.child hc) (d + 1) last' md' rest'' hmd' (fun h => Or.inl (hfc h))
    have hF := (forest_lemmas dbg f d x.children hL (fun c hc => hH x x.self_mem_preorder c hc)
      ⟨x, d, last⟩ rfl rest).1 md hmd
    rw [Tree.postItems_eq, List.append_assoc, List.singleton_append, hF, Tree.innermost_eq]
    by_cases he : (innermostList f x.children).isEmpty = true
    · simp only [he, ↓reduceIte, Bool.true_and]
      by_cases hx : f x = true
      · simp only [hx, ↓reduceIte, List.isEmpty_cons, Bool.false_eq_true]
        rw [foldNR_matched dbg f ⟨x, d, last⟩ rest md hx hmd]
        rcases hfx hx with h | h
        · simp [h]
        · subst h; cases last <;> simp [foldNR]
      · have hx' : f x = false := by simpa using hx
        simp only [hx', Bool.false_eq_true, ↓reduceIte, he]
        exact foldNR_unmatched dbg f ⟨x, d, last⟩ rest md hx'
    · simp only [he, Bool.false_and, Bool.false_eq_true, ↓reduceIte]
      rw [foldNR_skipping]

end AGV
