/-
`Spec.isolate` and the totality hypotheses: isolating a rule (and the registries: `isoCtx`) changes
neither the utilities it refers to — so ranks are preserved — nor the variables of its patterns.
-/
import AstGrepVerif.Lemmas.RuleIsolate
import AstGrepVerif.Lemmas.CoreTotal

set_option linter.unusedSimpArgs false
set_option linter.unusedVariables false

namespace AGV.RuleFuelReg

open AGV AGV.RuleFuel Spec

mutual
theorem refsBelow_isolate (rank : Name → Nat) (k : Nat) : ∀ r : Rule,
    refsBelow rank k (isolate r) = refsBelow rank k r
  | .pattern _ _ _ => by simp [isolate, refsBelow, refsBelowList]
  | .kind _ => by simp [isolate]
  | .regex _ => by simp [isolate]
  | .range _ _ _ _ => by simp [isolate]
  | .nthChild _ _ none _ => by simp [isolate, refsBelow, refsBelowList]
  | .nthChild _ _ (some r) _ => by
    simp [isolate, refsBelow, refsBelowList, refsBelow_isolate rank k r]
  | .inside r s _ => by
    simp [isolate, refsBelow, refsBelowList, refsBelow_isolate rank k r, refsBelowStop_isolate rank k s]
  | .has r s _ => by
    simp [isolate, refsBelow, refsBelowList, refsBelow_isolate rank k r, refsBelowStop_isolate rank k s]
  | .precedes r s => by
    simp [isolate, refsBelow, refsBelowList, refsBelow_isolate rank k r, refsBelowStop_isolate rank k s]
  | .follows r s => by
    simp [isolate, refsBelow, refsBelowList, refsBelow_isolate rank k r, refsBelowStop_isolate rank k s]
  | .all rs _ => by simp [isolate, refsBelow, refsBelowList_isolate rank k rs]
  | .any rs _ => by simp [isolate, refsBelow, refsBelowList_isolate rank k rs]
  | .not r => by simp [isolate, refsBelow, refsBelow_isolate rank k r]
  | .matches _ => by simp [isolate, refsBelow, refsBelowList]
theorem refsBelowStop_isolate (rank : Name → Nat) (k : Nat) : ∀ s : StopBy,
    refsBelowStop rank k (isolateStop s) = refsBelowStop rank k s
  | .neighbor => by simp [isolateStop]
  | .end_ => by simp [isolateStop]
  | .rule r => by simp [isolateStop, refsBelowStop, refsBelow_isolate rank k r]
theorem refsBelowList_isolate (rank : Name → Nat) (k : Nat) : ∀ rs : List Rule,
    refsBelowList rank k (isolateList rs) = refsBelowList rank k rs
  | [] => by simp [isolateList]
  | r :: rs => by
    simp [isolateList, refsBelowList, refsBelow_isolate rank k r, refsBelowList_isolate rank k rs]
end

mutual
theorem allVars_isolate : ∀ r : Rule, allVars (isolate r) = allVars r
  | .pattern _ _ _ => by simp [isolate, allVars, allVarsList]
  | .kind _ => by simp [isolate]
  | .regex _ => by simp [isolate]
  | .range _ _ _ _ => by simp [isolate]
  | .nthChild _ _ none _ => by simp [isolate, allVars, allVarsList]
  | .nthChild _ _ (some r) _ => by simp [isolate, allVars, allVarsList, allVars_isolate r]
  | .inside r s _ => by
    simp [isolate, allVars, allVarsList, allVars_isolate r, allVarsStop_isolate s]
  | .has r s _ => by
    simp [isolate, allVars, allVarsList, allVars_isolate r, allVarsStop_isolate s]
  | .precedes r s => by
    simp [isolate, allVars, allVarsList, allVars_isolate r, allVarsStop_isolate s]
  | .follows r s => by
    simp [isolate, allVars, allVarsList, allVars_isolate r, allVarsStop_isolate s]
  | .all rs _ => by simp [isolate, allVars, allVarsList_isolate rs]
  | .any rs _ => by simp [isolate, allVars, allVarsList_isolate rs]
  | .not r => by simp [isolate, allVars, allVars_isolate r]
  | .matches _ => by simp [isolate, allVars, allVarsList]
theorem allVarsStop_isolate : ∀ s : StopBy, allVarsStop (isolateStop s) = allVarsStop s
  | .neighbor => by simp [isolateStop]
  | .end_ => by simp [isolateStop]
  | .rule r => by simp [isolateStop, allVarsStop, allVars_isolate r]
theorem allVarsList_isolate : ∀ rs : List Rule, allVarsList (isolateList rs) = allVarsList rs
  | [] => by simp [isolateList]
  | r :: rs => by simp [isolateList, allVarsList, allVars_isolate r, allVarsList_isolate rs]
end

theorem namedVars_map_isolate : ∀ l : List (Name × Rule),
    namedVars (l.map fun kv => (kv.1, isolate kv.2)) = namedVars l
  | [] => rfl
  | c :: rest => by simp [namedVars, allVars_isolate, namedVars_map_isolate rest]

theorem isolateCore_constraints_eq (core : RuleCore) :
    (isolateCore core).constraints = core.constraints.map fun kv => (kv.1, isolate kv.2) := by
  simp only [isolateCore]

theorem coreVars_isolateCore (core : RuleCore) : coreVars (isolateCore core) = coreVars core := by
  have hr : (isolateCore core).rule = isolate core.rule := rfl
  simp only [coreVars, hr, isolateCore_constraints_eq, allVars_isolate, namedVars_map_isolate]

theorem globalsVars_map_isolate : ∀ l : List (Name × RuleCore),
    globalsVars (l.map fun kv => (kv.1, isolateCore kv.2)) = globalsVars l
  | [] => rfl
  | g :: rest => by
    have hr : (isolateCore g.2).rule = isolate g.2.rule := rfl
    simp [globalsVars, hr, isolateCore_constraints_eq, allVars_isolate, namedVars_map_isolate,
      globalsVars_map_isolate rest]

theorem regVars_isoCtx (ctx : RCtx) : regVars (isoCtx ctx) = regVars ctx := by
  simp only [regVars, isoCtx, namedVars_map_isolate, globalsVars_map_isolate]

theorem scanVars_isoCtx (ctx : RCtx) (core : RuleCore) :
    scanVars (isoCtx ctx) (isolateCore core) = scanVars ctx core := by
  simp only [scanVars, coreVars_isolateCore, regVars_isoCtx]

/-- **isolating the registries preserves the rank** -/
theorem regRanked_isoCtx (ctx : RCtx) (rank : Name → Nat) (h : RegRanked ctx rank) :
    RegRanked (isoCtx ctx) rank := by
  refine ⟨fun kv hkv => ?_, fun kv hkv => ?_⟩
  · simp only [isoCtx, List.mem_map] at hkv
    obtain ⟨kv0, h0, rfl⟩ := hkv
    simp only [refsBelow_isolate]
    exact h.1 kv0 h0
  · simp only [isoCtx, List.mem_map] at hkv
    obtain ⟨kv0, h0, rfl⟩ := hkv
    obtain ⟨h1, h2⟩ := h.2 kv0 h0
    have hr : (isolateCore kv0.2).rule = isolate kv0.2.rule := rfl
    refine ⟨by simp only [hr, refsBelow_isolate]; exact h1, fun c hc => ?_⟩
    simp only [isolateCore_constraints_eq, List.mem_map] at hc
    obtain ⟨c0, hc0, rfl⟩ := hc
    simp only [refsBelow_isolate]
    exact h2 c0 hc0

theorem coreRefsBelow_isolateCore (rank : Name → Nat) (Kr : Nat) (core : RuleCore)
    (h : coreRefsBelow rank Kr core) : coreRefsBelow rank Kr (isolateCore core) := by
  have hr : (isolateCore core).rule = isolate core.rule := rfl
  refine ⟨by simp only [hr, refsBelow_isolate]; exact h.1, fun c hc => ?_⟩
  simp only [isolateCore_constraints_eq, List.mem_map] at hc
  obtain ⟨c0, hc0, rfl⟩ := hc
  simp only [refsBelow_isolate]
  exact h.2 c0 hc0

end AGV.RuleFuelReg
