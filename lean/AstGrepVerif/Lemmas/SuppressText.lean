/-
Text lemmas for the suppression model: `split_once`, `contains`, `trim`, `split(',')` against
their declarative counterparts in `Spec/Suppress.lean`.
-/
import AstGrepVerif.Model.Suppress
import AstGrepVerif.Spec.Suppress
import AstGrepVerif.Lemmas.Suppress

set_option linter.unusedSimpArgs false
set_option linter.unusedVariables false

namespace AGV.Suppress
open Spec

/-! ## `split_once` / `contains` -/

theorem stripPrefix_eq_some (pat s rest : Bytes) : stripPrefix pat s = some rest ↔ s = pat ++ rest := by
  induction pat generalizing s with
  | nil => simp [stripPrefix, eq_comm]
  | cons p ps ih =>
    cases s with
    | nil => simp [stripPrefix]
    | cons b bs =>
      simp only [stripPrefix, List.cons_append, List.cons.injEq]
      by_cases h : p = b
      · subst h; simp [ih]
      · simp [h]; intro h2; exact absurd h2.symm h

theorem splitOnce_some (pat s pre post : Bytes) (h : splitOnce pat s = some (pre, post)) :
    s = pre ++ pat ++ post := by
  induction s generalizing pre with
  | nil =>
    simp only [splitOnce] at h
    cases h1 : stripPrefix pat [] with
    | none => simp [h1] at h
    | some rest =>
      simp only [h1, Option.some.injEq, Prod.mk.injEq] at h
      obtain ⟨rfl, rfl⟩ := h
      simpa using (stripPrefix_eq_some pat [] rest).1 h1
  | cons b bs ih =>
    simp only [splitOnce] at h
    cases h1 : stripPrefix pat (b :: bs) with
    | some rest =>
      simp only [h1, Option.some.injEq, Prod.mk.injEq] at h
      obtain ⟨rfl, rfl⟩ := h
      simpa using (stripPrefix_eq_some pat (b :: bs) rest).1 h1
    | none =>
      simp only [h1] at h
      cases h2 : splitOnce pat bs with
      | none => simp [h2] at h
      | some pp =>
        obtain ⟨pre', post'⟩ := pp
        simp only [h2, Option.some.injEq, Prod.mk.injEq] at h
        obtain ⟨rfl, rfl⟩ := h
        have := ih pre' h2
        simp [this]

/-- a match found by `split_once` is the first one -/
theorem splitOnce_first (pat s pre post : Bytes) (h : splitOnce pat s = some (pre, post))
    (pre' post' : Bytes) (h' : s = pre' ++ pat ++ post') : pre.length ≤ pre'.length := by
  induction s generalizing pre pre' with
  | nil =>
    simp only [splitOnce] at h
    cases h1 : stripPrefix pat [] with
    | none => simp [h1] at h
    | some rest =>
      simp only [h1, Option.some.injEq, Prod.mk.injEq] at h
      simp [← h.1]
  | cons b bs ih =>
    simp only [splitOnce] at h
    cases h1 : stripPrefix pat (b :: bs) with
    | some rest =>
      simp only [h1, Option.some.injEq, Prod.mk.injEq] at h
      simp [← h.1]
    | none =>
      simp only [h1] at h
      cases h2 : splitOnce pat bs with
      | none => simp [h2] at h
      | some pp =>
        obtain ⟨pre1, post1⟩ := pp
        simp only [h2, Option.some.injEq, Prod.mk.injEq] at h
        obtain ⟨rfl, rfl⟩ := h
        cases pre' with
        | nil =>
          -- then `pat` is a prefix of `b :: bs`, contradicting `h1`
          have : stripPrefix pat (b :: bs) = some post' :=
            (stripPrefix_eq_some pat (b :: bs) post').2 (by simpa using h')
          rw [h1] at this; simp at this
        | cons c cs =>
          simp only [List.cons_append, List.cons.injEq] at h'
          have := ih pre1 h2 cs (by simpa using h'.2)
          simp; omega

theorem splitOnce_none (pat s : Bytes) (h : splitOnce pat s = none) : ¬ Occurs pat s := by
  induction s with
  | nil =>
    rintro ⟨pre, post, he⟩
    simp only [splitOnce] at h
    have hp : pre = [] ∧ pat = [] ∧ post = [] := by
      have := congrArg List.length he; simp at this
      exact ⟨List.eq_nil_of_length_eq_zero (by omega), List.eq_nil_of_length_eq_zero (by omega),
        List.eq_nil_of_length_eq_zero (by omega)⟩
    obtain ⟨rfl, rfl, rfl⟩ := hp
    simp [stripPrefix] at h
  | cons b bs ih =>
    rintro ⟨pre, post, he⟩
    simp only [splitOnce] at h
    cases h1 : stripPrefix pat (b :: bs) with
    | some rest => simp [h1] at h
    | none =>
      simp only [h1] at h
      cases h2 : splitOnce pat bs with
      | some pp => simp [h2] at h
      | none =>
        cases pre with
        | nil =>
          have : stripPrefix pat (b :: bs) = some post :=
            (stripPrefix_eq_some pat (b :: bs) post).2 (by simpa using he)
          rw [h1] at this; simp at this
        | cons c cs =>
          simp only [List.cons_append, List.cons.injEq] at he
          exact ih h2 ⟨cs, post, by simpa using he.2⟩

theorem contains_iff_occurs (pat s : Bytes) : contains pat s = true ↔ Occurs pat s := by
  simp only [contains]
  cases h : splitOnce pat s with
  | none => simp; exact splitOnce_none pat s h
  | some pp =>
    obtain ⟨pre, post⟩ := pp
    simp only [Option.isSome_some, true_iff]
    exact ⟨pre, post, splitOnce_some pat s pre post h⟩

/-- `split_once` finds the first occurrence, and only that -/
theorem splitOnce_of_first (pat s pre post : Bytes) (he : s = pre ++ pat ++ post)
    (hmin : ∀ pre' post', s = pre' ++ pat ++ post' → pre.length ≤ pre'.length) :
    splitOnce pat s = some (pre, post) := by
  cases h : splitOnce pat s with
  | none => exact absurd ⟨pre, post, he⟩ (splitOnce_none pat s h)
  | some pp =>
    obtain ⟨pre1, post1⟩ := pp
    have h1 := splitOnce_some pat s pre1 post1 h
    have hl1 := splitOnce_first pat s pre1 post1 h pre post he
    have hl2 := hmin pre1 post1 h1
    have hlen : pre1.length = pre.length := by omega
    rw [he, List.append_assoc, List.append_assoc] at h1
    have := List.append_inj h1 hlen.symm
    obtain ⟨rfl, h3⟩ := this
    have := List.append_cancel_left h3
    subst this
    rfl

theorem marker_eq : ignoreText = Spec.marker := by decide
theorem commentWord_eq : Suppress.commentWord = Spec.commentWord := by decide

theorem isSuppressionNode_iff (c : CNode) : isSuppressionNode c = true ↔ Spec.IsSuppression c := by
  simp only [isSuppressionNode, Bool.and_eq_true, contains_iff_occurs, Spec.IsSuppression, marker_eq,
    commentWord_eq]

/-! ## white space -/

theorem wsLen_of_prefix (w : Bytes) (hw : w ∈ wsChars) (s : Bytes) : wsLen (w ++ s) = w.length := by
  simp only [wsChars, List.mem_cons, List.not_mem_nil, or_false] at hw
  rcases hw with rfl | rfl | rfl | rfl | rfl | rfl | rfl | rfl | rfl | rfl | rfl | rfl | rfl | rfl | rfl | rfl | rfl | rfl | rfl | rfl | rfl | rfl | rfl | rfl | rfl
  all_goals simp [wsLen]

theorem wsChars_length (w : Bytes) (hw : w ∈ wsChars) : 1 ≤ w.length ∧ w.length ≤ 3 := by
  simp only [wsChars, List.mem_cons, List.not_mem_nil, or_false] at hw
  rcases hw with rfl | rfl | rfl | rfl | rfl | rfl | rfl | rfl | rfl | rfl | rfl | rfl | rfl | rfl | rfl | rfl | rfl | rfl | rfl | rfl | rfl | rfl | rfl | rfl | rfl
  all_goals simp

private theorem range5 (b : UInt8) (h : 0x09 ≤ b) (h2 : b ≤ 0x0D) :
    b = 9 ∨ b = 10 ∨ b = 11 ∨ b = 12 ∨ b = 13 := by
  have h' : 9 ≤ b.toNat := by simpa [UInt8.le_iff_toNat_le] using h
  have h2' : b.toNat ≤ 13 := by simpa [UInt8.le_iff_toNat_le] using h2
  have : b.toNat = 9 ∨ b.toNat = 10 ∨ b.toNat = 11 ∨ b.toNat = 12 ∨ b.toNat = 13 := by omega
  rcases this with h | h | h | h | h
  all_goals simp [← UInt8.toNat_inj, h]

private theorem range11 (b : UInt8) (h : 0x80 ≤ b) (h2 : b ≤ 0x8A) :
    b = 0x80 ∨ b = 0x81 ∨ b = 0x82 ∨ b = 0x83 ∨ b = 0x84 ∨ b = 0x85 ∨ b = 0x86 ∨ b = 0x87 ∨ b = 0x88 ∨
      b = 0x89 ∨ b = 0x8A := by
  have h' : 128 ≤ b.toNat := by simpa [UInt8.le_iff_toNat_le] using h
  have h2' : b.toNat ≤ 138 := by simpa [UInt8.le_iff_toNat_le] using h2
  have : b.toNat = 128 ∨ b.toNat = 129 ∨ b.toNat = 130 ∨ b.toNat = 131 ∨ b.toNat = 132 ∨ b.toNat = 133 ∨
      b.toNat = 134 ∨ b.toNat = 135 ∨ b.toNat = 136 ∨ b.toNat = 137 ∨ b.toNat = 138 := by omega
  rcases this with h | h | h | h | h | h | h | h | h | h | h
  all_goals simp [← UInt8.toNat_inj, h]

/-- a non-zero `wsLen` is the length of a white-space character at the head -/
theorem prefix_of_wsLen (s : Bytes) (h : wsLen s ≠ 0) :
    ∃ w rest, w ∈ wsChars ∧ s = w ++ rest ∧ wsLen s = w.length := by
  match s with
  | [] => simp [wsLen] at h
  | b :: rest =>
    simp only [wsLen] at h ⊢
    split at h
    · next h1 =>
      simp only [h1, ↓reduceIte]
      refine ⟨[b], rest, ?_, rfl, rfl⟩
      simp only [Bool.or_eq_true, Bool.and_eq_true, decide_eq_true_eq, beq_iff_eq] at h1
      rcases h1 with ⟨h1, h2⟩ | h1
      · rcases range5 b h1 h2 with rfl | rfl | rfl | rfl | rfl <;> simp [wsChars]
      · subst h1; simp [wsChars]
    · next h1 =>
      simp only [h1]
      match rest with
      | [] => simp at h
      | c :: rest2 =>
        simp only at h ⊢
        split at h
        · next h2 =>
          simp only [h2, ↓reduceIte]
          refine ⟨[b, c], rest2, ?_, rfl, rfl⟩
          simp only [Bool.and_eq_true, beq_iff_eq, Bool.or_eq_true] at h2
          obtain ⟨rfl, rfl | rfl⟩ := h2 <;> simp [wsChars]
        · next h2 =>
          simp only [h2]
          match rest2 with
          | [] => simp at h
          | d :: rest3 =>
            simp only at h ⊢
            split at h
            · next h3 =>
              simp only [h3, ↓reduceIte]
              refine ⟨[b, c, d], rest3, ?_, rfl, rfl⟩
              simp only [Bool.and_eq_true, beq_iff_eq] at h3
              obtain ⟨⟨rfl, rfl⟩, rfl⟩ := h3; simp [wsChars]
            · next h3 =>
              simp only [h3]
              split at h
              · next h4 =>
                simp only [h4, ↓reduceIte]
                refine ⟨[b, c, d], rest3, ?_, rfl, rfl⟩
                simp only [Bool.and_eq_true, beq_iff_eq, Bool.or_eq_true, decide_eq_true_eq] at h4
                obtain ⟨⟨rfl, rfl⟩, h5⟩ := h4
                rcases h5 with ((⟨h5, h6⟩ | rfl) | rfl) | rfl
                · rcases range11 d h5 h6 with rfl | rfl | rfl | rfl | rfl | rfl | rfl | rfl | rfl | rfl | rfl <;>
                    simp [wsChars]
                all_goals simp [wsChars]
              · next h4 =>
                simp only [h4]
                split at h
                · next h5 =>
                  simp only [h5, ↓reduceIte]
                  refine ⟨[b, c, d], rest3, ?_, rfl, rfl⟩
                  simp only [Bool.and_eq_true, beq_iff_eq] at h5
                  obtain ⟨⟨rfl, rfl⟩, rfl⟩ := h5; simp [wsChars]
                · next h5 =>
                  simp only [h5]
                  split at h
                  · next h6 =>
                    simp only [h6, ↓reduceIte]
                    refine ⟨[b, c, d], rest3, ?_, rfl, rfl⟩
                    simp only [Bool.and_eq_true, beq_iff_eq] at h6
                    obtain ⟨⟨rfl, rfl⟩, rfl⟩ := h6; simp [wsChars]
                  · simp at h

/-- no white-space character at the head (the specification's way to say `wsLen s = 0`) -/
theorem wsLen_zero_iff (s : Bytes) : wsLen s = 0 ↔ ∀ w ∈ wsChars, ¬ w <+: s := by
  constructor
  · intro h w hw ⟨rest, he⟩
    have := wsLen_of_prefix w hw rest
    rw [he, h] at this
    have := (wsChars_length w hw).1
    omega
  · intro h
    apply Decidable.byContradiction
    intro hne
    obtain ⟨w, rest, hw, he, _⟩ := prefix_of_wsLen s hne
    exact h w hw ⟨rest, he.symm⟩

theorem trimStart_ws (w : Bytes) (hw : w ∈ wsChars) (s : Bytes) : trimStart (w ++ s) = trimStart s := by
  simp only [wsChars, List.mem_cons, List.not_mem_nil, or_false] at hw
  rcases hw with rfl | rfl | rfl | rfl | rfl | rfl | rfl | rfl | rfl | rfl | rfl | rfl | rfl | rfl | rfl | rfl | rfl | rfl | rfl | rfl | rfl | rfl | rfl | rfl | rfl
  all_goals (rw [trimStart.eq_def]; simp [wsLen])

theorem trimStart_blank (l t : Bytes) (hl : Blank l) : trimStart (l ++ t) = trimStart t := by
  induction hl with
  | nil => simp
  | cons hw _ ih => rw [List.append_assoc, trimStart_ws _ hw, ih]

theorem trimStart_of_wsLen_zero (t : Bytes) (h : wsLen t = 0) : trimStart t = t := by
  cases t with
  | nil => simp [trimStart]
  | cons b rest => rw [trimStart.eq_def]; simp [h]

theorem blank_append (a b : Bytes) (ha : Blank a) (hb : Blank b) : Blank (a ++ b) := by
  induction ha with
  | nil => simpa using hb
  | cons hw _ ih => rw [List.append_assoc]; exact Blank.cons hw ih

theorem blank_single (w : Bytes) (hw : w ∈ wsChars) : Blank w := by
  have := Blank.cons hw Blank.nil
  simpa using this

/-- `trim_start` removes a run of white space and leaves no white space at the head -/
theorem trimStart_decomp (s : Bytes) :
    ∃ l, s = l ++ trimStart s ∧ Blank l ∧ wsLen (trimStart s) = 0 := by
  induction h : s.length using Nat.strongRecOn generalizing s with
  | _ n ih =>
    by_cases hz : wsLen s = 0
    · exact ⟨[], by simp [trimStart_of_wsLen_zero s hz], Blank.nil, by rw [trimStart_of_wsLen_zero s hz]; exact hz⟩
    · obtain ⟨w, rest, hw, he, _⟩ := prefix_of_wsLen s hz
      have hlen := (wsChars_length w hw).1
      obtain ⟨l, hl1, hl2, hl3⟩ := ih rest.length (by subst he; simp at h; omega) rest rfl
      refine ⟨w ++ l, ?_, blank_append _ _ (blank_single w hw) hl2, ?_⟩
      · rw [he, trimStart_ws w hw, List.append_assoc, ← hl1]
      · rw [he, trimStart_ws w hw]; exact hl3

theorem blank_iff_trimStart (s : Bytes) : Blank s ↔ trimStart s = [] := by
  constructor
  · intro h
    have := trimStart_blank s [] h
    simpa [trimStart] using this
  · intro h
    obtain ⟨l, hl1, hl2, _⟩ := trimStart_decomp s
    rw [h, List.append_nil] at hl1
    rw [hl1]; exact hl2

/-! ## byte classes: a white-space character is one lead byte followed by non-lead bytes -/

def isWsLead (b : UInt8) : Bool :=
  (0x09 ≤ b && b ≤ 0x0D) || b == 0x20 || b == 0xC2 || b == 0xE1 || b == 0xE2 || b == 0xE3

def isWsCont (b : UInt8) : Bool := 0x80 ≤ b && b ≤ 0xBF

theorem ws_shape (w : Bytes) (hw : w ∈ wsChars) :
    ∃ h tl, w = h :: tl ∧ isWsLead h = true ∧ ∀ b ∈ tl, isWsCont b = true := by
  simp only [wsChars, List.mem_cons, List.not_mem_nil, or_false] at hw
  rcases hw with rfl | rfl | rfl | rfl | rfl | rfl | rfl | rfl | rfl | rfl | rfl | rfl | rfl | rfl | rfl | rfl | rfl | rfl | rfl | rfl | rfl | rfl | rfl | rfl | rfl
  all_goals exact ⟨_, _, rfl, by decide, by decide⟩

theorem lead_not_cont (b : UInt8) (h1 : isWsLead b = true) (h2 : isWsCont b = true) : False := by
  simp only [isWsLead, isWsCont, Bool.or_eq_true, Bool.and_eq_true, decide_eq_true_eq, beq_iff_eq,
    UInt8.le_iff_toNat_le, ← UInt8.toNat_inj] at h1 h2
  simp at h1 h2
  omega

theorem blank_cons_inv (x : Bytes) (hx : Blank x) (hne : x ≠ []) :
    ∃ w rest, w ∈ wsChars ∧ x = w ++ rest ∧ Blank rest := by
  cases hx with
  | nil => exact absurd rfl hne
  | cons hw hs => exact ⟨_, _, hw, rfl, hs⟩

theorem blank_head_lead (b : UInt8) (s : Bytes) (h : Blank (b :: s)) : isWsLead b = true := by
  obtain ⟨w, rest, hw, he, _⟩ := blank_cons_inv _ h (by simp)
  obtain ⟨h0, tl, rfl, hl, _⟩ := ws_shape w hw
  simp only [List.cons_append, List.cons.injEq] at he
  rw [he.1]; exact hl

/-- right cancellation: a white-space run that ends with a white-space run -/
theorem blank_cancel_right (x r : Bytes) (hxr : Blank (x ++ r)) (hr : Blank r) : Blank x := by
  induction h : x.length using Nat.strongRecOn generalizing x with
  | _ n ih =>
    cases x with
    | nil => exact Blank.nil
    | cons h0 x' =>
      obtain ⟨w, s', hw, he, hs'⟩ := blank_cons_inv _ hxr (by simp)
      rcases List.append_eq_append_iff.1 he with ⟨a', h1, h2⟩ | ⟨c', h1, h2⟩
      · -- w = x ++ a'
        cases a' with
        | nil => rw [List.append_nil] at h1; rw [← h1]; exact blank_single w hw
        | cons e a'' =>
          exfalso
          obtain ⟨hh, tl, hwe, _, hcont⟩ := ws_shape w hw
          rw [hwe] at h1
          simp only [List.cons_append, List.cons.injEq] at h1
          have hc : isWsCont e = true := hcont e (by rw [h1.2]; simp)
          have hl : isWsLead e = true := by rw [h2] at hr; exact blank_head_lead e _ hr
          exact lead_not_cont e hl hc
      · -- x = w ++ c'
        have hlen := (wsChars_length w hw).1
        have hb : Blank c' := ih c'.length (by rw [← h, h1]; simp; omega) c' (by rw [← h2]; exact hs') rfl
        rw [h1]; exact blank_append _ _ (blank_single w hw) hb

theorem blank_suffix (x : Bytes) (hx : Blank x) (hne : x ≠ []) : ∃ w ∈ wsChars, w <:+ x := by
  induction hx with
  | nil => exact absurd rfl hne
  | @cons w s hw hs ih =>
    by_cases h : s = []
    · subst h; exact ⟨w, hw, by simp⟩
    · obtain ⟨w', hw', hsuf⟩ := ih h
      exact ⟨w', hw', List.IsSuffix.trans hsuf (List.suffix_append _ _)⟩

/-! ## `trim_end`, `trim` -/

theorem trimEnd_cons_blank (b : UInt8) (rest : Bytes) (h : Blank (b :: rest)) :
    trimEnd (b :: rest) = [] := by
  simp only [trimEnd, List.isEmpty_iff, (blank_iff_trimStart _).1 h, ↓reduceIte]

theorem trimEnd_cons_nonblank (b : UInt8) (rest : Bytes) (h : ¬ Blank (b :: rest)) :
    trimEnd (b :: rest) = b :: trimEnd rest := by
  rw [blank_iff_trimStart] at h
  simp only [trimEnd, List.isEmpty_iff, h, ↓reduceIte]

theorem trimEnd_decomp (s : Bytes) :
    ∃ r, s = trimEnd s ++ r ∧ Blank r ∧ ∀ w ∈ wsChars, ¬ w <:+ trimEnd s := by
  induction s with
  | nil =>
    refine ⟨[], by simp [trimEnd], Blank.nil, ?_⟩
    intro w hw hsuf
    simp only [trimEnd, List.suffix_nil] at hsuf
    have := (wsChars_length w hw).1; rw [hsuf] at this; simp at this
  | cons b rest ih =>
    by_cases hb : Blank (b :: rest)
    · rw [trimEnd_cons_blank b rest hb]
      simp only [List.nil_append]
      refine ⟨b :: rest, rfl, hb, ?_⟩
      intro w hw hsuf
      simp only [List.suffix_nil] at hsuf
      have := (wsChars_length w hw).1; rw [hsuf] at this; simp at this
    · rw [trimEnd_cons_nonblank b rest hb]
      obtain ⟨r, h1, h2, h3⟩ := ih
      refine ⟨r, by simp [← h1], h2, ?_⟩
      intro w hw hsuf
      rcases List.suffix_cons_iff.1 hsuf with h4 | h4
      · apply hb
        rw [h1, ← List.cons_append, ← h4]
        exact blank_append _ _ (blank_single w hw) h2
      · exact h3 w hw h4

theorem trimEnd_unique (t r : Bytes) (hr : Blank r) (ht : ∀ w ∈ wsChars, ¬ w <:+ t) :
    trimEnd (t ++ r) = t := by
  induction t with
  | nil =>
    cases r with
    | nil => simp [trimEnd]
    | cons b r' => simp only [List.nil_append, trimEnd_cons_blank b r' hr]
  | cons b t' ih =>
    have hnb : ¬ Blank (b :: (t' ++ r)) := by
      intro hb
      have hx : Blank (b :: t') := blank_cancel_right (b :: t') r (by simpa using hb) hr
      obtain ⟨w, hw, hsuf⟩ := blank_suffix _ hx (by simp)
      exact ht w hw hsuf
    rw [List.cons_append, trimEnd_cons_nonblank _ _ hnb]
    simp only [List.cons.injEq, true_and]
    apply ih
    intro w hw hsuf
    exact ht w hw (List.IsSuffix.trans hsuf (List.suffix_cons _ _))

theorem wsLen_append_blank (t r : Bytes) (hne : t ≠ []) (ht : wsLen t = 0) (hr : Blank r) :
    wsLen (t ++ r) = 0 := by
  rw [wsLen_zero_iff] at ht ⊢
  intro w hw hpre
  obtain ⟨rest, he⟩ := hpre
  rcases List.append_eq_append_iff.1 he with ⟨a', h1, h2⟩ | ⟨c', h1, h2⟩
  · -- t = w ++ a'
    exact ht w hw ⟨a', h1.symm⟩
  · -- w = t ++ c'
    cases c' with
    | nil => rw [List.append_nil] at h1; exact ht w hw ⟨[], by simp [h1]⟩
    | cons e c'' =>
      obtain ⟨hh, tl, hwe, _, hcont⟩ := ws_shape w hw
      cases t with
      | nil => exact hne rfl
      | cons t0 t' =>
        rw [hwe] at h1
        simp only [List.cons_append, List.cons.injEq] at h1
        have hc : isWsCont e = true := hcont e (by rw [h1.2]; simp)
        have hl : isWsLead e = true := by rw [h2] at hr; exact blank_head_lead e _ hr
        exact lead_not_cont e hl hc

theorem stripped_trim (s : Bytes) : Stripped s (trim s) := by
  obtain ⟨l, hl1, hl2, hl3⟩ := trimStart_decomp s
  obtain ⟨r, hr1, hr2, hr3⟩ := trimEnd_decomp (trimStart s)
  refine ⟨l, r, ?_, hl2, hr2, ?_, hr3⟩
  · simp only [trim]; rw [List.append_assoc, ← hr1, ← hl1]
  · intro w hw hpre
    rw [wsLen_zero_iff] at hl3
    apply hl3 w hw
    simp only [trim] at hpre
    exact List.IsPrefix.trans hpre ⟨r, hr1.symm⟩

theorem trim_of_stripped (s t : Bytes) (h : Stripped s t) : trim s = t := by
  obtain ⟨l, r, he, hl, hr, h1, h2⟩ := h
  simp only [trim]
  rw [he, List.append_assoc, trimStart_blank _ _ hl]
  cases t with
  | nil =>
    simp only [List.nil_append]
    rw [(blank_iff_trimStart r).1 hr]; simp [trimEnd]
  | cons t0 t' =>
    have hz : wsLen (t0 :: t') = 0 := (wsLen_zero_iff _).2 h1
    rw [trimStart_of_wsLen_zero _ (wsLen_append_blank _ r (by simp) hz hr)]
    exact trimEnd_unique _ r hr h2

theorem stripped_iff_trim (s t : Bytes) : Stripped s t ↔ trim s = t :=
  ⟨trim_of_stripped s t, fun h => h ▸ stripped_trim s⟩

theorem trim_append_blank (z r : Bytes) (hr : Blank r) : trim (z ++ r) = trim z := by
  apply trim_of_stripped
  obtain ⟨l, r', he, hl, hr', h1, h2⟩ := stripped_trim z
  have hz : z ++ r = l ++ trim z ++ (r' ++ r) := by
    conv => lhs; rw [he]
    simp
  exact ⟨l, r' ++ r, hz, hl, blank_append _ _ hr' hr, h1, h2⟩

theorem trim_blank_append (l z : Bytes) (hl : Blank l) : trim (l ++ z) = trim z := by
  apply trim_of_stripped
  obtain ⟨l', r', he, hl', hr', h1, h2⟩ := stripped_trim z
  refine ⟨l ++ l', r', ?_, blank_append _ _ hl hl', hr', h1, h2⟩
  conv => lhs; rw [he]
  simp

/-! ## bytes of a white-space run; the marker, `:` and `,` contain none of them -/

theorem blank_bytes (s : Bytes) (hs : Blank s) : ∀ b ∈ s, isWsLead b = true ∨ isWsCont b = true := by
  induction hs with
  | nil => simp
  | @cons w s hw _ ih =>
    intro b hb
    rcases List.mem_append.1 hb with h | h
    · obtain ⟨h0, tl, rfl, hl, hc⟩ := ws_shape w hw
      rcases List.mem_cons.1 h with rfl | h
      · exact .inl hl
      · exact .inr (hc b h)
    · exact ih b h

def isWsByte (b : UInt8) : Bool := isWsLead b || isWsCont b

theorem blank_not_mem (s : Bytes) (hs : Blank s) (b : UInt8) (hb : isWsByte b = false) : b ∉ s := by
  intro h
  have := blank_bytes s hs b h
  simp only [isWsByte, Bool.or_eq_false_iff] at hb
  rcases this with h1 | h1 <;> simp [hb.1, hb.2] at h1

theorem not_blank_of_mem (s : Bytes) (b : UInt8) (hb : isWsByte b = false) (h : b ∈ s) : ¬ Blank s :=
  fun hs => blank_not_mem s hs b hb h

/-- a pattern that starts with a byte not in `l` is not found inside `l` -/
theorem splitOnce_skip (h : UInt8) (pt l x : Bytes) (hl : h ∉ l) :
    splitOnce (h :: pt) (l ++ x) = (splitOnce (h :: pt) x).map (fun p => (l ++ p.1, p.2)) := by
  induction l with
  | nil => simp
  | cons b l' ih =>
    simp only [List.mem_cons, not_or] at hl
    have hne : ¬ h = b := hl.1
    simp only [List.cons_append, splitOnce, stripPrefix, hne, ↓reduceIte, ih hl.2]
    cases splitOnce (h :: pt) x with
    | none => simp
    | some p => simp

theorem splitOnce_append (pat s r pre post : Bytes) (h : splitOnce pat s = some (pre, post)) :
    splitOnce pat (s ++ r) = some (pre, post ++ r) := by
  apply splitOnce_of_first
  · rw [splitOnce_some pat s pre post h]; simp
  · intro pre' post' he
    -- an earlier occurrence in `s ++ r` that is not one in `s` would have to end inside `r`;
    -- either way `pre` is no longer than `pre'`
    have hs := splitOnce_some pat s pre post h
    by_cases hlen : pre.length ≤ pre'.length
    · exact hlen
    · exfalso
      have hlt : pre'.length < pre.length := Nat.lt_of_not_le hlen
      -- `pre' ++ pat` is a prefix of `pre ++ pat`, hence of `s`
      have h1 : s ++ r = pre ++ pat ++ (post ++ r) := by rw [hs]; simp
      have h2 : pre' ++ pat ++ post' = pre ++ pat ++ (post ++ r) := by rw [← he, h1]
      have hp : pre' ++ pat <+: pre ++ pat := by
        have ha : pre' ++ pat <+: pre ++ pat ++ (post ++ r) := ⟨post', h2⟩
        have hb : pre ++ pat <+: pre ++ pat ++ (post ++ r) := ⟨post ++ r, rfl⟩
        exact List.prefix_of_prefix_length_le ha hb (by simp; omega)
      obtain ⟨q, hq⟩ := hp
      have := splitOnce_first pat s pre post h pre' (q ++ post) (by rw [hs, ← hq]; simp)
      omega

theorem trimEnd_append_nonws (x : Bytes) (e : UInt8) (y : Bytes) (he : isWsByte e = false) :
    trimEnd (x ++ e :: y) = x ++ e :: trimEnd y := by
  induction x with
  | nil =>
    simp only [List.nil_append]
    exact trimEnd_cons_nonblank e y (not_blank_of_mem _ e he (by simp))
  | cons b x' ih =>
    rw [List.cons_append, trimEnd_cons_nonblank b _ (not_blank_of_mem _ e he (by simp)), ih]
    rfl

theorem splitOnce_single_none (c : UInt8) (s : Bytes) : splitOnce [c] s = none ↔ c ∉ s := by
  constructor
  · intro h hc
    obtain ⟨a, b, he⟩ := List.append_of_mem hc
    exact splitOnce_none [c] s h ⟨a, b, by simp [he]⟩
  · intro h
    cases h1 : splitOnce [c] s with
    | none => rfl
    | some p =>
      have := splitOnce_some [c] s p.1 p.2 h1
      exact absurd (by rw [this]; simp) h

theorem splitOnce_single_some (c : UInt8) (s a q : Bytes) (h : splitOnce [c] s = some (a, q)) :
    s = a ++ c :: q ∧ c ∉ a := by
  have hs := splitOnce_some [c] s a q h
  refine ⟨by simpa using hs, ?_⟩
  intro hc
  obtain ⟨a1, a2, he⟩ := List.append_of_mem hc
  have := splitOnce_first [c] s a q h a1 (a2 ++ c :: q) (by rw [hs, he]; simp)
  rw [he] at this; simp at this; omega

theorem splitOnce_single_of (c : UInt8) (a q : Bytes) (hc : c ∉ a) :
    splitOnce [c] (a ++ c :: q) = some (a, q) := by
  have := splitOnce_skip c [] a (c :: q) hc
  rw [this]
  simp [splitOnce, stripPrefix]

/-! ## `split(',')` -/

theorem splitOn_ne_nil (sep : UInt8) (s : Bytes) : splitOn sep s ≠ [] := by
  cases s with
  | nil => simp [splitOn]
  | cons b bs =>
    simp only [splitOn]
    split
    · simp
    · split <;> simp

theorem splitOn_no_sep (sep : UInt8) (s : Bytes) (h : sep ∉ s) : splitOn sep s = [s] := by
  induction s with
  | nil => simp [splitOn]
  | cons b bs ih =>
    simp only [List.mem_cons, not_or] at h
    have hne : ¬ b = sep := fun e => h.1 e.symm
    simp [splitOn, hne, ih h.2]

theorem splitOn_sep (sep : UInt8) (p r : Bytes) (h : sep ∉ p) :
    splitOn sep (p ++ sep :: r) = p :: splitOn sep r := by
  induction p with
  | nil => simp [splitOn]
  | cons b bs ih =>
    simp only [List.mem_cons, not_or] at h
    have hne : ¬ b = sep := fun e => h.1 e.symm
    simp [splitOn, hne, ih h.2]

theorem pieces_iff_splitOn (s : Bytes) (ps : List Bytes) : Pieces s ps ↔ splitOn comma s = ps := by
  constructor
  · intro h
    induction h with
    | last hc => exact splitOn_no_sep _ _ hc
    | cons hc _ ih => rw [splitOn_sep _ _ _ hc, ih]
  · intro h
    subst h
    induction s with
    | nil => simp only [splitOn]; exact Pieces.last (by simp)
    | cons b bs ih =>
      simp only [splitOn]
      by_cases hb : b = comma
      · subst hb
        simp only [↓reduceIte]
        have := Pieces.cons (p := []) (by simp) ih
        simpa using this
      · simp only [hb, ↓reduceIte]
        generalize splitOn comma bs = q at ih
        cases ih with
        | last hc =>
          simp only
          exact Pieces.last (by simp [hc]; exact fun e => hb e.symm)
        | @cons p r ps' hc hr =>
          simp only
          have := Pieces.cons (p := b :: p) (by simp [hc]; exact fun e => hb e.symm) hr
          simpa using this

/-- append `r` to the last piece -/
def appLast (r : Bytes) : List Bytes → List Bytes
  | [] => []
  | [z] => [z ++ r]
  | p :: q :: ps => p :: appLast r (q :: ps)

theorem splitOn_append (sep : UInt8) (x r : Bytes) (hr : sep ∉ r) :
    splitOn sep (x ++ r) = appLast r (splitOn sep x) := by
  induction x with
  | nil => simp [splitOn, appLast, splitOn_no_sep _ _ hr]
  | cons b bs ih =>
    simp only [List.cons_append, splitOn]
    by_cases hb : b = sep
    · simp only [hb, ↓reduceIte, ih]
      cases h : splitOn sep bs with
      | nil => exact absurd h (splitOn_ne_nil _ _)
      | cons q qs => simp [appLast]
    · simp only [hb, ↓reduceIte, ih]
      cases h : splitOn sep bs with
      | nil => exact absurd h (splitOn_ne_nil _ _)
      | cons q qs =>
        cases qs with
        | nil => simp [appLast]
        | cons q2 qs2 => simp [appLast]

theorem mem_map_trim_appLast (r : Bytes) (hr : Blank r) (ps : List Bytes) (id : Bytes) :
    id ∈ (appLast r ps).map trim ↔ id ∈ ps.map trim := by
  induction ps with
  | nil => simp [appLast]
  | cons p qs ih =>
    cases qs with
    | nil => simp [appLast, trim_append_blank _ _ hr]
    | cons q qs' =>
      simp only [appLast, List.map_cons, List.mem_cons] at ih ⊢
      rw [ih]

/-! ## `parse_suppression_set` against the specification's reading of the directive -/

/-- what `parse_suppression_set` does with the trimmed text after the marker -/
def parseTail (a : Bytes) : Option (List Bytes) :=
  if a.isEmpty then none
  else match splitOnce [COLON] a with
    | none => none
    | some (_, rules) => some ((splitOn COMMA rules).map trim)

theorem marker_bytes_not_ws : ∀ b ∈ Spec.marker, isWsByte b = false := by decide

theorem colon_not_ws : isWsByte colon = false := by decide
theorem comma_not_ws : isWsByte comma = false := by decide
theorem COLON_eq : COLON = colon := rfl
theorem COMMA_eq : COMMA = comma := rfl

/-- the trims around the marker search do not change which occurrence is found, nor (up to
white space at its end) what follows it -/
theorem parse_eq (text tail : Bytes) (h : DirectiveTail text tail) :
    parseSuppressionSet text = parseTail (trim tail) := by
  obtain ⟨pre, he, hmin⟩ := h
  have hso : splitOnce Spec.marker text = some (pre, tail) := splitOnce_of_first _ _ _ _ he hmin
  -- leading white space
  obtain ⟨l, hl1, hl2, _⟩ := trimStart_decomp text
  have hskip : (0x61 : UInt8) ∉ l := blank_not_mem l hl2 _ (by decide)
  have hso2 : splitOnce Spec.marker (l ++ trimStart text) = some (pre, tail) := by rw [← hl1]; exact hso
  have hmk : Spec.marker = 0x61 :: [115, 116, 45, 103, 114, 101, 112, 45, 105, 103, 110, 111, 114, 101] := rfl
  rw [hmk, splitOnce_skip _ _ _ _ hskip] at hso2
  cases hts : splitOnce (0x61 :: [115, 116, 45, 103, 114, 101, 112, 45, 105, 103, 110, 111, 114, 101])
      (trimStart text) with
  | none => rw [hts] at hso2; simp at hso2
  | some p0 =>
    obtain ⟨pre0, tail0⟩ := p0
    rw [hts] at hso2
    simp only [Option.map_some, Option.some.injEq, Prod.mk.injEq] at hso2
    obtain ⟨_, rfl⟩ := hso2
    rw [← hmk] at hts
    -- trailing white space
    have hts' := splitOnce_some _ _ _ _ hts
    have hm2 : Spec.marker = [97, 115, 116, 45, 103, 114, 101, 112, 45, 105, 103, 110, 111, 114] ++ [0x65] := rfl
    have hte : trimEnd (trimStart text) = pre0 ++ Spec.marker ++ trimEnd tail0 := by
      conv => lhs; rw [hts', hm2]
      have := trimEnd_append_nonws (pre0 ++ [97, 115, 116, 45, 103, 114, 101, 112, 45, 105, 103, 110, 111, 114])
        0x65 tail0 (by decide)
      simp only [List.append_assoc, List.cons_append, List.nil_append] at this ⊢
      rw [this]
      simp [Spec.marker]
    obtain ⟨r, hr1, hr2, _⟩ := trimEnd_decomp tail0
    have hso3 : splitOnce Spec.marker (trim text) = some (pre0, trimEnd tail0) := by
      show splitOnce Spec.marker (trimEnd (trimStart text)) = some (pre0, trimEnd tail0)
      apply splitOnce_of_first _ _ _ _ hte
      intro p' q' he'
      refine splitOnce_first _ _ _ _ hts p' (q' ++ r) ?_
      rw [hts']
      conv => lhs; rw [hr1]
      rw [← List.append_assoc, ← hte, he']; simp
    have htrim : trim (trimEnd tail0) = trim tail0 := by
      conv => rhs; rw [hr1]
      rw [trim_append_blank _ _ hr2]
    simp only [parseSuppressionSet, marker_eq, hso3, htrim, parseTail]
    first | rfl | (by_cases hemp : (trim tail0).isEmpty = true <;> simp [hemp])

/-- the specification's `Lists`, computed: first colon, comma-separated pieces, trimmed -/
theorem lists_iff (tail id : Bytes) :
    Lists tail id ↔ id ≠ [] ∧ ∃ a rules, splitOnce [colon] tail = some (a, rules) ∧
      id ∈ (splitOn comma rules).map trim := by
  constructor
  · rintro ⟨hid, a, rules, ps, p, he, hca, hps, hp, hst⟩
    refine ⟨hid, a, rules, ?_, ?_⟩
    · rw [he]; exact splitOnce_single_of colon a rules hca
    · rw [(pieces_iff_splitOn rules ps).1 hps]
      exact List.mem_map.2 ⟨p, hp, trim_of_stripped p id hst⟩
  · rintro ⟨hid, a, rules, hso, hm⟩
    obtain ⟨he, hca⟩ := splitOnce_single_some colon tail a rules hso
    obtain ⟨p, hp, hpt⟩ := List.mem_map.1 hm
    exact ⟨hid, a, rules, splitOn comma rules, p, he, hca, (pieces_iff_splitOn _ _).2 rfl, hp,
      hpt ▸ stripped_trim p⟩

theorem mem_of_mem_trim (s : Bytes) (b : UInt8) (h : b ∈ trim s) : b ∈ s := by
  obtain ⟨l, r, he, _⟩ := stripped_trim s
  rw [he]; simp [h]

theorem mem_trim_of_mem (s : Bytes) (b : UInt8) (hb : isWsByte b = false) (h : b ∈ s) : b ∈ trim s := by
  obtain ⟨l, r, he, hl, hr, _⟩ := stripped_trim s
  rw [he] at h
  simp only [List.mem_append] at h
  rcases h with (h | h) | h
  · exact absurd h (blank_not_mem l hl b hb)
  · exact h
  · exact absurd h (blank_not_mem r hr b hb)

/-- **The id list.**  For a comment text whose first `ast-grep-ignore` is followed by `tail`:
without a colon in `tail` the code suppresses every rule (`None`) — also when other text follows
the marker; with a colon it returns a set whose non-empty members are exactly the ids the
directive lists (comma-separated after the first colon, surrounding white space removed). -/
theorem parse_spec (text tail : Bytes) (h : DirectiveTail text tail) :
    (colon ∉ tail → parseSuppressionSet text = none) ∧
    (colon ∈ tail → ∃ set, parseSuppressionSet text = some set ∧
      ∀ id, id ≠ [] → (id ∈ set ↔ Lists tail id)) := by
  rw [parse_eq text tail h]
  constructor
  · intro hc
    have hc' : colon ∉ trim tail := fun hm => hc (mem_of_mem_trim _ _ hm)
    simp only [parseTail]
    split
    · rfl
    · rw [COLON_eq, (splitOnce_single_none colon _).2 hc']
  · intro hc
    have hc' : colon ∈ trim tail := mem_trim_of_mem _ _ colon_not_ws hc
    obtain ⟨l, r, he, hl, hr, _⟩ := stripped_trim tail
    have hne : (trim tail).isEmpty = false := by
      cases hh : trim tail with
      | nil => rw [hh] at hc'; simp at hc'
      | cons _ _ => rfl
    cases hso : splitOnce [colon] (trim tail) with
    | none => exact absurd hc' ((splitOnce_single_none colon _).1 hso)
    | some p =>
      obtain ⟨a0, rules0⟩ := p
      refine ⟨(splitOn comma rules0).map trim, ?_, ?_⟩
      · simp only [parseTail, hne, COLON_eq, hso, COMMA_eq]; rfl
      · intro id hid
        -- the first colon of `tail` is the first colon of `trim tail`
        have hso2 : splitOnce [colon] tail = some (l ++ a0, rules0 ++ r) := by
          conv => lhs; rw [he, List.append_assoc]
          rw [splitOnce_skip colon [] l _ (blank_not_mem l hl colon colon_not_ws),
            splitOnce_append _ _ r _ _ hso]
          simp
        rw [lists_iff]
        constructor
        · intro hm
          refine ⟨hid, l ++ a0, rules0 ++ r, hso2, ?_⟩
          rw [splitOn_append comma rules0 r (blank_not_mem r hr comma comma_not_ws),
            mem_map_trim_appLast r hr]
          exact hm
        · rintro ⟨_, a, rules, hso3, hm⟩
          rw [hso2] at hso3
          simp only [Option.some.injEq, Prod.mk.injEq] at hso3
          obtain ⟨_, rfl⟩ := hso3
          rw [splitOn_append comma rules0 r (blank_not_mem r hr comma comma_not_ws),
            mem_map_trim_appLast r hr] at hm
          exact hm

/-- decidable sufficient condition for `Spec.ListOK` (used for concrete instances) -/
def listOKb (text : Bytes) : Bool :=
  match parseSuppressionSet text with
  | none => true
  | some set => set.any (fun id => !id.isEmpty)

theorem listOK_of_b (text : Bytes) (h : listOKb text = true) : ListOK text := by
  intro tail ht hc
  obtain ⟨set, hp, hset⟩ := (parse_spec text tail ht).2 hc
  simp only [listOKb, hp, List.any_eq_true, Bool.not_eq_true', List.isEmpty_eq_false_iff] at h
  obtain ⟨id, hm, hne⟩ := h
  exact ⟨id, (hset id hne).1 hm⟩

/-- the code's reading of a directive agrees with the property's for every well-formed id list -/
theorem names_agree (c : CNode) (hs : IsSuppression c) (hl : ListOK c.text) (id : Bytes) (hid : id ≠ []) :
    codeNames c.text id = true ↔ Spec.names c id := by
  obtain ⟨pre, post, he⟩ := hs.2
  -- the first occurrence exists
  have hsome : ∃ p, splitOnce Spec.marker c.text = some p := by
    cases h : splitOnce Spec.marker c.text with
    | none => exact absurd ⟨pre, post, he⟩ (splitOnce_none _ _ h)
    | some p => exact ⟨p, rfl⟩
  obtain ⟨⟨pre0, tail⟩, hso⟩ := hsome
  have ht : DirectiveTail c.text tail :=
    ⟨pre0, splitOnce_some _ _ _ _ hso, fun p' q' h' => splitOnce_first _ _ _ _ hso p' q' h'⟩
  have htu : ∀ tail', DirectiveTail c.text tail' → tail' = tail := by
    rintro tail' ⟨p', h1, h2⟩
    have := splitOnce_of_first _ _ _ _ h1 h2
    rw [hso] at this
    simp only [Option.some.injEq, Prod.mk.injEq] at this
    exact this.2.symm
  obtain ⟨hnc, hc⟩ := parse_spec c.text tail ht
  simp only [codeNames, Spec.names]
  by_cases hcolon : colon ∈ tail
  · obtain ⟨set, hp, hset⟩ := hc hcolon
    obtain ⟨id0, hid0⟩ := hl tail ht hcolon
    rw [hp]
    simp only [List.contains_iff_mem]
    rw [hset id hid]
    constructor
    · intro h; exact ⟨tail, ht, .inr h⟩
    · rintro ⟨tail', ht', h | h⟩
      · rw [htu tail' ht'] at h; exact absurd hid0 (h id0)
      · rw [htu tail' ht'] at h; exact h
  · rw [hnc hcolon]
    simp only [true_iff]
    refine ⟨tail, ht, .inl ?_⟩
    rintro id' ⟨_, a, rules, _, _, he', _⟩
    exact hcolon (by rw [he']; simp)

end AGV.Suppress
