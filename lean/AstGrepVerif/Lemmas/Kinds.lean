/-
`potential_kinds` is an over-approximation of the kinds a rule can match (C01).

  * pattern case: a `matchedBoth` verdict on a pattern whose top node has a non-ERROR kind pins
    the candidate's kind;
  * `kinds_sound`: simultaneous induction on the evaluator's fuel (`matchRule` / `matchCore`);
  * the caches of `All` / `Any`: `mkAll` / `mkAny`, soundness of the computed cache, stability
    under registry extension.
-/
import AstGrepVerif.Model.Scan

set_option linter.unusedSimpArgs false
set_option linter.unusedVariables false

namespace AGV

/-! ## Pattern case -/

theorem kindsMatch_nonError {goal cand : Nat} (h : kindsMatch goal cand = true)
    (hne : (goal == ERROR_KIND) = false) : cand = goal := by
  simp only [kindsMatch, Bool.or_eq_true, beq_iff_eq] at h
  rcases h with h | h
  · exact h.symm
  · simp [h] at hne

/-- `match_terminal` answers `matchedBoth` only when the kinds agree -/
theorem matchTerminal_matched_kinds (s : Strictness) (src : Bytes) (named : Bool) (text : Bytes)
    (kind : Nat) (c : Tree) (h : s.matchTerminal src named text kind c = .matchedBoth) :
    kindsMatch kind c.kind = true := by
  unfold Strictness.matchTerminal at h
  simp only [] at h
  split at h
  · next hc => simp only [Bool.and_eq_true] at hc; exact hc.1
  · cases s <;> cases named <;> cases hn : c.named <;> cases hcm : c.info.comment <;>
      cases hk : kindsMatch kind c.kind <;>
      simp_all [skipPair, skipCommentOrUnnamed]

/-- a pattern whose top node is a token or an inner node of non-ERROR kind matches only
candidates of that kind (any aggregator, any strictness) -/
theorem matchNode_matched_kind {σ : Type} (agg : Agg σ) (s : Strictness) (src : Bytes)
    (fuel : Nat) (p : PNode) (c : Tree) (st st' : σ)
    (h : matchNode agg s src fuel p c st = .ok (.matchedBoth, st'))
    (ks : List Nat) (hk : patternPotentialKinds p none = some ks) : c.kind ∈ ks := by
  cases fuel with
  | zero => simp [matchNode] at h
  | succ fuel =>
    cases p with
    | metaVar mv => simp [patternPotentialKinds] at hk
    | terminal text named kind =>
      simp only [patternPotentialKinds] at hk
      split at hk
      · cases hk
      · next hne =>
        simp only [Option.some.injEq] at hk; subst hk
        simp only [matchNode] at h
        split at h
        · next hm =>
          have := matchTerminal_matched_kinds s src named text kind c hm
          have := kindsMatch_nonError this (by simpa using hne)
          simp [this]
        · next x hx =>
          simp only [Except.ok.injEq, Prod.mk.injEq] at h
          exact absurd h.1 hx
    | internal kind children =>
      simp only [patternPotentialKinds] at hk
      split at hk
      · cases hk
      · next hne =>
        simp only [Option.some.injEq] at hk; subst hk
        simp only [matchNode] at h
        split at h
        · next hm =>
          have := kindsMatch_nonError hm (by simpa using hne)
          simp [this]
        · simp at h

/-- `Pattern::potential_kinds` is sound for `Pattern::match_node_with_env` (root-kind test
included) -/
theorem pattern_kinds_sound (s : Strictness) (src : Bytes) (fuel : Nat) (p : PNode)
    (rootKind : Option Nat) (n : Tree) (env env' : Env)
    (hroot : (match rootKind with | some k => n.kind != k | none => false) = false)
    (h : matchPatternEnv s src fuel p n env = .ok (some env'))
    (ks : List Nat) (hk : patternPotentialKinds p rootKind = some ks) : n.kind ∈ ks := by
  have hm : ∃ e, matchNode (envAgg src) s src fuel p n env = .ok (.matchedBoth, e) := by
    simp only [matchPatternEnv] at h
    split at h
    · cases h
    · next e he => exact ⟨e, he⟩
    · cases h
  obtain ⟨e, hm⟩ := hm
  cases p with
  | metaVar mv =>
    cases rootKind with
    | none => simp [patternPotentialKinds] at hk
    | some k =>
      simp only [patternPotentialKinds, Option.map, Option.some.injEq] at hk
      subst hk
      simp only [bne_eq_false_iff_eq] at hroot
      simp [hroot]
  | terminal text named kind =>
    exact matchNode_matched_kind _ s src fuel _ n env e hm ks (by simpa [patternPotentialKinds] using hk)
  | internal kind children =>
    exact matchNode_matched_kind _ s src fuel _ n env e hm ks (by simpa [patternPotentialKinds] using hk)

/-! ## `kinds_sound`: induction on the evaluator's fuel -/

section
variable (ctx : RCtx)

/-- `potentialKinds` (at any of its own fuels) over-approximates the kinds `matchRule` accepts -/
def RuleKS (fuel : Nat) : Prop :=
  ∀ pf r n env m env' ks, matchRule ctx fuel r n env = .ok (some m, env') →
    potentialKinds ctx.locals ctx.globals pf r = some ks → n.kind ∈ ks

def CoreKS (fuel : Nat) : Prop :=
  ∀ pf core n env m env' ks, matchCore ctx fuel core n env = .ok (some m, env') →
    potentialKinds ctx.locals ctx.globals pf core.rule = some ks → n.kind ∈ ks

theorem kindsGate_mem {kinds : Option (List Nat)} {n : Tree} {ks : List Nat}
    (hg : kindsGate kinds n = true) (hk : kinds = some ks) : n.kind ∈ ks := by
  subst hk
  simpa [kindsGate] using hg

theorem core_ks_step (fuel : Nat) (hR : RuleKS ctx fuel) : CoreKS ctx (fuel + 1) := by
  intro pf core n env m env' ks h hk
  simp only [matchCore] at h
  split at h
  · simp at h
  · split at h
    · cases h
    · simp at h
    · next ret e hm => exact hR pf _ _ _ _ _ _ hm hk

theorem rule_ks_step (fuel : Nat) (hR : RuleKS ctx fuel) (hC : CoreKS ctx fuel) :
    RuleKS ctx (fuel + 1) := by
  intro pf r n env m env' ks h hk
  cases pf with
  | zero => simp [potentialKinds] at hk
  | succ pf =>
    cases r with
    | pattern p rootKind s =>
      simp only [potentialKinds] at hk
      cases rootKind with
      | none =>
        simp only [matchRule] at h
        split at h
        · simp at h
        · split at h
          · cases h
          · next e hm =>
            exact pattern_kinds_sound s ctx.src _ p none n env e rfl hm ks hk
          · simp at h
      | some k =>
        simp only [matchRule] at h
        split at h
        · simp at h
        · next hroot =>
          split at h
          · cases h
          · next e hm =>
            exact pattern_kinds_sound s ctx.src _ p (some k) n env e (by simpa using hroot) hm ks hk
          · simp at h
    | kind k =>
      simp only [potentialKinds, Option.some.injEq] at hk; subst hk
      simp only [matchRule, Except.ok.injEq, Prod.mk.injEq] at h
      have h1 := h.1
      split at h1
      · next hkk => simpa using hkk
      · cases h1
    | regex id => simp [potentialKinds] at hk
    | range a b c d => simp [potentialKinds] at hk
    | inside r stop field => simp [potentialKinds] at hk
    | has r stop field => simp [potentialKinds] at hk
    | precedes r stop => simp [potentialKinds] at hk
    | follows r stop => simp [potentialKinds] at hk
    | not r => simp [potentialKinds] at hk
    | all rs kinds =>
      simp only [potentialKinds] at hk
      simp only [matchRule] at h
      split at h
      · simp at h
      · next hg => exact kindsGate_mem (by simpa using hg) hk
    | any rs kinds =>
      simp only [potentialKinds] at hk
      simp only [matchRule] at h
      split at h
      · simp at h
      · next hg => exact kindsGate_mem (by simpa using hg) hk
    | nthChild stepSize offset ofRule reverse =>
      cases ofRule with
      | none => simp [potentialKinds] at hk
      | some rule =>
        simp only [potentialKinds] at hk
        simp only [matchRule] at h
        split at h
        · simp at h
        · split at h
          · cases h
          · split at h
            · simp at h
            · split at h
              · simp at h
              · split at h
                · cases h
                · next x e hm => exact hR pf _ _ _ _ _ _ hm hk
                · simp at h
    | «matches» id =>
      simp only [potentialKinds] at hk
      simp only [matchRule] at h
      split at h
      · next r hl =>
        simp only [hl] at hk
        exact hR pf _ _ _ _ _ _ h hk
      · next hl =>
        simp only [hl] at hk
        split at h
        · next core hg =>
          simp only [hg] at hk
          exact hC pf _ _ _ _ _ _ h hk
        · simp at h

theorem all_ks (fuel : Nat) : RuleKS ctx fuel ∧ CoreKS ctx fuel := by
  induction fuel with
  | zero =>
    constructor
    · intro pf r n env m env' ks h; simp [matchRule] at h
    · intro pf core n env m env' ks h; simp [matchCore] at h
  | succ fuel ih =>
    exact ⟨rule_ks_step ctx fuel ih.1 ih.2, core_ks_step ctx fuel ih.1⟩

end

/-- `Rule::potential_kinds` is sound for `Rule::match_node_with_env`, for every rule and
registry: the caches of `All`/`Any` are *also gates* of their matchers, so whatever they
contain, a node outside them is rejected. -/
def KindsSound (ctx : RCtx) (r : Rule) : Prop :=
  ∀ fuel n env m env' ks, matchRule ctx fuel r n env = .ok (some m, env') →
    potentialKinds ctx.locals ctx.globals 64 r = some ks → n.kind ∈ ks

theorem kinds_sound_any_fuel (ctx : RCtx) (pf : Nat) (r : Rule) (fuel : Nat) (n : Tree)
    (env : Env) (m : Tree) (env' : Env) (ks : List Nat)
    (h : matchRule ctx fuel r n env = .ok (some m, env'))
    (hk : potentialKinds ctx.locals ctx.globals pf r = some ks) : n.kind ∈ ks :=
  (all_ks ctx fuel).1 pf r n env m env' ks h hk

theorem kinds_sound_all (ctx : RCtx) (r : Rule) : KindsSound ctx r :=
  fun fuel n env m env' ks h hk => kinds_sound_any_fuel ctx 64 r fuel n env m env' ks h hk

theorem core_kinds_sound (ctx : RCtx) (pf : Nat) (core : RuleCore) (fuel : Nat) (n : Tree)
    (env : Env) (m : Tree) (env' : Env) (ks : List Nat)
    (h : matchCore ctx fuel core n env = .ok (some m, env'))
    (hk : potentialKinds ctx.locals ctx.globals pf core.rule = some ks) : n.kind ∈ ks :=
  (all_ks ctx fuel).2 pf core n env m env' ks h hk

/-! ## The caches of `All` / `Any` -/

theorem mem_kindsInter {a b : List Nat} {k : Nat} : k ∈ kindsInter a b ↔ k ∈ a ∧ k ∈ b := by
  simp [kindsInter]

theorem mem_kindsUnion {a b : List Nat} {k : Nat} : k ∈ kindsUnion a b ↔ k ∈ a ∨ k ∈ b := by
  simp only [kindsUnion, List.mem_append, List.mem_filter, Bool.not_eq_true']
  constructor
  · rintro (h | h)
    · exact .inl h
    · exact .inr h.1
  · rintro (h | h)
    · exact .inl h
    · by_cases ha : k ∈ a
      · exact .inl ha
      · exact .inr ⟨h, by simpa using ha⟩

/-- the step functions of the two folds -/
def allStep (acc p : Option (List Nat)) : Option (List Nat) :=
  match p with
  | none => acc
  | some n => match acc with
    | some s => some (kindsInter s n)
    | none => some n

def anyStep (acc p : Option (List Nat)) : Option (List Nat) :=
  match acc, p with
  | some s, some n => some (kindsUnion s n)
  | _, _ => none

theorem allComputeKinds_eq (parts : List (Option (List Nat))) :
    allComputeKinds parts = parts.foldl allStep none := rfl

theorem anyComputeKinds_eq (parts : List (Option (List Nat))) :
    anyComputeKinds parts = parts.foldl anyStep (some []) := rfl

/-- a kind that lies in the accumulator and in every defined part lies in the intersection -/
theorem allFold_mem (k : Nat) (parts : List (Option (List Nat))) :
    ∀ (acc : Option (List Nat)) (ks : List Nat), parts.foldl allStep acc = some ks →
      (∀ s, acc = some s → k ∈ s) → (∀ p ∈ parts, ∀ ksp, p = some ksp → k ∈ ksp) → k ∈ ks := by
  induction parts with
  | nil =>
    intro acc ks h ha _
    exact ha ks h
  | cons p ps ih =>
    intro acc ks h ha hp
    simp only [List.foldl_cons] at h
    refine ih _ ks h ?_ (fun q hq => hp q (List.mem_cons_of_mem _ hq))
    intro s hs
    cases p with
    | none => exact ha s hs
    | some n =>
      have hn : k ∈ n := hp (some n) (List.mem_cons_self) n rfl
      cases acc with
      | none =>
        simp only [allStep, Option.some.injEq] at hs; subst hs; exact hn
      | some s0 =>
        simp only [allStep, Option.some.injEq] at hs; subst hs
        exact mem_kindsInter.2 ⟨ha s0 rfl, hn⟩

theorem allComputeKinds_mem {k : Nat} {parts : List (Option (List Nat))} {ks : List Nat}
    (h : allComputeKinds parts = some ks)
    (hp : ∀ p ∈ parts, ∀ ksp, p = some ksp → k ∈ ksp) : k ∈ ks :=
  allFold_mem k parts none ks h (fun s hs => by cases hs) hp

/-- a defined union: every part is defined and the union contains the accumulator and every part -/
theorem anyFold_spec (parts : List (Option (List Nat))) :
    ∀ (acc : Option (List Nat)) (ks : List Nat), parts.foldl anyStep acc = some ks →
      ∃ s, acc = some s ∧ (∀ k ∈ s, k ∈ ks) ∧
        ∀ p ∈ parts, ∃ ksp, p = some ksp ∧ ∀ k ∈ ksp, k ∈ ks := by
  induction parts with
  | nil =>
    intro acc ks h
    exact ⟨ks, h, fun k hk => hk, by simp⟩
  | cons p ps ih =>
    intro acc ks h
    simp only [List.foldl_cons] at h
    obtain ⟨s1, hs1, hsub, hps⟩ := ih _ ks h
    cases acc with
    | none => simp [anyStep] at hs1
    | some s =>
      cases p with
      | none => simp [anyStep] at hs1
      | some n =>
        simp only [anyStep, Option.some.injEq] at hs1; subst hs1
        refine ⟨s, rfl, fun k hk => hsub k (mem_kindsUnion.2 (.inl hk)), ?_⟩
        intro q hq
        rcases List.mem_cons.1 hq with rfl | hq
        · exact ⟨n, rfl, fun k hk => hsub k (mem_kindsUnion.2 (.inr hk))⟩
        · exact hps q hq

theorem anyComputeKinds_spec {parts : List (Option (List Nat))} {ks : List Nat}
    (h : anyComputeKinds parts = some ks) :
    ∀ p ∈ parts, ∃ ksp, p = some ksp ∧ ∀ k ∈ ksp, k ∈ ks := by
  obtain ⟨_, _, _, hp⟩ := anyFold_spec parts (some []) ks h
  exact hp

/-- `All::new` / `Any::new`: the cache is computed from the parts' `potential_kinds` with the
registries as they are at construction time -/
def mkAll (locals : List (Name × Rule)) (globals : List (Name × RuleCore)) (rs : List Rule) : Rule :=
  .all rs (allComputeKinds (rs.map (potentialKinds locals globals 64)))

def mkAny (locals : List (Name × Rule)) (globals : List (Name × RuleCore)) (rs : List Rule) : Rule :=
  .any rs (anyComputeKinds (rs.map (potentialKinds locals globals 64)))

/-- the cache of an `All` never rejects a node the conjunction itself accepts -/
def AllCacheSound (ctx : RCtx) (rs : List Rule) (kinds : Option (List Nat)) : Prop :=
  ∀ ks, kinds = some ks → ∀ fuel n env env', allLoop ctx fuel rs n env = .ok (true, env') →
    n.kind ∈ ks

/-- the cache of an `Any` never rejects a node the disjunction itself accepts -/
def AnyCacheSound (ctx : RCtx) (rs : List Rule) (kinds : Option (List Nat)) : Prop :=
  ∀ ks, kinds = some ks → ∀ fuel n env env', anyLoop ctx fuel rs n env = .ok (some env') →
    n.kind ∈ ks

/-- a successful conjunction: every part matched the node (in some environment) -/
theorem allLoop_true (ctx : RCtx) (n : Tree) (rs : List Rule) :
    ∀ fuel env env', allLoop ctx fuel rs n env = .ok (true, env') →
      ∀ r ∈ rs, ∃ f e m e', matchRule ctx f r n e = .ok (some m, e') := by
  induction rs with
  | nil => intro fuel env env' _ r hr; cases hr
  | cons r0 rs ih =>
    intro fuel env env' h r hr
    cases fuel with
    | zero => simp [allLoop] at h
    | succ fuel =>
      simp only [allLoop] at h
      split at h
      · cases h
      · next m e1 hm =>
        rcases List.mem_cons.1 hr with rfl | hr
        · exact ⟨fuel, env, m, e1, hm⟩
        · exact ih fuel e1 env' h r hr
      · simp at h

/-- a successful disjunction: some part matched the node -/
theorem anyLoop_some (ctx : RCtx) (n : Tree) (rs : List Rule) :
    ∀ fuel env env', anyLoop ctx fuel rs n env = .ok (some env') →
      ∃ r ∈ rs, ∃ f m, matchRule ctx f r n env = .ok (some m, env') := by
  induction rs with
  | nil =>
    intro fuel env env' h
    cases fuel <;> simp [anyLoop] at h
  | cons r0 rs ih =>
    intro fuel env env' h
    cases fuel with
    | zero => simp [anyLoop] at h
    | succ fuel =>
      simp only [anyLoop] at h
      split at h
      · cases h
      · next m e1 hm =>
        simp only [Except.ok.injEq, Option.some.injEq] at h; subst h
        exact ⟨r0, List.mem_cons_self, fuel, m, hm⟩
      · obtain ⟨r, hr, x⟩ := ih fuel env env' h
        exact ⟨r, List.mem_cons_of_mem _ hr, x⟩

/-! ### registries that grow after a cache was computed -/

/-- `(l0, g0)` — the registries when a cache was computed — are contained in `(l, g)` — the
registries at match time — with the same resolution of every id already registered -/
structure RegExt (l0 : List (Name × Rule)) (g0 : List (Name × RuleCore))
    (l : List (Name × Rule)) (g : List (Name × RuleCore)) : Prop where
  locals : ∀ id r, alookup id l0 = some r → alookup id l = some r
  globals : ∀ id c, alookup id g0 = some c → alookup id g = some c

theorem RegExt.refl (l : List (Name × Rule)) (g : List (Name × RuleCore)) : RegExt l g l g :=
  ⟨fun _ _ h => h, fun _ _ h => h⟩

/-- no id is both a local and a global utility -/
def NoShadow (l : List (Name × Rule)) (g : List (Name × RuleCore)) : Prop :=
  ∀ id, alookup id l ≠ none → alookup id g = none

/-- a *defined* `potential_kinds` does not change when the registries grow without shadowing -/
theorem potentialKinds_stable {l0 : List (Name × Rule)} {g0 : List (Name × RuleCore)}
    {l : List (Name × Rule)} {g : List (Name × RuleCore)} (hext : RegExt l0 g0 l g)
    (hns : NoShadow l g) :
    ∀ (pf : Nat) (r : Rule) (ks : List Nat), potentialKinds l0 g0 pf r = some ks →
      potentialKinds l g pf r = some ks := by
  intro pf
  induction pf with
  | zero => intro r ks h; simp [potentialKinds] at h
  | succ pf ih =>
    intro r ks h
    cases r with
    | pattern p rootKind s => simpa [potentialKinds] using h
    | kind k => simpa [potentialKinds] using h
    | regex id => simp [potentialKinds] at h
    | range a b c d => simp [potentialKinds] at h
    | inside r stop field => simp [potentialKinds] at h
    | has r stop field => simp [potentialKinds] at h
    | precedes r stop => simp [potentialKinds] at h
    | follows r stop => simp [potentialKinds] at h
    | not r => simp [potentialKinds] at h
    | all rs kinds => simpa [potentialKinds] using h
    | any rs kinds => simpa [potentialKinds] using h
    | nthChild a b ofRule rev =>
      cases ofRule with
      | none => simp [potentialKinds] at h
      | some rule =>
        simp only [potentialKinds] at h ⊢
        exact ih rule ks h
    | «matches» id =>
      simp only [potentialKinds] at h ⊢
      split at h
      · next r hl =>
        rw [hext.locals id r hl]
        exact ih r ks h
      · next hl =>
        split at h
        · next core hg =>
          have hg' := hext.globals id core hg
          have : alookup id l = none := by
            cases hl' : alookup id l with
            | none => rfl
            | some x =>
              have := hns id (by rw [hl']; simp)
              rw [hg'] at this; cases this
          rw [this]
          simp only [hg']
          exact ih core.rule ks h
        · cases h

/-- **the cache computed by `All::new` is sound**, also when it was computed with smaller
registries than those the rule is matched with -/
theorem mkAll_cacheOK_ext (ctx : RCtx) {l0 : List (Name × Rule)} {g0 : List (Name × RuleCore)}
    (hext : RegExt l0 g0 ctx.locals ctx.globals) (hns : NoShadow ctx.locals ctx.globals)
    (rs : List Rule) :
    AllCacheSound ctx rs (allComputeKinds (rs.map (potentialKinds l0 g0 64))) := by
  intro ks hk fuel n env env' h
  refine allComputeKinds_mem hk ?_
  intro p hp ksp hpk
  obtain ⟨r, hr, rfl⟩ := List.mem_map.1 hp
  obtain ⟨f, e, m, e', hm⟩ := allLoop_true ctx n rs fuel env env' h r hr
  exact kinds_sound_all ctx r f n e m e' ksp hm (potentialKinds_stable hext hns 64 r ksp hpk)

theorem mkAny_cacheOK_ext (ctx : RCtx) {l0 : List (Name × Rule)} {g0 : List (Name × RuleCore)}
    (hext : RegExt l0 g0 ctx.locals ctx.globals) (hns : NoShadow ctx.locals ctx.globals)
    (rs : List Rule) :
    AnyCacheSound ctx rs (anyComputeKinds (rs.map (potentialKinds l0 g0 64))) := by
  intro ks hk fuel n env env' h
  obtain ⟨r, hr, f, m, hm⟩ := anyLoop_some ctx n rs fuel env env' h
  obtain ⟨ksp, hksp, hsub⟩ := anyComputeKinds_spec hk _ (List.mem_map.2 ⟨r, hr, rfl⟩)
  exact hsub _ (kinds_sound_all ctx r f n env m env' ksp hm
    (potentialKinds_stable hext hns 64 r ksp hksp))

/-- same registries at construction and at match time: no hypothesis at all -/
theorem mkAll_cacheOK (ctx : RCtx) (rs : List Rule) :
    AllCacheSound ctx rs (allComputeKinds (rs.map (potentialKinds ctx.locals ctx.globals 64))) := by
  intro ks hk fuel n env env' h
  refine allComputeKinds_mem hk ?_
  intro p hp ksp hpk
  obtain ⟨r, hr, rfl⟩ := List.mem_map.1 hp
  obtain ⟨f, e, m, e', hm⟩ := allLoop_true ctx n rs fuel env env' h r hr
  exact kinds_sound_all ctx r f n e m e' ksp hm hpk

theorem mkAny_cacheOK (ctx : RCtx) (rs : List Rule) :
    AnyCacheSound ctx rs (anyComputeKinds (rs.map (potentialKinds ctx.locals ctx.globals 64))) := by
  intro ks hk fuel n env env' h
  obtain ⟨r, hr, f, m, hm⟩ := anyLoop_some ctx n rs fuel env env' h
  obtain ⟨ksp, hksp, hsub⟩ := anyComputeKinds_spec hk _ (List.mem_map.2 ⟨r, hr, rfl⟩)
  exact hsub _ (kinds_sound_all ctx r f n env m env' ksp hm hksp)

/-! ### monotonicity of the two `compute_kinds` -/

/-- `a` is `b` or undefined ("the utility was not registered yet") -/
def PartLe (a b : Option (List Nat)) : Prop := ∀ ks, a = some ks → b = some ks

/-- pointwise `PartLe` -/
inductive PartsLe : List (Option (List Nat)) → List (Option (List Nat)) → Prop
  | nil : PartsLe [] []
  | cons {a b : Option (List Nat)} {as bs : List (Option (List Nat))} :
      PartLe a b → PartsLe as bs → PartsLe (a :: as) (b :: bs)

theorem allFold_mono {parts0 parts : List (Option (List Nat))}
    (hp : PartsLe parts0 parts) :
    ∀ (acc0 acc : Option (List Nat)),
      (∀ s0, acc0 = some s0 → ∃ s, acc = some s ∧ ∀ k ∈ s, k ∈ s0) →
      ∀ ks0, parts0.foldl allStep acc0 = some ks0 →
        ∃ ks, parts.foldl allStep acc = some ks ∧ ∀ k ∈ ks, k ∈ ks0 := by
  induction hp with
  | nil => intro acc0 acc ha ks0 h; exact ha ks0 h
  | @cons a b as bs hab _ ih =>
    intro acc0 acc ha ks0 h
    simp only [List.foldl_cons] at h ⊢
    refine ih _ _ ?_ ks0 h
    intro s0 hs0
    cases a with
    | none =>
      simp only [allStep] at hs0
      obtain ⟨s, hs, hsub⟩ := ha s0 hs0
      cases b with
      | none => exact ⟨s, by simpa [allStep] using hs, hsub⟩
      | some n =>
        subst hs
        exact ⟨kindsInter s n, rfl, fun k hk => hsub k (mem_kindsInter.1 hk).1⟩
    | some n =>
      have hb : b = some n := hab n rfl
      subst hb
      cases acc0 with
      | none =>
        simp only [allStep, Option.some.injEq] at hs0; subst hs0
        cases acc with
        | none => exact ⟨n, rfl, fun k hk => hk⟩
        | some s => exact ⟨kindsInter s n, rfl, fun k hk => (mem_kindsInter.1 hk).2⟩
      | some t0 =>
        simp only [allStep, Option.some.injEq] at hs0; subst hs0
        obtain ⟨s, hs, hsub⟩ := ha t0 rfl
        subst hs
        refine ⟨kindsInter s n, rfl, fun k hk => ?_⟩
        have := mem_kindsInter.1 hk
        exact mem_kindsInter.2 ⟨hsub k this.1, this.2⟩

/-- fewer known parts ⇒ fewer intersections ⇒ a superset (when defined at all) -/
theorem allComputeKinds_mono {parts0 parts : List (Option (List Nat))}
    (hp : PartsLe parts0 parts) (ks0 : List Nat)
    (h : allComputeKinds parts0 = some ks0) :
    ∃ ks, allComputeKinds parts = some ks ∧ ∀ k ∈ ks, k ∈ ks0 :=
  allFold_mono hp none none (fun s0 hs0 => by cases hs0) ks0 h

/-- an `Any` cache is defined only when every part is: then nothing changes -/
theorem anyComputeKinds_mono {parts0 parts : List (Option (List Nat))}
    (hp : PartsLe parts0 parts) (ks0 : List Nat)
    (h : anyComputeKinds parts0 = some ks0) : anyComputeKinds parts = some ks0 := by
  have hall := anyComputeKinds_spec h
  have : parts = parts0 := by
    clear h
    induction hp with
    | nil => rfl
    | @cons a b as bs hab _ ih =>
      obtain ⟨ksp, hksp, _⟩ := hall a List.mem_cons_self
      rw [hab ksp hksp, hksp, ih (fun p hp => hall p (List.mem_cons_of_mem _ hp))]
  rw [this]; exact h

theorem parts_le {l0 : List (Name × Rule)} {g0 : List (Name × RuleCore)}
    {l : List (Name × Rule)} {g : List (Name × RuleCore)} (hext : RegExt l0 g0 l g)
    (hns : NoShadow l g) (rs : List Rule) :
    PartsLe (rs.map (potentialKinds l0 g0 64)) (rs.map (potentialKinds l g 64)) := by
  induction rs with
  | nil => exact .nil
  | cons r rs ih => exact .cons (fun ks h => potentialKinds_stable hext hns 64 r ks h) ih

/-- **`cache_monotone`**: a cache computed before some utilities were registered is a superset
of the cache the same constructor would compute afterwards -/
theorem cache_monotone_all {l0 : List (Name × Rule)} {g0 : List (Name × RuleCore)}
    {l : List (Name × Rule)} {g : List (Name × RuleCore)} (hext : RegExt l0 g0 l g)
    (hns : NoShadow l g) (rs : List Rule) (ks0 : List Nat)
    (h : potentialKinds l0 g0 64 (mkAll l0 g0 rs) = some ks0) :
    ∃ ks, potentialKinds l g 64 (mkAll l g rs) = some ks ∧ ∀ k ∈ ks, k ∈ ks0 := by
  exact allComputeKinds_mono (parts_le hext hns rs) ks0 h

theorem cache_monotone_any {l0 : List (Name × Rule)} {g0 : List (Name × RuleCore)}
    {l : List (Name × Rule)} {g : List (Name × RuleCore)} (hext : RegExt l0 g0 l g)
    (hns : NoShadow l g) (rs : List Rule) (ks0 : List Nat)
    (h : potentialKinds l0 g0 64 (mkAny l0 g0 rs) = some ks0) :
    potentialKinds l g 64 (mkAny l g rs) = some ks0 := by
  exact anyComputeKinds_mono (parts_le hext hns rs) ks0 h

end AGV
