/-
The level-order machine (a FIFO queue) against the layer-by-layer specification.
-/
import AstGrepVerif.Lemmas.Nav

namespace AGV
open Tree

def kids (xs : List Tree) : List Tree := xs.flatMap Tree.children

theorem sizeList_kids (xs : List Tree) : sizeList (kids xs) + xs.length = sizeList xs := by
  induction xs with
  | nil => simp [kids, sizeList]
  | cons x xs ih =>
    have : kids (x :: xs) = x.children ++ kids xs := by simp [kids]
    rw [this, Tree.sizeList_append]
    simp only [sizeList, List.length_cons, x.size_eq]
    omega

/-- the queue processes a prefix `xs` first: it emits `xs` and appends their children -/
theorem Level.collect_prefix :
    ∀ (xs ys : List Tree) (fuel : Nat) (rest : List Tree),
      Level.collect (fuel - xs.length) ⟨ys ++ kids xs⟩ = .ok rest → xs.length ≤ fuel →
      Level.collect fuel ⟨xs ++ ys⟩ = .ok (xs ++ rest)
  | [], ys, fuel, rest, h, _ => by simpa [kids] using h
  | x :: xs, ys, fuel, rest, h, hf => by
    obtain ⟨fuel, rfl⟩ : ∃ k, fuel = k + 1 := ⟨fuel - 1, by simp at hf; omega⟩
    have hk : kids (x :: xs) = x.children ++ kids xs := by simp [kids]
    have ih := Level.collect_prefix xs (ys ++ x.children) fuel rest
      (by simpa [hk, List.append_assoc] using h) (by simp at hf; omega)
    simp only [List.cons_append, Level.collect, Level.next, childrenViaCursor_eq]
    rw [List.append_assoc, ih]

theorem heightList_append (a b : List Tree) : heightList (a ++ b) = max (heightList a) (heightList b) := by
  induction a with
  | nil => simp [heightList]
  | cons x xs ih => simp only [List.cons_append, heightList, ih]; omega

theorem Tree.height_eq (t : Tree) : t.height = 1 + heightList t.children := by
  cases t; simp [Tree.height, Tree.children]

theorem heightList_kids (xs : List Tree) : heightList (kids xs) = heightList xs - 1 := by
  induction xs with
  | nil => simp [kids, heightList]
  | cons x xs ih =>
    have : kids (x :: xs) = x.children ++ kids xs := by simp [kids]
    rw [this, heightList_append, ih]
    simp only [heightList, x.height_eq]
    omega

theorem heightList_pos {xs : List Tree} (h : xs ≠ []) : 0 < heightList xs := by
  cases xs with
  | nil => exact absurd rfl h
  | cons x xs => simp only [heightList, x.height_eq]; omega

/-- layers of a forest: `k` layers starting with the forest itself -/
def layersList : Nat → List Tree → List Tree
  | 0, _ => []
  | k + 1, xs => xs ++ layersList k (kids xs)

theorem Level.collect_layers :
    ∀ (k : Nat) (xs : List Tree) (fuel : Nat), heightList xs = k → sizeList xs < fuel →
      Level.collect fuel ⟨xs⟩ = .ok (layersList k xs)
  | 0, xs, fuel, hk, hf => by
    have : xs = [] := by
      cases xs with
      | nil => rfl
      | cons x xs => have := heightList_pos (xs := x :: xs) (by simp); omega
    subst this
    obtain ⟨fuel, rfl⟩ : ∃ j, fuel = j + 1 := ⟨fuel - 1, by omega⟩
    simp [Level.collect, Level.next, layersList]
  | k + 1, xs, fuel, hk, hf => by
    have hs := sizeList_kids xs
    have ih := Level.collect_layers k (kids xs) (fuel - xs.length) (by rw [heightList_kids]; omega) (by omega)
    have := Level.collect_prefix xs [] fuel (layersList k (kids xs)) (by simpa using ih) (by omega)
    simpa [layersList] using this

theorem atDepthList_append (d : Nat) (a b : List Tree) :
    atDepthList d (a ++ b) = atDepthList d a ++ atDepthList d b := by
  induction a with
  | nil => simp [atDepthList]
  | cons x xs ih => simp [atDepthList, ih]

theorem atDepthList_zero (xs : List Tree) : atDepthList 0 xs = xs := by
  induction xs with
  | nil => rfl
  | cons x xs ih => simp [atDepthList, atDepth, ih]

theorem atDepthList_succ (d : Nat) (xs : List Tree) : atDepthList (d + 1) xs = atDepthList d (kids xs) := by
  induction xs with
  | nil => simp [atDepthList, kids]
  | cons x xs ih =>
    have : kids (x :: xs) = x.children ++ kids xs := by simp [kids]
    rw [this, atDepthList_append, ← ih]
    cases x with
    | node i cs => simp [atDepthList, atDepth, Tree.children]

/-- the layers as the specification writes them -/
def layersFromList (xs : List Tree) : (k : Nat) → (d : Nat) → List Tree
  | 0, _ => []
  | k + 1, d => atDepthList d xs ++ layersFromList xs k (d + 1)

theorem layersFromList_kids (xs : List Tree) :
    ∀ (k d : Nat), layersFromList xs k (d + 1) = layersFromList (kids xs) k d
  | 0, d => rfl
  | k + 1, d => by simp [layersFromList, atDepthList_succ, layersFromList_kids xs k (d + 1)]

theorem layersList_eq : ∀ (k : Nat) (xs : List Tree), layersList k xs = layersFromList xs k 0
  | 0, xs => rfl
  | k + 1, xs => by
    simp [layersList, layersFromList, atDepthList_zero, layersFromList_kids, layersList_eq k (kids xs)]

theorem layersFrom_eq (t : Tree) : ∀ (k d : Nat), layersFrom t k d = layersFromList [t] k d
  | 0, d => rfl
  | k + 1, d => by simp [layersFrom, layersFromList, atDepthList, layersFrom_eq t k (d + 1)]

end AGV
