/-
The real UTF-8 encoder (Lean core's `String.utf8EncodeChar`, the specification of the encoding
that Rust's `String` uses) has the shape the C16 theorems assume (`Utf8Like`).
-/
import AstGrepVerif.Lemmas.Bytes

set_option linter.unusedSimpArgs false
set_option linter.unusedVariables false

namespace AGV

theorem cont_tail : ∀ x, x < 64 → isCont (UInt8.ofNat (x + 0x80)) = true := by decide
theorem lead1 : ∀ v, v < 128 → isCont (UInt8.ofNat v) = false := by decide
theorem lead2 : ∀ x, x < 32 → isCont (UInt8.ofNat (x + 0xc0)) = false := by decide
theorem lead3 : ∀ x, x < 16 → isCont (UInt8.ofNat (x + 0xe0)) = false := by decide
theorem lead4 : ∀ x, x < 8 → isCont (UInt8.ofNat (x + 0xf0)) = false := by decide
theorem nl1 : ∀ v, v < 128 → UInt8.ofNat v = NL → v = 10 := by decide
theorem nl_tail : ∀ x, x < 64 → UInt8.ofNat (x + 0x80) ≠ NL := by decide
theorem nl2 : ∀ x, x < 32 → UInt8.ofNat (x + 0xc0) ≠ NL := by decide
theorem nl3 : ∀ x, x < 16 → UInt8.ofNat (x + 0xe0) ≠ NL := by decide
theorem nl4 : ∀ x, x < 8 → UInt8.ofNat (x + 0xf0) ≠ NL := by decide

theorem char_eq_nl_of_val (c : Char) (h : c.val.toNat = 10) : c = '\n' := by
  apply Char.ext
  apply UInt32.toNat_inj.mp
  rw [h]; rfl

theorem utf8EncodeChar_utf8Like : Utf8Like String.utf8EncodeChar := by
  refine ⟨fun c => ?_, by decide, fun c hc => ?_⟩
  · simp only [String.utf8EncodeChar]
    split
    · next h => exact ⟨_, [], rfl, lead1 _ (by omega), by simp⟩
    · split
      · exact ⟨_, _, rfl, lead2 _ (Nat.mod_lt _ (by omega)), by
          intro b hb; simp only [List.mem_cons, List.not_mem_nil, or_false] at hb; subst hb; exact cont_tail _ (Nat.mod_lt _ (by omega))⟩
      · split
        · exact ⟨_, _, rfl, lead3 _ (Nat.mod_lt _ (by omega)), by
            intro b hb; simp only [List.mem_cons, List.not_mem_nil, or_false] at hb
            rcases hb with hb | hb <;> subst hb <;> exact cont_tail _ (Nat.mod_lt _ (by omega))⟩
        · exact ⟨_, _, rfl, lead4 _ (Nat.mod_lt _ (by omega)), by
            intro b hb; simp only [List.mem_cons, List.not_mem_nil, or_false] at hb
            rcases hb with hb | hb | hb <;> subst hb <;> exact cont_tail _ (Nat.mod_lt _ (by omega))⟩
  · intro hmem
    simp only [String.utf8EncodeChar] at hmem
    split at hmem
    · next h =>
      simp only [List.mem_cons, List.not_mem_nil, or_false] at hmem
      exact hc (char_eq_nl_of_val c (nl1 _ (by omega) hmem.symm))
    · split at hmem
      · simp only [List.mem_cons, List.not_mem_nil, or_false] at hmem
        rcases hmem with h | h
        · exact nl2 _ (Nat.mod_lt _ (by omega)) h.symm
        · exact nl_tail _ (Nat.mod_lt _ (by omega)) h.symm
      · split at hmem
        · simp only [List.mem_cons, List.not_mem_nil, or_false] at hmem
          rcases hmem with h | h | h
          · exact nl3 _ (Nat.mod_lt _ (by omega)) h.symm
          · exact nl_tail _ (Nat.mod_lt _ (by omega)) h.symm
          · exact nl_tail _ (Nat.mod_lt _ (by omega)) h.symm
        · simp only [List.mem_cons, List.not_mem_nil, or_false] at hmem
          rcases hmem with h | h | h | h
          · exact nl4 _ (Nat.mod_lt _ (by omega)) h.symm
          · exact nl_tail _ (Nat.mod_lt _ (by omega)) h.symm
          · exact nl_tail _ (Nat.mod_lt _ (by omega)) h.symm
          · exact nl_tail _ (Nat.mod_lt _ (by omega)) h.symm

end AGV
