/-
The repaired post-order machine (`Post.visitFixed`, `Post.calibrateFixed` of `Model/Traversal.lean`)
with `reentrant = false` against the fold `foldNRFixed` of `Spec/PostVisit.lean`: the same
simulation as `Lemmas/PostVisit.lean`, with the calibration after a match going through the same
`current_depth >= match_depth` test and ancestor loop as the calibration after a non-match.
-/
import AstGrepVerif.Lemmas.PostInnermost

namespace AGV
open Tree

theorem foldNRFixed_skip (dbg : Bool) (f : Tree → Bool) (t : Tree) (path : List Frame) (md0 : Nat) :
    foldNRFixed dbg f (curItems t path) md0 true
      = foldNRFixed dbg f (restItems t path) path.length (lastOf path) := by
  simp [curItems, foldNRFixed]

theorem foldNRFixed_nil (dbg : Bool) (f : Tree → Bool) (md : Nat) (b : Bool) :
    foldNRFixed dbg f [] md b = .ok [] := by
  simp [foldNRFixed]

theorem foldNRFixed_unmatched (dbg : Bool) (f : Tree → Bool) (it : PItem) (rest : List PItem) (md : Nat)
    (h : f it.node = false) :
    foldNRFixed dbg f (it :: rest) md false = foldNRFixed dbg f rest md (nextFlag rest md) := by
  simp only [foldNRFixed, h, Bool.false_eq_true, ↓reduceIte]
  rfl

theorem foldNRFixed_matched_ok (dbg : Bool) (f : Tree → Bool) (it : PItem) (rest : List PItem) (md : Nat)
    (h : f it.node = true) (hd : (dbg && decide (it.depth < md)) = false) :
    foldNRFixed dbg f (it :: rest) md false
      = consAll [it.node] (foldNRFixed dbg f rest it.depth (nextFlag rest it.depth)) := by
  simp only [foldNRFixed, h, ↓reduceIte, hd, Bool.false_eq_true, consAll_cons]
  rfl

theorem foldNRFixed_matched (dbg : Bool) (f : Tree → Bool) (it : PItem) (rest : List PItem) (md : Nat)
    (h : f it.node = true) (hd : md ≤ it.depth) :
    foldNRFixed dbg f (it :: rest) md false
      = consAll [it.node] (foldNRFixed dbg f rest it.depth (nextFlag rest it.depth)) := by
  apply foldNRFixed_matched_ok dbg f it rest md h
  simp only [Bool.and_eq_false_imp, decide_eq_false_iff_not]; intro _; omega

theorem foldNRFixed_matched_err (f : Tree → Bool) (it : PItem) (rest : List PItem) (md : Nat)
    (dbg : Bool) (h : f it.node = true) (hd : (dbg && decide (it.depth < md)) = true) :
    foldNRFixed dbg f (it :: rest) md false = .error .debugAssert := by
  simp only [foldNRFixed, h, ↓reduceIte, hd]

theorem foldNRFixed_skipping (dbg : Bool) (f : Tree → Bool) (it : PItem) (rest : List PItem) (md : Nat) :
    foldNRFixed dbg f (it :: rest) md true = foldNRFixed dbg f rest it.depth it.last := by
  simp [foldNRFixed]

theorem Post.afterNext_eta (F : Nat) (s : Nat) (t : Tree) (d md : Nat) (path : List Frame) :
    { Post.afterNext F s t d md path with matchDepth := md } = Post.afterNext F s t d md path := by
  match path with
  | [] => rfl
  | ⟨i, l, r :: rs⟩ :: p => rfl
  | ⟨i, l, []⟩ :: p => rfl

/-- the `while` loop of `calibrate_for_match(None)`: it skips the focus and, as long as there is
no next sibling, the ancestors — the fold in `skipping` mode -/
theorem Post.calibLoop_foldFixed (n : Tree) (hu : n.UniqueIds) (F : Nat) (hF : n.size ≤ F)
    (dbg : Bool) (f : Tree → Bool) :
    ∀ (path : List Frame) (t : Tree) (md fuel : Nat),
      Post.Inv n ⟨⟨t, path⟩, some n.id, path.length, md⟩ → path.length < fuel →
      ∃ q, Post.calibLoop F fuel ⟨⟨t, path⟩, some n.id, path.length, md⟩ n.id = .ok q ∧ q.Inv n ∧
        q.remaining.length ≤ (restPost t path).length ∧
        ∀ md0, foldNRFixed dbg f (curItems t path) md0 true = foldNRFixed dbg f q.items q.matchDepth false
  | [], t, md, fuel, hinv, hf => by
    obtain ⟨fuel, rfl⟩ : ∃ k, fuel = k + 1 := ⟨fuel - 1, by simp at hf; omega⟩
    have hroot : plugAll t [] = n := hinv.2.1
    have hid : t.id = n.id := by simp [plugAll] at hroot; rw [hroot]
    refine ⟨⟨⟨t, []⟩, none, 0, md⟩, ?_, by simp [Post.Inv], by simp [Post.remaining], ?_⟩
    · simp [Post.calibLoop, Cursor.node, hid]
    · intro md0; simp [curItems, restItems, foldNRFixed, Post.items]
  | ⟨i, l, r :: rs⟩ :: p, t, md, fuel, hinv, hf => by
    obtain ⟨fuel, rfl⟩ : ∃ k, fuel = k + 1 := ⟨fuel - 1, by simp at hf; omega⟩
    have hroot : plugAll t (⟨i, l, r :: rs⟩ :: p) = n := hinv.2.1
    have hne : t.id ≠ n.id := (idsOk_of_unique hu _ t hroot).1
    have hrsz : r.size ≤ F :=
      Nat.le_trans (Post.right_size_le hroot r (by simp [headRight])) hF
    have hlen := leftmost_len F r (⟨i, t :: l, rs⟩ :: p)
    simp only [List.length_cons] at hlen
    refine ⟨⟨leftmost F r (⟨i, t :: l, rs⟩ :: p), some n.id,
        (leftmost F r (⟨i, t :: l, rs⟩ :: p)).path.length, p.length + 1⟩, ?_, ?_, ?_, ?_⟩
    · simp only [Post.calibLoop, Cursor.node, bne_iff_ne, ne_eq, hne, not_false_eq_true, ↓reduceIte,
        Cursor.gotoNextSibling, List.length_cons, traceDown_eq (some n.id) (p.length + 1) F r _ _ hrsz]
      congr 2
      omega
    · simp only [Post.Inv, leftmost_root, true_and, and_true]
      simp only [plugAll] at hroot ⊢
      rw [plug_next]; exact hroot
    · have := leftmost_remaining F r (⟨i, t :: l, rs⟩ :: p) hrsz
      simp only [Post.remaining, this, restPost, postorderList, plug_next]
      simp
    · intro md0
      have := leftmost_items F r (⟨i, t :: l, rs⟩ :: p) hrsz
      rw [foldNRFixed_skip]
      simp only [Post.items, this]
      simp [restItems, postItemsList, plug_next, lastOf]
  | ⟨i, l, []⟩ :: p, t, md, fuel, hinv, hf => by
    obtain ⟨fuel, rfl⟩ : ∃ k, fuel = k + 1 := ⟨fuel - 1, by simp at hf; omega⟩
    have hroot : plugAll t (⟨i, l, []⟩ :: p) = n := hinv.2.1
    have hne : t.id ≠ n.id := (idsOk_of_unique hu _ t hroot).1
    have hinv' : Post.Inv n ⟨⟨Frame.plug ⟨i, l, []⟩ t, p⟩, some n.id, p.length, p.length + 1⟩ := by
      simp only [Post.Inv, Cursor.root, true_and, and_true]
      simpa [plugAll] using hroot
    obtain ⟨q, hq, hqi, hql, hqf⟩ := Post.calibLoop_foldFixed n hu F hF dbg f p (Frame.plug ⟨i, l, []⟩ t)
      (p.length + 1) fuel hinv' (by simp at hf; omega)
    refine ⟨q, ?_, hqi, ?_, ?_⟩
    · simp only [Post.calibLoop, Cursor.node, bne_iff_ne, ne_eq, hne, not_false_eq_true, ↓reduceIte,
        Cursor.gotoNextSibling, Post.stepUp, List.length_cons, Nat.add_one_ne_zero, Cursor.gotoParent,
        Nat.add_sub_cancel]
      simpa [Frame.plug] using hq
    · simp only [restPost, postorderList, List.nil_append, List.length_cons]; omega
    · intro md0
      have h1 := hqf (p.length + 1)
      rw [foldNRFixed_skip]
      simpa [restItems, postItemsList, lastOf, curItems] using h1


/-- `next` followed by the tail of the repaired `calibrate_for_match` with `match_depth = md'`
(`md'` = the old value after a node that fails, the node's depth after a reported match): the
machine ends on the first node of the rest that the fold does not skip. -/
theorem Post.afterNext_calibTail (n : Tree) (hu : n.UniqueIds) (F : Nat) (hF : n.size < F)
    (dbg : Bool) (f : Tree → Bool) (t : Tree) (path : List Frame) (md md' : Nat)
    (hinv : Post.Inv n ⟨⟨t, path⟩, some n.id, path.length, md⟩) :
    ∃ q, Post.calibTail F { Post.afterNext F n.id t path.length md path with matchDepth := md' } = .ok q ∧
      q.Inv n ∧ q.remaining.length ≤ (restPost t path).length ∧
      foldNRFixed dbg f (restItems t path) md' (nextFlag (restItems t path) md')
        = foldNRFixed dbg f q.items q.matchDepth false := by
  have hroot : plugAll t path = n := hinv.2.1
  have hsz : ∀ r ∈ headRight path, r.size ≤ F :=
    fun r hr => Nat.le_trans (Post.right_size_le hroot r hr) (by omega)
  have hrem1 := Post.afterNext_remaining F n.id t path.length md path hsz
  have hitems1 := Post.afterNext_items F n.id t path.length md path hsz
  have hinv1 := Post.afterNext_inv n F t path.length md path hroot rfl
  rcases Post.afterNext_cases F n.id t path.length md path rfl with ⟨hp0, hterm⟩ | ⟨x, px, hrun⟩
  · -- the start node was yielded: the machine is terminated
    subst hp0
    refine ⟨⟨⟨t, []⟩, none, 0, md'⟩, ?_, by simp [Post.Inv], by simp [Post.remaining], ?_⟩
    · simp only [List.length_nil] at hterm
      simp only [List.length_nil, hterm, Post.calibTail]
      split <;> rfl
    · simp [restItems, foldNRFixed_nil, Post.items]
  · -- the machine stands on `x`, the next node of the post-order
    have hinvx : Post.Inv n ⟨⟨x, px⟩, some n.id, px.length, md'⟩ :=
      Post.inv_matchDepth (hrun ▸ hinv1) md'
    have hremx : Post.remaining ⟨⟨x, px⟩, some n.id, px.length, md'⟩ = restPost t path := by
      have := hrem1; rw [hrun] at this; exact this
    have hitemsx : curItems x px = restItems t path := by
      have := hitems1; rw [hrun] at this; exact this
    have hx1 : (restPost x px).length + 1 = (restPost t path).length := by
      have := congrArg List.length hremx
      simpa [Post.remaining] using this
    rw [hrun, ← hitemsx]
    by_cases hskip : px.length < md'
    · -- `current_depth < match_depth`: the skipping loop
      have hpx : px.length < F := by
        have h1 := size_plugAll x px
        have h2 : plugAll x px = n := hinvx.2.1
        have := x.size_pos
        rw [h2] at h1; omega
      obtain ⟨q, hq, hqi, hql, hqf⟩ := Post.calibLoop_foldFixed n hu F (by omega) dbg f px x md' F hinvx hpx
      refine ⟨q, ?_, hqi, by omega, ?_⟩
      · simp only [Post.calibTail, ge_iff_le, Nat.not_le.2 hskip, ↓reduceIte, hq]
      · simp only [curItems, nextFlag, hskip, decide_true]
        exact hqf md'
    · refine ⟨⟨⟨x, px⟩, some n.id, px.length, md'⟩, ?_, hinvx, by rw [hremx]; omega, ?_⟩
      · simp only [Post.calibTail, ge_iff_le, Nat.not_lt.1 hskip, ↓reduceIte]
      · simp only [curItems, nextFlag, hskip, decide_false, Post.items]

/-- one `Visit::next` of the repaired non-reentrant post-order visit, in terms of the fold -/
theorem Post.visitNextFixed_fold (n : Tree) (hu : n.UniqueIds) (F : Nat) (hF : n.size < F)
    (dbg named : Bool) (m : Tree → Bool) :
    ∀ (fuel : Nat) (p : Post), p.Inv n → p.remaining.length < fuel →
      match Post.visitNextFixed dbg false named m F fuel p with
      | .ok (none, _) => foldNRFixed dbg (fun t => (!named || t.named) && m t) p.items p.matchDepth false = .ok []
      | .ok (some x, p') => p'.Inv n ∧ p'.remaining.length < p.remaining.length ∧
          foldNRFixed dbg (fun t => (!named || t.named) && m t) p.items p.matchDepth false
            = (match foldNRFixed dbg (fun t => (!named || t.named) && m t) p'.items p'.matchDepth false with
               | .ok xs => .ok (x :: xs)
               | .error e => .error e)
      | .error e => foldNRFixed dbg (fun t => (!named || t.named) && m t) p.items p.matchDepth false = .error e := by
  intro fuel
  induction fuel with
  | zero => intro p _ h; omega
  | succ fuel ih =>
    intro p hinv hlen
    obtain ⟨⟨t, path⟩, sid, d, md⟩ := p
    cases sid with
    | none => simp [Post.visitNextFixed, Post.next, Post.items, foldNRFixed]
    | some s =>
      have hs : s = n.id := hinv.1
      subst hs
      have hd : d = path.length := hinv.2.2
      subst hd
      have hnext := Post.next_eq n hu F (by omega) t path path.length md hinv
      have hremp : Post.remaining ⟨⟨t, path⟩, some n.id, path.length, md⟩ = t :: restPost t path := rfl
      have hitemsp : Post.items ⟨⟨t, path⟩, some n.id, path.length, md⟩
          = ⟨t, path.length, lastOf path⟩ :: restItems t path := rfl
      rw [hremp] at hlen
      simp only [List.length_cons] at hlen
      by_cases hm : ((!named || t.named) && m t) = true
      · -- the focus passes the test
        have hmd1 := Post.afterNext_matchDepth F n.id t path.length md path
        by_cases hdbg : (dbg && decide (path.length < md)) = true
        · have hv : Post.visitNextFixed dbg false named m F (fuel + 1) ⟨⟨t, path⟩, some n.id, path.length, md⟩
              = .error .debugAssert := by
            simp only [Post.visitNextFixed, hnext]
            simp [hm, Post.calibrateFixed, hmd1, hdbg]
          rw [hv, hitemsp]
          exact foldNRFixed_matched_err _ ⟨t, path.length, lastOf path⟩ _ md dbg hm hdbg
        · obtain ⟨q, hq, hqi, hql, hqf⟩ := Post.afterNext_calibTail n hu F hF dbg
            (fun t => (!named || t.named) && m t) t path md path.length hinv
          have hv : Post.visitNextFixed dbg false named m F (fuel + 1) ⟨⟨t, path⟩, some n.id, path.length, md⟩
              = .ok (some t, q) := by
            simp only [Post.visitNextFixed, hnext]
            simp [hm, Post.calibrateFixed, hmd1, hdbg, hq]
          rw [hv, hitemsp]
          refine ⟨hqi, by rw [hremp]; simp only [List.length_cons]; omega, ?_⟩
          rw [foldNRFixed_matched_ok dbg _ ⟨t, path.length, lastOf path⟩ _ md hm (by simpa using hdbg),
            consAll_cons]
          simp only [hqf]
          generalize foldNRFixed dbg _ q.items q.matchDepth false = r
          cases r <;> rfl
      · -- the focus fails the test
        have hm' : ((!named || t.named) && m t) = false := by simpa using hm
        obtain ⟨q, hq, hqi, hql, hqf⟩ := Post.afterNext_calibTail n hu F hF dbg
          (fun t => (!named || t.named) && m t) t path md md hinv
        rw [Post.afterNext_eta] at hq
        have hv : Post.visitNextFixed dbg false named m F (fuel + 1) ⟨⟨t, path⟩, some n.id, path.length, md⟩
            = Post.visitNextFixed dbg false named m F fuel q := by
          simp only [Post.visitNextFixed, hnext]
          simp [hm, Post.calibrateFixed, hq]
        have hI := ih q hqi (by omega)
        rw [hv, hitemsp, foldNRFixed_unmatched dbg _ ⟨t, path.length, lastOf path⟩ _ md hm', hqf]
        split at hI
        · exact hI
        · exact ⟨hI.1, by rw [hremp]; simp only [List.length_cons]; omega, hI.2.2⟩
        · exact hI

theorem Post.visitCollectFixed_fold (n : Tree) (hu : n.UniqueIds) (F : Nat) (hF : n.size < F)
    (dbg named : Bool) (m : Tree → Bool) :
    ∀ (fuel : Nat) (p : Post), p.Inv n → p.remaining.length < fuel →
      Post.visitCollectFixed dbg false named m F fuel p
        = foldNRFixed dbg (fun t => (!named || t.named) && m t) p.items p.matchDepth false := by
  intro fuel
  induction fuel with
  | zero => intro p _ h; omega
  | succ fuel ih =>
    intro p hinv hlen
    have hb : p.remaining.length ≤ n.size := Post.remaining_le hinv
    have hV := Post.visitNextFixed_fold n hu F hF dbg named m F p hinv (by omega)
    simp only [Post.visitCollectFixed]
    split at hV
    · next p' h0 => simp only [h0, hV]
    · next x p' h0 =>
      simp only [h0, hV.2.2, ih p' hV.1 (by omega)]
      rfl
    · next e h0 => simp only [h0, hV]


/-! ### `reentrant = true`: `calibrate_for_match` is never called, the repair changes nothing -/

theorem Post.visitNextFixed_reentrant (dbg named : Bool) (m : Tree → Bool) (F : Nat) :
    ∀ (fuel : Nat) (p : Post),
      Post.visitNextFixed dbg true named m F fuel p = Post.visitNext dbg true named m F fuel p := by
  intro fuel
  induction fuel with
  | zero => intro p; rfl
  | succ fuel ih =>
    intro p
    simp only [Post.visitNextFixed, Post.visitNext, ↓reduceIte, ih]

theorem Post.visitCollectFixed_reentrant (dbg named : Bool) (m : Tree → Bool) (F : Nat) :
    ∀ (fuel : Nat) (p : Post),
      Post.visitCollectFixed dbg true named m F fuel p = Post.visitCollect dbg true named m F fuel p := by
  intro fuel
  induction fuel with
  | zero => intro p; rfl
  | succ fuel ih =>
    intro p
    simp only [Post.visitCollectFixed, Post.visitCollect, Post.visitNextFixed_reentrant, ih]

theorem Post.visitFixed_reentrant (dbg named : Bool) (m : Tree → Bool) (n : Tree) :
    Post.visitFixed dbg true named m n = Post.visit dbg true named m n := by
  simp only [Post.visitFixed, Post.visit, Post.visitCollectFixed_reentrant]

end AGV
