/-
Lemmas about the loader of global utility rules (`Model/GlobalLoader.lean`):
  * the fuel of `globalRuleIds` is never used up (`globalRuleIds_fuel_stable`, `globalDeps_fuel`)
  * the ids it hands to the sorter are exactly the declarative same-node requirements of the rule
    through its own local utilities (`mem_globalRuleIds_iff`, `globalGraph_edge_iff`)
  * `into_map` of duplicate-free ids is the list itself (`intoMap_of_nodup`)
  * no stage panics (`loadGlobalsWith_noPanic`)
-/
import AstGrepVerif.Model.GlobalLoader
import AstGrepVerif.Spec.GlobalRules
import AstGrepVerif.Lemmas.LoaderTopo
import AstGrepVerif.Lemmas.LoaderTotal
import AstGrepVerif.Lemmas.CheckVar

namespace AGV.Loader

open AGV AGV.Loader.Spec

/-! ### a duplicate-free list inside another one is not longer -/

theorem nodup_length_le_of_subset {α} [DecidableEq α] :
    ∀ (l m : List α), l.Nodup → (∀ x ∈ l, x ∈ m) → l.length ≤ m.length := by
  intro l
  induction l with
  | nil => intro m _ _; simp
  | cons x l ih =>
    intro m hnd hsub
    rw [List.nodup_cons] at hnd
    have hx : x ∈ m := hsub x List.mem_cons_self
    have hsub' : ∀ y ∈ l, y ∈ m.erase x := by
      intro y hy
      have hne : y ≠ x := fun e => hnd.1 (e ▸ hy)
      exact (List.mem_erase_of_ne hne).mpr (hsub y (List.mem_cons_of_mem _ hy))
    have h1 := ih (m.erase x) hnd.2 hsub'
    have h2 := List.length_erase_of_mem hx
    have h3 : 0 < m.length := List.length_pos_of_mem hx
    simp only [List.length_cons]
    omega

/-! ### the fuel of `globalRuleIds` -/

theorem globalRuleIds_succ (locals : List (Name × SRule)) (f : Nat) (vis : List Name) (rule : SRule) :
    globalRuleIds locals (f + 1) vis rule =
      (depIds Fixes.all rule).flatMap fun m =>
        match alookup m locals with
        | some body => if vis.contains m then [] else globalRuleIds locals f (vis ++ [m]) body
        | none => [m] := rfl

/-- the stack `visiting` holds distinct keys of `locals`, so its length is bounded: with
`fuel + visiting.length > locals.length` one more unit of fuel changes nothing -/
theorem globalRuleIds_fuel_stable (locals : List (Name × SRule)) :
    ∀ (f : Nat) (vis : List Name) (rule : SRule), vis.Nodup → (∀ x ∈ vis, x ∈ locals.map (·.1)) →
      locals.length + 1 ≤ f + vis.length →
      globalRuleIds locals (f + 1) vis rule = globalRuleIds locals f vis rule := by
  intro f
  induction f with
  | zero =>
    intro vis rule hnd hsub hlen
    have := nodup_length_le_of_subset vis (locals.map (·.1)) hnd hsub
    simp only [List.length_map] at this
    omega
  | succ f ih =>
    intro vis rule hnd hsub hlen
    rw [globalRuleIds_succ locals (f + 1), globalRuleIds_succ locals f]
    congr 1
    funext m
    cases hl : alookup m locals with
    | none => rfl
    | some body =>
      show (if vis.contains m = true then [] else globalRuleIds locals (f + 1) (vis ++ [m]) body) =
        (if vis.contains m = true then [] else globalRuleIds locals f (vis ++ [m]) body)
      by_cases hc : vis.contains m = true
      · rw [if_pos hc, if_pos hc]
      · rw [if_neg hc, if_neg hc]
        have hm : m ∉ vis := by simpa using hc
        apply ih
        · rw [List.nodup_append]
          refine ⟨hnd, by simp, ?_⟩
          intro a ha b hb
          simp only [List.mem_singleton] at hb
          subst hb
          intro e; subst e; exact hm ha
        · intro x hx
          simp only [List.mem_append, List.mem_singleton] at hx
          rcases hx with hx | hx
          · exact hsub x hx
          · subst hx; exact mem_keys_of_alookup x body locals hl
        · simp only [List.length_append, List.length_singleton]
          omega

/-- **the fuel is a model artefact**: from the bound `locals.length + 1` on, the dependencies of a
global rule do not depend on the fuel -/
theorem globalRuleIds_fuel (locals : List (Name × SRule)) (rule : SRule) (extra : Nat) :
    globalRuleIds locals (locals.length + 1 + extra) [] rule =
      globalRuleIds locals (locals.length + 1) [] rule := by
  induction extra with
  | zero => rfl
  | succ n ih =>
    rw [← ih]
    exact globalRuleIds_fuel_stable locals (locals.length + 1 + n) [] rule List.nodup_nil
      (by intro x hx; cases hx) (by simp)

/-! ### the ids handed to the sorter are the declarative same-node requirements -/

theorem refsSame_of_mem_depIds {rule : SRule} {m : Name} (h : m ∈ depIds Fixes.all rule) :
    RefsSame true rule m := (mem_depIds_iff Fixes.all rule m).mp h

theorem mem_depIds_of_refsSame {rule : SRule} {m : Name} (h : RefsSame true rule m) :
    m ∈ depIds Fixes.all rule := (mem_depIds_iff Fixes.all rule m).mpr h

/-- soundness, for any fuel and any stack -/
theorem globalRuleIds_sound (locals : List (Name × SRule)) :
    ∀ (f : Nat) (vis : List Name) (rule : SRule) (b : Name),
      b ∈ globalRuleIds locals f vis rule → RequiresSame locals rule b := by
  intro f
  induction f with
  | zero => intro vis rule b h; simp [globalRuleIds] at h
  | succ f ih =>
    intro vis rule b h
    rw [globalRuleIds_succ, List.mem_flatMap] at h
    obtain ⟨m, hm, hb⟩ := h
    have hr := refsSame_of_mem_depIds hm
    cases hl : alookup m locals with
    | none =>
      rw [hl] at hb
      simp only [List.mem_singleton] at hb
      subst hb
      exact .direct hr hl
    | some body =>
      rw [hl] at hb
      change b ∈ (if vis.contains m = true then [] else globalRuleIds locals f (vis ++ [m]) body) at hb
      by_cases hc : vis.contains m = true
      · rw [if_pos hc] at hb; cases hb
      · rw [if_neg hc] at hb
        exact .via hr hl (ih _ _ _ hb)

/-- a requirement spelled out: the local utilities passed through, in order -/
def Chain (locals : List (Name × SRule)) : SRule → List Name → Name → Prop
  | r, [], b => RefsSame true r b ∧ alookup b locals = none
  | r, x :: xs, b => RefsSame true r x ∧ ∃ body, alookup x locals = some body ∧ Chain locals body xs b

theorem chain_of_requiresSame {locals : List (Name × SRule)} {r : SRule} {b : Name}
    (h : RequiresSame locals r b) : ∃ xs, Chain locals r xs b := by
  induction h with
  | direct hr hl => exact ⟨[], hr, hl⟩
  | via hr hl _ ih =>
    obtain ⟨xs, hxs⟩ := ih
    exact ⟨_ :: xs, hr, _, hl, hxs⟩

theorem chain_keys {locals : List (Name × SRule)} : ∀ {xs : List Name} {r : SRule} {b : Name},
    Chain locals r xs b → ∀ x ∈ xs, x ∈ locals.map (·.1)
  | [], _, _, _ => by intro x hx; cases hx
  | y :: ys, _, _, h => by
    obtain ⟨_, body, hl, hc⟩ := h
    intro x hx
    simp only [List.mem_cons] at hx
    rcases hx with hx | hx
    · subst hx; exact mem_keys_of_alookup x body locals hl
    · exact chain_keys hc x hx

/-- the part of a chain after one of its utilities is a chain from that utility's body -/
theorem chain_suffix {locals : List (Name × SRule)} : ∀ {pre : List Name} {r : SRule} {x : Name}
    {post : List Name} {b : Name}, Chain locals r (pre ++ x :: post) b →
      ∃ body, alookup x locals = some body ∧ Chain locals body post b
  | [], _, _, _, _, h => by
    obtain ⟨_, body, hl, hc⟩ := h
    exact ⟨body, hl, hc⟩
  | _ :: pre, _, _, _, _, h => by
    obtain ⟨_, _, _, hc⟩ := h
    exact chain_suffix (pre := pre) hc

/-- loops can be cut out of a chain -/
theorem chain_nodup {locals : List (Name × SRule)} : ∀ {xs : List Name} {r : SRule} {b : Name},
    Chain locals r xs b → ∃ ys, Chain locals r ys b ∧ ys.Nodup
  | [], _, _, h => ⟨[], h, List.nodup_nil⟩
  | x :: xs, r, b, h => by
    obtain ⟨hr, body, hl, hc⟩ := h
    obtain ⟨ys, hys, hnd⟩ := chain_nodup hc
    by_cases hx : x ∈ ys
    · obtain ⟨pre, post, he⟩ := List.append_of_mem hx
      subst he
      obtain ⟨body', hl', hc'⟩ := chain_suffix hys
      rw [hl] at hl'
      injection hl' with hl'
      subst hl'
      refine ⟨x :: post, ⟨hr, body, hl, hc'⟩, ?_⟩
      rw [List.nodup_append] at hnd
      exact hnd.2.1
    · exact ⟨x :: ys, ⟨hr, body, hl, hys⟩, List.nodup_cons.mpr ⟨hx, hnd⟩⟩

/-- a loop-free chain that avoids the stack is followed to its end, given fuel for its length -/
theorem globalRuleIds_of_chain (locals : List (Name × SRule)) :
    ∀ (xs : List Name) (f : Nat) (vis : List Name) (r : SRule) (b : Name),
      Chain locals r xs b → xs.Nodup → (∀ x ∈ xs, x ∉ vis) → xs.length < f →
      b ∈ globalRuleIds locals f vis r := by
  intro xs
  induction xs with
  | nil =>
    intro f vis r b h _ _ hf
    obtain ⟨hr, hl⟩ := h
    obtain ⟨f', rfl⟩ : ∃ f', f = f' + 1 := ⟨f - 1, by simp at hf; omega⟩
    rw [globalRuleIds_succ, List.mem_flatMap]
    exact ⟨b, mem_depIds_of_refsSame hr, by rw [hl]; simp⟩
  | cons x xs ih =>
    intro f vis r b h hnd hvis hf
    obtain ⟨hr, body, hl, hc⟩ := h
    obtain ⟨f', rfl⟩ : ∃ f', f = f' + 1 := ⟨f - 1, by simp at hf; omega⟩
    rw [List.nodup_cons] at hnd
    rw [globalRuleIds_succ, List.mem_flatMap]
    refine ⟨x, mem_depIds_of_refsSame hr, ?_⟩
    rw [hl]
    have hx : ¬ vis.contains x = true := by
      have := hvis x List.mem_cons_self
      simpa using this
    show b ∈ (if vis.contains x = true then [] else globalRuleIds locals f' (vis ++ [x]) body)
    rw [if_neg hx]
    apply ih f' (vis ++ [x]) body b hc hnd.2
    · intro y hy
      simp only [List.mem_append, List.mem_singleton, not_or]
      refine ⟨hvis y (List.mem_cons_of_mem _ hy), ?_⟩
      intro e; subst e; exact hnd.1 hy
    · simp only [List.length_cons] at hf; omega

/-- **the dependencies computed for the sort = the declarative relation** -/
theorem mem_globalRuleIds_iff (locals : List (Name × SRule)) (rule : SRule) (b : Name) :
    b ∈ globalRuleIds locals (locals.length + 1) [] rule ↔ RequiresSame locals rule b := by
  constructor
  · exact globalRuleIds_sound locals _ _ _ _
  · intro h
    obtain ⟨xs, hxs⟩ := chain_of_requiresSame h
    obtain ⟨ys, hys, hnd⟩ := chain_nodup hxs
    have hlen := nodup_length_le_of_subset ys (locals.map (·.1)) hnd (chain_keys hys)
    simp only [List.length_map] at hlen
    exact globalRuleIds_of_chain locals ys _ [] rule b hys hnd (by intro x _ hx; cases hx) (by omega)

theorem mem_globalDeps_iff (core : SCore) (b : Name) :
    b ∈ globalDeps GFixes.all core ↔ RequiresSame (core.utils.getD []) core.rule b := by
  unfold globalDeps
  simp only [GFixes.all, ↓reduceIte]
  exact mem_globalRuleIds_iff _ _ _

/-- before the repair the sort saw the same-node references of the rule itself only -/
theorem mem_globalDeps_none_iff (core : SCore) (b : Name) :
    b ∈ globalDeps GFixes.none core ↔ RefsSame true core.rule b := by
  unfold globalDeps
  simp only [GFixes.none, Bool.false_eq_true, ↓reduceIte]
  exact mem_depIds_iff Fixes.all core.rule b

/-! ### the graph -/

theorem alookup_map_val {β γ} (f : β → γ) (k : Name) (l : List (Name × β)) :
    alookup k (l.map fun kv => (kv.1, f kv.2)) = (alookup k l).map f := by
  induction l with
  | nil => rfl
  | cons hd tl ih =>
    obtain ⟨k', v⟩ := hd
    by_cases h : k' = k <;> simp [alookup, h, ih]

theorem globalGraph_keys (gfx : GFixes) (utils : List (Name × SGlobal)) :
    (globalGraph gfx utils).map (·.1) = utils.map (·.1) := by
  unfold globalGraph
  simp [List.map_map, Function.comp_def]

/-- an edge of the sorted graph = "global rule `a` requires `b` on the same node", directly or
through its own local utilities -/
theorem globalGraph_edge_iff (utils : List (Name × SGlobal)) (a b : Name) :
    Edge (globalGraph GFixes.all utils) a b ↔
      ∃ g, alookup a utils = some g ∧ RequiresSame (localsOf g) g.core.rule b := by
  unfold Edge globalGraph
  rw [alookup_map_val (fun g : SGlobal => globalDeps GFixes.all g.core)]
  constructor
  · rintro ⟨deps, hd, hm⟩
    cases hl : alookup a utils with
    | none => rw [hl] at hd; cases hd
    | some g =>
      rw [hl] at hd
      simp only [Option.map_some, Option.some.injEq] at hd
      subst hd
      exact ⟨g, rfl, (mem_globalDeps_iff g.core b).mp hm⟩
  · rintro ⟨g, hl, hr⟩
    exact ⟨globalDeps GFixes.all g.core, by simp [hl], (mem_globalDeps_iff g.core b).mpr hr⟩

/-! ### `into_map` -/

theorem ainsert_fresh {β} (k : Name) (v : β) : ∀ (l : List (Name × β)), k ∉ l.map (·.1) →
    ainsert k v l = l ++ [(k, v)]
  | [], _ => rfl
  | (k', v') :: rest, h => by
    simp only [List.map_cons, List.mem_cons, not_or] at h
    have hne : ¬ k' = k := fun e => h.1 e.symm
    simp [ainsert, hne, ainsert_fresh k v rest h.2]

theorem foldl_ainsert_fresh : ∀ (gs : List SGlobal) (acc : List (Name × SGlobal)),
    (gs.map (·.id)).Nodup → (∀ g ∈ gs, g.id ∉ acc.map (·.1)) →
    gs.foldl (fun m g => ainsert g.id g m) acc = acc ++ gs.map fun g => (g.id, g)
  | [], acc, _, _ => by simp
  | g :: gs, acc, hnd, hfresh => by
    simp only [List.map_cons, List.nodup_cons] at hnd
    simp only [List.foldl_cons]
    rw [ainsert_fresh g.id g acc (hfresh g List.mem_cons_self)]
    rw [foldl_ainsert_fresh gs _ hnd.2]
    · simp
    · intro g' hg'
      simp only [List.map_append, List.map_cons, List.map_nil, List.mem_append, List.mem_singleton, not_or]
      refine ⟨hfresh g' (List.mem_cons_of_mem _ hg'), ?_⟩
      intro e
      exact hnd.1 (e ▸ List.mem_map.mpr ⟨g', hg', rfl⟩)

/-- `into_map` of documents with distinct ids is the list of the documents -/
theorem intoMap_of_nodup (gs : List SGlobal) (h : (gs.map (·.id)).Nodup) :
    intoMap gs = gs.map fun g => (g.id, g) := by
  unfold intoMap
  rw [foldl_ainsert_fresh gs [] h (by intro g _ hg; cases hg)]
  simp

theorem alookup_idmap_of_nodup : ∀ (gs : List SGlobal), (gs.map (·.id)).Nodup → ∀ g ∈ gs,
    alookup g.id (gs.map fun g => (g.id, g)) = some g
  | [], _, g, hg => by cases hg
  | g0 :: gs, hnd, g, hg => by
    simp only [List.map_cons, List.nodup_cons] at hnd
    simp only [List.mem_cons] at hg
    rcases hg with hg | hg
    · subst hg; simp [alookup]
    · have hne : ¬ g0.id = g.id := by
        intro e
        exact hnd.1 (e ▸ List.mem_map.mpr ⟨g, hg, rfl⟩)
      simp only [List.map_cons, alookup, hne, ↓reduceIte]
      exact alookup_idmap_of_nodup gs hnd.2 g hg

theorem mem_of_alookup_idmap : ∀ (gs : List SGlobal) (a : Name) (g : SGlobal),
    alookup a (gs.map fun g => (g.id, g)) = some g → g ∈ gs ∧ g.id = a
  | [], a, g, h => by simp [alookup] at h
  | g0 :: gs, a, g, h => by
    by_cases he : g0.id = a
    · simp only [List.map_cons, alookup, he, ↓reduceIte, Option.some.injEq] at h
      subst h
      exact ⟨List.mem_cons_self, he⟩
    · simp only [List.map_cons, alookup, he, ↓reduceIte] at h
      obtain ⟨h1, h2⟩ := mem_of_alookup_idmap gs a g h
      exact ⟨List.mem_cons_of_mem _ h1, h2⟩

/-! ### no stage panics -/

theorem registerGlobals_noPanic (utils : List (Name × SGlobal)) :
    ∀ (ids : List Name) (done : List LoadedGlobal), (∀ id ∈ ids, id ∈ utils.map (·.1)) →
      NoPanic (registerGlobals utils ids done) := by
  intro ids
  induction ids with
  | nil => intro done _; exact noPanic_ok _
  | cons id ids ih =>
    intro done hk
    simp only [registerGlobals]
    obtain ⟨g, hg⟩ := alookup_isSome_of_mem_keys id utils (hk id List.mem_cons_self)
    rw [hg]
    simp only
    have hgm := getMatcher_noPanic Fixes.all ⟨rfl, rfl, rfl⟩ g.expando (loadedUtils done) [] g.core .global
    cases hm : getMatcher Fixes.all g.expando (loadedUtils done) [] g.core .global with
    | panic s => exact absurd hm (hgm s)
    | err e => exact noPanic_err _
    | ok p =>
      obtain ⟨reg, info⟩ := p
      simp only
      split
      · exact noPanic_err _
      · split
        · exact noPanic_err _
        · exact ih _ fun id' h' => hk id' (List.mem_cons_of_mem _ h')

theorem verifyGlobals_noPanic (all : List LoadedGlobal) : ∀ gs, NoPanic (verifyGlobals all gs) := by
  intro gs
  induction gs with
  | nil => exact noPanic_ok _
  | cons g rest ih =>
    simp only [verifyGlobals]
    have h1 : NoPanic (verifyOne all g) := checkUtilsDefined_noPanic Fixes.all _
    cases hv : verifyOne all g with
    | panic s => exact absurd hv (h1 s)
    | err e => exact noPanic_err _
    | ok u => exact ih

theorem loadGlobalsWith_noPanic (gfx : GFixes) (gs : List SGlobal) : NoPanic (loadGlobalsWith gfx gs) := by
  unfold loadGlobalsWith
  simp only
  cases ho : getOrder (globalGraph gfx (intoMap gs)) with
  | error e =>
    cases e with
    | cyclic k => exact noPanic_err _
    | fuel => exact absurd ho (getOrder_ne_fuel _)
  | ok order =>
    simp only
    have hkeys : ∀ id ∈ order, id ∈ (intoMap gs).map (·.1) := by
      intro id hid
      have := ((getOrder_ok _ order ho).2 id).mp hid
      unfold IsKey at this
      rwa [globalGraph_keys] at this
    have h1 := registerGlobals_noPanic (intoMap gs) order [] hkeys
    cases hr : registerGlobals (intoMap gs) order [] with
    | panic s => exact absurd hr (h1 s)
    | err e => exact noPanic_err _
    | ok done =>
      simp only
      split
      · have h2 := verifyGlobals_noPanic done done
        cases hv : verifyGlobals done done with
        | panic s => exact absurd hv (h2 s)
        | err e => exact noPanic_err _
        | ok u => exact noPanic_ok _
      · exact noPanic_ok _

end AGV.Loader
