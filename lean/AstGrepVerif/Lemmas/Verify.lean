/-
Helper lemmas for `Props/Verify.lean`: association lists as `HashMap`s, the two "union" loops of
`update_snapshot_collection` / `merge_snapshots`, the snapshot directory.
-/
import AstGrepVerif.Model.Verify
import AstGrepVerif.Lemmas.Order

namespace AGV.Verify

open AGV.Snapshot (Source orderedMap)

section Assoc
variable {κ : Type} {β : Type}

def keys (m : List (κ × β)) : List κ := m.map (·.1)

@[simp] theorem keys_nil : keys ([] : List (κ × β)) = [] := rfl
@[simp] theorem keys_cons (x : κ × β) (m : List (κ × β)) : keys (x :: m) = x.1 :: keys m := rfl

variable [DecidableEq κ]

theorem alookup_ainsert (k k' : κ) (v : β) (m : List (κ × β)) :
    alookup k (ainsert k' v m) = if k' = k then some v else alookup k m := by
  induction m with
  | nil => simp [ainsert, alookup]
  | cons x rest ih =>
    obtain ⟨a, b⟩ := x
    by_cases h : a = k'
    · subst h; by_cases h2 : a = k <;> simp [ainsert, alookup, h2]
    · by_cases h2 : a = k
      · subst h2
        have h' : ¬ k' = a := fun e => h e.symm
        simp [ainsert, alookup, h, h']
      · simp [ainsert, alookup, h, h2, ih]

theorem mem_keys_ainsert (k k' : κ) (v : β) (m : List (κ × β)) :
    k ∈ keys (ainsert k' v m) ↔ k = k' ∨ k ∈ keys m := by
  induction m with
  | nil => simp [ainsert]
  | cons x rest ih =>
    obtain ⟨a, b⟩ := x
    by_cases h : a = k'
    · subst h; simp [ainsert]
    · simp only [ainsert, h, if_false, keys_cons, List.mem_cons, ih]
      constructor
      · rintro (h1 | h1 | h1) <;> simp [h1]
      · rintro (h1 | h1 | h1) <;> simp [h1]

theorem nodup_keys_ainsert (k' : κ) (v : β) (m : List (κ × β)) (h : (keys m).Nodup) :
    (keys (ainsert k' v m)).Nodup := by
  induction m with
  | nil => simp [ainsert]
  | cons x rest ih =>
    obtain ⟨a, b⟩ := x
    simp only [keys_cons, List.nodup_cons] at h
    by_cases h1 : a = k'
    · subst h1; simpa [ainsert] using h
    · simp only [ainsert, h1, if_false, keys_cons, List.nodup_cons]
      refine ⟨fun h2 => ?_, ih h.2⟩
      rcases (mem_keys_ainsert _ _ _ _).mp h2 with h2 | h2
      · exact h1 h2
      · exact h.1 h2

theorem alookup_none_iff (k : κ) (m : List (κ × β)) : alookup k m = none ↔ k ∉ keys m := by
  induction m with
  | nil => simp [alookup]
  | cons x rest ih =>
    obtain ⟨a, b⟩ := x
    by_cases h : a = k
    · simp [alookup, h]
    · simp [alookup, h, ih, Ne.symm h]

theorem alookup_some_mem {k : κ} {v : β} {m : List (κ × β)} (h : alookup k m = some v) : (k, v) ∈ m := by
  induction m with
  | nil => simp [alookup] at h
  | cons x rest ih =>
    obtain ⟨a, b⟩ := x
    by_cases h1 : a = k
    · simp [alookup, h1] at h; simp [h1, h]
    · simp [alookup, h1] at h; exact List.mem_cons_of_mem _ (ih h)

theorem alookup_of_mem_keys {k : κ} {m : List (κ × β)} (h : k ∈ keys m) :
    ∃ v, alookup k m = some v ∧ (k, v) ∈ m := by
  cases hl : alookup k m with
  | none => exact absurd h ((alookup_none_iff k m).mp hl)
  | some v => exact ⟨v, rfl, alookup_some_mem hl⟩

theorem mem_alookup_of_nodup {k : κ} {v : β} {m : List (κ × β)} (hn : (keys m).Nodup) (h : (k, v) ∈ m) :
    alookup k m = some v := by
  induction m with
  | nil => simp at h
  | cons x rest ih =>
    obtain ⟨a, b⟩ := x
    simp only [keys_cons, List.nodup_cons] at hn
    rcases List.mem_cons.mp h with h1 | h1
    · cases h1; simp [alookup]
    · have : a ≠ k := by
        rintro rfl; exact hn.1 (List.mem_map.mpr ⟨(a, v), h1, rfl⟩)
      simp [alookup, this, ih hn.2 h1]

theorem aextend_cons (m : List (κ × β)) (x : κ × β) (more : List (κ × β)) :
    aextend m (x :: more) = aextend (ainsert x.1 x.2 m) more := rfl

theorem alookup_aextend_not_mem (k : κ) (more : List (κ × β)) :
    ∀ m : List (κ × β), k ∉ keys more → alookup k (aextend m more) = alookup k m := by
  induction more with
  | nil => intro m _; rfl
  | cons x rest ih =>
    intro m h
    simp only [keys_cons, List.mem_cons, not_or] at h
    rw [aextend_cons, ih _ h.2, alookup_ainsert, if_neg (Ne.symm h.1)]

theorem alookup_aextend_mem (k : κ) (more : List (κ × β)) :
    ∀ m : List (κ × β), k ∈ keys more → ∃ v, alookup k (aextend m more) = some v ∧ (k, v) ∈ more := by
  induction more with
  | nil => intro m h; simp at h
  | cons x rest ih =>
    intro m h
    rw [aextend_cons]
    by_cases h1 : k ∈ keys rest
    · obtain ⟨v, hv, hm⟩ := ih (ainsert x.1 x.2 m) h1
      exact ⟨v, hv, List.mem_cons_of_mem _ hm⟩
    · have hk : x.1 = k := by
        simp only [keys_cons, List.mem_cons] at h
        rcases h with h | h
        · exact h.symm
        · exact absurd h h1
      refine ⟨x.2, ?_, ?_⟩
      · rw [alookup_aextend_not_mem k rest _ h1, alookup_ainsert, if_pos hk]
      · rw [← hk]; exact List.mem_cons_self ..

theorem mem_keys_aextend (k : κ) (more : List (κ × β)) :
    ∀ m : List (κ × β), k ∈ keys (aextend m more) ↔ k ∈ keys m ∨ k ∈ keys more := by
  induction more with
  | nil => intro m; simp [aextend]
  | cons x rest ih =>
    intro m
    rw [aextend_cons, ih, mem_keys_ainsert, keys_cons, List.mem_cons]
    constructor
    · rintro ((h | h) | h) <;> simp [h]
    · rintro (h | h | h) <;> simp [h]

theorem nodup_keys_aextend (more : List (κ × β)) :
    ∀ m : List (κ × β), (keys m).Nodup → (keys (aextend m more)).Nodup := by
  induction more with
  | nil => intro m h; exact h
  | cons x rest ih => intro m h; rw [aextend_cons]; exact ih _ (nodup_keys_ainsert _ _ _ h)

theorem nodup_keys_afromList (l : List (κ × β)) : (keys (afromList l)).Nodup :=
  nodup_keys_aextend l [] List.nodup_nil

theorem mem_keys_afromList (k : κ) (l : List (κ × β)) : k ∈ keys (afromList l) ↔ k ∈ keys l := by
  simp [afromList, mem_keys_aextend]

/-- collecting a list with pairwise different keys gives the list itself -/
theorem ainsert_not_mem (k : κ) (v : β) (m : List (κ × β)) (h : k ∉ keys m) : ainsert k v m = m ++ [(k, v)] := by
  induction m with
  | nil => rfl
  | cons x rest ih =>
    obtain ⟨a, b⟩ := x
    simp only [keys_cons, List.mem_cons, not_or] at h
    simp [ainsert, Ne.symm h.1, ih h.2]

theorem aextend_nodup_append (more : List (κ × β)) :
    ∀ m : List (κ × β), (keys (m ++ more)).Nodup → aextend m more = m ++ more := by
  induction more with
  | nil => intro m _; simp [aextend]
  | cons x rest ih =>
    intro m h
    have hx : x.1 ∉ keys m := by
      intro hm
      have : (keys m ++ x.1 :: keys rest).Nodup := by simpa [keys] using h
      exact (List.nodup_append.mp this).2.2 _ hm _ (List.mem_cons_self ..) rfl
    rw [aextend_cons, ainsert_not_mem _ _ _ hx, ih]
    · simp
    · simpa using h

theorem afromList_nodup (l : List (κ × β)) (h : (keys l).Nodup) : afromList l = l := by
  have := aextend_nodup_append l [] (by simpa using h)
  simpa [afromList] using this

end Assoc

/-! ## the "union" loop shared by `update_snapshot_collection` and `merge_snapshots` -/

section Union
variable {V : Type}

/-- `mergeStep`; `acceptStep acc r = mergeStep acc (r.id, r.changedSnapshots)` -/
theorem acceptStep_eq [DecidableEq V] (acc : Coll V) (r : CaseResult V) :
    acceptStep acc r = mergeStep acc (r.id, r.changedSnapshots) := rfl

theorem buildAccepted_eq [DecidableEq V] (results : List (CaseResult V)) :
    buildAccepted results = mergeSnapshots (results.map fun r => (r.id, r.changedSnapshots)) [] := by
  simp only [buildAccepted, mergeSnapshots, List.foldl_map]
  rfl

theorem alookup_mergeStep (id : Id) (c : Coll V) (e : Id × List (Source × V)) :
    alookup id (mergeStep c e) =
      if e.1 = id then some (match alookup id c with | some ex => aextend ex e.2 | none => e.2)
      else alookup id c := by
  unfold mergeStep
  by_cases h : e.1 = id
  · subst h
    cases alookup e.1 c <;> simp [alookup_ainsert]
  · cases alookup e.1 c <;> simp [alookup_ainsert, h]

theorem nodup_keys_mergeStep (c : Coll V) (e : Id × List (Source × V)) (h : (keys c).Nodup) :
    (keys (mergeStep c e)).Nodup := by
  unfold mergeStep
  cases alookup e.1 c <;> exact nodup_keys_ainsert _ _ _ h

theorem nodup_keys_mergeSnapshots (L : Coll V) : ∀ c : Coll V, (keys c).Nodup → (keys (mergeSnapshots L c)).Nodup := by
  induction L with
  | nil => intro c h; exact h
  | cons e rest ih => intro c h; exact ih _ (nodup_keys_mergeStep c e h)

/-- which ids the union has -/
theorem alookup_mergeSnapshots_none (id : Id) (L : Coll V) :
    ∀ c : Coll V, alookup id (mergeSnapshots L c) = none ↔ (alookup id c = none ∧ ∀ e ∈ L, e.1 ≠ id) := by
  induction L with
  | nil => intro c; simp [mergeSnapshots]
  | cons e rest ih =>
    intro c
    show alookup id (mergeSnapshots rest (mergeStep c e)) = none ↔ _
    rw [ih, alookup_mergeStep]
    by_cases h : e.1 = id <;> simp [h]

/-- the inner maps of the union stay maps -/
theorem inner_nodup_mergeSnapshots (id : Id) (L : Coll V) :
    ∀ c : Coll V, (∀ m, alookup id c = some m → (keys m).Nodup) → (∀ e ∈ L, e.1 = id → (keys e.2).Nodup) →
      ∀ m, alookup id (mergeSnapshots L c) = some m → (keys m).Nodup := by
  induction L with
  | nil => intro c hc _ m hm; exact hc m hm
  | cons e rest ih =>
    intro c hc hL m hm
    refine ih (mergeStep c e) ?_ (fun e' he' => hL e' (List.mem_cons_of_mem _ he')) m hm
    intro m' hm'
    rw [alookup_mergeStep] at hm'
    by_cases h : e.1 = id
    · rw [if_pos h] at hm'
      cases hc' : alookup id c with
      | none => rw [hc'] at hm'; cases hm'; exact hL e (List.mem_cons_self ..) h
      | some ex => rw [hc'] at hm'; cases hm'; exact nodup_keys_aextend _ _ (hc ex hc')
    · rw [if_neg h] at hm'; exact hc m' hm'

/-- a source no accepted entry of that id mentions keeps its stored value -/
theorem mergeSnapshots_frame (id : Id) (s : Source) (L : Coll V) :
    ∀ c : Coll V, (∀ e ∈ L, e.1 = id → s ∉ keys e.2) →
      (alookup id (mergeSnapshots L c)).bind (alookup s) = (alookup id c).bind (alookup s) := by
  induction L with
  | nil => intro c _; rfl
  | cons e rest ih =>
    intro c h
    show (alookup id (mergeSnapshots rest (mergeStep c e))).bind (alookup s) = _
    rw [ih _ (fun e' he' => h e' (List.mem_cons_of_mem _ he')), alookup_mergeStep]
    by_cases h1 : e.1 = id
    · have hs := h e (List.mem_cons_self ..) h1
      rw [if_pos h1]
      cases hc : alookup id c with
      | none => simp [(alookup_none_iff s e.2).mpr hs]
      | some ex => simp [alookup_aextend_not_mem s e.2 ex hs]
    · rw [if_neg h1]

/-- a source some accepted entry of that id mentions gets an accepted value -/
theorem mergeSnapshots_accepted (id : Id) (s : Source) (L : Coll V) :
    ∀ c : Coll V, (∃ e ∈ L, e.1 = id ∧ s ∈ keys e.2) →
      ∃ v, (alookup id (mergeSnapshots L c)).bind (alookup s) = some v ∧ ∃ e ∈ L, e.1 = id ∧ (s, v) ∈ e.2 := by
  induction L with
  | nil => intro c h; obtain ⟨e, he, _⟩ := h; cases he
  | cons e rest ih =>
    intro c h
    show ∃ v, (alookup id (mergeSnapshots rest (mergeStep c e))).bind (alookup s) = some v ∧ _
    by_cases hr : ∃ e' ∈ rest, e'.1 = id ∧ s ∈ keys e'.2
    · obtain ⟨v, hv, e', he', h1, h2⟩ := ih (mergeStep c e) hr
      exact ⟨v, hv, e', List.mem_cons_of_mem _ he', h1, h2⟩
    · have hrest : ∀ e' ∈ rest, e'.1 = id → s ∉ keys e'.2 := fun e' he' h1 h2 => hr ⟨e', he', h1, h2⟩
      obtain ⟨e0, he0, h1, h2⟩ := h
      have : e0 = e := by
        rcases List.mem_cons.mp he0 with h | h
        · exact h
        · exact absurd h2 (hrest e0 h h1)
      subst this
      rw [mergeSnapshots_frame id s rest _ hrest, alookup_mergeStep, if_pos h1]
      cases hc : alookup id c with
      | none =>
        obtain ⟨v, hv, hm⟩ := alookup_of_mem_keys h2
        exact ⟨v, by simpa using hv, e0, List.mem_cons_self .., h1, hm⟩
      | some ex =>
        obtain ⟨v, hv, hm⟩ := alookup_aextend_mem s e0.2 ex h2
        exact ⟨v, by simpa using hv, e0, List.mem_cons_self .., h1, hm⟩

end Union

/-! ## the snapshot directory -/

section DirLemmas
variable {V : Type}

theorem readFile_writeFile (name : Name) (f : SnapFile V) (d : Dir V) :
    readFile name (writeFile f d) = if f.name = name then some f else readFile name d := by
  induction d with
  | nil => simp [writeFile, readFile]
  | cons g rest ih =>
    by_cases h : g.name = f.name
    · by_cases h2 : f.name = name
      · simp [writeFile, readFile, h, h2]
      · have : ¬ g.name = name := by rw [h]; exact h2
        simp [writeFile, readFile, h, h2, this]
    · by_cases h2 : g.name = name
      · subst h2
        have : ¬ f.name = g.name := fun e => h e.symm
        simp [writeFile, readFile, h, this]
      · simp [writeFile, readFile, h, h2, ih]

theorem writeFile_same (f : SnapFile V) (d : Dir V) (h : readFile f.name d = some f) : writeFile f d = d := by
  induction d with
  | nil => simp [readFile] at h
  | cons g rest ih =>
    by_cases h1 : g.name = f.name
    · simp [readFile, h1] at h; simp [writeFile, h1, h]
    · simp [readFile, h1] at h; simp [writeFile, h1, ih h]

theorem snapName_injective {a b : Id} (h : snapName a = snapName b) : a = b :=
  List.append_cancel_right h

/-- what a name holds after `write_merged_to_disk` -/
theorem readFile_writeMerged (name : Name) (pathIds : List Id) (merged : Coll V) :
    ∀ d : Dir V, (keys merged).Nodup →
      readFile name (writeMergedToDisk merged pathIds d) =
        match merged.find? (fun e => decide (snapName e.1 = name) && decide (e.1 ∈ pathIds)) with
        | some e => some { name := snapName e.1, id := e.1, entries := orderedMap e.2 }
        | none => readFile name d := by
  induction merged with
  | nil => intro d _; rfl
  | cons e rest ih =>
    intro d hn
    simp only [keys_cons, List.nodup_cons] at hn
    show readFile name (writeMergedToDisk rest pathIds _) = _
    rw [ih _ hn.2]
    by_cases hp : e.1 ∈ pathIds
    · by_cases hname : snapName e.1 = name
      · have : rest.find? (fun e' => decide (snapName e'.1 = name) && decide (e'.1 ∈ pathIds)) = none := by
          rw [List.find?_eq_none]
          intro e' he' hc
          simp only [Bool.and_eq_true, decide_eq_true_eq] at hc
          have : e'.1 = e.1 := snapName_injective (hc.1.trans hname.symm)
          exact hn.1 (this ▸ List.mem_map.mpr ⟨e', he', rfl⟩)
        simp [List.find?, hp, hname, this, readFile_writeFile]
      · simp [List.find?, hp, hname, readFile_writeFile]
    · simp [List.find?, hp]

end DirLemmas

/-! ## more on association lists: membership, permutations, the canonical form -/

section AssocMore
variable {κ : Type} [DecidableEq κ] {β : Type}

theorem mem_ainsert {x : κ × β} {k : κ} {v : β} {m : List (κ × β)} (h : x ∈ ainsert k v m) :
    x = (k, v) ∨ x ∈ m := by
  induction m with
  | nil => simp [ainsert] at h; exact .inl h
  | cons y rest ih =>
    obtain ⟨a, b⟩ := y
    by_cases h1 : a = k
    · simp [ainsert, h1] at h
      rcases h with h | h
      · exact .inl h
      · exact .inr (List.mem_cons_of_mem _ h)
    · simp only [ainsert, h1, if_false, List.mem_cons] at h
      rcases h with h | h
      · exact .inr (by simp [h])
      · rcases ih h with h | h
        · exact .inl h
        · exact .inr (List.mem_cons_of_mem _ h)

theorem mem_aextend {x : κ × β} (more : List (κ × β)) :
    ∀ m : List (κ × β), x ∈ aextend m more → x ∈ m ∨ x ∈ more := by
  induction more with
  | nil => intro m h; exact .inl h
  | cons y rest ih =>
    intro m h
    rw [aextend_cons] at h
    rcases ih _ h with h | h
    · rcases mem_ainsert h with h | h
      · exact .inr (by simp [h])
      · exact .inl h
    · exact .inr (List.mem_cons_of_mem _ h)

theorem mem_afromList {x : κ × β} {l : List (κ × β)} (h : x ∈ afromList l) : x ∈ l := by
  rcases mem_aextend l [] h with h | h
  · cases h
  · exact h

theorem alookup_perm {l1 l2 : List (κ × β)} (hp : l1.Perm l2) (hn : (keys l1).Nodup) (k : κ) :
    alookup k l1 = alookup k l2 := by
  have hn2 : (keys l2).Nodup := (hp.map (fun x : κ × β => x.1)).nodup_iff.mp hn
  cases h : alookup k l1 with
  | some v => exact (mem_alookup_of_nodup hn2 (hp.mem_iff.mp (alookup_some_mem h))).symm
  | none =>
    have : k ∉ keys l2 := fun hk => (alookup_none_iff k l1).mp h ((hp.map (fun x : κ × β => x.1)).mem_iff.mpr hk)
    exact ((alookup_none_iff k l2).mpr this).symm

omit [DecidableEq κ] in
theorem nodup_of_nodup_keys {m : List (κ × β)} (h : (keys m).Nodup) : m.Nodup := by
  induction m with
  | nil => exact List.nodup_nil
  | cons x rest ih =>
    simp only [keys_cons, List.nodup_cons] at h ⊢
    exact ⟨fun hx => h.1 (List.mem_map.mpr ⟨x, hx, rfl⟩), ih h.2⟩

/-- two maps with the same lookups hold the same bindings -/
theorem perm_of_alookup_eq {m1 m2 : List (κ × β)} (h1 : (keys m1).Nodup) (h2 : (keys m2).Nodup)
    (h : ∀ k, alookup k m1 = alookup k m2) : m1.Perm m2 := by
  rw [List.perm_ext_iff_of_nodup (nodup_of_nodup_keys h1) (nodup_of_nodup_keys h2)]
  intro ⟨k, v⟩
  constructor
  · intro hm; exact alookup_some_mem ((h k) ▸ mem_alookup_of_nodup h1 hm)
  · intro hm; exact alookup_some_mem ((h k).symm ▸ mem_alookup_of_nodup h2 hm)

end AssocMore

section Canon
variable {V : Type}

open AGV.Topo in
theorem orderedMap_perm (m : List (Source × V)) : (orderedMap m).Perm m := sortBy_perm _ m

open AGV.Topo in
/-- the written form depends on the bindings only -/
theorem orderedMap_ext {m1 m2 : List (Source × V)} (h1 : (keys m1).Nodup) (h2 : (keys m2).Nodup)
    (h : ∀ s, alookup s m1 = alookup s m2) : orderedMap m1 = orderedMap m2 := by
  refine sortBy_canonical (lt := AGV.Snapshot.keyLt) (fun a b c => bytesLt_trans a.1 b.1 c.1)
    (fun a b => bytesLt_asymm a.1 b.1) (perm_of_alookup_eq h1 h2 h) ?_
  have := List.pairwise_map.mp (List.nodup_iff_pairwise_ne.mp h1)
  exact this.imp (fun {a b} h => bytesLt_total a.1 b.1 h)

theorem nodup_keys_orderedMap {m : List (Source × V)} (h : (keys m).Nodup) : (keys (orderedMap m)).Nodup :=
  ((orderedMap_perm m).map (fun x : Source × V => x.1)).nodup_iff.mpr h

/-- reading a written map back gives the same bindings -/
theorem alookup_afromList_orderedMap {m : List (Source × V)} (h : (keys m).Nodup) (s : Source) :
    alookup s (afromList (orderedMap m)) = alookup s m := by
  rw [afromList_nodup _ (nodup_keys_orderedMap h)]
  exact alookup_perm (orderedMap_perm m) (nodup_keys_orderedMap h) s

end Canon

/-! ## canonical snapshot directories -/

section CanonDir
variable {V : Type}

def ids (d : Dir V) : List Id := d.map (·.id)

/-- every snapshot file is named `<id>-snapshot.yml` for its own id, ids pairwise different -/
def CanonicalNames (d : Dir V) : Prop := (∀ f ∈ d, f.name = snapName f.id) ∧ (ids d).Nodup

instance (d : Dir V) : Decidable (CanonicalNames d) := by unfold CanonicalNames; exact inferInstance

theorem CanonicalNames.tail {f : SnapFile V} {d : Dir V} (h : CanonicalNames (f :: d)) : CanonicalNames d :=
  ⟨fun g hg => h.1 g (List.mem_cons_of_mem _ hg), (List.nodup_cons.mp h.2).2⟩

theorem readFile_some {name : Name} {d : Dir V} {f : SnapFile V} (h : readFile name d = some f) :
    f ∈ d ∧ f.name = name := by
  induction d with
  | nil => simp [readFile] at h
  | cons g rest ih =>
    by_cases h1 : g.name = name
    · simp [readFile, h1] at h; subst h; exact ⟨List.mem_cons_self .., h1⟩
    · simp [readFile, h1] at h; exact ⟨List.mem_cons_of_mem _ (ih h).1, (ih h).2⟩

theorem readFile_none_iff (name : Name) (d : Dir V) : readFile name d = none ↔ ∀ g ∈ d, g.name ≠ name := by
  induction d with
  | nil => simp [readFile]
  | cons g rest ih =>
    by_cases h1 : g.name = name <;> simp [readFile, h1, ih]

theorem readFile_of_mem {d : Dir V} (hc : CanonicalNames d) {f : SnapFile V} (hf : f ∈ d) :
    readFile f.name d = some f := by
  induction d with
  | nil => cases hf
  | cons g rest ih =>
    rcases List.mem_cons.mp hf with h | h
    · subst h; simp [readFile]
    · have hne : g.name ≠ f.name := by
        intro e
        rw [hc.1 g (List.mem_cons_self ..), hc.1 f hf] at e
        have := snapName_injective e
        exact (List.nodup_cons.mp hc.2).1 (by show g.id ∈ _; rw [this]; exact List.mem_map.mpr ⟨f, h, rfl⟩)
      simp [readFile, hne, ih hc.tail h]

theorem CanonicalNames.perm {d d' : Dir V} (hp : d.Perm d') (h : CanonicalNames d) : CanonicalNames d' :=
  ⟨fun f hf => h.1 f (hp.mem_iff.mpr hf), (hp.map (fun f : SnapFile V => f.id)).nodup_iff.mp h.2⟩

/-- a canonical directory is a map from names to files: the walk order is irrelevant -/
theorem readFile_perm {d d' : Dir V} (hp : d.Perm d') (h : CanonicalNames d) (name : Name) :
    readFile name d = readFile name d' := by
  cases h1 : readFile name d with
  | some f =>
    obtain ⟨hf, hn⟩ := readFile_some h1
    rw [← hn]; exact (readFile_of_mem (h.perm hp) (hp.mem_iff.mp hf)).symm
  | none =>
    symm; rw [readFile_none_iff] at h1 ⊢
    exact fun g hg => h1 g (hp.mem_iff.mpr hg)

theorem mem_ids_writeFile {x : Id} {f : SnapFile V} {d : Dir V} (h : x ∈ ids (writeFile f d)) :
    x = f.id ∨ x ∈ ids d := by
  induction d with
  | nil => simp [writeFile, ids] at h; exact .inl h
  | cons g rest ih =>
    by_cases h1 : g.name = f.name
    · simp [writeFile, h1, ids] at h
      rcases h with h | h
      · exact .inl h
      · exact .inr (by simp only [ids, List.map_cons, List.mem_cons, List.mem_map]; exact .inr h)
    · simp only [writeFile, h1, if_false, ids, List.map_cons, List.mem_cons] at h
      rcases h with h | h
      · exact .inr (by simp [ids, h])
      · rcases ih h with h | h
        · exact .inl h
        · exact .inr (by simp only [ids, List.map_cons, List.mem_cons]; exact .inr h)

theorem CanonicalNames.writeFile {d : Dir V} (h : CanonicalNames d) (id : Id) (es : List (Source × V)) :
    CanonicalNames (writeFile { name := snapName id, id := id, entries := es } d) := by
  induction d with
  | nil => exact ⟨by simp [AGV.Verify.writeFile], by simp [AGV.Verify.writeFile, ids]⟩
  | cons g rest ih =>
    by_cases h1 : g.name = snapName id
    · have hg : g.id = id := snapName_injective ((h.1 g (List.mem_cons_self ..)).symm.trans h1)
      simp only [AGV.Verify.writeFile, h1, if_true]
      refine ⟨?_, ?_⟩
      · intro f hf
        rcases List.mem_cons.mp hf with hf | hf
        · subst hf; rfl
        · exact h.1 f (List.mem_cons_of_mem _ hf)
      · have := h.2; simp only [ids, List.map_cons] at this ⊢; rw [← hg]; exact this
    · simp only [AGV.Verify.writeFile, h1, if_false]
      have ih' := ih h.tail
      refine ⟨?_, ?_⟩
      · intro f hf
        rcases List.mem_cons.mp hf with hf | hf
        · subst hf; exact h.1 _ (List.mem_cons_self ..)
        · exact ih'.1 f hf
      · show (g.id :: ids _).Nodup
        rw [List.nodup_cons]
        refine ⟨fun hm => ?_, ih'.2⟩
        rcases mem_ids_writeFile hm with hm | hm
        · exact h1 ((h.1 g (List.mem_cons_self ..)).trans (by rw [hm]))
        · exact (List.nodup_cons.mp h.2).1 hm

theorem CanonicalNames.writeMerged (pathIds : List Id) (merged : Coll V) :
    ∀ d : Dir V, CanonicalNames d → CanonicalNames (writeMergedToDisk merged pathIds d) := by
  induction merged with
  | nil => intro d h; exact h
  | cons e rest ih =>
    intro d h
    show CanonicalNames (writeMergedToDisk rest pathIds _)
    apply ih
    by_cases hp : e.1 ∈ pathIds
    · simp only [hp, if_true]; exact h.writeFile _ _
    · simp only [hp, if_false]; exact h

/-- **the loader vs the directory**: in a canonical directory the snapshots loaded for an id are
the entries of the file `<id>-snapshot.yml` (if the id passes the filter) -/
theorem alookup_loadSnapshots_gen (filter : Id → Bool) (id : Id) (d : Dir V) :
    ∀ c : Coll V, CanonicalNames d →
      alookup id (d.foldl (fun c f => if filter f.id then ainsert f.id (afromList f.entries) c else c) c) =
        match (if filter id then readFile (snapName id) d else none) with
        | some g => some (afromList g.entries)
        | none => alookup id c := by
  induction d with
  | nil => intro c _; simp [readFile]
  | cons f rest ih =>
    intro c hc
    rw [List.foldl_cons, ih _ hc.tail]
    have hname := hc.1 f (List.mem_cons_self ..)
    by_cases hid : f.id = id
    · have hrest : readFile (snapName id) rest = none := by
        rw [readFile_none_iff]
        intro g hg e
        have : g.id = id := snapName_injective ((hc.1 g (List.mem_cons_of_mem _ hg)).symm.trans e)
        exact (List.nodup_cons.mp hc.2).1 (by show f.id ∈ _; rw [hid, ← this]; exact List.mem_map.mpr ⟨g, hg, rfl⟩)
      by_cases hf : filter id = true
      · simp [hf, hrest, readFile, hname, hid, alookup_ainsert]
      · simp [hf, hid]
    · have hne : ¬ f.name = snapName id := fun e => hid (snapName_injective (hname.symm.trans e))
      have hstep : alookup id (if filter f.id = true then ainsert f.id (afromList f.entries) c else c) = alookup id c := by
        split
        · rw [alookup_ainsert, if_neg hid]
        · rfl
      simp only [readFile, hne, if_false, hstep]

theorem alookup_loadSnapshots (filter : Id → Bool) (id : Id) (d : Dir V) (hc : CanonicalNames d) :
    alookup id (loadSnapshots filter d) =
      if filter id then (readFile (snapName id) d).map (fun g => afromList g.entries) else none := by
  unfold loadSnapshots
  rw [alookup_loadSnapshots_gen filter id d [] hc]
  by_cases hf : filter id = true
  · simp only [hf, if_true]; cases readFile (snapName id) d <;> simp [alookup]
  · simp [hf, alookup]

theorem nodup_keys_loadSnapshots (filter : Id → Bool) (d : Dir V) : (keys (loadSnapshots filter d)).Nodup := by
  unfold loadSnapshots
  suffices ∀ c : Coll V, (keys c).Nodup →
      (keys (d.foldl (fun c f => if filter f.id then ainsert f.id (afromList f.entries) c else c) c)).Nodup from
    this [] List.nodup_nil
  induction d with
  | nil => intro c h; exact h
  | cons f rest ih =>
    intro c h
    rw [List.foldl_cons]; apply ih
    split
    · exact nodup_keys_ainsert _ _ _ h
    · exact h

theorem inner_nodup_loadSnapshots (filter : Id → Bool) (d : Dir V) :
    ∀ e ∈ loadSnapshots filter d, (keys e.2).Nodup := by
  unfold loadSnapshots
  suffices ∀ c : Coll V, (∀ e ∈ c, (keys e.2).Nodup) →
      ∀ e ∈ d.foldl (fun c f => if filter f.id then ainsert f.id (afromList f.entries) c else c) c, (keys e.2).Nodup from
    this [] (fun e he => by cases he)
  induction d with
  | nil => intro c h; exact h
  | cons f rest ih =>
    intro c h
    rw [List.foldl_cons]; apply ih
    split
    · intro e he
      rcases mem_ainsert he with he | he
      · subst he; exact nodup_keys_afromList _
      · exact h e he
    · exact h

/-- `find?` by name in a map with pairwise different ids = lookup by id -/
theorem find_snapName (id : Id) (pathIds : List Id) (merged : Coll V) (hn : (keys merged).Nodup) :
    merged.find? (fun e => decide (snapName e.1 = snapName id) && decide (e.1 ∈ pathIds)) =
      if id ∈ pathIds then (alookup id merged).map (fun m => (id, m)) else none := by
  induction merged with
  | nil => simp [alookup]
  | cons e rest ih =>
    obtain ⟨a, m⟩ := e
    simp only [keys_cons, List.nodup_cons] at hn
    by_cases ha : a = id
    · subst ha
      by_cases hp : a ∈ pathIds
      · simp [List.find?, hp, alookup]
      · have : List.find? (fun e => decide (snapName e.1 = snapName a) && decide (e.1 ∈ pathIds)) rest = none := by
          rw [List.find?_eq_none]; intro e' he' hc
          simp only [Bool.and_eq_true, decide_eq_true_eq] at hc
          exact hp (snapName_injective hc.1 ▸ hc.2)
        simp [List.find?, hp, this]
    · have : ¬ snapName a = snapName id := fun e => ha (snapName_injective e)
      simp [List.find?, this, alookup, ha, ih hn.2]

/-- rewriting every file with what it holds is the identity -/
theorem writeMerged_same (pathIds : List Id) (merged : Coll V) (d : Dir V)
    (h : ∀ e ∈ merged, e.1 ∈ pathIds →
      readFile (snapName e.1) d = some { name := snapName e.1, id := e.1, entries := orderedMap e.2 }) :
    writeMergedToDisk merged pathIds d = d := by
  induction merged with
  | nil => rfl
  | cons e rest ih =>
    show writeMergedToDisk rest pathIds _ = d
    by_cases hp : e.1 ∈ pathIds
    · simp only [hp, if_true]
      rw [writeFile_same _ _ (h e (List.mem_cons_self ..) hp)]
      exact ih (fun e' he' => h e' (List.mem_cons_of_mem _ he'))
    · simp only [hp, if_false]
      exact ih (fun e' he' => h e' (List.mem_cons_of_mem _ he'))

end CanonDir

end AGV.Verify
