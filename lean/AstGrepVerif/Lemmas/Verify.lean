/-
Helper lemmas for `Props/Verify.lean`: association lists as `HashMap`s, the two "union" loops of
`update_snapshot_collection` / `merge_snapshots`, the snapshot directory.
-/
import AstGrepVerif.Model.Verify
import AstGrepVerif.Lemmas.Order

namespace AGV.Verify

open AGV.Snapshot (Source orderedMap)

section Assoc
variable {κ : Type} {β : Type}

def keys (m : List (κ × β)) : List κ := m.map (·.1)

@[simp] theorem keys_nil : keys ([] : List (κ × β)) = [] := rfl
@[simp] theorem keys_cons (x : κ × β) (m : List (κ × β)) : keys (x :: m) = x.1 :: keys m := rfl

variable [DecidableEq κ]

theorem alookup_ainsert (k k' : κ) (v : β) (m : List (κ × β)) :
    alookup k (ainsert k' v m) = if k' = k then some v else alookup k m := by
  induction m with
  | nil => simp [ainsert, alookup]
  | cons x rest ih =>
    obtain ⟨a, b⟩ := x
    by_cases h : a = k'
    · subst h; by_cases h2 : a = k <;> simp [ainsert, alookup, h2]
    · by_cases h2 : a = k
      · subst h2
        have h' : ¬ k' = a := fun e => h e.symm
        simp [ainsert, alookup, h, h']
      · simp [ainsert, alookup, h, h2, ih]

theorem mem_keys_ainsert (k k' : κ) (v : β) (m : List (κ × β)) :
    k ∈ keys (ainsert k' v m) ↔ k = k' ∨ k ∈ keys m := by
  induction m with
  | nil => simp [ainsert]
  | cons x rest ih =>
    obtain ⟨a, b⟩ := x
    by_cases h : a = k'
    · subst h; simp [ainsert]
    · simp only [ainsert, h, if_false, keys_cons, List.mem_cons, ih]
      constructor
      · rintro (h1 | h1 | h1) <;> simp [h1]
      · rintro (h1 | h1 | h1) <;> simp [h1]

theorem nodup_keys_ainsert (k' : κ) (v : β) (m : List (κ × β)) (h : (keys m).Nodup) :
    (keys (ainsert k' v m)).Nodup := by
  induction m with
  | nil => simp [ainsert]
  | cons x rest ih =>
    obtain ⟨a, b⟩ := x
    simp only [keys_cons, List.nodup_cons] at h
    by_cases h1 : a = k'
    · subst h1; simpa [ainsert] using h
    · simp only [ainsert, h1, if_false, keys_cons, List.nodup_cons]
      refine ⟨fun h2 => ?_, ih h.2⟩
      rcases (mem_keys_ainsert _ _ _ _).mp h2 with h2 | h2
      · exact h1 h2
      · exact h.1 h2

theorem alookup_none_iff (k : κ) (m : List (κ × β)) : alookup k m = none ↔ k ∉ keys m := by
  induction m with
  | nil => simp [alookup]
  | cons x rest ih =>
    obtain ⟨a, b⟩ := x
    by_cases h : a = k
    · simp [alookup, h]
    · simp [alookup, h, ih, Ne.symm h]

theorem alookup_some_mem {k : κ} {v : β} {m : List (κ × β)} (h : alookup k m = some v) : (k, v) ∈ m := by
  induction m with
  | nil => simp [alookup] at h
  | cons x rest ih =>
    obtain ⟨a, b⟩ := x
    by_cases h1 : a = k
    · simp [alookup, h1] at h; simp [h1, h]
    · simp [alookup, h1] at h; exact List.mem_cons_of_mem _ (ih h)

theorem alookup_of_mem_keys {k : κ} {m : List (κ × β)} (h : k ∈ keys m) :
    ∃ v, alookup k m = some v ∧ (k, v) ∈ m := by
  cases hl : alookup k m with
  | none => exact absurd h ((alookup_none_iff k m).mp hl)
  | some v => exact ⟨v, rfl, alookup_some_mem hl⟩

theorem mem_alookup_of_nodup {k : κ} {v : β} {m : List (κ × β)} (hn : (keys m).Nodup) (h : (k, v) ∈ m) :
    alookup k m = some v := by
  induction m with
  | nil => simp at h
  | cons x rest ih =>
    obtain ⟨a, b⟩ := x
    simp only [keys_cons, List.nodup_cons] at hn
    rcases List.mem_cons.mp h with h1 | h1
    · cases h1; simp [alookup]
    · have : a ≠ k := by
        rintro rfl; exact hn.1 (List.mem_map.mpr ⟨(a, v), h1, rfl⟩)
      simp [alookup, this, ih hn.2 h1]

theorem aextend_cons (m : List (κ × β)) (x : κ × β) (more : List (κ × β)) :
    aextend m (x :: more) = aextend (ainsert x.1 x.2 m) more := rfl

theorem alookup_aextend_not_mem (k : κ) (more : List (κ × β)) :
    ∀ m : List (κ × β), k ∉ keys more → alookup k (aextend m more) = alookup k m := by
  induction more with
  | nil => intro m _; rfl
  | cons x rest ih =>
    intro m h
    simp only [keys_cons, List.mem_cons, not_or] at h
    rw [aextend_cons, ih _ h.2, alookup_ainsert, if_neg (Ne.symm h.1)]

theorem alookup_aextend_mem (k : κ) (more : List (κ × β)) :
    ∀ m : List (κ × β), k ∈ keys more → ∃ v, alookup k (aextend m more) = some v ∧ (k, v) ∈ more := by
  induction more with
  | nil => intro m h; simp at h
  | cons x rest ih =>
    intro m h
    rw [aextend_cons]
    by_cases h1 : k ∈ keys rest
    · obtain ⟨v, hv, hm⟩ := ih (ainsert x.1 x.2 m) h1
      exact ⟨v, hv, List.mem_cons_of_mem _ hm⟩
    · have hk : x.1 = k := by
        simp only [keys_cons, List.mem_cons] at h
        rcases h with h | h
        · exact h.symm
        · exact absurd h h1
      refine ⟨x.2, ?_, ?_⟩
      · rw [alookup_aextend_not_mem k rest _ h1, alookup_ainsert, if_pos hk]
      · rw [← hk]; exact List.mem_cons_self ..

theorem mem_keys_aextend (k : κ) (more : List (κ × β)) :
    ∀ m : List (κ × β), k ∈ keys (aextend m more) ↔ k ∈ keys m ∨ k ∈ keys more := by
  induction more with
  | nil => intro m; simp [aextend]
  | cons x rest ih =>
    intro m
    rw [aextend_cons, ih, mem_keys_ainsert, keys_cons, List.mem_cons]
    constructor
    · rintro ((h | h) | h) <;> simp [h]
    · rintro (h | h | h) <;> simp [h]

theorem nodup_keys_aextend (more : List (κ × β)) :
    ∀ m : List (κ × β), (keys m).Nodup → (keys (aextend m more)).Nodup := by
  induction more with
  | nil => intro m h; exact h
  | cons x rest ih => intro m h; rw [aextend_cons]; exact ih _ (nodup_keys_ainsert _ _ _ h)

theorem nodup_keys_afromList (l : List (κ × β)) : (keys (afromList l)).Nodup :=
  nodup_keys_aextend l [] List.nodup_nil

theorem mem_keys_afromList (k : κ) (l : List (κ × β)) : k ∈ keys (afromList l) ↔ k ∈ keys l := by
  simp [afromList, mem_keys_aextend]

/-- collecting a list with pairwise different keys gives the list itself -/
theorem ainsert_not_mem (k : κ) (v : β) (m : List (κ × β)) (h : k ∉ keys m) : ainsert k v m = m ++ [(k, v)] := by
  induction m with
  | nil => rfl
  | cons x rest ih =>
    obtain ⟨a, b⟩ := x
    simp only [keys_cons, List.mem_cons, not_or] at h
    simp [ainsert, Ne.symm h.1, ih h.2]

theorem aextend_nodup_append (more : List (κ × β)) :
    ∀ m : List (κ × β), (keys (m ++ more)).Nodup → aextend m more = m ++ more := by
  induction more with
  | nil => intro m _; simp [aextend]
  | cons x rest ih =>
    intro m h
    have hx : x.1 ∉ keys m := by
      intro hm
      have : (keys m ++ x.1 :: keys rest).Nodup := by simpa [keys] using h
      exact (List.nodup_append.mp this).2.2 _ hm _ (List.mem_cons_self ..) rfl
    rw [aextend_cons, ainsert_not_mem _ _ _ hx, ih]
    · simp
    · simpa using h

theorem afromList_nodup (l : List (κ × β)) (h : (keys l).Nodup) : afromList l = l := by
  have := aextend_nodup_append l [] (by simpa using h)
  simpa [afromList] using this

end Assoc

/-! ## the "union" loop shared by `update_snapshot_collection` and `merge_snapshots` -/

section Union
variable {V : Type}

/-- `mergeStep`; `acceptStep acc r = mergeStep acc (r.id, r.changedSnapshots)` -/
theorem acceptStep_eq [DecidableEq V] (acc : Coll V) (r : CaseResult V) :
    acceptStep acc r = mergeStep acc (r.id, r.changedSnapshots) := rfl

theorem buildAccepted_eq [DecidableEq V] (results : List (CaseResult V)) :
    buildAccepted results = mergeSnapshots (results.map fun r => (r.id, r.changedSnapshots)) [] := by
  simp only [buildAccepted, mergeSnapshots, List.foldl_map]
  rfl

theorem alookup_mergeStep (id : Id) (c : Coll V) (e : Id × List (Source × V)) :
    alookup id (mergeStep c e) =
      if e.1 = id then some (match alookup id c with | some ex => aextend ex e.2 | none => e.2)
      else alookup id c := by
  unfold mergeStep
  by_cases h : e.1 = id
  · subst h
    cases alookup e.1 c <;> simp [alookup_ainsert]
  · cases alookup e.1 c <;> simp [alookup_ainsert, h]

theorem nodup_keys_mergeStep (c : Coll V) (e : Id × List (Source × V)) (h : (keys c).Nodup) :
    (keys (mergeStep c e)).Nodup := by
  unfold mergeStep
  cases alookup e.1 c <;> exact nodup_keys_ainsert _ _ _ h

theorem nodup_keys_mergeSnapshots (L : Coll V) : ∀ c : Coll V, (keys c).Nodup → (keys (mergeSnapshots L c)).Nodup := by
  induction L with
  | nil => intro c h; exact h
  | cons e rest ih => intro c h; exact ih _ (nodup_keys_mergeStep c e h)

/-- which ids the union has -/
theorem alookup_mergeSnapshots_none (id : Id) (L : Coll V) :
    ∀ c : Coll V, alookup id (mergeSnapshots L c) = none ↔ (alookup id c = none ∧ ∀ e ∈ L, e.1 ≠ id) := by
  induction L with
  | nil => intro c; simp [mergeSnapshots]
  | cons e rest ih =>
    intro c
    show alookup id (mergeSnapshots rest (mergeStep c e)) = none ↔ _
    rw [ih, alookup_mergeStep]
    by_cases h : e.1 = id <;> simp [h]

/-- the inner maps of the union stay maps -/
theorem inner_nodup_mergeSnapshots (id : Id) (L : Coll V) :
    ∀ c : Coll V, (∀ m, alookup id c = some m → (keys m).Nodup) → (∀ e ∈ L, e.1 = id → (keys e.2).Nodup) →
      ∀ m, alookup id (mergeSnapshots L c) = some m → (keys m).Nodup := by
  induction L with
  | nil => intro c hc _ m hm; exact hc m hm
  | cons e rest ih =>
    intro c hc hL m hm
    refine ih (mergeStep c e) ?_ (fun e' he' => hL e' (List.mem_cons_of_mem _ he')) m hm
    intro m' hm'
    rw [alookup_mergeStep] at hm'
    by_cases h : e.1 = id
    · rw [if_pos h] at hm'
      cases hc' : alookup id c with
      | none => rw [hc'] at hm'; cases hm'; exact hL e (List.mem_cons_self ..) h
      | some ex => rw [hc'] at hm'; cases hm'; exact nodup_keys_aextend _ _ (hc ex hc')
    · rw [if_neg h] at hm'; exact hc m' hm'

/-- a source no accepted entry of that id mentions keeps its stored value -/
theorem mergeSnapshots_frame (id : Id) (s : Source) (L : Coll V) :
    ∀ c : Coll V, (∀ e ∈ L, e.1 = id → s ∉ keys e.2) →
      (alookup id (mergeSnapshots L c)).bind (alookup s) = (alookup id c).bind (alookup s) := by
  induction L with
  | nil => intro c _; rfl
  | cons e rest ih =>
    intro c h
    show (alookup id (mergeSnapshots rest (mergeStep c e))).bind (alookup s) = _
    rw [ih _ (fun e' he' => h e' (List.mem_cons_of_mem _ he')), alookup_mergeStep]
    by_cases h1 : e.1 = id
    · have hs := h e (List.mem_cons_self ..) h1
      rw [if_pos h1]
      cases hc : alookup id c with
      | none => simp [(alookup_none_iff s e.2).mpr hs]
      | some ex => simp [alookup_aextend_not_mem s e.2 ex hs]
    · rw [if_neg h1]

/-- a source some accepted entry of that id mentions gets an accepted value -/
theorem mergeSnapshots_accepted (id : Id) (s : Source) (L : Coll V) :
    ∀ c : Coll V, (∃ e ∈ L, e.1 = id ∧ s ∈ keys e.2) →
      ∃ v, (alookup id (mergeSnapshots L c)).bind (alookup s) = some v ∧ ∃ e ∈ L, e.1 = id ∧ (s, v) ∈ e.2 := by
  induction L with
  | nil => intro c h; obtain ⟨e, he, _⟩ := h; cases he
  | cons e rest ih =>
    intro c h
    show ∃ v, (alookup id (mergeSnapshots rest (mergeStep c e))).bind (alookup s) = some v ∧ _
    by_cases hr : ∃ e' ∈ rest, e'.1 = id ∧ s ∈ keys e'.2
    · obtain ⟨v, hv, e', he', h1, h2⟩ := ih (mergeStep c e) hr
      exact ⟨v, hv, e', List.mem_cons_of_mem _ he', h1, h2⟩
    · have hrest : ∀ e' ∈ rest, e'.1 = id → s ∉ keys e'.2 := fun e' he' h1 h2 => hr ⟨e', he', h1, h2⟩
      obtain ⟨e0, he0, h1, h2⟩ := h
      have : e0 = e := by
        rcases List.mem_cons.mp he0 with h | h
        · exact h
        · exact absurd h2 (hrest e0 h h1)
      subst this
      rw [mergeSnapshots_frame id s rest _ hrest, alookup_mergeStep, if_pos h1]
      cases hc : alookup id c with
      | none =>
        obtain ⟨v, hv, hm⟩ := alookup_of_mem_keys h2
        exact ⟨v, by simpa using hv, e0, List.mem_cons_self .., h1, hm⟩
      | some ex =>
        obtain ⟨v, hv, hm⟩ := alookup_aextend_mem s e0.2 ex h2
        exact ⟨v, by simpa using hv, e0, List.mem_cons_self .., h1, hm⟩

end Union

/-! ## the snapshot directory -/

section DirLemmas
variable {V : Type}

theorem readFile_writeFile (name : Name) (f : SnapFile V) (d : Dir V) :
    readFile name (writeFile f d) = if f.name = name then some f else readFile name d := by
  induction d with
  | nil => simp [writeFile, readFile]
  | cons g rest ih =>
    by_cases h : g.name = f.name
    · by_cases h2 : f.name = name
      · simp [writeFile, readFile, h, h2]
      · have : ¬ g.name = name := by rw [h]; exact h2
        simp [writeFile, readFile, h, h2, this]
    · by_cases h2 : g.name = name
      · subst h2
        have : ¬ f.name = g.name := fun e => h e.symm
        simp [writeFile, readFile, h, this]
      · simp [writeFile, readFile, h, h2, ih]

theorem writeFile_same (f : SnapFile V) (d : Dir V) (h : readFile f.name d = some f) : writeFile f d = d := by
  induction d with
  | nil => simp [readFile] at h
  | cons g rest ih =>
    by_cases h1 : g.name = f.name
    · simp [readFile, h1] at h; simp [writeFile, h1, h]
    · simp [readFile, h1] at h; simp [writeFile, h1, ih h]

theorem snapName_injective {a b : Id} (h : snapName a = snapName b) : a = b :=
  List.append_cancel_right h

/-- what a name holds after `write_merged_to_disk` -/
theorem readFile_writeMerged (name : Name) (pathIds : List Id) (merged : Coll V) :
    ∀ d : Dir V, (keys merged).Nodup →
      readFile name (writeMergedToDisk merged pathIds d) =
        match merged.find? (fun e => decide (snapName e.1 = name) && decide (e.1 ∈ pathIds)) with
        | some e => some { name := snapName e.1, id := e.1, entries := orderedMap e.2 }
        | none => readFile name d := by
  induction merged with
  | nil => intro d _; rfl
  | cons e rest ih =>
    intro d hn
    simp only [keys_cons, List.nodup_cons] at hn
    show readFile name (writeMergedToDisk rest pathIds _) = _
    rw [ih _ hn.2]
    by_cases hp : e.1 ∈ pathIds
    · by_cases hname : snapName e.1 = name
      · have : rest.find? (fun e' => decide (snapName e'.1 = name) && decide (e'.1 ∈ pathIds)) = none := by
          rw [List.find?_eq_none]
          intro e' he' hc
          simp only [Bool.and_eq_true, decide_eq_true_eq] at hc
          have : e'.1 = e.1 := snapName_injective (hc.1.trans hname.symm)
          exact hn.1 (this ▸ List.mem_map.mpr ⟨e', he', rfl⟩)
        simp [List.find?, hp, hname, this, readFile_writeFile]
      · simp [List.find?, hp, hname, readFile_writeFile]
    · simp [List.find?, hp]

end DirLemmas

end AGV.Verify
