/-
From the repaired fold to `innermost`, for every tree (no "last child" guard): `foldNRFixed` of
`Spec/PostVisit.lean` over the annotated post-order reports exactly the innermost matches and never
trips the debug assertion.  And `innermost` characterised without recursion.
-/
import AstGrepVerif.Lemmas.PostVisitFixed

namespace AGV
open Tree

/-- the forest lemmas for the repaired fold, given the tree lemma for every member of the forest.
`rest = [] ∨ nextFlag rest d = last`: what follows a subtree is consistent with its `last` flag
(a next sibling's subtree, at depth `≥ d`, or the parent, at depth `d - 1`). -/
theorem forest_lemmas_fixed (dbg : Bool) (f : Tree → Bool) (dpar : Nat)
    (cs : List Tree)
    (L : ∀ c ∈ cs, ∀ (last : Bool) (md : Nat) (rest : List PItem), md ≤ dpar + 1 →
      (rest = [] ∨ nextFlag rest (dpar + 1) = last) →
      foldNRFixed dbg f (postItems (dpar + 1) last c ++ rest) md false =
        if (innermost f c).isEmpty then foldNRFixed dbg f rest md (nextFlag rest md)
        else consAll (innermost f c) (foldNRFixed dbg f rest (dpar + 1) last))
    (par : PItem) (hpar : par.depth = dpar) (rest' : List PItem) :
    (∀ md, md ≤ dpar →
      foldNRFixed dbg f (postItemsList (dpar + 1) cs ++ par :: rest') md false =
        if (innermostList f cs).isEmpty then foldNRFixed dbg f (par :: rest') md false
        else consAll (innermostList f cs) (foldNRFixed dbg f (par :: rest') (dpar + 1) true)) ∧
    (cs ≠ [] →
      foldNRFixed dbg f (postItemsList (dpar + 1) cs ++ par :: rest') (dpar + 1) false =
        consAll (innermostList f cs) (foldNRFixed dbg f (par :: rest') (dpar + 1) true)) := by
  induction cs with
  | nil =>
    refine ⟨?_, fun h => absurd rfl h⟩
    intro md _
    simp [postItemsList, innermostList]
  | cons c cs ih =>
    have ihc := ih (fun c' hc' => L c' (List.mem_cons_of_mem _ hc'))
    have hLc := L c (by simp)
    have hflagpar : nextFlag (par :: rest') (dpar + 1) = true := by
      simp [nextFlag, hpar]
    -- what follows `c` is consistent with `c`'s flag
    have hcons : nextFlag (postItemsList (dpar + 1) cs ++ par :: rest') (dpar + 1) = cs.isEmpty := by
      cases cs with
      | nil => simpa [postItemsList] using hflagpar
      | cons x xs => simpa using nextFlag_forest (dpar + 1) (dpar + 1) x xs (par :: rest') (Nat.le_refl _)
    have hsplit : postItemsList (dpar + 1) (c :: cs) ++ par :: rest'
        = postItems (dpar + 1) cs.isEmpty c ++ (postItemsList (dpar + 1) cs ++ par :: rest') := by
      simp [postItemsList]
    -- the second statement (the parent is already known to contain a match)
    have h2 : foldNRFixed dbg f (postItemsList (dpar + 1) (c :: cs) ++ par :: rest') (dpar + 1) false =
        consAll (innermostList f (c :: cs)) (foldNRFixed dbg f (par :: rest') (dpar + 1) true) := by
      rw [hsplit, hLc cs.isEmpty (dpar + 1) _ (Nat.le_refl _) (Or.inr hcons)]
      cases cs with
      | nil =>
        simp only [postItemsList, List.nil_append, innermostList, List.append_nil, List.isEmpty_nil]
        split
        · next he => simp [List.isEmpty_iff.1 he, consAll_nil, hflagpar]
        · rfl
      | cons x xs =>
        have hx := ihc.2 (by simp)
        simp only [List.isEmpty_cons]
        split
        · next he =>
          rw [nextFlag_forest _ _ _ _ _ (Nat.le_refl _), hx]
          simp [innermostList, List.isEmpty_iff.1 he]
        · rw [hx]
          simp [innermostList, consAll_append]
    refine ⟨?_, fun _ => h2⟩
    intro md hmd
    rw [hsplit, hLc cs.isEmpty md _ (by omega) (Or.inr hcons)]
    by_cases he : (innermost f c).isEmpty = true
    · simp only [he, ↓reduceIte]
      have hnil := List.isEmpty_iff.1 he
      cases cs with
      | nil =>
        simp only [postItemsList, List.nil_append, innermostList, hnil, List.append_nil, List.isEmpty_nil,
          ↓reduceIte]
        have : nextFlag (par :: rest') md = false := by
          simp only [nextFlag, hpar, decide_eq_false_iff_not]; omega
        rw [this]
      | cons x xs =>
        rw [nextFlag_forest _ _ _ _ _ (by omega), ihc.1 md hmd]
        simp [innermostList, hnil]
    · simp only [he, Bool.false_eq_true, ↓reduceIte]
      have hne : (innermostList f (c :: cs)).isEmpty = false := by
        have hne' : innermost f c ≠ [] := fun h => he (by simp [h])
        cases hi : innermost f c with
        | nil => exact absurd hi hne'
        | cons a as => simp [innermostList, hi]
      simp only [hne, Bool.false_eq_true, ↓reduceIte]
      cases cs with
      | nil => simp [postItemsList, innermostList]
      | cons x xs =>
        simp only [List.isEmpty_cons]
        rw [ihc.2 (by simp)]
        simp [innermostList, consAll_append]

/-- the tree lemma for the repaired fold: no hypothesis on the tree -/
theorem tree_lemma_fixed (dbg : Bool) (f : Tree → Bool) :
    ∀ (k : Nat) (x : Tree), x.size ≤ k →
      ∀ (d : Nat) (last : Bool) (md : Nat) (rest : List PItem), md ≤ d →
      (rest = [] ∨ nextFlag rest d = last) →
      foldNRFixed dbg f (postItems d last x ++ rest) md false =
        if (innermost f x).isEmpty then foldNRFixed dbg f rest md (nextFlag rest md)
        else consAll (innermost f x) (foldNRFixed dbg f rest d last) := by
  intro k
  induction k with
  | zero => intro x h; have := x.size_pos; omega
  | succ k ih =>
    intro x hk d last md rest hmd hrest
    have hL : ∀ c ∈ x.children, ∀ (last : Bool) (md : Nat) (rest : List PItem), md ≤ d + 1 →
        (rest = [] ∨ nextFlag rest (d + 1) = last) →
        foldNRFixed dbg f (postItems (d + 1) last c ++ rest) md false =
          if (innermost f c).isEmpty then foldNRFixed dbg f rest md (nextFlag rest md)
          else consAll (innermost f c) (foldNRFixed dbg f rest (d + 1) last) := by
      intro c hc last' md' rest'' hmd' hr
      have := Tree.child_size_lt hc
      exact ih c (by omega) (d + 1) last' md' rest'' hmd' hr
    have hF := (forest_lemmas_fixed dbg f d x.children hL ⟨x, d, last⟩ rfl rest).1 md hmd
    rw [Tree.postItems_eq, List.append_assoc, List.singleton_append, hF, Tree.innermost_eq]
    by_cases he : (innermostList f x.children).isEmpty = true
    · simp only [he, ↓reduceIte, Bool.true_and]
      by_cases hx : f x = true
      · simp only [hx, ↓reduceIte, List.isEmpty_cons, Bool.false_eq_true]
        rw [foldNRFixed_matched dbg f ⟨x, d, last⟩ rest md hx hmd]
        rcases hrest with h | h
        · subst h; simp [foldNRFixed_nil]
        · simp only [h]
      · have hx' : f x = false := by simpa using hx
        simp only [hx', Bool.false_eq_true, ↓reduceIte, he]
        exact foldNRFixed_unmatched dbg f ⟨x, d, last⟩ rest md hx'
    · simp only [he, Bool.false_and, Bool.false_eq_true, ↓reduceIte]
      rw [foldNRFixed_skipping]

/-- the repaired fold over the whole annotated post-order = `innermost` -/
theorem foldNRFixed_innermost (dbg : Bool) (f : Tree → Bool) (n : Tree) :
    foldNRFixed dbg f (postItems 0 true n) 0 false = .ok (innermost f n) := by
  have h := tree_lemma_fixed dbg f n.size n (Nat.le_refl _) 0 true 0 [] (Nat.le_refl _) (Or.inl rfl)
  rw [List.append_nil] at h
  rw [h]
  split
  · next he => simp [foldNRFixed_nil, List.isEmpty_iff.1 he]
  · simp [foldNRFixed_nil, consAll]

/-! ## `innermost` without recursion -/

theorem Tree.innermostList_eq_nil {f : Tree → Bool} {ts : List Tree} :
    innermostList f ts = [] ↔ ∀ t ∈ ts, innermost f t = [] := by
  induction ts with
  | nil => simp [innermostList]
  | cons t ts ih => simp [innermostList, ih]

/-- nothing is reported iff nothing in the subtree passes -/
theorem Tree.innermost_eq_nil (f : Tree → Bool) :
    ∀ (k : Nat) (t : Tree), t.size ≤ k → (innermost f t = [] ↔ ∀ y ∈ t.preorder, f y = false) := by
  intro k
  induction k with
  | zero => intro t h; have := t.size_pos; omega
  | succ k ih =>
    intro t hk
    have hin : innermostList f t.children = [] ↔ ∀ y ∈ preorderList t.children, f y = false := by
      rw [Tree.innermostList_eq_nil]
      constructor
      · intro h y hy
        obtain ⟨c, hc, hyc⟩ := Tree.mem_preorderList_iff.1 hy
        have := Tree.child_size_lt hc
        exact (ih c (by omega)).1 (h c hc) y hyc
      · intro h c hc
        have := Tree.child_size_lt hc
        exact (ih c (by omega)).2 (fun y hy => h y (Tree.mem_preorderList_iff.2 ⟨c, hc, hy⟩))
    rw [Tree.innermost_eq]
    constructor
    · intro h y hy
      by_cases he : (innermostList f t.children).isEmpty = true
      · have hnil := List.isEmpty_iff.1 he
        by_cases hft : f t = true
        · simp [he, hft] at h
        · rcases Tree.mem_preorder_iff.1 hy with rfl | hy
          · simpa using hft
          · exact hin.1 hnil y hy
      · rw [if_neg (by simp [he])] at h
        exact absurd (by simp [h]) he
    · intro h
      have hnil := hin.2 (fun y hy => h y (Tree.mem_preorder_iff.2 (Or.inr hy)))
      simp [hnil, h t t.self_mem_preorder]

/-- "no proper descendant passes", as a boolean -/
def Tree.noPassingBelow (f : Tree → Bool) (x : Tree) : Bool :=
  (preorderList x.children).all (fun y => !f y)

theorem Tree.noPassingBelow_iff (f : Tree → Bool) (x : Tree) :
    x.noPassingBelow f = true ↔ ∀ y, Below y x → f y = false := by
  simp only [Tree.noPassingBelow, List.all_eq_true, Bool.not_eq_eq_eq_not, Bool.not_true]
  exact ⟨fun h y hy => h y hy.mem, fun h y hy => h y (Below.of_mem x.size x y (Nat.le_refl _) hy)⟩

theorem Tree.innermostList_isEmpty (f : Tree → Bool) (t : Tree) :
    (innermostList f t.children).isEmpty = t.noPassingBelow f := by
  have hin : innermostList f t.children = [] ↔ ∀ y ∈ preorderList t.children, f y = false := by
    rw [Tree.innermostList_eq_nil]
    constructor
    · intro h y hy
      obtain ⟨c, hc, hyc⟩ := Tree.mem_preorderList_iff.1 hy
      exact (Tree.innermost_eq_nil f c.size c (Nat.le_refl _)).1 (h c hc) y hyc
    · intro h c hc
      exact (Tree.innermost_eq_nil f c.size c (Nat.le_refl _)).2
        (fun y hy => h y (Tree.mem_preorderList_iff.2 ⟨c, hc, hy⟩))
  rw [Bool.eq_iff_iff, List.isEmpty_iff, hin]
  simp [Tree.noPassingBelow]

mutual
/-- `innermost` is the post-order filtered by "passes and no proper descendant passes" -/
theorem Tree.innermost_eq_filter (f : Tree → Bool) : (t : Tree) →
    innermost f t = t.postorder.filter (fun x => f x && x.noPassingBelow f)
  | .node i cs => by
    have hE := Tree.innermostList_isEmpty f (.node i cs)
    have hL := Tree.innermostList_eq_filter f cs
    simp only [Tree.children] at hE
    rw [Tree.innermost_eq, Tree.postorder_eq]
    simp only [Tree.children, List.filter_append, ← hL, hE]
    by_cases hb : Tree.noPassingBelow f (.node i cs) = true
    · have hnil : innermostList f cs = [] := List.isEmpty_iff.1 (hE.trans hb)
      by_cases hf : f (.node i cs) = true <;> simp [hb, hf, hnil, List.filter]
    · have hb' : Tree.noPassingBelow f (.node i cs) = false := by simpa using hb
      simp [hb', List.filter]
theorem Tree.innermostList_eq_filter (f : Tree → Bool) : (ts : List Tree) →
    innermostList f ts = (postorderList ts).filter (fun x => f x && x.noPassingBelow f)
  | [] => by simp [innermostList, postorderList]
  | t :: ts => by
    simp only [innermostList, postorderList, List.filter_append,
      Tree.innermost_eq_filter f t, Tree.innermostList_eq_filter f ts]
end

mutual
theorem Tree.mem_postorder_iff : (t : Tree) → ∀ x, x ∈ t.postorder ↔ x ∈ t.preorder
  | .node i cs => by
    intro x
    simp only [Tree.postorder, Tree.preorder, List.mem_append, List.mem_cons,
      Tree.mem_postorderList_iff cs x, List.not_mem_nil, or_false]
    exact Or.comm
theorem Tree.mem_postorderList_iff : (ts : List Tree) → ∀ x, x ∈ postorderList ts ↔ x ∈ preorderList ts
  | [] => by simp [postorderList, preorderList]
  | t :: ts => by
    intro x
    simp only [postorderList, preorderList, List.mem_append, Tree.mem_postorder_iff t x,
      Tree.mem_postorderList_iff ts x]
end

end AGV
