/-
Lemmas about the dependency sort (`Model/Topo.lean`): the depth-first visit keeps the invariant
"in-progress keys form a dependency chain, completed keys are exactly `order`, `order` lists every
key after its dependencies", so an error names a key on a cycle, success yields a valid order of
all visited keys, and the fuel of `getOrder` is never exhausted.
-/
import AstGrepVerif.Model.Topo

set_option linter.unusedSimpArgs false
set_option linter.unusedVariables false

namespace AGV.Topo

variable {α : Type} [DecidableEq α]

/-! ## the dependency graph of a map -/

def IsKey (maps : List (α × List α)) (k : α) : Prop := ∃ deps, lookup k maps = some deps

/-- `a` depends on `b` and both are keys of the map (references to unknown keys are ignored by
the sort, as in the code) -/
def Edge (maps : List (α × List α)) (a b : α) : Prop :=
  ∃ deps, lookup a maps = some deps ∧ b ∈ deps ∧ IsKey maps b

/-- one or more dependency steps -/
inductive Reach (maps : List (α × List α)) : α → α → Prop
  | single {a b} : Edge maps a b → Reach maps a b
  | step {a b c} : Edge maps a b → Reach maps b c → Reach maps a c

/-- `k` lies on a dependency cycle -/
def Cyclic (maps : List (α × List α)) (k : α) : Prop := Reach maps k k

theorem Reach.tail {maps : List (α × List α)} {a b c : α} (h : Reach maps a b) (e : Edge maps b c) :
    Reach maps a c := by
  induction h with
  | single e1 => exact .step e1 (.single e)
  | step e1 _ ih => exact .step e1 (ih e)

theorem lookup_isSome_mem {β : Type} {k : α} {m : List (α × β)} {v : β} (h : lookup k m = some v) :
    k ∈ m.map (·.1) := by
  induction m with
  | nil => simp [lookup] at h
  | cons hd tl ih =>
    obtain ⟨k', v'⟩ := hd
    simp only [lookup] at h
    split at h
    · next heq => simp [heq]
    · simp only [List.map_cons, List.mem_cons]; exact .inr (ih h)

/-! ## valid orders -/

/-- `ValidR l`: `l` is a *reversed* order: every element is a key, occurs once, and all its
dependencies that are keys occur later in `l` (= earlier in the order). -/
inductive ValidR (maps : List (α × List α)) : List α → Prop
  | nil : ValidR maps []
  | cons {x l} : ValidR maps l → x ∉ l → IsKey maps x →
      (∀ deps, lookup x maps = some deps → ∀ d ∈ deps, IsKey maps d → d ∈ l) → ValidR maps (x :: l)

theorem ValidR.nodup {maps : List (α × List α)} {l : List α} (h : ValidR maps l) : l.Nodup := by
  induction h with
  | nil => simp
  | cons _ hx _ _ ih => exact List.nodup_cons.mpr ⟨hx, ih⟩

theorem ValidR.edge_closed {maps : List (α × List α)} {l : List α} (h : ValidR maps l) :
    ∀ {a b}, a ∈ l → Edge maps a b → b ∈ l := by
  induction h with
  | nil => intro a b ha; simp at ha
  | cons _ hx _ hd ih =>
    intro a b ha he
    rcases List.mem_cons.mp ha with rfl | ha
    · obtain ⟨deps, h1, h2, h3⟩ := he
      exact List.mem_cons_of_mem _ (hd deps h1 b h2 h3)
    · exact List.mem_cons_of_mem _ (ih ha he)

theorem ValidR.reach_closed {maps : List (α × List α)} {l : List α} (h : ValidR maps l)
    {a b : α} (hr : Reach maps a b) : a ∈ l → b ∈ l := by
  induction hr with
  | single e => intro ha; exact h.edge_closed ha e
  | step e _ ih => intro ha; exact ih (h.edge_closed ha e)

theorem ValidR.acyclic {maps : List (α × List α)} {l : List α} (h : ValidR maps l) :
    ∀ {a}, a ∈ l → ¬ Reach maps a a := by
  induction h with
  | nil => intro a ha; simp at ha
  | cons hl hx _ hd ih =>
    rename_i x l
    intro a ha hr
    rcases List.mem_cons.mp ha with rfl | ha
    · -- the first step leaves towards `l`, which is closed under `Reach`
      cases hr with
      | single e =>
        obtain ⟨deps, h1, h2, h3⟩ := e
        exact hx (hd deps h1 _ h2 h3)
      | step e hr' =>
        obtain ⟨deps, h1, h2, h3⟩ := e
        exact hx (hl.reach_closed hr' (hd deps h1 _ h2 h3))
    · exact ih ha hr

/-- in a reversed valid order the dependencies of an element are found after it -/
theorem ValidR.deps_after {maps : List (α × List α)} :
    ∀ {a : List α} {x : α} {b : List α}, ValidR maps (a ++ x :: b) →
      IsKey maps x ∧ ∀ deps, lookup x maps = some deps → ∀ d ∈ deps, IsKey maps d → d ∈ b := by
  intro a
  induction a with
  | nil =>
    intro x b h
    cases h with
    | cons _ _ hk hd => exact ⟨hk, hd⟩
  | cons y a ih =>
    intro x b h
    cases h with
    | cons hl _ _ _ => exact ih hl

/-! ## the invariant of the visit -/

/-- in-progress keys, newest first: each is a key and was reached from the next one -/
def IsStack (maps : List (α × List α)) : List α → Prop
  | [] => True
  | [a] => IsKey maps a
  | a :: b :: rest => Edge maps b a ∧ IsStack maps (b :: rest)

theorem IsStack.reach_head {maps : List (α × List α)} :
    ∀ {p : α} {rest : List α}, IsStack maps (p :: rest) → ∀ x ∈ (p :: rest), x = p ∨ Reach maps x p := by
  intro p rest
  induction rest generalizing p with
  | nil => intro _ x hx; simp at hx; exact .inl hx
  | cons q rest ih =>
    intro h x hx
    obtain ⟨e, hs⟩ := h
    rcases List.mem_cons.mp hx with rfl | hx
    · exact .inl rfl
    · rcases ih hs x hx with rfl | hr
      · exact .inr (.single e)
      · exact .inr (hr.tail e)

theorem IsStack.head_isKey {maps : List (α × List α)} {p : α} {rest : List α}
    (h : IsStack maps (p :: rest)) : IsKey maps p := by
  cases rest with
  | nil => exact h
  | cons q rest =>
    obtain ⟨⟨_, _, _, hk⟩, _⟩ := h
    exact hk

structure Inv (maps : List (α × List α)) (path : List α) (st : State α) : Prop where
  seenF : ∀ x, lookup x st.seen = some false ↔ x ∈ path
  seenT : ∀ x, lookup x st.seen = some true ↔ x ∈ st.order
  stack : IsStack maps path
  valid : ValidR maps st.order.reverse
  pnodup : path.Nodup
  pkeys : ∀ x ∈ path, IsKey maps x

/-- what a visit (or a sequence of visits) of `keys` started in `st` may return -/
def Post (maps : List (α × List α)) (path : List α) (st : State α) (keys : List α) :
    Except (Err α) (State α) → Prop
  | .error .fuel => False
  | .error (.cyclic e) => Cyclic maps e
  | .ok st' => Inv maps path st' ∧ (∃ ext, st'.order = st.order ++ ext) ∧
      ∀ d ∈ keys, IsKey maps d → d ∈ st'.order

theorem foldE_post {maps : List (α × List α)} {path : List α}
    (f : State α → α → Except (Err α) (State α)) (ds0 : List α)
    (hf : ∀ st d, Inv maps path st → d ∈ ds0 → Post maps path st [d] (f st d)) :
    ∀ ds, (∀ d ∈ ds, d ∈ ds0) → ∀ st, Inv maps path st → Post maps path st ds (foldE f st ds) := by
  intro ds
  induction ds with
  | nil =>
    intro _ st hinv
    simp only [foldE, Post]
    exact ⟨hinv, ⟨[], by simp⟩, by simp⟩
  | cons d ds ih =>
    intro hsub st hinv
    have h1 := hf st d hinv (hsub d (by simp))
    simp only [foldE]
    cases hfd : f st d with
    | error e =>
      rw [hfd] at h1
      cases e with
      | fuel => exact h1
      | cyclic k => exact h1
    | ok st1 =>
      rw [hfd] at h1
      obtain ⟨hinv1, ⟨ext1, hext1⟩, hmem1⟩ := h1
      have h2 := ih (fun x hx => hsub x (List.mem_cons_of_mem _ hx)) st1 hinv1
      simp only []
      cases hrest : foldE f st1 ds with
      | error e =>
        rw [hrest] at h2
        cases e with
        | fuel => exact h2
        | cyclic k => exact h2
      | ok st2 =>
        rw [hrest] at h2
        obtain ⟨hinv2, ⟨ext2, hext2⟩, hmem2⟩ := h2
        refine ⟨hinv2, ⟨ext1 ++ ext2, by rw [hext2, hext1, List.append_assoc]⟩, ?_⟩
        intro x hx hk
        rcases List.mem_cons.mp hx with rfl | hx
        · have := hmem1 x (by simp) hk
          rw [hext2]; exact List.mem_append_left _ this
        · exact hmem2 x hx hk

theorem lookup_cons_ne {β : Type} {k k' : α} {v : β} {m : List (α × β)} (h : k' ≠ k) :
    lookup k ((k', v) :: m) = lookup k m := by
  simp [lookup, h]

theorem lookup_cons_eq {β : Type} {k : α} {v : β} {m : List (α × β)} :
    lookup k ((k, v) :: m) = some v := by
  simp [lookup]

/-- The specification of `visit`, for every fuel that still covers the keys not yet on the stack. -/
theorem visit_post (maps : List (α × List α)) :
    ∀ fuel key st path, Inv maps path st →
      (∀ p, path.head? = some p → ∃ deps, lookup p maps = some deps ∧ key ∈ deps) →
      maps.length + 1 ≤ fuel + path.length →
      Post maps path st [key] (visit maps fuel key st) := by
  intro fuel
  induction fuel with
  | zero =>
    intro key st path hinv _ hfuel
    -- the stack is a duplicate-free list of keys: it cannot be longer than the map
    exfalso
    have hsub : path ⊆ maps.map (·.1) := by
      intro x hx
      obtain ⟨deps, hd⟩ := hinv.pkeys x hx
      exact lookup_isSome_mem hd
    have := List.Nodup.length_le_of_subset hinv.pnodup hsub
    simp at this
    omega
  | succ fuel ih =>
    intro key st path hinv hhead hfuel
    simp only [visit]
    cases hseen : lookup key st.seen with
    | some b =>
      cases b with
      | true =>
        simp only [Post]
        exact ⟨hinv, ⟨[], by simp⟩, by
          intro d hd _; simp at hd; subst hd; exact (hinv.seenT _).mp hseen⟩
      | false =>
        simp only [Post]
        -- `key` is on the stack: the chain from `key` up to the top, then the edge back
        have hmem : key ∈ path := (hinv.seenF key).mp hseen
        cases path with
        | nil => simp at hmem
        | cons p rest =>
          obtain ⟨deps, hp, hkd⟩ := hhead p rfl
          have hkk : IsKey maps key := hinv.pkeys key hmem
          have e : Edge maps p key := ⟨deps, hp, hkd, hkk⟩
          rcases hinv.stack.reach_head key hmem with rfl | hr
          · exact .single e
          · exact hr.tail e
    | none =>
      simp only []
      cases hmap : lookup key maps with
      | none =>
        simp only [Post]
        exact ⟨hinv, ⟨[], by simp⟩, by
          intro d hd hk; simp at hd; subst hd
          obtain ⟨deps, h⟩ := hk; rw [hmap] at h; cases h⟩
      | some deps =>
        simp only []
        have hkey : IsKey maps key := ⟨deps, hmap⟩
        have hnotpath : key ∉ path := by
          intro h; have := (hinv.seenF key).mpr h; rw [hseen] at this; cases this
        have hnotorder : key ∉ st.order := by
          intro h; have := (hinv.seenT key).mpr h; rw [hseen] at this; cases this
        -- the state with `key` pushed on the stack
        have hinv1 : Inv maps (key :: path) { st with seen := (key, false) :: st.seen } := by
          refine ⟨?_, ?_, ?_, hinv.valid, List.nodup_cons.mpr ⟨hnotpath, hinv.pnodup⟩, ?_⟩
          · intro x
            by_cases hx : key = x
            · subst hx; simp [lookup_cons_eq]
            · simp only [lookup_cons_ne hx, List.mem_cons]
              rw [hinv.seenF x]
              constructor
              · exact .inr
              · rintro (h | h)
                · exact absurd h.symm hx
                · exact h
          · intro x
            by_cases hx : key = x
            · subst hx; simp [lookup_cons_eq, hnotorder]
            · simp only [lookup_cons_ne hx]; exact hinv.seenT x
          · cases path with
            | nil => exact hkey
            | cons p rest =>
              obtain ⟨dp, hp, hkd⟩ := hhead p rfl
              exact ⟨⟨dp, hp, hkd, hkey⟩, hinv.stack⟩
          · intro x hx
            rcases List.mem_cons.mp hx with rfl | hx
            · exact hkey
            · exact hinv.pkeys x hx
        have hfold := foldE_post (maps := maps) (path := key :: path)
          (fun s d => visit maps fuel d s) deps
          (by
            intro s d hs hd
            exact ih d s (key :: path) hs (by intro p hp; simp at hp; subst hp; exact ⟨deps, hmap, hd⟩)
              (by simp only [List.length_cons]; omega))
          deps (fun _ h => h) _ hinv1
        cases hres : foldE (fun s d => visit maps fuel d s) { st with seen := (key, false) :: st.seen } deps with
        | error e =>
          rw [hres] at hfold
          cases e with
          | fuel => exact hfold
          | cyclic k => exact hfold
        | ok st' =>
          rw [hres] at hfold
          obtain ⟨hinv', ⟨ext, hext⟩, hdeps⟩ := hfold
          simp only [Post]
          have hkseen : lookup key st'.seen = some false := (hinv'.seenF key).mpr (by simp)
          have hknot : key ∉ st'.order := by
            intro h; have := (hinv'.seenT key).mpr h; rw [hkseen] at this; cases this
          refine ⟨⟨?_, ?_, ?_, ?_, hinv.pnodup, hinv.pkeys⟩, ⟨ext ++ [key], ?_⟩, ?_⟩
          · intro x
            by_cases hx : key = x
            · subst hx; simp [lookup_cons_eq, hnotpath]
            · simp only [lookup_cons_ne hx]
              rw [hinv'.seenF x]
              constructor
              · intro h
                rcases List.mem_cons.mp h with h | h
                · exact absurd h.symm hx
                · exact h
              · exact List.mem_cons_of_mem _
          · intro x
            by_cases hx : key = x
            · subst hx; simp [lookup_cons_eq]
            · simp only [lookup_cons_ne hx, List.mem_append, List.mem_singleton]
              rw [hinv'.seenT x]
              constructor
              · exact .inl
              · rintro (h | h)
                · exact h
                · exact absurd h.symm hx
          · exact hinv.stack
          · simp only [List.reverse_append, List.reverse_cons, List.reverse_nil, List.nil_append,
              List.singleton_append]
            refine .cons hinv'.valid (by simpa using hknot) hkey ?_
            intro deps' hl d hd hk
            rw [hmap] at hl; cases hl
            simpa using hdeps d hd hk
          · simp only [hext, List.append_assoc]
          · intro d hd _
            simp at hd; subst hd; simp

/-- `foldE` of top-level visits (empty stack) -/
theorem getOrderWith_post (maps : List (α × List α)) (keys : List α) :
    Post maps [] ⟨[], []⟩ keys
      (foldE (fun s k => visit maps (maps.length + 1) k s) ⟨[], []⟩ keys) := by
  have hinv0 : Inv maps [] (⟨[], []⟩ : State α) :=
    ⟨by intro x; simp [lookup], by intro x; simp [lookup], trivial, by simpa using ValidR.nil,
     by simp, by simp⟩
  exact foldE_post (maps := maps) (path := []) _ keys
    (by
      intro s d hs _
      exact visit_post maps _ d s [] hs (by simp) (by simp))
    keys (fun _ h => h) _ hinv0

/-- in a reversed valid order no element (later in the order) is a dependency of an element
further down the list (earlier in the order) -/
theorem ValidR.pairwise_no_later_writer {maps : List (α × List α)} {l : List α} (h : ValidR maps l) :
    l.Pairwise (fun later earlier => ∀ deps, lookup earlier maps = some deps → later ∉ deps) := by
  induction h with
  | nil => simp
  | cons hl hx hk _ ih =>
    refine List.pairwise_cons.mpr ⟨?_, ih⟩
    intro y hy deps hd hxd
    exact hx (hl.edge_closed hy ⟨deps, hd, hxd, hk⟩)

theorem ValidR.all_keys {maps : List (α × List α)} {l : List α} (h : ValidR maps l) :
    ∀ x ∈ l, IsKey maps x := by
  induction h with
  | nil => simp
  | cons _ _ hk _ ih =>
    intro y hy
    rcases List.mem_cons.mp hy with rfl | hy
    · exact hk
    · exact ih y hy

omit [DecidableEq α] in
theorem nodup_of_reverse {l : List α} (h : l.reverse.Nodup) : l.Nodup :=
  List.nodup_iff_pairwise_ne.mpr
    ((List.pairwise_reverse.mp (List.nodup_iff_pairwise_ne.mp h)).imp (fun h => Ne.symm h))

/-- the facts about a successful `getOrderWith` in invariant form -/
theorem getOrderWith_ok {maps : List (α × List α)} {keys order : List α}
    (h : getOrderWith maps keys = .ok order) :
    ValidR maps order.reverse ∧ ∀ k ∈ keys, IsKey maps k → k ∈ order := by
  have hp := getOrderWith_post maps keys
  unfold getOrderWith at h
  cases hf : foldE (fun s k => visit maps (maps.length + 1) k s) ⟨[], []⟩ keys with
  | error e' => rw [hf] at h; simp at h
  | ok st =>
    rw [hf] at hp h
    simp only [Except.ok.injEq] at h
    subst h
    exact ⟨hp.1.valid, hp.2.2⟩

end AGV.Topo
