/-
Every document is `Closed` (`Lemmas/RuleFuel.lean`): the nodes of a tree are closed under the
navigation of the rule evaluator, and every candidate list has at most `size` elements.
-/
import AstGrepVerif.Lemmas.RuleFuel

namespace AGV.RuleFuel

open AGV

theorem mem_preorder_self (t : Tree) : t ∈ t.preorder := by
  cases t with
  | node i cs => simp [Tree.preorder]

mutual
theorem preorder_trans : ∀ (t m d : Tree), m ∈ t.preorder → d ∈ m.preorder → d ∈ t.preorder
  | .node i cs, m, d, hm, hd => by
    simp only [Tree.preorder, List.mem_cons] at hm ⊢
    rcases hm with rfl | hm
    · simpa [Tree.preorder] using hd
    · exact Or.inr (preorderList_trans cs m d hm hd)
theorem preorderList_trans : ∀ (ts : List Tree) (m d : Tree), m ∈ Tree.preorderList ts → d ∈ m.preorder →
    d ∈ Tree.preorderList ts
  | [], m, d, hm, _ => by simp [Tree.preorderList] at hm
  | t :: ts, m, d, hm, hd => by
    simp only [Tree.preorderList, List.mem_append] at hm ⊢
    rcases hm with hm | hm
    · exact Or.inl (preorder_trans t m d hm hd)
    · exact Or.inr (preorderList_trans ts m d hm hd)
end

theorem mem_preorderList_of_mem : ∀ (ts : List Tree) (c : Tree), c ∈ ts → c ∈ Tree.preorderList ts
  | [], c, h => by cases h
  | t :: ts, c, h => by
    simp only [Tree.preorderList, List.mem_append]
    rcases List.mem_cons.mp h with rfl | h
    · exact Or.inl (mem_preorder_self _)
    · exact Or.inr (mem_preorderList_of_mem ts c h)

theorem child_mem_preorder (t c : Tree) (h : c ∈ t.children) : c ∈ t.preorder := by
  cases t with
  | node i cs =>
    simp only [Tree.children] at h
    simp only [Tree.preorder, List.mem_cons]
    exact Or.inr (mem_preorderList_of_mem cs c h)

mutual
theorem preorder_length : ∀ t : Tree, t.preorder.length = t.size
  | .node i cs => by simp [Tree.preorder, Tree.size, preorderList_length cs]; omega
theorem preorderList_length : ∀ ts : List Tree, (Tree.preorderList ts).length = Tree.sizeList ts
  | [] => by simp [Tree.preorderList, Tree.sizeList]
  | t :: ts => by simp [Tree.preorderList, Tree.sizeList, preorder_length t, preorderList_length ts]
end

mutual
theorem size_le_of_mem : ∀ (t m : Tree), m ∈ t.preorder → m.size ≤ t.size
  | .node i cs, m, hm => by
    simp only [Tree.preorder, List.mem_cons] at hm
    rcases hm with rfl | hm
    · exact Nat.le_refl _
    · have := sizeList_le_of_mem cs m hm
      simp only [Tree.size]; omega
theorem sizeList_le_of_mem : ∀ (ts : List Tree) (m : Tree), m ∈ Tree.preorderList ts → m.size ≤ Tree.sizeList ts
  | [], m, hm => by simp [Tree.preorderList] at hm
  | t :: ts, m, hm => by
    simp only [Tree.preorderList, List.mem_append] at hm
    simp only [Tree.sizeList]
    rcases hm with hm | hm
    · have := size_le_of_mem t m hm; omega
    · have := sizeList_le_of_mem ts m hm; omega
end

theorem sizeList_children_lt (t : Tree) : Tree.sizeList t.children < t.size := by
  cases t with
  | node i cs => simp [Tree.children, Tree.size]

mutual
theorem pathTo_mem : ∀ (id : Nat) (t : Tree) (p : List Tree), pathTo id t = some p →
    (∀ x ∈ p, x ∈ t.preorder) ∧ p.length ≤ t.size
  | id, .node i cs, p, h => by
    simp only [pathTo] at h
    split at h
    · injection h with h
      subst h
      exact ⟨by intro x hx; simp only [List.mem_singleton] at hx; subst hx; exact mem_preorder_self _,
        by simp [Tree.size]⟩
    · cases hp : pathToList id cs with
      | none => rw [hp] at h; cases h
      | some q =>
        rw [hp] at h
        injection h with h
        subst h
        obtain ⟨h1, h2⟩ := pathToList_mem id cs q hp
        refine ⟨?_, by simp only [List.length_cons, Tree.size]; omega⟩
        intro x hx
        rcases List.mem_cons.mp hx with rfl | hx
        · exact mem_preorder_self _
        · simp only [Tree.preorder, List.mem_cons]
          exact Or.inr (h1 x hx)
theorem pathToList_mem : ∀ (id : Nat) (ts : List Tree) (p : List Tree), pathToList id ts = some p →
    (∀ x ∈ p, x ∈ Tree.preorderList ts) ∧ p.length ≤ Tree.sizeList ts
  | id, [], p, h => by simp [pathToList] at h
  | id, t :: ts, p, h => by
    simp only [pathToList] at h
    cases hp : pathTo id t with
    | some q =>
      rw [hp] at h
      injection h with h
      subst h
      obtain ⟨h1, h2⟩ := pathTo_mem id t q hp
      refine ⟨?_, by simp only [Tree.sizeList]; omega⟩
      intro x hx
      simp only [Tree.preorderList, List.mem_append]
      exact Or.inl (h1 x hx)
    | none =>
      rw [hp] at h
      obtain ⟨h1, h2⟩ := pathToList_mem id ts p h
      refine ⟨?_, by simp only [Tree.sizeList]; omega⟩
      intro x hx
      simp only [Tree.preorderList, List.mem_append]
      exact Or.inr (h1 x hx)
end

theorem ancestors_mem (root n : Tree) :
    (∀ a ∈ ancestorsOf root n, a ∈ root.preorder) ∧ (ancestorsOf root n).length ≤ root.size := by
  unfold ancestorsOf
  cases hp : pathTo n.id root with
  | none => simp
  | some p =>
    obtain ⟨h1, h2⟩ := pathTo_mem n.id root p hp
    simp only
    refine ⟨?_, ?_⟩
    · intro a ha
      rw [List.mem_reverse] at ha
      exact h1 a (List.dropLast_subset p ha)
    · simp only [List.length_reverse, List.length_dropLast]; omega

theorem parent_mem_preorder (root n p : Tree) (h : parentOf root n = some p) : p ∈ root.preorder := by
  unfold parentOf at h
  have := (ancestors_mem root n).1
  cases ha : ancestorsOf root n with
  | nil => rw [ha] at h; cases h
  | cons a as =>
    rw [ha] at h this
    simp only [List.head?_cons, Option.some.injEq] at h
    subst h
    exact this a List.mem_cons_self

/-- **every document is closed**: `S` = its nodes, `W` = its size -/
theorem closed_of_tree (ctx : RCtx) : Closed ctx ctx.root.preorder ctx.root.size := by
  have hsz : ∀ m ∈ ctx.root.preorder, m.size ≤ ctx.root.size := size_le_of_mem ctx.root
  have hchild : ∀ m ∈ ctx.root.preorder, ∀ c ∈ m.children, c ∈ ctx.root.preorder :=
    fun m hm c hc => preorder_trans ctx.root m c hm (child_mem_preorder m c hc)
  have hclen : ∀ m ∈ ctx.root.preorder, m.children.length ≤ ctx.root.size := by
    intro m hm
    have := length_le_sizeList m.children
    have := sizeList_children_lt m
    have := hsz m hm
    omega
  refine ⟨fun m _ => ancestors_mem ctx.root m, ?_, ?_, ?_, ?_, ?_⟩
  · intro m hm
    refine ⟨hchild m hm, ?_⟩
    have := sizeList_children_lt m
    have := hsz m hm
    omega
  · intro m hm
    refine ⟨fun d hd => preorder_trans ctx.root m d hm hd, ?_⟩
    rw [preorder_length]; exact hsz m hm
  · intro m _
    unfold nextAllOf nextOf
    cases hp : parentOf ctx.root m with
    | none => simp
    | some host =>
      have hh := parent_mem_preorder ctx.root m host hp
      simp only
      refine ⟨?_, ?_, ?_⟩
      · intro x hx
        cases hf : firstChildForByte m.start host.children with
        | none => rw [hf] at hx; cases hx
        | some k =>
          rw [hf] at hx
          exact hchild host hh x (List.mem_of_mem_drop hx)
      · cases hf : firstChildForByte m.start host.children with
        | none => simp
        | some k =>
          simp only [List.length_drop]
          have := hclen host hh
          omega
      · intro x hx
        cases hi : indexById m host.children with
        | none => rw [hi] at hx; cases hx
        | some k =>
          rw [hi] at hx
          simp only at hx
          exact hchild host hh x (List.mem_of_getElem? hx)
  · intro m _
    unfold prevAllOf prevOf
    cases hp : parentOf ctx.root m with
    | none => simp
    | some host =>
      have hh := parent_mem_preorder ctx.root m host hp
      simp only
      refine ⟨?_, ?_, ?_⟩
      · intro x hx
        cases hf : firstChildForByte m.start host.children with
        | none => rw [hf] at hx; cases hx
        | some k =>
          rw [hf] at hx
          rw [List.mem_reverse] at hx
          exact hchild host hh x (List.mem_of_mem_take hx)
      · cases hf : firstChildForByte m.start host.children with
        | none => simp
        | some k =>
          simp only [List.length_reverse, List.length_take]
          have := hclen host hh
          omega
      · intro x hx
        cases hi : indexById m host.children with
        | none => rw [hi] at hx; cases hx
        | some k =>
          rw [hi] at hx
          cases k with
          | zero => cases hx
          | succ k =>
            simp only at hx
            exact hchild host hh x (List.mem_of_getElem? hx)
  · intro m hm f c hc
    unfold childByField at hc
    exact hchild m hm c (List.mem_of_find?_eq_some hc)

end AGV.RuleFuel
