/-
Helper lemmas for `Model/Print.lean`: the context scanner, `display_context`, lines of a slice.
-/
import AstGrepVerif.Model.Print
import AstGrepVerif.Lemmas.Bytes

set_option linter.unusedSimpArgs false
set_option linter.unusedVariables false

namespace AGV

/-! ## positions in a text -/

/-- offset `i` is the start of a line: the start of the text or just after a newline -/
def IsLineStart (src : Bytes) (i : Nat) : Prop :=
  i ≤ src.length ∧ (i = 0 ∨ src[i - 1]? = some NL)

/-- offset `j` is the end of a line (terminator excluded): the end of the text or at a newline -/
def IsLineEnd (src : Bytes) (j : Nat) : Prop :=
  j ≤ src.length ∧ (j = src.length ∨ src[j]? = some NL)

/-! ## slices -/

theorem slice_length (src : Bytes) (a b : Nat) (hb : b ≤ src.length) :
    (slice src a b).length = b - a := by
  simp [slice]; omega

theorem slice_append (src : Bytes) (a b c : Nat) (hab : a ≤ b) (hbc : b ≤ c) :
    slice src a b ++ slice src b c = slice src a c := by
  unfold slice
  have h1 : src.drop b = (src.drop a).drop (b - a) := by
    rw [List.drop_drop]; congr 1; omega
  rw [h1]
  have h2 : c - a = (b - a) + (c - b) := by omega
  rw [h2, List.take_add]

theorem slice_self (src : Bytes) (a : Nat) : slice src a a = [] := by simp [slice]

theorem slice_zero (src : Bytes) (b : Nat) : slice src 0 b = src.take b := by simp [slice]

theorem take_append_slice (src : Bytes) (a b : Nat) (hab : a ≤ b) :
    src.take a ++ slice src a b = src.take b := by
  rw [← slice_zero, slice_append src 0 a b (Nat.zero_le _) hab, slice_zero]

theorem slice_append_drop (src : Bytes) (a b : Nat) (hab : a ≤ b) :
    slice src a b ++ src.drop b = src.drop a := by
  unfold slice
  have h1 : src.drop b = (src.drop a).drop (b - a) := by
    rw [List.drop_drop]; congr 1; omega
  rw [h1, List.take_append_drop]

/-- if the first `s` bytes split as `A ++ P`, then `P` is the slice from `|A|` to `s` -/
theorem slice_of_take_eq (src A P : Bytes) (s : Nat) (hs : s ≤ src.length)
    (h : src.take s = A ++ P) : src.take A.length = A ∧ slice src A.length s = P := by
  have hlen : A.length + P.length = s := by
    have := congrArg List.length h
    simp at this; omega
  have hsrc : src = A ++ (P ++ src.drop s) := by
    rw [← List.append_assoc, ← h, List.take_append_drop]
  constructor
  · conv => lhs; rw [hsrc]
    simp
  · unfold slice
    conv => lhs; rw [hsrc]
    rw [List.drop_left' rfl]
    have : s - A.length = P.length := by omega
    rw [this]; simp

/-! ## the context scanner -/

/-- What one `while` loop of `display_context` computes. Started with counter `n ≥ 1` on `bs`,
it walks over `pre` and stops either *at* the `n`-th newline (counter 0, `pre` holds `n - 1`
newlines) or at the end of `bs` (counter `r > 0`, `bs` holds `n - r` newlines). -/
theorem ctxScan_spec (bs : Bytes) (n : Nat) (hn : 1 ≤ n) :
    ∃ pre post, bs = pre ++ post ∧ pre.length = (ctxScan bs n).1 ∧
      (((ctxScan bs n).2 = 0 ∧ pre.count NL = n - 1 ∧ ∃ post', post = NL :: post') ∨
       ((ctxScan bs n).2 ≠ 0 ∧ post = [] ∧ pre.count NL + (ctxScan bs n).2 = n)) := by
  induction bs generalizing n with
  | nil => exact ⟨[], [], rfl, rfl, .inr ⟨by simp [ctxScan]; omega, rfl, by simp [ctxScan]⟩⟩
  | cons b bs ih =>
    by_cases hb : b = NL
    · by_cases h1 : n - 1 = 0
      · refine ⟨[], b :: bs, rfl, by simp [ctxScan, hb, h1], .inl ⟨by simp [ctxScan, hb, h1], by simp; omega, bs, by rw [hb]⟩⟩
      · obtain ⟨pre, post, hsplit, hlen, hcase⟩ := ih (n - 1) (by omega)
        have hs : ctxScan (b :: bs) n = ((ctxScan bs (n - 1)).1 + 1, (ctxScan bs (n - 1)).2) := by
          simp [ctxScan, hb, h1]
        refine ⟨b :: pre, post, by simp [hsplit], by simp [hs, hlen], ?_⟩
        rw [hs]
        rcases hcase with ⟨h0, hc, hp⟩ | ⟨h0, hp, hc⟩
        · exact .inl ⟨h0, by simp [hb, hc]; omega, hp⟩
        · exact .inr ⟨h0, hp, by simp [hb]; omega⟩
    · obtain ⟨pre, post, hsplit, hlen, hcase⟩ := ih n hn
      have hs : ctxScan (b :: bs) n = ((ctxScan bs n).1 + 1, (ctxScan bs n).2) := by
        simp [ctxScan, hb]
      refine ⟨b :: pre, post, by simp [hsplit], by simp [hs, hlen], ?_⟩
      rw [hs]
      have hcnt : (b :: pre).count NL = pre.count NL := List.count_cons_of_ne (fun h => hb h)
      rcases hcase with ⟨h0, hc, hp⟩ | ⟨h0, hp, hc⟩
      · exact .inl ⟨h0, by rw [hcnt, hc], hp⟩
      · exact .inr ⟨h0, hp, by rw [hcnt, hc]⟩

/-! ## display_context -/

theorem isLineStart_of_take (src A : Bytes) (hA : src.take A.length = A) (hl : A.length ≤ src.length)
    (h : A = [] ∨ ∃ A', A = A' ++ [NL]) : IsLineStart src A.length := by
  refine ⟨hl, ?_⟩
  rcases h with h | ⟨A', h⟩
  · left; simp [h]
  · right
    have h1 : (src.take A.length)[A.length - 1]? = A[A.length - 1]? := by rw [hA]
    have hpos : A.length - 1 < A.length := by rw [h]; simp
    rw [List.getElem?_take_of_lt hpos] at h1
    rw [h1, h]; simp

theorem isLineEnd_of_drop (src B : Bytes) (j : Nat) (hj : j ≤ src.length) (hB : src.drop j = B)
    (h : B = [] ∨ ∃ B', B = NL :: B') : IsLineEnd src j := by
  refine ⟨hj, ?_⟩
  rcases h with h | ⟨B', h⟩
  · left
    have := congrArg List.length hB
    simp [h] at this; omega
  · right
    have : (src.drop j)[0]? = some NL := by rw [hB, h]; simp
    simpa using this

/-- **`display_context` computes whole lines.** For a node `s..e` inside the text, the call does
not panic, and there are offsets `ls ≤ s`, `te ≥ e` with: `leading = src[ls..s)`,
`matched = src[s..e)`, `trailing = src[e..te)`; `ls` is a line start, `te` a line end;
`leading` holds exactly `min before (lines above)` newlines and `trailing` exactly
`min after (newlines below)`; `start_line` is the line number of `ls`. -/
theorem displayContext_index (src : Bytes) (s e b a : Nat) (hse : s ≤ e) (he : e ≤ src.length) :
    ∃ ls te, ls ≤ s ∧ e ≤ te ∧
      displayContext src s e b a = some { matched := slice src s e, leading := slice src ls s,
                                           trailing := slice src e te, startLine := lineOf src ls } ∧
      IsLineStart src ls ∧ IsLineEnd src te ∧
      (slice src ls s).count NL = min b (lineOf src s) ∧
      (slice src e te).count NL = min a ((src.drop e).count NL) := by
  have hs : s ≤ src.length := Nat.le_trans hse he
  -- backwards loop
  obtain ⟨pre1, post1, hsplit1, hlen1, hcase1⟩ := ctxScan_spec (src.take s).reverse (b + 1) (by omega)
  -- forwards loop
  obtain ⟨pre2, post2, hsplit2, hlen2, hcase2⟩ := ctxScan_spec (src.drop e) (a + 1) (by omega)
  have htake : src.take s = post1.reverse ++ pre1.reverse := by
    have := congrArg List.reverse hsplit1
    simpa using this
  obtain ⟨hA, hP⟩ := slice_of_take_eq src post1.reverse pre1.reverse s hs htake
  have hAlen : post1.reverse.length + pre1.length = s := by
    have := congrArg List.length htake
    simp at this; simp; omega
  have hk1 : (ctxScan (src.take s).reverse (b + 1)).1 = pre1.length := hlen1.symm
  have hk2 : (ctxScan (src.drop e) (a + 1)).1 = pre2.length := hlen2.symm
  have hlineS : lineOf src s = post1.count NL + pre1.count NL := by
    rw [lineOf_eq, htake]; simp [List.count_append]
  have hpre2len : e + pre2.length ≤ src.length := by
    have := congrArg List.length hsplit2
    simp at this; omega
  have hT : slice src e (e + pre2.length) = pre2 := by
    unfold slice; rw [hsplit2]; simp
  have hB : src.drop (e + pre2.length) = post2 := by
    rw [← List.drop_drop, hsplit2]; simp
  refine ⟨post1.reverse.length, e + pre2.length, by omega, by omega, ?_, ?_, ?_, ?_, ?_⟩
  · -- the computed value
    have hnp1 : ¬ s > src.length := by omega
    have hnp2 : ¬ (e > src.length ∨ s > e) := by omega
    have hmin : min e src.length = e := Nat.min_eq_left he
    have hlead : s - pre1.length = post1.reverse.length := by omega
    have hlineLs : lineOf src post1.reverse.length = post1.count NL := by
      rw [lineOf_eq, hA]; simp
    simp only [displayContext, hnp1, hnp2, ↓reduceIte, hmin, hk1, hk2, hlead]
    rcases hcase1 with ⟨h0, hc, _⟩ | ⟨h0, hp, hc⟩
    · have hoff : ¬ b > lineOf src s := by rw [hlineS]; omega
      simp only [h0, ↓reduceIte, hoff, hlineLs]
      congr 2
      rw [hlineS]; omega
    · have hoff : ¬ b + 1 - (ctxScan (src.take s).reverse (b + 1)).2 > lineOf src s := by
        rw [hlineS]; omega
      simp only [h0, ↓reduceIte, hoff, hlineLs]
      congr 2
      rw [hlineS, hp]; simp; omega
  · exact isLineStart_of_take src _ hA (by omega) (by
      rcases hcase1 with ⟨_, _, post', hp⟩ | ⟨_, hp, _⟩
      · right; exact ⟨post'.reverse, by simp [hp]⟩
      · left; simp [hp])
  · exact isLineEnd_of_drop src post2 _ hpre2len hB (by
      rcases hcase2 with ⟨_, _, post', hp⟩ | ⟨_, hp, _⟩
      · right; exact ⟨post', hp⟩
      · left; exact hp)
  · rw [hP, List.count_reverse, hlineS]
    rcases hcase1 with ⟨_, hc, _⟩ | ⟨h0, hp, hc⟩
    · omega
    · simp [hp]; omega
  · rw [hT, hsplit2, List.count_append]
    rcases hcase2 with ⟨_, hc, post', hp⟩ | ⟨h0, hp, hc⟩
    · simp [hp]; omega
    · simp [hp]; omega

end AGV
